import AcraModel.Proxy.Placement
/-
Pending: the proxy's queue of statements that await their result (`PgProtocolState.pendingQueryPackets`,
`decryptor/postgresql/{protocol.go,pending_packets.go,pg_decryptor.go}`) and the prepared statement /
portal registry (`prepared_statements.go`), as state machines over wire events.

The model follows the code after the `fix:` commit that records the Sync points in the queue
(`queryPacket.syncPoint`, `forgetPendingQueriesUntilSyncPoint`).

The second half is the *joint system* proxy + database used by `pending_pairs`: the database is any
PostgreSQL-conforming backend (answers requests in order; after an error it discards everything up to the
next Sync; ReadyForQuery answers a Sync / the end of a simple query). The events of the joint system may be
interleaved arbitrarily: requests are sent whenever the client likes (pipelining), responses come whenever
the database rules allow.
-/
namespace AcraModel.Proxy

/-- an element of the queue: a forwarded statement (simple Query or Execute) with the payload `α` that
selects the settings for its rows, or a Sync point -/
inductive Entry (α : Type) where
  | query (q : α)
  | sync
deriving DecidableEq, Repr

namespace Entry
def isQuery {α} : Entry α → Bool
  | .query _ => true
  | .sync => false
end Entry

/-- `forgetPendingQueriesUntilSyncPoint(inclusive)` -/
def dropToSync {α} (incl : Bool) : List (Entry α) → List (Entry α)
  | [] => []
  | .sync :: r => if incl then r else .sync :: r
  | .query _ :: r => dropToSync incl r

/-- `handleQueryDataPacket`: the pending statement whose settings are applied to a DataRow
(`none`: the row is forwarded unprocessed) -/
def rowEntry {α} : List (Entry α) → Option α
  | .query q :: _ => some q
  | _ => none

/-- database-side events the protocol state looks at -/
inductive DbEv where
  | dataRow
  | done        -- CommandComplete, EmptyQueryResponse or PortalSuspended
  | error       -- ErrorResponse
  | ready       -- ReadyForQuery
  | other
deriving DecidableEq, Repr

/-- `PgProtocolState.HandleDatabasePacket` on the queue -/
def dbStep {α} (p : List (Entry α)) : DbEv → List (Entry α)
  | .done =>
    match p with
    | .query _ :: r => r
    | _ => p
  | .error => dropToSync false p
  | .ready => dropToSync true p
  | _ => p

/-! ### registry of prepared statements and portals -/

/-- `PgPreparedStatement`: `uid` stands for the pointer identity, `cursors` for its map of portals -/
structure Prepared (α : Type) where
  uid : Nat
  payload : α
  cursors : List Name
deriving Repr

structure Registry (α β : Type) where
  stmts : List (Name × Prepared α) := []
  /-- portal ↦ (uid of its statement, statement payload, bind data) -/
  portals : List (Name × (Nat × α × β)) := []
  next : Nat := 0
deriving Repr

namespace Registry
variable {α β : Type}

def stmt (r : Registry α β) (n : Name) : Option (Prepared α) := (r.stmts.find? (·.1 == n)).map (·.2)
def portal (r : Registry α β) (n : Name) : Option (Nat × α × β) := (r.portals.find? (·.1 == n)).map (·.2)

/-- `DeleteStatement` + `AddStatement` -/
def addStatement (r : Registry α β) (n : Name) (s : α) : Registry α β :=
  let dead := match r.stmt n with | some old => old.cursors | none => []
  { stmts := (n, { uid := r.next, payload := s, cursors := [] }) :: r.stmts.filter (·.1 != n),
    portals := r.portals.filter (fun (p, _) => !dead.contains p),
    next := r.next + 1 }

/-- `registerCursor` + `AddCursor`: `none` = ErrStatementNotFound (the connection is closed) -/
def addCursor (r : Registry α β) (portal n : Name) (b : β) : Option (Registry α β) :=
  match r.stmt n with
  | none => none
  | some st =>
    some { r with
      stmts := r.stmts.map (fun (m, s) => if m == n then (m, { s with cursors := portal :: s.cursors }) else (m, s)),
      portals := (portal, (st.uid, st.payload, b)) :: r.portals.filter (·.1 != portal) }
end Registry

/-- what a pending entry of the real queue carries: the simple query, or the prepared statement and
the Bind of the executed portal -/
inductive Src (α β : Type) where
  | simple (s : α)
  | extended (s : α) (b : β)
deriving DecidableEq, Repr

/-- client-side events the proxy looks at (after AcraCensor: `censored` queries are not forwarded) -/
inductive ClEv (α β : Type) where
  | query (s : α) (censored : Bool)
  | parse (name : Name) (s : α) (censored : Bool)
  | bind (portal stmt : Name) (b : β)
  | execute (portal : Name)
  | sync
  | other
deriving Repr

structure PState (α β : Type) where
  pending : List (Entry (Src α β)) := []
  reg : Registry α β := {}

/-- `PgProxy.handleClientPacket` on queue and registry: `none` = the handler returns an error and the
connection is closed; the second component says whether the packet is forwarded to the database -/
def clStep {α β} (st : PState α β) : ClEv α β → Option (PState α β × Bool)
  | .query s censored =>
    if censored then some (st, false)
    else some ({ st with pending := st.pending ++ [.query (.simple s), .sync] }, true)
  | .parse n s censored =>
    if censored then some (st, false) else some ({ st with reg := st.reg.addStatement n s }, true)
  | .bind p n b =>
    match st.reg.addCursor p n b with
    | none => none
    | some r => some ({ st with reg := r }, true)
  | .execute p =>
    match st.reg.portal p with
    | none => none
    | some (_, s, b) => some ({ st with pending := st.pending ++ [.query (.extended s b)] }, true)
  | .sync => some ({ st with pending := st.pending ++ [.sync] }, true)
  | .other => some (st, true)

/-! ### the joint system proxy + database -/

/-- events of the joint system -/
inductive JEv (α : Type) where
  /-- the client sends (and the proxy forwards) a statement to execute / a Sync -/
  | send (r : Entry α)
  /-- the database answers the statement it is working on with a DataRow -/
  | row
  /-- … finishes it (CommandComplete / EmptyQueryResponse / PortalSuspended) -/
  | done
  /-- … reports an error (for that statement, or for a Parse/Bind/Describe in front of it) -/
  | error
  /-- … answers a Sync with ReadyForQuery -/
  | ready
deriving Repr

/-- `p`: the proxy's queue; `d`: the requests the database still has to answer; `skipping`: the database
discards requests until the next Sync -/
structure Joint (α : Type) where
  p : List (Entry α) := []
  d : List (Entry α) := []
  skipping : Bool := false

def hasSync {α} (l : List (Entry α)) : Bool := l.any (fun e => !e.isQuery)

/-- one step; `none` = the database rules do not allow this event now. For `row` the third component
is the pair (statement the database is answering, statement whose settings the proxy applies). -/
def jstep {α} (j : Joint α) : JEv α → Option (Joint α × Option (α × Option α))
  | .send r =>
    let d' := if j.skipping && r.isQuery then j.d else j.d ++ [r]
    some ({ p := j.p ++ [r], d := d', skipping := j.skipping && r.isQuery }, none)
  | .row =>
    match j.d with
    | .query q :: _ => some (j, some (q, rowEntry j.p))
    | _ => none
  | .done =>
    match j.d with
    | .query _ :: r => some ({ j with p := dbStep j.p .done, d := r }, none)
    | _ => none
  | .error =>
    if j.skipping then none else
    let d' := dropToSync false j.d
    some ({ p := dbStep j.p .error, d := d', skipping := !hasSync d' }, none)
  | .ready =>
    match j.d with
    | .sync :: r => some ({ j with p := dbStep j.p .ready, d := r }, none)
    | _ => none

/-- run a list of events; collects the pairs observed at the DataRows -/
def jrun {α} : Joint α → List (JEv α) → Option (Joint α × List (α × Option α))
  | j, [] => some (j, [])
  | j, e :: es =>
    match jstep j e with
    | none => none
    | some (j', o) =>
      match jrun j' es with
      | none => none
      | some (j'', os) => some (j'', (match o with | some x => [x] | none => []) ++ os)

/-! ### the invariant -/

/-- the proxy's queue is the database's queue behind a (possibly empty) run of statements the database
has already discarded; such a run only exists while the database is skipping or is about to answer a Sync -/
structure Inv {α} (j : Joint α) : Prop where
  ex : ∃ junk : List (Entry α), (∀ e ∈ junk, e.isQuery = true) ∧ j.p = junk ++ j.d ∧
        (junk ≠ [] → (j.d = [] ∧ j.skipping = true) ∨ j.d.head? = some .sync)
  skip : j.skipping = true → j.d = []

theorem dropToSync_junk {α} (incl : Bool) (junk d : List (Entry α)) (h : ∀ e ∈ junk, e.isQuery = true) :
    dropToSync incl (junk ++ d) = dropToSync incl d := by
  induction junk with
  | nil => rfl
  | cons e r ih =>
    have he := h e (by simp)
    cases e with
    | sync => simp [Entry.isQuery] at he
    | query q =>
      simp only [List.cons_append, dropToSync]
      exact ih (fun x hx => h x (by simp [hx]))

theorem dropToSync_noSync {α} (incl : Bool) (d : List (Entry α)) (h : hasSync (dropToSync incl d) = false) (hi : incl = false) :
    dropToSync incl d = [] := by
  induction d with
  | nil => rfl
  | cons e r ih =>
    cases e with
    | sync => subst hi; simp [dropToSync, hasSync, Entry.isQuery] at h
    | query q => simp only [dropToSync] at h ⊢; exact ih h

theorem dropToSync_false_head {α} (d : List (Entry α)) : dropToSync false d = [] ∨ (dropToSync false d).head? = some .sync := by
  induction d with
  | nil => left; rfl
  | cons e r ih =>
    cases e with
    | sync => right; simp [dropToSync]
    | query q => simpa [dropToSync] using ih

theorem inv_init {α} : Inv ({} : Joint α) :=
  ⟨⟨[], by simp, rfl, by simp⟩, by simp⟩

/-- every enabled step preserves the invariant, and at a DataRow the proxy applies the settings of the
statement the database is answering -/
theorem inv_step {α} (j j' : Joint α) (e : JEv α) (o : Option (α × Option α)) (hi : Inv j) (hs : jstep j e = some (j', o)) :
    Inv j' ∧ (∀ q x, o = some (q, x) → x = some q) := by
  obtain ⟨⟨junk, hq, hp, hj⟩, hsk⟩ := hi
  cases e with
  | send r =>
    simp only [jstep, Option.some.injEq, Prod.mk.injEq] at hs
    obtain ⟨rfl, rfl⟩ := hs
    refine ⟨?_, by intro q x h; cases h⟩
    cases hskip : j.skipping with
    | false =>
      simp only [hskip, Bool.false_and, Bool.false_eq_true, if_false] at *
      refine ⟨⟨junk, hq, by simp [hp], ?_⟩, by simp⟩
      intro hne
      cases hj hne with
      | inl h => exact absurd h.2 (by simp)
      | inr h =>
        right
        cases hd : j.d with
        | nil => simp [hd] at h
        | cons a t => simp [hd] at h ⊢; exact h
    | true =>
      have hd : j.d = [] := hsk hskip
      cases r with
      | query q =>
        simp only [hskip, Entry.isQuery, Bool.and_self, if_true]
        refine ⟨⟨junk ++ [.query q], ?_, by simp [hp, hd], ?_⟩, fun _ => hd⟩
        · intro e he
          simp only [List.mem_append, List.mem_singleton] at he
          cases he with
          | inl h => exact hq e h
          | inr h => subst h; rfl
        · intro _; left; exact ⟨hd, rfl⟩
      | sync =>
        simp only [hskip, Entry.isQuery, Bool.and_false, Bool.false_eq_true, if_false]
        refine ⟨⟨junk, hq, by simp [hp], ?_⟩, by simp⟩
        intro _; right; simp [hd]
  | row =>
    simp only [jstep] at hs
    cases hd : j.d with
    | nil => simp [hd] at hs
    | cons a t =>
      cases a with
      | sync => simp [hd] at hs
      | query q =>
        simp only [hd, Option.some.injEq, Prod.mk.injEq] at hs
        obtain ⟨rfl, rfl⟩ := hs
        have hjunk : junk = [] := by
          apply Classical.byContradiction
          intro hne
          cases hj hne with
          | inl h => simp [hd] at h
          | inr h => simp [hd] at h
        refine ⟨⟨⟨junk, hq, hp, hj⟩, hsk⟩, ?_⟩
        intro q' x h
        simp only [Option.some.injEq, Prod.mk.injEq] at h
        obtain ⟨rfl, rfl⟩ := h
        simp [hp, hjunk, hd, rowEntry]
  | done =>
    simp only [jstep] at hs
    cases hd : j.d with
    | nil => simp [hd] at hs
    | cons a t =>
      cases a with
      | sync => simp [hd] at hs
      | query q =>
        simp only [hd, Option.some.injEq, Prod.mk.injEq] at hs
        obtain ⟨rfl, rfl⟩ := hs
        have hjunk : junk = [] := by
          apply Classical.byContradiction
          intro hne
          cases hj hne with
          | inl h => simp [hd] at h
          | inr h => simp [hd] at h
        refine ⟨⟨⟨[], by simp, ?_, by simp⟩, ?_⟩, by intro q x h; cases h⟩
        · simp [hp, hjunk, hd, dbStep]
        · intro h; have := hsk h; simp [hd] at this
  | error =>
    simp only [jstep] at hs
    cases hskip : j.skipping with
    | true => simp [hskip] at hs
    | false =>
      simp only [hskip, Bool.false_eq_true, if_false, Option.some.injEq, Prod.mk.injEq] at hs
      obtain ⟨rfl, rfl⟩ := hs
      refine ⟨⟨⟨[], by simp, ?_, by simp⟩, ?_⟩, by intro q x h; cases h⟩
      · simp only [dbStep, hp, List.nil_append]
        exact dropToSync_junk false junk j.d hq
      · intro h
        simp only [Bool.not_eq_true'] at h
        exact dropToSync_noSync false j.d h rfl
  | ready =>
    simp only [jstep] at hs
    cases hd : j.d with
    | nil => simp [hd] at hs
    | cons a t =>
      cases a with
      | query q => simp [hd] at hs
      | sync =>
        simp only [hd, Option.some.injEq, Prod.mk.injEq] at hs
        obtain ⟨rfl, rfl⟩ := hs
        refine ⟨⟨⟨[], by simp, ?_, by simp⟩, ?_⟩, by intro q x h; cases h⟩
        · simp only [dbStep, hp, hd, List.nil_append]
          rw [dropToSync_junk true junk _ hq]
          simp [dropToSync]
        · intro h; have := hsk h; simp [hd] at this

theorem inv_run {α} (evs : List (JEv α)) (j j' : Joint α) (obs : List (α × Option α)) (hi : Inv j)
    (hr : jrun j evs = some (j', obs)) : Inv j' ∧ ∀ q x, (q, x) ∈ obs → x = some q := by
  induction evs generalizing j obs with
  | nil =>
    simp only [jrun, Option.some.injEq, Prod.mk.injEq] at hr
    obtain ⟨rfl, rfl⟩ := hr
    exact ⟨hi, by intro q x h; cases h⟩
  | cons e es ih =>
    simp only [jrun] at hr
    cases h1 : jstep j e with
    | none => simp [h1] at hr
    | some r1 =>
      obtain ⟨j1, o⟩ := r1
      simp only [h1] at hr
      cases h2 : jrun j1 es with
      | none => simp [h2] at hr
      | some r2 =>
        obtain ⟨j2, os⟩ := r2
        simp only [h2, Option.some.injEq, Prod.mk.injEq] at hr
        obtain ⟨rfl, rfl⟩ := hr
        obtain ⟨hi1, ho⟩ := inv_step j j1 e o hi h1
        obtain ⟨hi2, hos⟩ := ih j1 os hi1 h2
        refine ⟨hi2, ?_⟩
        intro q x hm
        simp only [List.mem_append] at hm
        cases hm with
        | inl h =>
          cases o with
          | none => simp at h
          | some y =>
            simp only [List.mem_singleton] at h
            exact ho q x (by rw [h])
        | inr h => exact hos q x h

end AcraModel.Proxy
