import AcraModel.Proxy.Session
import AcraModel.Wire.LenEnc
import AcraModel.Typed.IntCodec
/-
The MySQL front end at session level (`decryptor/mysql`): bound parameters of COM_STMT_EXECUTE
(`handleStatementExecute` → `OnBind` → `encryptValuesWithPlaceholders`, `mysqlBoundValue`), and result
rows (`processTextDataRow` / `processBinaryDataRow` → `onColumnDecryption` → the subscriber chain of
`proxyFactory.New`: `DataDecoderProcessor` → compat wrapper around the envelope detector with the decrypt
callback → `DataEncoderProcessor`), for columns configured with transparent encryption only.

Column types: the processors distinguish fixed-width integers (converted to decimal text before and back
after the detector) from the length-encoded types; FLOAT / DOUBLE / NULL-typed columns are outside the model.
-/
namespace AcraModel.Proxy
open AcraModel AcraModel.Envelope AcraModel.Wire.LenEnc AcraModel.Typed

/-- type of a result column as far as `decodeBinary` / `encodeBinary` care -/
inductive MyType where
  /-- length-encoded types (BLOB family, VARCHAR, VAR_STRING, STRING, DECIMAL, date/time as text …) -/
  | str
  /-- signed integer of `k` bytes (TINY 1, SHORT/YEAR 2, INT24/LONG 4, LONGLONG 8) -/
  | int (k : Nat)
deriving DecidableEq, Repr

/-- `PutLengthEncodedString` of a non-NULL value -/
def myLenEnc (d : Bytes) : Bytes := putLengthEncodedString (some d)

/-! ### bound parameters -/

/-- `QueryDataEncryptor.OnBind` (MySQL): which parameters are transformed. The VALUES rows as for PostgreSQL
(`getInsertPlaceholders`), then – after the `fix:` that handles them – the placeholders of
`ON DUPLICATE KEY UPDATE`, checked against the number of bound values. -/
def bindPlanMy (sch : Schema) (s : Stmt) (nvalues : Nat) : BindPlan :=
  match s with
  | .insert i =>
    match sch.table i.table with
    | none => .untouched
    | some t =>
      let cols := insertColumns t i
      if cols.isEmpty then .untouched else
      match insertPlaceholdersRows cols (if i.fromSelect then [] else i.rows) 0 [] with
      | none => .error
      | some m =>
        match updatePlaceholders nvalues i.onDup m with
        | none => .error
        | some m' => planOf t m'
  | .update u =>
    match sch.table u.table with
    | none => .untouched
    | some t =>
      match updatePlaceholders nvalues u.sets [] with
      | none => .error
      | some m => planOf t m
  | _ => .untouched

/-- `handleStatementExecute`: the parameter values of the forwarded COM_STMT_EXECUTE. `mysqlBoundValue.GetData`
returns the value as bound and `SetData` stores the chain's result as it is – the PostgreSQL loop with every
parameter in binary format. An error leaves the packet as received (only logged). -/
def forwardBindMy (c : CryptoOps) (kv : KeyView) (sch : Schema) (s : Stmt) (params : List (Option Bytes))
    (order : List Nat) (rnd : Bytes) : BindOut :=
  match bindPlanMy sch s params.length with
  | .untouched | .error => .same
  | .plan m =>
    if m.isEmpty then .same else
    match bindLoop c kv m (params.map fun v => (Fmt.binary, v)) order params rnd with
    | some ps => .changed ps
    | none => .same

/-! ### result columns -/

/-- `DataDecoderProcessor.OnColumn` (the type encoders of `bytes` / `str` columns return nil from `Decode`):
text protocol – the value as it is; binary protocol – integers become decimal text (`decodeBinary`), a
value too short for its type and all length-encoded types stay as they are. -/
def decodeColMy (fmt : Fmt) (ty : MyType) (data : Bytes) : Bytes :=
  match fmt, ty with
  | .binary, .int k => if data.length < k then data else formatInt (leToInt (data.take k))
  | _, _ => data

/-- the tail of `encodeBinary`: re-encode by the column's (original) type -/
def encodeByTypeMy (ty : MyType) (data : Bytes) : Out Bytes :=
  match ty with
  | .str => .ok (myLenEnc data)
  | .int k =>
    match parseInt data (8 * k) with
    | some n => .ok (intToLE k n)
    | none => .err

/-- `DataEncoderProcessor.OnColumn` (default `response_on_fail`): the bytes put into the row. In the text
protocol every branch ends in `PutLengthEncodedString`; in the binary protocol a `bytes` / `str` column that
was decrypted is written as a length-encoded string, everything else by the column's type (for a column
whose type was rewritten: by its original type). -/
def encodeColMy (s : Option ColSetting) (fmt : Fmt) (ty : MyType) (decrypted : Bool) (data : Bytes) : Out Bytes :=
  if data.isEmpty then .ok (myLenEnc data) else
  match fmt with
  | .text => .ok (myLenEnc data)
  | .binary =>
    let dt := match s with | some s => s.dtype | none => .none
    if dt != .none && decrypted then .ok (myLenEnc data) else encodeByTypeMy ty data

/-- **readChainMy**: one non-NULL result column through the subscriber chain of the MySQL `proxyFactory.New` -/
def readChainMy (c : CryptoOps) (kv : KeyView) (s : Option ColSetting) (fmt : Fmt) (ty : MyType) (data : Bytes) : Out Bytes :=
  let d := decodeColMy fmt ty data
  match onColumnCompat [decryptCallback c kv] d with
  | .fatal => .err
  | .panic => .panic
  | .ok out _ => encodeColMy s fmt ty (out != d) out

/-- `processTextDataRow` / `processBinaryDataRow` over the columns of a row: NULL columns are skipped, an error
in one column fails the response. Values are the bytes put on the wire for each column. -/
def deliverColsMy (c : CryptoOps) (kv : KeyView) (settings : List (Option ColSetting)) (fmt : Fmt) (types : List MyType) :
    Nat → List (Option Bytes) → Out (List (Option Bytes))
  | _, [] => .ok []
  | i, none :: r => (deliverColsMy c kv settings fmt types (i + 1) r).bind fun o => .ok (none :: o)
  | i, some d :: r =>
    (readChainMy c kv (settingAt settings i) fmt ((types[i]?).getD .str) d).bind fun x =>
      (deliverColsMy c kv settings fmt types (i + 1) r).bind fun o => .ok (some x :: o)

/-- a row of the result of statement `s` (the statement analysed last: `querySelectSettings`) -/
def deliverRowMy (c : CryptoOps) (kv : KeyView) (sch : Schema) (s : Stmt) (fmt : Fmt) (types : List MyType)
    (cols : List (Option Bytes)) : Out (List (Option Bytes)) :=
  deliverColsMy c kv (resultSettings sch s) fmt types 0 cols

/-- what a client reads from the bytes of one column: the string of a length-encoded value, the bytes of a
fixed-width one -/
def clientValueMy (fmt : Fmt) (ty : MyType) (wire : Bytes) : Option Bytes :=
  match fmt, ty with
  | .binary, .int _ => some wire
  | _, _ =>
    match lengthEncodedString wire with
    | .ok (some v, _) => some v
    | _ => none

/-- the MySQL database sends a stored value as a length-encoded string in either protocol (BLOB / VARCHAR column) -/
def dbOutMy (stored : Bytes) : Bytes := stored

end AcraModel.Proxy
