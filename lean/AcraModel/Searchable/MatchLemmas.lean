import AcraModel.Searchable.ProcessorLemmas
import AcraModel.Envelope.ScanLemmas
import AcraModel.Envelope.SafeUnchanged
/-!
`EnvelopeMatcher.Match` looks at EVERY offset of the data it is given: a serialized container anywhere in
the data – not only at its start – makes it answer "matched". This is what lets `hmac.Processor` cut the
search hash off a value in which something was put between hash and envelope (or in front of a whole other
stored value), so that the second call can compare the hash with what the detector decrypted.
-/
namespace AcraModel.Searchable
open AcraModel AcraModel.Envelope

/-- the matcher's callback list: the compatibility wrapper's and the matcher's own, both "unchanged" -/
def sameCbs : List Callback := [fun _ => Cb.same, fun _ => Cb.same]

theorem runCallbacks_sameCbs (cont : Bytes) : runCallbacks cont sameCbs = .skip := rfl

/-- with callbacks that never replace anything every position is skipped; the hit flag says whether a
serialized container starts there -/
theorem headStep_sameCbs (x : Bytes) :
    headStep sameCbs x = .skip (startsWith containerTag x && (extractContainer x matches .ok _)) := by
  unfold headStep
  by_cases ht : startsWith containerTag x = true
  · simp only [ht, Bool.not_true, Bool.false_eq_true, if_false, Bool.true_and]
    cases he : extractContainer x with
    | panic => exact absurd he (extractContainer_ne_panic x)
    | err => rfl
    | ok v => obtain ⟨n, cont⟩ := v; simp [runCallbacks_sameCbs]
  · have ht' : startsWith containerTag x = false := by simpa using ht
    simp [ht']

/-- the matcher's scan returns its input, whatever it is -/
theorem scan_sameCbs_ok (x : Bytes) : ∃ hit, scan sameCbs x = .ok x hit := by
  induction x with
  | nil => exact ⟨false, c01_scan_nil _⟩
  | cons b r ih =>
    obtain ⟨hit, e⟩ := ih
    rw [c01_scan_skip (headStep_sameCbs (b :: r)), e]
    exact ⟨_, rfl⟩

/-- **a serialized container anywhere in the data sets the hit flag** -/
theorem scan_sameCbs_hit (pre rest : Bytes) (n : Int) (cont : Bytes)
    (ht : startsWith containerTag rest = true) (he : extractContainer rest = .ok (n, cont)) :
    scan sameCbs (pre ++ rest) = .ok (pre ++ rest) true := by
  induction pre with
  | nil =>
    cases rest with
    | nil => simp [startsWith, containerTag] at ht; revert ht; decide
    | cons b r =>
      obtain ⟨hit, e⟩ := scan_sameCbs_ok r
      have hs : headStep sameCbs (b :: r) = .skip true := by
        rw [headStep_sameCbs, ht, he]; rfl
      simp only [List.nil_append]
      rw [c01_scan_skip hs, e]
      simp [ScanOut.prepend]
  | cons a p ih =>
    simp only [List.cons_append]
    rw [c01_scan_skip (headStep_sameCbs (a :: (p ++ rest))), ih]
    simp [ScanOut.prepend]

/-- a recognised serialized container is at least `containerMin` bytes of the data -/
theorem containerMin_le_of_extract {rest : Bytes} {n : Int} {cont : Bytes}
    (ht : startsWith containerTag rest = true) (he : extractContainer rest = .ok (n, cont)) :
    containerMin ≤ rest.length := by
  rcases extractContainer_ok he with ⟨_, _, _, h12, hle, _⟩ | ⟨_, id, hm, _⟩
  · show 12 ≤ rest.length
    omega
  · rw [matchOld_of_containerTag (startsWith_containerTag ht)] at hm; cases hm

/-- **`Match` finds a serialized container at any offset.** If `rest` – the data from some offset on –
starts with the container tag and `ExtractSerializedContainer` accepts it (declared length at least the
header and at most what is there), `Match(pre ++ rest)` is true for every `pre`. -/
theorem matchEnvelope_finds_container (pre rest : Bytes) (n : Int) (cont : Bytes)
    (ht : startsWith containerTag rest = true) (he : extractContainer rest = .ok (n, cont)) :
    matchEnvelope (pre ++ rest) = .ok true := by
  have hmin := containerMin_le_of_extract ht he
  have hscan := scan_sameCbs_hit pre rest n cont ht he
  have hcol : onColumn sameCbs (pre ++ rest) = .ok (pre ++ rest) true := by
    unfold onColumn
    rw [if_neg]
    · exact hscan
    · intro h
      rcases h with h | h
      · simp only [List.length_append] at h; omega
      · simp [sameCbs] at h
  unfold matchEnvelope
  show (match onColumn sameCbs (pre ++ rest) with
    | .panic => Out.panic | .fatal => .ok false | .ok _ true => .ok true | .ok _ false => _) = _
  rw [hcol]

end AcraModel.Searchable
