import AcraModel.Searchable.Index
/-
`hmac.Processor` (`hmac/dataProcessor.go`) – the column subscriber that both SQL proxies register
twice: once BEFORE the envelope detector (cuts the hash off a `hash ++ envelope` column and remembers
it) and once AFTER it (verifies the remembered hash against what the detector decrypted). The Go
object is stateful across calls (`hashData`, `matchedHash`, `rawData`); the model threads that state
explicitly. `EnvelopeMatcher.Match` (`crypto/matcher.go`) is modelled on top of the detector model.
-/
namespace AcraModel.Searchable
open AcraModel AcraModel.Envelope

/-- a stand-in processor that makes every recognised bare envelope one byte longer, so that
"was the callback invoked" can be read off the output length -/
def bump : Bytes → Out Bytes := fun b => .ok (0 :: b)

/-- `EnvelopeMatcher.Match(data)`: does `data` contain, at any offset, a serialized container –
or (`OldContainerDetectionOn`) a bare AcraStruct / AcraBlock. The matcher's callback and the
compatibility wrapper's callback both answer "unchanged", so nothing is ever replaced. -/
def matchEnvelope (data : Bytes) : Out Bool :=
  match onColumn [fun _ => Cb.same, fun _ => Cb.same] data with
  | .panic => .panic
  | .fatal => .ok false
  | .ok _ true => .ok true
  | .ok _ false =>
    let s := if data.length < structMin then Out.ok data else processStructs bump data
    match s with
    | .panic => .panic
    | .err => .ok false
    | .ok o1 =>
      if o1.length ≠ data.length then .ok true else
      let b := if data.length < blockMin then Out.ok data else processBlocks bump data
      match b with
      | .panic => .panic
      | .err => .ok false
      | .ok o2 => .ok (o2.length ≠ data.length)

/-- the mutable fields of `hmac.Processor` -/
structure PState where
  /-- `hashData`: `nil`, or `rawData[:33]` of the column whose hash was cut off -/
  hashData : Option Bytes
  /-- `matchedHash`: the `Hash` interface value (`nil` or the marshalled hash) -/
  matchedHash : Option Bytes
  /-- `rawData`: copy of the last column whose hash was cut off -/
  rawData : Bytes
deriving DecidableEq, Repr

def PState.init : PState := ⟨none, none, []⟩

/-- `Processor.Process`: `ok true` = no error, `ok false` = `ErrHMACNotMatch`; calling `IsEqual` on
the nil interface is a nil-pointer panic -/
def pProcess (c : CryptoOps) (hkey : Option Bytes) (s : PState) (data : Bytes) : Out Bool :=
  match s.hashData with
  | none => .ok true
  | some _ =>
    match s.matchedHash with
    | none => .panic
    | some h => .ok (isEqual c hkey h data)

/-- result of one `Processor.OnColumn` call: new state, bytes handed to the next subscriber, and
whether the context was marked "not decrypted" -/
structure POut where
  st : PState
  data : Bytes
  notDecrypted : Bool
deriving DecidableEq, Repr

/-- `Processor.OnColumn` (after the repair "fix: hmac.Processor verifies on its second call and keeps
nothing across columns"). `second` = the column's context already carries the processor's mark,
i.e. this is the subscription after the decryptors. The first call forgets any previous state, cuts
the hash off a `hash ++ envelope` value and remembers it; the second call only verifies and forgets. -/
def pOnColumn (c : CryptoOps) (hkey : Option Bytes) (second : Bool) (s : PState) (data : Bytes) : Out POut :=
  if second then
    match pProcess c hkey s data with
    | .panic => .panic
    | .err => .err
    | .ok false => .ok ⟨PState.init, s.rawData, true⟩
    | .ok true => .ok ⟨PState.init, data, false⟩
  else
    match extractHash data with
    | none => .ok ⟨PState.init, data, false⟩
    | some h =>
      match matchEnvelope (data.drop h.length) with
      | .panic => .panic
      | .err => .err
      | .ok false => .ok ⟨PState.init, data, false⟩
      | .ok true => .ok ⟨{ hashData := some (data.take h.length), matchedHash := some h, rawData := data }, data.drop h.length, false⟩

/-- `Processor.OnColumn` as it was on the pinned tree (before the repair): every call first verifies
against whatever state is left, then searches the data it was given – on the second call that is
the *decrypted plaintext* – for a hash again. Kept only to state what was wrong
(`Props.C09.legacy_*`). -/
def legacyOnColumn (c : CryptoOps) (hkey : Option Bytes) (s : PState) (data : Bytes) : Out POut :=
  match pProcess c hkey s data with
  | .panic => .panic
  | .err => .err
  | .ok false => .ok ⟨{ s with hashData := none }, s.rawData, true⟩
  | .ok true =>
    match extractHash data with
    | none => .ok ⟨{ s with hashData := none, matchedHash := none }, data, false⟩
    | some h =>
      match matchEnvelope (data.drop h.length) with
      | .panic => .panic
      | .err => .err
      | .ok false => .ok ⟨{ s with matchedHash := none }, data, false⟩
      | .ok true => .ok ⟨{ hashData := some (data.take h.length), matchedHash := some h, rawData := data }, data.drop h.length, false⟩

/-- one column through the subscriber chain of `proxy.go`:
`hmacProcessor → containerDetector → hmacProcessor` (the detector is a parameter: `det data` is the
column after `OldContainerDetectorWrapper.OnColumn`, `fatal` when a callback failed – the remaining
subscribers are then skipped). `onCol second` is the processor's `OnColumn`.
Result: state afterwards and the value delivered to the next subscriber. -/
def columnWith (onCol : Bool → PState → Bytes → Out POut) (det : Bytes → ScanOut) (s : PState) (col : Bytes) : Out (PState × Option Bytes) :=
  match onCol false s col with
  | .panic => .panic
  | .err => .err
  | .ok o1 =>
    match det o1.data with
    | .panic => .panic
    | .fatal => .ok (o1.st, none)
    | .ok d _ =>
      match onCol true o1.st d with
      | .panic => .panic
      | .err => .err
      | .ok o2 => .ok (o2.st, some o2.data)

def column (c : CryptoOps) (hkey : Option Bytes) (det : Bytes → ScanOut) (s : PState) (col : Bytes) : Out (PState × Option Bytes) :=
  columnWith (pOnColumn c hkey) det s col

def legacyColumn (c : CryptoOps) (hkey : Option Bytes) (det : Bytes → ScanOut) (s : PState) (col : Bytes) : Out (PState × Option Bytes) :=
  columnWith (fun _ => legacyOnColumn c hkey) det s col

/-- a row / result set: the columns one after another through the same `Processor` object -/
def columns (c : CryptoOps) (hkey : Option Bytes) (det : Bytes → ScanOut) : PState → List Bytes → Out (PState × List (Option Bytes))
  | s, [] => .ok (s, [])
  | s, col :: rest =>
    match column c hkey det s col with
    | .panic => .panic
    | .err => .err
    | .ok (s1, o) =>
      match columns c hkey det s1 rest with
      | .ok (s2, os) => .ok (s2, o :: os)
      | .err => .err
      | .panic => .panic

/-- rows through the pinned tree's processor (regression witnesses) -/
def legacyColumns (c : CryptoOps) (hkey : Option Bytes) (det : Bytes → ScanOut) : PState → List Bytes → Out (PState × List (Option Bytes))
  | s, [] => .ok (s, [])
  | s, col :: rest =>
    match legacyColumn c hkey det s col with
    | .panic => .panic
    | .err => .err
    | .ok (s1, o) =>
      match legacyColumns c hkey det s1 rest with
      | .ok (s2, os) => .ok (s2, o :: os)
      | .err => .err
      | .panic => .panic

/-- the detector as `proxy.go` wires it for a client: compatibility wrapper + decrypt handler -/
def clientDetector (c : CryptoOps) (kv : KeyView) : Bytes → ScanOut :=
  onColumnCompat [decryptCallback c kv]

end AcraModel.Searchable
