import AcraModel.Envelope.Detector
import AcraModel.Generated.Searchable
/-
The blind index of searchable encryption (`hmac/hash.go`, `hmac/dataEncryptor.go`, the stateless
decrypt-and-verify functions of `hmac/dataProcessor.go`):

  stored value = hash function number (1 byte) | HMAC-SHA256(client's HMAC key, plaintext) (32) | envelope

All constants come from the regenerated `Generated/Searchable.lean`.
-/
namespace AcraModel.Searchable
open AcraModel AcraModel.Envelope Generated

/-- `uint8(defaultFuncNumber)`: the byte `GenerateHMAC` puts in front of the MAC -/
def hashByte : UInt8 := UInt8.ofNat Searchable.defaultFuncNumber
/-- `hashFunc().Size()` of the only registered hash function -/
def macLen : Nat := Searchable.sha256Size
/-- `GetDefaultHashSize()` -/
def hashSize : Nat := Searchable.sha256Size + Searchable.defaultHashSizeExtra

/-- `GenerateHMAC(key, data)` -/
def generateHMAC (c : CryptoOps) (key data : Bytes) : Bytes := hashByte :: c.hmac key data

/-- is `b` a key of `hashFuncMap` -/
def knownFunc (b : UInt8) : Bool := Searchable.hashFuncs.any (fun p => p.1 = b.toNat)

/-- `ExtractHash(data)`: the marshalled hash (`data[:size+1]`) or `nil` -/
def extractHash (data : Bytes) : Option Bytes :=
  match data with
  | [] => none
  | b :: rest =>
    if !knownFunc b then none
    else if rest.length < macLen then none
    else some ((b :: rest).take (macLen + Searchable.extractTakeExtra))

/-- `ExtractHashAndData(container)` -/
def extractHashAndData (container : Bytes) : Option (Bytes × Bytes) :=
  match extractHash container with
  | none => none
  | some h => some (h, container.drop h.length)

/-- `HashData.IsEqual(data, keyID, store)`; `key = none` models a key-store error -/
def isEqual (c : CryptoOps) (key : Option Bytes) (h data : Bytes) : Bool :=
  match key with
  | none => false
  | some k => h.drop 1 == c.hmac k data

/-- the first `hashSize` bytes of a stored value: what `substr(column, 1, 33)` yields -/
def index (stored : Bytes) : Bytes := stored.take hashSize

/-- `SearchableDataEncryptor.EncryptWithClientID` for a searchable column, wired as in `proxy.go`
(`dataEncryptor = decryptor = RegistryHandler`): a value that already is an envelope is decrypted
for hashing and kept as is; anything else is hashed and protected. -/
def searchableEncrypt (c : CryptoOps) (hkey : Option Bytes) (kv : KeyView) (k : Kind) (data rnd : Bytes) : Out Bytes :=
  match hkey with
  | none => .err
  | some key =>
    if registryMatch data then
      match process c kv data with
      | .ok plain => .ok (generateHMAC c key plain ++ data)
      | .err => .err
      | .panic => .panic
    else
      match protect c kv k data rnd with
      | .ok enc => .ok (generateHMAC c key data ++ enc)
      | .err => .err
      | .panic => .panic

/-- `NewHashProcessor(processor, store).Process` -/
def hashProcessor (c : CryptoOps) (hkey : Option Bytes) (proc : Bytes → Out Bytes) (data : Bytes) : Out Bytes :=
  match extractHash data with
  | none => proc data
  | some h =>
    match proc (data.drop h.length) with
    | .ok plain => if isEqual c hkey h plain then .ok plain else .err
    | .err => .err
    | .panic => .panic

/-- `DecryptRotatedSearchableAcraStruct(acrastruct, hmacKey, privateKeys, context)` -/
def decryptSearchableStruct (c : CryptoOps) (hkey : Bytes) (privs : List Bytes) (ctx data : Bytes) : Out Bytes :=
  hashProcessor c (some hkey) (fun d => decryptStructRotated c ctx d privs) data

/-- `NewAcraBlockFromData(data)` followed by `Decrypt(keys, ctx)` -/
def decryptWholeBlock (c : CryptoOps) (keys : List Bytes) (ctx data : Bytes) : Out Bytes :=
  match extractBlock data with
  | .panic => .panic
  | .err => .err
  | .ok (n, b) => if n ≠ data.length then .err else decryptBlock c keys ctx b

/-- `DecryptRotatedSearchableAcraBlock(acraBlock, hmacKey, symKeys, context)` -/
def decryptSearchableBlock (c : CryptoOps) (hkey : Bytes) (keys : List Bytes) (ctx data : Bytes) : Out Bytes :=
  hashProcessor c (some hkey) (decryptWholeBlock c keys ctx) data

/-! ### AcraTranslator (`cmd/acra-translator/common/service.go`) -/

/-- `EncryptSearchable` / `EncryptSymSearchable`: (envelope, hash) -/
def translatorEncrypt (c : CryptoOps) (hkey : Option Bytes) (kv : KeyView) (k : Kind) (data rnd : Bytes) : Out (Bytes × Bytes) :=
  match hkey with
  | none => .err
  | some key =>
    match protect c kv k data rnd with
    | .ok enc => .ok (enc, generateHMAC c key data)
    | .err => .err
    | .panic => .panic

/-- `DecryptSearchable` / `DecryptSymSearchable` with `dataToDecrypt = hash ++ data` -/
def translatorDecrypt (c : CryptoOps) (hkey : Option Bytes) (kv : KeyView) (k : Kind) (dataToDecrypt : Bytes) : Out Bytes :=
  match extractHashAndData dataToDecrypt with
  | none => .err
  | some (h, container) =>
    match decryptWithHandler c kv k container with
    | .ok plain => if isEqual c hkey h plain then .ok plain else .err
    | .err => .err
    | .panic => .panic

/-- `GenerateQueryHash` -/
def generateQueryHash (c : CryptoOps) (hkey : Option Bytes) (data : Bytes) : Out Bytes :=
  match hkey with
  | none => .err
  | some key => .ok (generateHMAC c key data)

end AcraModel.Searchable
