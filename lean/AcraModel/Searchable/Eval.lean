import AcraModel.Searchable.Rewrite
/-
The database stand-in: literal evaluation of a (rewritten) condition over stored rows, and the
specification it is compared with – the meaning of the condition the client wrote, over plaintexts.
Rows have no NULLs; a missing column / placeholder makes a comparison false.
-/
namespace AcraModel.Searchable
open AcraModel

/-- one stored row (of a single table or of a join): column ↦ stored bytes -/
abbrev Row := List (ColRef × Bytes)

def Row.get (r : Row) (c : ColRef) : Option Bytes := (r.find? (fun p => p.1 == c)).map (·.2)

/-- SQL `substr(v, from, len)` on a byte string (1-based `from`) -/
def sqlSubstr (v : Bytes) (frm len : Nat) : Bytes := (v.drop (frm - 1)).take len

/-- bytewise lexicographic `<` -/
def bytesLt : Bytes → Bytes → Bool
  | [], [] => false
  | [], _ :: _ => true
  | _ :: _, [] => false
  | a :: as, b :: bs => if a < b then true else if b < a then false else bytesLt as bs

def evalOp : Op → Bytes → Bytes → Bool
  | .eq, a, b => a == b
  | .nullSafeEq, a, b => a == b
  | .ne, a, b => a != b
  | .lt, a, b => bytesLt a b

def evalExpr (params : List Bytes) (r : Row) : DbExpr → Option Bytes
  | .col c => r.get c
  | .substr c f n _ => (r.get c).map (fun v => sqlSubstr v f n)
  | .const v => some v
  | .param i => params[i]?
  | .castParam i => params[i]?
  | .other => none

def evalCmp (oa : Option Bytes) (op : Op) (ob : Option Bytes) : Bool :=
  match oa, ob with
  | some a, some b => evalOp op a b
  | _, _ => false

/-- does the database select this row -/
def evalDb (params : List Bytes) (r : Row) : DbCond → Bool
  | .cmp l op r' => evalCmp (evalExpr params r l) op (evalExpr params r r')
  | .and a b => evalDb params r a && evalDb params r b
  | .or a b => evalDb params r a || evalDb params r b

/-- the rows the database returns -/
def evalRows (params : List Bytes) (dc : DbCond) (rows : List Row) : List Row :=
  rows.filter (fun r => evalDb params r dc)

/-! ### specification: the condition over plaintexts -/

/-- `pv` = plaintext view of a row: the plaintext of a searchable column, the stored value of any other -/
def valOf (pv : ColRef → Option Bytes) (params : List Bytes) : Operand → Option Bytes
  | .col c => pv c
  | .lit v => some v
  | .cast v => some v
  | .param i => params[i]?
  | .castParam i => params[i]?
  | .other => none

def holds (pv : ColRef → Option Bytes) (params : List Bytes) : Cond → Bool
  | .cmp l op r => evalCmp (valOf pv params l) op (valOf pv params r)
  | .and a b => holds pv params a && holds pv params b
  | .or a b => holds pv params a || holds pv params b

/-- the whole query path: rewrite the statement, rewrite the bound values, let the database
evaluate; `none` when Acra reports an error instead of forwarding -/
def search (x : QCtx) (cond : Cond) (params : List Bytes) (rows : List Row) : Out (List Row) :=
  match rewriteCond x cond with
  | .err => .err
  | .panic => .panic
  | .ok dc =>
    match rewriteBind x cond params with
    | .err => .err
    | .panic => .panic
    | .ok params' => .ok (evalRows params' dc rows)

end AcraModel.Searchable
