import AcraModel.Searchable.Eval
import AcraModel.Searchable.Processor
/-
Helper definitions and lemmas for the C09 theorems: the shape of stored values, what "collision free
on the values at hand" means, which conditions the rewrite supports, and the comparison-level
exactness lemma that `Props.C09.search_exact` lifts to whole conditions.
-/
namespace AcraModel.Searchable
open AcraModel AcraModel.Envelope

/-! ### layout -/

theorem hashSize_eq : hashSize = 33 := by decide
theorem macLen_eq : macLen = 32 := by decide

theorem generateHMAC_length (c : CryptoOps) (hl : HashLen c) (k v : Bytes) :
    (generateHMAC c k v).length = hashSize := by
  simp [generateHMAC, hl.hmac_len, hashSize_eq]

theorem index_stored (c : CryptoOps) (hl : HashLen c) (k v e : Bytes) :
    index (generateHMAC c k v ++ e) = generateHMAC c k v := by
  unfold index
  exact List.take_left' (generateHMAC_length c hl k v)

theorem sqlSubstr_stored (c : CryptoOps) (hl : HashLen c) (k v e : Bytes) :
    sqlSubstr (generateHMAC c k v ++ e) 1 33 = generateHMAC c k v := by
  unfold sqlSubstr
  simp only [Nat.sub_self, List.drop_zero]
  exact List.take_left' (by rw [generateHMAC_length c hl, hashSize_eq])

theorem generateHMAC_eq_iff (c : CryptoOps) (k a b : Bytes) :
    generateHMAC c k a = generateHMAC c k b ↔ c.hmac k a = c.hmac k b := by
  simp [generateHMAC]

/-- collision freedom of HMAC under key `k` on the values at hand (`S` = the finitely many
plaintexts stored in the rows and searched for). This is the form in which C09 assumes it – never
`HashInj` (all byte strings) together with the 32-byte length law. -/
def NoColl (c : CryptoOps) (k : Bytes) (S : Bytes → Prop) : Prop :=
  ∀ a b, S a → S b → c.hmac k a = c.hmac k b → a = b

theorem beq_generateHMAC (c : CryptoOps) (k : Bytes) (S : Bytes → Prop) (h : NoColl c k S) (a b : Bytes)
    (ha : S a) (hb : S b) : (generateHMAC c k a == generateHMAC c k b) = (a == b) := by
  by_cases hab : a = b
  · subst hab; simp
  · have : generateHMAC c k a ≠ generateHMAC c k b := by
      intro he
      exact hab (h a b ha hb ((generateHMAC_eq_iff c k a b).mp he))
    rw [beq_eq_false_iff_ne.mpr this, beq_eq_false_iff_ne.mpr hab]

/-! ### operators (computed from the regenerated lists) -/

/-- operators whose meaning survives hashing both sides -/
def hashedOp (d : Dialect) (op : Op) : Bool :=
  op == .eq || op == .ne || (op == .nullSafeEq && d == .mysql)

theorem valueOp_hashedOp (d : Dialect) (op : Op) (h : valueOp d op = true) : hashedOp d op = true := by
  cases d <;> cases op <;> revert h <;> decide

theorem substrBounds_eq (d : Dialect) (b : Bool) : substrBounds d b = (1, 33) := by
  cases d <;> cases b <;> decide

theorem changeOp_eq (d : Dialect) : changeOp d .eq = .eq := by cases d <;> decide
theorem changeOp_ne (d : Dialect) : changeOp d .ne = .ne := by cases d <;> decide
theorem changeOp_nse : changeOp .mysql .nullSafeEq = .eq := by decide

theorem evalOp_hashed (c : CryptoOps) (k : Bytes) (S : Bytes → Prop) (hnc : NoColl c k S) (d : Dialect) (op : Op)
    (hop : hashedOp d op = true) (a b : Bytes) (ha : S a) (hb : S b) :
    evalOp (changeOp d op) (generateHMAC c k a) (generateHMAC c k b) = evalOp op a b := by
  have hbeq := beq_generateHMAC c k S hnc a b ha hb
  cases op with
  | eq => rw [changeOp_eq]; exact hbeq
  | ne => rw [changeOp_ne]; simp only [evalOp, bne, hbeq]
  | nullSafeEq =>
    cases d with
    | pg => exact absurd hop (by decide)
    | mysql => rw [changeOp_nse]; exact hbeq
  | lt => cases d <;> exact absurd hop (by decide)

/-! ### which conditions the rewrite supports -/

/-- an operand of a comparison that is forwarded as written means the same to the database as to the
client: not a searchable column, not a placeholder whose value gets replaced by a hash -/
def plainOperand (x : QCtx) (hashed : List Nat) : Operand → Bool
  | .col c => !x.searchable c
  | .lit _ => true
  | .cast _ => true
  | .other => true
  | .param i => !hashed.contains i
  | .castParam i => !hashed.contains i

/-- the comparison is of a form whose rewrite preserves its meaning -/
def supportedCmp (x : QCtx) (hashed : List Nat) (l : Operand) (op : Op) (r : Operand) : Bool :=
  match classify x l op r with
  | .none => plainOperand x hashed l && plainOperand x hashed r
  | .join lc _ => hashedOp x.d op && x.searchable lc
  | .value _ _ => true
  | .param _ _ => true
  | .castParam _ _ => false

def supported (x : QCtx) (hashed : List Nat) : Cond → Bool
  | .cmp l op r => supportedCmp x hashed l op r
  | .and a b => supported x hashed a && supported x hashed b
  | .or a b => supported x hashed a && supported x hashed b

/-- the values searched for (literals and bound values of rewritten comparisons) -/
def condValues (x : QCtx) (params : List Bytes) : Cond → List Bytes
  | .cmp l op r =>
    match classify x l op r with
    | .value _ v => [v]
    | .param _ i => (params[i]?).toList
    | _ => []
  | .and a b => condValues x params a ++ condValues x params b
  | .or a b => condValues x params a ++ condValues x params b

/-- a stored row and its plaintext view: searchable columns hold `hash ++ envelope` of the plaintext
(written under the HMAC key `k`), all other columns hold what the view shows -/
structure RowOk (x : QCtx) (k : Bytes) (row : Row) (pv : ColRef → Option Bytes) : Prop where
  srch : ∀ c, x.searchable c = true → ∃ p e, pv c = some p ∧ row.get c = some (generateHMAC x.c k p ++ e)
  plain : ∀ c, x.searchable c = false → row.get c = pv c

/-! ### classify -/

theorem classify_join {x : QCtx} {l r : Operand} {op : Op} {lc rc : ColRef}
    (h : classify x l op r = .join lc rc) :
    l = .col lc ∧ r = .col rc ∧ (x.searchable lc = true ∨ x.tokenized lc = true) ∧ x.searchable rc = true := by
  cases l with
  | col c =>
    cases hs : x.searchable c with
    | false =>
      cases r with
      | col c2 =>
        simp only [classify, hs, Bool.not_false, if_true] at h
        split at h
        · rename_i hc
          simp only [Bool.and_eq_true] at hc
          simp only [Item.join.injEq] at h
          obtain ⟨h1, h2⟩ := h
          subst h1; subst h2
          exact ⟨rfl, rfl, Or.inr hc.1, hc.2⟩
        · simp at h
      | lit v => simp [classify, hs] at h
      | cast v => simp [classify, hs] at h
      | param i => simp [classify, hs] at h
      | castParam i => simp [classify, hs] at h
      | other => simp [classify, hs] at h
    | true =>
      cases r with
      | col c2 =>
        cases hs2 : x.searchable c2 with
        | false => simp [classify, hs, hs2] at h
        | true =>
          simp [classify, hs, hs2] at h
          obtain ⟨h1, h2⟩ := h
          subst h1; subst h2
          exact ⟨rfl, rfl, Or.inl hs, hs2⟩
      | lit v => simp [classify, hs] at h; split at h <;> simp at h
      | cast v => simp [classify, hs] at h; split at h <;> simp at h
      | param i => simp [classify, hs] at h; split at h <;> simp at h
      | castParam i => simp [classify, hs] at h; split at h <;> simp at h
      | other => simp [classify, hs] at h
  | lit v => simp [classify] at h
  | cast v => simp [classify] at h
  | param i => simp [classify] at h
  | castParam i => simp [classify] at h
  | other => simp [classify] at h

theorem classify_value {x : QCtx} {l r : Operand} {op : Op} {lc : ColRef} {v : Bytes}
    (h : classify x l op r = .value lc v) :
    l = .col lc ∧ (r = .lit v ∨ r = .cast v) ∧ x.searchable lc = true ∧ valueOp x.d op = true := by
  cases l with
  | col c =>
    cases hs : x.searchable c with
    | false => cases r <;> simp [classify, hs] at h <;> (split at h <;> simp at h)
    | true =>
      cases r with
      | col c2 => simp [classify, hs] at h; split at h <;> simp at h
      | lit w =>
        cases hv : valueOp x.d op with
        | false => simp [classify, hs, hv] at h
        | true =>
          simp [classify, hs, hv] at h
          obtain ⟨h1, h2⟩ := h
          subst h1; subst h2
          exact ⟨rfl, Or.inl rfl, hs, rfl⟩
      | cast w =>
        cases hv : valueOp x.d op with
        | false => simp [classify, hs, hv] at h
        | true =>
          simp [classify, hs, hv] at h
          split at h
          · simp at h
            obtain ⟨h1, h2⟩ := h
            subst h1; subst h2
            exact ⟨rfl, Or.inr rfl, hs, rfl⟩
          · simp at h
      | param i => simp [classify, hs] at h; split at h <;> simp at h
      | castParam i => simp [classify, hs] at h; split at h <;> simp at h
      | other => simp [classify, hs] at h
  | lit v => simp [classify] at h
  | cast v => simp [classify] at h
  | param i => simp [classify] at h
  | castParam i => simp [classify] at h
  | other => simp [classify] at h

theorem classify_param {x : QCtx} {l r : Operand} {op : Op} {lc : ColRef} {i : Nat}
    (h : classify x l op r = .param lc i) :
    l = .col lc ∧ r = .param i ∧ x.searchable lc = true ∧ valueOp x.d op = true := by
  cases l with
  | col c =>
    cases hs : x.searchable c with
    | false => cases r <;> simp [classify, hs] at h <;> (split at h <;> simp at h)
    | true =>
      cases r with
      | col c2 => simp [classify, hs] at h; split at h <;> simp at h
      | lit w => simp [classify, hs] at h; split at h <;> simp at h
      | cast w => simp [classify, hs] at h; split at h <;> simp at h
      | param j =>
        cases hv : valueOp x.d op with
        | false => simp [classify, hs, hv] at h
        | true =>
          simp [classify, hs, hv] at h
          obtain ⟨h1, h2⟩ := h
          subst h1; subst h2
          exact ⟨rfl, rfl, hs, rfl⟩
      | castParam j => simp [classify, hs] at h; split at h <;> simp at h
      | other => simp [classify, hs] at h
  | lit v => simp [classify] at h
  | cast v => simp [classify] at h
  | param i => simp [classify] at h
  | castParam i => simp [classify] at h
  | other => simp [classify] at h

/-! ### hashing of values -/

theorem calcHmac_plain (x : QCtx) (k v : Bytes) (hk : x.hkey = some k) (hm : registryMatch v = false) :
    calcHmac x v = .ok (generateHMAC x.c k v) := by
  simp [calcHmac, hm, hk]

theorem updateValue_ok (x : QCtx) (k v h : Bytes) (hk : x.hkey = some k) (hm : registryMatch v = false)
    (hu : updateValue x v = .ok h) : h = generateHMAC x.c k v := by
  unfold updateValue at hu
  rw [calcHmac_plain x k v hk hm] at hu
  simp only at hu
  split at hu
  · cases hu
  · cases hu; rfl

/-! ### one comparison -/

theorem plainOperand_eval (x : QCtx) (k : Bytes) (H : List Nat) (params params' : List Bytes)
    (hp : ∀ j, params'[j]? = if j ∈ H then (params[j]?).map (generateHMAC x.c k) else params[j]?)
    (row : Row) (pv : ColRef → Option Bytes) (hrow : RowOk x k row pv)
    (o : Operand) (ho : plainOperand x H o = true) :
    evalExpr params' row o.toDb = valOf pv params o := by
  cases o with
  | col c =>
    simp [plainOperand] at ho
    simp [Operand.toDb, evalExpr, valOf, hrow.plain c ho]
  | lit v => rfl
  | cast v => rfl
  | other => rfl
  | param i =>
    simp [plainOperand] at ho
    simp [Operand.toDb, evalExpr, valOf, hp i, ho]
  | castParam i =>
    simp [plainOperand] at ho
    simp [Operand.toDb, evalExpr, valOf, hp i, ho]

theorem evalExpr_substr (x : QCtx) (hl : HashLen x.c) (k : Bytes) (params' : List Bytes) (row : Row)
    (c : ColRef) (p e : Bytes) (right bin : Bool)
    (hg : row.get c = some (generateHMAC x.c k p ++ e)) :
    evalExpr params' row (substrOf x.d right c bin) = some (generateHMAC x.c k p) := by
  simp [substrOf, substrBounds_eq, evalExpr, hg, sqlSubstr_stored x.c hl]

/-- the rewrite of one supported comparison selects a stored row exactly when the comparison the
client wrote holds for the row's plaintexts -/
theorem rewriteCmp_exact (x : QCtx) (hl : HashLen x.c) (k : Bytes) (hk : x.hkey = some k)
    (H : List Nat) (params params' : List Bytes)
    (hp : ∀ j, params'[j]? = if j ∈ H then (params[j]?).map (generateHMAC x.c k) else params[j]?)
    (hHlt : ∀ j ∈ H, j < params.length)
    (S : Bytes → Prop) (hnc : NoColl x.c k S)
    (row : Row) (pv : ColRef → Option Bytes) (hrow : RowOk x k row pv)
    (hpvS : ∀ c p, x.searchable c = true → pv c = some p → S p)
    (l : Operand) (op : Op) (r : Operand)
    (hsup : supportedCmp x H l op r = true)
    (hsub : ∀ i ∈ itemParams x (.cmp l op r), i ∈ H)
    (hvS : ∀ v ∈ condValues x params (.cmp l op r), S v ∧ registryMatch v = false)
    (dc : DbCond) (hq : rewriteCmp x l op r = .ok dc) :
    evalDb params' row dc = holds pv params (.cmp l op r) := by
  unfold rewriteCmp at hq
  unfold supportedCmp at hsup
  simp only [itemParams] at hsub
  simp only [condValues] at hvS
  cases hc : classify x l op r with
  | none =>
    simp only [hc] at hq hsup
    cases hq
    simp only [Bool.and_eq_true] at hsup
    simp only [evalDb, holds, plainOperand_eval x k H params params' hp row pv hrow l hsup.1,
      plainOperand_eval x k H params params' hp row pv hrow r hsup.2]
  | join lc rc =>
    simp only [hc] at hq hsup
    cases hq
    obtain ⟨hlq, hrq, _, hsr⟩ := classify_join hc
    subst hlq; subst hrq
    simp only [Bool.and_eq_true] at hsup
    obtain ⟨hsup, hsl⟩ := hsup
    obtain ⟨p1, e1, hpv1, hg1⟩ := hrow.srch lc hsl
    obtain ⟨p2, e2, hpv2, hg2⟩ := hrow.srch rc hsr
    show evalCmp (evalExpr params' row (substrOf x.d false lc false)) (changeOp x.d op)
        (evalExpr params' row (substrOf x.d true rc false)) = evalCmp (pv lc) op (pv rc)
    rw [evalExpr_substr x hl k params' row lc p1 e1 false false hg1,
      evalExpr_substr x hl k params' row rc p2 e2 true false hg2, hpv1, hpv2]
    exact evalOp_hashed x.c k S hnc x.d op hsup p1 p2 (hpvS lc p1 hsl hpv1) (hpvS rc p2 hsr hpv2)
  | value lc v =>
    simp only [hc] at hq hvS
    obtain ⟨hlq, hrq, hsl, hvo⟩ := classify_value hc
    subst hlq
    obtain ⟨p1, e1, hpv1, hg1⟩ := hrow.srch lc hsl
    have hv := hvS v (by simp)
    cases hu : updateValue x v with
    | err => simp [hu] at hq
    | panic => simp [hu] at hq
    | ok h =>
      simp only [hu] at hq
      cases hq
      have hh := updateValue_ok x k v h hk hv.2 hu
      subst hh
      have hval : valOf pv params r = some v := by
        cases hrq with
        | inl e => subst e; rfl
        | inr e => subst e; rfl
      show evalCmp (evalExpr params' row (substrOf x.d false lc _)) (changeOp x.d op) (some (generateHMAC x.c k v))
        = evalCmp (pv lc) op (valOf pv params r)
      rw [evalExpr_substr x hl k params' row lc p1 e1 false _ hg1, hval, hpv1]
      exact evalOp_hashed x.c k S hnc x.d op (valueOp_hashedOp x.d op hvo) p1 v (hpvS lc p1 hsl hpv1) hv.1
  | param lc i =>
    simp only [hc] at hq hvS hsub
    cases hq
    obtain ⟨hlq, hrq, hsl, hvo⟩ := classify_param hc
    subst hlq; subst hrq
    obtain ⟨p1, e1, hpv1, hg1⟩ := hrow.srch lc hsl
    have hiH : i ∈ H := hsub i (by simp)
    have hilt := hHlt i hiH
    have hget : params[i]? = some params[i] := List.getElem?_eq_getElem hilt
    have hv := hvS params[i] (by simp [hget])
    have hp' : params'[i]? = some (generateHMAC x.c k params[i]) := by
      rw [hp i]; simp [hiH, hget]
    show evalCmp (evalExpr params' row (substrOf x.d false lc false)) (changeOp x.d op) (params'[i]?)
      = evalCmp (pv lc) op (params[i]?)
    rw [evalExpr_substr x hl k params' row lc p1 e1 false false hg1, hp', hget, hpv1]
    exact evalOp_hashed x.c k S hnc x.d op (valueOp_hashedOp x.d op hvo) p1 params[i] (hpvS lc p1 hsl hpv1) hv.1
  | castParam lc i =>
    simp [hc] at hsup

/-! ### whole conditions -/

theorem rewriteCond_and {x : QCtx} {a b : Cond} {dc : DbCond} (h : rewriteCond x (.and a b) = .ok dc) :
    ∃ a' b', rewriteCond x a = .ok a' ∧ rewriteCond x b = .ok b' ∧ dc = .and a' b' := by
  simp only [rewriteCond] at h
  cases ha : rewriteCond x a with
  | err => simp [ha] at h
  | panic => simp [ha] at h
  | ok a' =>
    cases hb : rewriteCond x b with
    | err => simp [ha, hb] at h
    | panic => simp [ha, hb] at h
    | ok b' =>
      simp [ha, hb] at h
      exact ⟨a', b', rfl, rfl, h.symm⟩

theorem rewriteCond_or {x : QCtx} {a b : Cond} {dc : DbCond} (h : rewriteCond x (.or a b) = .ok dc) :
    ∃ a' b', rewriteCond x a = .ok a' ∧ rewriteCond x b = .ok b' ∧ dc = .or a' b' := by
  simp only [rewriteCond] at h
  cases ha : rewriteCond x a with
  | err => simp [ha] at h
  | panic => simp [ha] at h
  | ok a' =>
    cases hb : rewriteCond x b with
    | err => simp [ha, hb] at h
    | panic => simp [ha, hb] at h
    | ok b' =>
      simp [ha, hb] at h
      exact ⟨a', b', rfl, rfl, h.symm⟩

theorem search_exact_aux (x : QCtx) (hl : HashLen x.c) (k : Bytes) (hk : x.hkey = some k)
    (H : List Nat) (params params' : List Bytes)
    (hp : ∀ j, params'[j]? = if j ∈ H then (params[j]?).map (generateHMAC x.c k) else params[j]?)
    (hHlt : ∀ j ∈ H, j < params.length)
    (S : Bytes → Prop) (hnc : NoColl x.c k S)
    (row : Row) (pv : ColRef → Option Bytes) (hrow : RowOk x k row pv)
    (hpvS : ∀ c p, x.searchable c = true → pv c = some p → S p) :
    ∀ (cond : Cond) (dc : DbCond), supported x H cond = true → (∀ i ∈ itemParams x cond, i ∈ H) →
      (∀ v ∈ condValues x params cond, S v ∧ registryMatch v = false) →
      rewriteCond x cond = .ok dc → evalDb params' row dc = holds pv params cond := by
  intro cond
  induction cond with
  | cmp l op r =>
    intro dc hsup hsub hvS hq
    exact rewriteCmp_exact x hl k hk H params params' hp hHlt S hnc row pv hrow hpvS l op r hsup hsub hvS dc hq
  | and a b iha ihb =>
    intro dc hsup hsub hvS hq
    obtain ⟨a', b', ha, hb, hdc⟩ := rewriteCond_and hq
    subst hdc
    simp only [supported, Bool.and_eq_true] at hsup
    simp only [itemParams, List.mem_append] at hsub
    simp only [condValues, List.mem_append] at hvS
    simp only [evalDb, holds,
      iha a' hsup.1 (fun i hi => hsub i (Or.inl hi)) (fun v hv => hvS v (Or.inl hv)) ha,
      ihb b' hsup.2 (fun i hi => hsub i (Or.inr hi)) (fun v hv => hvS v (Or.inr hv)) hb]
  | or a b iha ihb =>
    intro dc hsup hsub hvS hq
    obtain ⟨a', b', ha, hb, hdc⟩ := rewriteCond_or hq
    subst hdc
    simp only [supported, Bool.and_eq_true] at hsup
    simp only [itemParams, List.mem_append] at hsub
    simp only [condValues, List.mem_append] at hvS
    simp only [evalDb, holds,
      iha a' hsup.1 (fun i hi => hsub i (Or.inl hi)) (fun v hv => hvS v (Or.inl hv)) ha,
      ihb b' hsup.2 (fun i hi => hsub i (Or.inr hi)) (fun v hv => hvS v (Or.inr hv)) hb]

theorem itemParams_value (x : QCtx) (params : List Bytes) :
    ∀ (cond : Cond) (i : Nat) (v : Bytes), i ∈ itemParams x cond → params[i]? = some v → v ∈ condValues x params cond := by
  intro cond
  induction cond with
  | cmp l op r =>
    intro i v hi hv
    simp only [itemParams] at hi
    simp only [condValues]
    cases hc : classify x l op r with
    | param lc j =>
      simp only [hc, List.mem_singleton] at hi
      subst hi
      simp [hv]
    | none => simp [hc] at hi
    | join a b => simp [hc] at hi
    | value a b => simp [hc] at hi
    | castParam a b => simp [hc] at hi
  | and a b iha ihb =>
    intro i v hi hv
    simp only [itemParams, List.mem_append] at hi
    simp only [condValues, List.mem_append]
    cases hi with
    | inl h => exact Or.inl (iha i v h hv)
    | inr h => exact Or.inr (ihb i v h hv)
  | or a b iha ihb =>
    intro i v hi hv
    simp only [itemParams, List.mem_append] at hi
    simp only [condValues, List.mem_append]
    cases hi with
    | inl h => exact Or.inl (iha i v h hv)
    | inr h => exact Or.inr (ihb i v h hv)

/-! ### `OnBind`: the count check and the once-only replacement -/

/-- the switches regenerated from the source: `OnBind` counts only the placeholders of searchable
columns, and `replaceValuesWithHMACs` replaces a position once (both are the repaired shapes; on the
pinned tree both are `false` and this theorem – with everything built on it – does not check) -/
theorem bind_switches (d : Dialect) : bindCountsSearchableOnly d = true ∧ replacesOnce d = true := by
  cases d <;> decide

theorem bindEntries_true_mem (x : QCtx) :
    ∀ (cond : Cond) (k : Nat), (k, true) ∈ bindEntries x cond → k ∈ itemParams x cond := by
  intro cond
  induction cond with
  | cmp l op r =>
    intro k hk
    cases l with
    | col lc =>
      cases r with
      | param i =>
        simp only [bindEntries] at hk
        split at hk
        · rename_i hc
          simp only [List.mem_singleton, Prod.mk.injEq] at hk
          obtain ⟨hki, hs⟩ := hk
          subst hki
          simp only [Bool.and_eq_true] at hc
          simp [itemParams, classify, ← hs, hc.2]
        · simp at hk
      | col _ => simp [bindEntries] at hk
      | lit _ => simp [bindEntries] at hk
      | cast _ => simp [bindEntries] at hk
      | castParam _ => simp [bindEntries] at hk
      | other => simp [bindEntries] at hk
    | lit _ => simp [bindEntries] at hk
    | cast _ => simp [bindEntries] at hk
    | param _ => simp [bindEntries] at hk
    | castParam _ => simp [bindEntries] at hk
    | other => simp [bindEntries] at hk
  | and a b iha ihb =>
    intro k hk
    simp only [bindEntries, List.mem_append] at hk
    simp only [itemParams, List.mem_append]
    exact hk.elim (fun h => Or.inl (iha k h)) (fun h => Or.inr (ihb k h))
  | or a b iha ihb =>
    intro k hk
    simp only [bindEntries, List.mem_append] at hk
    simp only [itemParams, List.mem_append]
    exact hk.elim (fun h => Or.inl (iha k h)) (fun h => Or.inr (ihb k h))

theorem assign_keys_nodup (m : List (Nat × Bool)) (k : Nat) (v : Bool) (h : (m.map (·.1)).Nodup) :
    ((assign m k v).map (·.1)).Nodup := by
  unfold assign
  simp only [List.map_cons, List.nodup_cons]
  constructor
  · intro hk
    obtain ⟨e, he, hek⟩ := List.mem_map.mp hk
    have := (List.mem_filter.mp he).2
    simp [hek] at this
  · exact List.Nodup.sublist (List.Sublist.map _ List.filter_sublist) h

theorem assign_mem {m : List (Nat × Bool)} {k : Nat} {v : Bool} {e : Nat × Bool} (h : e ∈ assign m k v) :
    e = (k, v) ∨ e ∈ m := by
  unfold assign at h
  simp only [List.mem_cons] at h
  exact h.elim Or.inl (fun h => Or.inr (List.mem_filter.mp h).1)

theorem foldl_assign_inv (P : Nat → Prop) :
    ∀ (es m : List (Nat × Bool)), (m.map (·.1)).Nodup → (∀ k, (k, true) ∈ m → P k) → (∀ k, (k, true) ∈ es → P k) →
      ((es.foldl (fun m e => assign m e.1 e.2) m).map (·.1)).Nodup ∧
      ∀ k, (k, true) ∈ es.foldl (fun m e => assign m e.1 e.2) m → P k := by
  intro es
  induction es with
  | nil => intro m hn hm _; exact ⟨hn, hm⟩
  | cons e es ih =>
    intro m hn hm he
    simp only [List.foldl_cons]
    apply ih (assign m e.1 e.2) (assign_keys_nodup m e.1 e.2 hn)
    · intro k hk
      cases assign_mem hk with
      | inl h =>
        have h1 : k = e.1 := congrArg Prod.fst h
        have h2 : true = e.2 := congrArg Prod.snd h
        apply he k
        have : e = (k, true) := by cases e; simp_all
        rw [this]; simp
      | inr h => exact hm k h
    · intro k hk
      exact he k (List.mem_cons_of_mem _ hk)

/-- **The count check of the repaired `OnBind` can never suppress the hashing**: the placeholders of
searchable columns recorded by `ParseSearchQueryPlaceholdersSettings` are never more than the placeholders
`OnBind` itself collects – whatever else the statement compares (tokenized, encrypted, plain columns). -/
theorem bindCount_own_le (x : QCtx) (cond : Cond) : bindCount true x cond ≤ (itemParams x cond).length := by
  unfold bindCount
  simp only [if_true]
  obtain ⟨hn, hm⟩ := foldl_assign_inv (fun k => k ∈ itemParams x cond) (bindEntries x cond) [] (by simp) (by simp)
    (bindEntries_true_mem x cond)
  have hlen : ((bindData x cond).filter (·.2)).length = (((bindData x cond).filter (·.2)).map (·.1)).length := by simp
  rw [hlen]
  apply List.Nodup.length_le_of_subset
  · exact List.Nodup.sublist (List.Sublist.map _ List.filter_sublist) hn
  · intro k hk
    obtain ⟨e, he, hek⟩ := List.mem_map.mp hk
    obtain ⟨hem, he2⟩ := List.mem_filter.mp he
    apply hm k
    have : e = (k, true) := by cases e; simp_all
    rw [← this]; exact hem

theorem hashShared_spec (x : QCtx) (k : Bytes) (hk : x.hkey = some k) (values : List Bytes) :
    ∀ (idxs done : List Nat) (acc out : List Bytes), acc.length = values.length →
      (∀ i ∈ idxs, ∀ v, values[i]? = some v → registryMatch v = false) →
      (∀ j, acc[j]? = if j ∈ done then (values[j]?).map (generateHMAC x.c k) else values[j]?) →
      hashShared x true idxs done acc = .ok out →
      ∀ j, out[j]? = if j ∈ done ∨ j ∈ idxs then (values[j]?).map (generateHMAC x.c k) else values[j]? := by
  intro idxs
  induction idxs with
  | nil =>
    intro done acc out _ _ hacc h j
    simp [hashShared] at h
    subst h
    simp [hacc j]
  | cons i is ih =>
    intro done acc out hlen hm hacc h j
    unfold hashShared at h
    by_cases hd : i ∈ done
    · simp only [Bool.true_and, List.contains_iff_mem, hd, if_true] at h
      rw [ih done acc out hlen (fun i' hi' => hm i' (by simp [hi'])) hacc h j]
      by_cases hj : j = i
      · subst hj; simp [hd]
      · simp [hj]
    · simp only [Bool.true_and, List.contains_iff_mem, hd, if_false] at h
      have hai : acc[i]? = values[i]? := by rw [hacc i]; simp [hd]
      rw [hai] at h
      cases hv : values[i]? with
      | none => simp [hv] at h
      | some v =>
        have hmv : registryMatch v = false := hm i (by simp) v hv
        simp only [hv, calcHmac_plain x k v hk hmv] at h
        have hilt : i < acc.length := by
          rw [hlen]; exact (List.getElem?_eq_some_iff.mp hv).1
        have hlen' : (acc.set i (generateHMAC x.c k v)).length = values.length := by simp [hlen]
        have hacc' : ∀ j, (acc.set i (generateHMAC x.c k v))[j]? =
            if j ∈ i :: done then (values[j]?).map (generateHMAC x.c k) else values[j]? := by
          intro j
          by_cases hji : j = i
          · subst hji; simp [hv, hilt]
          · have hij : ¬ i = j := fun e => hji e.symm
            simp [hij, hji, hacc j]
        rw [ih (i :: done) _ out hlen' (fun i' hi' => hm i' (by simp [hi'])) hacc' h j]
        by_cases hji : j = i
        · subst hji; simp
        · simp [hji]

/-- with a key, in-range positions and values that are not themselves envelopes the replacement succeeds -/
theorem hashShared_total (x : QCtx) (k : Bytes) (hk : x.hkey = some k) (values : List Bytes) :
    ∀ (idxs done : List Nat) (acc : List Bytes), acc.length = values.length →
      (∀ i ∈ idxs, i < values.length) →
      (∀ i ∈ idxs, ∀ v, values[i]? = some v → registryMatch v = false) →
      (∀ j, acc[j]? = if j ∈ done then (values[j]?).map (generateHMAC x.c k) else values[j]?) →
      ∃ out, hashShared x true idxs done acc = .ok out := by
  intro idxs
  induction idxs with
  | nil => intro done acc _ _ _ _; exact ⟨acc, rfl⟩
  | cons i is ih =>
    intro done acc hlen hlt hm hacc
    unfold hashShared
    by_cases hd : i ∈ done
    · simp only [Bool.true_and, List.contains_iff_mem, hd, if_true]
      exact ih done acc hlen (fun i' hi' => hlt i' (by simp [hi'])) (fun i' hi' => hm i' (by simp [hi'])) hacc
    · simp only [Bool.true_and, List.contains_iff_mem, hd, if_false]
      have hilt : i < values.length := hlt i (by simp)
      have hv : values[i]? = some values[i] := List.getElem?_eq_getElem hilt
      have hai : acc[i]? = some values[i] := by rw [hacc i]; simp [hd, hv]
      have hmv : registryMatch values[i] = false := hm i (by simp) _ hv
      simp only [hai, calcHmac_plain x k _ hk hmv]
      have hlen' : (acc.set i (generateHMAC x.c k values[i])).length = values.length := by simp [hlen]
      apply ih (i :: done) _ hlen' (fun i' hi' => hlt i' (by simp [hi'])) (fun i' hi' => hm i' (by simp [hi']))
      intro j
      by_cases hji : j = i
      · subst hji; simp [hv, hlen, hilt]
      · have hij : ¬ i = j := fun e => hji e.symm
        simp [hij, hji, hacc j]

/-- **`OnBind` hashes every search parameter, whatever else the statement compares**: with an HMAC key,
every placeholder of a searchable comparison inside the bound values and no bound search value that is
itself an envelope, `OnBind` succeeds – it never falls back to forwarding the values as the client sent
them – and the values it forwards are hashed exactly at the placeholders of searchable comparisons
(once each, also when a placeholder is used in several comparisons) and untouched elsewhere. -/
theorem rewriteBind_total (x : QCtx) (k : Bytes) (hk : x.hkey = some k) (cond : Cond) (params : List Bytes)
    (hlt : ∀ j ∈ itemParams x cond, j < params.length)
    (hm : ∀ v ∈ condValues x params cond, registryMatch v = false) :
    ∃ params', rewriteBind x cond params = .ok params' := by
  unfold rewriteBind
  rw [(bind_switches x.d).1, (bind_switches x.d).2]
  unfold rewriteBindWith
  simp only
  have hany : ¬ ((itemParams x cond).any fun i => decide (params.length ≤ i)) = true := by
    intro h
    obtain ⟨j, hj, hle⟩ := List.any_eq_true.mp h
    have := hlt j hj
    simp at hle
    omega
  rw [if_neg hany, if_neg (Nat.not_lt.mpr (bindCount_own_le x cond))]
  exact hashShared_total x k hk params (itemParams x cond) [] params rfl hlt
    (fun i hi v hv => hm v (itemParams_value x params cond i v hi hv)) (by simp)

/-- what `OnBind` sends to the database: hashed at the collected positions, untouched elsewhere -/
theorem rewriteBind_spec (x : QCtx) (k : Bytes) (hk : x.hkey = some k) (cond : Cond) (params params' : List Bytes)
    (hm : ∀ v ∈ condValues x params cond, registryMatch v = false)
    (hb : rewriteBind x cond params = .ok params') :
    (∀ j ∈ itemParams x cond, j < params.length) ∧
    ∀ j, params'[j]? = if j ∈ itemParams x cond then (params[j]?).map (generateHMAC x.c k) else params[j]? := by
  unfold rewriteBind at hb
  rw [(bind_switches x.d).1, (bind_switches x.d).2] at hb
  unfold rewriteBindWith at hb
  simp only at hb
  split at hb
  · cases hb
  · rename_i hany
    have hlt : ∀ j ∈ itemParams x cond, j < params.length := by
      intro j hj
      have := fun h => hany (List.any_eq_true.mpr ⟨j, hj, by simpa using h⟩)
      exact Nat.lt_of_not_le this
    refine ⟨hlt, ?_⟩
    rw [if_neg (Nat.not_lt.mpr (bindCount_own_le x cond))] at hb
    intro j
    have := hashShared_spec x k hk params (itemParams x cond) [] params params' rfl
      (fun i hi v hv => hm v (itemParams_value x params cond i v hi hv)) (by simp) hb j
    simpa using this

end AcraModel.Searchable
