import AcraModel.Searchable.Lemmas
/-
Lemmas about the hash check on the read path: `extractHash`, `isEqual`, `hashProcessor`, the
translator's decrypt, and the stateful `hmac.Processor` around the envelope detector.
-/
namespace AcraModel.Searchable
open AcraModel AcraModel.Envelope

theorem knownFunc_eq {b : UInt8} (h : knownFunc b = true) : b = hashByte := by
  simp [knownFunc, Generated.Searchable.hashFuncs] at h
  apply UInt8.toNat_inj.mp
  rw [← h]
  decide

/-- shape of an extracted hash: the function number followed by the next 32 bytes -/
theorem extractHash_shape {data h : Bytes} (he : extractHash data = some h) :
    ∃ rest, data = hashByte :: rest ∧ macLen ≤ rest.length ∧ h = hashByte :: rest.take macLen := by
  unfold extractHash at he
  cases data with
  | nil => simp at he
  | cons b rest =>
    simp only at he
    split at he
    · cases he
    · rename_i hk
      split at he
      · cases he
      · rename_i hlen
        have hb : b = hashByte := knownFunc_eq (by simpa using hk)
        subst hb
        refine ⟨rest, rfl, Nat.le_of_not_lt hlen, ?_⟩
        cases he
        simp [macLen_eq, Generated.Searchable.extractTakeExtra, List.take_succ_cons]

theorem extractHash_length {data h : Bytes} (he : extractHash data = some h) : h.length = hashSize := by
  obtain ⟨rest, _, hlen, hh⟩ := extractHash_shape he
  subst hh
  simp [hashSize_eq, macLen_eq] at *
  omega

/-- a stored `hash ++ envelope` value splits back into its two parts -/
theorem extractHash_stored (c : CryptoOps) (hl : HashLen c) (k v e : Bytes) :
    extractHash (generateHMAC c k v ++ e) = some (generateHMAC c k v) := by
  have h32 := hl.hmac_len k v
  unfold extractHash generateHMAC
  have hk : knownFunc hashByte = true := by decide
  simp only [List.cons_append, hk, Bool.not_true, Bool.false_eq_true, if_false]
  have : ¬ (c.hmac k v ++ e).length < macLen := by simp [macLen_eq, h32]
  simp only [this, if_false]
  simp [macLen_eq, Generated.Searchable.extractTakeExtra, List.take_succ_cons, List.take_left' h32]

/-- the hash check accepts exactly the genuine index of the data -/
theorem isEqual_iff (c : CryptoOps) (hl : HashLen c) (k : Bytes) {data h : Bytes} (d : Bytes)
    (he : extractHash data = some h) :
    isEqual c (some k) h d = true ↔ h = generateHMAC c k d := by
  obtain ⟨rest, _, hlen, hh⟩ := extractHash_shape he
  subst hh
  simp only [isEqual, List.drop_succ_cons, List.drop_zero, beq_iff_eq, generateHMAC, List.cons.injEq, true_and]

theorem isEqual_nokey (c : CryptoOps) (h d : Bytes) : isEqual c none h d = false := rfl

/-! ### `NewHashProcessor`, the library functions, AcraTranslator -/

theorem hashProcessor_checked (c : CryptoOps) (hkey : Option Bytes) (proc : Bytes → Out Bytes)
    (data h p : Bytes) (he : extractHash data = some h) (hok : hashProcessor c hkey proc data = .ok p) :
    proc (data.drop h.length) = .ok p ∧ isEqual c hkey h p = true := by
  unfold hashProcessor at hok
  simp only [he] at hok
  cases hp : proc (data.drop h.length) with
  | err => simp [hp] at hok
  | panic => simp [hp] at hok
  | ok q =>
    simp only [hp] at hok
    split at hok
    · rename_i heq
      cases hok
      exact ⟨rfl, heq⟩
    · cases hok

theorem translatorDecrypt_checked (c : CryptoOps) (hkey : Option Bytes) (kv : KeyView) (kd : Kind)
    (data h p : Bytes) (he : extractHash data = some h) (hok : translatorDecrypt c hkey kv kd data = .ok p) :
    decryptWithHandler c kv kd (data.drop h.length) = .ok p ∧ isEqual c hkey h p = true := by
  unfold translatorDecrypt extractHashAndData at hok
  simp only [he] at hok
  cases hp : decryptWithHandler c kv kd (data.drop h.length) with
  | err => simp [hp] at hok
  | panic => simp [hp] at hok
  | ok q =>
    simp only [hp] at hok
    split at hok
    · rename_i heq
      cases hok
      exact ⟨rfl, heq⟩
    · cases hok

/-! ### `hmac.Processor` -/

/-- the first call for a column does not look at the state left by earlier columns -/
theorem pOnColumn_first_stateless (c : CryptoOps) (hkey : Option Bytes) (s s' : PState) (data : Bytes) :
    pOnColumn c hkey false s data = pOnColumn c hkey false s' data := by
  simp [pOnColumn]

/-- the second call leaves nothing behind -/
theorem pOnColumn_second_resets (c : CryptoOps) (hkey : Option Bytes) (s : PState) (data : Bytes) (o : POut)
    (h : pOnColumn c hkey true s data = .ok o) : o.st = PState.init := by
  simp only [pOnColumn, if_true] at h
  cases hp : pProcess c hkey s data with
  | err => simp [hp] at h
  | panic => simp [hp] at h
  | ok b =>
    cases b <;> simp [hp] at h <;> (subst h; rfl)

theorem column_stateless (c : CryptoOps) (hkey : Option Bytes) (det : Bytes → ScanOut) (s s' : PState) (col : Bytes) :
    column c hkey det s col = column c hkey det s' col := by
  simp only [column, columnWith, pOnColumn_first_stateless c hkey s s' col]

theorem column_resets (c : CryptoOps) (hkey : Option Bytes) (det : Bytes → ScanOut) (s s1 : PState) (col out : Bytes)
    (h : column c hkey det s col = .ok (s1, some out)) : s1 = PState.init := by
  simp only [column, columnWith] at h
  cases h1 : pOnColumn c hkey false s col with
  | err => simp [h1] at h
  | panic => simp [h1] at h
  | ok o1 =>
    simp only [h1] at h
    cases hd : det o1.data with
    | panic => simp [hd] at h
    | fatal => simp [hd] at h
    | ok d hit =>
      simp only [hd] at h
      cases h2 : pOnColumn c hkey true o1.st d with
      | err => simp [h2] at h
      | panic => simp [h2] at h
      | ok o2 =>
        simp only [h2, Out.ok.injEq, Prod.mk.injEq] at h
        rw [← h.1]
        exact pOnColumn_second_resets c hkey o1.st d o2 h2

/-- what a column that starts with a hash followed by an envelope turns into: the detector's output
if the hash matches it, the stored bytes otherwise -/
theorem column_searchable (c : CryptoOps) (hkey : Option Bytes) (det : Bytes → ScanOut) (s : PState)
    (col h d : Bytes) (hit : Bool)
    (he : extractHash col = some h) (hm : matchEnvelope (col.drop h.length) = .ok true)
    (hd : det (col.drop h.length) = .ok d hit) :
    column c hkey det s col = .ok (PState.init, some (if isEqual c hkey h d then d else col)) := by
  simp only [column, columnWith, pOnColumn, he, hm, hd, Bool.false_eq_true, if_false, if_true, pProcess]
  cases hq : isEqual c hkey h d <;> simp

/-- a column without a leading hash (or without an envelope after it) passes the processor untouched
in both directions: only the detector acts on it -/
theorem column_plain (c : CryptoOps) (hkey : Option Bytes) (det : Bytes → ScanOut) (s : PState)
    (col d : Bytes) (hit : Bool)
    (hne : extractHash col = none ∨ ∃ h, extractHash col = some h ∧ matchEnvelope (col.drop h.length) = .ok false)
    (hd : det col = .ok d hit) :
    column c hkey det s col = .ok (PState.init, some d) := by
  cases hne with
  | inl he =>
    simp [column, columnWith, pOnColumn, he, hd, pProcess, PState.init]
  | inr hx =>
    obtain ⟨h, he, hm⟩ := hx
    simp [column, columnWith, pOnColumn, he, hm, hd, pProcess, PState.init]

/-! ### the pinned tree's processor (before the repair) -/

/-- a state with a remembered `hashData` but a nil `matchedHash` makes every further call panic -/
theorem legacy_poisoned_panics (c : CryptoOps) (hkey : Option Bytes) (s : PState) (x : Bytes)
    (h1 : s.hashData = some x) (h2 : s.matchedHash = none) (d : Bytes) :
    legacyOnColumn c hkey s d = .panic := by
  simp [legacyOnColumn, pProcess, h1, h2]

/-- the second call of the old processor on a verified plaintext that itself starts like a hash but
holds no envelope behind it leaves exactly such a state -/
theorem legacy_second_call_poisons (c : CryptoOps) (hkey : Option Bytes) (s : PState) (x h plain hp : Bytes)
    (h1 : s.hashData = some x) (h2 : s.matchedHash = some h) (hv : isEqual c hkey h plain = true)
    (he : extractHash plain = some hp) (hm : matchEnvelope (plain.drop hp.length) = .ok false) :
    ∃ o, legacyOnColumn c hkey s plain = .ok o ∧ o.data = plain ∧ o.st.hashData = some x ∧ o.st.matchedHash = none := by
  refine ⟨⟨{ s with matchedHash := none }, plain, false⟩, ?_, rfl, h1, rfl⟩
  simp [legacyOnColumn, pProcess, h1, h2, hv, he, hm]

/-- … and when an envelope does follow, the old processor delivered the plaintext without its first
33 bytes and kept the plaintext as `rawData` for the next column -/
theorem legacy_second_call_truncates (c : CryptoOps) (hkey : Option Bytes) (s : PState) (x h plain hp : Bytes)
    (h1 : s.hashData = some x) (h2 : s.matchedHash = some h) (hv : isEqual c hkey h plain = true)
    (he : extractHash plain = some hp) (hm : matchEnvelope (plain.drop hp.length) = .ok true) :
    ∃ o, legacyOnColumn c hkey s plain = .ok o ∧ o.data = plain.drop hp.length ∧ o.st.rawData = plain ∧
      o.st.hashData = some (plain.take hp.length) := by
  refine ⟨⟨{ hashData := some (plain.take hp.length), matchedHash := some hp, rawData := plain }, plain.drop hp.length, false⟩, ?_, rfl, rfl, rfl⟩
  simp [legacyOnColumn, pProcess, h1, h2, hv, he, hm]

end AcraModel.Searchable
