import AcraModel.Searchable.Index
import AcraModel.Generated.SearchBind
/-
The query side of searchable encryption: `HashQuery.OnQuery` / `OnBind`
(`hmac/decryptor/{postgresql,mysql}/hashQuery.go`) together with the filter that selects the
comparisons to rewrite (`encryptor/{postgresql,mysql}/searchable_query_filter.go`,
`filterColumnEqualComparisonExprs`), over a small condition language. What the SQL parsers do is
not modelled: the harness generates statements *from* these structured conditions and reads the
rewritten statement back into `DbCond` (tie by correspondence).
-/
namespace AcraModel.Searchable
open AcraModel AcraModel.Envelope Generated

inductive Dialect | pg | mysql
deriving DecidableEq, Repr

/-- a column of one of the row sources of the statement (`tbl` = position in FROM / JOIN) -/
structure ColRef where
  tbl : Nat
  col : Nat
deriving DecidableEq, Repr

/-- one side of a comparison as the client wrote it; byte strings are the values *as the data
coder decodes them* (`PgQueryDBDataCoder.Decode`, `BoundValue.GetData`) -/
inductive Operand where
  | col (c : ColRef)
  | lit (v : Bytes)
  /-- literal under a type cast (PostgreSQL `'v'::bytea`; MySQL `_binary 'v'`) -/
  | cast (v : Bytes)
  /-- placeholder, 0-based (`$1` / first `?` is `param 0`) -/
  | param (i : Nat)
  /-- placeholder under a type cast (`$1::bytea`) -/
  | castParam (i : Nat)
  /-- anything else (NULL, function call, arithmetic, sub-select …) -/
  | other
deriving DecidableEq, Repr

/-- comparison operators: `=`, `<>`/`!=`, MySQL's `<=>`, and `<` as the representative of every
other operator -/
inductive Op | eq | ne | nullSafeEq | lt
deriving DecidableEq, Repr

inductive Cond where
  | cmp (l : Operand) (op : Op) (r : Operand)
  | and (a b : Cond)
  | or (a b : Cond)
deriving Repr

/-- expressions of the statement the database receives -/
inductive DbExpr where
  | col (c : ColRef)
  /-- `substr(col, from, len)`; `binary` = wrapped as MySQL `convert(… , binary)` -/
  | substr (c : ColRef) (frm len : Nat) (binary : Bool)
  | const (v : Bytes)
  | param (i : Nat)
  | castParam (i : Nat)
  | other
deriving DecidableEq, Repr

inductive DbCond where
  | cmp (l : DbExpr) (op : Op) (r : DbExpr)
  | and (a b : DbCond)
  | or (a b : DbCond)
deriving Repr

/-- everything `HashQuery` needs besides the statement -/
structure QCtx where
  c : CryptoOps
  d : Dialect
  /-- `GetHMACSecretKey(session client id)`; `none` = key-store error -/
  hkey : Option Bytes
  /-- data keys of the session's client (a value that already is an envelope is decrypted for hashing) -/
  kv : KeyView
  /-- schema: is this column configured `searchable: true` -/
  searchable : ColRef → Bool
  /-- schema: is this column configured `consistent_tokenization: true` (such columns pass the filter
  `filterColumnEqualComparisonExprs` and are listed by `ParseSearchQueryPlaceholdersSettings` as well;
  `HashQuery` itself skips their items) -/
  tokenized : ColRef → Bool := fun _ => false

/-- `(from, len)` of the `substr` built for the left / right side -/
def substrBounds (d : Dialect) (right : Bool) : Nat × Nat :=
  match d with
  | .pg => (Searchable.pgSubstrFrom, Searchable.pgSubstrLen)
  | .mysql => Searchable.mysqlSubstrBounds.getD (if right then 1 else 0) (0, 0)

def substrOf (d : Dialect) (right : Bool) (c : ColRef) (binary : Bool) : DbExpr :=
  .substr c (substrBounds d right).1 (substrBounds d right).2 binary

/-- the operand as it is forwarded when nothing rewrites it -/
def Operand.toDb : Operand → DbExpr
  | .col c => .col c
  | .lit v => .const v
  | .cast v => .const v
  | .param i => .param i
  | .castParam i => .castParam i
  | .other => .other

def opName (d : Dialect) : Op → String
  | .eq => match d with | .pg => "=" | .mysql => "sqlparser.EqualStr"
  | .ne => match d with | .pg => "<>" | .mysql => "sqlparser.NotEqualStr"
  | .nullSafeEq => match d with | .pg => "<=>" | .mysql => "sqlparser.NullSafeEqualStr"
  | .lt => match d with | .pg => "<" | .mysql => "sqlparser.LessThanStr"

/-- the operator test of `filterColumnEqualComparisonExprs` for `<column> <op> <value>` (regenerated lists) -/
def valueOp (d : Dialect) (op : Op) : Bool :=
  match d with
  | .pg => Searchable.pgValueOps.contains (opName d op)
  | .mysql => Searchable.mysqlValueOps.contains (opName d op)

/-- `ChangeSearchableOperator` (regenerated case lists) -/
def changeOp (d : Dialect) (op : Op) : Op :=
  let (toEq, toNe) := match d with
    | .pg => (Searchable.pgToEq, Searchable.pgToNe)
    | .mysql => (Searchable.mysqlToEq, Searchable.mysqlToNe)
  if toEq.contains (opName d op) then .eq
  else if toNe.contains (opName d op) then .ne
  else op

/-- `HashQuery.calculateHmac`: hash of the value, or – when the value already is an envelope – of
what it decrypts to under the session's keys -/
def calcHmac (x : QCtx) (data : Bytes) : Out Bytes :=
  if !registryMatch data then
    match x.hkey with
    | none => .err
    | some k => .ok (generateHMAC x.c k data)
  else
    match process x.c x.kv data with
    | .ok plain =>
      match x.hkey with
      | none => .err
      | some k => .ok (generateHMAC x.c k plain)
    | .err => .err
    | .panic => .panic

/-- `UpdateExpressionValue` with `calculateHmac`: a new value equal to the old one is reported as
`ErrUpdateLeaveDataUnchanged`, which `OnQuery` returns as an error -/
def updateValue (x : QCtx) (v : Bytes) : Out Bytes :=
  match calcHmac x v with
  | .ok h => if h == v then .err else .ok h
  | .err => .err
  | .panic => .panic

/-- what the filter decides about one comparison -/
inductive Item where
  | none                      -- not selected: forwarded as written
  | join (lc rc : ColRef)     -- both sides searchable columns
  | value (lc : ColRef) (v : Bytes)
  | param (lc : ColRef) (i : Nat)
  /-- PostgreSQL only: `column = $1::type` is selected, the left side is rewritten, but neither
  `OnQuery` nor `OnBind` finds the placeholder under the cast -/
  | castParam (lc : ColRef) (i : Nat)
deriving DecidableEq, Repr

/-- `filterColumnEqualComparisonExprs` on one comparison -/
def classify (x : QCtx) (l : Operand) (op : Op) (r : Operand) : Item :=
  match l with
  | .col lc =>
    if !x.searchable lc then
      -- a consistently tokenized column on the left passes the filter's gate too; its item reaches HashQuery
      -- with a searchable setting only when the right side is a searchable COLUMN (the filter then hands
      -- over the right column's setting) – every other item of a tokenized column is skipped
      match r with
      | .col rc => if x.tokenized lc && x.searchable rc then .join lc rc else .none
      | _ => .none
    else
    match r with
    | .col rc => if x.searchable rc then .join lc rc else .none
    | .lit v => if valueOp x.d op then .value lc v else .none
    | .cast v => if x.d = .pg && valueOp x.d op then .value lc v else .none
    | .param i => if valueOp x.d op then .param lc i else .none
    | .castParam i => if x.d = .pg && valueOp x.d op then .castParam lc i else .none
    | .other => .none
  | _ => .none

/-- the loop body of `OnQuery` for one comparison -/
def rewriteCmp (x : QCtx) (l : Operand) (op : Op) (r : Operand) : Out DbCond :=
  match classify x l op r with
  | .none => .ok (.cmp l.toDb op r.toDb)
  | .join lc rc => .ok (.cmp (substrOf x.d false lc false) (changeOp x.d op) (substrOf x.d true rc false))
  | .value lc v =>
    match updateValue x v with
    | .ok h => .ok (.cmp (substrOf x.d false lc (x.d = .mysql)) (changeOp x.d op) (.const h))
    | .err => .err
    | .panic => .panic
  | .param lc i => .ok (.cmp (substrOf x.d false lc false) (changeOp x.d op) (.param i))
  | .castParam lc i => .ok (.cmp (substrOf x.d false lc false) (changeOp x.d op) (.castParam i))

/-- `HashQuery.OnQuery` on the condition of a SELECT / UPDATE / DELETE / INSERT … SELECT -/
def rewriteCond (x : QCtx) : Cond → Out DbCond
  | .cmp l op r => rewriteCmp x l op r
  | .and a b =>
    match rewriteCond x a with
    | .ok a' => match rewriteCond x b with
      | .ok b' => .ok (.and a' b')
      | .err => .err
      | .panic => .panic
    | .err => .err
    | .panic => .panic
  | .or a b =>
    match rewriteCond x a with
    | .ok a' => match rewriteCond x b with
      | .ok b' => .ok (.or a' b')
      | .err => .err
      | .panic => .panic
    | .err => .err
    | .panic => .panic

/-- placeholder indexes `OnBind` collects, in walk order -/
def itemParams (x : QCtx) : Cond → List Nat
  | .cmp l op r =>
    match classify x l op r with
    | .param _ i => [i]
    | _ => []
  | .and a b => itemParams x a ++ itemParams x b
  | .or a b => itemParams x a ++ itemParams x b

/-- the `(placeholder index, column is searchable)` pairs `ParseSearchQueryPlaceholdersSettings`
records, in walk order: `<searchable or consistently tokenized column> <=|<>|<=>> <placeholder>` -/
def bindEntries (x : QCtx) : Cond → List (Nat × Bool)
  | .cmp (.col lc) op (.param i) =>
    if (x.searchable lc || x.tokenized lc) && valueOp x.d op then [(i, x.searchable lc)] else []
  | .cmp _ _ _ => []
  | .and a b => bindEntries x a ++ bindEntries x b
  | .or a b => bindEntries x a ++ bindEntries x b

/-- Go `m[k] = v` on a map kept as an association list without duplicate keys -/
def assign (m : List (Nat × Bool)) (k : Nat) (v : Bool) : List (Nat × Bool) :=
  (k, v) :: m.filter (fun e => e.1 != k)

/-- `bindData`, the map `ParseSearchQueryPlaceholdersSettings` returns (a later comparison with the same
placeholder overwrites the setting of an earlier one) -/
def bindData (x : QCtx) (cond : Cond) : List (Nat × Bool) :=
  (bindEntries x cond).foldl (fun m e => assign m e.1 e.2) []

def bindCountsSearchableOnly (d : Dialect) : Bool :=
  match d with
  | .pg => SearchBind.pgBindCountsSearchableOnly
  | .mysql => SearchBind.mysqlBindCountsSearchableOnly

def replacesOnce (d : Dialect) : Bool :=
  match d with
  | .pg => SearchBind.pgReplacesOnce
  | .mysql => SearchBind.mysqlReplacesOnce

/-- the number `OnBind` compares with `len(indexes)`: the placeholders of searchable columns in
`bindData` (`countOwn`), or – on the pinned tree – all of `bindData` -/
def bindCount (countOwn : Bool) (x : QCtx) (cond : Cond) : Nat :=
  if countOwn then ((bindData x cond).filter (·.2)).length else (bindData x cond).length

/-- `replaceValuesWithHMACs`. `newValues` is a copy of the SLICE `values`: both hold the same value
objects, so `values[i].GetData` after `newValues[i].SetData` reads the replacement (`acc` is that shared
state). `once` = a position is replaced only the first time it is listed (`replaced` set); without it a
placeholder used in two comparisons is hashed twice. `done` = positions replaced so far. -/
def hashShared (x : QCtx) (once : Bool) : List Nat → List Nat → List Bytes → Out (List Bytes)
  | [], _, acc => .ok acc
  | i :: is, done, acc =>
    if once && done.contains i then hashShared x once is done acc else
    match acc[i]? with
    | none => .err
    | some v =>
      match calcHmac x v with
      | .ok h => hashShared x once is (i :: done) (acc.set i h)
      | .err => .err
      | .panic => .panic

/-- `HashQuery.OnBind` with the two regenerated switches spelled out -/
def rewriteBindWith (countOwn once : Bool) (x : QCtx) (cond : Cond) (values : List Bytes) : Out (List Bytes) :=
  let idxs := itemParams x cond
  if idxs.any (fun i => values.length ≤ i) then .err
  else if idxs.length < bindCount countOwn x cond then .ok values
  else hashShared x once idxs [] values

/-- `HashQuery.OnBind`: the bound values (decoded) → the values sent to the database -/
def rewriteBind (x : QCtx) (cond : Cond) (values : List Bytes) : Out (List Bytes) :=
  rewriteBindWith (bindCountsSearchableOnly x.d) (replacesOnce x.d) x cond values

/-- the pinned tree's `OnBind` (regression witnesses, counterexample theorems) -/
def legacyRewriteBind (x : QCtx) (cond : Cond) (values : List Bytes) : Out (List Bytes) :=
  rewriteBindWith false false x cond values

end AcraModel.Searchable
