import AcraModel.Keystore.RefineCacheMono2
/-!
# v1 key cache: a surviving key that read-all offered is offered by every later read-all
-/
namespace AcraModel.Keystore

/-- slot `s` holds generation `g` for read-all: it is in the history directory, or it is the newest
generation and the cache does not shadow the current key with another one -/
def V1.Holds (st : V1) (s : Slot) (g : Nat) : Prop :=
  g ∈ st.fs.oldIds (privFile s) ∨ (g = st.count s ∧ ∀ v, st.look (.rel (privFile s)) = some v → v = .key g)

theorem alive_iff {fs : FS} {count : Slot → Nat} (hi : FSInv fs count) (s : Slot) (g : Nat) :
    g ∈ (absFS fs count s).survivors ↔ (count s ≠ 0 ∧ (g ∈ fs.oldIds (privFile s) ∨ g = count s)) := by
  rw [survivors_abs hi]
  by_cases hn : count s = 0 <;> simp [hn]

theorem absFS_length (fs : FS) (count : Slot → Nat) (s : Slot) : (absFS fs count s).length = count s := by
  simp [absFS]

theorem survivors_generate (sl : SpecSlot) : (SpecSlot.generate sl).survivors = sl.survivors ++ [sl.length + 1] := by
  simp [SpecSlot.generate, SpecSlot.survivors]

/-- no operation other than generate makes a generation alive, and generate only the new one -/
theorem survivors_back (fmt : Fmt) (sp : Spec) (o : Op) (s : Slot) (g : Nat)
    (h : g ∈ ((Spec.stepApi fmt sp o).1 s).survivors) : g ∈ (sp s).survivors ∨ g = (sp s).length + 1 := by
  cases o with
  | gen s0 =>
    simp only [Spec.stepApi, Spec.step] at h
    by_cases hs : s = s0
    · subst hs
      rw [upd_same, survivors_generate] at h
      rcases List.mem_append.1 h with h | h
      · exact Or.inl h
      · exact Or.inr (by simpa using h)
    · rw [upd_other _ _ _ _ hs] at h; exact Or.inl h
  | drot s0 i =>
    simp only [Spec.stepApi, Spec.step] at h
    split at h
    · cases hd : (sp s0).destroyRotated i with
      | none => simp only [hd] at h; exact Or.inl h
      | some sl' =>
        simp only [hd] at h
        by_cases hs : s = s0
        · subst hs
          rw [upd_same] at h
          simp only [SpecSlot.destroyRotated] at hd
          cases hl : (sp s).listedAt i with
          | none => simp [hl] at hd
          | some g0 =>
            simp only [hl, Option.map_some, Option.some.injEq] at hd
            rw [← hd, survivors_destroyId] at h
            exact Or.inl (List.mem_filter.1 h).1
        · rw [upd_other _ _ _ _ hs] at h; exact Or.inl h
    · exact Or.inl h
  | dcur s0 =>
    simp only [Spec.stepApi, Spec.step] at h
    split at h
    · dsimp only at h
      by_cases hs : s = s0
      · subst hs
        rw [upd_same] at h
        simp only [SpecSlot.destroyCurrent] at h
        split at h
        · rw [survivors_destroyId] at h; exact Or.inl (List.mem_filter.1 h).1
        · exact Or.inl h
      · rw [upd_other _ _ _ _ hs] at h; exact Or.inl h
    · exact Or.inl h
  | cur _ => exact Or.inl h
  | pub s0 => exact Or.inl h
  | all s0 =>
    simp only [Spec.stepApi, Spec.step] at h
    split at h <;> exact Or.inl h
  | list => exact Or.inl h
  | listRot => exact Or.inl h
  | reset => exact Or.inl h
  | reopen => exact Or.inl h

theorem countStep_mono (count : Slot → Nat) (o : Op) (s : Slot) : count s ≤ countStep count o s := by
  cases o with
  | gen s0 =>
    simp only [countStep]
    by_cases hs : s = s0
    · subst hs; simp
    · simp [upd, hs]
  | _ => exact Nat.le_refl _

/-- a generation that survives after a step (and existed before it) survived before it -/
theorem alive_back_step {fs : FS} {count : Slot → Nat} (hi : FSInv fs count) (o : Op) (ho : o.isDcur = false)
    (s : Slot) (g : Nat) (hg : g ≤ count s)
    (h : g ∈ (absFS (fsStep fs count o) (countStep count o) s).survivors) : g ∈ (absFS fs count s).survivors := by
  have hsim := V1.step_sim ⟨fs, none, count⟩ o ⟨rfl, hi⟩ ho
  have hfs := V1.step_fs ⟨fs, none, count⟩ o
  have habs : absFS (fsStep fs count o) (countStep count o) = (Spec.stepApi .v1 (absFS fs count) o).1 := by
    have e : absFS (V1.step ⟨fs, none, count⟩ o).1.fs (V1.step ⟨fs, none, count⟩ o).1.count =
        (Spec.stepApi .v1 (absFS fs count) o).1 := hsim.2.1
    rw [hfs.1, hfs.2] at e
    exact e
  rw [habs] at h
  rcases survivors_back _ _ _ _ _ h with h | h
  · exact h
  · rw [absFS_length] at h; omega

theorem alive_back_run (ops : List Op) (st : V1) (hi : FSInv st.fs st.count) (hops : ∀ o ∈ ops, o.isDcur = false)
    (s : Slot) (g : Nat) (hg : g ≤ st.count s)
    (h : g ∈ ((st.run ops).1.abs s).survivors) : g ∈ (st.abs s).survivors := by
  induction ops generalizing st with
  | nil => exact h
  | cons o os ih =>
    have hfs := V1.step_fs st o
    have ho := hops o (by simp)
    have hi' := fsStep_inv hi o ho
    rw [← hfs.1, ← hfs.2] at hi'
    have hg' : g ≤ (st.step o).1.count s := by rw [hfs.2]; exact Nat.le_trans hg (countStep_mono _ _ _)
    have := ih (st.step o).1 hi' (fun o' ho' => hops o' (by simp [ho'])) hg' h
    unfold V1.abs at this
    rw [hfs.1, hfs.2] at this
    exact alive_back_step hi o ho s g hg this

/-- **One step keeps what read-all holds**, for a generation that survives the step. -/
theorem V1.holds_step (st : V1) (o : Op) (hm : st.MInv) (ho : o.isDcur = false) (s : Slot) (g : Nat)
    (hh : st.Holds s g) (halive : g ∈ ((st.step o).1.abs s).survivors) : (st.step o).1.Holds s g := by
  obtain ⟨hm', hkey⟩ := V1.step_minv st o hm ho
  unfold V1.abs at halive
  rw [alive_iff hm'.fs] at halive
  obtain ⟨_, ha | ha⟩ := halive
  · exact Or.inl ha
  · have hcnt : st.count s ≤ (st.step o).1.count s := by rw [(V1.step_fs st o).2]; exact countStep_mono _ _ _
    rcases hh with h1 | ⟨h1, h2⟩
    · have := ((hm.fs.priv s).bound g h1).2; omega
    · refine Or.inr ⟨ha, ?_⟩
      intro v hv
      rcases hkey s v hv with h | h
      · exact h2 v h
      · rw [h, ← ha]

theorem V1.holds_run (ops : List Op) (st : V1) (hm : st.MInv) (hops : ∀ o ∈ ops, o.isDcur = false) (s : Slot) (g : Nat)
    (hg : g ≤ st.count s) (hh : st.Holds s g) (halive : g ∈ ((st.run ops).1.abs s).survivors) :
    (st.run ops).1.MInv ∧ (st.run ops).1.Holds s g := by
  induction ops generalizing st with
  | nil => exact ⟨hm, hh⟩
  | cons o os ih =>
    have ho := hops o (by simp)
    have hm' := (V1.step_minv st o hm ho).1
    have hg' : g ≤ (st.step o).1.count s := by
      rw [(V1.step_fs st o).2]; exact Nat.le_trans hg (countStep_mono _ _ _)
    have halive' : g ∈ ((st.step o).1.abs s).survivors :=
      alive_back_run os (st.step o).1 hm'.fs (fun o' ho' => hops o' (by simp [ho'])) s g hg' halive
    exact ih (st.step o).1 hm' (fun o' ho' => hops o' (by simp [ho'])) hg' (V1.holds_step st o hm ho s g hh halive') halive

theorem V1.run_minv (ops : List Op) (st : V1) (hm : st.MInv) (hops : ∀ o ∈ ops, o.isDcur = false) : (st.run ops).1.MInv := by
  induction ops generalizing st with
  | nil => exact hm
  | cons o os ih => exact ih _ (V1.step_minv st o hm (hops o (by simp))).1 (fun o' ho' => hops o' (by simp [ho']))

/-- read-all of a never-generated slot offers no generation -/
theorem V1.readAll_zero (st : V1) (s : Slot) (hm : st.MInv) (ha : s.kind.hasAll = true) (h0 : st.count s = 0) :
    ∀ l, (st.readAll s).2 = some l → ∀ g ∈ l, g = 0 := by
  unfold V1.readAll
  have g1 := V1.getNames_result st (privFile s)
  have g2 := V1.getNames_evol st (privFile s) rfl ha
  have g3 := V1.getNames_fs st (privFile s)
  have g4 := V1.getNames_count st (privFile s)
  dsimp only
  generalize st.getNames (privFile s) = p at g1 g2 g3 g4 ⊢
  obtain ⟨st1, names⟩ := p
  simp only at g1 g2 g3 g4
  have hold : st.fs.old (privFile s) = [] := by
    have := hm.fs.priv s; rw [h0] at this; exact this.old_nil
  have hnames : names = [none] := by
    rw [g1]
    cases hl : st.look (.names (privFile s)) with
    | none => simp [historicalNames, hold]
    | some v => rw [(hm.coh _ _ hl).2.2]; simp [historicalNames, hold]
  subst hnames
  have hm1 : st1.MInv := ⟨by rw [g3, g4]; exact hm.fs, hm.coh.evol hm.fs g2 g3 g4⟩
  have hcur : (st1.fs.readName (privFile s) none).bind Content.decrypt = none := by
    have := (hm.fs.priv s).cur
    rw [g3]
    simp [FS.readName, this, h0]
  simp only [V1.readAllAux]
  have r1 := V1.readKey_result st1 (privFile s) none (!s.kind.isPair)
  generalize st1.readKey (privFile s) none (!s.kind.isPair) = p at r1 ⊢
  obtain ⟨st2, r⟩ := p
  simp only at r1
  rw [hcur] at r1
  cases hl : st1.look (ckeyOf (privFile s) none) with
  | none =>
    rw [hl] at r1; subst r1
    intro l hl'; cases hl'
  | some v =>
    obtain ⟨g', rfl, hg'⟩ := hm1.coh _ _ hl rfl
    rw [hl] at r1; subst r1
    intro l hl'
    simp only [V1.readAllAux, List.reverse_cons, List.reverse_nil, List.nil_append, Option.some.injEq] at hl'
    subst hl'
    intro g hg
    have : g = g' := by simpa using hg
    subst this
    have : (privFile s).slot = s := rfl
    rw [this, g4, h0] at hg'
    omega

theorem survivors_pos (fs : FS) (count : Slot → Nat) (s : Slot) (g : Nat) (h : g ∈ (absFS fs count s).survivors) : 0 < g := by
  unfold absFS at h
  rw [survivors_range] at h
  obtain ⟨i, _, rfl⟩ := List.mem_map.1 (List.mem_filter.1 h).1
  omega

/-- **cache_monotone (from any state of a run without destroy-current).** -/
theorem V1.cache_monotone (st1 : V1) (hm1 : st1.MInv) (ops2 : List Op) (s : Slot) (g : Nat)
    (h2 : ∀ o ∈ ops2, o.isDcur = false) (l1 : List Nat)
    (hobs : (st1.step (.all s)).2 = .keys l1) (hg : g ∈ l1)
    (halive : g ∈ (((st1.step (.all s)).1.run ops2).1.abs s).survivors) :
    ∃ l2, (((st1.step (.all s)).1.run ops2).1.step (.all s)).2 = .keys l2 ∧ g ∈ l2 := by
  -- the slot has a read-all
  have ha : s.kind.hasAll = true := by
    cases hh : s.kind.hasAll
    · simp [V1.step, hh] at hobs
    · rfl
  have hst : (st1.step (.all s)).1 = (st1.readAll s).1 := by simp [V1.step, ha]
  have hr1 : (st1.readAll s).2 = some l1 := by
    cases hr : (st1.readAll s).2 with
    | none => simp [V1.step, ha, hr] at hobs
    | some l => simp only [V1.step, ha, hr, not_true_eq_false, if_false, Obs.keys.injEq] at hobs; rw [hobs]
  have hm1' := (V1.step_minv st1 (.all s) hm1 rfl).1
  have hfs1 : (st1.step (.all s)).1.fs = st1.fs := (V1.step_fs st1 (.all s)).1
  have hcnt1 : (st1.step (.all s)).1.count = st1.count := (V1.step_fs st1 (.all s)).2
  -- g is a positive generation
  have hpos : 0 < g := survivors_pos _ _ s g halive
  have hn : st1.count s ≠ 0 := by
    intro h0
    have := V1.readAll_zero st1 s hm1 ha h0 l1 hr1 g hg
    omega
  obtain ⟨x, hx, hx1, hx2⟩ := V1.readAll_front st1 s hm1 ha hn
  rw [hr1] at hx
  have hl1 : l1 = x :: (st1.fs.oldIds (privFile s)).reverse := by simpa using hx
  -- g existed at the time of the first read
  have hgle : g ≤ st1.count s := by
    rw [hl1] at hg
    rcases List.mem_cons.1 hg with rfl | hg
    · by_cases hxc : g = st1.count s
      · omega
      · obtain ⟨g', hv, hle⟩ := hm1.coh _ _ (hx1 hxc) rfl
        cases hv
        exact hle
    · have := ((hm1.fs.priv s).bound g (List.mem_reverse.1 hg)).2; omega
  -- it survives at the first read
  have halive1' : g ∈ (((st1.step (.all s)).1.abs s).survivors) :=
    alive_back_run ops2 _ hm1'.fs h2 s g (by rw [hcnt1]; exact hgle) halive
  have halive1 : g ∈ (absFS st1.fs st1.count s).survivors := by
    unfold V1.abs at halive1'; rw [hfs1, hcnt1] at halive1'; exact halive1'
  -- read-all holds it afterwards
  have hholds1 : (st1.step (.all s)).1.Holds s g := by
    rw [alive_iff hm1.fs] at halive1
    unfold V1.Holds
    rw [hfs1, hcnt1]
    rcases halive1.2 with h | h
    · exact Or.inl h
    · refine Or.inr ⟨h, ?_⟩
      intro v hv
      rw [hst] at hv
      have hxg : x = g := by
        rw [hl1] at hg
        rcases List.mem_cons.1 hg with rfl | hg
        · rfl
        · have := ((hm1.fs.priv s).bound g (List.mem_reverse.1 hg)).2; omega
      rcases hx2 v hv with h' | h'
      · rw [h', hxg]
      · rw [h', h]
  obtain ⟨hm2, hholds2⟩ := V1.holds_run ops2 _ hm1' h2 s g (by rw [hcnt1]; exact hgle) hholds1 halive
  generalize ((st1.step (.all s)).1.run ops2).1 = st2 at hm2 hholds2 halive ⊢
  have halive2 := halive
  unfold V1.abs at halive2
  rw [alive_iff hm2.fs] at halive2
  obtain ⟨y, hy, hy1, _⟩ := V1.readAll_front st2 s hm2 ha halive2.1
  refine ⟨y :: (st2.fs.oldIds (privFile s)).reverse, by simp [V1.step, ha, hy], ?_⟩
  rcases hholds2 with h | ⟨h, hsh⟩
  · exact List.mem_cons_of_mem _ (List.mem_reverse.2 h)
  · by_cases hyc : y = st2.count s
    · rw [hyc, ← h]; exact List.mem_cons_self
    · have := hsh _ (hy1 hyc)
      cases this
      exact List.mem_cons_self

theorem V1.run_append (a b : List Op) (st : V1) : (st.run (a ++ b)).1 = ((st.run a).1.run b).1 := by
  induction a generalizing st with
  | nil => rfl
  | cons o os ih => simp only [List.cons_append, V1.run]; exact ih _

/-- the abstraction of a cached run is the specification's state: the storage does not depend on the cache -/
theorem V1.abs_run_cached (c : Int) (ops : List Op) (hops : ∀ o ∈ ops, o.isDcur = false) :
    ((V1.init c).run ops).1.abs = (Spec.runApi .v1 Spec.init ops).1 := by
  obtain ⟨h1, h2⟩ := V1.run_fs ops (V1.init c) (V1.init (-1)) rfl rfl
  have h := V1.run_sim ops (V1.init (-1)) V1.Inv.init hops
  have habs : (V1.init (-1)).abs = Spec.init := rfl
  rw [habs] at h
  rw [← h.2.1]
  unfold V1.abs
  rw [h1, h2]

end AcraModel.Keystore
