import AcraModel.Keystore.RefineCacheMono
/-!
# v1 key cache: monotonicity of read-all in runs without destroy-current
-/
namespace AcraModel.Keystore

/-- invariant of a cached v1 store in runs without destroy-current -/
structure V1.MInv (st : V1) : Prop where
  fs : FSInv st.fs st.count
  coh : st.CohM

theorem V1.MInv.init (c : Int) : (V1.init c).MInv := by
  refine ⟨FSInv.init, ?_⟩
  intro k v hv
  unfold V1.init V1.look at hv
  dsimp only at hv
  split at hv
  · cases hv
  · rename_i c' hc'
    split at hc'
    · cases hc'
    · cases hc'; simp [LRU.look] at hv

theorem fresh_rel_priv {fs : FS} {count : Slot → Nat} (hi : FSInv fs count) (s : Slot) (v : CVal)
    (h : Fresh fs (.rel (privFile s)) v) : v = .key (count s) := by
  simp only [Fresh, privFile, Bool.false_eq_true, if_false] at h
  obtain ⟨g, hg, rfl⟩ := h
  have hc := (hi.priv s).cur
  simp only [privFile] at hc
  rw [hc] at hg
  by_cases hn : count s = 0
  · simp [hn] at hg
  · simp only [hn, if_false, Option.bind_some, Content.decrypt, Option.some.injEq] at hg
    rw [hg]

/-- **Every operation other than destroy-current keeps the invariant, and changes the cached current
key of a slot only by forgetting it or by setting it to the slot's newest generation.** -/
theorem V1.step_minv (st : V1) (o : Op) (hm : st.MInv) (ho : o.isDcur = false) :
    (st.step o).1.MInv ∧
    ∀ s v, (st.step o).1.look (.rel (privFile s)) = some v →
      st.look (.rel (privFile s)) = some v ∨ v = .key ((st.step o).1.count s) := by
  obtain ⟨hi, hc⟩ := hm
  have hfs := V1.step_fs st o
  have hi' := fsStep_inv hi o ho
  rw [← hfs.1, ← hfs.2] at hi'
  -- the readers
  have hread : o.isRead = true → (st.step o).1.CohM ∧
      ∀ s v, (st.step o).1.look (.rel (privFile s)) = some v →
        st.look (.rel (privFile s)) = some v ∨ v = .key ((st.step o).1.count s) := by
    intro hr
    have he := V1.step_read_evol st o hr
    have e1 : (st.step o).1.fs = st.fs := by rw [hfs.1]; cases o <;> first | rfl | simp [Op.isRead] at hr
    have e2 : (st.step o).1.count = st.count := by rw [hfs.2]; cases o <;> first | rfl | simp [Op.isRead] at hr
    refine ⟨hc.evol hi he e1 e2, ?_⟩
    intro s v hv
    rcases he _ _ hv with h | h
    · exact Or.inl h
    · right; rw [e2]; exact fresh_rel_priv hi s v h
  cases o with
  | cur s => exact ⟨⟨hi', (hread rfl).1⟩, (hread rfl).2⟩
  | pub s => exact ⟨⟨hi', (hread rfl).1⟩, (hread rfl).2⟩
  | all s => exact ⟨⟨hi', (hread rfl).1⟩, (hread rfl).2⟩
  | list => exact ⟨⟨hi, hc⟩, fun s v hv => Or.inl hv⟩
  | listRot => exact ⟨⟨hi, hc⟩, fun s v hv => Or.inl hv⟩
  | reset =>
    refine ⟨⟨hi', V1.CohM.clear st⟩, ?_⟩
    intro s v hv
    simp only [V1.step, V1.clear_look] at hv
    cases hv
  | reopen =>
    refine ⟨⟨hi', V1.CohM.clear st⟩, ?_⟩
    intro s v hv
    simp only [V1.step, V1.clear_look] at hv
    cases hv
  | dcur s => simp [Op.isDcur] at ho
  | drot s i =>
    suffices h : (st.step (.drot s i)).1.CohM ∧ ∀ k v, (∀ f, k ≠ .names f) → (st.step (.drot s i)).1.look k = some v → st.look k = some v by
      exact ⟨⟨hi', h.1⟩, fun s' v hv => Or.inl (h.2 _ v (by intro f hf; cases hf) hv)⟩
    simp only [V1.step]
    by_cases hcd : s.kind.canDestroy = true
    · simp only [hcd, not_true_eq_false, if_false]
      have c1 := V1.drotFile_cohM st (privFile s) i hc
      generalize st.drotFile (privFile s) i = p1 at c1 ⊢
      obtain ⟨st1, ok1⟩ := p1
      simp only at c1
      cases ok1
      · exact ⟨c1.1, fun k v hk hv => c1.2 k v (hk _) hv⟩
      · simp only [not_true_eq_false, if_false]
        cases hp : s.kind.isPair
        · exact ⟨c1.1, fun k v hk hv => c1.2 k v (hk _) hv⟩
        · simp only [if_true]
          have c2 := V1.drotFile_cohM st1 (pubFile s) i c1.1
          generalize st1.drotFile (pubFile s) i = p2 at c2 ⊢
          obtain ⟨st2, ok2⟩ := p2
          simp only at c2
          exact ⟨c2.1, fun k v hk hv => c1.2 k v (hk _) (c2.2 k v (hk _) hv)⟩
    · simp only [hcd, not_false_eq_true, if_true]
      exact ⟨hc, fun k v _ hv => hv⟩
  | gen s =>
    have efs : (st.step (.gen s)).1.fs = st.fs.generated s (st.count s + 1) := by rw [hfs.1, fsStep_gen hi]
    have ecnt : (st.step (.gen s)).1.count = upd st.count s (st.count s + 1) := hfs.2
    refine ⟨⟨hi', ?_⟩, ?_⟩
    · intro k v hv
      rw [efs, ecnt]
      rcases V1.gen_look_cases st s hi k v hv with ⟨rfl, rfl⟩ | ⟨rfl, rfl, _⟩ | ⟨rfl, rfl, v0, hv0⟩ | ⟨hv0, hk⟩
      · intro _; exact ⟨_, rfl, by simp [privFile]⟩
      · intro hf; simp [pubFile] at hf
      · have := hc _ _ hv0
        exact ⟨this.1, this.2.1, rfl⟩
      · have hg := hc _ _ hv0
        apply hg.generated s
        intro e
        subst e
        have h1 := hk rfl
        have h2 : s.kind.hasAll = true := hg.2.1
        rw [h1] at h2
        cases h2
    · intro s' v hv
      rw [ecnt]
      rcases V1.gen_look_cases st s hi _ v hv with ⟨hk, rfl⟩ | ⟨hk, _⟩ | ⟨hk, _⟩ | ⟨hv0, _⟩
      · have : s' = s := by simpa [privFile] using hk
        subst this
        right; simp
      · simp [privFile, pubFile] at hk
      · cases hk
      · exact Or.inl hv0

/-! ## what read-all returns -/

theorem pureAll_hist {fs : FS} {f : FileId} {n : Nat} (hp : FileOK fs f n) (es : List (Nat × Content))
    (hsub : ∀ e ∈ es, e ∈ fs.old f) (acc : List Nat) :
    pureAll fs f (es.map fun e => some e.1) acc = some (acc.reverse ++ es.map (·.2.raw)) := by
  induction es generalizing acc with
  | nil => simp [pureAll]
  | cons e es ih =>
    have he := hsub e (by simp)
    simp only [List.map_cons, pureAll, FS.readName, find_time hp.distinct he, Option.map_some, Option.bind_some]
    rw [hp.full e he]
    simp only [Content.decrypt]
    rw [ih (fun e' he' => hsub e' (by simp [he']))]
    simp [Content.raw]

theorem V1.readAllAux_old (f : FileId) (m : Bool) (hf : f.pub = false) (names : List (Option Nat)) (st : V1) (acc : List Nat)
    (hm : st.MInv) (hex : ∀ nm ∈ names, ∃ t e, nm = some t ∧ (st.fs.old f).find? (·.1 = t) = some e) :
    (V1.readAllAux f m st names acc).2 = pureAll st.fs f names acc := by
  induction names generalizing st acc with
  | nil => rfl
  | cons nm nms ih =>
    obtain ⟨t, e, rfl, he⟩ := hex nm (by simp)
    have h1 := V1.readKey_result st f (some t) m
    have h2 := V1.readKey_evol st f (some t) m hf
    have h3 := V1.readKey_fs st f (some t) m
    have h4 := V1.readKey_count st f (some t) m
    simp only [V1.readAllAux, pureAll]
    generalize st.readKey f (some t) m = p at h1 h2 h3 h4 ⊢
    obtain ⟨st', r⟩ := p
    simp only at h1 h2 h3 h4
    have hr : r = (st.fs.readName f (some t)).bind Content.decrypt := by
      rw [h1]
      cases hl : st.look (ckeyOf f (some t)) with
      | none => rfl
      | some v =>
        obtain ⟨g, hg, rfl⟩ := (hm.coh _ _ hl).2 e he
        simp [FS.readName, he, hg]
    subst hr
    have hm' : st'.MInv := ⟨by rw [h3, h4]; exact hm.fs, hm.coh.evol hm.fs h2 h3 h4⟩
    cases hr : (st.fs.readName f (some t)).bind Content.decrypt with
    | none => rfl
    | some g =>
      simp only
      have := ih st' (g :: acc) hm' (by rw [h3]; exact fun nm' h' => hex nm' (by simp [h']))
      rw [h3] at this
      exact this

/-- **read-all on a cached store** (no destroy-current in the past): the answer is some first key `x`
followed by the whole history newest first; `x` is the slot's newest generation unless the cache held
an older generation as "current" key; afterwards the cache holds for the current key, if anything,
`x` or the newest generation. -/
theorem V1.readAll_front (st : V1) (s : Slot) (hm : st.MInv) (ha : s.kind.hasAll = true) (hn : st.count s ≠ 0) :
    ∃ x, (st.readAll s).2 = some (x :: (st.fs.oldIds (privFile s)).reverse) ∧
      (x ≠ st.count s → st.look (.rel (privFile s)) = some (.key x)) ∧
      ∀ v, (st.readAll s).1.look (.rel (privFile s)) = some v → v = .key x ∨ v = .key (st.count s) := by
  unfold V1.readAll
  have g1 := V1.getNames_result st (privFile s)
  have g2 := V1.getNames_evol st (privFile s) rfl ha
  have g3 := V1.getNames_fs st (privFile s)
  have g4 := V1.getNames_count st (privFile s)
  dsimp only
  generalize st.getNames (privFile s) = p at g1 g2 g3 g4 ⊢
  obtain ⟨st1, names⟩ := p
  simp only at g1 g2 g3 g4
  have hnames : names = historicalNames st.fs (privFile s) := by
    rw [g1]
    cases hl : st.look (.names (privFile s)) with
    | none => rfl
    | some v => rw [(hm.coh _ _ hl).2.2]
  subst hnames
  have hm1 : st1.MInv := ⟨by rw [g3, g4]; exact hm.fs, hm.coh.evol hm.fs g2 g3 g4⟩
  -- the current file
  have hcur : (st.fs.readName (privFile s) none).bind Content.decrypt = some (st.count s) := by
    have := (hm.fs.priv s).cur
    simp [FS.readName, this, hn, Content.decrypt]
  simp only [historicalNames, V1.readAllAux]
  have r1 := V1.readKey_result st1 (privFile s) none (!s.kind.isPair)
  have r2 := V1.readKey_evol st1 (privFile s) none (!s.kind.isPair) rfl
  have r3 := V1.readKey_fs st1 (privFile s) none (!s.kind.isPair)
  have r4 := V1.readKey_count st1 (privFile s) none (!s.kind.isPair)
  generalize st1.readKey (privFile s) none (!s.kind.isPair) = p at r1 r2 r3 r4 ⊢
  obtain ⟨st2, r⟩ := p
  simp only at r1 r2 r3 r4
  rw [g3] at r1 r2
  -- value read for the current name
  have hx : ∃ x, r = some x ∧ (x ≠ st.count s → st1.look (.rel (privFile s)) = some (.key x)) ∧
      (∀ v, st1.look (.rel (privFile s)) = some v → v = .key x) := by
    rw [r1, hcur]
    cases hl : st1.look (ckeyOf (privFile s) none) with
    | none =>
      refine ⟨st.count s, rfl, fun h => absurd rfl h, ?_⟩
      intro v hv
      simp only [ckeyOf] at hl
      rw [hl] at hv; cases hv
    | some v =>
      obtain ⟨g, rfl, _⟩ := hm1.coh _ _ hl rfl
      simp only [ckeyOf] at hl
      exact ⟨g, rfl, fun _ => hl, fun v hv => by rw [hl] at hv; cases hv; rfl⟩
  obtain ⟨x, rfl, hx1, hx2⟩ := hx
  have hm2 : st2.MInv := ⟨by rw [r3, r4]; exact hm1.fs, by
    have := hm1.coh.evol hm1.fs (by rw [g3]; exact r2) r3 r4
    exact this⟩
  refine ⟨x, ?_, ?_, ?_⟩
  · simp only
    have hold := V1.readAllAux_old (privFile s) (!s.kind.isPair) rfl
      ((st.fs.old (privFile s)).map fun e => some e.1).reverse st2 [x] hm2 (by
        intro nm hnm
        rw [r3, g3]
        have := hist_exists st.fs (privFile s) nm (by simp only [historicalNames]; exact List.mem_cons_of_mem _ hnm)
        simp only [List.mem_reverse, List.mem_map] at hnm
        obtain ⟨e, _, rfl⟩ := hnm
        obtain ⟨e', he'⟩ := this e.1 rfl
        exact ⟨e.1, e', rfl, he'⟩)
    rw [hold, r3, g3, ← List.map_reverse, pureAll_hist (hm.fs.priv s) _ (fun e he => List.mem_reverse.1 he)]
    simp [FS.oldIds]
  · intro hne
    have h1 := hx1 hne
    rcases g2 _ _ h1 with h | h
    · exact h
    · have := fresh_rel_priv hm.fs s _ h
      cases this
      exact absurd rfl hne
  · intro v hv
    have hev := V1.readAllAux_evol (privFile s) (!s.kind.isPair) rfl
      ((st.fs.old (privFile s)).map fun e => some e.1).reverse st2 [x]
    rw [r3, g3] at hev
    rcases hev _ _ hv with h | h
    · rcases r2 _ _ h with h' | h'
      · exact Or.inl (hx2 v h')
      · exact Or.inr (fresh_rel_priv hm.fs s v h')
    · exact Or.inr (fresh_rel_priv hm.fs s v h)

end AcraModel.Keystore
