import AcraModel.Keystore.V1
/-!
# Keystore v1: the key cache (LRU) and the complete store model

`keystore/lru/cache.go` wraps groupcache's LRU: `Add` inserts or updates and moves to the front,
evicting the oldest entry when `MaxEntries ≠ 0` is exceeded; `Get` moves a hit to the front;
`Clear` empties. `keystore.NoCache` ignores `Add` and always misses. Cache sizes: `-1` no cache,
`0` unbounded, `n` bounded.

Cache keys used by `server_keystore.go`: the relative key name (`<id>_storage`, `<id>_storage.pub`,
`<id>_storage_sym`, … and `<name>.old/<timestamp>` for rotated private/symmetric keys), the *full
path* of the public key file (only `GetClientIDEncryptionPublicKey`), and `.historical.<full path>`
for the list of current+rotated file names. Values: a key (encrypted under the ephemeral cache key –
here just its identity), the marker `nil` left by `destroy*WithFilename`, or a list of names.
-/
namespace AcraModel.Keystore

inductive CKey
  | rel (f : FileId)             -- relative name of the current file
  | relOld (f : FileId) (t : Nat) -- relative name of a history file
  | absPub (f : FileId)          -- full path of a public key file
  | names (f : FileId)           -- ".historical." ++ full path
deriving DecidableEq, Repr

inductive CVal
  | nil
  | key (g : Nat)
  | paths (l : List (Option Nat))
deriving DecidableEq, Repr

structure LRU where
  cap : Nat                      -- 0 = unbounded
  items : List (CKey × CVal)     -- most recently used first
deriving Repr

def LRU.add (c : LRU) (k : CKey) (v : CVal) : LRU :=
  if c.items.any (·.1 = k) then
    { c with items := (k, v) :: c.items.filter (·.1 ≠ k) }
  else
    let items := (k, v) :: c.items
    { c with items := if c.cap ≠ 0 ∧ items.length > c.cap then items.dropLast else items }

def LRU.get (c : LRU) (k : CKey) : LRU × Option CVal :=
  match c.items.find? (·.1 = k) with
  | some e => ({ c with items := e :: c.items.filter (·.1 ≠ k) }, some e.2)
  | none => (c, none)

/-- the whole v1 keystore: storage, the handle's cache (`none` = `NoCache`), and the number of
generations made per slot (the identity the next generated key gets) -/
structure V1 where
  fs : FS
  cache : Option LRU
  count : Slot → Nat

/-- cache size as passed to the builder: -1 off, 0 unbounded, n bounded -/
def V1.init (cacheSize : Int) : V1 :=
  { fs := FS.init, cache := if cacheSize < 0 then none else some ⟨cacheSize.toNat, []⟩, count := fun _ => 0 }

def V1.cadd (st : V1) (k : CKey) (v : CVal) : V1 := { st with cache := st.cache.map (·.add k v) }

def V1.cget (st : V1) (k : CKey) : V1 × Option CVal :=
  match st.cache with
  | none => (st, none)
  | some c => let (c', v) := c.get k; ({ st with cache := some c' }, v)

def V1.clear (st : V1) : V1 := { st with cache := st.cache.map fun c => { c with items := [] } }

def ckeyOf (f : FileId) : Option Nat → CKey
  | none => .rel f
  | some t => .relOld f t

/-- the shared read pattern of `getPrivateKeyByFilename`, `readEncryptedKey`, `GetHMACSecretKey`,
`GetLogSecretKey`: cache hit → decrypt the cached value (the `nil` marker fails to decrypt, except
in `readEncryptedKey`, which treats it as a miss); miss → read the file, decrypt with the master key,
cache, return. -/
def V1.readKey (st : V1) (f : FileId) (name : Option Nat) (markerIsMiss : Bool) : V1 × Option Nat :=
  let k := ckeyOf f name
  let load (st : V1) : V1 × Option Nat :=
    match (st.fs.readName f name).bind Content.decrypt with
    | some g => (st.cadd k (.key g), some g)
    | none => (st, none)
  match st.cget k with
  | (st', some (.key g)) => (st', some g)
  | (st', some .nil) => if markerIsMiss then load st' else (st', none)
  | (st', some (.paths _)) => (st', none)
  | (st', none) => load st'

/-- `loadHistoricalPrivateKeyFilenames`: read the names from the storage and cache them -/
def V1.loadNames (st : V1) (f : FileId) : V1 × List (Option Nat) :=
  let l := historicalNames st.fs f
  (st.cadd (.names f) (.paths l), l)

/-- `GetHistoricalPrivateKeyFilenames` -/
def V1.getNames (st : V1) (f : FileId) : V1 × List (Option Nat) :=
  match st.cget (.names f) with
  | (st', some (.paths l)) => (st', l)
  | (st', _) => st'.loadNames f

/-- `refreshCachedHistoricalPrivateKeyFilenames` -/
def V1.refreshNames (st : V1) (f : FileId) : V1 :=
  match st.cget (.names f) with
  | (st', some _) => (st'.loadNames f).1
  | (st', none) => st'

def V1.readAllAux (f : FileId) (markerIsMiss : Bool) : V1 → List (Option Nat) → List Nat → V1 × Option (List Nat)
  | st, [], acc => (st, some acc.reverse)
  | st, n :: ns, acc =>
    match st.readKey f n markerIsMiss with
    | (st', some g) => readAllAux f markerIsMiss st' ns (g :: acc)
    | (st', none) => (st', none)

/-- `GetServerDecryptionPrivateKeys`, `GetClientIDSymmetricKeys`, `GetPoisonPrivateKeys`, `GetPoisonSymmetricKeys` -/
def V1.readAll (st : V1) (s : Slot) : V1 × Option (List Nat) :=
  let f := privFile s
  let (st1, names) := st.getNames f
  V1.readAllAux f (!s.kind.isPair) st1 names []

/-- `GetPoisonKeyPair` -/
def V1.poisonPair (st : V1) (s : Slot) : V1 × Option (Nat × Nat) :=
  let (st1, a) := st.cget (.rel (privFile s))
  let (st2, b) := st1.cget (.rel (pubFile s))
  match a, b with
  | some va, some vb =>
    (st2, match va with
      | .key g => some (g, match vb with | .key p => p | _ => 0)
      | _ => none)
  | _, _ =>
    match (st2.fs.cur (privFile s)).bind Content.decrypt, st2.fs.cur (pubFile s) with
    | some g, some pc => ((st2.cadd (.rel (privFile s)) (.key g)).cadd (.rel (pubFile s)) (.key pc.raw), some (g, pc.raw))
    | _, _ => (st2, none)

/-- `GetClientIDEncryptionPublicKey`: cached under the full path -/
def V1.storagePub (st : V1) (s : Slot) : V1 × Option Nat :=
  match st.cget (.absPub (pubFile s)) with
  | (st', some (.key p)) => (st', some p)
  | (st', some _) => (st', some 0)
  | (st', none) =>
    match st'.fs.cur (pubFile s) with
    | some c => (st'.cadd (.absPub (pubFile s)) (.key c.raw), some c.raw)
    | none => (st', none)

def allSlotsOf (clients : Nat) : List Slot :=
  ([Kind.sp, .ss, .hm].flatMap fun k => (List.range clients).map fun c => ⟨k, c⟩) ++ [⟨.pp, 0⟩, ⟨.ps, 0⟩, ⟨.al, 0⟩]

def allFilesOf (clients : Nat) : List FileId :=
  (allSlotsOf clients).flatMap fun s => [privFile s, pubFile s]

/-- number of client ids of the protocol (the harness uses three) -/
def nClients : Nat := 3

/-- `ListKeys`/`describeDir`: any leftover temporary file makes `DescribeKeyFile` fail -/
def V1.list (st : V1) : Obs :=
  if st.fs.tmps ≠ [] then .err
  else .files (((allFilesOf nClients).filter fun f => (st.fs.cur f).isSome).map fun f => (f.slot, f.pub))

/-- `ListRotatedKeys`/`describeOldDir`: every non-empty history directory, numbered from 2 -/
def V1.listRot (st : V1) : Obs :=
  .rotated (((allFilesOf nClients).filter fun f => st.fs.oldDir f ∧ st.fs.old f ≠ []).map fun f => ((f.slot, f.pub), (st.fs.old f).length))

/-- destroy the rotated key of one file; refreshes a cached name list (private files only have one) -/
def V1.drotFile (st : V1) (f : FileId) (i : Nat) : V1 × Bool :=
  let (calls, ok) := drotFileCalls st.fs f i
  let (fs', done) := applyAll st.fs calls
  let st' := { st with fs := fs' }
  if ok ∧ done then (st'.refreshNames f, true) else (st', false)

/-- one operation of the v1 keystore -/
def V1.step (st : V1) : Op → V1 × Obs
  | .gen s =>
    let g := st.count s + 1
    let (fs', done) := applyAll st.fs (genCalls st.fs s g)
    let st1 := { st with fs := fs', count := upd st.count s g }
    if ¬ done then (st1, .err) else
    match s.kind with
    | .sp | .pp => ((((st1.cadd (.rel (privFile s)) (.key g)).cadd (.rel (pubFile s)) (.key g)).refreshNames (privFile s)), .ok)
    | .ss | .ps => (st1.refreshNames (privFile s), .ok)
    | .hm | .al => (st1.cadd (.rel (privFile s)) (.key g), .ok)
  | .cur s =>
    match s.kind with
    | .pp => let (st', r) := st.poisonPair s; (st', match r with | some (g, p) => .pair g p | none => .err)
    | k => let (st', r) := st.readKey (privFile s) none (k == .ss || k == .ps); (st', match r with | some g => .key g | none => .err)
  | .pub s =>
    match s.kind with
    | .sp => let (st', r) := st.storagePub s; (st', match r with | some p => .key p | none => .err)
    | .pp => let (st', r) := st.poisonPair s; (st', match r with | some (_, p) => .key p | none => .err)
    | _ => (st, .err)
  | .all s =>
    if ¬ s.kind.hasAll then (st, .err) else
    let (st', r) := st.readAll s
    (st', match r with | some l => .keys l | none => .err)
  | .list => (st, st.list)
  | .listRot => (st, st.listRot)
  | .dcur s =>
    if ¬ s.kind.canDestroy then (st, .err) else
    let st1 := match s.kind with
      | .sp | .pp | .hm => (st.cadd (.rel (privFile s)) .nil).cadd (.rel (pubFile s)) .nil
      | _ => st.cadd (.rel (privFile s)) .nil
    ({ st1 with fs := (applyAll st1.fs (dcurCalls s)).1 }, .ok)
  | .drot s i =>
    if ¬ s.kind.canDestroy then (st, .err) else
    let (st1, ok1) := st.drotFile (privFile s) i
    if ¬ ok1 then (st1, .err) else
    if s.kind.isPair then
      let (st2, ok2) := st1.drotFile (pubFile s) i
      (st2, if ok2 then .ok else .err)
    else (st1, .ok)
  | .reset => (st.clear, .ok)
  | .reopen => (st.clear, .ok)

def V1.run (st : V1) : List Op → V1 × List Obs
  | [] => (st, [])
  | o :: os => let (st', x) := st.step o; let (st'', xs) := V1.run st' os; (st'', x :: xs)

end AcraModel.Keystore
