import AcraModel.Keystore.Calls
import AcraModel.Generated.KeystoreCrash
/-!
# Import, migration and kept ring handles under faults (C08)

Continuation of `Calls.lean`: the write operations that bring keys in from outside, as sequences of
per-key write operations, executed under one fault at the `k`-th storage/back-end call.

* v1 `KeyBackuper.Import` (`keystore/filesystem/filesystem_backup.go`): for every key FILE of the bundle
  `MkdirAll(dir)`, `TempFile(<f>)`, `WriteFile(<tmp>, data)`, `Rename(<tmp>, <f>)`; the temporary is removed
  when `WriteFile` or `Rename` fail; the first error ends the import. Nothing is backed up – an import
  replaces the current file. (The pinned tree wrote `<f>` in place; repaired, see repo-patches/51.)
* v2 `ImportKeyRings` / `importKeyRing` (`keystore/v2/keystore/filesystem/{keyStore,export}.go`): for every
  RING of the bundle a read phase (`RLock, Get, RUnlock`), then – ring missing – `openKeyRing` (creates the
  empty ring) and one write phase installing the imported keys (`txSetKeys`), or – ring present – the
  delegate's decision (default: `ErrKeyRingExists`; overwrite: one write phase). The first error ends the import.
* v1→v2 migration `ImportKeyFileV1` (`keystore/v2/keystore/importV1.go`): per key `OpenKeyRingRW`, `AddKey`,
  `SetCurrent` – exactly the calls of a generation (`V2.stepF … (.gen s)`); `MigrateV1toV2` goes on with the
  next key after an error.
* a ring handle kept across operations (`OpenKeyRingRW` once, then `AddKey`/`SetCurrent`/`DestroyKey` on the
  same handle): the handle's in-memory ring `r.data` and its transaction log `txLog` are state now. Every
  handle write pushes its transactions, syncs (`writeKeyRing` = one phase applying the WHOLE log) and, on
  failure, pops as many transactions as the regenerated table `v2TxPushPop` says.
-/
namespace AcraModel.Keystore
open Generated

/-! ## v1: `KeyBackuper.Import` -/

/-- storage calls of the import of one key file (the id of the temporary is the next free one) -/
def importFileCalls (fs : FS) (f : FileId) (c : Content) : List Call :=
  [.mkdirAll f, .tempFile f, .writeFile fs.nextTmp f c, .rename fs.nextTmp f]

def FS.dropTmp (fs : FS) (id : Nat) : FS := { fs with tmps := fs.tmps.filter (·.1 ≠ id) }

/-- one key file under the fault; the flag tells whether `removeTemporary` ran (an error of `WriteFile` or
`Rename`: the temporary exists). The clean-up is one more storage call (it can no longer be hit by the
fault: the single fault of the scenario is what caused it). -/
def X1.importFile (ft : Fault) (x : X1) (f : FileId) (c : Content) : X1 × Bool :=
  if x.out ≠ .ok then (x, false) else
  let id := x.st.fs.nextTmp
  let x1 := X1.run ft x (importFileCalls x.st.fs f c)
  if x1.out = .err ∧ x1.st.fs.tmps.any (·.1 = id) then
    ({ x1 with st := { x1.st with fs := x1.st.fs.dropTmp id }, idx := x1.idx + 1 }, true)
  else (x1, false)

/-- the files of a bundle in order; `newc f` is the content the bundle holds for `f` -/
def X1.importFiles (ft : Fault) (newc : FileId → Content) : X1 → List FileId → X1 × Option FileId
  | x, [] => (x, none)
  | x, f :: fs =>
    match x.importFile ft f (newc f) with
    | (x1, true) => (x1, some f)
    | (x1, false) => if x1.out ≠ .ok then (x1, none) else X1.importFiles ft newc x1 fs

/-- `KeyBackuper.Import` of a bundle holding one new generation of every slot named by `files`: state,
storage calls (oldest first), the file whose temporary was removed at the end (if any), outcome. The key
store's cache is not involved (the backuper writes the storage directly). -/
def V1.importF (st : V1) (ft : Fault) (files : List FileId) : V1 × List Call × Option FileId × Outcome :=
  let newc : FileId → Content := fun f => .full (st.count f.slot + 1)
  let x0 : X1 := ⟨st, [], 0, .ok, false⟩
  let (x1, cleaned) := X1.importFiles ft newc x0 files
  let count := files.foldl (fun cnt f => upd cnt f.slot (st.count f.slot + 1)) st.count
  ({ x1.st with count := count }, x1.trace.reverse, cleaned, x1.out)

/-! ## v2: `ImportKeyRings` -/

/-- `readKeyRing` as called by `importKeyRing`: `RLock`, `Get`, deferred `RUnlock`. Result: `none` = the
read failed (outcome set) or the process crashed; `some r` = go on with the stored ring `r` (`none` =
`ErrNotExist`, which survives a failing `RUnlock`: `if err == nil { err = err2 }`). -/
def X2.readPhase (ft : Fault) (x : X2) (s : Slot) : X2 × Option (Option Ring) :=
  if x.out ≠ .ok then (x, none) else
  match x.call ft .rlock id with
  | (x, none) => (x, none)
  | (x, some false) => ({ x with out := .err }, none)
  | (x, some true) =>
  match x.call ft (.get s) id with
  | (x, none) => (x, none)
  | (x, some false) =>
    (match x.call ft .runlock id with
     | (x, some _) => ({ x with out := .err }, none)
     | (x, none) => (x, none))
  | (x, some true) =>
    match x.call ft .runlock id with
    | (x, none) => (x, none)
    | (x, some false) =>
      (match x.st.rings s with
       | some _ => ({ x with out := .err }, none)
       | none => (x, some none))
    | (x, some true) => (x, some (x.st.rings s))

/-- `txSetKeys` through `writeKeyRing`: the pull must find the ring, then the keys are replaced -/
def setKeysCompute (new : Ring) : Option Ring → Option (Option Ring)
  | some _ => some (some new)
  | none => none

/-- `importKeyRing` for ring `s` with the bundle's ring `new` -/
def X2.importRing (ft : Fault) (overwrite : Bool) (x : X2) (s : Slot) (new : Ring) : X2 :=
  match x.readPhase ft s with
  | (x1, none) => x1
  | (x1, some (some _)) =>
    if overwrite then x1.phase ft s (setKeysCompute new) else { x1 with out := .err }
  | (x1, some none) => (x1.openRW ft s).phase ft s (setKeysCompute new)

/-- the ring a store exports after one generation with key material `g` -/
def oneKeyRing (g : Nat) : Ring := ⟨[⟨1, .preActive, some g⟩], some 1⟩

def X2.importRings (ft : Fault) (overwrite : Bool) (new : Slot → Ring) : X2 → List Slot → X2
  | x, [] => x
  | x, s :: ss =>
    let x1 := x.importRing ft overwrite s (new s)
    if x1.out ≠ .ok then x1 else X2.importRings ft overwrite new x1 ss

/-- `ImportKeyRings` of a bundle holding a one-key ring (a new generation) for every slot of `slots` -/
def V2.importF (st : V2) (ft : Fault) (overwrite : Bool) (slots : List Slot) : V2 × List BCall × Outcome :=
  let x := X2.importRings ft overwrite (fun s => oneKeyRing (st.count s + 1)) ⟨st, [], 0, .ok, false⟩ slots
  let count := slots.foldl (fun cnt s => upd cnt s (st.count s + 1)) st.count
  ({ x.st with count := count }, x.trace.reverse, x.out)

/-! ## v1 → v2 migration -/

/-- the fault as seen by an operation that starts after `off` calls were already made -/
def Fault.shift (ft : Fault) (off : Nat) : Fault :=
  if off ≤ ft.k then ⟨ft.mode, ft.k - off⟩ else ⟨.none, 0⟩

/-- `MigrateV1toV2`: `ImportKeyFileV1` per key = the calls of a generation; an error does not stop the
migration (the operation fails as a whole at the end), a crash does. `off` = calls made so far. -/
def V2.migrateF (ft : Fault) : V2 → Nat → Bool → List Slot → V2 × List BCall × Outcome
  | st, _, failed, [] => (st, [], if failed then .err else .ok)
  | st, off, failed, s :: ss =>
    let (st1, tr, out) := st.stepF (ft.shift off) (.gen s)
    match out with
    | .crash =>
      -- (the keys not reached consume their identities all the same: the bundle was prepared for all of them)
      ({ st1 with count := ss.foldl (fun cnt s' => upd cnt s' (cnt s' + 1)) st1.count }, tr, .crash)
    | o =>
      let (st2, tr2, out2) := V2.migrateF ft st1 (off + tr.length) (failed || o == .err) ss
      (st2, tr ++ tr2, out2)

/-! ## a kept ring handle -/

inductive HOp
  | add                 -- AddKey(new key material)
  | setCurrent (q : Nat)
  | destroy (q : Nat)
deriving DecidableEq, Repr

def HOp.name : HOp → String
  | .add => "addKey" | .setCurrent _ => "setCurrent" | .destroy _ => "destroyKey"

/-- transactions popped when the sync of this handle write fails (regenerated from the source) -/
def HOp.pops (h : HOp) : Nat :=
  ((KeystoreCrash.v2TxPushPop.find? (·.1 = h.name)).map (·.2.2)).getD 0

structure H2 where
  x : X2
  /-- `r.data`: the ring as the handle last saw (or tentatively changed) it -/
  view : Ring
  /-- `r.txLog` -/
  log : List Tx

/-- the handle is opened before the fault is armed (`OpenKeyRingRW`, creating a missing ring) -/
def H2.open (st : V2) (s : Slot) : Option H2 :=
  (st.openRW s).map fun (st', r) => ⟨⟨st', [], 0, .ok, false⟩, r, []⟩

/-- the transactions a handle operation pushes, computed from the handle's view; `none` = refused
before anything is pushed (`ErrKeyNotExist`, `ErrInvalidState`) -/
def HOp.txs (h : HOp) (view : Ring) (g : Nat) : Option (List Tx) :=
  match h with
  | .add => some [.addKey ⟨view.nextSeq, .preActive, some g⟩]
  | .setCurrent q => some [.setCurrent view.current (some q)]
  | .destroy q =>
    match view.find q with
    | none => none
    | some k => if transitionValid k.state .destroyed then some [.destroyData q k.data, .changeState q k.state .destroyed] else none

/-- One handle operation under the fault. Returns the handle and the operation's outcome. A process that
got an error back goes on (`out` is reset for the next operation); after a crash nothing more happens.
`writeKeyRing` pulls the stored ring into `r.data` (when `Lock` and `Get` succeed), applies the whole log
to it – a refused transaction rolls the applied ones back – and pushes; a failing push leaves `r.data`
changed. On success the log is committed, on failure `pops` transactions are popped. -/
def H2.hop (ft : Fault) (s : Slot) (h : H2) (op : HOp) : H2 × Outcome :=
  if h.x.out = .crash then (h, .crash) else
  let x0 : X2 := { h.x with out := .ok }
  let g := x0.st.count s + 1
  let x0 : X2 := if op = .add then { x0 with st := { x0.st with count := upd x0.st.count s g } } else x0
  match op.txs h.view g with
  | none => ({ h with x := x0 }, .err)
  | some txs =>
    let log := h.log ++ txs
    let hit : Nat → Bool := fun j => !x0.fired && ft.mode != .none && ft.k == x0.idx + j
    let stored := x0.st.rings s
    let x1 := x0.phase ft s (writeCompute log)
    let view' := if hit 0 || hit 1 then h.view else
      match writeCompute log stored with
      | some (some r) => r
      | _ => stored.getD h.view
    let log' := if x1.out = .ok then [] else log.take (log.length - op.pops)
    (⟨x1, view', log'⟩, x1.out)

def H2.hops (ft : Fault) (s : Slot) : H2 → List HOp → H2 × List Outcome
  | h, [] => (h, [])
  | h, op :: ops =>
    let (h1, o) := h.hop ft s op
    let (h2, os) := H2.hops ft s h1 ops
    (h2, o :: os)

end AcraModel.Keystore
