import AcraModel.Keystore.V1Cache
import AcraModel.Keystore.V2Store
/-! Helper lemmas about the keystore models (used by `Props/C06`, `Props/C08`). -/
namespace AcraModel.Keystore

theorem survivors_destroyId (s : SpecSlot) (g : Nat) :
    (SpecSlot.destroyId s g).survivors = s.survivors.filter (· ≠ g) := by
  induction s with
  | nil => rfl
  | cons x xs ih =>
    simp only [SpecSlot.destroyId, SpecSlot.survivors, List.map_cons, List.filter_cons] at ih ⊢
    by_cases hx : x.id = g
    · cases ha : x.alive <;> simp [hx, ha, ih]
    · cases ha : x.alive <;> simp [hx, ha, ih]

end AcraModel.Keystore
