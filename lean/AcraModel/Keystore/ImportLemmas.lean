import AcraModel.Keystore.RefineCrash
import AcraModel.Keystore.CallsImport
/-!
# Import under faults: per-key atomicity (C08)

* v1: `X1.importFile_atomic` – one key file of a bundle, whatever the fault: the histories are untouched,
  no other current file changes, the file itself is what it was or completely the bundle's content;
  `X1.importFiles_atomic` – the whole bundle: every file is old or completely new (independently).
* v2: `X2.readPhase_st`, `X2.importRing_atomic`, `X2.importRings_atomic` – every ring is what it was, or
  completely the imported ring, or (it did not exist) the empty ring `openKeyRing` created.
* handles: `H2.hop_log` – with balanced push/pop counts the handle's transaction log is empty after
  every operation, whatever the fault.
-/
namespace AcraModel.Keystore
open Generated

/-! ## v1 -/

structure IAtomic (fs0 fs : FS) (f : FileId) (c : Content) : Prop where
  old : fs.old = fs0.old
  cur : fs.cur = fs0.cur ∨ fs.cur = upd fs0.cur f (some c)

structure IKeep (fs0 fs : FS) : Prop where
  old : fs.old = fs0.old
  cur : fs.cur = fs0.cur

theorem IKeep.atomic {fs0 fs : FS} (h : IKeep fs0 fs) (f : FileId) (c : Content) : IAtomic fs0 fs f c :=
  ⟨h.old, Or.inl h.cur⟩

/-- the calls still to be made for one imported file, and what the storage looks like at that point -/
inductive IStage (fs0 : FS) (f : FileId) (c : Content) : List Call → FS → Prop
  | s0 (fs : FS) : IKeep fs0 fs → fs.nextTmp = fs0.nextTmp →
      IStage fs0 f c [.mkdirAll f, .tempFile f, .writeFile fs0.nextTmp f c, .rename fs0.nextTmp f] fs
  | s1 (fs : FS) : IKeep fs0 fs → fs.nextTmp = fs0.nextTmp →
      IStage fs0 f c [.tempFile f, .writeFile fs0.nextTmp f c, .rename fs0.nextTmp f] fs
  | s2 (fs : FS) : IKeep fs0 fs → fs.tmps.any (·.1 = fs0.nextTmp) = true →
      IStage fs0 f c [.writeFile fs0.nextTmp f c, .rename fs0.nextTmp f] fs
  | s3 (fs : FS) : IKeep fs0 fs → fs.tmpContent fs0.nextTmp = some c →
      IStage fs0 f c [.rename fs0.nextTmp f] fs
  | done (fs : FS) : IAtomic fs0 fs f c → IStage fs0 f c [] fs

theorem IStage.stop {fs0 : FS} {f : FileId} {c : Content} {cs : List Call} {fs : FS} (h : IStage fs0 f c cs fs) :
    IAtomic fs0 fs f c := by
  cases h with
  | s0 fs hk _ => exact hk.atomic f c
  | s1 fs hk _ => exact hk.atomic f c
  | s2 fs hk _ => exact hk.atomic f c
  | s3 fs hk _ => exact hk.atomic f c
  | done fs h => exact h

theorem IStage.perform {fs0 : FS} {f : FileId} {c : Content} {x : Call} {cs : List Call} {fs fs' : FS}
    (h : IStage fs0 f c (x :: cs) fs) (ha : applyCall fs x = some fs') : IStage fs0 f c cs fs' := by
  cases h with
  | s0 fs hk hn =>
    simp only [applyCall, Option.some.injEq] at ha
    subst ha
    exact .s1 _ hk hn
  | s1 fs hk hn =>
    simp only [applyCall, Option.some.injEq] at ha
    subst ha
    exact .s2 _ ⟨hk.old, hk.cur⟩ (by simp [hn])
  | s2 fs hk hany =>
    simp only [applyCall, hany, if_true, Option.some.injEq] at ha
    subst ha
    refine .s3 _ ⟨hk.old, hk.cur⟩ ?_
    exact tmpContent_written fs.tmps fs0.nextTmp c hany
  | s3 fs hk htc =>
    simp only [applyCall, htc, Option.some.injEq] at ha
    subst ha
    exact .done _ ⟨hk.old, Or.inr (by simp [hk.cur])⟩

theorem importFile_fault (ft : Fault) (x : X1) (f : FileId) (c : Content) (fuel : Nat) :
    IAtomic x.st.fs (X1.exec ft fuel x (importFileCalls x.st.fs f c)).st.fs f c := by
  apply X1.exec_inv ft (IStage x.st.fs f c) (fun fs => IAtomic x.st.fs fs f c)
    (fun _ _ h => h.stop) (fun _ _ _ _ h ha => h.perform ha)
  · intro f' cs fs h; cases h
  · intro f' cs fs h; cases h
  · intro id f' g cs fs fs' h ha
    cases h with
    | s2 fs hk hany =>
      simp only [applyCall, hany, if_true, Option.some.injEq] at ha
      subst ha
      exact ⟨hk.old, Or.inl hk.cur⟩
  · exact .s0 _ ⟨rfl, rfl⟩ rfl

/-- **one imported key file under any fault** -/
theorem X1.importFile_atomic (ft : Fault) (x : X1) (f : FileId) (c : Content) :
    IAtomic x.st.fs (x.importFile ft f c).1.st.fs f c := by
  unfold X1.importFile
  split
  · exact ⟨rfl, Or.inl rfl⟩
  · have h := importFile_fault ft x f c (2 * (importFileCalls x.st.fs f c).length + 8)
    simp only []
    split
    · exact ⟨h.old, h.cur⟩
    · exact h

/-- **a whole bundle under any fault**: the histories are untouched and every current key file is what
it was or completely the content the bundle holds for it -/
theorem X1.importFiles_atomic (ft : Fault) (newc : FileId → Content) (files : List FileId) :
    ∀ x : X1, (X1.importFiles ft newc x files).1.st.fs.old = x.st.fs.old ∧
      ∀ f, (X1.importFiles ft newc x files).1.st.fs.cur f = x.st.fs.cur f ∨
        (f ∈ files ∧ (X1.importFiles ft newc x files).1.st.fs.cur f = some (newc f)) := by
  induction files with
  | nil => intro x; exact ⟨rfl, fun _ => Or.inl rfl⟩
  | cons f0 rest ih =>
    intro x
    have h1 := X1.importFile_atomic ft x f0 (newc f0)
    have one : ∀ f, (x.importFile ft f0 (newc f0)).1.st.fs.cur f = x.st.fs.cur f ∨
        (f ∈ f0 :: rest ∧ (x.importFile ft f0 (newc f0)).1.st.fs.cur f = some (newc f)) := by
      intro f
      rcases h1.cur with e | e
      · exact Or.inl (by rw [e])
      · by_cases hf : f = f0
        · subst hf; exact Or.inr ⟨by simp, by rw [e]; simp⟩
        · exact Or.inl (by rw [e]; simp [upd, hf])
    unfold X1.importFiles
    generalize hp : x.importFile ft f0 (newc f0) = p at h1 one
    obtain ⟨x1, b⟩ := p
    cases b with
    | true => exact ⟨h1.old, one⟩
    | false =>
      simp only []
      split
      · exact ⟨h1.old, one⟩
      · obtain ⟨io, ic⟩ := ih x1
        refine ⟨io.trans h1.old, fun f => ?_⟩
        rcases ic f with e | ⟨hm, e⟩
        · rcases one f with e1 | ⟨hm1, e1⟩
          · exact Or.inl (e.trans e1)
          · exact Or.inr ⟨hm1, e.trans e1⟩
        · exact Or.inr ⟨List.mem_cons_of_mem _ hm, e⟩

/-! ## v2 -/

theorem X2.readPhase_st (ft : Fault) (x : X2) (s : Slot) : (x.readPhase ft s).1.st = x.st := by
  unfold X2.readPhase
  split
  · rfl
  · have e1 := X2.call_id_st ft x .rlock
    generalize x.call ft .rlock id = p1 at e1
    obtain ⟨x1, o1⟩ := p1
    simp only at e1
    match o1 with
    | none => simpa using e1
    | some false => simpa using e1
    | some true =>
      simp only
      have e2 := X2.call_id_st ft x1 (.get s)
      generalize x1.call ft (.get s) id = p2 at e2
      obtain ⟨x2, o2⟩ := p2
      simp only at e2
      have e2' : x2.st = x.st := by rw [e2, e1]
      match o2 with
      | none => simpa using e2'
      | some false =>
        simp only
        have e3 := X2.call_id_st ft x2 .runlock
        generalize x2.call ft .runlock id = p3 at e3
        obtain ⟨x3, o3⟩ := p3
        simp only at e3
        have e3' : x3.st = x.st := by rw [e3, e2']
        match o3 with
        | none => simpa using e3'
        | some b => simpa using e3'
      | some true =>
        simp only
        have e3 := X2.call_id_st ft x2 .runlock
        generalize x2.call ft .runlock id = p3 at e3
        obtain ⟨x3, o3⟩ := p3
        simp only at e3
        have e3' : x3.st = x.st := by rw [e3, e2']
        match o3 with
        | none => simpa using e3'
        | some true => simpa using e3'
        | some false =>
          simp only
          split
          · simpa using e3'
          · simpa using e3'

/-- what one imported ring may look like afterwards, relative to the back end `st0` before -/
def RingImported (st0 st : V2) (s : Slot) (new : Ring) : Prop :=
  (∀ s', s' ≠ s → st.rings s' = st0.rings s') ∧
  (st.rings s = st0.rings s ∨ st.rings s = some new ∨ (st0.rings s = none ∧ st.rings s = some Ring.empty))

theorem setKeys_phase (ft : Fault) (x : X2) (s : Slot) (new : Ring) :
    (∀ s', s' ≠ s → (x.phase ft s (setKeysCompute new)).st.rings s' = x.st.rings s') ∧
    ((x.phase ft s (setKeysCompute new)).st.rings s = x.st.rings s ∨
      (x.phase ft s (setKeysCompute new)).st.rings s = some new) := by
  obtain ⟨ho, hc⟩ := X2.phase_atomic ft x s (setKeysCompute new)
  refine ⟨ho, ?_⟩
  rcases hc with h | ⟨r, hr, h⟩
  · exact Or.inl h
  · right
    cases hs : x.st.rings s with
    | none => rw [hs] at hr; simp [setKeysCompute] at hr
    | some r0 =>
      rw [hs] at hr
      simp only [setKeysCompute, Option.some.injEq] at hr
      rw [h, hr]

theorem phase_create (ft : Fault) (x : X2) (s : Slot) (compute : Option Ring → Option (Option Ring))
    (hcomp : ∀ st r, compute st = some (some r) → st = none ∧ r = Ring.empty) :
    (∀ s', s' ≠ s → (x.phase ft s compute).st.rings s' = x.st.rings s') ∧
    ((x.phase ft s compute).st.rings s = x.st.rings s ∨ (x.st.rings s = none ∧ (x.phase ft s compute).st.rings s = some Ring.empty)) := by
  obtain ⟨ho, hc⟩ := X2.phase_atomic ft x s compute
  refine ⟨ho, ?_⟩
  rcases hc with h | ⟨r, hr, h⟩
  · exact Or.inl h
  · obtain ⟨h0, hr0⟩ := hcomp _ _ hr
    exact Or.inr ⟨h0, by rw [h, hr0]⟩

theorem openRW_phase (ft : Fault) (x : X2) (s : Slot) :
    (∀ s', s' ≠ s → (x.openRW ft s).st.rings s' = x.st.rings s') ∧
    ((x.openRW ft s).st.rings s = x.st.rings s ∨ (x.st.rings s = none ∧ (x.openRW ft s).st.rings s = some Ring.empty)) := by
  unfold X2.openRW
  apply phase_create
  intro st r h
  cases st with
  | none => simp only [Option.some.injEq] at h; exact ⟨rfl, h.symm⟩
  | some r0 => simp at h

/-- **one imported ring under any fault** -/
theorem X2.importRing_atomic (ft : Fault) (ow : Bool) (x : X2) (s : Slot) (new : Ring) :
    RingImported x.st (x.importRing ft ow s new).st s new := by
  unfold X2.importRing
  have e := X2.readPhase_st ft x s
  generalize x.readPhase ft s = p at e
  obtain ⟨x1, res⟩ := p
  simp only at e
  match res with
  | none => simp only []; rw [e]; exact ⟨fun _ _ => rfl, Or.inl rfl⟩
  | some (some _) =>
    simp only []
    split
    · obtain ⟨ho, hc⟩ := setKeys_phase ft x1 s new
      rw [e] at ho hc
      exact ⟨ho, by rcases hc with h | h; exact Or.inl h; exact Or.inr (Or.inl h)⟩
    · simp only []; rw [e]; exact ⟨fun _ _ => rfl, Or.inl rfl⟩
  | some none =>
    simp only []
    obtain ⟨ho1, hc1⟩ := openRW_phase ft x1 s
    obtain ⟨ho2, hc2⟩ := setKeys_phase ft (x1.openRW ft s) s new
    rw [e] at ho1 hc1
    refine ⟨fun s' hs' => (ho2 s' hs').trans (ho1 s' hs'), ?_⟩
    rcases hc2 with h | h
    · rcases hc1 with h1 | ⟨h0, h1⟩
      · exact Or.inl (h.trans h1)
      · exact Or.inr (Or.inr ⟨h0, h.trans h1⟩)
    · exact Or.inr (Or.inl h)

/-- **a whole bundle of rings under any fault**: every ring is what it was, or completely the imported
ring, or – it did not exist – the empty ring created for the import -/
theorem X2.importRings_atomic (ft : Fault) (ow : Bool) (new : Slot → Ring) (slots : List Slot) :
    ∀ x : X2, ∀ s, (X2.importRings ft ow new x slots).st.rings s = x.st.rings s ∨
      (s ∈ slots ∧ ((X2.importRings ft ow new x slots).st.rings s = some (new s) ∨
        (x.st.rings s = none ∧ (X2.importRings ft ow new x slots).st.rings s = some Ring.empty))) := by
  induction slots with
  | nil => intro x s; exact Or.inl rfl
  | cons s0 rest ih =>
    intro x s
    have h1 := X2.importRing_atomic ft ow x s0 (new s0)
    have one : (x.importRing ft ow s0 (new s0)).st.rings s = x.st.rings s ∨
        (s ∈ s0 :: rest ∧ ((x.importRing ft ow s0 (new s0)).st.rings s = some (new s) ∨
          (x.st.rings s = none ∧ (x.importRing ft ow s0 (new s0)).st.rings s = some Ring.empty))) := by
      by_cases hs : s = s0
      · subst hs
        rcases h1.2 with h | h | h
        · exact Or.inl h
        · exact Or.inr ⟨by simp, Or.inl h⟩
        · exact Or.inr ⟨by simp, Or.inr h⟩
      · exact Or.inl (h1.1 s hs)
    unfold X2.importRings
    simp only []
    split
    · exact one
    · rcases ih (x.importRing ft ow s0 (new s0)) s with e | ⟨hm, e⟩
      · rcases one with e1 | ⟨hm1, e1⟩
        · exact Or.inl (e.trans e1)
        · refine Or.inr ⟨hm1, ?_⟩
          rcases e1 with e1 | ⟨h0, e1⟩
          · exact Or.inl (e.trans e1)
          · exact Or.inr ⟨h0, e.trans e1⟩
      · rcases e with e | ⟨h0, e⟩
        · exact Or.inr ⟨List.mem_cons_of_mem _ hm, Or.inl e⟩
        · -- the ring was missing when the later import of `s` started
          rcases one with e1 | ⟨hm1, e1⟩
          · exact Or.inr ⟨List.mem_cons_of_mem _ hm, Or.inr ⟨by rw [← e1]; exact h0, e⟩⟩
          · rcases e1 with e1 | ⟨h00, _⟩
            · rw [e1] at h0; cases h0
            · exact Or.inr ⟨hm1, Or.inr ⟨h00, e⟩⟩

/-! ## a kept ring handle: the transaction log -/

/-- the transactions a handle operation pushes are as many as the regenerated table says it pushes -/
def HOp.pushes (h : HOp) : Nat :=
  ((KeystoreCrash.v2TxPushPop.find? (·.1 = h.name)).map (·.2.1)).getD 0

theorem HOp.txs_length (h : HOp) (view : Ring) (g : Nat) (txs : List Tx) (ht : h.txs view g = some txs)
    (hf : KeystoreCrash.v2TxPushPop.map (fun e => (e.1, e.2.1)) =
      [("setCurrent", 1), ("changeKeyState", 1), ("addKey", 1), ("destroyKey", 2), ("importASN1", 1)]) :
    txs.length = h.pushes := by
  have hp : ∀ n, ((KeystoreCrash.v2TxPushPop.find? (·.1 = n)).map (·.2.1)) =
      ((KeystoreCrash.v2TxPushPop.map (fun e => (e.1, e.2.1))).find? (·.1 = n)).map (·.2) := by
    intro n
    induction KeystoreCrash.v2TxPushPop with
    | nil => rfl
    | cons e es ih =>
      by_cases he : e.1 = n
      · simp [List.find?_cons, he]
      · simp only [List.find?_cons, List.map_cons, he, decide_false]; exact ih
  unfold HOp.pushes
  rw [hp, hf]
  cases h with
  | add => simp only [HOp.txs, Option.some.injEq] at ht; subst ht; rfl
  | setCurrent q => simp only [HOp.txs, Option.some.injEq] at ht; subst ht; rfl
  | destroy q =>
    simp only [HOp.txs] at ht
    split at ht
    · cases ht
    · split at ht
      · simp only [Option.some.injEq] at ht; subst ht; rfl
      · cases ht

/-- **the handle's log after one operation**: with balanced push/pop counts (`pops = pushes` for the
operation) a handle whose log was empty has an empty log again – whatever the fault did to the sync -/
theorem H2.hop_log (ft : Fault) (s : Slot) (h : H2) (op : HOp) (hl : h.log = [])
    (hbal : op.pops = op.pushes)
    (hf : KeystoreCrash.v2TxPushPop.map (fun e => (e.1, e.2.1)) =
      [("setCurrent", 1), ("changeKeyState", 1), ("addKey", 1), ("destroyKey", 2), ("importASN1", 1)]) :
    (h.hop ft s op).1.log = [] := by
  unfold H2.hop
  split
  · exact hl
  · simp only []
    split
    · exact hl
    · rename_i txs ht
      have hlen := HOp.txs_length op _ _ txs ht hf
      have key : ∀ (c : Prop) [Decidable c], (if c then ([] : List Tx) else txs.take (txs.length - op.pops)) = [] := by
        intro c _; rw [hbal, ← hlen]; simp
      simp only [hl, List.nil_append]
      exact key _

end AcraModel.Keystore
