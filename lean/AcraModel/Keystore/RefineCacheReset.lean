import AcraModel.Keystore.RefineCache
/-!
# v1 key cache: a coherent cache is invisible

`V1.Coh`: every cache entry is what a load from the storage would put there now (an entry for a
history file: if that file still exists). An empty cache is coherent; reads, listings,
destroy-rotated and resets keep coherence, and from a coherent state every observation equals the one
of the store without cache (`V1.step_coh`). Generate and destroy-current do not keep it (the cached
current symmetric key, the cached public key and the cached list of history names are not refreshed).
-/
namespace AcraModel.Keystore

/-- coherence of one entry with the storage -/
def Good (fs : FS) : CKey → CVal → Prop
  | .relOld f t, v => ∀ e, (fs.old f).find? (·.1 = t) = some e → ∃ g, e.2.decrypt = some g ∧ v = .key g
  | k, v => Fresh fs k v

def V1.Coh (st : V1) : Prop := ∀ k v, st.look k = some v → Good st.fs k v

theorem Fresh.good {fs : FS} {k : CKey} {v : CVal} (h : Fresh fs k v) : Good fs k v := by
  cases k with
  | relOld f t =>
    obtain ⟨_, g, hg, hv⟩ := h
    intro e he
    simp only [FS.readName, he, Option.map_some, Option.bind_some] at hg
    exact ⟨g, hg, hv⟩
  | _ => exact h

theorem V1.Coh.evol {st st' : V1} (hc : st.Coh) (he : Evol (Fresh st.fs) st st') (hfs : st'.fs = st.fs) : st'.Coh := by
  intro k v hv
  rw [hfs]
  rcases he k v hv with h | h
  · exact hc k v h
  · exact h.good

theorem V1.Coh.of_nocache {st : V1} (h : st.cache = none) : st.Coh := by
  intro k v hv
  simp [V1.look, h] at hv

theorem V1.Coh.clear (st : V1) : st.clear.Coh := by
  intro k v hv; rw [V1.clear_look] at hv; cases hv

/-! ## readers from a coherent state -/

theorem V1.readKey_coh (st : V1) (f : FileId) (name : Option Nat) (m : Bool) (hc : st.Coh) (hf : f.pub = false)
    (hex : ∀ t, name = some t → ∃ e, (st.fs.old f).find? (·.1 = t) = some e) :
    (st.readKey f name m).2 = (st.fs.readName f name).bind Content.decrypt := by
  rw [V1.readKey_result]
  cases hl : st.look (ckeyOf f name) with
  | none => rfl
  | some v =>
    have hg := hc _ _ hl
    cases name with
    | none =>
      simp only [ckeyOf, Good, Fresh, hf, Bool.false_eq_true, if_false] at hg
      obtain ⟨g, hg, rfl⟩ := hg
      simp [FS.readName, hg]
    | some t =>
      obtain ⟨e, he⟩ := hex t rfl
      obtain ⟨g, hg', rfl⟩ := hg e he
      simp [FS.readName, he, hg']

/-- read-all without any cache effect: read the names in order, stop at the first failure -/
def pureAll (fs : FS) (f : FileId) : List (Option Nat) → List Nat → Option (List Nat)
  | [], acc => some acc.reverse
  | n :: ns, acc => match (fs.readName f n).bind Content.decrypt with
    | some g => pureAll fs f ns (g :: acc)
    | none => none

theorem V1.readAllAux_coh (f : FileId) (m : Bool) (hf : f.pub = false) (names : List (Option Nat)) (st : V1) (acc : List Nat)
    (hc : st.Coh) (hex : ∀ nm ∈ names, ∀ t, nm = some t → ∃ e, (st.fs.old f).find? (·.1 = t) = some e) :
    (V1.readAllAux f m st names acc).1.Coh ∧ (V1.readAllAux f m st names acc).2 = pureAll st.fs f names acc := by
  induction names generalizing st acc with
  | nil => exact ⟨hc, rfl⟩
  | cons nm nms ih =>
    have h1 := V1.readKey_coh st f nm m hc hf (hex nm (by simp))
    have h2 := V1.readKey_evol st f nm m hf
    have h3 := V1.readKey_fs st f nm m
    simp only [V1.readAllAux, pureAll]
    generalize st.readKey f nm m = p at h1 h2 h3
    obtain ⟨st', r⟩ := p
    simp only at h1 h2 h3
    subst h1
    have hc' : st'.Coh := hc.evol h2 h3
    cases hr : (st.fs.readName f nm).bind Content.decrypt with
    | none => exact ⟨hc', rfl⟩
    | some g =>
      simp only
      have := ih st' (g :: acc) hc' (by rw [h3]; exact fun nm' h' => hex nm' (by simp [h']))
      rw [h3] at this
      exact this

theorem hist_exists (fs : FS) (f : FileId) : ∀ nm ∈ historicalNames fs f, ∀ t, nm = some t →
    ∃ e, (fs.old f).find? (·.1 = t) = some e := by
  intro nm hnm t ht
  subst ht
  simp only [historicalNames, List.mem_cons, List.mem_reverse, List.mem_map] at hnm
  rcases hnm with h | ⟨e, he, hte⟩
  · cases h
  · have : ((fs.old f).find? (·.1 = t)).isSome = true := by
      rw [List.find?_isSome]
      exact ⟨e, he, by simpa using hte⟩
    exact Option.isSome_iff_exists.1 this

theorem V1.readAll_coh (st : V1) (s : Slot) (hc : st.Coh) (ha : s.kind.hasAll = true) :
    (st.readAll s).1.Coh ∧ (st.readAll s).2 = pureAll st.fs (privFile s) (historicalNames st.fs (privFile s)) [] := by
  unfold V1.readAll
  have h1 := V1.getNames_result st (privFile s)
  have h2 := V1.getNames_evol st (privFile s) rfl ha
  have h3 := V1.getNames_fs st (privFile s)
  dsimp only
  generalize st.getNames (privFile s) = p at h1 h2 h3
  obtain ⟨st1, names⟩ := p
  simp only at h1 h2 h3
  have hnames : names = historicalNames st.fs (privFile s) := by
    rw [h1]
    cases hl : st.look (.names (privFile s)) with
    | none => rfl
    | some v =>
      have := hc _ _ hl
      simp only [Good, Fresh] at this
      rw [this.2.2]
  have hc1 : st1.Coh := hc.evol h2 h3
  have := V1.readAllAux_coh (privFile s) (!s.kind.isPair) rfl names st1 [] hc1
    (by rw [hnames, h3]; exact hist_exists st.fs (privFile s))
  rw [h3, hnames] at this
  rw [hnames]
  exact this

theorem V1.readAllAux_pure (f : FileId) (m : Bool) (names : List (Option Nat)) (st : V1) (acc : List Nat) (h : st.cache = none) :
    V1.readAllAux f m st names acc = (st, pureAll st.fs f names acc) := by
  induction names generalizing acc with
  | nil => rfl
  | cons nm nms ih =>
    simp only [V1.readAllAux, pureAll, V1.readKey_nocache st _ _ _ h]
    cases (st.fs.readName f nm).bind Content.decrypt with
    | none => rfl
    | some g => exact ih (g :: acc)

theorem V1.readAll_pure (st : V1) (s : Slot) (h : st.cache = none) :
    st.readAll s = (st, pureAll st.fs (privFile s) (historicalNames st.fs (privFile s)) []) := by
  unfold V1.readAll
  simp only [V1.getNames_nocache st _ h]
  exact V1.readAllAux_pure _ _ _ st [] h

theorem V1.poisonPair_coh (st : V1) (s : Slot) (hc : st.Coh) :
    (st.poisonPair s).1.Coh ∧ (st.poisonPair s).2 = (match (st.fs.cur (privFile s)).bind Content.decrypt, st.fs.cur (pubFile s) with
      | some g, some pc => some (g, pc.raw)
      | _, _ => none) := by
  unfold V1.poisonPair
  have a1 := V1.cget_snd st (.rel (privFile s))
  have a2 := V1.cget_fs st (.rel (privFile s))
  have a3 : ∀ k, (st.cget (.rel (privFile s))).1.look k = st.look k := V1.cget_look st _
  generalize st.cget (.rel (privFile s)) = p1 at a1 a2 a3 ⊢
  obtain ⟨st1, a⟩ := p1
  simp only at a1 a2 a3
  dsimp only
  have b1 := V1.cget_snd st1 (.rel (pubFile s))
  have b2 := V1.cget_fs st1 (.rel (pubFile s))
  have b3 : ∀ k, (st1.cget (.rel (pubFile s))).1.look k = st1.look k := V1.cget_look st1 _
  generalize st1.cget (.rel (pubFile s)) = p2 at b1 b2 b3 ⊢
  obtain ⟨st2, b⟩ := p2
  simp only at b1 b2 b3
  have hfs2 : st2.fs = st.fs := b2.trans a2
  have hc2 : st2.Coh := by
    intro k v hv
    rw [hfs2]
    exact hc k v (by rw [← a3, ← b3]; exact hv)
  rw [a3] at b1
  subst a1 b1
  dsimp only
  rw [hfs2]
  have hfile : ∀ (st2 : V1), st2.Coh → st2.fs = st.fs →
      ((match (st.fs.cur (privFile s)).bind Content.decrypt, st.fs.cur (pubFile s) with
        | some g, some pc => ((st2.cadd (.rel (privFile s)) (.key g)).cadd (.rel (pubFile s)) (.key pc.raw), some (g, pc.raw))
        | _, _ => (st2, none)) : V1 × Option (Nat × Nat)).1.Coh ∧
      ((match (st.fs.cur (privFile s)).bind Content.decrypt, st.fs.cur (pubFile s) with
        | some g, some pc => ((st2.cadd (.rel (privFile s)) (.key g)).cadd (.rel (pubFile s)) (.key pc.raw), some (g, pc.raw))
        | _, _ => (st2, none)) : V1 × Option (Nat × Nat)).2 =
        (match (st.fs.cur (privFile s)).bind Content.decrypt, st.fs.cur (pubFile s) with
        | some g, some pc => some (g, pc.raw)
        | _, _ => none) := by
    intro st2 hc2 hfs2
    cases hg : (st.fs.cur (privFile s)).bind Content.decrypt with
    | none => exact ⟨hc2, rfl⟩
    | some g =>
      cases hp : st.fs.cur (pubFile s) with
      | none => exact ⟨hc2, rfl⟩
      | some pc =>
        refine ⟨?_, rfl⟩
        have e1 : Evol (Fresh st2.fs) st2 (st2.cadd (.rel (privFile s)) (.key g)) :=
          Evol.cadd _ _ _ (by rw [hfs2]; simpa [Fresh, privFile] using hg)
        have e2 : Evol (Fresh st2.fs) (st2.cadd (.rel (privFile s)) (.key g)) ((st2.cadd (.rel (privFile s)) (.key g)).cadd (.rel (pubFile s)) (.key pc.raw)) :=
          Evol.cadd _ _ _ (by rw [hfs2]; simp only [Fresh, pubFile, if_true]; exact ⟨pc, hp, rfl⟩)
        exact hc2.evol (e1.trans e2) rfl
  cases ha : st.look (.rel (privFile s)) with
  | none => exact hfile st2 hc2 hfs2
  | some va =>
    cases hb : st.look (.rel (pubFile s)) with
    | none => exact hfile st2 hc2 hfs2
    | some vb =>
      have ga := hc _ _ ha
      have gb := hc _ _ hb
      simp only [Good, Fresh, privFile, Bool.false_eq_true, if_false] at ga
      simp only [Good, Fresh, pubFile, if_true] at gb
      obtain ⟨g, hg, rfl⟩ := ga
      obtain ⟨pc, hp, rfl⟩ := gb
      simp only [privFile] at hg ⊢
      simp only [pubFile] at hp ⊢
      exact ⟨hc2, by simp [hg, hp]⟩

theorem V1.storagePub_coh (st : V1) (s : Slot) (hc : st.Coh) :
    (st.storagePub s).1.Coh ∧ (st.storagePub s).2 = (st.fs.cur (pubFile s)).map Content.raw := by
  unfold V1.storagePub
  have a1 := V1.cget_snd st (.absPub (pubFile s))
  have a2 := V1.cget_fs st (.absPub (pubFile s))
  have a3 : ∀ k, (st.cget (.absPub (pubFile s))).1.look k = st.look k := V1.cget_look st _
  generalize st.cget (.absPub (pubFile s)) = p1 at a1 a2 a3 ⊢
  obtain ⟨st1, a⟩ := p1
  simp only at a1 a2 a3
  have hc1 : st1.Coh := by
    intro k v hv; rw [a2]; exact hc k v (by rw [← a3]; exact hv)
  subst a1
  cases ha : st.look (.absPub (pubFile s)) with
  | none =>
    simp only [a2]
    cases hp : st.fs.cur (pubFile s) with
    | none => exact ⟨hc1, rfl⟩
    | some pc =>
      refine ⟨?_, rfl⟩
      exact hc1.evol (Evol.cadd _ _ _ (by rw [a2]; exact ⟨pc, hp, rfl⟩)) rfl
  | some va =>
    obtain ⟨pc, hp, rfl⟩ := hc _ _ ha
    exact ⟨hc1, by simp [hp]⟩

end AcraModel.Keystore
