import AcraModel.Keystore.CrashLemmas
import AcraModel.Keystore.RefineV2Step
import AcraModel.Keystore.RefineCacheStep
/-!
# Whole write operations under a fault (C08): invariants of the fault executor

`X1.exec_inv` is the induction principle of `X1.exec`: a relation `R` between the calls still to be
made and the storage that survives performing the next call and the executor's error paths (the
backup inserted after a failing `Stat`, `Copy` after a failing `Link`) yields a property `Fin` of the
storage wherever the execution stops – after any fault, in any mode.
-/
namespace AcraModel.Keystore

@[simp] theorem X1.note_st (x : X1) (c : Call) : (x.note c).st = x.st := rfl
@[simp] theorem X1.note_out (x : X1) (c : Call) : (x.note c).out = x.out := rfl

theorem X1.perform_fs (x : X1) (c : Call) :
    (applyCall x.st.fs c = none ∧ x.perform c = (x, false)) ∨
    (∃ fs', applyCall x.st.fs c = some fs' ∧ x.perform c = (x.setFs fs', true)) := by
  unfold X1.perform
  cases h : applyCall x.st.fs c with
  | none => exact Or.inl ⟨rfl, rfl⟩
  | some fs' => exact Or.inr ⟨fs', rfl, rfl⟩

theorem X1.exec_inv (ft : Fault) (R : List Call → FS → Prop) (Fin : FS → Prop)
    (h_stop : ∀ cs fs, R cs fs → Fin fs)
    (h_perf : ∀ c cs fs fs', R (c :: cs) fs → applyCall fs c = some fs' → R cs fs')
    (h_stat : ∀ f cs fs, R (.stat f :: cs) fs → R (.mkdirOld f :: .link f :: cs) fs)
    (h_link : ∀ f cs fs, R (.link f :: cs) fs → R (.copy f :: cs) fs)
    (h_torn : ∀ id f g cs fs fs', R (.writeFile id f (.full g) :: cs) fs →
      applyCall fs (.writeFile id f (.torn g)) = some fs' → Fin fs')
    (fuel : Nat) (x : X1) (cs : List Call) (h : R cs x.st.fs) : Fin (X1.exec ft fuel x cs).st.fs := by
  induction fuel generalizing x cs with
  | zero => simp only [X1.exec]; exact h_stop _ _ h
  | succ fuel ih =>
    cases cs with
    | nil => simp only [X1.exec]; exact h_stop _ _ h
    | cons c cs =>
      simp only [X1.exec]
      split
      · exact h_stop _ _ h
      · -- the state carried by the bookkeeping record
        generalize hmode : (if x.fired = true then FaultMode.none else ft.at x.idx) = mode
        have hx1 : ∀ (b : Bool), (if b then ({ x.note c with fired := true } : X1) else x.note c).st = x.st := by
          intro b; cases b <;> rfl
        generalize hx1' : (if mode ≠ FaultMode.none then ({ x.note c with fired := true } : X1) else x.note c) = x1
        have hst1 : x1.st = x.st := by
          rw [← hx1']; split <;> rfl
        have hR1 : R (c :: cs) x1.st.fs := by rw [hst1]; exact h
        cases mode with
        | cb => exact h_stop _ _ hR1
        | ca =>
          simp only
          rcases X1.perform_fs x1 c with ⟨_, hp⟩ | ⟨fs', ha, hp⟩
          · rw [hp]; exact h_stop _ _ hR1
          · rw [hp]; exact h_stop _ _ (h_perf _ _ _ _ hR1 ha)
        | torn =>
          simp only
          split
          · rename_i id f g
            rcases X1.perform_fs x1 (.writeFile id f (.torn g)) with ⟨_, hp⟩ | ⟨fs', ha, hp⟩
            · rw [hp]; exact h_stop _ _ hR1
            · rw [hp]; exact h_torn _ _ _ _ _ _ hR1 ha
          · exact h_stop _ _ hR1
        | err =>
          simp only
          split
          · rename_i f
            split
            · apply ih
              exact h_perf _ _ _ _ hR1 rfl
            · apply ih
              exact h_stat _ _ _ hR1
          · rename_i f
            apply ih
            exact h_link _ _ _ hR1
          · exact h_stop _ _ hR1
        | none =>
          simp only
          rcases X1.perform_fs x1 c with ⟨_, hp⟩ | ⟨fs', ha, hp⟩
          · rw [hp]
            simp only
            split
            · rename_i f
              apply ih
              exact h_link _ _ _ hR1
            · exact h_stop _ _ hR1
          · rw [hp]
            simp only
            apply ih
            exact h_perf _ _ _ _ hR1 ha

/-! ## `WriteKeyFile` cut anywhere -/

/-- **Outcome of one `WriteKeyFile(<f>, c)` under any fault**, relative to the storage `fs0` before it:
no other file changes, the history of `<f>` only grows, and the current file is what it was or is
completely the new content – and then the previous content is in the history. -/
structure WAtomic (fs0 fs : FS) (f : FileId) (c : Content) : Prop where
  others : ∀ f', f' ≠ f → fs.cur f' = fs0.cur f' ∧ fs.old f' = fs0.old f'
  grow : ∃ l, fs.old f = fs0.old f ++ l
  target : fs.cur f = fs0.cur f ∨ (fs.cur f = some c ∧ ∀ c0, fs0.cur f = some c0 → ∃ t, (t, c0) ∈ fs.old f)

/-- before the final rename -/
structure WPre (fs0 fs : FS) (f : FileId) : Prop where
  cur : fs.cur = fs0.cur
  others : ∀ f', f' ≠ f → fs.old f' = fs0.old f'
  grow : ∃ l, fs.old f = fs0.old f ++ l

def WBacked (fs0 fs : FS) (f : FileId) : Prop := ∀ c0, fs0.cur f = some c0 → ∃ t, (t, c0) ∈ fs.old f

def WMidCall (f : FileId) (x : Call) : Prop := x = .stat f ∨ x = .mkdirOld f ∨ x = .link f ∨ x = .copy f

/-- the backup of the previous content is done, or still ahead -/
def WPend (fs0 fs : FS) (f : FileId) (m : List Call) : Prop := WBacked fs0 fs f ∨ Call.link f ∈ m ∨ Call.copy f ∈ m

inductive WStage (fs0 : FS) (f : FileId) (c : Content) : List Call → FS → Prop
  | s0 (m : List Call) (fs : FS) : (∀ x ∈ m, WMidCall f x) → WPre fs0 fs f → fs.nextTmp = fs0.nextTmp → WPend fs0 fs f m →
      WStage fs0 f c (.mkdirAll f :: .tempFile f :: .writeFile fs0.nextTmp f c :: (m ++ [.rename fs0.nextTmp f])) fs
  | s1 (m : List Call) (fs : FS) : (∀ x ∈ m, WMidCall f x) → WPre fs0 fs f → fs.nextTmp = fs0.nextTmp → WPend fs0 fs f m →
      WStage fs0 f c (.tempFile f :: .writeFile fs0.nextTmp f c :: (m ++ [.rename fs0.nextTmp f])) fs
  | s2 (m : List Call) (fs : FS) : (∀ x ∈ m, WMidCall f x) → WPre fs0 fs f → fs.tmps.any (·.1 = fs0.nextTmp) = true → WPend fs0 fs f m →
      WStage fs0 f c (.writeFile fs0.nextTmp f c :: (m ++ [.rename fs0.nextTmp f])) fs
  | mid (x : Call) (m : List Call) (fs : FS) : WMidCall f x → (∀ x ∈ m, WMidCall f x) → WPre fs0 fs f →
      fs.tmpContent fs0.nextTmp = some c → WPend fs0 fs f (x :: m) →
      WStage fs0 f c (x :: (m ++ [.rename fs0.nextTmp f])) fs
  | last (fs : FS) : WPre fs0 fs f → fs.tmpContent fs0.nextTmp = some c → WBacked fs0 fs f →
      WStage fs0 f c [.rename fs0.nextTmp f] fs
  | done (fs : FS) : WAtomic fs0 fs f c → WStage fs0 f c [] fs

theorem WPre.atomic {fs0 fs : FS} {f : FileId} (c : Content) (h : WPre fs0 fs f) : WAtomic fs0 fs f c :=
  ⟨fun f' hf' => ⟨by rw [h.cur], h.others f' hf'⟩, h.grow, Or.inl (by rw [h.cur])⟩

theorem WStage.stop {fs0 : FS} {f : FileId} {c : Content} {cs : List Call} {fs : FS} (h : WStage fs0 f c cs fs) :
    WAtomic fs0 fs f c := by
  cases h with
  | s0 m fs _ hp _ _ => exact hp.atomic c
  | s1 m fs _ hp _ _ => exact hp.atomic c
  | s2 m fs _ hp _ _ => exact hp.atomic c
  | mid x m fs _ _ hp _ _ => exact hp.atomic c
  | last fs hp _ _ => exact hp.atomic c
  | done fs h => exact h

theorem tmpContent_written (tmps : List (Nat × FileId × Content)) (id : Nat) (c : Content) (h : tmps.any (·.1 = id) = true) :
    ((tmps.map fun t => if t.1 = id then (t.1, t.2.1, c) else t).find? (·.1 = id)).map (·.2.2) = some c := by
  induction tmps with
  | nil => simp at h
  | cons t ts ih =>
    by_cases ht : t.1 = id
    · simp [ht]
    · have : ts.any (·.1 = id) = true := by simpa [ht] using h
      simp only [List.map_cons, ht, if_false, List.find?_cons, decide_false]
      exact ih this

/-- a staged continuation goes on or stops in an admissible state when its next call is performed -/
theorem WStage.perform {fs0 : FS} {f : FileId} {c : Content} {x : Call} {cs : List Call} {fs fs' : FS}
    (h : WStage fs0 f c (x :: cs) fs) (ha : applyCall fs x = some fs') : WStage fs0 f c cs fs' := by
  cases h with
  | s0 m fs hm hp hn hpe =>
    simp only [applyCall, Option.some.injEq] at ha
    subst ha
    exact .s1 m _ hm hp hn hpe
  | s1 m fs hm hp hn hpe =>
    simp only [applyCall, Option.some.injEq] at ha
    subst ha
    refine .s2 m _ hm ⟨hp.cur, hp.others, hp.grow⟩ ?_ hpe
    simp [hn]
  | s2 m fs hm hp hn hpe =>
    simp only [applyCall, hn, if_true, Option.some.injEq] at ha
    subst ha
    have htc : FS.tmpContent { fs with tmps := fs.tmps.map fun t => if t.1 = fs0.nextTmp then (t.1, t.2.1, c) else t } fs0.nextTmp = some c :=
      tmpContent_written fs.tmps fs0.nextTmp c hn
    cases m with
    | nil =>
      refine .last _ ⟨hp.cur, hp.others, hp.grow⟩ htc ?_
      rcases hpe with h | h | h
      · exact h
      · simp at h
      · simp at h
    | cons y m' =>
      exact .mid y m' _ (hm y (by simp)) (fun z hz => hm z (by simp [hz])) ⟨hp.cur, hp.others, hp.grow⟩ htc hpe
  | mid _ m fs hx hm hp htc hpe =>
    -- a call of the backup: Stat, MkdirAll(.old), Link or Copy
    have hstep : WPre fs0 fs' f ∧ fs'.tmpContent fs0.nextTmp = some c ∧
        (WBacked fs0 fs f → WBacked fs0 fs' f) ∧ ((x = .link f ∨ x = .copy f) → WBacked fs0 fs' f) := by
      have hgrow : ∀ (c1 : Content), fs.cur f = some c1 → fs.oldDir f = true →
          fs' = { fs with old := upd fs.old f (fs.old f ++ [(fs.clock, c1)]), clock := fs.clock + 1 } →
          WPre fs0 fs' f ∧ fs'.tmpContent fs0.nextTmp = some c ∧
          (WBacked fs0 fs f → WBacked fs0 fs' f) ∧ ((x = .link f ∨ x = .copy f) → WBacked fs0 fs' f) := by
        intro c1 hc1 _ he
        subst he
        obtain ⟨l, hl⟩ := hp.grow
        refine ⟨⟨hp.cur, fun f' hf' => by simpa [upd, hf'] using hp.others f' hf', ⟨l ++ [(fs.clock, c1)], by simp [hl]⟩⟩, htc, ?_, ?_⟩
        · intro hb c0 hc0
          obtain ⟨t, ht⟩ := hb c0 hc0
          exact ⟨t, by simp [ht]⟩
        · intro _ c0 hc0
          rw [← hp.cur, hc1] at hc0
          cases hc0
          exact ⟨fs.clock, by simp⟩
      rcases hx with rfl | rfl | rfl | rfl
      · simp only [applyCall, Option.some.injEq] at ha; subst ha
        exact ⟨hp, htc, id, by intro h; rcases h with h | h <;> cases h⟩
      · simp only [applyCall, Option.some.injEq] at ha; subst ha
        exact ⟨⟨hp.cur, hp.others, hp.grow⟩, htc, id, by intro h; rcases h with h | h <;> cases h⟩
      · simp only [applyCall] at ha
        cases hc1 : fs.cur f with
        | none => simp [hc1] at ha
        | some c1 =>
          simp only [hc1] at ha
          split at ha
          · rename_i hd
            exact hgrow c1 hc1 hd (by simpa using ha.symm)
          · cases ha
      · simp only [applyCall] at ha
        cases hc1 : fs.cur f with
        | none => simp [hc1] at ha
        | some c1 =>
          simp only [hc1] at ha
          split at ha
          · rename_i hd
            exact hgrow c1 hc1 hd (by simpa using ha.symm)
          · cases ha
    obtain ⟨hp', htc', hb1, hb2⟩ := hstep
    have hpend' : WBacked fs0 fs' f ∨ Call.link f ∈ m ∨ Call.copy f ∈ m := by
      rcases hpe with h | h | h
      · exact Or.inl (hb1 h)
      · rcases List.mem_cons.1 h with h | h
        · exact Or.inl (hb2 (Or.inl h.symm))
        · exact Or.inr (Or.inl h)
      · rcases List.mem_cons.1 h with h | h
        · exact Or.inl (hb2 (Or.inr h.symm))
        · exact Or.inr (Or.inr h)
    cases m with
    | nil =>
      refine .last _ hp' htc' ?_
      rcases hpend' with h | h | h
      · exact h
      · simp at h
      · simp at h
    | cons y m' => exact .mid y m' _ (hm y (by simp)) (fun z hz => hm z (by simp [hz])) hp' htc' hpend'
  | last fs hp htc hb =>
    simp only [applyCall, htc, Option.some.injEq] at ha
    subst ha
    refine .done _ ⟨?_, hp.grow, Or.inr ⟨by simp, hb⟩⟩
    intro f' hf'
    exact ⟨by simp [upd, hf', hp.cur], hp.others f' hf'⟩

theorem WStage.statErr {fs0 : FS} {f f' : FileId} {c : Content} {cs : List Call} {fs : FS}
    (h : WStage fs0 f c (.stat f' :: cs) fs) : WStage fs0 f c (.mkdirOld f' :: .link f' :: cs) fs := by
  cases h with
  | mid _ m fs hx hm hp htc hpe =>
    have hff : f' = f := by
      rcases hx with h | h | h | h <;> cases h; rfl
    subst hff
    have : Call.mkdirOld f' :: Call.link f' :: (m ++ [Call.rename fs0.nextTmp f']) =
        Call.mkdirOld f' :: ((Call.link f' :: m) ++ [Call.rename fs0.nextTmp f']) := rfl
    rw [this]
    refine .mid _ _ _ (Or.inr (Or.inl rfl)) ?_ hp htc (Or.inr (Or.inl (by simp)))
    intro z hz
    rcases List.mem_cons.1 hz with rfl | hz
    · exact Or.inr (Or.inr (Or.inl rfl))
    · exact hm z hz

theorem WStage.linkErr {fs0 : FS} {f f' : FileId} {c : Content} {cs : List Call} {fs : FS}
    (h : WStage fs0 f c (.link f' :: cs) fs) : WStage fs0 f c (.copy f' :: cs) fs := by
  cases h with
  | mid _ m fs hx hm hp htc hpe =>
    have hff : f' = f := by
      rcases hx with h | h | h | h <;> cases h; rfl
    subst hff
    refine .mid _ _ _ (Or.inr (Or.inr (Or.inr rfl))) hm hp htc ?_
    rcases hpe with h | h | h
    · exact Or.inl h
    · exact Or.inr (Or.inr (by simp))
    · exact Or.inr (Or.inr (by simp))

theorem WStage.torn {fs0 : FS} {f f' : FileId} {c : Content} {id g : Nat} {cs : List Call} {fs fs' : FS}
    (h : WStage fs0 f c (.writeFile id f' (.full g) :: cs) fs) (ha : applyCall fs (.writeFile id f' (.torn g)) = some fs') :
    WAtomic fs0 fs' f c := by
  cases h with
  | s2 m fs hm hp hn hpe =>
    simp only [applyCall, hn, if_true, Option.some.injEq] at ha
    subst ha
    refine WPre.atomic _ ?_
    exact ⟨hp.cur, hp.others, hp.grow⟩
  | mid _ m fs hx hm hp htc hpe =>
    rcases hx with h | h | h | h <;> cases h

/-- **`WriteKeyFile` under any fault.** -/
theorem writeKeyFile_fault (ft : Fault) (x : X1) (f : FileId) (c : Content) (fuel : Nat) :
    WAtomic x.st.fs (X1.exec ft fuel x (writeKeyFileCalls x.st.fs f c)).st.fs f c := by
  apply X1.exec_inv ft (WStage x.st.fs f c) (fun fs => WAtomic x.st.fs fs f c)
    (fun _ _ h => h.stop) (fun _ _ _ _ h ha => h.perform ha) (fun _ _ _ h => h.statErr) (fun _ _ _ h => h.linkErr)
    (fun _ _ _ _ _ _ h ha => h.torn ha)
  -- the initial continuation is stage 0
  have hpre : WPre x.st.fs x.st.fs f := ⟨rfl, fun _ _ => rfl, ⟨[], by simp⟩⟩
  unfold writeKeyFileCalls
  cases hc : x.st.fs.cur f with
  | none =>
    have : [Call.mkdirAll f, .tempFile f, .writeFile x.st.fs.nextTmp f c, .stat f] ++
        (if (none : Option Content).isSome then [Call.mkdirOld f, .link f] else []) ++ [.rename x.st.fs.nextTmp f] =
        .mkdirAll f :: .tempFile f :: .writeFile x.st.fs.nextTmp f c :: ([.stat f] ++ [.rename x.st.fs.nextTmp f]) := rfl
    rw [this]
    refine .s0 _ _ ?_ hpre rfl (Or.inl ?_)
    · intro z hz; simp at hz; subst hz; exact Or.inl rfl
    · intro c0 hc0; rw [hc] at hc0; cases hc0
  | some c1 =>
    have : [Call.mkdirAll f, .tempFile f, .writeFile x.st.fs.nextTmp f c, .stat f] ++
        (if (some c1 : Option Content).isSome then [Call.mkdirOld f, .link f] else []) ++ [.rename x.st.fs.nextTmp f] =
        .mkdirAll f :: .tempFile f :: .writeFile x.st.fs.nextTmp f c :: ([.stat f, .mkdirOld f, .link f] ++ [.rename x.st.fs.nextTmp f]) := rfl
    rw [this]
    refine .s0 _ _ ?_ hpre rfl (Or.inr (Or.inl (by simp)))
    intro z hz
    simp at hz
    rcases hz with rfl | rfl | rfl
    · exact Or.inl rfl
    · exact Or.inr (Or.inl rfl)
    · exact Or.inr (Or.inr (Or.inl rfl))

/-! ## the cache bookkeeping after the storage calls does not touch the storage -/

theorem X1.run_readDirHist_fs (ft : Fault) (x : X1) (f : FileId) : (X1.run ft x [.readDirHist f]).st.fs = x.st.fs := by
  unfold X1.run
  apply X1.exec_inv ft (fun cs fs => (cs = [.readDirHist f] ∨ cs = []) ∧ fs = x.st.fs) (fun fs => fs = x.st.fs)
  · intro cs fs h; exact h.2
  · intro c cs fs fs' h ha
    rcases h.1 with h1 | h1
    · cases h1
      simp only [applyCall, Option.some.injEq] at ha
      exact ⟨Or.inr rfl, by rw [← ha]; exact h.2⟩
    · cases h1
  · intro f' cs fs h; rcases h.1 with h1 | h1 <;> cases h1
  · intro f' cs fs h; rcases h.1 with h1 | h1 <;> cases h1
  · intro id f' g cs fs fs' h; rcases h.1 with h1 | h1 <;> cases h1
  · exact ⟨Or.inl rfl, rfl⟩

theorem X1.refresh_fs (ft : Fault) (x : X1) (f : FileId) : (x.refresh ft f).st.fs = x.st.fs := by
  unfold X1.refresh
  split
  · rfl
  · have h1 := V1.cget_fs x.st (.names f)
    generalize x.st.cget (.names f) = p at h1 ⊢
    obtain ⟨st', r⟩ := p
    simp only at h1
    cases r with
    | none => exact h1
    | some v =>
      simp only
      have h2 := X1.run_readDirHist_fs ft { x with st := st' } f
      split
      · simp only [V1.loadNames_fs]; rw [h2]; exact h1
      · rw [h2]; exact h1

theorem X1.cache_fs (x : X1) (g : V1 → V1) (hg : ∀ st, (g st).fs = st.fs) : (x.cache g).st.fs = x.st.fs := by
  unfold X1.cache
  split
  · exact hg _
  · rfl

/-- **generate/rotate of a single-file key under any fault** (any state, any cache) -/
theorem V1.stepF_gen_atomic (st : V1) (ft : Fault) (s : Slot) (hp : s.kind.isPair = false) :
    WAtomic st.fs (st.stepF ft (.gen s)).1.fs (privFile s) (.full (st.count s + 1)) := by
  have hw := writeKeyFile_fault ft ⟨{ st with count := upd st.count s (st.count s + 1) }, [], 0, .ok, false⟩
    (privFile s) (.full (st.count s + 1)) (2 * (genCalls st.fs s (st.count s + 1)).length + 8)
  have hcalls : genCalls st.fs s (st.count s + 1) = writeKeyFileCalls st.fs (privFile s) (.full (st.count s + 1)) := by
    simp [genCalls, hp]
  simp only [V1.stepF, X1.run]
  rw [hcalls] at hw ⊢
  cases hk : s.kind <;> simp only [hk, Kind.isPair] at hp ⊢
  case ss | ps => rw [X1.refresh_fs]; exact hw
  case hm | al =>
    rw [X1.cache_fs _ (fun st_1 => st_1.cadd (.rel (privFile s)) (.key (st.count s + 1))) (fun _ => rfl)]; exact hw
  all_goals cases hp

theorem WAtomic.holds {fs0 fs : FS} {f : FileId} {c : Content} (h : WAtomic fs0 fs f c) (f' : FileId) (g : Nat)
    (hh : fs0.holds f' g = true) : fs.holds f' g = true := by
  by_cases hf : f' = f
  · subst hf
    obtain ⟨l, hl⟩ := h.grow
    simp only [FS.holds, Bool.or_eq_true, beq_iff_eq, List.any_eq_true] at hh ⊢
    rcases hh with hh | ⟨e, he, hec⟩
    · rcases h.target with ht | ⟨_, hb⟩
      · exact Or.inl (ht ▸ hh)
      · obtain ⟨t, ht⟩ := hb _ hh
        exact Or.inr ⟨_, ht, by simp⟩
    · exact Or.inr ⟨e, by rw [hl]; exact List.mem_append_left _ he, hec⟩
  · obtain ⟨h1, h2⟩ := h.others f' hf
    simpa [FS.holds, h1, h2] using hh

/-! ## v2: whole operations = sequences of locked phases -/

/-- one locked phase under any fault: other rings untouched, its ring unchanged or exactly the computed one -/
theorem X2.phase_atomic (ft : Fault) (x : X2) (s : Slot) (compute : Option Ring → Option (Option Ring)) :
    (∀ s', s' ≠ s → (x.phase ft s compute).st.rings s' = x.st.rings s') ∧
    ((x.phase ft s compute).st.rings s = x.st.rings s ∨
      ∃ r, compute (x.st.rings s) = some (some r) ∧ (x.phase ft s compute).st.rings s = some r) := by
  apply X2.phase_inv ft x s compute
    (fun st => (∀ s', s' ≠ s → st.rings s' = x.st.rings s') ∧
      (st.rings s = x.st.rings s ∨ ∃ r, compute (x.st.rings s) = some (some r) ∧ st.rings s = some r))
  · exact ⟨fun _ _ => rfl, Or.inl rfl⟩
  · intro st h; exact h
  · intro st r hr h
    refine ⟨fun s' hs' => ?_, Or.inr ⟨r, hr, by simp⟩⟩
    simp [upd, hs', h.1 s' hs']

theorem RingOK.setCurrent_fail {r : Ring} {n : Nat} (h : RingOK r n) :
    applyTxs r [.setCurrent r.current (some (n + 1))] = none := by
  have hf := h.find_none (n + 1) (Or.inr (Nat.lt_succ_self n))
  simp only [applyTxs, Tx.apply, ne_eq, not_true_eq_false, if_false]
  cases r.current <;> simp [hf]

/-- **generate/rotate on an existing ring under any fault**: every other ring is untouched; the ring
is what it was, or has the new key appended with the old key still current, or is completely rotated. -/
theorem V2.stepF_gen_atomic (st : V2) (ft : Fault) (s : Slot) (r : Ring) (hr : st.rings s = some r)
    (hok : RingOK r (st.count s)) :
    (∀ s', s' ≠ s → (st.stepF ft (.gen s)).1.rings s' = st.rings s') ∧
    ((st.stepF ft (.gen s)).1.rings s = some r ∨
     (st.stepF ft (.gen s)).1.rings s = some ⟨r.keys ++ [⟨st.count s + 1, .preActive, some (st.count s + 1)⟩], r.current⟩ ∨
     (st.stepF ft (.gen s)).1.rings s = some (r.added (st.count s))) := by
  simp only [V2.stepF]
  -- phase 1: OpenKeyRingRW finds the ring
  have p1 := X2.phase_atomic ft ⟨{ st with count := upd st.count s (st.count s + 1) }, [], 0, .ok, false⟩ s
    (fun r => match r with | some _ => some none | none => some (some Ring.empty))
  simp only [hr] at p1
  have e1 : (X2.openRW ft ⟨{ st with count := upd st.count s (st.count s + 1) }, [], 0, .ok, false⟩ s).st.rings s = some r := by
    rcases p1.2 with h | ⟨r', h, _⟩
    · exact h
    · cases h
  have o1 := p1.1
  change ∀ s', s' ≠ s → (X2.openRW ft ⟨{ st with count := upd st.count s (st.count s + 1) }, [], 0, .ok, false⟩ s).st.rings s' = st.rings s' at o1
  generalize X2.openRW ft ⟨{ st with count := upd st.count s (st.count s + 1) }, [], 0, .ok, false⟩ s = x1 at e1 o1 ⊢
  simp only [e1, Option.getD_some, hok.nextSeq]
  -- phase 2: AddKey
  have p2 := X2.phase_atomic ft x1 s (writeCompute [.addKey ⟨st.count s + 1, .preActive, some (st.count s + 1)⟩])
  change (∀ s', s' ≠ s → (x1.write ft s _).st.rings s' = _) ∧ ((x1.write ft s _).st.rings s = _ ∨ ∃ r', _ ∧ (x1.write ft s _).st.rings s = some r') at p2
  rw [e1] at p2
  simp only [writeCompute, hok.addKey, Option.map_some, Option.some.injEq] at p2
  generalize x1.write ft s [.addKey ⟨st.count s + 1, .preActive, some (st.count s + 1)⟩] = x2 at p2 ⊢
  obtain ⟨o2, e2⟩ := p2
  -- phase 3: SetCurrent
  rcases e2 with e2 | ⟨r1, rfl, e2⟩
  · have p3 := X2.phase_atomic ft x2 s (writeCompute [.setCurrent r.current (some (st.count s + 1))])
    change (∀ s', s' ≠ s → (x2.write ft s _).st.rings s' = _) ∧ ((x2.write ft s _).st.rings s = _ ∨ ∃ r', _ ∧ (x2.write ft s _).st.rings s = some r') at p3
    rw [e2] at p3
    simp only [writeCompute, hok.setCurrent_fail, Option.map_none] at p3
    simp only [e2, Option.getD_some]
    refine ⟨fun s' hs' => by rw [p3.1 s' hs', o2 s' hs', o1 s' hs'], Or.inl ?_⟩
    rcases p3.2 with h | ⟨_, h, _⟩
    · exact h
    · cases h
  · have p3 := X2.phase_atomic ft x2 s (writeCompute [.setCurrent r.current (some (st.count s + 1))])
    change (∀ s', s' ≠ s → (x2.write ft s _).st.rings s' = _) ∧ ((x2.write ft s _).st.rings s = _ ∨ ∃ r', _ ∧ (x2.write ft s _).st.rings s = some r') at p3
    rw [e2] at p3
    simp only [writeCompute, hok.setCurrent, Option.map_some, Option.some.injEq] at p3
    simp only [e2, Option.getD_some]
    refine ⟨fun s' hs' => by rw [p3.1 s' hs', o2 s' hs', o1 s' hs'], ?_⟩
    rcases p3.2 with h | ⟨_, rfl, h⟩
    · exact Or.inr (Or.inl h)
    · exact Or.inr (Or.inr h)

/-! ## destroy-rotated under any fault -/

/-- outcome of `destroyRotatedKeyByIndex(<f>, i)` under any fault: nothing happened, or exactly the
history file listed as `i` is gone -/
def DAtomic (fs0 fs : FS) (f : FileId) (i : Nat) : Prop :=
  fs = fs0 ∨ ∃ t c, (fs0.old f)[i - Generated.KeyNames.v1DestroyIndexOffset]? = some (t, c) ∧
    fs = { fs0 with old := upd fs0.old f ((fs0.old f).filter (·.1 ≠ t)) }

inductive DStage (fs0 : FS) (f : FileId) (i : Nat) : List Call → FS → Prop
  | a : DStage fs0 f i [.readDirOld f] fs0
  | b (t : Nat) (c : Content) : (fs0.old f)[i - Generated.KeyNames.v1DestroyIndexOffset]? = some (t, c) →
      DStage fs0 f i [.readDirOld f, .removeOld f t] fs0
  | c (t : Nat) (c : Content) : (fs0.old f)[i - Generated.KeyNames.v1DestroyIndexOffset]? = some (t, c) →
      DStage fs0 f i [.removeOld f t] fs0
  | d (fs : FS) : DAtomic fs0 fs f i → DStage fs0 f i [] fs

theorem drot_fault (ft : Fault) (x : X1) (f : FileId) (i : Nat) (fuel : Nat) :
    DAtomic x.st.fs (X1.exec ft fuel x (drotFileCalls x.st.fs f i).1).st.fs f i := by
  apply X1.exec_inv ft (DStage x.st.fs f i) (fun fs => DAtomic x.st.fs fs f i)
  · intro cs fs h
    cases h with
    | a => exact Or.inl rfl
    | b t c _ => exact Or.inl rfl
    | c t c _ => exact Or.inl rfl
    | d fs h => exact h
  · intro c cs fs fs' h ha
    cases h with
    | a =>
      simp only [applyCall] at ha
      split at ha
      · cases ha; exact .d _ (Or.inl rfl)
      · cases ha
    | b t c ht =>
      simp only [applyCall] at ha
      split at ha
      · cases ha; exact .c t c ht
      · cases ha
    | c t c ht =>
      simp only [applyCall, Option.some.injEq] at ha
      subst ha
      exact .d _ (Or.inr ⟨t, c, ht, rfl⟩)
  · intro f' cs fs h; cases h
  · intro f' cs fs h; cases h
  · intro id f' g cs fs fs' h; cases h
  · unfold drotFileCalls
    split
    · exact .a
    · split
      · exact .a
      · split
        · rename_i t c ht; exact .b t c ht
        · exact .a

theorem X1.drotFile_atomic (ft : Fault) (x : X1) (f : FileId) (i : Nat) :
    DAtomic x.st.fs (X1.drotFile ft x f i).st.fs f i := by
  unfold X1.drotFile
  split
  · exact Or.inl rfl
  · have h := drot_fault ft x f i (2 * (drotFileCalls x.st.fs f i).1.length + 8)
    dsimp only
    unfold X1.run
    split
    · exact h
    · split
      · rw [X1.refresh_fs]; exact h
      · exact h

/-- **destroy-rotated of a single-file key under any fault** (any state, any cache) -/
theorem V1.stepF_drot_atomic (st : V1) (ft : Fault) (s : Slot) (i : Nat) (hp : s.kind.isPair = false) :
    DAtomic st.fs (st.stepF ft (.drot s i)).1.fs (privFile s) i := by
  simp only [V1.stepF]
  split
  · exact Or.inl rfl
  · simp only [hp, Bool.false_eq_true, if_false]
    exact X1.drotFile_atomic ft ⟨st, [], 0, .ok, false⟩ (privFile s) i

/-- **destroy-rotated on an existing ring under any fault**: every other ring is untouched; the ring
is what it was, or exactly the listed key is destroyed. -/
theorem V2.stepF_drot_atomic (st : V2) (ft : Fault) (s : Slot) (i : Nat) (r : Ring) (hr : st.rings s = some r) :
    (∀ s', s' ≠ s → (st.stepF ft (.drot s i)).1.rings s' = st.rings s') ∧
    ((st.stepF ft (.drot s i)).1.rings s = some r ∨
     ∃ act q, r.rotatedActive = some act ∧ act[i - Generated.KeyNames.v2DestroyIndexOffset]? = some q ∧
       (st.stepF ft (.drot s i)).1.rings s = some (r.destroyed q)) := by
  simp only [V2.stepF]
  split
  · exact ⟨fun _ _ => rfl, Or.inl hr⟩
  · have p1 := X2.phase_atomic ft ⟨st, [], 0, .ok, false⟩ s
      (fun r => match r with | some _ => some none | none => some (some Ring.empty))
    simp only [hr] at p1
    have e1 : (X2.openRW ft ⟨st, [], 0, .ok, false⟩ s).st.rings s = some r := by
      rcases p1.2 with h | ⟨r', h, _⟩
      · exact h
      · cases h
    have o1 := p1.1
    change ∀ s', s' ≠ s → (X2.openRW ft ⟨st, [], 0, .ok, false⟩ s).st.rings s' = st.rings s' at o1
    generalize X2.openRW ft ⟨st, [], 0, .ok, false⟩ s = x1 at e1 o1 ⊢
    split
    · exact ⟨o1, Or.inl e1⟩
    · simp only [e1, Option.getD_some]
      cases hact : r.rotatedActive with
      | none => exact ⟨o1, Or.inl e1⟩
      | some act =>
        simp only
        split
        · exact ⟨o1, Or.inl e1⟩
        · cases hq : act[i - Generated.KeyNames.v2DestroyIndexOffset]? with
          | none => exact ⟨o1, Or.inl e1⟩
          | some q =>
            simp only [Option.bind_some]
            cases hk : r.find q with
            | none => exact ⟨o1, Or.inl e1⟩
            | some k =>
              simp only
              split
              · exact ⟨o1, Or.inl e1⟩
              · have hseq : k.seq = q := by simpa using List.find?_some hk
                rw [hseq]
                have p2 := X2.phase_atomic ft x1 s (writeCompute [.destroyData q k.data, .changeState q k.state .destroyed])
                change (∀ s', s' ≠ s → (x1.write ft s _).st.rings s' = _) ∧
                  ((x1.write ft s _).st.rings s = _ ∨ ∃ r', _ ∧ (x1.write ft s _).st.rings s = some r') at p2
                rw [e1] at p2
                simp only [writeCompute, Ring.destroy_txs r q k hk, Option.map_some, Option.some.injEq] at p2
                refine ⟨fun s' hs' => by rw [p2.1 s' hs', o1 s' hs'], ?_⟩
                rcases p2.2 with h | ⟨_, rfl, h⟩
                · exact Or.inl h
                · exact Or.inr ⟨act, q, rfl, hq, h⟩

/-! ## what the readers see afterwards -/

/-- the observation of "read current key" on a store without cache, as a function of the storage -/
def curObs (fs : FS) (s : Slot) : Obs :=
  if s.kind = .pp then
    (match (fs.cur (privFile s)).bind Content.decrypt, fs.cur (pubFile s) with
      | some g, some pc => .pair g pc.raw
      | _, _ => .err)
  else match (fs.cur (privFile s)).bind Content.decrypt with
    | some g => .key g
    | none => .err

theorem V1.cur_after_reopen (st : V1) (s : Slot) : (st.clear.step (.cur s)).2 = curObs st.fs s := by
  rw [(V1.step_coh st.clear (.cur s) (V1.Coh.clear st) rfl).2]
  show (V1.step ⟨st.fs, none, st.count⟩ (.cur s)).2 = _
  have hn : (⟨st.fs, none, st.count⟩ : V1).cache = none := rfl
  simp only [V1.step, curObs]
  cases hk : s.kind <;> simp only [V1.readKey_nocache _ _ _ _ hn, V1.poisonPair_nocache _ _ hn, FS.readName]
  case pp =>
    cases (st.fs.cur (privFile s)).bind Content.decrypt <;> cases st.fs.cur (pubFile s) <;> simp
  all_goals cases (st.fs.cur (privFile s)).bind Content.decrypt <;> simp

theorem ring_material_append (r : Ring) (k : Key2) (cur : Option Nat) (q : Nat) (g : Nat)
    (h : r.material q = some g) : Ring.material ⟨r.keys ++ [k], cur⟩ q = some g := by
  unfold Ring.material Ring.find at h ⊢
  cases hf : r.keys.find? (·.seq = q) with
  | none => simp [hf] at h
  | some k0 =>
    simp only [List.find?_append, hf, Option.some_or]
    simpa [hf] using h

/-- after a faulted rotation of an existing ring every readable key reads the same and the current
key is the old or the new generation -/
theorem gen_outcomes_read {r r' : Ring} {n : Nat} (hok : RingOK r n) (hn : n ≠ 0)
    (h : r' = r ∨ r' = ⟨r.keys ++ [⟨n + 1, .preActive, some (n + 1)⟩], r.current⟩ ∨ r' = r.added n) :
    (∀ q g, r.material q = some g → r'.material q = some g) ∧
    (r'.current.bind r'.material = some n ∨ r'.current.bind r'.material = some (n + 1)) := by
  have hcur := hok.material_current
  simp only [hn, if_false] at hcur
  rcases h with rfl | rfl | rfl
  · exact ⟨fun _ _ h => h, Or.inl hcur⟩
  · refine ⟨fun q g h => ring_material_append r _ _ q g h, Or.inl ?_⟩
    simp only [hok.cur, hn, if_false, Option.bind_some] at hcur ⊢
    exact ring_material_append r _ _ n n hcur
  · refine ⟨fun q g h => ring_material_append r _ _ q g h, Or.inr ?_⟩
    have := hok.added.material_current
    simpa using this

/-- reading the current key of any slot after a faulted rotation of the single-file key `s` and a reopen -/
theorem V1.stepF_gen_reads (st : V1) (ft : Fault) (s s' : Slot) (hp : s.kind.isPair = false) :
    ((st.stepF ft (.gen s)).1.clear.step (.cur s')).2 = (st.clear.step (.cur s')).2 ∨
    (s' = s ∧ ((st.stepF ft (.gen s)).1.clear.step (.cur s')).2 = .key (st.count s + 1)) := by
  have hw := V1.stepF_gen_atomic st ft s hp
  rw [V1.cur_after_reopen, V1.cur_after_reopen]
  by_cases hs : s' = s
  · subst hs
    have hk : s'.kind ≠ .pp := by intro e; simp [e, Kind.isPair] at hp
    rcases hw.target with ht | ⟨ht, _⟩
    · left; simp only [curObs, hk, if_false, ht]
    · right; exact ⟨rfl, by simp [curObs, hk, ht, Content.decrypt]⟩
  · left
    have h1 := (hw.others (privFile s') (by simp [privFile, hs])).1
    have h2 := (hw.others (pubFile s') (by simp [privFile, pubFile])).1
    simp only [curObs, h1, h2]

end AcraModel.Keystore
