import AcraModel.Basic.Bytes
import AcraModel.Keystore.V1Cache
import AcraModel.Keystore.Calls
import AcraModel.Generated.KeystoreSys
/-!
# C08: the two storage primitives at system-call level

The call-level models (`Calls.lean`) treat a back-end / storage call that returns an error as *not performed*
and a call that returns `nil` as *completely performed*. For two calls that is a claim about code of Acra, not
about the operating system:

* `DirectoryBackend.Put` (`keystore/v2/keystore/filesystem/backend/filesystem.go`) creates the file and THEN
  writes, syncs and closes it; when one of these fails it must remove what it created – otherwise the
  exclusive create (`O_EXCL`) refuses every later write of that key ring.
* `FileStorage.Copy` (`keystore/filesystem/storage.go`; what the v1 key store falls back to when it cannot
  hard-link the current key file into the history) creates the destination and then copies; it must not
  report success unless the whole source arrived.

Both are modelled here line by line over a map path ↦ bytes with a fault at every system call
(`write(2)` may store any prefix before it fails). What the models take from the source – which expression
the clean-up hands to `os.Remove`, where the clean-up is armed and disarmed, whether the error of each call
is tested before `err` is assigned again – is read from `Generated/KeystoreSys.lean`.
-/
namespace AcraModel.Keystore.Sys
open AcraModel AcraModel.Keystore

abbrev Path := String

/-- regular files of the part of the file system the key store works in: path ↦ content -/
abbrev Disk := Path → Option Bytes

inductive Res | ok | err
deriving DecidableEq, Repr

/-! ## `DirectoryBackend.Put` -/

/-- The values of the path variables of `Put`: `path` is the key path the caller passed – handed to the
operating system it is resolved against the working directory –, `fullPath = osPath(path)` lies under the
key store's root. (`directory` names no regular file.) -/
structure PutEnv where
  path : Path
  fullPath : Path

/-- the file a path expression of `Put` denotes (`none`: not a regular file the model tracks) -/
def PutEnv.eval (e : PutEnv) (var : String) : Option Path :=
  if var = "fullPath" then some e.fullPath else if var = "path" then some e.path else none

/-- what the model reads from the source of `Put` -/
structure PutCode where
  /-- expression handed to `os.OpenFile` -/
  openArg : String
  /-- expression handed to `os.Remove` in the clean-up closure (`none`: it removes nothing) -/
  removeArg : Option String
  /-- number of error-returning calls before the `defer` of the clean-up -/
  deferAt : Nat
  /-- number of error-returning calls before `file = nil` -/
  disarmAt : Nat

/-- `Put` as it is in the source -/
def putCode : PutCode :=
  { openArg := ((Generated.KeystoreSys.putCalls.find? (·.1 = "os.OpenFile")).map (·.2.1)).getD ""
    removeArg := (Generated.KeystoreSys.putCleanupCalls.find? (·.1 = "os.Remove")).map (·.2)
    deferAt := Generated.KeystoreSys.putDeferAt
    disarmAt := Generated.KeystoreSys.putDisarmAt }

/-- Faults of one run of `Put`: every call may fail. `write = some n`: `write(2)` fails after `n` bytes have
reached the file (`n = 0`: at once; `n ≥ |data|`: the error is reported after everything was stored).
`remove`: the clean-up's own `os.Remove` fails. -/
structure PutFaults where
  ospath : Bool := false
  mkdir : Bool := false
  openFile : Bool := false
  write : Option Nat := none
  sync : Bool := false
  close : Bool := false
  remove : Bool := false

def PutFaults.none : PutFaults := {}

/-- The deferred closure when `Put` returns with an error from call number `i` (0 `osPath`, 1 `MkdirAll`,
2 `OpenFile`, 3 `Write`, 4 `Sync`, 5 `Close`): it does something only when it was registered before the call,
`file` is set (the `OpenFile` succeeded: `i > 2`) and not yet reset. Then: `file.Close()`, `os.Remove(<removeArg>)`. -/
def putCleanup (c : PutCode) (e : PutEnv) (f : PutFaults) (i : Nat) (d : Disk) : Disk :=
  if 2 < i ∧ c.deferAt ≤ i ∧ i < c.disarmAt then
    match c.removeArg.bind e.eval with
    | some p => if f.remove then d else upd d p none
    | none => d
  else d

/-- `Put(path, data)`: the files afterwards and what it returned -/
def putWith (c : PutCode) (e : PutEnv) (f : PutFaults) (d : Disk) (data : Bytes) : Disk × Res :=
  if f.ospath then (d, .err) else
  if f.mkdir then (putCleanup c e f 1 d, .err) else
  match e.eval c.openArg with
  | none => (d, .err)
  | some p =>
  -- os.OpenFile(p, O_CREATE|O_EXCL|O_WRONLY): fails when something is there already
  if f.openFile ∨ (d p).isSome then (putCleanup c e f 2 d, .err) else
  let d1 := upd d p (some [])
  match f.write with
  | some n => (putCleanup c e f 3 (upd d1 p (some (data.take n))), .err)
  | none =>
  let d2 := upd d1 p (some data)
  if f.sync then (putCleanup c e f 4 d2, .err) else
  if f.close then (putCleanup c e f 5 d2, .err) else
  (d2, .ok)

/-- `Put` of the source -/
def put (e : PutEnv) (f : PutFaults) (d : Disk) (data : Bytes) : Disk × Res := putWith putCode e f d data

/-- The process dies inside `Put` after `stage` calls have completed (2: before `OpenFile`, 3: the empty file
exists, 4: inside/after `Write` with `n` bytes stored, …): no clean-up runs. -/
def putCrash (e : PutEnv) (stage n : Nat) (d : Disk) (data : Bytes) : Disk :=
  if stage < 3 ∨ (d e.fullPath).isSome then d
  else if stage = 3 then upd d e.fullPath (some [])
  else upd d e.fullPath (some (data.take n))

/-! ## `FileStorage.Copy` -/

/-- what the model reads from the source of `Copy` -/
structure CopyCode where
  /-- the error of `io.Copy` is tested (or returned) before `err` is assigned again -/
  copyKept : Bool
  /-- the same for `dstFile.Sync` -/
  syncKept : Bool
  /-- the deferred closure can change the returned error (named result): a failing `Close` is reported -/
  closeReported : Bool
  /-- the deferred closure removes the destination when `Copy` fails -/
  removesDst : Bool

def keptOf (tbl : List (String × String × Bool)) (callee : String) : Bool :=
  ((tbl.find? (·.1 = callee)).map (·.2.2)).getD false

/-- `Copy` as it is in the source -/
def copyCode : CopyCode :=
  { copyKept := keptOf Generated.KeystoreSys.copyCalls "io.Copy"
    syncKept := keptOf Generated.KeystoreSys.copyCalls "dstFile.Sync"
    closeReported := Generated.KeystoreSys.copyNamedResult
    removesDst := Generated.KeystoreSys.copyRemovesDstOnError }

structure CopyFaults where
  openSrc : Bool := false
  stat : Bool := false
  openDst : Bool := false
  /-- `io.Copy` fails after `n` bytes reached the destination -/
  copy : Option Nat := none
  sync : Bool := false
  close : Bool := false
  remove : Bool := false

def CopyFaults.none : CopyFaults := {}

/-- does `Copy` return an error once the destination exists: an error that is not kept is overwritten by the
next assignment to `err` and forgotten -/
def copyFailed (c : CopyCode) (f : CopyFaults) : Bool :=
  (f.copy.isSome && c.copyKept) || (f.sync && c.syncKept) || (f.close && c.closeReported)

/-- what `io.Copy` leaves at the destination -/
def copyDst (f : CopyFaults) (s : Bytes) : Bytes :=
  match f.copy with
  | some n => s.take n
  | none => s

/-- `Copy(src, dst)`. The errors of `os.Open`, `Stat` and `os.OpenFile` return at once (pinned by
`fact_copy_error_flow`); from then on the closure that closes the destination runs at every return. -/
def copyWith (c : CopyCode) (f : CopyFaults) (d : Disk) (src dst : Path) : Disk × Res :=
  match d src with
  | none => (d, .err)
  | some s =>
  if f.openSrc ∨ f.stat then (d, .err) else
  -- os.OpenFile(dst, O_WRONLY|O_CREATE|O_EXCL)
  if f.openDst ∨ (d dst).isSome then (d, .err) else
  let d2 : Disk := upd d dst (some (copyDst f s))
  if copyFailed c f then ((if c.removesDst ∧ ¬ f.remove then upd d2 dst none else d2), .err) else (d2, .ok)

def copy (f : CopyFaults) (d : Disk) (src dst : Path) : Disk × Res := copyWith copyCode f d src dst

/-! ## `WriteKeyFile` with `backupHistoricalKeyFile` over the same file map -/

/-- the three names a rotation works with: the key file, the temporary next to it, the new history name -/
structure WkfEnv where
  file : Path
  tmp : Path
  backup : Path

structure WkfFaults where
  mkdir : Bool := false
  tempFile : Bool := false
  /-- `WriteFile(tmp)` fails after `n` bytes -/
  writeFile : Option Nat := none
  /-- `Stat` fails with something else than "does not exist" (the backup is attempted) -/
  statErr : Bool := false
  mkdirOld : Bool := false
  /-- `Link` fails: the storage has no hard links, or an I/O error -/
  link : Bool := false
  copy : CopyFaults := {}
  rename : Bool := false

/-- `backupHistoricalKeyFile(file)` -/
def backupWith (c : CopyCode) (e : WkfEnv) (f : WkfFaults) (d : Disk) : Disk × Res :=
  if (d e.file).isNone ∧ ¬ f.statErr then (d, .ok)       -- os.IsNotExist: nothing to back up
  else if f.mkdirOld then (d, .err)
  else if ¬ f.link ∧ (d e.file).isSome ∧ (d e.backup).isNone then (upd d e.backup (d e.file), .ok)   -- hard link
  else copyWith c f.copy d e.file e.backup

/-- `WriteKeyFile(file, data)` -/
def writeKeyFileWith (c : CopyCode) (e : WkfEnv) (f : WkfFaults) (d : Disk) (data : Bytes) : Disk × Res :=
  if f.mkdir ∨ f.tempFile then (d, .err) else
  let d1 := upd d e.tmp (some [])
  match f.writeFile with
  | some n => (upd d1 e.tmp (some (data.take n)), .err)
  | none =>
  let d2 := upd d1 e.tmp (some data)
  match backupWith c e f d2 with
  | (d3, .err) => (d3, .err)
  | (d3, .ok) =>
  if f.rename then (d3, .err) else
  (upd (upd d3 e.file (some data)) e.tmp none, .ok)

/-! ## what a history entry made by `Copy` looks like to the call-level model -/

/-- how much of the source a finished `Copy` left at the destination -/
inductive Arrived | nothing | emptyFile | part | all
deriving DecidableEq, Repr

def arrived (src : Bytes) : Option Bytes → Arrived
  | none => .nothing
  | some b => if b = src then .all else if b = [] then .emptyFile else .part

/-- the call-level content of such an entry when the source held `c0` -/
def Arrived.content (c0 : Content) : Arrived → Option Content
  | .nothing => none
  | .emptyFile => some .empty
  | .all => some c0
  | .part => some (match c0 with | .full g => .torn g | .torn g => .torn g | .empty => .empty)

/-- `Copy` of a key file of `len` bytes when `write(2)` fails once `n` bytes are stored (`none`, or a limit
the file fits under: no failure) -/
def copyOutcome (c : CopyCode) (len : Nat) (limit : Option Nat) : Arrived × Res :=
  let s : Bytes := List.replicate len 0
  let d0 : Disk := fun p => if p = "src" then some s else none
  let flt : CopyFaults := { copy := limit.bind fun n => if n < len then some n else none }
  let r := copyWith c flt d0 "src" "dst"
  (arrived s (r.1 "dst"), r.2)

/-- Generate / rotate of a single-file key (symmetric, HMAC, audit log) of a v1 key store WITHOUT a cache on a
storage WITHOUT hard links, the history copy hitting a file size limit: state, storage calls, outcome.
The calls are those of `writeKeyFileCalls`; `Link` fails, `Copy` runs at system-call level (`copyOutcome`). -/
def V1.genNoLink (c : CopyCode) (st : V1) (s : Slot) (len : Nat) (limit : Option Nat) : V1 × List Call × Outcome :=
  let g := st.count s + 1
  let f := privFile s
  let st0 : V1 := { st with count := upd st.count s g }
  let fs := st0.fs
  let pre : List Call := [.mkdirAll f, .tempFile f, .writeFile fs.nextTmp f (.full g), .stat f]
  match fs.cur f with
  | none =>
    let r := applyAll fs (pre ++ [.rename fs.nextTmp f])
    ({ st0 with fs := r.1 }, pre ++ [.rename fs.nextTmp f], if r.2 then .ok else .err)
  | some c0 =>
    let fs1 := (applyAll fs (pre ++ [.mkdirOld f])).1
    let (a, r) := copyOutcome c len limit
    let fs2 : FS := match a.content c0 with
      | some e => { fs1 with old := upd fs1.old f (fs1.old f ++ [(fs1.clock, e)]), clock := fs1.clock + 1 }
      | none => fs1
    let tr := pre ++ [.mkdirOld f, .link f, .copy f]
    match r with
    | .err => ({ st0 with fs := fs2 }, tr, .err)
    | .ok =>
      let r3 := applyAll fs2 [.rename fs.nextTmp f]
      ({ st0 with fs := r3.1 }, tr ++ [.rename fs.nextTmp f], if r3.2 then .ok else .err)

end AcraModel.Keystore.Sys
