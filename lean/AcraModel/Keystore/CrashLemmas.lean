import AcraModel.Keystore.Calls
/-! Helper lemmas for C08: which storage calls can change a current key file or shrink a history. -/
namespace AcraModel.Keystore

/-- calls that never touch a current file -/
def Call.keepsCur : Call → Bool
  | .rename _ _ | .remove _ => false
  | _ => true

/-- calls that never remove a history file -/
def Call.keepsOld : Call → Bool
  | .removeOld _ _ => false
  | _ => true

theorem applyCall_keepsCur {fs fs' : FS} {c : Call} (hc : c.keepsCur = true) (h : applyCall fs c = some fs') :
    fs'.cur = fs.cur := by
  cases c <;> simp [Call.keepsCur] at hc <;> simp [applyCall] at h
  all_goals (try (subst h; rfl))
  all_goals (try (split at h <;> simp at h <;> (try (subst h; rfl))))
  all_goals (obtain ⟨_, h⟩ := h; subst h; rfl)

theorem applyCall_keepsOld {fs fs' : FS} {c : Call} (hc : c.keepsOld = true) (h : applyCall fs c = some fs') (f' : FileId) :
    ∃ l, fs'.old f' = fs.old f' ++ l := by
  have grow : ∀ (f : FileId) (c0 : Content), ∃ l, upd fs.old f (fs.old f ++ [(fs.clock, c0)]) f' = fs.old f' ++ l := by
    intro f c0
    by_cases hf : f' = f
    · subst hf; exact ⟨[(fs.clock, c0)], by simp⟩
    · exact ⟨[], by simp [upd, hf]⟩
  cases c with
  | removeOld f t => simp [Call.keepsOld] at hc
  | link f =>
    simp only [applyCall] at h
    split at h
    · split at h
      · cases h; exact grow f _
      · cases h
    · cases h
  | copy f =>
    simp only [applyCall] at h
    split at h
    · split at h
      · cases h; exact grow f _
      · cases h
    · cases h
  | writeFile id f c0 =>
    simp only [applyCall] at h
    split at h
    · cases h; exact ⟨[], by simp⟩
    · cases h
  | rename id f =>
    simp only [applyCall] at h
    split at h
    · cases h; exact ⟨[], by simp⟩
    · cases h
  | readDirOld f =>
    simp only [applyCall] at h
    split at h
    · cases h; exact ⟨[], by simp⟩
    · cases h
  | mkdirAll f => simp only [applyCall] at h; cases h; exact ⟨[], by simp⟩
  | tempFile f => simp only [applyCall] at h; cases h; exact ⟨[], by simp⟩
  | stat f => simp only [applyCall] at h; cases h; exact ⟨[], by simp⟩
  | mkdirOld f => simp only [applyCall] at h; cases h; exact ⟨[], by simp⟩
  | remove f => simp only [applyCall] at h; cases h; exact ⟨[], by simp⟩
  | readDirHist f => simp only [applyCall] at h; cases h; exact ⟨[], by simp⟩

theorem applyAll_keeps (fs : FS) (cs : List Call) (h1 : ∀ c ∈ cs, c.keepsCur = true) (h2 : ∀ c ∈ cs, c.keepsOld = true) :
    (applyAll fs cs).1.cur = fs.cur ∧ ∀ f', ∃ l, (applyAll fs cs).1.old f' = fs.old f' ++ l := by
  induction cs generalizing fs with
  | nil => exact ⟨rfl, fun _ => ⟨[], by simp [applyAll]⟩⟩
  | cons c cs ih =>
    simp only [applyAll]
    cases hc : applyCall fs c with
    | none => exact ⟨rfl, fun _ => ⟨[], by simp⟩⟩
    | some fs' =>
      have hcur := applyCall_keepsCur (h1 c (by simp)) hc
      have ih' := ih fs' (fun c' hc' => h1 c' (by simp [hc'])) (fun c' hc' => h2 c' (by simp [hc']))
      refine ⟨by simpa [hcur] using ih'.1, fun f' => ?_⟩
      obtain ⟨l1, hl1⟩ := applyCall_keepsOld (h2 c (by simp)) hc f'
      obtain ⟨l2, hl2⟩ := ih'.2 f'
      exact ⟨l1 ++ l2, by simp [hl2, hl1]⟩

/-- `WriteKeyFile` is a list of calls none of which touches a current file or removes a history file,
followed by one `Rename` of the temporary over the target. -/
theorem writeKeyFileCalls_shape (fs : FS) (f : FileId) (c : Content) :
    ∃ pre, writeKeyFileCalls fs f c = pre ++ [.rename fs.nextTmp f] ∧
      (∀ x ∈ pre, x.keepsCur = true) ∧ (∀ x ∈ pre, x.keepsOld = true) := by
  unfold writeKeyFileCalls
  cases h : (fs.cur f).isSome
  · exact ⟨[.mkdirAll f, .tempFile f, .writeFile fs.nextTmp f c, .stat f], by simp, by simp [Call.keepsCur], by simp [Call.keepsOld]⟩
  · exact ⟨[.mkdirAll f, .tempFile f, .writeFile fs.nextTmp f c, .stat f, .mkdirOld f, .link f], by simp, by simp [Call.keepsCur], by simp [Call.keepsOld]⟩

theorem tmps_fresh_filter_map (n : Nat) (c : Content) (l : List (Nat × FileId × Content)) (h : ∀ t ∈ l, t.1 ≠ n) :
    List.filter (fun x => !decide (x.fst = n)) (List.map (fun t => if t.fst = n then (t.fst, t.snd.fst, c) else t) l) = l := by
  induction l with
  | nil => rfl
  | cons t ts ih =>
    have ht : t.1 ≠ n := h t (by simp)
    have ih' := ih (fun t' ht' => h t' (by simp [ht']))
    simp [ht, ih']

/-- temporary-file ids are handed out from a counter: no existing temporary carries the next id -/
def FS.TmpFresh (fs : FS) : Prop := ∀ t ∈ fs.tmps, t.1 ≠ fs.nextTmp

/-- A completed `WriteKeyFile` installs exactly the new content in the target, leaves every other
current file alone and leaves no temporary file behind. -/
theorem writeKeyFile_complete (fs : FS) (f : FileId) (c : Content) (hf : fs.TmpFresh) :
    (applyAll fs (writeKeyFileCalls fs f c)).2 = true ∧
    (applyAll fs (writeKeyFileCalls fs f c)).1.cur = upd fs.cur f (some c) ∧
    (applyAll fs (writeKeyFileCalls fs f c)).1.tmps = fs.tmps := by
  unfold writeKeyFileCalls
  cases h : fs.cur f with
  | none =>
    simp [h, applyAll, applyCall, FS.tmpContent]
    exact tmps_fresh_filter_map _ _ _ hf
  | some c0 =>
    simp [h, applyAll, applyCall, FS.tmpContent]
    exact tmps_fresh_filter_map _ _ _ hf

end AcraModel.Keystore

namespace AcraModel.Keystore

/-! ## v2: a locked phase changes at most its own ring, and only by installing the computed ring -/

theorem X2.call_st (ft : Fault) (x : X2) (c : BCall) (eff : V2 → V2) :
    (x.call ft c eff).1.st = x.st ∨ (x.call ft c eff).1.st = eff x.st := by
  unfold X2.call
  simp only
  split <;> (try simp)
  split <;> simp

theorem X2.call_id_st (ft : Fault) (x : X2) (c : BCall) : (x.call ft c id).1.st = x.st := by
  rcases X2.call_st ft x c id with h | h <;> simpa using h

theorem X2.unlockFail_st (ft : Fault) (x : X2) : (x.unlockFail ft).st = x.st := by
  unfold X2.unlockFail
  have h := X2.call_id_st ft x .unlock
  split <;> simp_all

/-- Invariant transfer for one phase: any property of the back end that is preserved by creating the
temporary and by renaming it over the ring with *the computed content* holds after the phase,
whatever the fault. -/
theorem X2.phase_inv (ft : Fault) (x : X2) (s : Slot) (compute : Option Ring → Option (Option Ring))
    (P : V2 → Prop) (h0 : P x.st)
    (hput : ∀ st, P st → P { st with newTmp := upd st.newTmp s true })
    (hren : ∀ st r, compute (x.st.rings s) = some (some r) → P st →
      P { st with rings := upd st.rings s (some r), newTmp := upd st.newTmp s false }) :
    P (x.phase ft s compute).st := by
  unfold X2.phase
  split
  · exact h0
  · have e1 := X2.call_id_st ft x .lock
    generalize x.call ft .lock id = p1 at e1
    obtain ⟨x1, o1⟩ := p1
    simp only at e1
    match o1 with
    | none => simpa [e1] using h0
    | some false => simpa [e1] using h0
    | some true =>
      simp only
      have e2 := X2.call_id_st ft x1 (.get s)
      generalize x1.call ft (.get s) id = p2 at e2
      obtain ⟨x2, o2⟩ := p2
      simp only at e2
      have e2' : x2.st = x.st := by rw [e2, e1]
      match o2 with
      | none => simpa [e2'] using h0
      | some false => simpa [X2.unlockFail_st, e2'] using h0
      | some true =>
        simp only
        rw [e2']
        cases hcomp : compute (x.st.rings s) with
        | none => simpa [X2.unlockFail_st, e2'] using h0
        | some w =>
          cases w with
          | none =>
            simp only
            have e3 := X2.call_id_st ft x2 .unlock
            generalize x2.call ft .unlock id = p3 at e3
            obtain ⟨x3, o3⟩ := p3
            simp only at e3
            have : x3.st = x.st := by rw [e3, e2']
            match o3 with
            | none => simpa [this] using h0
            | some false => simpa [this] using h0
            | some true => simpa [this] using h0
          | some r =>
            simp only
            split
            · -- leftover temporary: Put fails
              have e3 := X2.call_id_st ft x2 (.putNew s)
              generalize x2.call ft (.putNew s) id = p3 at e3
              obtain ⟨x3, o3⟩ := p3
              simp only at e3
              have : x3.st = x.st := by rw [e3, e2']
              match o3 with
              | none => simpa [this] using h0
              | some b => simpa [X2.unlockFail_st, this] using h0
            · have e3 := X2.call_st ft x2 (.putNew s) (fun st => { st with newTmp := upd st.newTmp s true })
              generalize x2.call ft (.putNew s) (fun st => { st with newTmp := upd st.newTmp s true }) = p3 at e3
              obtain ⟨x3, o3⟩ := p3
              simp only at e3
              have h3 : P x3.st := by
                rcases e3 with e | e
                · rw [e, e2']; exact h0
                · rw [e]; exact hput _ (by rw [e2']; exact h0)
              match o3 with
              | none => exact h3
              | some false => simpa [X2.unlockFail_st] using h3
              | some true =>
                simp only
                have e4 := X2.call_st ft x3 (.renameNew s) (fun st => { st with rings := upd st.rings s (some r), newTmp := upd st.newTmp s false })
                generalize x3.call ft (.renameNew s) (fun st => { st with rings := upd st.rings s (some r), newTmp := upd st.newTmp s false }) = p4 at e4
                obtain ⟨x4, o4⟩ := p4
                simp only at e4
                have h4 : P x4.st := by
                  rcases e4 with e | e
                  · rw [e]; exact h3
                  · rw [e]; exact hren _ r hcomp h3
                match o4 with
                | none => exact h4
                | some false => simpa [X2.unlockFail_st] using h4
                | some true =>
                  simp only
                  have e5 := X2.call_id_st ft x4 .unlock
                  generalize x4.call ft .unlock id = p5 at e5
                  obtain ⟨x5, o5⟩ := p5
                  simp only at e5
                  match o5 with
                  | none => simpa [e5] using h4
                  | some false => simpa [e5] using h4
                  | some true => simpa [e5] using h4

end AcraModel.Keystore
