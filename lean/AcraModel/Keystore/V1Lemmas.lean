import AcraModel.Keystore.V1Cache
/-! Helper lemmas about the v1 filesystem model: destroying a rotated key by its listed index (used by `Props/C06`). -/
namespace AcraModel.Keystore

theorem filter_ne_eq_eraseIdx (l : List (Nat × Content)) (j : Nat) (t : Nat) (c : Content)
    (hd : l.Pairwise (fun a b => a.1 ≠ b.1)) (hj : l[j]? = some (t, c)) :
    l.filter (fun e => decide (e.1 ≠ t)) = l.eraseIdx j := by
  induction l generalizing j with
  | nil => simp at hj
  | cons x xs ih =>
    rw [List.pairwise_cons] at hd
    cases j with
    | zero =>
      have hx : x = (t, c) := by simpa using hj
      subst hx
      have hrest : xs.filter (fun e => decide (e.1 ≠ t)) = xs := by
        apply List.filter_eq_self.2
        intro e he
        have h := hd.1 e he
        simp only [ne_eq, decide_eq_true_eq]
        exact fun h' => h h'.symm
      rw [List.filter_cons]
      simp only [ne_eq, not_true_eq_false, decide_false, Bool.false_eq_true, if_false, List.eraseIdx_cons_zero]
      exact hrest
    | succ j =>
      have hj' : xs[j]? = some (t, c) := by simpa using hj
      have hx : x.1 ≠ t := by
        have hmem : (t, c) ∈ xs := List.mem_of_getElem? hj'
        exact hd.1 _ hmem
      rw [List.filter_cons]
      simp only [hx, ne_eq, not_false_eq_true, decide_true, if_true, List.eraseIdx_cons_succ]
      rw [← ih j hd.2 hj']

/-- history file names (times) of a key file are pairwise distinct -/
def FS.OldDistinct (fs : FS) (f : FileId) : Prop := (fs.old f).Pairwise (fun a b => a.1 ≠ b.1)

/-- v1 `destroyRotatedKeyByIndex` on one file: for an index the listing shows (`2 ≤ i ≤ len+1`) the
history afterwards is the history before without entry `i-2` – the one `ListRotatedKeys` numbers `i` –,
no current file and no other history changes. -/
theorem v1_drotFile_exact (fs : FS) (f : FileId) (i : Nat) (hdir : fs.oldDir f = true) (h2 : 2 ≤ i)
    (hi : i ≤ (fs.old f).length + 1) (hd : fs.OldDistinct f)
    (hoff : Generated.KeyNames.v1DestroyIndexOffset = 2) :
    (drotFileCalls fs f i).2 = true ∧
    (applyAll fs (drotFileCalls fs f i).1).2 = true ∧
    (applyAll fs (drotFileCalls fs f i).1).1.old f = (fs.old f).eraseIdx (i - 2) ∧
    (applyAll fs (drotFileCalls fs f i).1).1.cur = fs.cur ∧
    ∀ f', f' ≠ f → (applyAll fs (drotFileCalls fs f i).1).1.old f' = fs.old f' := by
  have hlt : i - 2 < (fs.old f).length := by omega
  have hget : (fs.old f)[i - 2]? = some (fs.old f)[i - 2] := List.getElem?_eq_getElem hlt
  generalize (fs.old f)[i - 2] = e at hget
  obtain ⟨t, c⟩ := e
  have hcond : ¬ (i < 2 ∨ i > (fs.old f).length + 1) := by omega
  simp only [drotFileCalls, hdir, not_true_eq_false, if_false, hcond, hoff, hget]
  simp only [applyAll, applyCall, hdir, if_true]
  refine ⟨trivial, trivial, ?_, trivial, ?_⟩
  · rw [upd_same]
    exact filter_ne_eq_eraseIdx _ _ _ _ hd hget
  · intro f' hf'
    simp [upd, hf']

end AcraModel.Keystore
