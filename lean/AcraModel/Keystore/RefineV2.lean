import AcraModel.Keystore.RefineSpec
import AcraModel.Keystore.RingLemmas
/-!
# v2: the ring invariant of runs without destroy-current, readers in closed form, the abstraction
-/
namespace AcraModel.Keystore

/-- a key of a ring still offers its material -/
def Key2.alive (k : Key2) : Bool := decide (k.state ≠ .destroyed)

/-- Ring of a slot after `n` generations (no destroy-current, no activation): sequence numbers are
`1..n` in order, key `q` carries generation `q` until it is destroyed, `current` is the newest key and
the newest key is not destroyed. -/
structure RingOK (r : Ring) (n : Nat) : Prop where
  seqs : r.keys.map (·.seq) = (List.range n).map (· + 1)
  st : ∀ k ∈ r.keys, (k.state = .preActive ∧ k.data = some k.seq) ∨ (k.state = .destroyed ∧ k.data = none)
  cur : r.current = if n = 0 then none else some n
  last : ∀ k ∈ r.keys, k.seq = n → k.state = .preActive

theorem RingOK.len {r : Ring} {n : Nat} (h : RingOK r n) : r.keys.length = n := by
  have := congrArg List.length h.seqs
  simpa using this

theorem RingOK.seq_bound {r : Ring} {n : Nat} (h : RingOK r n) {k : Key2} (hk : k ∈ r.keys) : 0 < k.seq ∧ k.seq ≤ n := by
  have : k.seq ∈ r.keys.map (·.seq) := List.mem_map.2 ⟨k, hk, rfl⟩
  rw [h.seqs] at this
  obtain ⟨i, hi, hik⟩ := List.mem_map.1 this
  have := List.mem_range.1 hi
  omega

theorem RingOK.distinct {r : Ring} {n : Nat} (h : RingOK r n) : r.Distinct := by
  have := range_succ_sorted n
  rw [← h.seqs, List.pairwise_map] at this
  exact this.imp (by intro a b hab; exact Nat.ne_of_lt hab)

theorem find_seq {l : List Key2} (hd : l.Pairwise (fun a b => a.seq ≠ b.seq)) {k : Key2} (hk : k ∈ l) :
    l.find? (·.seq = k.seq) = some k := by
  induction l with
  | nil => simp at hk
  | cons x xs ih =>
    rw [List.pairwise_cons] at hd
    rcases List.mem_cons.1 hk with rfl | hk
    · simp
    · have : x.seq ≠ k.seq := hd.1 k hk
      simp [List.find?, this, ih hd.2 hk]

theorem RingOK.find_mem {r : Ring} {n : Nat} (h : RingOK r n) {k : Key2} (hk : k ∈ r.keys) : r.find k.seq = some k :=
  find_seq h.distinct hk

theorem RingOK.find_none {r : Ring} {n : Nat} (h : RingOK r n) (q : Nat) (hq : q = 0 ∨ n < q) : r.find q = none := by
  simp only [Ring.find, List.find?_eq_none, decide_eq_true_eq]
  intro k hk hkq
  have := h.seq_bound hk
  omega

/-- a non-empty ring ends with the key of generation `n`, alive -/
theorem RingOK.split {r : Ring} {n : Nat} (h : RingOK r n) (hn : n ≠ 0) :
    ∃ init last, r.keys = init ++ [last] ∧ last.seq = n ∧ last.state = .preActive ∧ last.data = some n := by
  rcases List.eq_nil_or_concat r.keys with hnil | ⟨init, last, hk⟩
  · have := h.len; rw [hnil] at this; simp at this; omega
  · rw [List.concat_eq_append] at hk
    have hs := h.seqs
    obtain ⟨m, rfl⟩ : ∃ m, n = m + 1 := ⟨n - 1, by omega⟩
    rw [hk, List.range_succ] at hs
    simp only [List.map_append, List.map_cons, List.map_nil] at hs
    have hl := (List.append_inj' hs rfl).2
    have hseq : last.seq = m + 1 := by simpa using hl
    have hmem : last ∈ r.keys := by rw [hk]; simp
    have hst := h.last last hmem hseq
    refine ⟨init, last, hk, hseq, hst, ?_⟩
    rcases h.st last hmem with ⟨_, hd⟩ | ⟨hd, _⟩
    · rw [hd, hseq]
    · rw [hst] at hd; cases hd

theorem RingOK.nextSeq {r : Ring} {n : Nat} (h : RingOK r n) : r.nextSeq = n + 1 := by
  by_cases hn : n = 0
  · subst hn
    have : r.keys = [] := List.eq_nil_of_length_eq_zero h.len
    simp [Ring.nextSeq, this]
  · obtain ⟨init, last, hk, hseq, _, _⟩ := h.split hn
    simp [Ring.nextSeq, hk, hseq]

theorem RingOK.material_current {r : Ring} {n : Nat} (h : RingOK r n) :
    r.current.bind r.material = if n = 0 then none else some n := by
  rw [h.cur]
  by_cases hn : n = 0
  · simp [hn]
  · obtain ⟨init, last, hk, hseq, hst, hd⟩ := h.split hn
    have hf : r.find n = some last := by
      rw [← hseq]; exact h.find_mem (by rw [hk]; simp)
    simp [hn, Ring.material, hf, hst, hd]

/-! ## readers in closed form -/

theorem rotatedFold (r : Ring) (ks : List Key2) (hf : ∀ k ∈ ks, r.find k.seq = some k) :
    (ks.map (·.seq)).foldr (fun q acc =>
      match r.find q, acc with
      | some k, some l => some (if k.state = .destroyed then l else q :: l)
      | _, _ => none) (some []) = some ((ks.filter Key2.alive).map (·.seq)) := by
  induction ks with
  | nil => rfl
  | cons k ks ih =>
    simp only [List.map_cons, List.foldr_cons, ih (fun k' hk' => hf k' (by simp [hk'])), hf k (by simp)]
    by_cases hd : k.state = .destroyed
    · simp [hd, Key2.alive]
    · simp [hd, Key2.alive]

theorem RingOK.rotatedActive {r : Ring} {n : Nat} (h : RingOK r n) :
    r.rotatedActive = some ((r.keys.dropLast.filter Key2.alive).map (·.seq)) := by
  unfold Ring.rotatedActive
  have hmap : (List.range (r.keys.length - 1)).map (· + 1) = r.keys.dropLast.map (·.seq) := by
    rw [h.len]
    by_cases hn : n = 0
    · subst hn
      have : r.keys = [] := List.eq_nil_of_length_eq_zero h.len
      simp [this]
    · obtain ⟨init, last, hk, _⟩ := h.split hn
      obtain ⟨m, rfl⟩ : ∃ m, n = m + 1 := ⟨n - 1, by omega⟩
      have hs := h.seqs
      rw [hk, List.range_succ] at hs
      simp only [List.map_append, List.map_cons, List.map_nil] at hs
      rw [hk, List.dropLast_concat, (List.append_inj' hs rfl).1]
      simp
  rw [hmap]
  exact rotatedFold r _ (fun k hk => h.find_mem (List.dropLast_subset _ hk))

theorem allMaterialAux (r : Ring) (ks : List Key2) (hf : ∀ k ∈ ks, r.find k.seq = some k)
    (hd : ∀ k ∈ ks, k.alive = true → k.data = some k.seq) :
    ((ks.map (·.seq)).filter fun q => (r.find q).any (·.state ≠ .destroyed)).mapM r.material =
      some ((ks.filter Key2.alive).map (·.seq)) := by
  induction ks with
  | nil => rfl
  | cons k ks ih =>
    have ih' := ih (fun k' hk' => hf k' (by simp [hk'])) (fun k' hk' => hd k' (by simp [hk']))
    have hfk := hf k (by simp)
    by_cases ha : k.alive = true
    · have hs : k.state ≠ .destroyed := by simpa [Key2.alive] using ha
      have hm : r.material k.seq = some k.seq := by simp [Ring.material, hfk, hs, hd k (by simp) ha]
      simp only [List.map_cons, List.filter_cons, hfk, Option.any_some, ne_eq, hs, not_false_eq_true, decide_true, if_true,
        List.mapM_cons, hm, ha]
      simp only [ne_eq] at ih'
      rw [ih']
      rfl
    · have hs : k.state = .destroyed := by simpa [Key2.alive] using ha
      simp only [List.map_cons, List.filter_cons, hfk, Option.any_some, ne_eq, hs, not_true_eq_false, decide_false,
        Bool.false_eq_true, if_false, ha]
      simp only [ne_eq] at ih'
      exact ih'

theorem RingOK.allMaterial {r : Ring} {n : Nat} (h : RingOK r n) :
    r.allMaterial = some ((r.keys.filter Key2.alive).map (·.seq)).reverse := by
  unfold Ring.allMaterial Ring.allSeqs
  rw [← List.map_reverse, allMaterialAux r r.keys.reverse (fun k hk => h.find_mem (List.mem_reverse.1 hk))]
  · rw [List.filter_reverse, List.map_reverse]
  · intro k hk ha
    rcases h.st k (List.mem_reverse.1 hk) with ⟨_, hd⟩ | ⟨hd, _⟩
    · exact hd
    · simp [Key2.alive, hd] at ha

/-! ## the abstraction -/

def Ring.abs (r : Ring) : SpecSlot := r.keys.map fun k => ⟨k.seq, k.alive⟩

def V2.abs (st : V2) : Spec := fun s => match st.rings s with
  | some r => r.abs
  | none => []

theorem Ring.survivors_abs (r : Ring) : r.abs.survivors = (r.keys.filter Key2.alive).map (·.seq) := by
  simp only [Ring.abs, SpecSlot.survivors, List.filter_map, List.map_map]
  rfl

theorem RingOK.survivors {r : Ring} {n : Nat} (h : RingOK r n) (hn : n ≠ 0) :
    r.abs.survivors = (r.keys.dropLast.filter Key2.alive).map (·.seq) ++ [n] := by
  obtain ⟨init, last, hk, hseq, hst, _⟩ := h.split hn
  rw [Ring.survivors_abs, hk, List.dropLast_concat]
  simp [Key2.alive, hst, hseq]

theorem RingOK.current_abs {r : Ring} {n : Nat} (h : RingOK r n) :
    r.abs.current = if n = 0 then none else some n := by
  by_cases hn : n = 0
  · have : r.keys = [] := List.eq_nil_of_length_eq_zero (hn ▸ h.len)
    simp [SpecSlot.current, Ring.survivors_abs, this, hn]
  · simp [SpecSlot.current, h.survivors hn, hn]

theorem RingOK.rotated_abs {r : Ring} {n : Nat} (h : RingOK r n) :
    r.abs.rotated = (r.keys.dropLast.filter Key2.alive).map (·.seq) := by
  by_cases hn : n = 0
  · have : r.keys = [] := List.eq_nil_of_length_eq_zero (hn ▸ h.len)
    simp [SpecSlot.rotated, Ring.survivors_abs, this]
  · simp [SpecSlot.rotated, h.survivors hn]

/-! ## the two ring writes of generate and the write of destroy -/

theorem RingOK.empty : RingOK Ring.empty 0 :=
  ⟨rfl, by simp [Ring.empty], rfl, by simp [Ring.empty]⟩

/-- the ring after `AddKey` + `SetCurrent` of generation `n + 1` -/
def Ring.added (r : Ring) (n : Nat) : Ring := ⟨r.keys ++ [⟨n + 1, .preActive, some (n + 1)⟩], some (n + 1)⟩

theorem RingOK.added {r : Ring} {n : Nat} (h : RingOK r n) : RingOK (r.added n) (n + 1) := by
  refine ⟨?_, ?_, by simp [Ring.added], ?_⟩
  · simp [Ring.added, h.seqs, List.range_succ]
  · intro k hk
    rcases List.mem_append.1 hk with hk | hk
    · exact h.st k hk
    · have : k = ⟨n + 1, .preActive, some (n + 1)⟩ := by simpa using hk
      subst this; exact Or.inl ⟨rfl, rfl⟩
  · intro k hk hkn
    rcases List.mem_append.1 hk with hk | hk
    · have := h.seq_bound hk; omega
    · have : k = ⟨n + 1, .preActive, some (n + 1)⟩ := by simpa using hk
      subst this; rfl

theorem RingOK.addKey {r : Ring} {n : Nat} (h : RingOK r n) :
    applyTxs r [.addKey ⟨n + 1, .preActive, some (n + 1)⟩] = some ⟨r.keys ++ [⟨n + 1, .preActive, some (n + 1)⟩], r.current⟩ := by
  simp [applyTxs, Tx.apply, h.find_none (n + 1) (Or.inr (Nat.lt_succ_self n))]

theorem RingOK.setCurrent {r : Ring} {n : Nat} (h : RingOK r n) :
    applyTxs ⟨r.keys ++ [⟨n + 1, .preActive, some (n + 1)⟩], r.current⟩ [.setCurrent r.current (some (n + 1))] = some (r.added n) := by
  have hnew : (Ring.find ⟨r.keys ++ [⟨n + 1, .preActive, some (n + 1)⟩], r.current⟩ (n + 1)).isSome = true := by
    simp only [Ring.find, List.find?_isSome]
    exact ⟨⟨n + 1, .preActive, some (n + 1)⟩, by simp, by simp⟩
  by_cases hn : n = 0
  · simp only [h.cur, hn, if_true] at hnew ⊢
    simp [applyTxs, Tx.apply, hnew, Ring.added]
  · obtain ⟨init, last, hk, hseq, _, _⟩ := h.split hn
    have hold : (Ring.find ⟨r.keys ++ [⟨n + 1, .preActive, some (n + 1)⟩], r.current⟩ n).isSome = true := by
      simp only [Ring.find, List.find?_isSome]
      exact ⟨last, by rw [hk]; simp, by simp [hseq]⟩
    simp only [h.cur, hn, if_false] at hnew hold ⊢
    simp [applyTxs, Tx.apply, hnew, hold, Ring.added]

theorem Ring.abs_added (r : Ring) (n : Nat) (hl : r.keys.length = n) : (r.added n).abs = r.abs.generate := by
  simp [Ring.abs, Ring.added, SpecSlot.generate, hl, Key2.alive]

/-- the ring after `DestroyKey(q)` -/
def Ring.destroyed (r : Ring) (q : Nat) : Ring :=
  (r.setKey q fun k => { k with data := none }).setKey q fun k => { k with state := .destroyed }

theorem Ring.destroy_txs (r : Ring) (q : Nat) (k : Key2) (hf : r.find q = some k) :
    applyTxs r [.destroyData q k.data, .changeState q k.state .destroyed] = some (r.destroyed q) := by
  have h1 : (Tx.destroyData q k.data).apply r = some (r.setKey q fun k => { k with data := none }) := by
    simp [Tx.apply, hf]
  have hf2 : (r.setKey q fun k => { k with data := none }).find q = some { k with data := none } := by
    simp only [Ring.find, Ring.setKey]
    exact find_setKey r.keys q k _ (by intro k; rfl) hf
  have h2 : (Tx.changeState q k.state .destroyed).apply (r.setKey q fun k => { k with data := none }) =
      some (r.destroyed q) := by
    simp [Tx.apply, hf2, Ring.destroyed]
  simp only [applyTxs, h1, h2]

theorem Ring.destroyed_keys (r : Ring) (q : Nat) :
    (r.destroyed q).keys = r.keys.map fun k => if k.seq = q then { k with data := none, state := .destroyed } else k := by
  simp only [Ring.destroyed, Ring.setKey, List.map_map]
  apply List.map_congr_left
  intro k _
  by_cases hk : k.seq = q <;> simp [hk]

theorem RingOK.destroyed {r : Ring} {n : Nat} (h : RingOK r n) (q : Nat) (hq : q ≠ n) : RingOK (r.destroyed q) n := by
  refine ⟨?_, ?_, ?_, ?_⟩
  · rw [Ring.destroyed_keys, List.map_map, ← h.seqs]
    apply List.map_congr_left
    intro k _
    by_cases hk : k.seq = q <;> simp [hk]
  · rw [Ring.destroyed_keys]
    intro k hk
    obtain ⟨k0, hk0, rfl⟩ := List.mem_map.1 hk
    by_cases hkq : k0.seq = q
    · simp [hkq]
    · simpa [hkq] using h.st k0 hk0
  · exact h.cur
  · rw [Ring.destroyed_keys]
    intro k hk hkn
    obtain ⟨k0, hk0, rfl⟩ := List.mem_map.1 hk
    by_cases hkq : k0.seq = q
    · simp only [hkq, if_true] at hkn; exact absurd hkn hq
    · simp only [hkq, if_false] at hkn ⊢
      exact h.last k0 hk0 hkn

theorem Ring.abs_destroyed (r : Ring) (q : Nat) : (r.destroyed q).abs = r.abs.destroyId q := by
  simp only [Ring.abs, Ring.destroyed_keys, SpecSlot.destroyId, List.map_map]
  apply List.map_congr_left
  intro k _
  by_cases hk : k.seq = q <;> simp [hk, Key2.alive]

end AcraModel.Keystore
