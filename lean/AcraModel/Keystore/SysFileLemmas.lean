import AcraModel.Keystore.SysFile
/-! Helper lemmas for the system-call level models of `Put`, `Copy` and `WriteKeyFile` (C08). -/
namespace AcraModel.Keystore.Sys
open AcraModel AcraModel.Keystore

theorem upd_upd_same (d : Disk) (p : Path) (a b : Option Bytes) : upd (upd d p a) p b = upd d p b := by
  funext x; by_cases h : x = p <;> simp [upd, h]

theorem upd_restore (d : Disk) (p : Path) (h : d p = none) (a : Option Bytes) : upd (upd d p a) p none = d := by
  funext x; by_cases hx : x = p
  · subst hx; simp [upd, h]
  · simp [upd, hx]

theorem isSome_false_eq_none {α} {o : Option α} (h : ¬ (o.isSome = true)) : o = none := by
  cases o <;> simp_all

/-- the clean-up of a `Put` that removes the file it created, armed for calls 3–5 -/
structure PutCode.Sound (c : PutCode) : Prop where
  same : c.removeArg = some c.openArg
  armed : c.deferAt ≤ 3
  upTo : 6 ≤ c.disarmAt

theorem putCleanup_sound (c : PutCode) (hc : c.Sound) (e : PutEnv) (f : PutFaults) (hf : f.remove = false)
    (p : Path) (hp : e.eval c.openArg = some p) (i : Nat) (hi : 3 ≤ i ∧ i ≤ 5) (d : Disk) :
    putCleanup c e f i d = upd d p none := by
  have h1 : 2 < i ∧ c.deferAt ≤ i ∧ i < c.disarmAt := ⟨by omega, by have := hc.armed; omega, by have := hc.upTo; omega⟩
  simp only [putCleanup, if_pos h1, hc.same, Option.bind_some, hp, hf]
  simp

theorem putCleanup_early (c : PutCode) (e : PutEnv) (f : PutFaults) (i : Nat) (hi : i ≤ 2) (d : Disk) :
    putCleanup c e f i d = d := by
  have h1 : ¬ (2 < i ∧ c.deferAt ≤ i ∧ i < c.disarmAt) := by omega
  simp only [putCleanup, if_neg h1]

/-- **A `Put` that returns an error has changed nothing** – whichever call failed, whatever prefix the
failing `write(2)` stored – provided the clean-up's own `Remove` works. -/
theorem putWith_err_unchanged (c : PutCode) (hc : c.Sound) (e : PutEnv) (f : PutFaults) (hf : f.remove = false)
    (d : Disk) (data : Bytes) (h : (putWith c e f d data).2 = .err) : (putWith c e f d data).1 = d := by
  unfold putWith at h ⊢
  by_cases h0 : f.ospath = true
  · simp [h0]
  simp only [h0] at h ⊢
  by_cases h1 : f.mkdir = true
  · simp [h1, putCleanup_early]
  simp only [h1] at h ⊢
  cases hp : e.eval c.openArg with
  | none => simp
  | some p =>
    simp only [hp] at h ⊢
    by_cases h2 : f.openFile = true ∨ (d p).isSome = true
    · simp [h2, putCleanup_early]
    simp only [if_neg h2] at h ⊢
    have hnone : d p = none := isSome_false_eq_none (fun hh => h2 (Or.inr hh))
    cases hw : f.write with
    | some n =>
      simp only [hw]
      rw [putCleanup_sound c hc e f hf p hp 3 (by omega), upd_upd_same, upd_restore d p hnone]
      simp
    | none =>
      simp only [hw] at h ⊢
      by_cases h4 : f.sync = true
      · simp only [h4, if_true]
        rw [putCleanup_sound c hc e f hf p hp 4 (by omega), upd_upd_same, upd_restore d p hnone]
        simp
      simp only [h4] at h ⊢
      by_cases h5 : f.close = true
      · simp only [h5, if_true]
        rw [putCleanup_sound c hc e f hf p hp 5 (by omega), upd_upd_same, upd_restore d p hnone]
        simp
      simp [h5] at h

/-- a `Put` that returns `nil` found nothing at the path and left exactly `data` there -/
theorem putWith_ok (c : PutCode) (e : PutEnv) (f : PutFaults) (d : Disk) (data : Bytes)
    (h : (putWith c e f d data).2 = .ok) :
    ∃ p, e.eval c.openArg = some p ∧ d p = none ∧ (putWith c e f d data).1 = upd d p (some data) := by
  unfold putWith at h ⊢
  by_cases h0 : f.ospath = true
  · simp [h0] at h
  simp only [h0] at h ⊢
  by_cases h1 : f.mkdir = true
  · simp [h1] at h
  simp only [h1] at h ⊢
  cases hp : e.eval c.openArg with
  | none => simp [hp] at h
  | some p =>
    simp only [hp] at h ⊢
    by_cases h2 : f.openFile = true ∨ (d p).isSome = true
    · simp [h2] at h
    simp only [if_neg h2] at h ⊢
    have hnone : d p = none := isSome_false_eq_none (fun hh => h2 (Or.inr hh))
    cases hw : f.write with
    | some n => simp [hw] at h
    | none =>
      simp only [hw] at h ⊢
      by_cases h4 : f.sync = true
      · simp [h4] at h
      simp only [h4] at h ⊢
      by_cases h5 : f.close = true
      · simp [h5] at h
      refine ⟨p, rfl, hnone, ?_⟩
      simp [h5, upd_upd_same]

/-- without faults `Put` succeeds exactly when nothing is at the path -/
theorem putWith_none (c : PutCode) (e : PutEnv) (d : Disk) (data : Bytes) (p : Path) (hp : e.eval c.openArg = some p)
    (hd : d p = none) : putWith c e PutFaults.none d data = (upd d p (some data), .ok) := by
  simp [putWith, PutFaults.none, hp, hd, upd_upd_same]

/-- the state a crash inside `Put` leaves: nothing new, or a prefix of the data at the path -/
theorem putCrash_prefix (e : PutEnv) (stage n : Nat) (d : Disk) (data : Bytes) :
    putCrash e stage n d data = d ∨ ∃ m, putCrash e stage n d data = upd d e.fullPath (some (data.take m)) := by
  unfold putCrash
  by_cases h : stage < 3 ∨ (d e.fullPath).isSome = true
  · simp [h]
  · simp only [if_neg h]
    by_cases h3 : stage = 3
    · exact Or.inr ⟨0, by simp [h3]⟩
    · exact Or.inr ⟨n, by simp [h3]⟩

/-! ## Copy -/

/-- shape of a `Copy` that got as far as creating the destination -/
theorem copyWith_shape (c : CopyCode) (f : CopyFaults) (d : Disk) (src dst : Path) :
    (copyWith c f d src dst = (d, .err)) ∨
    ∃ s, d src = some s ∧ d dst = none ∧
      copyWith c f d src dst =
        if copyFailed c f then
          ((if c.removesDst ∧ ¬ f.remove then upd (upd d dst (some (copyDst f s))) dst none else upd d dst (some (copyDst f s))), .err)
        else (upd d dst (some (copyDst f s)), .ok) := by
  unfold copyWith
  cases hs : d src with
  | none => left; rfl
  | some s =>
    by_cases h1 : f.openSrc = true ∨ f.stat = true
    · left; simp [h1]
    by_cases h2 : f.openDst = true ∨ (d dst).isSome = true
    · left; simp [h1, h2]
    have hnone : d dst = none := isSome_false_eq_none (fun hh => h2 (Or.inr hh))
    right
    refine ⟨s, rfl, hnone, ?_⟩
    simp only [if_neg h1, if_neg h2]

theorem copyDst_of_not_failed (c : CopyCode) (hk : c.copyKept = true) (f : CopyFaults) (s : Bytes)
    (h : copyFailed c f = false) : copyDst f s = s := by
  unfold copyFailed at h
  unfold copyDst
  cases hc : f.copy with
  | none => rfl
  | some n => simp [hc, hk] at h

theorem copyDst_prefix (f : CopyFaults) (s : Bytes) : ∃ n, copyDst f s = s.take n := by
  unfold copyDst
  cases f.copy with
  | some n => exact ⟨n, rfl⟩
  | none => exact ⟨s.length, by simp⟩

/-- a `Copy` that returns `nil` found the source, found nothing at the destination, and left something there -/
theorem copyWith_ok' (c : CopyCode) (f : CopyFaults) (d : Disk) (src dst : Path)
    (h : (copyWith c f d src dst).2 = .ok) :
    ∃ s, d src = some s ∧ d dst = none ∧ copyFailed c f = false ∧
      (copyWith c f d src dst).1 = upd d dst (some (copyDst f s)) := by
  rcases copyWith_shape c f d src dst with he | ⟨s, hs, hn, he⟩
  · rw [he] at h; cases h
  · rw [he] at h ⊢
    cases hf : copyFailed c f with
    | true => simp [hf] at h
    | false => exact ⟨s, hs, hn, rfl, by simp⟩

/-- **`Copy` returns `nil` only when the whole source arrived** (the error of `io.Copy` being kept) -/
theorem copyWith_ok (c : CopyCode) (hk : c.copyKept = true) (f : CopyFaults) (d : Disk) (src dst : Path)
    (h : (copyWith c f d src dst).2 = .ok) :
    ∃ s, d src = some s ∧ d dst = none ∧ (copyWith c f d src dst).1 = upd d dst (some s) := by
  obtain ⟨s, hs, hn, hf, he⟩ := copyWith_ok' c f d src dst h
  exact ⟨s, hs, hn, by rw [he, copyDst_of_not_failed c hk f s hf]⟩

/-- a `Copy` that returns an error has changed nothing or left a prefix of the source at the destination;
with the removing clean-up (and a working `Remove`) it has changed nothing -/
theorem copyWith_err (c : CopyCode) (f : CopyFaults) (d : Disk) (src dst : Path)
    (h : (copyWith c f d src dst).2 = .err) :
    (copyWith c f d src dst).1 = d ∨
      (¬ (c.removesDst = true ∧ f.remove = false) ∧ d dst = none ∧
        ∃ s n, d src = some s ∧ (copyWith c f d src dst).1 = upd d dst (some (s.take n))) := by
  rcases copyWith_shape c f d src dst with he | ⟨s, hs, hn, he⟩
  · left; rw [he]
  · rw [he] at h ⊢
    cases hf : copyFailed c f with
    | false => simp [hf] at h
    | true =>
      simp only [if_true]
      by_cases hr : c.removesDst = true ∧ ¬ f.remove = true
      · left; simp only [if_pos hr]; exact upd_restore d dst hn _
      · right
        simp only [if_neg hr]
        obtain ⟨n, hn'⟩ := copyDst_prefix f s
        exact ⟨by intro hh; exact hr ⟨hh.1, by simp [hh.2]⟩, hn, s, n, hs, by rw [hn']⟩

/-! ## WriteKeyFile -/

structure WkfEnv.Distinct (e : WkfEnv) : Prop where
  ft : e.file ≠ e.tmp
  fb : e.file ≠ e.backup
  tb : e.tmp ≠ e.backup

/-- whatever `Copy` does, it touches only its destination -/
theorem copyWith_other (c : CopyCode) (f : CopyFaults) (d : Disk) (src dst p : Path) (hp : p ≠ dst) :
    (copyWith c f d src dst).1 p = d p := by
  rcases copyWith_shape c f d src dst with he | ⟨s, _, _, he⟩
  · rw [he]
  · rw [he]
    cases copyFailed c f
    · simp [upd_other _ _ _ _ hp]
    · by_cases hr : c.removesDst = true ∧ ¬ f.remove = true
      · simp only [if_true, if_pos hr]; rw [upd_other _ _ _ _ hp, upd_other _ _ _ _ hp]
      · simp only [if_true, if_neg hr]; rw [upd_other _ _ _ _ hp]

theorem backupWith_other (c : CopyCode) (e : WkfEnv) (f : WkfFaults) (d : Disk) (p : Path) (hp : p ≠ e.backup) :
    (backupWith c e f d).1 p = d p := by
  unfold backupWith
  by_cases h1 : (d e.file).isNone = true ∧ ¬ f.statErr = true
  · simp [h1]
  simp only [if_neg h1]
  by_cases h2 : f.mkdirOld = true
  · simp [h2]
  simp only [h2, Bool.false_eq_true, if_false]
  by_cases h3 : ¬ f.link = true ∧ (d e.file).isSome = true ∧ (d e.backup).isNone = true
  · simp only [if_pos h3]; exact upd_other _ _ _ _ hp
  · simp only [if_neg h3]; exact copyWith_other c f.copy d e.file e.backup p hp

/-- a successful backup of an existing key file put its complete content under the history name -/
theorem backupWith_ok (c : CopyCode) (hk : c.copyKept = true) (e : WkfEnv) (f : WkfFaults) (d : Disk) (old : Bytes)
    (hold : d e.file = some old) (h : (backupWith c e f d).2 = .ok) : (backupWith c e f d).1 e.backup = some old := by
  unfold backupWith at h ⊢
  have h1 : ¬ ((d e.file).isNone = true ∧ ¬ f.statErr = true) := by simp [hold]
  simp only [if_neg h1] at h ⊢
  by_cases h2 : f.mkdirOld = true
  · simp [h2] at h
  simp only [h2, Bool.false_eq_true, if_false] at h ⊢
  by_cases h3 : ¬ f.link = true ∧ (d e.file).isSome = true ∧ (d e.backup).isNone = true
  · simp only [if_pos h3]; simp [hold]
  · simp only [if_neg h3] at h ⊢
    obtain ⟨s, hs, _, heq⟩ := copyWith_ok c hk f.copy d e.file e.backup h
    rw [heq]; rw [hold] at hs; cases hs; simp

/-- **A rotation that returns `nil` kept the previous key**: the key file holds the new data and the history
name holds the complete previous content – for every fault at every storage call and every system call of the
history copy, with or without hard links. -/
theorem writeKeyFileWith_ok (c : CopyCode) (hk : c.copyKept = true) (e : WkfEnv) (he : e.Distinct) (f : WkfFaults)
    (d : Disk) (data old : Bytes) (hold : d e.file = some old)
    (h : (writeKeyFileWith c e f d data).2 = .ok) :
    (writeKeyFileWith c e f d data).1 e.file = some data ∧ (writeKeyFileWith c e f d data).1 e.backup = some old := by
  unfold writeKeyFileWith at h ⊢
  by_cases h1 : f.mkdir = true ∨ f.tempFile = true
  · simp [h1] at h
  simp only [if_neg h1] at h ⊢
  cases hw : f.writeFile with
  | some n => simp [hw] at h
  | none =>
    simp only [hw] at h ⊢
    have hfile : (upd (upd d e.tmp (some [])) e.tmp (some data)) e.file = some old := by
      rw [upd_upd_same, upd_other _ _ _ _ he.ft, hold]
    have hbk := backupWith_ok c hk e f _ old hfile
    generalize backupWith c e f (upd (upd d e.tmp (some [])) e.tmp (some data)) = b at h hbk ⊢
    obtain ⟨d3, r⟩ := b
    cases r with
    | err => simp at h
    | ok =>
      simp only at h ⊢
      by_cases h5 : f.rename = true
      · simp [h5] at h
      simp only [h5, Bool.false_eq_true, if_false]
      refine ⟨?_, ?_⟩
      · rw [upd_other _ _ _ _ he.ft]; simp
      · rw [upd_other _ _ _ _ (Ne.symm he.tb), upd_other _ _ _ _ (Ne.symm he.fb)]; exact hbk rfl

/-- **A rotation that returns an error left the key file alone.** -/
theorem writeKeyFileWith_err (c : CopyCode) (e : WkfEnv) (he : e.Distinct) (f : WkfFaults)
    (d : Disk) (data : Bytes) (h : (writeKeyFileWith c e f d data).2 = .err) :
    (writeKeyFileWith c e f d data).1 e.file = d e.file := by
  unfold writeKeyFileWith at h ⊢
  by_cases h1 : f.mkdir = true ∨ f.tempFile = true
  · simp [h1]
  simp only [if_neg h1] at h ⊢
  cases hw : f.writeFile with
  | some n => simp only [hw]; rw [upd_upd_same, upd_other _ _ _ _ he.ft]
  | none =>
    simp only [hw] at h ⊢
    have hb := backupWith_other c e f (upd (upd d e.tmp (some [])) e.tmp (some data)) e.file he.fb
    generalize backupWith c e f (upd (upd d e.tmp (some [])) e.tmp (some data)) = b at h hb ⊢
    obtain ⟨d3, r⟩ := b
    have hfile : d3 e.file = d e.file := by
      have hb' : d3 e.file = _ := hb
      rw [hb', upd_upd_same, upd_other _ _ _ _ he.ft]
    cases r with
    | err => exact hfile
    | ok =>
      simp only at h ⊢
      by_cases h5 : f.rename = true
      · simp only [h5, if_true]; exact hfile
      · simp [h5] at h

/-! ## the call-level rotation on a storage without hard links -/

theorem copyOutcome_ok (c : CopyCode) (hk : c.copyKept = true) (len : Nat) (limit : Option Nat)
    (h : (copyOutcome c len limit).2 = .ok) : (copyOutcome c len limit).1 = .all := by
  unfold copyOutcome at h ⊢
  simp only at h ⊢
  obtain ⟨s, hs, _, he⟩ := copyWith_ok c hk _ _ "src" "dst" h
  rw [he]
  simp at hs
  simp [arrived, hs]

/-- **A rotation on a storage without hard links that reports success kept the previous key**: the complete
previous content is in the history and the new generation is current – whatever limit the history copy hit. -/
theorem V1.genNoLink_ok (c : CopyCode) (hk : c.copyKept = true) (st : V1) (s : Slot) (len : Nat) (limit : Option Nat)
    (c0 : Content) (hc0 : st.fs.cur (privFile s) = some c0)
    (h : (V1.genNoLink c st s len limit).2.2 = .ok) :
    (V1.genNoLink c st s len limit).1.fs.cur (privFile s) = some (.full (st.count s + 1)) ∧
    ∃ t, (t, c0) ∈ (V1.genNoLink c st s len limit).1.fs.old (privFile s) := by
  unfold V1.genNoLink at h ⊢
  simp only [hc0] at h ⊢
  cases hr : (copyOutcome c len limit).2 with
  | err =>
    generalize copyOutcome c len limit = co at h hr
    obtain ⟨a, r⟩ := co
    simp at hr; subst hr; simp at h
  | ok =>
    have ha := copyOutcome_ok c hk len limit hr
    generalize copyOutcome c len limit = co at h hr ha ⊢
    obtain ⟨a, r⟩ := co
    simp at hr ha; subst hr; subst ha
    simp [Arrived.content, applyAll, applyCall, FS.tmpContent]

/-- a rotation on such a storage that reports an error left the current key file alone -/
theorem V1.genNoLink_err (c : CopyCode) (st : V1) (s : Slot) (len : Nat) (limit : Option Nat)
    (c0 : Content) (hc0 : st.fs.cur (privFile s) = some c0)
    (h : (V1.genNoLink c st s len limit).2.2 = .err) :
    (V1.genNoLink c st s len limit).1.fs.cur (privFile s) = some c0 := by
  unfold V1.genNoLink at h ⊢
  simp only [hc0] at h ⊢
  generalize copyOutcome c len limit = co at h ⊢
  obtain ⟨a, r⟩ := co
  cases r with
  | err =>
    cases hac : a.content c0 <;> simp [hac, applyAll, applyCall, hc0]
  | ok =>
    cases hac : a.content c0 <;> simp [hac, applyAll, applyCall, FS.tmpContent] at h

end AcraModel.Keystore.Sys
