import AcraModel.Keystore.RefineV1
/-!
# v1 without cache: the abstraction function and the per-step simulation of the specification
-/
namespace AcraModel.Keystore

/-- key file `f` holds generation `g` (as its current file or in its history) -/
def FS.holds (fs : FS) (f : FileId) (g : Nat) : Bool :=
  fs.cur f == some (.full g) || (fs.old f).any (·.2 == .full g)

/-- **Abstraction function**: the history of slot `s` is `1 .. count s`; a generation is alive when
the private/symmetric key file of the slot still holds it. -/
def absFS (fs : FS) (count : Slot → Nat) : Spec :=
  fun s => (List.range (count s)).map fun i => ⟨i + 1, fs.holds (privFile s) (i + 1)⟩

def V1.abs (st : V1) : Spec := absFS st.fs st.count

theorem FileOK.mem_oldIds {fs : FS} {f : FileId} {n : Nat} (h : FileOK fs f n) (x : Nat) :
    (fs.old f).any (·.2 == .full x) = true ↔ x ∈ fs.oldIds f := by
  simp only [List.any_eq_true, FS.oldIds, List.mem_map, beq_iff_eq]
  constructor
  · rintro ⟨e, he, hx⟩; exact ⟨e, he, by rw [hx]; rfl⟩
  · rintro ⟨e, he, hx⟩; exact ⟨e, he, by rw [h.full e he, hx]⟩

theorem FileOK.holds_iff {fs : FS} {f : FileId} {n : Nat} (h : FileOK fs f n) (x : Nat) (hx : 0 < x) (hxn : x ≤ n) :
    fs.holds f x = true ↔ (x ∈ fs.oldIds f ∨ x = n) := by
  have hn : n ≠ 0 := by omega
  simp only [FS.holds, Bool.or_eq_true, h.mem_oldIds, h.cur, hn, if_false, beq_iff_eq, Option.some.injEq, Content.full.injEq]
  constructor
  · rintro (h1 | h1)
    · exact Or.inr h1.symm
    · exact Or.inl h1
  · rintro (h1 | h1)
    · exact Or.inr h1
    · exact Or.inl h1.symm

theorem FileOK.ids_sorted {fs : FS} {f : FileId} {n : Nat} (h : FileOK fs f n) :
    (fs.oldIds f ++ [n]).Pairwise (· < ·) := by
  rw [List.pairwise_append]
  refine ⟨h.sorted, by simp, ?_⟩
  intro a ha b hb
  have : b = n := by simpa using hb
  subst this
  exact (h.bound a ha).2

theorem survivors_abs {fs : FS} {count : Slot → Nat} (h : FSInv fs count) (s : Slot) :
    (absFS fs count s).survivors = if count s = 0 then [] else fs.oldIds (privFile s) ++ [count s] := by
  by_cases hn : count s = 0
  · simp [absFS, hn, SpecSlot.survivors]
  · simp only [hn, if_false, absFS]
    have hp := h.priv s
    apply survivors_of_sorted _ _ _ hp.ids_sorted
    · intro g hg
      rcases List.mem_append.1 hg with hg | hg
      · have := hp.bound g hg; omega
      · have : g = count s := by simpa using hg
        omega
    · intro g h0 hg
      rw [hp.holds_iff g h0 hg]
      simp

theorem current_abs {fs : FS} {count : Slot → Nat} (h : FSInv fs count) (s : Slot) :
    (absFS fs count s).current = if count s = 0 then none else some (count s) := by
  simp only [SpecSlot.current, survivors_abs h]
  by_cases hn : count s = 0 <;> simp [hn]

theorem rotated_abs {fs : FS} {count : Slot → Nat} (h : FSInv fs count) (s : Slot) :
    (absFS fs count s).rotated = fs.oldIds (privFile s) := by
  simp only [SpecSlot.rotated, survivors_abs h]
  by_cases hn : count s = 0
  · have := (h.priv s)
    rw [hn] at this
    simp [hn, FS.oldIds, this.old_nil]
  · simp [hn]

theorem allNewestFirst_abs {fs : FS} {count : Slot → Nat} (h : FSInv fs count) (s : Slot) (hn : count s ≠ 0) :
    (absFS fs count s).allNewestFirst = count s :: (fs.oldIds (privFile s)).reverse := by
  simp [SpecSlot.allNewestFirst, survivors_abs h, hn]

theorem abs_isEmpty (fs : FS) (count : Slot → Nat) (s : Slot) : (absFS fs count s).isEmpty = decide (count s = 0) := by
  cases hn : count s <;> simp [absFS, hn, List.range_succ]

/-! ## the abstraction commutes with the write operations -/

theorem holds_congr {fs fs' : FS} {f : FileId} (hc : fs'.cur f = fs.cur f) (ho : fs'.old f = fs.old f) (x : Nat) :
    fs'.holds f x = fs.holds f x := by simp [FS.holds, hc, ho]

theorem FS.generated_other (fs : FS) (s s' : Slot) (g : Nat) (hs : s' ≠ s) :
    (fs.generated s g).cur (privFile s') = fs.cur (privFile s') ∧ (fs.generated s g).old (privFile s') = fs.old (privFile s') := by
  unfold FS.generated
  split
  · rw [FS.written_cur, FS.written_cur, FS.written_old_other _ _ _ _ (priv_ne_pub _ _), FS.written_old_other _ _ _ _ (priv_ne_priv hs)]
    simp [upd, priv_ne_pub, priv_ne_priv hs]
  · rw [FS.written_cur, FS.written_old_other _ _ _ _ (priv_ne_priv hs)]
    simp [upd, priv_ne_priv hs]

theorem abs_generated {fs : FS} {count : Slot → Nat} (h : FSInv fs count) (s : Slot) :
    absFS (fs.generated s (count s + 1)) (upd count s (count s + 1)) = upd (absFS fs count) s (absFS fs count s).generate := by
  funext s'
  by_cases hs : s' = s
  · subst hs
    have h' := (h.generated s').priv s'
    simp only [upd_same] at h' ⊢
    simp only [absFS, upd_same, SpecSlot.generate, List.length_map, List.length_range, List.range_succ, List.map_append,
      List.map_cons, List.map_nil]
    congr 1
    · apply List.map_congr_left
      intro i hi
      have hi : i < count s' := List.mem_range.1 hi
      congr 1
      rw [Bool.eq_iff_iff, h'.holds_iff (i + 1) (by omega) (by omega), (h.priv s').holds_iff (i + 1) (by omega) (by omega)]
      -- history afterwards = history before plus the previous current generation
      have hn : count s' ≠ 0 := by omega
      have hc : fs.cur (privFile s') = some (.full (count s')) := by simpa [hn] using (h.priv s').cur
      have hold : (fs.generated s' (count s' + 1)).oldIds (privFile s') = fs.oldIds (privFile s') ++ [count s'] := by
        unfold FS.generated FS.oldIds
        split
        · rw [FS.written_old_other _ _ _ _ (priv_ne_pub _ _), (FS.written_old_some _ _ _ _ hc).1]; simp [Content.raw]
        · rw [(FS.written_old_some _ _ _ _ hc).1]; simp [Content.raw]
      rw [hold]
      simp only [List.mem_append, List.mem_singleton]
      constructor
      · rintro ((h1 | h1) | h1)
        · exact Or.inl h1
        · exact Or.inr h1
        · omega
      · intro h1; exact Or.inl h1
    · congr 1
      congr 1
      rw [h'.holds_iff _ (by omega) (Nat.le_refl _)]
      exact Or.inr rfl
  · simp only [absFS, upd_other _ _ _ _ hs]
    obtain ⟨e1, e2⟩ := FS.generated_other fs s s' (count s + 1) hs
    apply List.map_congr_left
    intro i _
    rw [holds_congr e1 e2]

theorem FS.slotDrotted_other (fs : FS) (s s' : Slot) (i : Nat) (hs : s' ≠ s) :
    (fs.slotDrotted s i).cur (privFile s') = fs.cur (privFile s') ∧ (fs.slotDrotted s i).old (privFile s') = fs.old (privFile s') := by
  unfold FS.slotDrotted
  obtain ⟨c1, _, _, _, o1⟩ := FS.drotted_fields fs (privFile s) i
  obtain ⟨c2, _, _, _, o2⟩ := FS.drotted_fields (fs.drotted (privFile s) i).1 (pubFile s) i
  split
  · exact ⟨rfl, rfl⟩
  · split
    · exact ⟨rfl, rfl⟩
    · split
      · rw [c2, c1, o2 _ (priv_ne_pub _ _), o1 _ (priv_ne_priv hs)]; exact ⟨rfl, rfl⟩
      · rw [c1, o1 _ (priv_ne_priv hs)]; exact ⟨rfl, rfl⟩

/-- the listed index `i` names a rotated key of the specification exactly when v1's destroy accepts it -/
theorem listedAt_abs {fs : FS} {count : Slot → Nat} (h : FSInv fs count) (s : Slot) (i : Nat) :
    (absFS fs count s).listedAt i = if (fs.drotted (privFile s) i).2 then (fs.oldIds (privFile s))[i - 2]? else none := by
  simp only [SpecSlot.listedAt, rotated_abs h]
  by_cases hok : (fs.drotted (privFile s) i).2 = true
  · have := (FS.drotted_ok_iff _ _ _).1 hok
    simp [hok, this.2.1]
  · have hno : ¬ (fs.oldDir (privFile s) = true ∧ 2 ≤ i ∧ i ≤ (fs.old (privFile s)).length + 1) :=
      fun hh => hok ((FS.drotted_ok_iff _ _ _).2 hh)
    simp only [hok, Bool.false_eq_true, if_false]
    by_cases h2 : 2 ≤ i
    · simp only [h2, if_true]
      apply List.getElem?_eq_none
      simp only [FS.oldIds, List.length_map]
      by_cases hlen : i ≤ (fs.old (privFile s)).length + 1
      · exfalso
        apply hno
        refine ⟨(h.priv s).dir ?_, h2, hlen⟩
        intro hnil; rw [hnil] at hlen; simp at hlen; omega
      · omega
    · simp [h2]

theorem abs_slotDrotted {fs : FS} {count : Slot → Nat} (h : FSInv fs count) (s : Slot) (i : Nat) (g : Nat)
    (hc : s.kind.canDestroy = true) (hok : (fs.drotted (privFile s) i).2 = true) (hg : (fs.oldIds (privFile s))[i - 2]? = some g) :
    absFS (fs.slotDrotted s i) count = upd (absFS fs count) s ((absFS fs count s).destroyId g) := by
  funext s'
  by_cases hs : s' = s
  · subst hs
    have h' := (h.slotDrotted s' i).priv s'
    have hold : (fs.slotDrotted s' i).oldIds (privFile s') = (fs.oldIds (privFile s')).eraseIdx (i - 2) := by
      unfold FS.slotDrotted FS.oldIds
      simp only [hc, hok, not_true_eq_false, if_false]
      rw [← map_eraseIdx']
      congr 1
      split
      · rw [(FS.drotted_fields _ (pubFile s') i).2.2.2.2 _ (priv_ne_pub _ _), FS.drotted_old _ _ _ hok]
      · rw [FS.drotted_old _ _ _ hok]
    have hgmem : g ∈ fs.oldIds (privFile s') := List.mem_of_getElem? hg
    have hgn := (h.priv s').bound g hgmem
    have hnd : (fs.oldIds (privFile s')).Pairwise (· ≠ ·) := (h.priv s').sorted.imp (by intro a b hab; exact Nat.ne_of_lt hab)
    simp only [absFS, upd_same, SpecSlot.destroyId, List.map_map]
    apply List.map_congr_left
    intro j hj
    have hj : j < count s' := List.mem_range.1 hj
    simp only [Function.comp]
    by_cases hjg : j + 1 = g
    · simp only [hjg, if_true]
      congr 1
      rw [Bool.eq_false_iff, Ne, h'.holds_iff g (by omega) (by omega), hold, mem_eraseIdx_of_nodup _ _ _ hnd hg]
      omega
    · simp only [hjg, if_false]
      congr 1
      rw [Bool.eq_iff_iff, h'.holds_iff _ (by omega) (by omega), (h.priv s').holds_iff _ (by omega) (by omega), hold,
        mem_eraseIdx_of_nodup _ _ _ hnd hg]
      constructor
      · rintro (⟨h1, _⟩ | h1)
        · exact Or.inl h1
        · exact Or.inr h1
      · rintro (h1 | h1)
        · exact Or.inl ⟨h1, hjg⟩
        · exact Or.inr h1
  · simp only [absFS, upd_other _ _ _ _ hs]
    obtain ⟨e1, e2⟩ := FS.slotDrotted_other fs s s' i hs
    apply List.map_congr_left
    intro j _
    rw [holds_congr e1 e2]

end AcraModel.Keystore
