import AcraModel.Basic.Bytes
/-!
# Keystore vocabulary and the abstract specification of key generations (C06)

A *slot* is a key kind together with its owner. The specification keeps, per slot, the history of
generations oldest → newest with an `alive` flag. Keys are identified by the 1-based number of the
generation that produced them – never by their bytes.

`Spec` is what the statement of C06 says: the current key is the most recently generated surviving
one, every survivor is offered newest-first, the rotated listing numbers the surviving non-current
keys from 2 (oldest first), and destroying by listed index removes exactly that key.
-/
namespace AcraModel.Keystore

/-- The six key kinds of the property: storage key pair, storage symmetric, search HMAC,
poison pair, poison symmetric, audit log. -/
inductive Kind | sp | ss | hm | pp | ps | al
deriving DecidableEq, Repr

def Kind.isPair : Kind → Bool
  | .sp | .pp => true
  | _ => false

/-- kinds that have an owner (client id) -/
def Kind.hasClient : Kind → Bool
  | .sp | .ss | .hm => true
  | _ => false

/-- kinds with an "all keys" reader in Acra's API -/
def Kind.hasAll : Kind → Bool
  | .hm | .al => false
  | _ => true

/-- kinds with destroy operations in Acra's API -/
def Kind.canDestroy : Kind → Bool
  | .al => false
  | _ => true

structure Slot where
  kind : Kind
  client : Nat
deriving DecidableEq, Repr

/-- The operations of the property (the alphabet of histories). -/
inductive Op
  | gen (s : Slot) | cur (s : Slot) | pub (s : Slot) | all (s : Slot)
  | list | listRot
  | dcur (s : Slot) | drot (s : Slot) (i : Nat)
  | reset | reopen
deriving DecidableEq, Repr

/-- Canonical observations (what the line protocol compares). Key ids: 0 = a value no generation produced. -/
inductive Obs
  | ok | err | panic
  | key (g : Nat)
  | pair (g p : Nat)
  | keys (gs : List Nat)
  | files (fs : List (Slot × Bool))                 -- ListKeys: (slot, is-public-file)
  | rotated (rs : List ((Slot × Bool) × Nat))       -- ListRotatedKeys: per file, number of listed keys
deriving DecidableEq, Repr

/-- update of a function at one point (core-only stand-in for `Function.update`) -/
def upd {α β} [DecidableEq α] (f : α → β) (a : α) (b : β) : α → β := fun x => if x = a then b else f x

@[simp] theorem upd_same {α β} [DecidableEq α] (f : α → β) (a : α) (b : β) : upd f a b a = b := by simp [upd]
@[simp] theorem upd_other {α β} [DecidableEq α] (f : α → β) (a x : α) (b : β) (h : x ≠ a) : upd f a b x = f x := by simp [upd, h]

/-! ## the specification -/

structure Gen where
  id : Nat
  alive : Bool
deriving DecidableEq, Repr

/-- history of one slot, oldest → newest -/
abbrev SpecSlot := List Gen

namespace SpecSlot
def generate (s : SpecSlot) : SpecSlot := s ++ [⟨s.length + 1, true⟩]
/-- surviving ids, oldest first -/
def survivors (s : SpecSlot) : List Nat := (s.filter (·.alive)).map (·.id)
def current (s : SpecSlot) : Option Nat := (survivors s).getLast?
def allNewestFirst (s : SpecSlot) : List Nat := (survivors s).reverse
/-- the rotated listing: surviving non-current keys, oldest first; listed index `i ≥ 2` ↦ element `i-2` -/
def rotated (s : SpecSlot) : List Nat := (survivors s).dropLast
def destroyId (s : SpecSlot) (g : Nat) : SpecSlot := s.map fun x => if x.id = g then { x with alive := false } else x
def listedAt (s : SpecSlot) (i : Nat) : Option Nat := if 2 ≤ i then (rotated s)[i - 2]? else none
def destroyRotated (s : SpecSlot) (i : Nat) : Option SpecSlot := (listedAt s i).map (destroyId s)
def destroyCurrent (s : SpecSlot) : SpecSlot := match current s with
  | some g => destroyId s g
  | none => s
end SpecSlot

abbrev Spec := Slot → SpecSlot

def Spec.init : Spec := fun _ => []

/-- one step of the specification: new state and observation. `list`, `pub`, `reset`, `reopen` have no
spec-level content of their own (`reset`/`reopen` change nothing). -/
def Spec.step (st : Spec) : Op → Spec × Obs
  | .gen s => (upd st s (st s).generate, .ok)
  | .cur s => (st, match (st s).current with | some g => .key g | none => .err)
  | .all s => (st, if (st s).survivors = [] then .err else .keys (st s).allNewestFirst)
  | .drot s i => match (st s).destroyRotated i with
      | some s' => (upd st s s', .ok)
      | none => (st, .err)
  | .dcur s => (upd st s (st s).destroyCurrent, if (st s).current.isSome then .ok else .err)
  | _ => (st, .ok)

end AcraModel.Keystore
