import AcraModel.Keystore.RefineFS
/-!
# v1: the invariant of runs without destroy-current and the abstraction to the specification
-/
namespace AcraModel.Keystore

/-- generations held by the history directory of `f`, in directory order -/
def FS.oldIds (fs : FS) (f : FileId) : List Nat := (fs.old f).map (·.2.raw)

/-- Key file `f` after `n` generations (no destroy-current): the current file holds generation `n`;
the history holds complete older generations, increasing in name and in generation. -/
structure FileOK (fs : FS) (f : FileId) (n : Nat) : Prop where
  cur : fs.cur f = if n = 0 then none else some (.full n)
  full : ∀ e ∈ fs.old f, e.2 = .full e.2.raw
  sorted : (fs.oldIds f).Pairwise (· < ·)
  bound : ∀ g ∈ fs.oldIds f, 0 < g ∧ g < n
  times : (fs.old f).Pairwise (fun a b => a.1 < b.1)
  clock : ∀ e ∈ fs.old f, e.1 < fs.clock
  dir : fs.old f ≠ [] → fs.oldDir f = true

theorem FileOK.congr {fs fs' : FS} {f : FileId} {n : Nat} (h : FileOK fs f n) (hc : fs'.cur f = fs.cur f)
    (ho : fs'.old f = fs.old f) (hd : fs'.oldDir f = fs.oldDir f) (hk : fs.clock ≤ fs'.clock) : FileOK fs' f n := by
  refine ⟨hc ▸ h.cur, ?_, ?_, ?_, ?_, ?_, ?_⟩
  · rw [ho]; exact h.full
  · simp only [FS.oldIds, ho]; exact h.sorted
  · simp only [FS.oldIds, ho]; exact h.bound
  · rw [ho]; exact h.times
  · rw [ho]; intro e he; exact Nat.lt_of_lt_of_le (h.clock e he) hk
  · rw [ho, hd]; exact h.dir

theorem FileOK.distinct {fs : FS} {f : FileId} {n : Nat} (h : FileOK fs f n) : fs.OldDistinct f :=
  h.times.imp (by intro a b hab; exact Nat.ne_of_lt hab)

theorem FileOK.old_nil {fs : FS} {f : FileId} (h : FileOK fs f 0) : fs.old f = [] := by
  cases ho : fs.old f with
  | nil => rfl
  | cons e es =>
    have := h.bound e.2.raw (by simp [FS.oldIds, ho])
    omega

theorem FileOK.written_other {fs : FS} {f f' : FileId} {n : Nat} (c : Content) (h : FileOK fs f' n) (hne : f' ≠ f) :
    FileOK (fs.written f c) f' n :=
  h.congr (by rw [FS.written_cur]; simp [upd, hne]) (FS.written_old_other _ _ _ _ hne)
    (FS.written_oldDir_other _ _ _ _ hne) (FS.written_clock _ _ _)

theorem FileOK.written_same {fs : FS} {f : FileId} {n : Nat} (h : FileOK fs f n) :
    FileOK (fs.written f (.full (n + 1))) f (n + 1) := by
  have hcur' : (fs.written f (.full (n + 1))).cur f = some (.full (n + 1)) := by rw [FS.written_cur]; simp
  by_cases hn : n = 0
  · subst hn
    have hc : fs.cur f = none := by simpa using h.cur
    have ho := FS.written_old_none fs f (.full 1) hc
    refine ⟨by simpa using hcur', ?_, ?_, ?_, ?_, ?_, ?_⟩
    · rw [ho]; exact h.full
    · simp only [FS.oldIds, ho]; exact h.sorted
    · simp only [FS.oldIds, ho]; intro g hg; have := h.bound g hg; omega
    · rw [ho]; exact h.times
    · rw [ho]; intro e he; exact Nat.lt_of_lt_of_le (h.clock e he) (FS.written_clock _ _ _)
    · rw [ho, FS.written_oldDir_none fs f _ hc]; exact h.dir
  · have hc : fs.cur f = some (.full n) := by simpa [hn] using h.cur
    obtain ⟨ho, hd, hk⟩ := FS.written_old_some fs f (.full (n + 1)) (.full n) hc
    refine ⟨by simpa using hcur', ?_, ?_, ?_, ?_, ?_, ?_⟩
    · rw [ho]; intro e he
      rcases List.mem_append.1 he with he | he
      · exact h.full e he
      · have : e = (fs.clock, Content.full n) := by simpa using he
        subst this; rfl
    · simp only [FS.oldIds, ho, List.map_append, List.map_cons, List.map_nil, Content.raw]
      rw [List.pairwise_append]
      refine ⟨h.sorted, by simp, ?_⟩
      intro a ha b hb
      have : b = n := by simpa using hb
      subst this
      exact (h.bound a ha).2
    · simp only [FS.oldIds, ho, List.map_append, List.map_cons, List.map_nil, Content.raw]
      intro g hg
      rcases List.mem_append.1 hg with hg | hg
      · have := h.bound g hg; omega
      · have : g = n := by simpa using hg
        omega
    · rw [ho, List.pairwise_append]
      refine ⟨h.times, by simp, ?_⟩
      intro a ha b hb
      have : b = (fs.clock, Content.full n) := by simpa using hb
      subst this
      exact h.clock a ha
    · rw [ho, hk]; intro e he
      rcases List.mem_append.1 he with he | he
      · have := h.clock e he; omega
      · have : e = (fs.clock, Content.full n) := by simpa using he
        subst this; simp
    · intro _; exact hd

theorem FS.written_old_length (fs : FS) (f : FileId) (c : Content) :
    ((fs.written f c).old f).length = (fs.old f).length + (if (fs.cur f).isSome then 1 else 0) := by
  cases h : fs.cur f with
  | none => simp [FS.written_old_none fs f c h]
  | some c0 => simp [(FS.written_old_some fs f c c0 h).1]

theorem priv_ne_pub (s s' : Slot) : privFile s ≠ pubFile s' := by simp [privFile, pubFile]
theorem pub_ne_priv (s s' : Slot) : pubFile s ≠ privFile s' := by simp [privFile, pubFile]
theorem priv_ne_priv {s s' : Slot} (h : s ≠ s') : privFile s ≠ privFile s' := by simp [privFile, h]
theorem pub_ne_pub {s s' : Slot} (h : s ≠ s') : pubFile s ≠ pubFile s' := by simp [pubFile, h]

/-- invariant of the storage in runs without destroy-current and without faults -/
structure FSInv (fs : FS) (count : Slot → Nat) : Prop where
  tmps : fs.tmps = []
  priv : ∀ s, FileOK fs (privFile s) (count s)
  pub : ∀ s, FileOK fs (pubFile s) (if s.kind.isPair then count s else 0)
  len : ∀ s, s.kind.isPair = true → (fs.old (pubFile s)).length = (fs.old (privFile s)).length

theorem FSInv.init : FSInv FS.init (fun _ => 0) := by
  have h : ∀ f, FileOK FS.init f 0 := fun f =>
    ⟨rfl, by simp [FS.init], by simp [FS.oldIds, FS.init], by simp [FS.oldIds, FS.init], by simp [FS.init],
      by simp [FS.init], by simp [FS.init]⟩
  exact ⟨rfl, fun s => h _, fun s => by simpa using h _, fun s _ => rfl⟩

theorem FSInv.generated {fs : FS} {count : Slot → Nat} (h : FSInv fs count) (s : Slot) :
    FSInv (fs.generated s (count s + 1)) (upd count s (count s + 1)) := by
  unfold FS.generated
  cases hp : s.kind.isPair
  · -- one file
    simp only [Bool.false_eq_true, if_false]
    refine ⟨FS.written_tmps _ _ _, ?_, ?_, ?_⟩
    · intro s'
      by_cases hs : s' = s
      · subst hs; simpa using (h.priv s').written_same
      · simpa [upd, hs] using (h.priv s').written_other _ (priv_ne_priv hs)
    · intro s'
      have := (h.pub s').written_other (f := privFile s) (.full (count s + 1)) (pub_ne_priv _ _)
      by_cases hs : s' = s
      · subst hs; simpa [hp] using this
      · simpa [upd, hs] using this
    · intro s' hp'
      have hs : s' ≠ s := by intro e; subst e; simp [hp] at hp'
      rw [FS.written_old_other _ _ _ _ (pub_ne_priv _ _), FS.written_old_other _ _ _ _ (priv_ne_priv hs)]
      exact h.len s' hp'
  · -- key pair: private file, then public file
    simp only [if_true]
    refine ⟨FS.written_tmps _ _ _, ?_, ?_, ?_⟩
    · intro s'
      by_cases hs : s' = s
      · subst hs
        simpa using ((h.priv s').written_same).written_other (f := pubFile s') _ (priv_ne_pub _ _)
      · simpa [upd, hs] using ((h.priv s').written_other _ (priv_ne_priv hs)).written_other (f := pubFile s) _ (priv_ne_pub _ _)
    · intro s'
      have h1 := (h.pub s').written_other (f := privFile s) (.full (count s + 1)) (pub_ne_priv _ _)
      by_cases hs : s' = s
      · subst hs
        simp only [hp, if_true] at h1
        simpa [hp] using h1.written_same
      · simpa [upd, hs] using h1.written_other (f := pubFile s) _ (pub_ne_pub hs)
    · intro s' hp'
      by_cases hs : s' = s
      · subst hs
        rw [FS.written_old_length, FS.written_old_other _ _ (privFile s') _ (priv_ne_pub _ _),
          FS.written_old_other _ _ (pubFile s') _ (pub_ne_priv _ _), FS.written_old_length, h.len s' hp']
        have e1 : (fs.written (privFile s') (.full (count s' + 1))).cur (pubFile s') = fs.cur (pubFile s') := by
          rw [FS.written_cur]; simp [upd, pub_ne_priv]
        rw [e1, (h.priv s').cur, (h.pub s').cur]
        simp only [hp', if_true]
      · rw [FS.written_old_other _ _ _ _ (pub_ne_pub hs), FS.written_old_other _ _ _ _ (pub_ne_priv _ _),
          FS.written_old_other _ _ _ _ (priv_ne_pub _ _), FS.written_old_other _ _ _ _ (priv_ne_priv hs)]
        exact h.len s' hp'

/-! ## destroy-rotated -/

theorem FS.drotted_fail {fs : FS} {f : FileId} {i : Nat} (h : (fs.drotted f i).2 = false) : (fs.drotted f i).1 = fs := by
  unfold FS.drotted at h ⊢
  split <;> simp_all

theorem FS.drotted_ok_iff (fs : FS) (f : FileId) (i : Nat) :
    (fs.drotted f i).2 = true ↔ (fs.oldDir f = true ∧ 2 ≤ i ∧ i ≤ (fs.old f).length + 1) := by
  unfold FS.drotted
  split <;> simp_all

theorem FS.drotted_fields (fs : FS) (f : FileId) (i : Nat) :
    (fs.drotted f i).1.cur = fs.cur ∧ (fs.drotted f i).1.oldDir = fs.oldDir ∧ (fs.drotted f i).1.clock = fs.clock ∧
    (fs.drotted f i).1.tmps = fs.tmps ∧ ∀ f', f' ≠ f → (fs.drotted f i).1.old f' = fs.old f' := by
  unfold FS.drotted
  split
  · refine ⟨rfl, rfl, rfl, rfl, ?_⟩
    intro f' hf'; simp [upd, hf']
  · exact ⟨rfl, rfl, rfl, rfl, fun _ _ => rfl⟩

theorem FS.drotted_old (fs : FS) (f : FileId) (i : Nat) (h : (fs.drotted f i).2 = true) :
    (fs.drotted f i).1.old f = (fs.old f).eraseIdx (i - 2) := by
  have h' := (FS.drotted_ok_iff fs f i).1 h
  unfold FS.drotted
  rw [if_pos h']
  simp

theorem FileOK.drotted_other {fs : FS} {f f' : FileId} {n : Nat} (i : Nat) (h : FileOK fs f' n) (hne : f' ≠ f) :
    FileOK (fs.drotted f i).1 f' n := by
  obtain ⟨h1, h2, h3, _, h5⟩ := FS.drotted_fields fs f i
  exact h.congr (by rw [h1]) (h5 f' hne) (by rw [h2]) (by rw [h3]; exact Nat.le_refl _)

theorem FileOK.drotted_same {fs : FS} {f : FileId} {n : Nat} (i : Nat) (h : FileOK fs f n) :
    FileOK (fs.drotted f i).1 f n := by
  cases hok : (fs.drotted f i).2
  · rw [FS.drotted_fail hok]; exact h
  · obtain ⟨h1, h2, h3, _, _⟩ := FS.drotted_fields fs f i
    have ho := FS.drotted_old fs f i hok
    have hsub : ((fs.old f).eraseIdx (i - 2)).Sublist (fs.old f) := List.eraseIdx_sublist _ _
    refine ⟨by rw [h1]; exact h.cur, ?_, ?_, ?_, ?_, ?_, ?_⟩
    · rw [ho]; intro e he; exact h.full e (hsub.subset he)
    · simp only [FS.oldIds, ho]; exact h.sorted.sublist (hsub.map _)
    · simp only [FS.oldIds, ho]; intro g hg; exact h.bound g ((hsub.map _).subset hg)
    · rw [ho]; exact h.times.sublist hsub
    · rw [ho, h3]; intro e he; exact h.clock e (hsub.subset he)
    · rw [ho, h2]; intro hne; apply h.dir; intro hnil; rw [hnil] at hne; simp at hne

/-- storage after destroy-rotated of slot `s`, in closed form -/
def FS.slotDrotted (fs : FS) (s : Slot) (i : Nat) : FS :=
  if ¬ s.kind.canDestroy then fs else
  if ¬ (fs.drotted (privFile s) i).2 then fs else
  if s.kind.isPair then ((fs.drotted (privFile s) i).1.drotted (pubFile s) i).1 else (fs.drotted (privFile s) i).1

theorem fsStep_gen {fs : FS} {count : Slot → Nat} (h : FSInv fs count) (s : Slot) :
    fsStep fs count (.gen s) = fs.generated s (count s + 1) := by
  simp [fsStep, applyAll_genCalls fs s _ h.tmps]

theorem fsStep_drot {fs : FS} {count : Slot → Nat} (h : FSInv fs count) (s : Slot) (i : Nat) :
    fsStep fs count (.drot s i) = fs.slotDrotted s i := by
  unfold fsStep FS.slotDrotted
  by_cases hc : s.kind.canDestroy = true
  · simp only [hc, not_true_eq_false, if_false]
    obtain ⟨e1, e2⟩ := applyAll_drotFileCalls fs (privFile s) i (h.priv s).distinct
    rw [e1, e2]
    cases hok : (fs.drotted (privFile s) i).2
    · simp [FS.drotted_fail hok]
    · simp only [not_true_eq_false, if_false, Bool.not_eq_true]
      cases hp : s.kind.isPair
      · simp
      · simp only [if_true]
        have hpub := ((h.pub s).drotted_other (f := privFile s) i (pub_ne_priv _ _)).distinct
        exact (applyAll_drotFileCalls _ (pubFile s) i hpub).1
  · simp [hc]

theorem FSInv.slotDrotted {fs : FS} {count : Slot → Nat} (h : FSInv fs count) (s : Slot) (i : Nat) :
    FSInv (fs.slotDrotted s i) count := by
  unfold FS.slotDrotted
  by_cases hc : s.kind.canDestroy = true
  · simp only [hc, not_true_eq_false, if_false]
    cases hok : (fs.drotted (privFile s) i).2
    · simpa using h
    · simp only [not_true_eq_false, if_false, Bool.not_eq_true]
      have h1 : FSInv (fs.drotted (privFile s) i).1 count → True := fun _ => trivial
      obtain ⟨c1, d1, k1, t1, o1⟩ := FS.drotted_fields fs (privFile s) i
      cases hp : s.kind.isPair
      · simp only [Bool.false_eq_true, if_false]
        refine ⟨by rw [t1]; exact h.tmps, ?_, ?_, ?_⟩
        · intro s'
          by_cases hs : s' = s
          · subst hs; exact (h.priv s').drotted_same i
          · exact (h.priv s').drotted_other i (priv_ne_priv hs)
        · intro s'; exact (h.pub s').drotted_other i (pub_ne_priv _ _)
        · intro s' hp'
          have hs : s' ≠ s := by intro e; subst e; simp [hp] at hp'
          rw [o1 _ (pub_ne_priv _ _), o1 _ (priv_ne_priv hs)]
          exact h.len s' hp'
      · simp only [if_true]
        obtain ⟨c2, d2, k2, t2, o2⟩ := FS.drotted_fields (fs.drotted (privFile s) i).1 (pubFile s) i
        refine ⟨by rw [t2, t1]; exact h.tmps, ?_, ?_, ?_⟩
        · intro s'
          by_cases hs : s' = s
          · subst hs; exact ((h.priv s').drotted_same i).drotted_other i (priv_ne_pub _ _)
          · exact ((h.priv s').drotted_other i (priv_ne_priv hs)).drotted_other i (priv_ne_pub _ _)
        · intro s'
          by_cases hs : s' = s
          · subst hs; exact ((h.pub s').drotted_other i (pub_ne_priv _ _)).drotted_same i
          · exact ((h.pub s').drotted_other i (pub_ne_priv _ _)).drotted_other i (pub_ne_pub hs)
        · intro s' hp'
          by_cases hs : s' = s
          · subst hs
            have hok' := (FS.drotted_ok_iff _ _ _).1 hok
            have hlen := h.len s' hp'
            have hpubold : (fs.drotted (privFile s') i).1.old (pubFile s') = fs.old (pubFile s') := o1 _ (pub_ne_priv _ _)
            have hok2 : ((fs.drotted (privFile s') i).1.drotted (pubFile s') i).2 = true := by
              rw [FS.drotted_ok_iff, hpubold, d1, hlen]
              refine ⟨?_, hok'.2.1, hok'.2.2⟩
              apply (h.pub s').dir
              intro hnil
              rw [hnil] at hlen
              simp at hlen
              omega
            rw [FS.drotted_old _ _ _ hok2, o2 _ (priv_ne_pub _ _), FS.drotted_old _ _ _ hok, hpubold]
            simp only [List.length_eraseIdx]
            rw [hlen]
          · rw [o2 _ (pub_ne_pub hs), o2 _ (priv_ne_pub _ _), o1 _ (pub_ne_priv _ _), o1 _ (priv_ne_priv hs)]
            exact h.len s' hp'
  · simpa [hc] using h

/-- **Invariant preservation**: every operation other than destroy-current keeps `FSInv`. -/
theorem fsStep_inv {fs : FS} {count : Slot → Nat} (h : FSInv fs count) (o : Op) (ho : o.isDcur = false) :
    FSInv (fsStep fs count o) (countStep count o) := by
  cases o with
  | gen s => rw [fsStep_gen h]; exact h.generated s
  | drot s i => rw [fsStep_drot h]; exact h.slotDrotted s i
  | dcur s => simp [Op.isDcur] at ho
  | _ => exact h

end AcraModel.Keystore
