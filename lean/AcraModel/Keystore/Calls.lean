import AcraModel.Keystore.V1Cache
import AcraModel.Keystore.V2Store
/-!
# Write operations under faults (C08)

Every write operation of both formats is executed as its sequence of storage/back-end calls with a
fault at the `k`-th call (0-based, counting the calls actually made): the call returns an error
(without being performed – the operation then follows the code's error path), the process crashes
just before it, just after it, or the call is torn (`WriteFile`/`Put` leave a strict prefix, then crash).
The result is the storage state, the trace of calls made (compared with the real code's trace) and
the outcome.
-/
namespace AcraModel.Keystore

inductive FaultMode | none | err | cb | ca | torn
deriving DecidableEq, Repr

structure Fault where
  mode : FaultMode
  k : Nat
deriving DecidableEq, Repr

inductive Outcome | ok | err | crash
deriving DecidableEq, Repr

/-- what happens at call number `idx` -/
def Fault.at (ft : Fault) (idx : Nat) : FaultMode := if ft.k = idx then ft.mode else .none

/-! ## v1 -/

/-- execution state of a v1 write operation -/
structure X1 where
  st : V1
  trace : List Call      -- calls made so far, newest first
  idx : Nat
  out : Outcome          -- `.ok` = still running fine
  fired : Bool           -- the fault has been delivered

def X1.note (x : X1) (c : Call) : X1 := { x with trace := c :: x.trace, idx := x.idx + 1 }

def X1.setFs (x : X1) (fs : FS) : X1 := { x with st := { x.st with fs := fs } }

/-- perform one call for real; `false` = it returned an error -/
def X1.perform (x : X1) (c : Call) : X1 × Bool :=
  match applyCall x.st.fs c with
  | some fs => (x.setFs fs, true)
  | none => (x, false)

/-- Execute calls under the fault. Error paths of `WriteKeyFile`/`backupHistoricalKeyFile`: an error of
`Stat` other than "not exist" lets the backup proceed (`MkdirAll(<f>.old)`, `Link`); a failing `Link`
falls back to `Copy`; every other error aborts the operation. `fuel` bounds the (at most two)
insertions this makes. -/
def X1.exec (ft : Fault) : Nat → X1 → List Call → X1
  | 0, x, _ => x
  | _, x, [] => x
  | fuel + 1, x, c :: cs =>
    if x.out ≠ .ok then x else
    let mode := if x.fired then FaultMode.none else ft.at x.idx
    let x1 := x.note c
    let x1 := if mode ≠ .none then { x1 with fired := true } else x1
    match mode with
    | .cb => { x1 with out := .crash }
    | .ca => { (x1.perform c).1 with out := .crash }
    | .torn =>
      match c with
      | .writeFile id f (.full g) => { (x1.perform (.writeFile id f (.torn g))).1 with out := .crash }
      | _ => { x1 with out := .crash }
    | .err =>
      match c with
      | .stat f =>
        -- not a "does not exist" answer: backupHistoricalKeyFile goes on to back the file up
        match cs with
        | .mkdirOld _ :: _ => X1.exec ft fuel x1 cs
        | _ => X1.exec ft fuel x1 (.mkdirOld f :: .link f :: cs)
      | .link f => X1.exec ft fuel x1 (.copy f :: cs)
      | _ => { x1 with out := .err }
    | .none =>
      match x1.perform c with
      | (x2, true) => X1.exec ft fuel x2 cs
      | (x2, false) =>
        match c with
        | .link f => X1.exec ft fuel x2 (.copy f :: cs)
        | _ => { x2 with out := .err }

def X1.run (ft : Fault) (x : X1) (cs : List Call) : X1 := X1.exec ft (2 * cs.length + 8) x cs

/-- `refreshCachedHistoricalPrivateKeyFilenames` as a step of the execution: a `ReadDir` when a list is cached -/
def X1.refresh (ft : Fault) (x : X1) (f : FileId) : X1 :=
  if x.out ≠ .ok then x else
  match x.st.cget (.names f) with
  | (st', some _) =>
    let x' := X1.run ft { x with st := st' } [.readDirHist f]
    if x'.out = .ok then { x' with st := (x'.st.loadNames f).1 } else x'
  | (st', none) => { x with st := st' }

def X1.cache (x : X1) (g : V1 → V1) : X1 := if x.out = .ok then { x with st := g x.st } else x

/-- one file of destroy-rotated under the fault -/
def X1.drotFile (ft : Fault) (x : X1) (f : FileId) (i : Nat) : X1 :=
  if x.out ≠ .ok then x else
  let (calls, ok) := drotFileCalls x.st.fs f i
  let x1 := X1.run ft x calls
  if x1.out ≠ .ok then x1
  else if ok then x1.refresh ft f else { x1 with out := .err }

/-- a write operation of the v1 keystore under a fault: state, trace (oldest first), outcome -/
def V1.stepF (st : V1) (ft : Fault) : Op → V1 × List Call × Outcome
  | .gen s =>
    let g := st.count s + 1
    let x0 : X1 := ⟨{ st with count := upd st.count s g }, [], 0, .ok, false⟩
    let x1 := X1.run ft x0 (genCalls st.fs s g)
    let x2 := match s.kind with
      | .sp | .pp => ((x1.cache fun st => (st.cadd (.rel (privFile s)) (.key g)).cadd (.rel (pubFile s)) (.key g)).refresh ft (privFile s))
      | .ss | .ps => x1.refresh ft (privFile s)
      | .hm | .al => x1.cache fun st => st.cadd (.rel (privFile s)) (.key g)
    (x2.st, x2.trace.reverse, x2.out)
  | .dcur s =>
    if ¬ s.kind.canDestroy then (st, [], .err) else
    let st1 := match s.kind with
      | .sp | .pp | .hm => (st.cadd (.rel (privFile s)) .nil).cadd (.rel (pubFile s)) .nil
      | _ => st.cadd (.rel (privFile s)) .nil
    let x := X1.run ft ⟨st1, [], 0, .ok, false⟩ (dcurCalls s)
    (x.st, x.trace.reverse, x.out)
  | .drot s i =>
    if ¬ s.kind.canDestroy then (st, [], .err) else
    let x1 := X1.drotFile ft ⟨st, [], 0, .ok, false⟩ (privFile s) i
    let x2 := if s.kind.isPair then X1.drotFile ft x1 (pubFile s) i else x1
    (x2.st, x2.trace.reverse, x2.out)
  | _ => (st, [], .err)

/-! ## v2 -/

structure X2 where
  st : V2
  trace : List BCall
  idx : Nat
  out : Outcome
  fired : Bool

/-- deliver one back-end call: returns the execution state after logging it and what to do:
`some true` perform, `some false` injected error (not performed), `none` crashed (`performBefore`
tells whether the call's effect `eff` happened first). -/
def X2.call (ft : Fault) (x : X2) (c : BCall) (eff : V2 → V2) : X2 × Option Bool :=
  let mode := if x.fired then FaultMode.none else ft.at x.idx
  let x1 : X2 := { x with trace := c :: x.trace, idx := x.idx + 1, fired := x.fired || mode ≠ .none }
  match mode with
  | .none => ({ x1 with st := eff x1.st }, some true)
  | .err => (x1, some false)
  | .cb => ({ x1 with out := .crash }, none)
  | .ca => ({ x1 with st := eff x1.st, out := .crash }, none)
  | .torn =>
    match c with
    | .putNew _ => ({ x1 with st := eff x1.st, out := .crash }, none)   -- a torn temporary is still a leftover
    | _ => ({ x1 with out := .crash }, none)

/-- unlock after a failure inside the locked region (deferred `Unlock`), then report the error -/
def X2.unlockFail (ft : Fault) (x : X2) : X2 :=
  match x.call ft .unlock id with
  | (x', some _) => { x' with out := .err }
  | (x', none) => x'

/-- One locked phase on ring `s`: `Lock, Get, [Put .new, Rename], Unlock`. `compute` maps the stored
ring (`none` = missing) to the ring to install (`some (some r)`), to "nothing to write" (`some none`),
or to a failure (`none`). -/
def X2.phase (ft : Fault) (x : X2) (s : Slot) (compute : Option Ring → Option (Option Ring)) : X2 :=
  if x.out ≠ .ok then x else
  match x.call ft .lock id with
  | (x, none) => x
  | (x, some false) => { x with out := .err }
  | (x, some true) =>
  match x.call ft (.get s) id with
  | (x, none) => x
  | (x, some false) => x.unlockFail ft
  | (x, some true) =>
  match compute (x.st.rings s) with
  | none => x.unlockFail ft
  | some none =>
    (match x.call ft .unlock id with
     | (x, some false) => { x with out := .err }
     | (x, _) => x)
  | some (some r) =>
    -- Put is exclusive: a leftover temporary makes it fail
    if x.st.newTmp s then
      (match x.call ft (.putNew s) id with
       | (x, none) => x
       | (x, some _) => x.unlockFail ft)
    else
    match x.call ft (.putNew s) (fun st => { st with newTmp := upd st.newTmp s true }) with
    | (x, none) => x
    | (x, some false) => x.unlockFail ft
    | (x, some true) =>
    match x.call ft (.renameNew s) (fun st => { st with rings := upd st.rings s (some r), newTmp := upd st.newTmp s false }) with
    | (x, none) => x
    | (x, some false) => x.unlockFail ft
    | (x, some true) =>
    match x.call ft .unlock id with
    | (x, some false) => { x with out := .err }
    | (x, _) => x

/-- `OpenKeyRingRW` -/
def X2.openRW (ft : Fault) (x : X2) (s : Slot) : X2 :=
  x.phase ft s fun r => match r with | some _ => some none | none => some (some Ring.empty)

/-- `writeKeyRing` with transactions computed from the ring the handle saw when it was opened -/
def writeCompute (txs : List Tx) : Option Ring → Option (Option Ring)
  | some r => (applyTxs r txs).map some
  | none => none

def X2.write (ft : Fault) (x : X2) (s : Slot) (txs : List Tx) : X2 :=
  x.phase ft s (writeCompute txs)

def V2.stepF (st : V2) (ft : Fault) : Op → V2 × List BCall × Outcome
  | .gen s =>
    let g := st.count s + 1
    let x0 : X2 := ⟨{ st with count := upd st.count s g }, [], 0, .ok, false⟩
    let x1 := x0.openRW ft s
    let r := (x1.st.rings s).getD Ring.empty
    let q := r.nextSeq
    let x2 := x1.write ft s [.addKey ⟨q, .preActive, some g⟩]
    let cur := ((x2.st.rings s).getD Ring.empty).current
    let x3 := x2.write ft s [.setCurrent cur (some q)]
    (x3.st, x3.trace.reverse, x3.out)
  | .dcur s =>
    if ¬ s.kind.canDestroy then (st, [], .err) else
    let x1 := (⟨st, [], 0, .ok, false⟩ : X2).openRW ft s
    if x1.out ≠ .ok then (x1.st, x1.trace.reverse, x1.out) else
    let r := (x1.st.rings s).getD Ring.empty
    match r.current.bind r.find with
    | none => (x1.st, x1.trace.reverse, .err)
    | some k =>
      if ¬ transitionValid k.state .destroyed then (x1.st, x1.trace.reverse, .err) else
      let x2 := x1.write ft s [.destroyData k.seq k.data, .changeState k.seq k.state .destroyed]
      (x2.st, x2.trace.reverse, x2.out)
  | .drot s i =>
    if ¬ s.kind.canDestroy then (st, [], .err) else
    let x1 := (⟨st, [], 0, .ok, false⟩ : X2).openRW ft s
    if x1.out ≠ .ok then (x1.st, x1.trace.reverse, x1.out) else
    let r := (x1.st.rings s).getD Ring.empty
    match r.rotatedActive with
    | none => (x1.st, x1.trace.reverse, .err)
    | some act =>
      if i - 1 > act.length then (x1.st, x1.trace.reverse, .err) else
      match (act[i - Generated.KeyNames.v2DestroyIndexOffset]?).bind r.find with
      | none => (x1.st, x1.trace.reverse, .err)
      | some k =>
        if ¬ transitionValid k.state .destroyed then (x1.st, x1.trace.reverse, .err) else
        let x2 := x1.write ft s [.destroyData k.seq k.data, .changeState k.seq k.state .destroyed]
        (x2.st, x2.trace.reverse, x2.out)
  | _ => (st, [], .err)

end AcraModel.Keystore
