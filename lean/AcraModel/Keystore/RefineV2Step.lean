import AcraModel.Keystore.RefineV2
/-!
# v2: per-step simulation `V2.step ⊑ Spec.stepApi .v2` and refinement of whole runs
-/
namespace AcraModel.Keystore

theorem upd_upd {α β} [DecidableEq α] (f : α → β) (a : α) (b c : β) : upd (upd f a b) a c = upd f a c := by
  funext x; by_cases h : x = a <;> simp [upd, h]

/-- The slot whose ring an operation opens *read-write*: `OpenKeyRingRW` creates an empty ring when
the slot has none – the poison-key readers and every destroy do that. -/
def Op.opensRW : Op → Option Slot
  | .cur s | .all s => if s.kind = .pp ∨ s.kind = .ps then some s else none
  | .pub s => if s.kind = .pp then some s else none
  | .drot s _ | .dcur s => if s.kind.canDestroy then some s else none
  | _ => none

/-- destroy-rotated is called with a listed index (the listing starts at 2) -/
def Op.idxOk : Op → Bool
  | .drot _ i => decide (2 ≤ i)
  | _ => true

/-- Invariant of the v2 back end in runs without destroy-current, without faults and without rings
that were created empty: no leftover temporary; a slot has a ring exactly when it was generated, and
that ring satisfies `RingOK`. -/
structure V2.Inv (st : V2) : Prop where
  tmp : ∀ s, st.newTmp s = false
  ring : ∀ s, (st.rings s = none ∧ st.count s = 0) ∨ (∃ r, st.rings s = some r ∧ st.count s ≠ 0 ∧ RingOK r (st.count s))

theorem V2.Inv.init : V2.init.Inv := ⟨fun _ => rfl, fun _ => Or.inl ⟨rfl, rfl⟩⟩

theorem V2.push_ok (st : V2) (s : Slot) (r : Ring) (h : st.newTmp s = false) :
    st.push s r = some { st with rings := upd st.rings s (some r) } := by
  simp [V2.push, h]

theorem V2.write_ok (st : V2) (s : Slot) (txs : List Tx) (r r' : Ring) (hr : st.rings s = some r)
    (ht : applyTxs r txs = some r') (hn : st.newTmp s = false) :
    st.write s txs = some { st with rings := upd st.rings s (some r') } := by
  simp [V2.write, hr, ht, V2.push, hn]

theorem V2.openRW_some (st : V2) (s : Slot) (r : Ring) (hr : st.rings s = some r) : st.openRW s = some (st, r) := by
  simp [V2.openRW, hr]

/-- generate/rotate on the back end: the ring of the slot gets the new key as its current key -/
theorem V2.step_gen (st : V2) (s : Slot) (hinv : st.Inv) :
    st.step (.gen s) = ({ rings := upd st.rings s (some (((st.rings s).getD Ring.empty).added (st.count s))),
                          newTmp := st.newTmp, count := upd st.count s (st.count s + 1) }, .ok) := by
  have htmp := hinv.tmp s
  rcases hinv.ring s with ⟨hr, hn⟩ | ⟨r, hr, hn, hok⟩
  · have hok0 : RingOK Ring.empty (st.count s) := hn ▸ RingOK.empty
    have hw1 := V2.write_ok (V2.mk (upd st.rings s (some Ring.empty)) st.newTmp (upd st.count s (st.count s + 1)))
      s _ Ring.empty _ (by simp) hok0.addKey htmp
    have hw2 := V2.write_ok (V2.mk (upd st.rings s
        (some ⟨Ring.empty.keys ++ [⟨st.count s + 1, .preActive, some (st.count s + 1)⟩], Ring.empty.current⟩))
        st.newTmp (upd st.count s (st.count s + 1)))
      s _ _ _ (by simp) hok0.setCurrent htmp
    simp only [upd_upd] at hw1 hw2
    simp only [V2.step, V2.openRW, hr, V2.push_ok st s _ htmp, Option.map_some, hok0.nextSeq, hw1, upd_same, hw2]
    simp
  · have hw1 := V2.write_ok (V2.mk st.rings st.newTmp (upd st.count s (st.count s + 1)))
      s _ r _ hr hok.addKey htmp
    have hw2 := V2.write_ok (V2.mk (upd st.rings s
        (some ⟨r.keys ++ [⟨st.count s + 1, .preActive, some (st.count s + 1)⟩], r.current⟩))
        st.newTmp (upd st.count s (st.count s + 1)))
      s _ _ _ (by simp) hok.setCurrent htmp
    simp only [upd_upd] at hw1 hw2
    simp only [V2.step, V2.openRW_some st s r hr, hok.nextSeq, hw1, upd_same, hw2]
    simp [hr]

theorem V2.Inv.gen {st : V2} (hinv : st.Inv) (s : Slot) : (st.step (.gen s)).1.Inv := by
  rw [V2.step_gen st s hinv]
  refine ⟨hinv.tmp, ?_⟩
  intro s'
  by_cases hs : s' = s
  · subst hs
    refine Or.inr ⟨((st.rings s').getD Ring.empty).added (st.count s'), by simp, by simp, ?_⟩
    simp only [upd_same]
    rcases hinv.ring s' with ⟨hr, hn⟩ | ⟨r, hr, hn, hok⟩
    · rw [hr, hn]; exact RingOK.empty.added
    · rw [hr]; exact hok.added
  · simpa [upd, hs] using hinv.ring s'

theorem V2.abs_gen {st : V2} (hinv : st.Inv) (s : Slot) :
    (st.step (.gen s)).1.abs = upd st.abs s (st.abs s).generate := by
  rw [V2.step_gen st s hinv]
  funext s'
  by_cases hs : s' = s
  · subst hs
    simp only [V2.abs, upd_same]
    rcases hinv.ring s' with ⟨hr, hn⟩ | ⟨r, hr, hn, hok⟩
    · rw [hr, hn]; rfl
    · rw [hr]; exact Ring.abs_added r _ hok.len
  · simp [V2.abs, upd, hs]

theorem V2.Inv.openForRead {st : V2} (hinv : st.Inv) (s : Slot)
    (h : (s.kind = .pp ∨ s.kind = .ps) → st.count s ≠ 0) :
    st.openForRead s = (st.rings s).map fun r => (st, r) := by
  unfold V2.openForRead
  have hrw : (s.kind = .pp ∨ s.kind = .ps) → st.openRW s = (st.rings s).map fun r => (st, r) := by
    intro hk
    rcases hinv.ring s with ⟨_, hn⟩ | ⟨r, hr, _, _⟩
    · exact absurd hn (h hk)
    · simp [V2.openRW_some st s r hr, hr]
  cases hk : s.kind <;> simp only [] <;> first | rfl | exact hrw (by simp [hk])

theorem V2.abs_isEmpty {st : V2} (hinv : st.Inv) (s : Slot) : (st.abs s).isEmpty = (st.rings s).isNone := by
  rcases hinv.ring s with ⟨hr, _⟩ | ⟨r, hr, hn, hok⟩
  · simp [V2.abs, hr]
  · have : r.keys ≠ [] := by intro h; have := hok.len; rw [h] at this; simp at this; omega
    simp [V2.abs, hr, Ring.abs, this]

theorem V2.list_abs {st : V2} (hinv : st.Inv) : (st.step .list) = (st, Spec.listing .v2 st.abs) := by
  have h1 : kindsWithRings.any (fun s => st.newTmp s) = false := by
    simp [List.any_eq_false, hinv.tmp]
  have h2 : kindsWithRings.any (fun s => (st.rings s).any (·.current.isNone)) = false := by
    rw [List.any_eq_false]
    intro s _
    rcases hinv.ring s with ⟨hr, _⟩ | ⟨r, hr, hn, hok⟩
    · simp [hr]
    · simp [hr, hok.cur, hn]
  have hf : kindsWithRings.filter (st.abs.hasFile ∘ privFile) = kindsWithRings.filter (fun s => (st.rings s).isSome) := by
    apply List.filter_congr
    intro s _
    simp [Spec.hasFile, privFile, V2.abs_isEmpty hinv]
  simp only [V2.step, h1, h2, Bool.false_eq_true, if_false, Spec.listing, Fmt.files, List.filter_map, List.map_map, hf]
  rfl

theorem listRot_aux (st : V2) (hinv : st.Inv) (L : List Slot) :
    ((L.filterMap fun s => (st.rings s).map fun r => (s, r.rotatedActive)).any (·.2.isNone) = false) ∧
    (((L.filterMap fun s => (st.rings s).map fun r => (s, r.rotatedActive)).filterMap
        fun (x : Slot × Option (List Nat)) => x.2.map fun l => ((x.1, false), l.length)).filter (·.2 ≠ 0)) =
      (((L.map privFile).filter fun f => st.abs.hasFile f && !(st.abs f.slot).rotated.isEmpty).map fun f =>
        ((f.slot, f.pub), (st.abs f.slot).rotated.length)) := by
  induction L with
  | nil => exact ⟨rfl, rfl⟩
  | cons s L ih =>
    rcases hinv.ring s with ⟨hr, _⟩ | ⟨r, hr, hn, hok⟩
    · have he : (st.abs s).isEmpty = true := by rw [V2.abs_isEmpty hinv, hr]; rfl
      have hP : (st.abs.hasFile (privFile s) && !(st.abs (privFile s).slot).rotated.isEmpty) = false := by
        simp [Spec.hasFile, privFile, he]
      simp only [List.filterMap_cons, hr, Option.map_none, List.map_cons, List.filter_cons, hP, Bool.false_eq_true, if_false]
      exact ih
    · have he : (st.abs s).isEmpty = false := by rw [V2.abs_isEmpty hinv, hr]; rfl
      have hrot : (st.abs s).rotated = (r.keys.dropLast.filter Key2.alive).map (·.seq) := by
        simp only [V2.abs, hr]; exact hok.rotated_abs
      have hslot : (privFile s).slot = s := rfl
      have hpub : (privFile s).pub = false := rfl
      have hact := hok.rotatedActive
      generalize (r.keys.dropLast.filter Key2.alive).map (·.seq) = rot at hrot hact
      have hhas : st.abs.hasFile (privFile s) = true := by simp [Spec.hasFile, hpub, hslot, he]
      by_cases hl : rot = []
      · subst hl
        simp only [List.filterMap_cons, hr, Option.map_some, hact, List.any_cons, Option.isNone_some, Bool.false_or,
          ih.1, List.map_cons, List.filter_cons, hslot, hrot, List.isEmpty_nil, Bool.not_true, Bool.and_false,
          Bool.false_eq_true, if_false, List.length_nil, ne_eq, not_true_eq_false, decide_false, true_and]
        exact ih.2
      · have hlen : rot.length ≠ 0 := by
          intro h; exact hl (List.eq_nil_of_length_eq_zero h)
        have hie : rot.isEmpty = false := by simpa [List.isEmpty_iff] using hl
        simp only [List.filterMap_cons, hr, Option.map_some, hact, List.any_cons, Option.isNone_some, Bool.false_or,
          ih.1, List.map_cons, List.filter_cons, hslot, hrot, hhas, hie, Bool.not_false, Bool.and_true, if_true, ne_eq, hlen,
          not_false_eq_true, decide_true, true_and, hpub]
        rw [ih.2]

theorem V2.listRot_abs {st : V2} (hinv : st.Inv) : (st.step .listRot) = (st, Spec.rotListing .v2 st.abs) := by
  have h1 : kindsWithRings.any (fun s => st.newTmp s) = false := by
    simp [List.any_eq_false, hinv.tmp]
  obtain ⟨h2, h3⟩ := listRot_aux st hinv kindsWithRings
  simp only [V2.step, h1, Bool.false_eq_true, if_false, h2, Spec.rotListing, Fmt.files]
  rw [← h3]

theorem RingOK.init_seq_ne {r : Ring} {n : Nat} (h : RingOK r n) {k : Key2} (hk : k ∈ r.keys.dropLast) : k.seq ≠ n := by
  by_cases hn : n = 0
  · have := h.seq_bound (List.dropLast_subset _ hk); omega
  · obtain ⟨init, last, hkeys, hseq, _, _⟩ := h.split hn
    have hd := h.distinct
    simp only [Ring.Distinct, hkeys, List.pairwise_append] at hd
    rw [hkeys, List.dropLast_concat] at hk
    have := hd.2.2 k hk last (by simp)
    rwa [hseq] at this

theorem V2.abs_of_ring {st : V2} {s : Slot} {r : Ring} (hr : st.rings s = some r) : st.abs s = r.abs := by
  simp [V2.abs, hr]

theorem V2.abs_of_none {st : V2} {s : Slot} (hr : st.rings s = none) : st.abs s = [] := by
  simp [V2.abs, hr]

theorem transition_pre_destroyed : transitionValid .preActive .destroyed = true := by decide

local macro "triv" : tactic => `(tactic| first | rfl | trivial)

/-- destroy-rotated on the back end, for a listed index -/
theorem V2.step_drot (st : V2) (s : Slot) (i : Nat) (hinv : st.Inv) (hc : s.kind.canDestroy = true) (hn : st.count s ≠ 0)
    (hi : 2 ≤ i) :
    (st.step (.drot s i)).1.Inv ∧ (st.step (.drot s i)).1.abs = (Spec.step st.abs (.drot s i)).1 ∧
    (st.step (.drot s i)).2 = (Spec.step st.abs (.drot s i)).2 ∧ (st.step (.drot s i)).1.count = st.count := by
  rcases hinv.ring s with ⟨_, h0⟩ | ⟨r, hr, _, hok⟩
  · exact absurd h0 hn
  · have hoff : Generated.KeyNames.v2DestroyIndexOffset = 2 := rfl
    have hrot : (st.abs s).rotated = (r.keys.dropLast.filter Key2.alive).map (·.seq) := by
      rw [V2.abs_of_ring hr]; exact hok.rotated_abs
    have hi2 : (i < 2) = False := by simp; omega
    simp only [V2.step, hc, not_true_eq_false, if_false, V2.openRW_some st s r hr, hok.rotatedActive, hoff, Spec.step,
      SpecSlot.destroyRotated, SpecSlot.listedAt, hi, if_true, hrot, hi2, false_or]
    by_cases hlen : i - 1 > ((r.keys.dropLast.filter Key2.alive).map (·.seq)).length
    · have hnone : ((r.keys.dropLast.filter Key2.alive).map (·.seq))[i - 2]? = none := by
        apply List.getElem?_eq_none; omega
      simp only [hlen, if_true, hnone, Option.map_none]
      exact ⟨hinv, by triv, by triv, by triv⟩
    · have hlt : i - 2 < ((r.keys.dropLast.filter Key2.alive).map (·.seq)).length := by omega
      have hget := List.getElem?_eq_getElem hlt
      have hmem := List.getElem_mem hlt
      generalize ((r.keys.dropLast.filter Key2.alive).map (·.seq))[i - 2] = q at hget hmem
      obtain ⟨k, hk, hkq⟩ := List.mem_map.1 hmem
      obtain ⟨hkd, hka⟩ := List.mem_filter.1 hk
      have hkmem : k ∈ r.keys := List.dropLast_subset _ hkd
      have hfind : r.find q = some k := by rw [← hkq]; exact hok.find_mem hkmem
      have hst : k.state = .preActive := by
        rcases hok.st k hkmem with ⟨h1, _⟩ | ⟨h1, _⟩
        · exact h1
        · simp [Key2.alive, h1] at hka
      have hqn : q ≠ st.count s := by rw [← hkq]; exact hok.init_seq_ne hkd
      have hw := V2.write_ok st s _ r _ hr (Ring.destroy_txs r q k hfind) (hinv.tmp s)
      simp only [hlen, if_false, hget, hfind, hst, transition_pre_destroyed, not_true_eq_false, Option.map_some]
      rw [hst] at hw
      simp only [hw]
      refine ⟨⟨hinv.tmp, ?_⟩, ?_, by triv, by triv⟩
      · intro s'
        by_cases hs : s' = s
        · subst hs
          exact Or.inr ⟨r.destroyed q, by simp, hn, hok.destroyed q hqn⟩
        · simpa [upd, hs] using hinv.ring s'
      · funext s'
        by_cases hs : s' = s
        · subst hs
          simp only [V2.abs, upd_same, hr]
          exact Ring.abs_destroyed r q
        · simp [V2.abs, upd, hs]

/-- **Per-step simulation (v2).** From a state satisfying the invariant, every operation other than
destroy-current that does not open a never-generated ring read-write, with destroy-rotated called
with a listed index, keeps the invariant, commutes with the abstraction function and shows exactly
the observation the specification prescribes. -/
theorem V2.step_sim (st : V2) (o : Op) (hinv : st.Inv) (ho : o.isDcur = false)
    (hrw : ∀ s, o.opensRW = some s → st.count s ≠ 0) (hidx : o.idxOk = true) :
    (st.step o).1.Inv ∧ (st.step o).1.abs = (Spec.stepApi .v2 st.abs o).1 ∧
    (st.step o).2 = (Spec.stepApi .v2 st.abs o).2 ∧ (st.step o).1.count = countStep st.count o := by
  cases o with
  | gen s =>
    refine ⟨hinv.gen s, ?_, ?_, ?_⟩
    · rw [V2.abs_gen hinv]; rfl
    · rw [V2.step_gen st s hinv]; rfl
    · rw [V2.step_gen st s hinv]; rfl
  | cur s =>
    have hopen := hinv.openForRead s (fun hk => hrw s (by simp [Op.opensRW, hk]))
    simp only [V2.step, hopen, Spec.stepApi]
    rcases hinv.ring s with ⟨hr, _⟩ | ⟨r, hr, hn, hok⟩
    · simp only [hr, Option.map_none, V2.abs_of_none hr]
      exact ⟨hinv, by triv, by triv, by triv⟩
    · simp only [hr, Option.map_some, V2.abs_of_ring hr, hok.material_current, hok.current_abs, hn, if_false]
      refine ⟨hinv, by triv, ?_, by triv⟩
      by_cases hk : s.kind = .pp <;> simp [hk]
  | pub s =>
    simp only [V2.step, Spec.stepApi]
    by_cases hp : s.kind.isPair = true
    · have hopen := hinv.openForRead s (fun hk => by
        rcases hk with hk | hk
        · exact hrw s (by simp [Op.opensRW, hk])
        · simp [hk, Kind.isPair] at hp)
      simp only [hp, not_true_eq_false, if_false, if_true, hopen]
      rcases hinv.ring s with ⟨hr, _⟩ | ⟨r, hr, hn, hok⟩
      · simp only [hr, Option.map_none, V2.abs_of_none hr]
        exact ⟨hinv, by triv, by triv, by triv⟩
      · simp only [hr, Option.map_some, V2.abs_of_ring hr, hok.material_current, hok.current_abs, hn, if_false]
        exact ⟨hinv, by triv, by triv, by triv⟩
    · simp only [hp, not_false_eq_true, if_true, Bool.false_eq_true, if_false]
      exact ⟨hinv, by triv, by triv, by triv⟩
  | all s =>
    simp only [V2.step, Spec.stepApi]
    by_cases ha : s.kind.hasAll = true
    · have hopen := hinv.openForRead s (fun hk => hrw s (by simp [Op.opensRW, hk]))
      simp only [ha, not_true_eq_false, if_false, if_true, hopen, Spec.step]
      rcases hinv.ring s with ⟨hr, _⟩ | ⟨r, hr, hn, hok⟩
      · simp only [hr, Option.map_none, V2.abs_of_none hr]
        exact ⟨hinv, by triv, by triv, by triv⟩
      · have hsurv := hok.survivors hn
        have hne : r.abs.survivors ≠ [] := by rw [hsurv]; simp
        rw [Ring.survivors_abs] at hne
        simp only [hr, Option.map_some, V2.abs_of_ring hr, hok.allMaterial, Ring.survivors_abs, SpecSlot.allNewestFirst, hne,
          if_false, List.reverse_eq_nil_iff, false_and]
        exact ⟨hinv, by triv, by triv, by triv⟩
    · simp only [ha, not_false_eq_true, if_true, Bool.false_eq_true, if_false]
      exact ⟨hinv, by triv, by triv, by triv⟩
  | list =>
    rw [V2.list_abs hinv]
    exact ⟨hinv, by triv, by triv, by triv⟩
  | listRot =>
    rw [V2.listRot_abs hinv]
    exact ⟨hinv, by triv, by triv, by triv⟩
  | dcur s => simp [Op.isDcur] at ho
  | drot s i =>
    by_cases hc : s.kind.canDestroy = true
    · have hi : 2 ≤ i := by simpa [Op.idxOk] using hidx
      have := V2.step_drot st s i hinv hc (hrw s (by simp [Op.opensRW, hc])) hi
      simpa [Spec.stepApi, hc, countStep] using this
    · simp only [V2.step, Spec.stepApi, hc, not_false_eq_true, if_true, Bool.false_eq_true, if_false]
      exact ⟨hinv, by triv, by triv, by triv⟩
  | reset => exact ⟨hinv, by triv, by triv, by triv⟩
  | reopen => exact ⟨hinv, by triv, by triv, by triv⟩

/-! ## whole runs -/

/-- Every operation that opens a ring read-write comes after a generation of its slot
(`seen` = slots generated so far). -/
def genFirst (seen : Slot → Bool) : List Op → Bool
  | [] => true
  | o :: os =>
    (match o.opensRW with | some s => seen s | none => true) &&
    genFirst (match o with | .gen s => upd seen s true | _ => seen) os

theorem V2.run_sim (ops : List Op) (st : V2) (seen : Slot → Bool) (hinv : st.Inv)
    (hseen : ∀ s, seen s = true → st.count s ≠ 0)
    (hops : ∀ o ∈ ops, o.isDcur = false ∧ o.idxOk = true) (hgf : genFirst seen ops = true) :
    (st.run ops).1.Inv ∧ (st.run ops).1.abs = (Spec.runApi .v2 st.abs ops).1 ∧ (st.run ops).2 = (Spec.runApi .v2 st.abs ops).2 := by
  induction ops generalizing st seen with
  | nil => exact ⟨hinv, rfl, rfl⟩
  | cons o os ih =>
    simp only [genFirst, Bool.and_eq_true] at hgf
    have hrw : ∀ s, o.opensRW = some s → st.count s ≠ 0 := by
      intro s hs
      rw [hs] at hgf
      exact hseen s hgf.1
    obtain ⟨h1, h2, h3, h4⟩ := V2.step_sim st o hinv (hops o (by simp)).1 hrw (hops o (by simp)).2
    have hcount : ∀ s, (match o with | .gen s => upd seen s true | _ => seen) s = true → (st.step o).1.count s ≠ 0 := by
      intro s hs
      rw [h4]
      cases o with
      | gen s0 =>
        simp only [countStep]
        by_cases hss : s = s0
        · subst hss; simp
        · simp only [upd, hss, if_false] at hs ⊢; exact hseen s hs
      | _ => exact hseen s hs
    obtain ⟨i1, i2, i3⟩ := ih (st.step o).1 _ h1 hcount (fun o' ho' => hops o' (by simp [ho'])) hgf.2
    simp only [V2.run, Spec.runApi]
    rw [← h2, ← h3]
    exact ⟨i1, i2, by rw [i3]⟩

end AcraModel.Keystore
