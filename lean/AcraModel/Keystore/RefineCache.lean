import AcraModel.Keystore.RefineV1Step
/-!
# v1 key cache: what a lookup sees, and how every reader may change it

The LRU (any capacity, `0` = unbounded) is abstracted to the partial map `V1.look`. Every cache
primitive either leaves an entry alone, forgets it (eviction, `Clear`) or sets it to a value just
loaded from the storage – `Evol F st st'`: every entry of `st'` was already in `st` or satisfies `F`.
-/
namespace AcraModel.Keystore

def LRU.look (c : LRU) (k : CKey) : Option CVal := (c.items.find? (·.1 = k)).map (·.2)

/-- what a cache lookup of `k` would return (`none`: miss, or no cache at all) -/
def V1.look (st : V1) (k : CKey) : Option CVal := match st.cache with
  | none => none
  | some c => c.look k

theorem find_filter_ne (l : List (CKey × CVal)) {k k' : CKey} (h : k' ≠ k) :
    (l.filter (·.1 ≠ k)).find? (·.1 = k') = l.find? (·.1 = k') := by
  induction l with
  | nil => rfl
  | cons x xs ih =>
    by_cases hx : x.1 = k
    · have hxk' : ¬ x.1 = k' := fun e => h (e ▸ hx ▸ rfl)
      have hf : (x :: xs).filter (·.1 ≠ k) = xs.filter (·.1 ≠ k) := by
        rw [List.filter_cons]; simp [hx]
      rw [hf, ih, List.find?_cons]
      simp [hxk']
    · have hf : (x :: xs).filter (·.1 ≠ k) = x :: xs.filter (·.1 ≠ k) := by
        rw [List.filter_cons]; simp [hx]
      rw [hf, List.find?_cons, List.find?_cons, ih]

theorem find_dropLast {α} (p : α → Bool) (l : List α) : l.dropLast.find? p = l.find? p ∨ l.dropLast.find? p = none := by
  rcases List.eq_nil_or_concat l with rfl | ⟨l', a, rfl⟩
  · exact Or.inl rfl
  · rw [List.concat_eq_append, List.dropLast_concat, List.find?_append]
    cases h : l'.find? p with
    | none => exact Or.inr rfl
    | some x => exact Or.inl (by simp)

theorem LRU.get_snd (c : LRU) (k : CKey) : (c.get k).2 = c.look k := by
  unfold LRU.get LRU.look
  cases c.items.find? (·.1 = k) <;> rfl

theorem LRU.get_look (c : LRU) (k k' : CKey) : (c.get k).1.look k' = c.look k' := by
  unfold LRU.get LRU.look
  cases h : c.items.find? (·.1 = k) with
  | none => rfl
  | some e =>
    have hek : e.1 = k := by simpa using List.find?_some h
    simp only
    by_cases hk : k' = k
    · subst hk; simp [List.find?_cons, hek, h]
    · have : ¬ e.1 = k' := fun e' => hk (e' ▸ hek ▸ rfl)
      simp only [List.find?_cons, this, decide_false]
      rw [find_filter_ne _ hk]

theorem LRU.add_look_same (c : LRU) (k : CKey) (v : CVal) : (c.add k v).look k = some v := by
  unfold LRU.add LRU.look
  split
  · simp
  · simp only
    split
    · rename_i hlen
      cases hi : c.items with
      | nil => simp [hi] at hlen
      | cons x xs => simp [List.dropLast]
    · simp

theorem LRU.add_look_other (c : LRU) (k k' : CKey) (v : CVal) (h : k' ≠ k) :
    (c.add k v).look k' = c.look k' ∨ (c.add k v).look k' = none := by
  have hk : ¬ k = k' := fun e => h e.symm
  unfold LRU.add LRU.look
  split
  · left
    simp only [List.find?_cons, hk, decide_false]
    rw [find_filter_ne _ h]
  · simp only
    split
    · rename_i hlen
      cases hi : c.items with
      | nil => simp [hi] at hlen
      | cons x xs =>
        have : ((k, v) :: x :: xs).dropLast = (k, v) :: (x :: xs).dropLast := rfl
        rw [this]
        simp only [List.find?_cons, hk, decide_false]
        rcases find_dropLast (fun e : CKey × CVal => decide (e.1 = k')) (x :: xs) with h1 | h1
        · left; rw [h1]; simp [List.find?_cons]
        · right; rw [h1]; rfl
    · left; simp [List.find?_cons, hk]

/-! ## the store's primitives -/

theorem V1.cget_snd (st : V1) (k : CKey) : (st.cget k).2 = st.look k := by
  obtain ⟨fs, cache, count⟩ := st
  cases cache with
  | none => rfl
  | some c => exact LRU.get_snd c k

theorem V1.cget_look (st : V1) (k k' : CKey) : (st.cget k).1.look k' = st.look k' := by
  obtain ⟨fs, cache, count⟩ := st
  cases cache with
  | none => rfl
  | some c => exact LRU.get_look c k k'

theorem V1.cadd_look_same (st : V1) (k : CKey) (v : CVal) :
    (st.cadd k v).look k = some v ∨ (st.cadd k v).look k = none := by
  obtain ⟨fs, cache, count⟩ := st
  cases cache with
  | none => exact Or.inr rfl
  | some c => exact Or.inl (LRU.add_look_same c k v)

theorem V1.cadd_look_other (st : V1) (k k' : CKey) (v : CVal) (h : k' ≠ k) :
    (st.cadd k v).look k' = st.look k' ∨ (st.cadd k v).look k' = none := by
  obtain ⟨fs, cache, count⟩ := st
  cases cache with
  | none => exact Or.inl rfl
  | some c => exact LRU.add_look_other c k k' v h

theorem V1.clear_look (st : V1) (k : CKey) : st.clear.look k = none := by
  obtain ⟨fs, cache, count⟩ := st
  cases cache with
  | none => rfl
  | some c => rfl

theorem V1.look_setFs (st : V1) (fs : FS) (k : CKey) : ({ st with fs := fs } : V1).look k = st.look k := rfl

/-! ## evolution of the cache -/

/-- every entry of `st'` was in `st` with the same value, or satisfies `F` -/
def Evol (F : CKey → CVal → Prop) (st st' : V1) : Prop :=
  ∀ k v, st'.look k = some v → st.look k = some v ∨ F k v

theorem Evol.refl (F : CKey → CVal → Prop) (st : V1) : Evol F st st := fun _ _ h => Or.inl h

theorem Evol.of_look {F : CKey → CVal → Prop} {st st' : V1} (h : ∀ k, st'.look k = st.look k) : Evol F st st' :=
  fun k v hv => Or.inl (h k ▸ hv)

theorem Evol.trans {F : CKey → CVal → Prop} {a b c : V1} (h1 : Evol F a b) (h2 : Evol F b c) : Evol F a c := by
  intro k v hv
  rcases h2 k v hv with h | h
  · exact h1 k v h
  · exact Or.inr h

theorem Evol.mono {F G : CKey → CVal → Prop} {a b : V1} (h : Evol F a b) (hfg : ∀ k v, F k v → G k v) : Evol G a b := by
  intro k v hv
  rcases h k v hv with h | h
  · exact Or.inl h
  · exact Or.inr (hfg k v h)

theorem Evol.cget (F : CKey → CVal → Prop) (st : V1) (k : CKey) : Evol F st (st.cget k).1 :=
  Evol.of_look (V1.cget_look st k)

theorem Evol.cadd {F : CKey → CVal → Prop} (st : V1) (k : CKey) (v : CVal) (hf : F k v) : Evol F st (st.cadd k v) := by
  intro k' v' hv
  by_cases hk : k' = k
  · subst hk
    rcases V1.cadd_look_same st k' v with h | h
    · rw [h] at hv; cases hv; exact Or.inr hf
    · rw [h] at hv; cases hv
  · rcases V1.cadd_look_other st k k' v hk with h | h
    · rw [h] at hv; exact Or.inl hv
    · rw [h] at hv; cases hv

theorem Evol.clear (F : CKey → CVal → Prop) (st : V1) : Evol F st st.clear := by
  intro k v hv; rw [V1.clear_look] at hv; cases hv

/-- what a load from the storage puts into the cache under key `k` -/
def Fresh (fs : FS) : CKey → CVal → Prop
  | .rel f, v => if f.pub then ∃ pc, fs.cur f = some pc ∧ v = .key pc.raw
      else ∃ g, (fs.cur f).bind Content.decrypt = some g ∧ v = .key g
  | .relOld f t, v => f.pub = false ∧ ∃ g, (fs.readName f (some t)).bind Content.decrypt = some g ∧ v = .key g
  | .absPub f, v => ∃ pc, fs.cur f = some pc ∧ v = .key pc.raw
  | .names f, v => f.pub = false ∧ f.slot.kind.hasAll = true ∧ v = .paths (historicalNames fs f)

/-! ## readers -/

/-- result of the shared read pattern in terms of what the lookup sees -/
theorem V1.readKey_result (st : V1) (f : FileId) (name : Option Nat) (m : Bool) :
    (st.readKey f name m).2 = match st.look (ckeyOf f name) with
      | some (.key g) => some g
      | some .nil => if m then (st.fs.readName f name).bind Content.decrypt else none
      | some (.paths _) => none
      | none => (st.fs.readName f name).bind Content.decrypt := by
  unfold V1.readKey
  dsimp only
  have h1 := V1.cget_snd st (ckeyOf f name)
  have h2 := V1.cget_fs st (ckeyOf f name)
  generalize st.cget (ckeyOf f name) = p at h1 h2 ⊢
  obtain ⟨st', r⟩ := p
  simp only at h1 h2
  subst h1
  cases hl : st.look (ckeyOf f name) with
  | none =>
    simp only [h2]
    cases (st.fs.readName f name).bind Content.decrypt <;> rfl
  | some v =>
    cases v with
    | key g => rfl
    | paths l => rfl
    | nil =>
      cases m
      · rfl
      · simp only [if_true, h2]
        cases (st.fs.readName f name).bind Content.decrypt <;> rfl

theorem V1.readKey_evol (st : V1) (f : FileId) (name : Option Nat) (m : Bool) (hf : f.pub = false) :
    Evol (Fresh st.fs) st (st.readKey f name m).1 := by
  unfold V1.readKey
  dsimp only
  have h1 := Evol.cget (Fresh st.fs) st (ckeyOf f name)
  have h2 := V1.cget_fs st (ckeyOf f name)
  generalize st.cget (ckeyOf f name) = p at h1 h2 ⊢
  obtain ⟨st', r⟩ := p
  simp only at h1 h2
  have hload : ∀ (st' : V1), st'.fs = st.fs → Evol (Fresh st.fs) st st' →
      Evol (Fresh st.fs) st (match (st'.fs.readName f name).bind Content.decrypt with
        | some g => (st'.cadd (ckeyOf f name) (.key g), some g)
        | none => (st', none)).1 := by
    intro st' hfs hev
    cases hr : (st'.fs.readName f name).bind Content.decrypt with
    | none => exact hev
    | some g =>
      refine hev.trans (Evol.cadd _ _ _ ?_)
      rw [hfs] at hr
      cases name with
      | none => simpa [ckeyOf, Fresh, hf, FS.readName] using hr
      | some t => exact ⟨hf, g, hr, rfl⟩
  cases r with
  | none => exact hload st' h2 h1
  | some v =>
    cases v with
    | key g => exact h1
    | paths l => exact h1
    | nil =>
      cases m
      · exact h1
      · exact hload st' h2 h1

theorem V1.loadNames_evol (st : V1) (f : FileId) (hf : f.pub = false) (ha : f.slot.kind.hasAll = true) :
    Evol (Fresh st.fs) st (st.loadNames f).1 :=
  Evol.cadd _ _ _ ⟨hf, ha, rfl⟩

theorem V1.getNames_evol (st : V1) (f : FileId) (hf : f.pub = false) (ha : f.slot.kind.hasAll = true) :
    Evol (Fresh st.fs) st (st.getNames f).1 := by
  unfold V1.getNames
  have h1 := Evol.cget (Fresh st.fs) st (.names f)
  have h2 := V1.cget_fs st (.names f)
  generalize st.cget (.names f) = p at h1 h2 ⊢
  obtain ⟨st', r⟩ := p
  simp only at h1 h2
  have hl := V1.loadNames_evol st' f hf ha
  rw [h2] at hl
  split
  · rename_i heq; cases heq; exact h1
  · rename_i heq; cases heq; exact h1.trans hl

theorem V1.getNames_result (st : V1) (f : FileId) :
    (st.getNames f).2 = match st.look (.names f) with
      | some (.paths l) => l
      | _ => historicalNames st.fs f := by
  unfold V1.getNames
  have h1 := V1.cget_snd st (.names f)
  have h2 := V1.cget_fs st (.names f)
  generalize st.cget (.names f) = p at h1 h2 ⊢
  obtain ⟨st', r⟩ := p
  simp only at h1 h2
  subst h1
  cases hl : st.look (.names f) with
  | none => simp [V1.loadNames, h2]
  | some v => cases v <;> simp [V1.loadNames, h2]

/-- `refreshCachedHistoricalPrivateKeyFilenames`: afterwards a cached list is the one of the storage -/
theorem V1.refreshNames_names (st : V1) (f : FileId) (v : CVal) (h : (st.refreshNames f).look (.names f) = some v) :
    v = .paths (historicalNames st.fs f) ∧ ∃ v0, st.look (.names f) = some v0 := by
  unfold V1.refreshNames at h
  have h1 := V1.cget_snd st (.names f)
  have h2 := V1.cget_fs st (.names f)
  have h3 := V1.cget_look st (.names f) (.names f)
  generalize st.cget (.names f) = p at h h1 h2 h3 ⊢
  obtain ⟨st', r⟩ := p
  simp only at h1 h2 h3
  subst h1
  cases hl : st.look (.names f) with
  | none => rw [hl] at h; simp only at h; rw [h3, hl] at h; cases h
  | some v0 =>
    rw [hl] at h
    simp only [V1.loadNames] at h
    rcases V1.cadd_look_same st' (.names f) (.paths (historicalNames st'.fs f)) with h' | h'
    · rw [h'] at h; cases h; rw [h2]; exact ⟨rfl, v0, rfl⟩
    · rw [h'] at h; cases h

/-- … and every other entry is untouched or forgotten -/
theorem V1.refreshNames_other (st : V1) (f : FileId) (k : CKey) (hk : k ≠ .names f) :
    (st.refreshNames f).look k = st.look k ∨ (st.refreshNames f).look k = none := by
  unfold V1.refreshNames
  have h3 := V1.cget_look st (.names f) k
  generalize st.cget (.names f) = p at h3 ⊢
  obtain ⟨st', r⟩ := p
  simp only at h3
  cases r with
  | none => exact Or.inl h3
  | some v0 =>
    simp only [V1.loadNames]
    rcases V1.cadd_look_other st' (.names f) k (.paths (historicalNames st'.fs f)) hk with h | h
    · exact Or.inl (h.trans h3)
    · exact Or.inr h

end AcraModel.Keystore
