import AcraModel.Keystore.RefineCacheStep
/-!
# v1 key cache in runs without destroy-current: the invariant that survives rotation

After a rotation the cache may be *stale* (the cached current key of a symmetric slot is an older
generation), so `V1.Coh` is lost. What every operation other than destroy-current keeps is `CohM`:
a cached current key is *some* generation of its slot, cached history entries agree with their files,
and a cached list of names is the directory's.
-/
namespace AcraModel.Keystore

/-- what every cache entry satisfies in runs without destroy-current -/
def MG (fs : FS) (count : Slot → Nat) : CKey → CVal → Prop
  | .rel f, v => f.pub = false → ∃ g, v = .key g ∧ g ≤ count f.slot
  | .relOld f t, v => t < fs.clock ∧ ∀ e, (fs.old f).find? (·.1 = t) = some e → ∃ g, e.2.decrypt = some g ∧ v = .key g
  | .names f, v => f.pub = false ∧ f.slot.kind.hasAll = true ∧ v = .paths (historicalNames fs f)
  | .absPub _, _ => True

def V1.CohM (st : V1) : Prop := ∀ k v, st.look k = some v → MG st.fs st.count k v

/-- a value just loaded from a storage satisfying the invariant is fine -/
theorem Fresh.mg {fs : FS} {count : Slot → Nat} (hi : FSInv fs count) {k : CKey} {v : CVal} (h : Fresh fs k v) : MG fs count k v := by
  cases k with
  | rel f =>
    intro hf
    obtain ⟨s, p⟩ := f
    simp only at hf
    subst hf
    simp only [Fresh, Bool.false_eq_true, if_false] at h
    obtain ⟨g, hg, rfl⟩ := h
    refine ⟨g, rfl, ?_⟩
    have hc := (hi.priv s).cur
    simp only [privFile] at hc
    rw [hc] at hg
    by_cases hn : count s = 0
    · simp [hn] at hg
    · simp only [hn, if_false, Option.bind_some, Content.decrypt, Option.some.injEq] at hg
      show g ≤ count s
      omega
  | relOld f t =>
    obtain ⟨hf, g, hg, rfl⟩ := h
    obtain ⟨s, p⟩ := f
    simp only at hf
    subst hf
    cases hfind : (fs.old ⟨s, false⟩).find? (·.1 = t) with
    | none => simp [FS.readName, hfind] at hg
    | some e =>
      simp only [FS.readName, hfind, Option.map_some, Option.bind_some] at hg
      have het : e.1 = t := by simpa using List.find?_some hfind
      have hmem : e ∈ fs.old ⟨s, false⟩ := List.mem_of_find?_eq_some hfind
      refine ⟨?_, ?_⟩
      · rw [← het]; exact (hi.priv s).clock e hmem
      · intro e' he'
        rw [hfind] at he'
        cases he'
        exact ⟨g, hg, rfl⟩
  | names f => exact h
  | absPub f => trivial

theorem V1.CohM.evol {st st' : V1} (hc : st.CohM) (hi : FSInv st.fs st.count) (he : Evol (Fresh st.fs) st st')
    (hfs : st'.fs = st.fs) (hcnt : st'.count = st.count) : st'.CohM := by
  intro k v hv
  rw [hfs, hcnt]
  rcases he k v hv with h | h
  · exact hc k v h
  · exact h.mg hi

theorem V1.CohM.clear (st : V1) : st.clear.CohM := by
  intro k v hv; rw [V1.clear_look] at hv; cases hv

theorem V1.CohM.of_nocache {st : V1} (h : st.cache = none) : st.CohM := by
  intro k v hv
  simp [V1.look, h] at hv

/-! ## readers only add loaded values -/

theorem V1.readAllAux_evol (f : FileId) (m : Bool) (hf : f.pub = false) (names : List (Option Nat)) (st : V1) (acc : List Nat) :
    Evol (Fresh st.fs) st (V1.readAllAux f m st names acc).1 := by
  induction names generalizing st acc with
  | nil => exact Evol.refl _ _
  | cons nm nms ih =>
    have h2 := V1.readKey_evol st f nm m hf
    have h3 := V1.readKey_fs st f nm m
    simp only [V1.readAllAux]
    generalize st.readKey f nm m = p at h2 h3 ⊢
    obtain ⟨st', r⟩ := p
    simp only at h2 h3
    cases r with
    | none => exact h2
    | some g =>
      have := ih st' (g :: acc)
      rw [h3] at this
      exact h2.trans this

theorem V1.readAll_evol (st : V1) (s : Slot) (ha : s.kind.hasAll = true) : Evol (Fresh st.fs) st (st.readAll s).1 := by
  unfold V1.readAll
  have h2 := V1.getNames_evol st (privFile s) rfl ha
  have h3 := V1.getNames_fs st (privFile s)
  dsimp only
  generalize st.getNames (privFile s) = p at h2 h3 ⊢
  obtain ⟨st1, names⟩ := p
  simp only at h2 h3
  have := V1.readAllAux_evol (privFile s) (!s.kind.isPair) rfl names st1 []
  rw [h3] at this
  exact h2.trans this

theorem V1.poisonPair_evol (st : V1) (s : Slot) : Evol (Fresh st.fs) st (st.poisonPair s).1 := by
  unfold V1.poisonPair
  have a1 := Evol.cget (Fresh st.fs) st (.rel (privFile s))
  have a2 := V1.cget_fs st (.rel (privFile s))
  generalize st.cget (.rel (privFile s)) = p1 at a1 a2 ⊢
  obtain ⟨st1, a⟩ := p1
  simp only at a1 a2
  dsimp only
  have b1 := Evol.cget (Fresh st.fs) st1 (.rel (pubFile s))
  have b2 := V1.cget_fs st1 (.rel (pubFile s))
  generalize st1.cget (.rel (pubFile s)) = p2 at b1 b2 ⊢
  obtain ⟨st2, b⟩ := p2
  simp only at b1 b2
  have h12 : Evol (Fresh st.fs) st st2 := a1.trans b1
  have hfs2 : st2.fs = st.fs := b2.trans a2
  dsimp only
  have hfile : Evol (Fresh st.fs) st
      ((match (st2.fs.cur (privFile s)).bind Content.decrypt, st2.fs.cur (pubFile s) with
        | some g, some pc => ((st2.cadd (.rel (privFile s)) (.key g)).cadd (.rel (pubFile s)) (.key pc.raw), some (g, pc.raw))
        | _, _ => (st2, none)) : V1 × Option (Nat × Nat)).1 := by
    rw [hfs2]
    cases hg : (st.fs.cur (privFile s)).bind Content.decrypt with
    | none => exact h12
    | some g =>
      cases hp : st.fs.cur (pubFile s) with
      | none => exact h12
      | some pc =>
        refine (h12.trans (Evol.cadd _ _ _ ?_)).trans (Evol.cadd _ _ _ ?_)
        · simpa [Fresh, privFile] using hg
        · simp only [Fresh, pubFile, if_true]; exact ⟨pc, hp, rfl⟩
  cases a with
  | none => exact hfile
  | some va =>
    cases b with
    | none => exact hfile
    | some vb => exact h12

theorem V1.storagePub_evol (st : V1) (s : Slot) : Evol (Fresh st.fs) st (st.storagePub s).1 := by
  unfold V1.storagePub
  have a1 := Evol.cget (Fresh st.fs) st (.absPub (pubFile s))
  have a2 := V1.cget_fs st (.absPub (pubFile s))
  generalize st.cget (.absPub (pubFile s)) = p1 at a1 a2 ⊢
  obtain ⟨st1, a⟩ := p1
  simp only at a1 a2
  cases a with
  | none =>
    simp only [a2]
    cases hp : st.fs.cur (pubFile s) with
    | none => exact a1
    | some pc => exact a1.trans (Evol.cadd _ _ _ ⟨pc, hp, rfl⟩)
  | some va => cases va <;> exact a1

/-- key readers only forget entries or add values just loaded; they never touch the storage -/
theorem V1.step_read_evol (st : V1) (o : Op) (ho : o.isRead = true) :
    Evol (Fresh st.fs) st (st.step o).1 := by
  cases o with
  | cur s =>
    simp only [V1.step]
    cases hk : s.kind
    case pp => exact V1.poisonPair_evol st s
    all_goals exact V1.readKey_evol st _ _ _ rfl
  | pub s =>
    simp only [V1.step]
    cases hk : s.kind
    case sp => exact V1.storagePub_evol st s
    case pp => exact V1.poisonPair_evol st s
    all_goals exact Evol.refl _ _
  | all s =>
    simp only [V1.step]
    by_cases ha : s.kind.hasAll = true
    · simp only [ha, not_true_eq_false, if_false]; exact V1.readAll_evol st s ha
    · simp only [ha, not_false_eq_true, if_true]; exact Evol.refl _ _
  | _ => simp [Op.isRead] at ho

/-! ## write operations -/

theorem V1.look_cadd_cases (st : V1) (k k' : CKey) (v v' : CVal) (h : (st.cadd k v).look k' = some v') :
    (k' = k ∧ v' = v) ∨ (k' ≠ k ∧ st.look k' = some v') := by
  by_cases hk : k' = k
  · subst hk
    rcases V1.cadd_look_same st k' v with h1 | h1
    · rw [h1] at h; cases h; exact Or.inl ⟨rfl, rfl⟩
    · rw [h1] at h; cases h
  · rcases V1.cadd_look_other st k k' v hk with h1 | h1
    · rw [h1] at h; exact Or.inr ⟨hk, h⟩
    · rw [h1] at h; cases h

theorem V1.look_refresh_cases (st : V1) (f : FileId) (k' : CKey) (v' : CVal) (h : (st.refreshNames f).look k' = some v') :
    (k' = .names f ∧ v' = .paths (historicalNames st.fs f) ∧ ∃ v0, st.look (.names f) = some v0) ∨
    (k' ≠ .names f ∧ st.look k' = some v') := by
  by_cases hk : k' = .names f
  · subst hk
    obtain ⟨h1, h2⟩ := V1.refreshNames_names st f v' h
    exact Or.inl ⟨rfl, h1, h2⟩
  · rcases V1.refreshNames_other st f k' hk with h1 | h1
    · rw [h1] at h; exact Or.inr ⟨hk, h⟩
    · rw [h1] at h; cases h

theorem MG.removeOld {fs : FS} {count : Slot → Nat} {f : FileId} {t : Nat} {k : CKey} {v : CVal} (h : MG fs count k v)
    (hk : k ≠ .names f) : MG { fs with old := upd fs.old f ((fs.old f).filter (·.1 ≠ t)) } count k v := by
  cases k with
  | rel f' => exact h
  | absPub f' => trivial
  | names f' =>
    have hne : f' ≠ f := fun e => hk (e ▸ rfl)
    simp only [MG, historicalNames] at h ⊢
    simpa [upd, hne] using h
  | relOld f' t' =>
    refine ⟨h.1, ?_⟩
    intro e he
    by_cases hf : f' = f
    · subst hf
      simp only [upd_same] at he
      have het : e.1 = t' := by simpa using List.find?_some he
      have hmem : e ∈ (fs.old f').filter (·.1 ≠ t) := List.mem_of_find?_eq_some he
      have hne : t' ≠ t := by
        have := (List.mem_filter.1 hmem).2
        rw [← het]; simpa using this
      rw [find_filter_ne' _ hne] at he
      exact h.2 e he
    · simp only [upd, hf, if_false] at he
      exact h.2 e he

/-- destroy-rotated on one file: `CohM` is kept, and apart from the refreshed list of names every
entry is untouched or forgotten -/
theorem V1.drotFile_cohM (st : V1) (f : FileId) (i : Nat) (hc : st.CohM) :
    (st.drotFile f i).1.CohM ∧
    ∀ k v, k ≠ .names f → (st.drotFile f i).1.look k = some v → st.look k = some v := by
  obtain ⟨hfail, hok⟩ := drotFileCalls_effect st.fs f i
  unfold V1.drotFile
  dsimp only
  cases hres : (drotFileCalls st.fs f i).2 with
  | false =>
    simp only [Bool.false_eq_true, false_and, if_false]
    refine ⟨?_, fun k v _ hv => hv⟩
    intro k v hv
    rw [show ({ st with fs := (applyAll st.fs (drotFileCalls st.fs f i).1).1 } : V1).fs = st.fs from hfail hres]
    exact hc k v hv
  | true =>
    obtain ⟨t, ht⟩ := hok hres
    simp only [ht, and_self, if_true]
    refine ⟨?_, ?_⟩
    · intro k v hv
      simp only [V1.refreshNames_fs, V1.refreshNames_count]
      rcases V1.look_refresh_cases _ f k v hv with ⟨rfl, hv', v0, hv0⟩ | ⟨hk, hv'⟩
      · have hg0 := hc _ _ (show st.look (.names f) = some v0 from hv0)
        exact ⟨hg0.1, hg0.2.1, hv'⟩
      · exact (hc k v hv').removeOld hk
    · intro k v hk hv
      rcases V1.look_refresh_cases _ f k v hv with ⟨rfl, _⟩ | ⟨_, hv'⟩
      · exact absurd rfl hk
      · exact hv'

theorem FS.written_old_grow (fs : FS) (f f' : FileId) (c : Content) :
    ∃ l, (fs.written f c).old f' = fs.old f' ++ l ∧ ∀ e ∈ l, fs.clock ≤ e.1 := by
  by_cases hf : f' = f
  · subst hf
    cases hc : fs.cur f' with
    | none => exact ⟨[], by simp [FS.written_old_none fs f' c hc], by simp⟩
    | some c0 => exact ⟨[(fs.clock, c0)], (FS.written_old_some fs f' c c0 hc).1, by simp⟩
  · exact ⟨[], by simp [FS.written_old_other fs f f' c hf], by simp⟩

theorem FS.generated_old_grow (fs : FS) (s : Slot) (g : Nat) (f' : FileId) :
    ∃ l, (fs.generated s g).old f' = fs.old f' ++ l ∧ ∀ e ∈ l, fs.clock ≤ e.1 := by
  unfold FS.generated
  split
  · obtain ⟨l1, h1, b1⟩ := FS.written_old_grow fs (privFile s) f' (.full g)
    obtain ⟨l2, h2, b2⟩ := FS.written_old_grow (fs.written (privFile s) (.full g)) (pubFile s) f' (.full g)
    refine ⟨l1 ++ l2, by rw [h2, h1, List.append_assoc], ?_⟩
    intro e he
    rcases List.mem_append.1 he with he | he
    · exact b1 e he
    · exact Nat.le_trans (FS.written_clock _ _ _) (b2 e he)
  · exact FS.written_old_grow fs (privFile s) f' (.full g)

theorem FS.generated_clock (fs : FS) (s : Slot) (g : Nat) : fs.clock ≤ (fs.generated s g).clock := by
  unfold FS.generated
  split
  · exact Nat.le_trans (FS.written_clock _ _ _) (FS.written_clock _ _ _)
  · exact FS.written_clock _ _ _

theorem find_append_later (l l' : List (Nat × Content)) (t : Nat) (h : ∀ e ∈ l', t < e.1) :
    (l ++ l').find? (·.1 = t) = l.find? (·.1 = t) := by
  rw [List.find?_append]
  have : l'.find? (·.1 = t) = none := by
    rw [List.find?_eq_none]
    intro e he
    have := h e he
    simp only [decide_eq_true_eq]
    omega
  rw [this]
  cases l.find? (·.1 = t) <;> rfl

theorem MG.generated {fs : FS} {count : Slot → Nat} {k : CKey} {v : CVal} (h : MG fs count k v) (s : Slot)
    (hk : k ≠ .names (privFile s)) :
    MG (fs.generated s (count s + 1)) (upd count s (count s + 1)) k v := by
  cases k with
  | rel f =>
    intro hf
    obtain ⟨g, hv, hg⟩ := h hf
    refine ⟨g, hv, ?_⟩
    by_cases hs : f.slot = s
    · subst hs; simp only [upd_same]; omega
    · simpa [upd, hs] using hg
  | absPub f => trivial
  | names f =>
    obtain ⟨hf, ha, hv⟩ := h
    refine ⟨hf, ha, ?_⟩
    obtain ⟨s', p⟩ := f
    simp only at hf
    subst hf
    have hs : s' ≠ s := by
      intro e; subst e; exact hk rfl
    have := (FS.generated_other fs s s' (count s + 1) hs).2
    simp only [privFile] at this
    simp only [historicalNames, this]
    exact hv
  | relOld f t =>
    obtain ⟨hc, hfind⟩ := h
    refine ⟨Nat.lt_of_lt_of_le hc (FS.generated_clock _ _ _), ?_⟩
    obtain ⟨l, hl, hb⟩ := FS.generated_old_grow fs s (count s + 1) f
    intro e he
    rw [hl, find_append_later _ _ _ (fun e' he' => Nat.lt_of_lt_of_le hc (hb e' he'))] at he
    exact hfind e he

/-- every cache entry after generate/rotate of `s`: the new current key, the refreshed list of names,
or an entry that was there before -/
theorem V1.gen_look_cases (st : V1) (s : Slot) (hi : FSInv st.fs st.count) (k : CKey) (v : CVal)
    (h : (st.step (.gen s)).1.look k = some v) :
    (k = .rel (privFile s) ∧ v = .key (st.count s + 1)) ∨
    (k = .rel (pubFile s) ∧ v = .key (st.count s + 1) ∧ s.kind.isPair = true) ∨
    (k = .names (privFile s) ∧ v = .paths (historicalNames (st.fs.generated s (st.count s + 1)) (privFile s)) ∧
      ∃ v0, st.look (.names (privFile s)) = some v0) ∨
    (st.look k = some v ∧ (k = .names (privFile s) → s.kind.hasAll = false)) := by
  simp only [V1.step, applyAll_genCalls st.fs s _ hi.tmps, not_true_eq_false, if_false] at h
  cases hk : s.kind <;> simp only [hk] at h
  case sp | pp =>
    rcases V1.look_refresh_cases _ _ k v h with ⟨rfl, hv, v0, hv0⟩ | ⟨hne, h1⟩
    · refine Or.inr (Or.inr (Or.inl ⟨rfl, hv, v0, ?_⟩))
      rcases V1.look_cadd_cases _ _ _ _ _ hv0 with ⟨hh, _⟩ | ⟨_, h2⟩
      · cases hh
      · rcases V1.look_cadd_cases _ _ _ _ _ h2 with ⟨hh, _⟩ | ⟨_, h3⟩
        · cases hh
        · exact h3
    · rcases V1.look_cadd_cases _ _ _ _ _ h1 with ⟨rfl, rfl⟩ | ⟨_, h2⟩
      · exact Or.inr (Or.inl ⟨rfl, rfl, by simp [Kind.isPair, hk]⟩)
      · rcases V1.look_cadd_cases _ _ _ _ _ h2 with ⟨rfl, rfl⟩ | ⟨_, h3⟩
        · exact Or.inl ⟨rfl, rfl⟩
        · exact Or.inr (Or.inr (Or.inr ⟨h3, fun e => absurd e hne⟩))
  case ss | ps =>
    rcases V1.look_refresh_cases _ _ k v h with ⟨rfl, hv, v0, hv0⟩ | ⟨hne, h1⟩
    · exact Or.inr (Or.inr (Or.inl ⟨rfl, hv, v0, hv0⟩))
    · exact Or.inr (Or.inr (Or.inr ⟨h1, fun e => absurd e hne⟩))
  case hm | al =>
    rcases V1.look_cadd_cases _ _ _ _ _ h with ⟨rfl, rfl⟩ | ⟨_, h2⟩
    · exact Or.inl ⟨rfl, rfl⟩
    · exact Or.inr (Or.inr (Or.inr ⟨h2, fun _ => by simp [Kind.hasAll, hk]⟩))

end AcraModel.Keystore
