import AcraModel.Keystore.Spec
import AcraModel.Generated.KeyState
/-!
# Keystore v2: key rings and their transactions

Follows `keystore/v2/keystore/filesystem/{keyRing.go,keyRingTX.go,key.go}` and
`keystore/v2/keystore/api/key.go`. A ring is an append-only list of keys with sequence numbers, a
per-key state and a `current` pointer (`NoKey` = `none`). Every mutation is a transaction with
`Apply`/`Rollback`. Key data is identified by the generation that produced it.
-/
namespace AcraModel.Keystore

inductive KState | preActive | active | suspended | deactivated | compromised | destroyed
deriving DecidableEq, Repr

def KState.name : KState → String
  | .preActive => "KeyPreActive" | .active => "KeyActive" | .suspended => "KeySuspended"
  | .deactivated => "KeyDeactivated" | .compromised => "KeyCompromised" | .destroyed => "KeyDestroyed"

/-- `api.KeyStateTransitionValid`, interpreted from the regenerated table -/
def transitionValid (a b : KState) : Bool :=
  Generated.KeyState.validTransitions.contains (a.name, b.name)

structure Key2 where
  seq : Nat
  state : KState
  /-- key material (identity of the generation); `none` after `txDestroyKeyData` -/
  data : Option Nat
deriving DecidableEq, Repr

structure Ring where
  keys : List Key2
  current : Option Nat
deriving DecidableEq, Repr

def Ring.empty : Ring := ⟨[], none⟩

def Ring.find (r : Ring) (q : Nat) : Option Key2 := r.keys.find? (·.seq = q)

/-- `nextSeqnum`: 1 for an empty ring, last + 1 otherwise -/
def Ring.nextSeq (r : Ring) : Nat := match r.keys.getLast? with
  | some k => k.seq + 1
  | none => 1

def Ring.setKey (r : Ring) (q : Nat) (f : Key2 → Key2) : Ring :=
  { r with keys := r.keys.map fun k => if k.seq = q then f k else k }

/-- the transactions of `keyRingTX.go` (txSetKeys, used by import only, is not modelled) -/
inductive Tx
  | addKey (k : Key2)
  | setCurrent (old new : Option Nat)
  | changeState (q : Nat) (old new : KState)
  | destroyData (q : Nat) (backup : Option Nat)
deriving DecidableEq, Repr

/-- `Apply`; `none` = the transaction reports an error (ring untouched) -/
def Tx.apply (r : Ring) : Tx → Option Ring
  | .addKey k => if (r.find k.seq).isSome then none else some { r with keys := r.keys ++ [k] }
  | .setCurrent old new =>
      if r.current ≠ old then none
      else match old, new with
        | some o, some n => if (r.find o).isSome ∧ (r.find n).isSome then some { r with current := some n } else none
        | none, some n => if (r.find n).isSome then some { r with current := some n } else none
        | _, none => none
  | .changeState q old new =>
      match r.find q with
      | some k => if k.state = old then some (r.setKey q fun k => { k with state := new }) else none
      | none => none
  | .destroyData q _ =>
      match r.find q with
      | some _ => some (r.setKey q fun k => { k with data := none })
      | none => none

/-- `Rollback` (of a transaction that was applied) -/
def Tx.rollback (r : Ring) : Tx → Ring
  | .addKey _ => { r with keys := r.keys.dropLast }
  | .setCurrent old _ => { r with current := old }
  | .changeState q old _ => r.setKey q fun k => { k with state := old }
  | .destroyData q backup => r.setKey q fun k => { k with data := backup }

/-- `applyPendingTX`: apply in order; on the first failure roll back the applied ones in reverse order -/
def applyTxs (r : Ring) : List Tx → Option Ring
  | [] => some r
  | t :: ts => match t.apply r with
    | some r' => applyTxs r' ts
    | none => none

/-- ring invariant: sequence numbers are 1..n in order, `current` names a key of the ring or is `NoKey` -/
def Ring.WF (r : Ring) : Prop :=
  r.keys.map (·.seq) = (List.range r.keys.length).map (· + 1) ∧
  (∀ c, r.current = some c → 1 ≤ c ∧ c ≤ r.keys.length)

/-- `AllKeys`: sequence numbers newest first -/
def Ring.allSeqs (r : Ring) : List Nat := (r.keys.map (·.seq)).reverse

end AcraModel.Keystore
