import AcraModel.Keystore.RefineCacheReset
/-!
# v1 key cache: one operation from a coherent state; observations of write operations
-/
namespace AcraModel.Keystore

/-- operations that keep the cache coherent with the storage: everything except generate/rotate and
destroy-current -/
def Op.keepsCoh : Op → Bool
  | .gen _ | .dcur _ => false
  | _ => true

/-- operations whose observation is computed from the cache: the key readers -/
def Op.isRead : Op → Bool
  | .cur _ | .pub _ | .all _ => true
  | _ => false

theorem find_filter_ne' {α β} [DecidableEq α] (l : List (α × β)) {k k' : α} (h : k' ≠ k) :
    (l.filter (·.1 ≠ k)).find? (·.1 = k') = l.find? (·.1 = k') := by
  induction l with
  | nil => rfl
  | cons x xs ih =>
    by_cases hx : x.1 = k
    · have hxk' : ¬ x.1 = k' := fun e => h (e ▸ hx ▸ rfl)
      have hf : (x :: xs).filter (·.1 ≠ k) = xs.filter (·.1 ≠ k) := by
        rw [List.filter_cons]; simp [hx]
      rw [hf, ih, List.find?_cons]
      simp [hxk']
    · have hf : (x :: xs).filter (·.1 ≠ k) = x :: xs.filter (·.1 ≠ k) := by
        rw [List.filter_cons]; simp [hx]
      rw [hf, List.find?_cons, List.find?_cons, ih]

/-- `destroyRotatedKeyByIndex` either changes nothing (and then does not report success) or removes
the history files of one name -/
theorem drotFileCalls_effect (fs : FS) (f : FileId) (i : Nat) :
    ((drotFileCalls fs f i).2 = false → (applyAll fs (drotFileCalls fs f i).1).1 = fs) ∧
    ((drotFileCalls fs f i).2 = true → ∃ t, applyAll fs (drotFileCalls fs f i).1 =
      ({ fs with old := upd fs.old f ((fs.old f).filter (·.1 ≠ t)) }, true)) := by
  unfold drotFileCalls
  by_cases hdir : fs.oldDir f = true
  · by_cases hr : i < 2 ∨ i > (fs.old f).length + 1
    · simp [hdir, hr, applyAll, applyCall]
    · cases hg : (fs.old f)[i - Generated.KeyNames.v1DestroyIndexOffset]? with
      | none => simp [hdir, hr, hg, applyAll, applyCall]
      | some e =>
        obtain ⟨t, c⟩ := e
        simp only [hdir, not_true_eq_false, if_false, hr, hg, Bool.true_eq_false, false_imp_iff, true_and, forall_const]
        exact ⟨t, by simp [applyAll, applyCall, hdir]⟩
  · simp [hdir, applyAll, applyCall]

theorem Good.removeOld {fs : FS} {f : FileId} {t : Nat} {k : CKey} {v : CVal} (h : Good fs k v) (hk : k ≠ .names f) :
    Good { fs with old := upd fs.old f ((fs.old f).filter (·.1 ≠ t)) } k v := by
  cases k with
  | rel f' => exact h
  | absPub f' => exact h
  | names f' =>
    have hne : f' ≠ f := fun e => hk (e ▸ rfl)
    simp only [Good, Fresh, historicalNames] at h ⊢
    simpa [upd, hne] using h
  | relOld f' t' =>
    intro e he
    by_cases hf : f' = f
    · subst hf
      simp only [upd_same] at he
      have het : e.1 = t' := by simpa using List.find?_some he
      have hmem : e ∈ (fs.old f').filter (·.1 ≠ t) := List.mem_of_find?_eq_some he
      have hne : t' ≠ t := by
        have := (List.mem_filter.1 hmem).2
        rw [← het]; simpa using this
      rw [find_filter_ne' _ hne] at he
      exact h e he
    · simp only [upd, hf, if_false] at he
      exact h e he

/-- destroy-rotated on one file keeps the cache coherent: the list of names is refreshed when cached,
entries of the removed file are never consulted again -/
theorem V1.drotFile_coh (st : V1) (f : FileId) (i : Nat) (hc : st.Coh) : (st.drotFile f i).1.Coh := by
  obtain ⟨hfail, hok⟩ := drotFileCalls_effect st.fs f i
  unfold V1.drotFile
  dsimp only
  cases hres : (drotFileCalls st.fs f i).2 with
  | false =>
    simp only [Bool.false_eq_true, false_and, if_false]
    intro k v hv
    rw [show ({ st with fs := (applyAll st.fs (drotFileCalls st.fs f i).1).1 } : V1).fs = st.fs from hfail hres]
    exact hc k v hv
  | true =>
    obtain ⟨t, ht⟩ := hok hres
    simp only [ht, and_self, if_true]
    intro k v hv
    by_cases hk : k = .names f
    · subst hk
      obtain ⟨hv', v0, hv0⟩ := V1.refreshNames_names _ f v hv
      have hg0 := hc _ _ (show st.look (.names f) = some v0 from hv0)
      simp only [Good, Fresh] at hg0
      simp only [V1.refreshNames_fs]
      exact ⟨hg0.1, hg0.2.1, hv'⟩
    · simp only [V1.refreshNames_fs]
      rcases V1.refreshNames_other _ f k hk with h | h
      · rw [h] at hv
        exact (hc k v hv).removeOld hk
      · rw [h] at hv; cases hv

/-- **One operation from a coherent state** (any cache size): coherence is kept and the observation
is the one of the store without cache on the same storage. -/
theorem V1.step_coh (st : V1) (o : Op) (hc : st.Coh) (ho : o.keepsCoh = true) :
    (st.step o).1.Coh ∧ (st.step o).2 = (V1.step ⟨st.fs, none, st.count⟩ o).2 := by
  have hn : (⟨st.fs, none, st.count⟩ : V1).cache = none := rfl
  cases o with
  | gen s => simp [Op.keepsCoh] at ho
  | dcur s => simp [Op.keepsCoh] at ho
  | cur s =>
    simp only [V1.step]
    cases hk : s.kind <;> simp only [V1.readKey_nocache _ _ _ _ hn, V1.poisonPair_nocache _ _ hn]
    case pp =>
      obtain ⟨h1, h2⟩ := V1.poisonPair_coh st s hc
      exact ⟨h1, by rw [h2]; cases (st.fs.cur (privFile s)).bind Content.decrypt <;> cases st.fs.cur (pubFile s) <;> rfl⟩
    all_goals
      refine ⟨hc.evol (V1.readKey_evol st _ _ _ rfl) (V1.readKey_fs _ _ _ _), ?_⟩
      rw [V1.readKey_coh st _ none _ hc rfl (by intro t ht; cases ht)]
  | pub s =>
    simp only [V1.step]
    cases hk : s.kind <;> simp only [V1.storagePub_nocache _ _ hn, V1.poisonPair_nocache _ _ hn]
    case sp =>
      obtain ⟨h1, h2⟩ := V1.storagePub_coh st s hc
      exact ⟨h1, by rw [h2]⟩
    case pp =>
      obtain ⟨h1, h2⟩ := V1.poisonPair_coh st s hc
      exact ⟨h1, by rw [h2]; cases (st.fs.cur (privFile s)).bind Content.decrypt <;> cases st.fs.cur (pubFile s) <;> rfl⟩
    all_goals exact ⟨hc, by first | rfl | trivial⟩
  | all s =>
    simp only [V1.step]
    by_cases ha : s.kind.hasAll = true
    · obtain ⟨h1, h2⟩ := V1.readAll_coh st s hc ha
      simp only [ha, not_true_eq_false, if_false, V1.readAll_pure _ s hn]
      exact ⟨h1, by rw [h2]⟩
    · simp only [ha, not_false_eq_true, if_true]
      exact ⟨hc, rfl⟩
  | list => exact ⟨hc, rfl⟩
  | listRot => exact ⟨hc, rfl⟩
  | drot s i =>
    simp only [V1.step]
    by_cases hcd : s.kind.canDestroy = true
    · simp only [hcd, not_true_eq_false, if_false]
      have c1 := V1.drotFile_coh st (privFile s) i hc
      have f1 := V1.drotFile_fs st (privFile s) i
      have g1 := V1.drotFile_fs ⟨st.fs, none, st.count⟩ (privFile s) i
      generalize st.drotFile (privFile s) i = p1 at c1 f1 ⊢
      generalize V1.drotFile ⟨st.fs, none, st.count⟩ (privFile s) i = q1 at g1 ⊢
      obtain ⟨st1, ok1⟩ := p1
      obtain ⟨su1, ok1'⟩ := q1
      simp only at c1 f1 g1
      have hok : ok1 = ok1' := by rw [f1.2.2, g1.2.2]
      subst hok
      cases ok1
      · exact ⟨c1, rfl⟩
      · simp only [not_true_eq_false, if_false]
        cases hp : s.kind.isPair
        · exact ⟨c1, rfl⟩
        · simp only [if_true]
          have c2 := V1.drotFile_coh st1 (pubFile s) i c1
          have f2 := V1.drotFile_fs st1 (pubFile s) i
          have g2 := V1.drotFile_fs su1 (pubFile s) i
          generalize st1.drotFile (pubFile s) i = p2 at c2 f2 ⊢
          generalize su1.drotFile (pubFile s) i = q2 at g2 ⊢
          obtain ⟨st2, ok2⟩ := p2
          obtain ⟨su2, ok2'⟩ := q2
          simp only at c2 f2 g2
          have hfs1 : st1.fs = su1.fs := by rw [f1.1, g1.1]
          have hok2 : ok2 = ok2' := by rw [f2.2.2, g2.2.2, hfs1]
          subst hok2
          exact ⟨c2, rfl⟩
    · simp only [hcd, not_false_eq_true, if_true]
      exact ⟨hc, rfl⟩
  | reset => exact ⟨V1.Coh.clear st, rfl⟩
  | reopen => exact ⟨V1.Coh.clear st, rfl⟩

/-- **Observations of write operations and listings never depend on the cache.** -/
theorem V1.step_obs_write (st su : V1) (o : Op) (hfs : st.fs = su.fs) (hcnt : st.count = su.count) (ho : o.isRead = false) :
    (st.step o).2 = (su.step o).2 := by
  cases o with
  | cur s => simp [Op.isRead] at ho
  | pub s => simp [Op.isRead] at ho
  | all s => simp [Op.isRead] at ho
  | gen s =>
    simp only [V1.step, hfs, hcnt]
    cases (applyAll su.fs (genCalls su.fs s (su.count s + 1))).2
    · rfl
    · cases s.kind <;> rfl
  | list => simp [V1.step, V1.list, hfs]
  | listRot => simp [V1.step, V1.listRot, hfs]
  | dcur s =>
    simp only [V1.step]
    by_cases hcd : s.kind.canDestroy = true <;> simp [hcd]
  | drot s i =>
    simp only [V1.step]
    by_cases hcd : s.kind.canDestroy = true
    · simp only [hcd, not_true_eq_false, if_false]
      have f1 := V1.drotFile_fs st (privFile s) i
      have g1 := V1.drotFile_fs su (privFile s) i
      generalize st.drotFile (privFile s) i = p1 at f1 ⊢
      generalize su.drotFile (privFile s) i = q1 at g1 ⊢
      obtain ⟨st1, ok1⟩ := p1
      obtain ⟨su1, ok1'⟩ := q1
      simp only at f1 g1
      have hok : ok1 = ok1' := by rw [f1.2.2, g1.2.2, hfs]
      subst hok
      cases ok1
      · rfl
      · simp only [not_true_eq_false, if_false]
        cases hp : s.kind.isPair
        · rfl
        · simp only [if_true]
          have f2 := V1.drotFile_fs st1 (pubFile s) i
          have g2 := V1.drotFile_fs su1 (pubFile s) i
          have hfs1 : st1.fs = su1.fs := by rw [f1.1, g1.1, hfs]
          rw [f2.2.2, g2.2.2, hfs1]
    · simp [hcd]
  | reset => rfl
  | reopen => rfl

/-! ## runs -/

/-- the storage and the counters of a run do not depend on the cache -/
theorem V1.run_fs (ops : List Op) (st su : V1) (hfs : st.fs = su.fs) (hcnt : st.count = su.count) :
    (st.run ops).1.fs = (su.run ops).1.fs ∧ (st.run ops).1.count = (su.run ops).1.count := by
  induction ops generalizing st su with
  | nil => exact ⟨hfs, hcnt⟩
  | cons o os ih =>
    simp only [V1.run]
    apply ih
    · rw [(V1.step_fs st o).1, (V1.step_fs su o).1, hfs, hcnt]
    · rw [(V1.step_fs st o).2, (V1.step_fs su o).2, hcnt]

/-- two coherent stores on the same storage show the same, as long as nothing is generated and no
current key destroyed -/
theorem V1.run_coh (ops : List Op) (st su : V1) (hfs : st.fs = su.fs) (hcnt : st.count = su.count)
    (hc : st.Coh) (hcu : su.Coh) (hops : ∀ o ∈ ops, o.keepsCoh = true) :
    (st.run ops).2 = (su.run ops).2 := by
  induction ops generalizing st su with
  | nil => rfl
  | cons o os ih =>
    obtain ⟨c1, o1⟩ := V1.step_coh st o hc (hops o (by simp))
    obtain ⟨c2, o2⟩ := V1.step_coh su o hcu (hops o (by simp))
    simp only [V1.run]
    rw [o1, o2, hfs, hcnt]
    congr 1
    apply ih _ _ _ _ c1 c2 (fun o' ho' => hops o' (by simp [ho']))
    · rw [(V1.step_fs st o).1, (V1.step_fs su o).1, hfs, hcnt]
    · rw [(V1.step_fs st o).2, (V1.step_fs su o).2, hcnt]

/-- a store opened without cache never has one -/
theorem V1.step_cache_none (st : V1) (o : Op) (h : st.cache = none) : (st.step o).1.cache = none := by
  cases o with
  | gen s =>
    simp only [V1.step]
    split
    · exact h
    · have h1 : ({ st with fs := (applyAll st.fs (genCalls st.fs s (st.count s + 1))).1,
                           count := upd st.count s (st.count s + 1) } : V1).cache = none := h
      cases s.kind <;> simp only [V1.cadd_nocache _ _ _ h1, V1.refreshNames_nocache _ _ h1] <;> exact h1
  | cur s =>
    simp only [V1.step]
    cases s.kind <;> simp only [V1.readKey_nocache _ _ _ _ h, V1.poisonPair_nocache _ _ h] <;> exact h
  | pub s =>
    simp only [V1.step]
    cases s.kind <;> simp only [V1.storagePub_nocache _ _ h, V1.poisonPair_nocache _ _ h] <;> exact h
  | all s =>
    simp only [V1.step]
    split
    · exact h
    · simp only [V1.readAll_pure _ _ h]; exact h
  | list => exact h
  | listRot => exact h
  | dcur s =>
    simp only [V1.step]
    split
    · exact h
    · cases s.kind <;> simp only [V1.cadd_nocache _ _ _ h] <;> exact h
  | drot s i =>
    have hd : ∀ (st : V1) (f : FileId), st.cache = none → (st.drotFile f i).1.cache = none := by
      intro st f h
      unfold V1.drotFile
      dsimp only
      have h1 : ({ st with fs := (applyAll st.fs (drotFileCalls st.fs f i).1).1 } : V1).cache = none := h
      split
      · rw [V1.refreshNames_nocache _ _ h1]; exact h1
      · exact h1
    simp only [V1.step]
    split
    · exact h
    · have h1 := hd st (privFile s) h
      generalize st.drotFile (privFile s) i = p1 at h1 ⊢
      obtain ⟨st1, ok1⟩ := p1
      dsimp only
      split
      · exact h1
      · split
        · exact hd st1 (pubFile s) h1
        · exact h1
  | reset => simp only [V1.step, V1.clear_nocache _ h]; exact h
  | reopen => simp only [V1.step, V1.clear_nocache _ h]; exact h

theorem V1.run_sim_cache_none (ops : List Op) (st : V1) (h : st.cache = none) : (st.run ops).1.cache = none := by
  induction ops generalizing st with
  | nil => exact h
  | cons o os ih => simp only [V1.run]; exact ih _ (V1.step_cache_none st o h)

end AcraModel.Keystore
