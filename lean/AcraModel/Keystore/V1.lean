import AcraModel.Keystore.Spec
import AcraModel.Generated.KeyNames
/-!
# Keystore v1: the filesystem and the back-end calls of every write operation

Follows `keystore/filesystem/server_keystore.go` (`WriteKeyFile`, `backupHistoricalKeyFile`,
`SaveKeyPairWithFilename`, `generateAndSaveSymmetricKey`, `destroy*WithFilename`,
`destroyRotatedKeyByIndex`) and `filenames.go` (`getHistoricalFilePaths`).

The filesystem is modelled per *key file* `f` (a slot's private/symmetric file, or the public file of
a pair): the current file `<f>`, the history directory `<f>.old` with files named by a strictly
increasing logical clock (the real names are UTC timestamps; lexicographic = chronological), and the
temporary files `<f><random>` that `TempFile` creates next to `<f>`. Write operations are *lists of
storage calls* (`Call`); the state after an operation is the fold of `applyCall` over that list, so
the same definitions serve the crash/fault analysis of C08.
-/
namespace AcraModel.Keystore

/-- a key file of the v1 keystore: the private/symmetric file of a slot, or the `.pub` file of a pair
(also used for the name `<id>_hmac.pub`, which `DestroyHmacSecretKey` touches although it never exists) -/
structure FileId where
  slot : Slot
  pub : Bool
deriving DecidableEq, Repr

/-- what a file holds: nothing yet (fresh temp file), a strict prefix of the bytes of generation `g`
(torn write; does not decrypt), or the complete bytes of generation `g` -/
inductive Content
  | empty
  | torn (g : Nat)
  | full (g : Nat)
deriving DecidableEq, Repr

/-- reading a *private/symmetric* file: decryption succeeds only on complete content -/
def Content.decrypt : Content → Option Nat
  | .full g => some g
  | _ => none

/-- reading a *public* file returns the raw bytes: identity `g` when complete, `0` (unknown value) otherwise -/
def Content.raw : Content → Nat
  | .full g => g
  | _ => 0

structure FS where
  cur : FileId → Option Content
  oldDir : FileId → Bool
  /-- history files, ascending by name (logical time) -/
  old : FileId → List (Nat × Content)
  /-- temporary files: (id, file they were created for, content) -/
  tmps : List (Nat × FileId × Content)
  clock : Nat
  nextTmp : Nat

def FS.init : FS := { cur := fun _ => none, oldDir := fun _ => false, old := fun _ => [], tmps := [], clock := 1, nextTmp := 0 }

/-- The storage calls (`filesystem.Storage`) that write operations perform, with structured paths. -/
inductive Call
  | mkdirAll (f : FileId)            -- MkdirAll(dir of <f>)
  | tempFile (f : FileId)            -- TempFile(<f>)
  | writeFile (id : Nat) (f : FileId) (c : Content) -- WriteFile(<tmp id of f>, data)
  | stat (f : FileId)                -- Stat(<f>)
  | mkdirOld (f : FileId)            -- MkdirAll(<f>.old)
  | link (f : FileId)                -- Link(<f>, <f>.old/<now>)
  | copy (f : FileId)                -- Copy(<f>, <f>.old/<now>)  (fallback when Link fails)
  | rename (id : Nat) (f : FileId)   -- Rename(<tmp id>, <f>)
  | remove (f : FileId)              -- Remove(<f>)
  | readDirOld (f : FileId)          -- ReadDir(<f>.old), the directory must exist (destroyRotatedKeyByIndex)
  | readDirHist (f : FileId)         -- ReadDir(<f>.old) by getHistoricalFilePaths: a missing directory is fine
  | removeOld (f : FileId) (t : Nat) -- Remove(<f>.old/<t>)
deriving DecidableEq, Repr

def FS.tmpContent (fs : FS) (id : Nat) : Option Content := (fs.tmps.find? (·.1 = id)).map (·.2.2)

/-- Effect of one call; `none` = the call returns an error (state unchanged). `Stat`/`ReadDir`/`Remove`
of something absent report "does not exist", which the callers treat as success, so they are `some`. -/
def applyCall (fs : FS) : Call → Option FS
  | .mkdirAll _ => some fs
  | .tempFile f => some { fs with tmps := (fs.nextTmp, f, .empty) :: fs.tmps, nextTmp := fs.nextTmp + 1 }
  | .writeFile id _ c =>
      if (fs.tmps.any (·.1 = id)) then
        some { fs with tmps := fs.tmps.map fun t => if t.1 = id then (t.1, t.2.1, c) else t }
      else none
  | .stat _ => some fs
  | .mkdirOld f => some { fs with oldDir := upd fs.oldDir f true }
  | .link f | .copy f =>
      match fs.cur f with
      | some c => if fs.oldDir f then
          some { fs with old := upd fs.old f (fs.old f ++ [(fs.clock, c)]), clock := fs.clock + 1 }
        else none
      | none => none
  | .rename id f =>
      match fs.tmpContent id with
      | some c => some { fs with cur := upd fs.cur f (some c), tmps := fs.tmps.filter (·.1 ≠ id) }
      | none => none
  | .remove f => some { fs with cur := upd fs.cur f none }
  | .readDirOld f => if fs.oldDir f then some fs else none
  | .readDirHist _ => some fs
  | .removeOld f t => some { fs with old := upd fs.old f ((fs.old f).filter (·.1 ≠ t)) }

/-- run calls in order until one fails; returns the state reached and whether all succeeded -/
def applyAll (fs : FS) : List Call → FS × Bool
  | [] => (fs, true)
  | c :: cs => match applyCall fs c with
    | some fs' => applyAll fs' cs
    | none => (fs, false)

/-- `WriteKeyFile(<f>, data)` with `backupHistoricalKeyFile` inlined: the calls depend on the state only
through the existence of `<f>` (result of `Stat`) and the id of the temp file. -/
def writeKeyFileCalls (fs : FS) (f : FileId) (c : Content) : List Call :=
  [.mkdirAll f, .tempFile f, .writeFile fs.nextTmp f c, .stat f] ++
  (if (fs.cur f).isSome then [.mkdirOld f, .link f] else []) ++
  [.rename fs.nextTmp f]

def privFile (s : Slot) : FileId := ⟨s, false⟩
def pubFile (s : Slot) : FileId := ⟨s, true⟩

/-- calls of generate/rotate for slot `s` writing generation `g`
(`SaveKeyPairWithFilename` for pairs: two `MkdirAll`, then private file, then public file;
`generateAndSaveSymmetricKey` / `GenerateHmacKey` / `GenerateLogKey`: one `WriteKeyFile`) -/
def genCalls (fs : FS) (s : Slot) (g : Nat) : List Call :=
  if s.kind.isPair then
    let c1 := writeKeyFileCalls fs (privFile s) (.full g)
    let fs1 := (applyAll fs c1).1
    [.mkdirAll (privFile s), .mkdirAll (pubFile s)] ++ c1 ++ writeKeyFileCalls fs1 (pubFile s) (.full g)
  else writeKeyFileCalls fs (privFile s) (.full g)

/-- calls of destroy-current: `destroyKeyWithFilename` removes `<f>` and `<f>.pub` (pairs and, oddly,
HMAC keys); `destroySymmetricKeyWithFilename` removes `<f>_sym` -/
def dcurCalls (s : Slot) : List Call :=
  match s.kind with
  | .sp | .pp | .hm => [.remove (privFile s), .remove (pubFile s)]
  | _ => [.remove (privFile s)]

/-- `destroyRotatedKeyByIndex(<f>, index)`: `ReadDir(<f>.old)`, bounds check, `Remove(files[index - v1DestroyIndexOffset])`
(the offset is regenerated from the source; the pinned tree had 1 there, the listing starts at 2).
Returns the calls and whether the function reports success when they all succeed
(`false`: `ErrInvalidIndex`, nothing removed). -/
def drotFileCalls (fs : FS) (f : FileId) (i : Nat) : List Call × Bool :=
  if ¬ fs.oldDir f then ([.readDirOld f], false)
  else if i < 2 ∨ i > (fs.old f).length + 1 then ([.readDirOld f], false)
  else match (fs.old f)[i - Generated.KeyNames.v1DestroyIndexOffset]? with
    | some (t, _) => ([.readDirOld f, .removeOld f t], true)
    | none => ([.readDirOld f], false)

/-- `getHistoricalFilePaths`: current name first (whether or not the file exists), then the history
directory newest → oldest. `none` = the current file, `some t` = history file `t`. -/
def historicalNames (fs : FS) (f : FileId) : List (Option Nat) :=
  none :: ((fs.old f).map (fun e => some e.1)).reverse

def FS.readName (fs : FS) (f : FileId) : Option Nat → Option Content
  | none => fs.cur f
  | some t => ((fs.old f).find? (·.1 = t)).map (·.2)

end AcraModel.Keystore
