import AcraModel.Keystore.RefineV1Sim
/-!
# v1 without cache: readers in closed form and the per-step simulation `V1.step ⊑ Spec.stepApi .v1`
-/
namespace AcraModel.Keystore

/-! ## a store without cache -/

theorem V1.cadd_nocache (st : V1) (k : CKey) (v : CVal) (h : st.cache = none) : st.cadd k v = st := by
  cases st; simp only at h; subst h; rfl

theorem V1.cget_nocache (st : V1) (k : CKey) (h : st.cache = none) : st.cget k = (st, none) := by
  cases st; simp only at h; subst h; rfl

theorem V1.clear_nocache (st : V1) (h : st.cache = none) : st.clear = st := by
  cases st; simp only at h; subst h; rfl

theorem V1.readKey_nocache (st : V1) (f : FileId) (name : Option Nat) (m : Bool) (h : st.cache = none) :
    st.readKey f name m = (st, (st.fs.readName f name).bind Content.decrypt) := by
  unfold V1.readKey
  simp only [V1.cget_nocache st _ h]
  cases hr : (st.fs.readName f name).bind Content.decrypt with
  | none => rfl
  | some g => simp [V1.cadd_nocache st _ _ h]

theorem V1.refreshNames_nocache (st : V1) (f : FileId) (h : st.cache = none) : st.refreshNames f = st := by
  unfold V1.refreshNames
  simp [V1.cget_nocache st _ h]

theorem V1.getNames_nocache (st : V1) (f : FileId) (h : st.cache = none) : st.getNames f = (st, historicalNames st.fs f) := by
  unfold V1.getNames
  simp [V1.cget_nocache st _ h, V1.loadNames, V1.cadd_nocache st _ _ h]

theorem find_time {l : List (Nat × Content)} (hd : l.Pairwise (fun a b => a.1 ≠ b.1)) {e : Nat × Content} (he : e ∈ l) :
    l.find? (·.1 = e.1) = some e := by
  induction l with
  | nil => simp at he
  | cons x xs ih =>
    rw [List.pairwise_cons] at hd
    rcases List.mem_cons.1 he with rfl | he
    · simp
    · have : x.1 ≠ e.1 := hd.1 e he
      simp [List.find?, this, ih hd.2 he]

theorem V1.readAllAux_nocache (st : V1) (f : FileId) (m : Bool) (h : st.cache = none) (val : Option Nat → Nat)
    (names : List (Option Nat)) (hv : ∀ nm ∈ names, (st.fs.readName f nm).bind Content.decrypt = some (val nm)) (acc : List Nat) :
    V1.readAllAux f m st names acc = (st, some (acc.reverse ++ names.map val)) := by
  induction names generalizing acc with
  | nil => simp [V1.readAllAux]
  | cons nm nms ih =>
    simp only [V1.readAllAux, V1.readKey_nocache st _ _ _ h, hv nm (by simp)]
    rw [ih (fun x hx => hv x (by simp [hx]))]
    simp

/-- read-all on a store without cache, under the invariant: the current generation, then the
history newest first; an error when nothing was generated -/
theorem V1.readAll_nocache (st : V1) (s : Slot) (h : st.cache = none) (hi : FSInv st.fs st.count) :
    st.readAll s = (st, if st.count s = 0 then none else some (st.count s :: (st.fs.oldIds (privFile s)).reverse)) := by
  unfold V1.readAll
  simp only [V1.getNames_nocache st _ h, historicalNames]
  have hp := hi.priv s
  by_cases hn : st.count s = 0
  · have hc : st.fs.cur (privFile s) = none := by simpa [hn] using hp.cur
    simp [V1.readAllAux, V1.readKey_nocache st _ _ _ h, FS.readName, hc, hn]
  · have hc : st.fs.cur (privFile s) = some (.full (st.count s)) := by simpa [hn] using hp.cur
    let val : Option Nat → Nat := fun nm => match nm with
      | none => st.count s
      | some t => (((st.fs.old (privFile s)).find? (·.1 = t)).map (·.2.raw)).getD 0
    rw [V1.readAllAux_nocache st _ _ h val]
    · simp only [hn, if_false, List.reverse_nil, List.nil_append, List.map_cons, Prod.mk.injEq, true_and, Option.some.injEq,
        List.cons.injEq]
      refine ⟨rfl, ?_⟩
      rw [← List.map_reverse, List.map_map, FS.oldIds, ← List.map_reverse]
      apply List.map_congr_left
      intro e he
      simp only [Function.comp, val, find_time hp.distinct (List.mem_reverse.1 he)]
      rfl
    · intro nm hnm
      rcases List.mem_cons.1 hnm with rfl | hnm
      · simp [FS.readName, hc, Content.decrypt, val]
      · rw [← List.map_reverse] at hnm
        obtain ⟨e, he, rfl⟩ := List.mem_map.1 hnm
        have he : e ∈ st.fs.old (privFile s) := List.mem_reverse.1 he
        simp only [FS.readName, find_time hp.distinct he, Option.map_some, Option.bind_some, val, Option.getD_some]
        rw [hp.full e he]
        rfl

/-! ## per-step simulation -/

/-- invariant of the v1 store without cache in runs without destroy-current -/
def V1.Inv (st : V1) : Prop := st.cache = none ∧ FSInv st.fs st.count

theorem V1.Inv.init : (V1.init (-1)).Inv := ⟨rfl, FSInv.init⟩

theorem V1.ext' {a b : V1} (h1 : a.fs = b.fs) (h2 : a.cache = b.cache) (h3 : a.count = b.count) : a = b := by
  cases a; cases b; simp_all

theorem file_cases (f : FileId) : f = privFile f.slot ∨ f = pubFile f.slot := by
  obtain ⟨s, p⟩ := f
  cases p
  · exact Or.inl rfl
  · exact Or.inr rfl

theorem cur_isSome_abs {fs : FS} {count : Slot → Nat} (h : FSInv fs count) (f : FileId) :
    (fs.cur f).isSome = (absFS fs count).hasFile f := by
  obtain ⟨s, p⟩ := f
  cases p
  · have := (h.priv s).cur
    simp only [privFile] at this
    simp only [Spec.hasFile, abs_isEmpty, this]
    by_cases hn : count s = 0 <;> simp [hn]
  · have := (h.pub s).cur
    simp only [pubFile] at this
    simp only [Spec.hasFile, abs_isEmpty, this]
    cases hp : s.kind.isPair
    · simp
    · by_cases hn : count s = 0 <;> simp [hn]

theorem V1.list_abs (st : V1) (hi : FSInv st.fs st.count) : st.list = Spec.listing .v1 (absFS st.fs st.count) := by
  unfold V1.list Spec.listing
  simp only [hi.tmps, ne_eq, not_true_eq_false, if_false, Fmt.files]
  congr 2
  apply List.filter_congr
  intro f _
  exact cur_isSome_abs hi f

theorem oldlen_abs {fs : FS} {count : Slot → Nat} (h : FSInv fs count) (f : FileId) :
    (decide (fs.oldDir f = true ∧ fs.old f ≠ []) = ((absFS fs count).hasFile f && !(absFS fs count f.slot).rotated.isEmpty)) ∧
    (fs.oldDir f = true ∧ fs.old f ≠ [] → (fs.old f).length = (absFS fs count f.slot).rotated.length) := by
  obtain ⟨s, p⟩ := f
  have hrot := rotated_abs h s
  have hp := h.priv s
  cases p
  · change (decide (fs.oldDir (privFile s) = true ∧ fs.old (privFile s) ≠ []) = _) ∧ (fs.oldDir (privFile s) = true ∧ fs.old (privFile s) ≠ [] → _)
    simp only [hrot, Spec.hasFile, abs_isEmpty, FS.oldIds, List.length_map, implies_true, and_true, privFile, Bool.not_false,
      Bool.true_or, Bool.and_true]
    by_cases hnil : fs.old (privFile s) = []
    · simp only [privFile] at hnil; simp [hnil]
    · have hd := hp.dir hnil
      have hn : count s ≠ 0 := by
        intro hn; rw [hn] at hp; exact hnil hp.old_nil
      simp only [privFile] at hnil hd
      simp [hnil, hd, hn]
  · have hq := h.pub s
    cases hpair : s.kind.isPair
    · simp only [hpair, Bool.false_eq_true, if_false] at hq
      have hnil := hq.old_nil
      simp only [pubFile] at hnil
      simp [hnil, Spec.hasFile, hpair]
    · have hlen := h.len s hpair
      have hdir := hq.dir
      have hnil0 : count s = 0 → fs.old (privFile s) = [] := by
        intro hn; rw [hn] at hp; exact hp.old_nil
      simp only [privFile, pubFile] at hlen hdir hnil0 hrot
      simp only [hrot, Spec.hasFile, abs_isEmpty, FS.oldIds, List.length_map, hpair, Bool.not_true, Bool.false_or,
        Bool.and_true]
      refine ⟨?_, fun _ => hlen⟩
      by_cases hnil : fs.old ⟨s, true⟩ = []
      · have : fs.old ⟨s, false⟩ = [] := by
          apply List.eq_nil_of_length_eq_zero; rw [← hlen, hnil]; rfl
        simp [hnil, this]
      · have hd := hdir hnil
        have hnil' : fs.old ⟨s, false⟩ ≠ [] := by
          intro hh; apply hnil; apply List.eq_nil_of_length_eq_zero; rw [hlen, hh]; rfl
        have hn : count s ≠ 0 := fun hn => hnil' (hnil0 hn)
        simp [hnil, hd, hn, hnil']

theorem V1.listRot_abs (st : V1) (hi : FSInv st.fs st.count) : st.listRot = Spec.rotListing .v1 (absFS st.fs st.count) := by
  unfold V1.listRot Spec.rotListing
  simp only [Fmt.files]
  congr 1
  rw [List.filter_congr (fun f _ => (oldlen_abs hi f).1)]
  apply List.map_congr_left
  intro f hf
  have hf := (List.mem_filter.1 hf).2
  rw [← (oldlen_abs hi f).1] at hf
  rw [(oldlen_abs hi f).2 (by simpa using hf)]

theorem V1.poisonPair_nocache (st : V1) (s : Slot) (h : st.cache = none) :
    st.poisonPair s = (st, match (st.fs.cur (privFile s)).bind Content.decrypt, st.fs.cur (pubFile s) with
      | some g, some pc => some (g, pc.raw)
      | _, _ => none) := by
  unfold V1.poisonPair
  simp only [V1.cget_nocache st _ h]
  split <;> simp_all [V1.cadd_nocache st _ _ h]

theorem V1.storagePub_nocache (st : V1) (s : Slot) (h : st.cache = none) :
    st.storagePub s = (st, (st.fs.cur (pubFile s)).map Content.raw) := by
  unfold V1.storagePub
  simp only [V1.cget_nocache st _ h]
  cases st.fs.cur (pubFile s) <;> simp [V1.cadd_nocache st _ _ h]

theorem V1.drotFile_nocache (st : V1) (f : FileId) (i : Nat) (h : st.cache = none) (hd : st.fs.OldDistinct f) :
    st.drotFile f i = ({ st with fs := (st.fs.drotted f i).1 }, (st.fs.drotted f i).2) := by
  obtain ⟨e1, e2⟩ := applyAll_drotFileCalls st.fs f i hd
  unfold V1.drotFile
  simp only
  rw [← e1, ← e2]
  cases h1 : (drotFileCalls st.fs f i).2 <;> cases h2 : (applyAll st.fs (drotFileCalls st.fs f i).1).2 <;>
    simp [V1.refreshNames_nocache _ _ (show ({ st with fs := (applyAll st.fs (drotFileCalls st.fs f i).1).1 } : V1).cache = none from h)]

theorem FSInv.drotted_pub_ok {fs : FS} {count : Slot → Nat} (h : FSInv fs count) (s : Slot) (i : Nat)
    (hp : s.kind.isPair = true) (hok : (fs.drotted (privFile s) i).2 = true) :
    ((fs.drotted (privFile s) i).1.drotted (pubFile s) i).2 = true := by
  obtain ⟨c1, d1, k1, t1, o1⟩ := FS.drotted_fields fs (privFile s) i
  have hok' := (FS.drotted_ok_iff _ _ _).1 hok
  have hlen := h.len s hp
  have hpubold : (fs.drotted (privFile s) i).1.old (pubFile s) = fs.old (pubFile s) := o1 _ (pub_ne_priv _ _)
  rw [FS.drotted_ok_iff, hpubold, d1, hlen]
  refine ⟨?_, hok'.2.1, hok'.2.2⟩
  apply (h.pub s).dir
  intro hnil
  rw [hnil] at hlen
  simp at hlen
  omega

/-- **Per-step simulation (v1 without cache).** From a state satisfying the invariant, every
operation other than destroy-current keeps the invariant, commutes with the abstraction function, and
shows exactly the observation the specification prescribes. -/
theorem V1.step_sim (st : V1) (o : Op) (hinv : st.Inv) (ho : o.isDcur = false) :
    (st.step o).1.Inv ∧ (st.step o).1.abs = (Spec.stepApi .v1 st.abs o).1 ∧
    (st.step o).2 = (Spec.stepApi .v1 st.abs o).2 := by
  obtain ⟨hc, hi⟩ := hinv
  have hfs := V1.step_fs st o
  have hi' := fsStep_inv hi o ho
  suffices h : (st.step o).1.cache = none ∧
      absFS (fsStep st.fs st.count o) (countStep st.count o) = (Spec.stepApi .v1 st.abs o).1 ∧
      (st.step o).2 = (Spec.stepApi .v1 st.abs o).2 by
    refine ⟨⟨h.1, by rw [hfs.1, hfs.2]; exact hi'⟩, ?_, h.2.2⟩
    unfold V1.abs; rw [hfs.1, hfs.2]; exact h.2.1
  cases o with
  | gen s =>
    have hstep : st.step (.gen s) = (⟨st.fs.generated s (st.count s + 1), none, upd st.count s (st.count s + 1)⟩, .ok) := by
      obtain ⟨fs, cache, count⟩ := st
      simp only at hc; subst hc
      simp only [V1.step, applyAll_genCalls fs s _ hi.tmps]
      cases s.kind <;> simp [V1.cadd, V1.refreshNames, V1.cget]
    rw [hstep, fsStep_gen hi]
    refine ⟨rfl, ?_, rfl⟩
    simp only [countStep, Spec.stepApi, Spec.step, V1.abs]
    exact abs_generated hi s
  | cur s =>
    have hcur := current_abs hi s
    have hp := (hi.priv s).cur
    have hq := (hi.pub s).cur
    simp only [V1.step, fsStep, countStep, Spec.stepApi, V1.abs, hcur]
    cases hk : s.kind <;> simp only [hk, Kind.isPair, if_true] at hq <;>
      simp only [V1.readKey_nocache st _ _ _ hc, V1.poisonPair_nocache st s hc, FS.readName, hp, hq] <;>
      refine ⟨hc, trivial, ?_⟩ <;>
      by_cases hn : st.count s = 0 <;> simp [hn, Content.decrypt, Content.raw]
  | pub s =>
    have hcur := current_abs hi s
    have hp := (hi.priv s).cur
    have hq := (hi.pub s).cur
    simp only [V1.step, fsStep, countStep, Spec.stepApi, V1.abs, hcur]
    cases hk : s.kind <;> simp only [hk, Kind.isPair, if_true] at hq <;>
      simp only [V1.storagePub_nocache st s hc, V1.poisonPair_nocache st s hc, hp, hq, Kind.isPair] <;>
      refine ⟨hc, trivial, ?_⟩ <;>
      by_cases hn : st.count s = 0 <;> simp [hn, Content.decrypt, Content.raw]
  | all s =>
    simp only [V1.step, fsStep, countStep, Spec.stepApi, V1.abs]
    by_cases ha : s.kind.hasAll = true
    · simp only [ha, not_true_eq_false, if_false, if_true, V1.readAll_nocache st s hc hi, Spec.step, survivors_abs hi s]
      refine ⟨hc, trivial, ?_⟩
      by_cases hn : st.count s = 0
      · simp [hn]
      · simp [hn, allNewestFirst_abs hi s hn]
    · simp [ha, hc]
  | list =>
    simp only [V1.step, fsStep, countStep, Spec.stepApi, V1.abs]
    exact ⟨hc, trivial, V1.list_abs st hi⟩
  | listRot =>
    simp only [V1.step, fsStep, countStep, Spec.stepApi, V1.abs]
    exact ⟨hc, trivial, V1.listRot_abs st hi⟩
  | dcur s => simp [Op.isDcur] at ho
  | drot s i =>
    rw [fsStep_drot hi]
    simp only [V1.step, countStep, Spec.stepApi, V1.abs]
    by_cases hcd : s.kind.canDestroy = true
    · simp only [hcd, not_true_eq_false, if_false, if_true, Spec.step, SpecSlot.destroyRotated, listedAt_abs hi s i]
      rw [V1.drotFile_nocache st _ i hc (hi.priv s).distinct]
      cases hok : (st.fs.drotted (privFile s) i).2
      · simp [hc, FS.slotDrotted, hcd, hok]
      · have hok' := (FS.drotted_ok_iff _ _ _).1 hok
        have hlt : i - 2 < (st.fs.oldIds (privFile s)).length := by simp only [FS.oldIds, List.length_map]; omega
        have hg : (st.fs.oldIds (privFile s))[i - 2]? = some (st.fs.oldIds (privFile s))[i - 2] := List.getElem?_eq_getElem hlt
        generalize (st.fs.oldIds (privFile s))[i - 2] = g at hg
        simp only [not_true_eq_false, if_false, if_true, hg, Option.map_some]
        rw [abs_slotDrotted hi s i g hcd hok hg]
        cases hp : s.kind.isPair
        · simp [hc]
        · simp only [if_true]
          have hpubd := ((hi.pub s).drotted_other (f := privFile s) i (pub_ne_priv _ _)).distinct
          rw [V1.drotFile_nocache { st with fs := (st.fs.drotted (privFile s) i).1 } (pubFile s) i hc hpubd]
          simp [hc, hi.drotted_pub_ok s i hp hok]
    · simp [hcd, hc, FS.slotDrotted]
  | reset =>
    simp only [V1.step, fsStep, countStep, Spec.stepApi, V1.abs, V1.clear_nocache st hc]
    exact ⟨hc, trivial, trivial⟩
  | reopen =>
    simp only [V1.step, fsStep, countStep, Spec.stepApi, V1.abs, V1.clear_nocache st hc]
    exact ⟨hc, trivial, trivial⟩

/-- **Refinement of whole runs (v1 without cache).** -/
theorem V1.run_sim (ops : List Op) (st : V1) (hinv : st.Inv) (hops : ∀ o ∈ ops, o.isDcur = false) :
    (st.run ops).1.Inv ∧ (st.run ops).1.abs = (Spec.runApi .v1 st.abs ops).1 ∧ (st.run ops).2 = (Spec.runApi .v1 st.abs ops).2 := by
  induction ops generalizing st with
  | nil => exact ⟨hinv, rfl, rfl⟩
  | cons o os ih =>
    obtain ⟨h1, h2, h3⟩ := V1.step_sim st o hinv (hops o (by simp))
    obtain ⟨i1, i2, i3⟩ := ih (st.step o).1 h1 (fun o' ho' => hops o' (by simp [ho']))
    simp only [V1.run, Spec.runApi]
    rw [← h2, ← h3]
    exact ⟨i1, i2, by rw [i3]⟩

end AcraModel.Keystore
