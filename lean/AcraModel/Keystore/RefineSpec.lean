import AcraModel.Keystore.V1Cache
import AcraModel.Keystore.V2Store
import AcraModel.Keystore.Lemmas
/-!
# The specification lifted to the whole operation alphabet, and list lemmas for the refinement proofs

`Spec.step` gives observations only for the operations with specification-level content (generate,
read current, read all, destroy). The refinement theorems of C06 compare *every* observation of a
run, so `Spec.stepApi` says what the API of a format shows of a specification state for the other
operations too (public key, the two listings) and refuses the operations Acra's API does not have
(read-all of HMAC / audit-log keys, destruction of the audit-log key) – exactly like both stores.
The state transition of `Spec.stepApi` is the one of `Spec.step` (`Spec.stepApi_state`).
-/
namespace AcraModel.Keystore

inductive Fmt | v1 | v2
deriving DecidableEq, Repr

def Op.isDcur : Op → Bool
  | .dcur _ => true
  | _ => false

/-- generation counters after an operation: only generate/rotate counts -/
def countStep (count : Slot → Nat) : Op → Slot → Nat
  | .gen s => upd count s (count s + 1)
  | _ => count

/-- operations Acra's API offers (both formats) -/
def Op.inApi : Op → Bool
  | .all s => s.kind.hasAll
  | .dcur s | .drot s _ => s.kind.canDestroy
  | _ => true

/-- the key files a listing of the format walks over: v1 lists private and public files, v2 one ring per slot -/
def Fmt.files : Fmt → List FileId
  | .v1 => allFilesOf nClients
  | .v2 => kindsWithRings.map privFile

/-- a generated slot has its private/symmetric file, and a public file when it is a key pair -/
def Spec.hasFile (st : Spec) (f : FileId) : Bool := !(st f.slot).isEmpty && (!f.pub || f.slot.kind.isPair)

/-- `ListKeys` of a specification state -/
def Spec.listing (fmt : Fmt) (st : Spec) : Obs :=
  .files ((fmt.files.filter st.hasFile).map fun f => (f.slot, f.pub))

/-- `ListRotatedKeys` of a specification state: per file with rotated keys, how many (they are numbered from 2) -/
def Spec.rotListing (fmt : Fmt) (st : Spec) : Obs :=
  .rotated ((fmt.files.filter fun f => st.hasFile f && !(st f.slot).rotated.isEmpty).map fun f =>
    ((f.slot, f.pub), (st f.slot).rotated.length))

/-- One step of the specification over the whole alphabet. State: as `Spec.step` (nothing for
operations outside the API). Observations: `Spec.step`'s for generate / current / all / destroy; the
poison pair shows private and public half of the same generation; the public key is the one of the
current generation (pairs only); listings as above. -/
def Spec.stepApi (fmt : Fmt) (st : Spec) : Op → Spec × Obs
  | .gen s => Spec.step st (.gen s)
  | .cur s => (st, match (st s).current with
      | some g => if s.kind = .pp then .pair g g else .key g
      | none => .err)
  | .pub s => (st, if s.kind.isPair then (match (st s).current with | some g => .key g | none => .err) else .err)
  | .all s => if s.kind.hasAll then Spec.step st (.all s) else (st, .err)
  | .drot s i => if s.kind.canDestroy then Spec.step st (.drot s i) else (st, .err)
  | .dcur s => if s.kind.canDestroy then Spec.step st (.dcur s) else (st, .err)
  | .list => (st, Spec.listing fmt st)
  | .listRot => (st, Spec.rotListing fmt st)
  | .reset => (st, .ok)
  | .reopen => (st, .ok)

def Spec.runApi (fmt : Fmt) (st : Spec) : List Op → Spec × List Obs
  | [] => (st, [])
  | o :: os => let (st', x) := Spec.stepApi fmt st o; let (st'', xs) := Spec.runApi fmt st' os; (st'', x :: xs)

/-- On the operations of the API the lifted step moves the state exactly like `Spec.step`. -/
theorem Spec.stepApi_state (fmt : Fmt) (st : Spec) (o : Op) (h : o.inApi = true) :
    (Spec.stepApi fmt st o).1 = (Spec.step st o).1 := by
  cases o with
  | all s => have h : s.kind.hasAll = true := h; simp [Spec.stepApi, h]
  | drot s i => have h : s.kind.canDestroy = true := h; simp [Spec.stepApi, h]
  | dcur s => have h : s.kind.canDestroy = true := h; simp [Spec.stepApi, h]
  | _ => simp [Spec.stepApi, Spec.step]

/-- … and shows exactly `Spec.step`'s observation for generate, read current (the poison pair shows
`pair g g` for `key g`), read all and the destructions. -/
theorem Spec.stepApi_obs (fmt : Fmt) (st : Spec) (o : Op) (h : o.inApi = true) :
    match o with
    | .gen _ | .all _ | .drot _ _ | .dcur _ => (Spec.stepApi fmt st o).2 = (Spec.step st o).2
    | .cur s => if s.kind = .pp then
          (Spec.stepApi fmt st o).2 = (match (Spec.step st o).2 with | .key g => .pair g g | x => x)
        else (Spec.stepApi fmt st o).2 = (Spec.step st o).2
    | _ => True := by
  cases o with
  | cur s =>
    by_cases hk : s.kind = .pp
    · simp only [hk, if_true, Spec.stepApi, Spec.step]
      cases (st s).current <;> rfl
    · simp only [hk, if_false, Spec.stepApi, Spec.step]
      cases (st s).current <;> rfl
  | all s => have h : s.kind.hasAll = true := h; simp [Spec.stepApi, h]
  | drot s i => have h : s.kind.canDestroy = true := h; simp [Spec.stepApi, h]
  | dcur s => have h : s.kind.canDestroy = true := h; simp [Spec.stepApi, h]
  | _ => simp [Spec.stepApi]

/-! ## lists -/

/-- strictly increasing lists with the same members are equal -/
theorem eq_of_sorted_of_mem_iff : ∀ (l1 l2 : List Nat), l1.Pairwise (· < ·) → l2.Pairwise (· < ·) →
    (∀ x, x ∈ l1 ↔ x ∈ l2) → l1 = l2
  | [], [], _, _, _ => rfl
  | [], b :: bs, _, _, h => by have := (h b).2 (by simp); simp at this
  | a :: as, [], _, _, h => by have := (h a).1 (by simp); simp at this
  | a :: as, b :: bs, h1, h2, h => by
    rw [List.pairwise_cons] at h1 h2
    have hab : a = b := by
      have ha := (h a).1 (by simp)
      have hb := (h b).2 (by simp)
      simp only [List.mem_cons] at ha hb
      rcases ha with ha | ha
      · exact ha
      · rcases hb with hb | hb
        · exact hb.symm
        · have := h1.1 b hb; have := h2.1 a ha; omega
    subst hab
    congr 1
    apply eq_of_sorted_of_mem_iff as bs h1.2 h2.2
    intro x
    constructor
    · intro hx
      have := (h x).1 (by simp [hx])
      simp only [List.mem_cons] at this
      rcases this with rfl | h'
      · have := h1.1 x hx; omega
      · exact h'
    · intro hx
      have := (h x).2 (by simp [hx])
      simp only [List.mem_cons] at this
      rcases this with rfl | h'
      · have := h2.1 x hx; omega
      · exact h'

/-- in a list without repetitions, erasing position `j` removes exactly the element at `j` -/
theorem mem_eraseIdx_of_nodup {α} (l : List α) (j : Nat) (g : α) (hd : l.Pairwise (· ≠ ·)) (hj : l[j]? = some g) (x : α) :
    x ∈ l.eraseIdx j ↔ (x ∈ l ∧ x ≠ g) := by
  induction l generalizing j with
  | nil => simp at hj
  | cons a as ih =>
    rw [List.pairwise_cons] at hd
    cases j with
    | zero =>
      have : a = g := by simpa using hj
      subst this
      simp only [List.eraseIdx_cons_zero, List.mem_cons]
      constructor
      · intro hx; exact ⟨Or.inr hx, fun h => hd.1 x hx h.symm⟩
      · rintro ⟨h | h, hne⟩
        · exact absurd h hne
        · exact h
    | succ j =>
      have hj' : as[j]? = some g := by simpa using hj
      have hg : g ∈ as := List.mem_of_getElem? hj'
      simp only [List.eraseIdx_cons_succ, List.mem_cons, ih j hd.2 hj']
      constructor
      · rintro (h | h)
        · exact ⟨Or.inl h, by rw [h]; exact hd.1 g hg⟩
        · exact ⟨Or.inr h.1, h.2⟩
      · rintro ⟨h | h, hne⟩
        · exact Or.inl h
        · exact Or.inr ⟨h, hne⟩

theorem map_eraseIdx' {α β} (f : α → β) (l : List α) (j : Nat) : (l.eraseIdx j).map f = (l.map f).eraseIdx j := by
  induction l generalizing j with
  | nil => rfl
  | cons a as ih => cases j <;> simp [ih]

/-- survivors of a history `1..n` whose `alive` flags are given by a predicate -/
theorem survivors_range (n : Nat) (p : Nat → Bool) :
    SpecSlot.survivors ((List.range n).map fun i => (⟨i + 1, p (i + 1)⟩ : Gen)) =
      ((List.range n).map (· + 1)).filter p := by
  simp only [SpecSlot.survivors, List.filter_map, List.map_map]
  rfl

theorem range_succ_sorted (n : Nat) : ((List.range n).map (· + 1)).Pairwise (· < ·) := by
  rw [List.pairwise_map]
  exact List.pairwise_lt_range.imp (by intro a b h; omega)

/-- the survivors of `1..n` under membership in a strictly increasing list of ids within `1..n` are that list -/
theorem survivors_of_sorted (n : Nat) (p : Nat → Bool) (ids : List Nat) (hs : ids.Pairwise (· < ·))
    (hb : ∀ g ∈ ids, 0 < g ∧ g ≤ n) (hp : ∀ g, 0 < g → g ≤ n → (p g = true ↔ g ∈ ids)) :
    SpecSlot.survivors ((List.range n).map fun i => (⟨i + 1, p (i + 1)⟩ : Gen)) = ids := by
  rw [survivors_range]
  apply eq_of_sorted_of_mem_iff _ _ ((range_succ_sorted n).filter _) hs
  intro x
  simp only [List.mem_filter, List.mem_map, List.mem_range]
  constructor
  · rintro ⟨⟨i, hi, rfl⟩, hx⟩
    exact (hp (i + 1) (by omega) (by omega)).1 hx
  · intro hx
    have := hb x hx
    exact ⟨⟨x - 1, by omega, by omega⟩, (hp x this.1 this.2).2 hx⟩

end AcraModel.Keystore
