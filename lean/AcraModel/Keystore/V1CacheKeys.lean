import AcraModel.Keystore.V1Cache
import AcraModel.Generated.V1CacheKeys
/-!
# Keystore v1: under which cache key the list of current + rotated file names is kept (C15, C06)

`V1Cache.lean` writes the key of that cache entry abstractly (`CKey.names f`). In the code the key is the text
`.historical.` + `<path>`, and `<path>` is computed at every place that uses the entry: the reader
(`GetHistoricalPrivateKeyFilenames`) joins the private key directory and the file name with `filepath.Join`; the writers
that change a history directory refresh the entry under a path of their own. Whether reader and refresher spell the
SAME text depends on how the key directory was given (`--keys_dir=/path/keys/`, `a//b`, `./keys`): `filepath.Join` and
`filepath.Clean` normalise, `dir + "/" + name` does not.

This file models `filepath.Clean` (Unix), the spellings named by the regenerated table
`Generated.V1CacheKeys.namesCacheKeySites`, and the v1 store step with a refresh that can MISS (`V1.stepK`). With the
spellings of the current tree every refresh hits for every directory (`Props/C15.fact_names_cache_key_spelling`,
`refreshHits_of_normalising`) and `V1.stepK` is `V1.step` – so the cache theorems of C06 apply.
-/
namespace AcraModel.Keystore
open Generated.V1CacheKeys

/-- one component of `filepath.Clean`'s scan: `acc` = components kept so far (reversed) -/
def cleanStep (rooted : Bool) (acc : List String) (comp : String) : List String :=
  if comp = "" ∨ comp = "." then acc
  else if comp = ".." then
    match acc with
    | [] => if rooted then [] else [".."]
    | ".." :: r => if rooted then r else ".." :: ".." :: r
    | _ :: r => r
  else comp :: acc

/-- `filepath.Clean` for slash-separated paths -/
def cleanPath (p : String) : String :=
  if p = "" then "." else
  let rooted := p.startsWith "/"
  let comps := (p.splitOn "/").foldl (cleanStep rooted) []
  let body := "/".intercalate comps.reverse
  if rooted then "/" ++ body else if body = "" then "." else body

/-- `GetPrivateKeyFilePath`: directory, separator, name – as they are -/
def rawPath (dir name : String) : String := dir ++ "/" ++ name

/-- the path text of the cache key, by the spelling the table names (`dir`, `name` non-empty):
`join` = `filepath.Join(dir, name)` = `Clean(dir + "/" + name)`; `clean-sprintf` = `Clean(GetPrivateKeyFilePath(name))`;
`sprintf` = `GetPrivateKeyFilePath(name)`; anything else spells a key nobody else uses -/
def spellKey (spelling dir name : String) : String :=
  if spelling = "join" ∨ spelling = "clean-sprintf" then cleanPath (rawPath dir name)
  else if spelling = "sprintf" then rawPath dir name
  else "?" ++ spelling ++ "?" ++ rawPath dir name

/-- the spelling a function uses for a use (`get`, `load`, `refresh`) of the entry; `missing` when the table has no such row -/
def siteSpelling (fn use : String) : String :=
  match namesCacheKeySites.find? (fun r => r.1 == fn && r.2.1 == use) with
  | some r => r.2.2
  | none => "missing"

/-- does the refresh done by `fn` address the entry that `GetHistoricalPrivateKeyFilenames` reads and stores,
for this spelling of the key directory and this file name -/
def refreshHits (fn dir name : String) : Bool :=
  spellKey (siteSpelling fn "refresh") dir name == spellKey (siteSpelling "GetHistoricalPrivateKeyFilenames" "get") dir name &&
  spellKey (siteSpelling "GetHistoricalPrivateKeyFilenames" "load") dir name == spellKey (siteSpelling "GetHistoricalPrivateKeyFilenames" "get") dir name

/-- a spelling that normalises the path -/
def normalising (spelling : String) : Bool := spelling = "join" ∨ spelling = "clean-sprintf"

theorem spellKey_normalising (s t dir name : String) (hs : normalising s = true) (ht : normalising t = true) :
    spellKey s dir name = spellKey t dir name := by
  unfold normalising at hs ht
  unfold spellKey
  have hs' : s = "join" ∨ s = "clean-sprintf" := by simpa using hs
  have ht' : t = "join" ∨ t = "clean-sprintf" := by simpa using ht
  simp [hs', ht']

/-- **when reader, loader and refresher all normalise, the refresh hits – for EVERY directory spelling and name** -/
theorem refreshHits_of_normalising (fn dir name : String)
    (h1 : normalising (siteSpelling fn "refresh") = true)
    (h2 : normalising (siteSpelling "GetHistoricalPrivateKeyFilenames" "get") = true)
    (h3 : normalising (siteSpelling "GetHistoricalPrivateKeyFilenames" "load") = true) :
    refreshHits fn dir name = true := by
  unfold refreshHits
  rw [spellKey_normalising _ _ dir name h1 h2, spellKey_normalising _ _ dir name h3 h2]
  simp

/-! ### the store step with a refresh that can miss -/

/-- `V1.step`, except that the refresh after a generation is skipped when it addresses another cache entry
(`hitPair`: `SaveKeyPairWithFilename`, `hitSym`: `generateAndSaveSymmetricKey`) – a `cache.Get` on a key nobody
stored finds nothing and `refreshCachedHistoricalPrivateKeyFilenames` returns at once -/
def V1.stepK (hitPair hitSym : Bool) (st : V1) : Op → V1 × Obs
  | .gen s =>
    if (s.kind.isPair && hitPair) || ((s.kind == .ss || s.kind == .ps) && hitSym) || s.kind == .hm || s.kind == .al then
      st.step (.gen s)
    else
      let g := st.count s + 1
      let (fs', done) := applyAll st.fs (genCalls st.fs s g)
      let st1 := { st with fs := fs', count := upd st.count s g }
      if ¬ done then (st1, .err) else
      match s.kind with
      | .sp | .pp => ((st1.cadd (.rel (privFile s)) (.key g)).cadd (.rel (pubFile s)) (.key g), .ok)
      | _ => (st1, .ok)
  | o => st.step o

def V1.runK (hitPair hitSym : Bool) (st : V1) : List Op → V1 × List Obs
  | [] => (st, [])
  | o :: os => let (st', x) := st.stepK hitPair hitSym o; let (st'', xs) := V1.runK hitPair hitSym st' os; (st'', x :: xs)

theorem V1.stepK_true (st : V1) (o : Op) : st.stepK true true o = st.step o := by
  cases o with
  | gen s =>
    unfold V1.stepK
    cases hk : s.kind <;> simp [Kind.isPair, hk]
  | _ => rfl

theorem V1.runK_true (st : V1) (ops : List Op) : st.runK true true ops = st.run ops := by
  induction ops generalizing st with
  | nil => rfl
  | cons o os ih => simp only [V1.runK, V1.run, V1.stepK_true, ih]

/-! ### what the store offers the poison detector -/

def ppSlot : Slot := ⟨.pp, 0⟩
def psSlot : Slot := ⟨.ps, 0⟩

/-- the generations `GetPoisonPrivateKeys` (`s = ppSlot`) / `GetPoisonSymmetricKeys` (`s = psSlot`) return on state `st`,
newest first; `none`: an error (no keys – `ErrKeysNotFound` – or a read error) -/
def offeredGens (st : V1) (s : Slot) : Option (List Nat) :=
  match (st.step (.all s)).2 with
  | .keys l => some l
  | _ => none

/-- a list split at the FIRST occurrence of one of its members: what stands before it are other values -/
theorem split_at_first (g : Nat) : ∀ l : List Nat, g ∈ l →
    ∃ b, l = l.takeWhile (fun x => x != g) ++ g :: b := by
  intro l
  induction l with
  | nil => intro h; cases h
  | cons x r ih =>
    intro h
    by_cases hx : x = g
    · subst hx; exact ⟨r, by simp⟩
    · rcases List.mem_cons.mp h with h' | h'
      · exact absurd h'.symm hx
      · obtain ⟨b, hb⟩ := ih h'
        refine ⟨b, ?_⟩
        have : (x != g) = true := by simpa using hx
        rw [List.takeWhile_cons, this]
        simp only [if_true, List.cons_append]
        rw [← hb]

theorem mem_takeWhile_ne (g g' : Nat) : ∀ l : List Nat, g' ∈ l.takeWhile (fun x => x != g) → g' ≠ g := by
  intro l
  induction l with
  | nil => intro h; cases h
  | cons x r ih =>
    intro h
    by_cases hx : x = g
    · subst hx; simp at h
    · have : (x != g) = true := by simpa using hx
      rw [List.takeWhile_cons, this] at h
      simp only [if_true] at h
      rcases List.mem_cons.mp h with h' | h'
      · rw [h']; exact hx
      · exact ih h'

end AcraModel.Keystore
