import AcraModel.Keystore.V2Ring
import AcraModel.Generated.KeyNames
/-!
# Keystore v2: the server keystore over a back end

Follows `keystore/v2/keystore/{keyStore.go,keyRingUtils.go,storage_client.go,storage.go,hmac.go,
poison.go,auditLog.go}` and `filesystem/keyStoreLoad.go`. Every API call opens its ring afresh
(`OpenKeyRing` reads; `OpenKeyRingRW` creates an empty ring file when there is none – the poison
readers use the RW variant and therefore create empty rings as a side effect), so the handle holds no
state between calls and `reopen`/`reset` change nothing.

The back end holds, per ring path, the signed ring `<path>.keyring` and possibly a leftover
`<path>.keyring.new` (only after a crash or a failed rename – C08).
-/
namespace AcraModel.Keystore

structure V2 where
  rings : Slot → Option Ring
  /-- leftover `<ring>.keyring.new` (content irrelevant: `Put` is exclusive) -/
  newTmp : Slot → Bool
  count : Slot → Nat

def V2.init : V2 := ⟨fun _ => none, fun _ => false, fun _ => 0⟩

/-- back-end calls (`api.Backend`) -/
inductive BCall
  | lock | unlock | rlock | runlock
  | get (s : Slot)
  | putNew (s : Slot)       -- Put(<ring>.keyring.new, signed ring)
  | renameNew (s : Slot)    -- Rename(<ring>.keyring.new, <ring>.keyring)
  | listAll
deriving DecidableEq, Repr

/-- `pushASNring`: exclusive `Put` of the temporary, then `Rename` over the ring. `none` = error. -/
def V2.push (st : V2) (s : Slot) (r : Ring) : Option V2 :=
  if st.newTmp s then none else some { st with rings := upd st.rings s (some r) }

/-- `OpenKeyRingRW`: read the ring, creating an empty one when missing -/
def V2.openRW (st : V2) (s : Slot) : Option (V2 × Ring) :=
  match st.rings s with
  | some r => some (st, r)
  | none => (st.push s Ring.empty).map fun st' => (st', Ring.empty)

/-- `writeKeyRing` for a list of transactions on the stored ring: pull, apply, push -/
def V2.write (st : V2) (s : Slot) (txs : List Tx) : Option V2 :=
  match st.rings s with
  | some r => match applyTxs r txs with
    | some r' => st.push s r'
    | none => none
  | none => none

/-- the ring a reader sees: `OpenKeyRing` for client kinds and the audit log, `OpenKeyRingRW` for poison kinds -/
def V2.openForRead (st : V2) (s : Slot) : Option (V2 × Ring) :=
  match s.kind with
  | .pp | .ps => st.openRW s
  | _ => (st.rings s).map fun r => (st, r)

/-- key material of `seq` as `keyDataByFormat` + decrypt give it: fails for missing/destroyed keys -/
def Ring.material (r : Ring) (q : Nat) : Option Nat :=
  match r.find q with
  | some k => if k.state = .destroyed then none else k.data
  | none => none

/-- `allSymmetricKeys` / `allPairPrivateKeys` (after the repair: destroyed keys are skipped) -/
def Ring.allMaterial (r : Ring) : Option (List Nat) :=
  (r.allSeqs.filter fun q => (r.find q).any (·.state ≠ .destroyed)).mapM r.material

/-- `listRotatedRings` / `destroyRingRotatedKeyByIndex`: sequence numbers `1 .. len-1` that are not
destroyed, ascending (the loop `for i := 1; i < len(keys); i++ { ring.State(i) … }`); `none` when
`State(i)` fails because no key has that sequence number -/
def Ring.rotatedActive (r : Ring) : Option (List Nat) :=
  ((List.range (r.keys.length - 1)).map (· + 1)).foldr (fun q acc =>
    match r.find q, acc with
    | some k, some l => some (if k.state = .destroyed then l else q :: l)
    | _, _ => none) (some [])

def kindsWithRings : List Slot := allSlots3
where allSlots3 := ([Kind.sp, .ss, .hm].flatMap fun k => (List.range 3).map fun c => (⟨k, c⟩ : Slot)) ++ [⟨.pp, 0⟩, ⟨.ps, 0⟩, ⟨.al, 0⟩]

def V2.step (st : V2) : Op → V2 × Obs
  | .gen s =>
    match st.openRW s with
    | none => (st, .err)
    | some (st1, r) =>
      let g := st.count s + 1
      let q := r.nextSeq
      let st1 := { st1 with count := upd st1.count s g }
      -- AddKey
      match st1.write s [.addKey ⟨q, .preActive, some g⟩] with
      | none => (st1, .err)
      | some st2 =>
        -- SetCurrent (oldSeqnum is read from the handle's ring after the AddKey sync)
        match st2.rings s with
        | some r2 => match st2.write s [.setCurrent r2.current (some q)] with
          | some st3 => (st3, .ok)
          | none => (st2, .err)
        | none => (st2, .err)
  | .cur s =>
    match st.openForRead s with
    | none => (st, .err)
    | some (st', r) =>
      (st', match r.current.bind r.material with
        | some g => if s.kind == .pp then .pair g g else .key g
        | none => .err)
  | .pub s =>
    if ¬ s.kind.isPair then (st, .err) else
    match st.openForRead s with
    | none => (st, .err)
    | some (st', r) => (st', match r.current.bind r.material with | some g => .key g | none => .err)
  | .all s =>
    if ¬ s.kind.hasAll then (st, .err) else
    match st.openForRead s with
    | none => (st, .err)
    | some (st', r) =>
      (st', match r.allMaterial with
        | some l => if l = [] ∧ (s.kind == .pp || s.kind == .ps) then .err else .keys l
        | none => .err)
  | .list =>
    -- ListKeys: every ring must be recognised and have a current key
    if kindsWithRings.any (fun s => st.newTmp s) then (st, .err)
    else if kindsWithRings.any (fun s => (st.rings s).any (·.current.isNone)) then (st, .err)
    else (st, .files ((kindsWithRings.filter fun s => (st.rings s).isSome).map fun s => (s, false)))
  | .listRot =>
    if kindsWithRings.any (fun s => st.newTmp s) then (st, .err)
    else
      let rows := kindsWithRings.filterMap fun s => (st.rings s).map fun r => (s, r.rotatedActive)
      if rows.any (·.2.isNone) then (st, .err)
      else (st, .rotated ((rows.filterMap fun (s, l) => l.map fun l => ((s, false), l.length)).filter (·.2 ≠ 0)))
  | .dcur s =>
    if ¬ s.kind.canDestroy then (st, .err) else
    match st.openRW s with
    | none => (st, .err)
    | some (st1, r) =>
      match r.current with
      | none => (st1, .err)
      | some c => match r.find c with
        | none => (st1, .err)
        | some k =>
          if ¬ transitionValid k.state .destroyed then (st1, .err)
          else match st1.write s [.destroyData c k.data, .changeState c k.state .destroyed] with
            | some st2 => (st2, .ok)
            | none => (st1, .err)
  | .drot s i =>
    if ¬ s.kind.canDestroy then (st, .err) else
    match st.openRW s with
    | none => (st, .err)
    | some (st1, r) =>
      match r.rotatedActive with
      | none => (st1, .err)
      | some act =>
        if i < 2 ∨ i - 1 > act.length then (st1, .err)
        else match act[i - Generated.KeyNames.v2DestroyIndexOffset]? with
          | none => (st1, .panic)
          | some q => match r.find q with
            | none => (st1, .err)
            | some k =>
              if ¬ transitionValid k.state .destroyed then (st1, .err)
              else match st1.write s [.destroyData q k.data, .changeState q k.state .destroyed] with
                | some st2 => (st2, .ok)
                | none => (st1, .err)
  | .reset => (st, .ok)
  | .reopen => (st, .ok)

def V2.run (st : V2) : List Op → V2 × List Obs
  | [] => (st, [])
  | o :: os => let (st', x) := st.step o; let (st'', xs) := V2.run st' os; (st'', x :: xs)

end AcraModel.Keystore
