import AcraModel.Keystore.Calls
import AcraModel.Keystore.V1Cache
import AcraModel.Generated.KeystoreCrash
/-!
# The key-rotation tool `acra-rotate` (file variant) as a sequence of events (C08)

Follows `cmd/acra-rotate/fileRotation.go:rotateFiles` and `rotator.go`. For every key id of the file map
the tool generates a new key pair IN MEMORY (`getRotatedPublicKey`), then for every data file of that id
reads it, decrypts it with the keys the keystore offers, re-encrypts it with the new public key and
writes it back (`ioutil.WriteFile`, in place); only after ALL files of ALL ids it saves the new key pairs
(`saveRotatedKeys` → `SaveDataEncryptionKeys` per id) – and when that fails it logs the error and
reports success.

The persistent state is what survives a restart: per key id the key generations the keystore offers for
decryption (0 = the key pair that existed before, 1 = the tool's new pair) and per data file the generation
its content is encrypted with (`none` = torn garbage). The save of a key pair is ONE event here: whatever
happens inside it, the old key stays offered and the new one is offered iff the save got far enough –
that is what the keystore theorems of C08 give (`v1_write_op_atomic`, `v2_write_op_atomic`); `saveCut` below
opens that event up into the storage / back-end calls of the key store's write operation.
-/
namespace AcraModel.Keystore.Rotate
open AcraModel.Keystore

def upd2 (f : Nat → Nat → Option Nat) (c i : Nat) (v : Option Nat) : Nat → Nat → Option Nat :=
  fun c' i' => if c' = c ∧ i' = i then v else f c' i'

structure RSt where
  /-- key id ↦ generations offered after a restart, newest first -/
  offered : Nat → List Nat
  /-- key id, file ↦ generation the file's content is encrypted with -/
  files : Nat → Nat → Option Nat

def RSt.init : RSt := ⟨fun _ => [0], fun _ _ => some 0⟩

/-- every data file can be decrypted with a key the keystore offers -/
def RSt.Safe (st : RSt) : Prop := ∀ c i, ∃ g, st.files c i = some g ∧ g ∈ st.offered c

inductive REv
  | read (c i : Nat)      -- ReadFile + decrypt through the keystore + re-encrypt in memory + Stat
  | rewrite (c i : Nat)   -- write the re-encrypted file back
  | save (c : Nat)        -- SaveDataEncryptionKeys(id, new pair)
deriving DecidableEq, Repr

structure Variant where
  /-- data files are replaced atomically (temporary + rename) instead of being written in place -/
  atomicRewrite : Bool
  /-- a failing save ends the run with an error instead of being logged -/
  saveErrorFatal : Bool

/-- one event under the fault mode delivered to it: new state, and `some o` when the run ends here -/
def step (v : Variant) (mode : FaultMode) (st : RSt) : REv → RSt × Option Outcome
  | .read _ _ =>
    match mode with
    | .none => (st, none)
    | .err => (st, some .err)
    | _ => (st, some .crash)
  | .rewrite c i =>
    let new : RSt := { st with files := upd2 st.files c i (some 1) }
    match mode with
    | .none => (new, none)
    -- `ioutil.WriteFile` opens the file with O_TRUNC and then writes: an I/O error of the write (disk full, quota)
    -- comes after the old content is gone – the file holds a prefix of the new content and the tool returns
    | .err => (if v.atomicRewrite then st else { st with files := upd2 st.files c i none }, some .err)
    | .cb => (st, some .crash)
    | .ca => (new, some .crash)
    | .torn => (if v.atomicRewrite then st else { st with files := upd2 st.files c i none }, some .crash)
  | .save c =>
    let new : RSt := { st with offered := upd st.offered c (1 :: st.offered c) }
    match mode with
    | .none => (new, none)
    | .err => (st, some (if v.saveErrorFatal then .err else .ok))
    | .ca => (new, some .crash)
    | _ => (st, some .crash)

def exec (v : Variant) (ft : Fault) : Nat → RSt → List REv → RSt × Outcome
  | _, st, [] => (st, .ok)
  | idx, st, e :: es =>
    match step v (ft.at idx) st e with
    | (st', some o) => (st', o)
    | (st', none) => exec v ft (idx + 1) st' es

def fileEvents (c : Nat) (l : List Nat) : List REv := l.flatMap fun i => [.read c i, .rewrite c i]

/-- the order of the code: all files of all key ids, then all saves. `clients` = (key id, number of files) -/
def eventsCode (clients : List (Nat × Nat)) : List REv :=
  (clients.flatMap fun cn => fileEvents cn.1 (List.range cn.2)) ++ clients.map fun cn => .save cn.1

/-- the other order: the new key pair of an id is saved before any of the id's files is rewritten -/
def eventsSavedFirst : List (Nat × Nat) → List REv
  | [] => []
  | cn :: rest => .save cn.1 :: (fileEvents cn.1 (List.range cn.2) ++ eventsSavedFirst rest)

/-- the tool as the regenerated facts describe it -/
def codeVariant : Variant :=
  ⟨Generated.KeystoreCrash.rotateFilesCalls.contains "2:Rename", Generated.KeystoreCrash.rotateSaveErrorReturned⟩

def codeEvents (clients : List (Nat × Nat)) : List REv :=
  if Generated.KeystoreCrash.rotateKeySavedWhenGenerated then eventsSavedFirst clients else eventsCode clients

/-! ## inside the save: the key store's own write operation, cut after its `j`-th call -/

/-- the slot of the key pair the tool rotates (storage key pair of the first client) -/
def pairSlot : Slot := ⟨.sp, 0⟩

/-- what the restarted key store offers for decryption, as generations of the TOOL's numbering (0 = the pair that
existed, 1 = the tool's new pair), newest first, duplicates removed; `none` = "all keys" fails -/
def offeredOf : Obs → Option (List Nat)
  | .keys l => some ((l.map (· - 1)).eraseDups)
  | _ => none

/-- v1: all `n` files of the key id are rewritten, then `SaveDataEncryptionKeys` = the key store's rotation of the
pair, crashing right after its `j`-th storage call: calls made, outcome, keys offered after the restart -/
def saveCutV1 (j : Nat) : List Call × Outcome × Option (List Nat) :=
  let st := ((V1.init (-1)).run [.gen pairSlot]).1
  let r := st.stepF ⟨.ca, j⟩ (.gen pairSlot)
  (r.2.1, r.2.2, offeredOf (r.1.clear.step (.all pairSlot)).2)

def saveCutV2 (j : Nat) : List BCall × Outcome × Option (List Nat) :=
  let st := (V2.init.run [.gen pairSlot]).1
  let r := st.stepF ⟨.ca, j⟩ (.gen pairSlot)
  (r.2.1, r.2.2, offeredOf (r.1.step (.all pairSlot)).2)

/-! ## the order "save first" is safe at every cut -/

/-- `saved c`: the new key of `c` is offered. Every rewrite must find its key saved. -/
def Ready (saved : Nat → Bool) : List REv → Bool
  | [] => true
  | .save c :: es => Ready (fun x => x == c || saved x) es
  | .rewrite c _ :: es => saved c && Ready saved es
  | .read _ _ :: es => Ready saved es

def Inv (st : RSt) : Prop :=
  ∀ c, 0 ∈ st.offered c ∧ ∀ i, st.files c i = some 0 ∨ (st.files c i = some 1 ∧ 1 ∈ st.offered c)

theorem Inv.safe {st : RSt} (h : Inv st) : st.Safe := by
  intro c i
  rcases (h c).2 i with h0 | ⟨h1, h2⟩
  · exact ⟨0, h0, (h c).1⟩
  · exact ⟨1, h1, h2⟩

theorem Inv.init : Inv RSt.init := by
  intro c; exact ⟨by simp [RSt.init], fun i => Or.inl rfl⟩

theorem Inv.rewrite {st : RSt} (h : Inv st) (c i : Nat) (hc : 1 ∈ st.offered c) :
    Inv { st with files := upd2 st.files c i (some 1) } := by
  intro c'
  refine ⟨(h c').1, fun i' => ?_⟩
  by_cases e : c' = c ∧ i' = i
  · obtain ⟨rfl, rfl⟩ := e
    exact Or.inr ⟨by simp [upd2], hc⟩
  · simp only [upd2, if_neg e]; exact (h c').2 i'

theorem Inv.save {st : RSt} (h : Inv st) (c : Nat) :
    Inv { st with offered := upd st.offered c (1 :: st.offered c) } := by
  intro c'
  by_cases e : c' = c
  · subst e
    refine ⟨by simp [(h c').1], fun i => ?_⟩
    rcases (h c').2 i with h0 | ⟨h1, _⟩
    · exact Or.inl h0
    · exact Or.inr ⟨h1, by simp⟩
  · simp only [upd_other _ _ _ _ e]; exact h c'

theorem exec_ready (v : Variant) (hv : v.atomicRewrite = true) (ft : Fault) (evs : List REv) :
    ∀ (idx : Nat) (st : RSt) (saved : Nat → Bool), Inv st → (∀ c, saved c = true → 1 ∈ st.offered c) →
      Ready saved evs = true → Inv (exec v ft idx st evs).1 := by
  induction evs with
  | nil => intro idx st saved h _ _; simpa [exec] using h
  | cons e es ih =>
    intro idx st saved h hs hr
    cases e with
    | read c i =>
      have hr' : Ready saved es = true := by simpa [Ready] using hr
      cases hm : ft.at idx <;> simp only [exec, step, hm]
      · exact ih _ _ saved h hs hr'
      all_goals exact h
    | rewrite c i =>
      have hr' : saved c = true ∧ Ready saved es = true := by simpa [Ready] using hr
      have hn := h.rewrite c i (hs c hr'.1)
      cases hm : ft.at idx <;> simp only [exec, step, hm, hv, if_true]
      · exact ih _ _ saved hn hs hr'.2
      · exact h
      · exact h
      · exact hn
      · exact h
    | save c =>
      have hr' : Ready (fun x => x == c || saved x) es = true := by simpa [Ready] using hr
      have hn := h.save c
      have hs' : ∀ x, (x == c || saved x) = true →
          1 ∈ ({ st with offered := upd st.offered c (1 :: st.offered c) } : RSt).offered x := by
        intro x hx
        by_cases e : x = c
        · subst e; simp
        · have : saved x = true := by simpa [e] using hx
          simp only [upd_other _ _ _ _ e]; exact hs x this
      cases hm : ft.at idx <;> simp only [exec, step, hm]
      · exact ih _ _ _ hn hs' hr'
      · exact h
      · exact h
      · exact hn
      · exact h

theorem ready_files (saved : Nat → Bool) (c : Nat) (hc : saved c = true) (l : List Nat) (rest : List REv) :
    Ready saved (fileEvents c l ++ rest) = Ready saved rest := by
  induction l with
  | nil => simp [fileEvents]
  | cons i l ih =>
    have : fileEvents c (i :: l) = .read c i :: .rewrite c i :: fileEvents c l := by
      simp [fileEvents, List.flatMap_cons]
    rw [this]
    simp only [List.cons_append, Ready, hc, Bool.true_and]
    exact ih

theorem ready_savedFirst (clients : List (Nat × Nat)) : ∀ saved, Ready saved (eventsSavedFirst clients) = true := by
  induction clients with
  | nil => intro saved; rfl
  | cons cn rest ih =>
    intro saved
    simp only [eventsSavedFirst, Ready]
    rw [ready_files _ cn.1 (by simp)]
    exact ih _

end AcraModel.Keystore.Rotate
