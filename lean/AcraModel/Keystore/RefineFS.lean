import AcraModel.Keystore.RefineSpec
import AcraModel.Keystore.V1Lemmas
/-!
# v1: the filesystem evolution of a run, its invariant, and the abstraction to the specification

The storage state and the generation counters of the v1 store evolve independently of the key cache
(`V1.step_fs`, `V1.step_count`): every write operation computes its storage calls from the storage
alone. `FSInv` is the invariant of runs without destroy-current: per key file the current file holds
the newest generation, the history directory holds older generations in increasing order of both
name (time) and generation, public files mirror private ones for key pairs.
-/
namespace AcraModel.Keystore

/-! ## closed forms of the write operations on a store without temporaries -/

theorem applyAll_append (fs : FS) (a b : List Call) :
    applyAll fs (a ++ b) = if (applyAll fs a).2 then applyAll (applyAll fs a).1 b else ((applyAll fs a).1, false) := by
  induction a generalizing fs with
  | nil => simp [applyAll]
  | cons c cs ih =>
    cases h : applyCall fs c with
    | none => simp [applyAll, h]
    | some fs' => simp only [List.cons_append, applyAll, h]; exact ih fs'

/-- the store after a completed `WriteKeyFile(<f>, c)` -/
def FS.written (fs : FS) (f : FileId) (c : Content) : FS :=
  match fs.cur f with
  | none => { fs with cur := upd fs.cur f (some c), tmps := [], nextTmp := fs.nextTmp + 1 }
  | some c0 => { fs with cur := upd fs.cur f (some c), oldDir := upd fs.oldDir f true,
                         old := upd fs.old f (fs.old f ++ [(fs.clock, c0)]), clock := fs.clock + 1,
                         tmps := [], nextTmp := fs.nextTmp + 1 }

theorem applyAll_writeKeyFile (fs : FS) (f : FileId) (c : Content) (ht : fs.tmps = []) :
    applyAll fs (writeKeyFileCalls fs f c) = (fs.written f c, true) := by
  unfold writeKeyFileCalls FS.written
  cases h : fs.cur f with
  | none => simp [h, applyAll, applyCall, FS.tmpContent, ht]
  | some c0 => simp [h, applyAll, applyCall, FS.tmpContent, ht]

theorem FS.written_tmps (fs : FS) (f : FileId) (c : Content) : (fs.written f c).tmps = [] := by
  unfold FS.written; split <;> rfl

theorem FS.written_cur (fs : FS) (f : FileId) (c : Content) : (fs.written f c).cur = upd fs.cur f (some c) := by
  unfold FS.written; split <;> rfl

theorem FS.written_clock (fs : FS) (f : FileId) (c : Content) : fs.clock ≤ (fs.written f c).clock := by
  unfold FS.written; split <;> simp

theorem FS.written_old_other (fs : FS) (f f' : FileId) (c : Content) (h : f' ≠ f) : (fs.written f c).old f' = fs.old f' := by
  unfold FS.written; split <;> simp [upd, h]

theorem FS.written_oldDir_other (fs : FS) (f f' : FileId) (c : Content) (h : f' ≠ f) : (fs.written f c).oldDir f' = fs.oldDir f' := by
  unfold FS.written; split <;> simp [upd, h]

theorem FS.written_old_none (fs : FS) (f : FileId) (c : Content) (h : fs.cur f = none) : (fs.written f c).old f = fs.old f := by
  unfold FS.written; simp [h]

theorem FS.written_old_some (fs : FS) (f : FileId) (c c0 : Content) (h : fs.cur f = some c0) :
    (fs.written f c).old f = fs.old f ++ [(fs.clock, c0)] ∧ (fs.written f c).oldDir f = true ∧
    (fs.written f c).clock = fs.clock + 1 := by
  unfold FS.written; simp [h]

theorem FS.written_oldDir_none (fs : FS) (f : FileId) (c : Content) (h : fs.cur f = none) : (fs.written f c).oldDir f = fs.oldDir f := by
  unfold FS.written; simp [h]

/-- the store after a completed generate/rotate of slot `s` -/
def FS.generated (fs : FS) (s : Slot) (g : Nat) : FS :=
  if s.kind.isPair then (fs.written (privFile s) (.full g)).written (pubFile s) (.full g)
  else fs.written (privFile s) (.full g)

theorem applyAll_genCalls (fs : FS) (s : Slot) (g : Nat) (ht : fs.tmps = []) :
    applyAll fs (genCalls fs s g) = (fs.generated s g, true) := by
  unfold genCalls FS.generated
  cases hp : s.kind.isPair
  · simp [applyAll_writeKeyFile fs _ _ ht]
  · simp only [if_true]
    rw [show ([Call.mkdirAll (privFile s), Call.mkdirAll (pubFile s)] ++ writeKeyFileCalls fs (privFile s) (.full g) ++
          writeKeyFileCalls (applyAll fs (writeKeyFileCalls fs (privFile s) (.full g))).1 (pubFile s) (.full g)) =
        Call.mkdirAll (privFile s) :: Call.mkdirAll (pubFile s) :: (writeKeyFileCalls fs (privFile s) (.full g) ++
          writeKeyFileCalls (applyAll fs (writeKeyFileCalls fs (privFile s) (.full g))).1 (pubFile s) (.full g)) from by simp]
    simp only [applyAll, applyCall]
    rw [applyAll_append, applyAll_writeKeyFile fs _ _ ht]
    simp only [if_true]
    exact applyAll_writeKeyFile _ _ _ (FS.written_tmps _ _ _)

/-- the store after `destroyRotatedKeyByIndex(<f>, i)` and whether it reported success -/
def FS.drotted (fs : FS) (f : FileId) (i : Nat) : FS × Bool :=
  if fs.oldDir f = true ∧ 2 ≤ i ∧ i ≤ (fs.old f).length + 1 then
    ({ fs with old := upd fs.old f ((fs.old f).eraseIdx (i - 2)) }, true)
  else (fs, false)

theorem applyAll_drotFileCalls (fs : FS) (f : FileId) (i : Nat) (hd : fs.OldDistinct f) :
    (applyAll fs (drotFileCalls fs f i).1).1 = (fs.drotted f i).1 ∧
    ((drotFileCalls fs f i).2 && (applyAll fs (drotFileCalls fs f i).1).2) = (fs.drotted f i).2 := by
  unfold drotFileCalls FS.drotted
  by_cases hdir : fs.oldDir f = true
  · by_cases hr : 2 ≤ i ∧ i ≤ (fs.old f).length + 1
    · have hlt : i - 2 < (fs.old f).length := by omega
      have hget : (fs.old f)[i - 2]? = some (fs.old f)[i - 2] := List.getElem?_eq_getElem hlt
      generalize (fs.old f)[i - 2] = e at hget
      obtain ⟨t, c⟩ := e
      have hcond : ¬ (i < 2 ∨ i > (fs.old f).length + 1) := by omega
      have hoff : Generated.KeyNames.v1DestroyIndexOffset = 2 := rfl
      simp only [hdir, not_true_eq_false, if_false, hcond, hoff, hget, hr, and_self, if_true]
      simp only [applyAll, applyCall, hdir, if_true, Bool.and_self, and_true]
      rw [filter_ne_eq_eraseIdx _ _ _ _ hd hget]
    · have hcond : (i < 2 ∨ i > (fs.old f).length + 1) := by omega
      simp [hdir, hcond, hr, applyAll, applyCall]
  · simp [hdir, applyAll, applyCall]

/-! ## the storage component of a step does not depend on the cache -/

@[simp] theorem V1.cadd_fs (st : V1) (k : CKey) (v : CVal) : (st.cadd k v).fs = st.fs := rfl
@[simp] theorem V1.cadd_count (st : V1) (k : CKey) (v : CVal) : (st.cadd k v).count = st.count := rfl
@[simp] theorem V1.clear_fs (st : V1) : st.clear.fs = st.fs := rfl
@[simp] theorem V1.clear_count (st : V1) : st.clear.count = st.count := rfl

@[simp] theorem V1.cget_fs (st : V1) (k : CKey) : (st.cget k).1.fs = st.fs := by
  unfold V1.cget; split <;> rfl
@[simp] theorem V1.cget_count (st : V1) (k : CKey) : (st.cget k).1.count = st.count := by
  unfold V1.cget; split <;> rfl

@[simp] theorem V1.loadNames_fs (st : V1) (f : FileId) : (st.loadNames f).1.fs = st.fs := rfl
@[simp] theorem V1.loadNames_count (st : V1) (f : FileId) : (st.loadNames f).1.count = st.count := rfl

@[simp] theorem V1.refreshNames_fs (st : V1) (f : FileId) : (st.refreshNames f).fs = st.fs := by
  unfold V1.refreshNames
  have := V1.cget_fs st (.names f)
  split <;> simp_all
@[simp] theorem V1.refreshNames_count (st : V1) (f : FileId) : (st.refreshNames f).count = st.count := by
  unfold V1.refreshNames
  have := V1.cget_count st (.names f)
  split <;> simp_all

@[simp] theorem V1.getNames_fs (st : V1) (f : FileId) : (st.getNames f).1.fs = st.fs := by
  unfold V1.getNames
  have := V1.cget_fs st (.names f)
  split <;> simp_all
@[simp] theorem V1.getNames_count (st : V1) (f : FileId) : (st.getNames f).1.count = st.count := by
  unfold V1.getNames
  have := V1.cget_count st (.names f)
  split <;> simp_all

@[simp] theorem V1.readKey_fs (st : V1) (f : FileId) (n : Option Nat) (m : Bool) : (st.readKey f n m).1.fs = st.fs := by
  unfold V1.readKey
  have := V1.cget_fs st (ckeyOf f n)
  simp only
  split <;> (try split) <;> (try split) <;> simp_all
@[simp] theorem V1.readKey_count (st : V1) (f : FileId) (n : Option Nat) (m : Bool) : (st.readKey f n m).1.count = st.count := by
  unfold V1.readKey
  have := V1.cget_count st (ckeyOf f n)
  simp only
  split <;> (try split) <;> (try split) <;> simp_all

theorem V1.readAllAux_fs (f : FileId) (m : Bool) (st : V1) (ns : List (Option Nat)) (acc : List Nat) :
    (V1.readAllAux f m st ns acc).1.fs = st.fs ∧ (V1.readAllAux f m st ns acc).1.count = st.count := by
  induction ns generalizing st acc with
  | nil => exact ⟨rfl, rfl⟩
  | cons n ns ih =>
    simp only [V1.readAllAux]
    have h1 := V1.readKey_fs st f n m
    have h2 := V1.readKey_count st f n m
    generalize st.readKey f n m = p at h1 h2
    obtain ⟨st', r⟩ := p
    cases r with
    | none => exact ⟨h1, h2⟩
    | some g =>
      simp only
      have := ih st' (g :: acc)
      exact ⟨this.1.trans h1, this.2.trans h2⟩

@[simp] theorem V1.readAll_fs (st : V1) (s : Slot) : (st.readAll s).1.fs = st.fs := by
  unfold V1.readAll
  simp only
  rw [(V1.readAllAux_fs _ _ _ _ _).1]; simp
@[simp] theorem V1.readAll_count (st : V1) (s : Slot) : (st.readAll s).1.count = st.count := by
  unfold V1.readAll
  simp only
  rw [(V1.readAllAux_fs _ _ _ _ _).2]; simp

@[simp] theorem V1.poisonPair_fs (st : V1) (s : Slot) : (st.poisonPair s).1.fs = st.fs := by
  unfold V1.poisonPair
  simp only
  split <;> (try split) <;> simp
@[simp] theorem V1.poisonPair_count (st : V1) (s : Slot) : (st.poisonPair s).1.count = st.count := by
  unfold V1.poisonPair
  simp only
  split <;> (try split) <;> simp

@[simp] theorem V1.storagePub_fs (st : V1) (s : Slot) : (st.storagePub s).1.fs = st.fs := by
  unfold V1.storagePub
  have := V1.cget_fs st (.absPub (pubFile s))
  split <;> (try split) <;> simp_all
@[simp] theorem V1.storagePub_count (st : V1) (s : Slot) : (st.storagePub s).1.count = st.count := by
  unfold V1.storagePub
  have := V1.cget_count st (.absPub (pubFile s))
  split <;> (try split) <;> simp_all

theorem V1.drotFile_fs (st : V1) (f : FileId) (i : Nat) :
    (st.drotFile f i).1.fs = (applyAll st.fs (drotFileCalls st.fs f i).1).1 ∧ (st.drotFile f i).1.count = st.count ∧
    (st.drotFile f i).2 = ((drotFileCalls st.fs f i).2 && (applyAll st.fs (drotFileCalls st.fs f i).1).2) := by
  unfold V1.drotFile
  simp only
  split <;> simp_all

/-- storage and counters after one operation, computed from storage and counters alone -/
def fsStep (fs : FS) (count : Slot → Nat) : Op → FS
  | .gen s => (applyAll fs (genCalls fs s (count s + 1))).1
  | .dcur s => if s.kind.canDestroy then (applyAll fs (dcurCalls s)).1 else fs
  | .drot s i =>
    if ¬ s.kind.canDestroy then fs else
    let r1 := drotFileCalls fs (privFile s) i
    let a1 := applyAll fs r1.1
    if ¬ (r1.2 && a1.2) then a1.1 else
    if s.kind.isPair then (applyAll a1.1 (drotFileCalls a1.1 (pubFile s) i).1).1 else a1.1
  | _ => fs

/-- **The storage never depends on the cache.** -/
theorem V1.step_fs (st : V1) (o : Op) : (st.step o).1.fs = fsStep st.fs st.count o ∧ (st.step o).1.count = countStep st.count o := by
  cases o with
  | gen s =>
    simp only [V1.step, fsStep, countStep]
    split
    · exact ⟨rfl, rfl⟩
    · split <;> simp
  | cur s =>
    simp only [V1.step, fsStep, countStep]
    split <;> simp
  | pub s =>
    simp only [V1.step, fsStep, countStep]
    split <;> simp
  | all s =>
    simp only [V1.step, fsStep, countStep]
    split <;> simp
  | list => exact ⟨rfl, rfl⟩
  | listRot => exact ⟨rfl, rfl⟩
  | dcur s =>
    simp only [V1.step, fsStep, countStep]
    by_cases hc : s.kind.canDestroy = true
    · simp only [hc, not_true_eq_false, if_false, if_true]
      cases hk : s.kind <;> simp
    · simp [hc]
  | drot s i =>
    simp only [V1.step, fsStep, countStep]
    by_cases hc : s.kind.canDestroy = true
    · simp only [hc, not_true_eq_false, if_false]
      have h1 := V1.drotFile_fs st (privFile s) i
      generalize st.drotFile (privFile s) i = p1 at h1
      obtain ⟨st1, ok1⟩ := p1
      simp only at h1
      obtain ⟨h1a, h1b, h1c⟩ := h1
      rw [← h1c, ← h1a]
      cases ok1
      · simp [h1b]
      · simp only [not_true_eq_false, if_false, Bool.not_eq_true]
        cases hp : s.kind.isPair
        · simp [h1b]
        · simp only [if_true]
          have h2 := V1.drotFile_fs st1 (pubFile s) i
          generalize st1.drotFile (pubFile s) i = p2 at h2
          obtain ⟨st2, ok2⟩ := p2
          simp only at h2
          exact ⟨h2.1, h2.2.1.trans h1b⟩
    · simp [hc]
  | reset => exact ⟨rfl, rfl⟩
  | reopen => exact ⟨rfl, rfl⟩

end AcraModel.Keystore
