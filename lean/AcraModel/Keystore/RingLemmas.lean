import AcraModel.Keystore.V2Store
/-! Helper lemmas about key rings and their transactions (used by `Props/C06`). -/
namespace AcraModel.Keystore

/-- sequence numbers of a ring are pairwise distinct -/
def Ring.Distinct (r : Ring) : Prop := r.keys.Pairwise (fun a b => a.seq ≠ b.seq)

theorem map_setKey_id (keys : List Key2) (q : Nat) (k0 : Key2) (f : Key2 → Key2)
    (hd : keys.Pairwise (fun a b => a.seq ≠ b.seq)) (hfind : keys.find? (·.seq = q) = some k0) (hf : f k0 = k0) :
    keys.map (fun k => if k.seq = q then f k else k) = keys := by
  induction keys with
  | nil => rfl
  | cons k ks ih =>
    rw [List.pairwise_cons] at hd
    by_cases hk : k.seq = q
    · have : k = k0 := by simpa [List.find?, hk] using hfind
      subst this
      have hrest : ks.map (fun k' => if k'.seq = q then f k' else k') = ks := by
        have : ∀ k' ∈ ks, (fun k' => if k'.seq = q then f k' else k') k' = id k' := by
          intro k' hk'
          have := hd.1 k' hk'
          simp [hk ▸ this.symm]
        rw [List.map_congr_left this, List.map_id]
      simp [hk, hf, hrest]
    · have hfind' : ks.find? (·.seq = q) = some k0 := by simpa [List.find?, hk] using hfind
      simp [hk, ih hd.2 hfind']

theorem find_setKey (keys : List Key2) (q : Nat) (k0 : Key2) (f : Key2 → Key2) (hseq : ∀ k, (f k).seq = k.seq)
    (hfind : keys.find? (·.seq = q) = some k0) :
    (keys.map (fun k => if k.seq = q then f k else k)).find? (·.seq = q) = some (f k0) := by
  induction keys with
  | nil => simp at hfind
  | cons k ks ih =>
    by_cases hk : k.seq = q
    · have : k = k0 := by simpa [List.find?, hk] using hfind
      subst this
      simp [List.find?, hk, hseq]
    · have hfind' : ks.find? (·.seq = q) = some k0 := by simpa [List.find?, hk] using hfind
      simp [List.find?, hk, ih hfind']

theorem map_map_setKey (keys : List Key2) (q : Nat) (f g : Key2 → Key2) (hseq : ∀ k, (f k).seq = k.seq) :
    (keys.map (fun k => if k.seq = q then f k else k)).map (fun k => if k.seq = q then g k else k) =
    keys.map (fun k => if k.seq = q then g (f k) else k) := by
  rw [List.map_map]
  apply List.map_congr_left
  intro k _
  by_cases hk : k.seq = q <;> simp [hk, hseq]

/-- `Rollback ∘ Apply = id` for every transaction of `keyRingTX.go` (on rings with distinct sequence
numbers; `destroyData` carries the backup `Apply` takes, i.e. the data the key had). -/
theorem rollback_apply (r r' : Ring) (tx : Tx) (hd : r.Distinct) (h : tx.apply r = some r')
    (hbackup : ∀ q b, tx = .destroyData q b → (r.find q).map (·.data) = some b) :
    tx.rollback r' = r := by
  cases tx with
  | addKey k =>
    simp only [Tx.apply] at h
    split at h
    · cases h
    · cases h; simp [Tx.rollback]
  | setCurrent old new =>
    simp only [Tx.apply] at h
    split at h
    · cases h
    · rename_i hcur
      have hcur : r.current = old := by simpa using hcur
      cases r with
      | mk keys current =>
        simp only at hcur
        subst hcur
        split at h <;> (try split at h) <;> (first | cases h | skip) <;> simp [Tx.rollback]
  | changeState q old new =>
    simp only [Tx.apply] at h
    cases hf : r.find q with
    | none => simp [hf] at h
    | some k0 =>
      simp only [hf] at h
      split at h
      · rename_i hst
        cases h
        simp only [Tx.rollback, Ring.setKey]
        rw [map_map_setKey _ _ _ _ (by intro k; rfl)]
        cases r with
        | mk keys current =>
          simp only [Ring.mk.injEq, and_true]
          exact map_setKey_id keys q k0 _ hd hf (by cases k0; simp_all)
      · cases h
  | destroyData q b =>
    simp only [Tx.apply] at h
    cases hf : r.find q with
    | none => simp [hf] at h
    | some k0 =>
      simp only [hf] at h
      cases h
      have hb := hbackup q b rfl
      simp only [hf, Option.map_some, Option.some.injEq] at hb
      simp only [Tx.rollback, Ring.setKey]
      rw [map_map_setKey _ _ _ _ (by intro k; rfl)]
      cases r with
      | mk keys current =>
        simp only [Ring.mk.injEq, and_true]
        exact map_setKey_id keys q k0 _ hd hf (by cases k0; simp_all)

theorem find_setKey_other (keys : List Key2) (q q' : Nat) (f : Key2 → Key2) (hseq : ∀ k, (f k).seq = k.seq) (hq : q' ≠ q) :
    (keys.map (fun k => if k.seq = q then f k else k)).find? (·.seq = q') =
    (keys.find? (·.seq = q')).map (fun k => if k.seq = q then f k else k) := by
  induction keys with
  | nil => rfl
  | cons k ks ih =>
    by_cases hk : k.seq = q
    · have : ¬ k.seq = q' := fun h => hq (h ▸ hk ▸ rfl)
      simp [List.find?, hk, hseq, this, hk ▸ this, ih]
    · by_cases hk' : k.seq = q'
      · subst hk'
        simp [List.find?, hk]
      · simp [List.find?, hk, hk', ih]

theorem pairwise_setKey (keys : List Key2) (q : Nat) (f : Key2 → Key2) (hseq : ∀ k, (f k).seq = k.seq)
    (hd : keys.Pairwise (fun a b => a.seq ≠ b.seq)) :
    (keys.map (fun k => if k.seq = q then f k else k)).Pairwise (fun a b => a.seq ≠ b.seq) := by
  rw [List.pairwise_map]
  apply hd.imp
  intro a b hab
  by_cases ha : a.seq = q <;> by_cases hb : b.seq = q <;> simp [ha, hb, hseq] <;> simp_all

/-- **ring_inv.** Every transaction keeps the sequence numbers of a ring pairwise distinct (a key can
only be added under a sequence number the ring does not have yet), never removes a key, and leaves
`current` pointing at a key of the ring. -/
theorem ring_inv (r r' : Ring) (tx : Tx) (hd : r.Distinct) (h : tx.apply r = some r') : r'.Distinct := by
  cases tx with
  | addKey k =>
    simp only [Tx.apply] at h
    split at h
    · cases h
    · rename_i hnone
      cases h
      simp only [Ring.Distinct]
      rw [List.pairwise_append]
      refine ⟨hd, by simp, ?_⟩
      intro a ha b hb
      have hb' : b = k := by simpa using hb
      subst hb'
      intro heq
      apply hnone
      simp only [Ring.find]
      have : (r.keys.find? (·.seq = b.seq)).isSome = true := by
        rw [List.find?_isSome]
        exact ⟨a, ha, by simp [heq]⟩
      exact this
  | setCurrent old new =>
    simp only [Tx.apply] at h
    split at h
    · cases h
    · split at h <;> (try split at h) <;> (first | cases h | skip) <;> exact hd
  | changeState q old new =>
    simp only [Tx.apply] at h
    split at h
    · split at h
      · cases h; exact pairwise_setKey _ _ _ (by intro k; rfl) hd
      · cases h
    · cases h
  | destroyData q b =>
    simp only [Tx.apply] at h
    split at h
    · cases h; exact pairwise_setKey _ _ _ (by intro k; rfl) hd
    · cases h

/-- v2 destroy of one key (the transaction pair of `DestroyKey`): the chosen key loses its material
and becomes `destroyed`; every other key and the `current` pointer are untouched. -/
theorem v2_destroy_exact (r : Ring) (q : Nat) (k : Key2) (hf : r.find q = some k) :
    ∃ r', applyTxs r [.destroyData q k.data, .changeState q k.state .destroyed] = some r' ∧
      r'.material q = none ∧ r'.current = r.current ∧
      ∀ q', q' ≠ q → r'.find q' = r.find q' := by
  have h1 : (Tx.destroyData q k.data).apply r = some (r.setKey q fun k => { k with data := none }) := by
    simp [Tx.apply, hf]
  have hf2 : (r.setKey q fun k => { k with data := none }).find q = some { k with data := none } := by
    simp only [Ring.find, Ring.setKey]
    exact find_setKey r.keys q k _ (by intro k; rfl) hf
  refine ⟨(r.setKey q fun k => { k with data := none }).setKey q fun k => { k with state := .destroyed }, ?_, ?_, rfl, ?_⟩
  · have h2 : (Tx.changeState q k.state .destroyed).apply (r.setKey q fun k => { k with data := none }) =
        some ((r.setKey q fun k => { k with data := none }).setKey q fun k => { k with state := .destroyed }) := by
      simp [Tx.apply, hf2]
    simp only [applyTxs, h1, h2]
  · have : ((r.setKey q fun k => { k with data := none }).setKey q fun k => { k with state := .destroyed }).find q
        = some { k with data := none, state := .destroyed } := by
      simp only [Ring.find, Ring.setKey]
      have := find_setKey (r.keys.map fun k' => if k'.seq = q then { k' with data := none } else k') q { k with data := none }
        (fun k => { k with state := .destroyed }) (by intro k; rfl) (by simpa [Ring.find, Ring.setKey] using hf2)
      simpa using this
    simp [Ring.material, this]
  · intro q' hq'
    simp only [Ring.find, Ring.setKey]
    rw [find_setKey_other _ _ _ _ (by intro k; rfl) hq', find_setKey_other _ _ _ _ (by intro k; rfl) hq']
    cases hfq : r.keys.find? (·.seq = q') with
    | none => rfl
    | some k' =>
      have : k'.seq = q' := by simpa using List.find?_some hfq
      simp [this, hq']

end AcraModel.Keystore
