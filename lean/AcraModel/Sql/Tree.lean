import AcraModel.Basic.Bytes
import AcraModel.Generated.SqlLiterals
/-!
# Generic syntax trees of Acra's SQL parser (C16, C13)

The Go AST (`sqlparser/ast.go`) has ~100 node types. The model does not copy them: a statement is a
generic `Tree` – `node kind children` for a struct (children = its fields in declaration order), a
named slice (children = its elements) or a nil pointer (`node "nil" []`), and `atom bytes` for
strings, byte slices, numbers and booleans. Which children of a node the traversal (`Walk` /
`walkSubtree`) visits, which `ValType`s are literals and which of them the normaliser converts is
read from the tables REGENERATED from the source (`Generated/SqlLiterals.lean`).

The harness produces the same trees from real parser output by reflection (`harness/internal/c16/dump.go`).
-/
namespace AcraModel.Sql
open AcraModel

inductive Tree where
  | atom (b : Bytes)
  | node (kind : String) (kids : List Tree)
deriving Repr, Inhabited

namespace Tree

def kind : Tree → String
  | atom _ => "atom"
  | node k _ => k

def kids : Tree → List Tree
  | atom _ => []
  | node _ ks => ks

def atomBytes : Tree → Bytes
  | atom b => b
  | node _ _ => []

mutual
def beq : Tree → Tree → Bool
  | atom a, atom b => a == b
  | node k ks, node k' ks' => k == k' && beqList ks ks'
  | _, _ => false
def beqList : List Tree → List Tree → Bool
  | [], [] => true
  | a :: as, b :: bs => beq a b && beqList as bs
  | _, _ => false
end

instance : BEq Tree := ⟨beq⟩

end Tree

/-! ## tables regenerated from the source -/

open Generated.SqlLiterals in
/-- the row of the regenerated node table for an AST type -/
def nodeRow (k : String) : Option (String × String × List (String × Bool × Bool) × List String) :=
  nodes.find? (fun r => r.1 == k)

/-- position of an element in a list -/
def indexOf? (x : String) : List String → Option Nat
  | [] => none
  | y :: ys => if x == y then some 0 else (indexOf? x ys).map (· + 1)

/-- index of a field of a struct type in declaration order (= position among the children) -/
def fieldIndex (k f : String) : Option Nat :=
  match nodeRow k with
  | some (_, _, fields, _) => indexOf? f (fields.map (·.1))
  | none => none

/-- Which children the traversal of a node of this kind descends into. -/
inductive WalkSpec where
  | all                      -- named slice types whose walkSubtree ranges over every element, and unnamed slices
  | idx (is : List Nat)      -- struct types: the positions of the fields handed to `Walk`, in the order of the call
deriving Repr, DecidableEq

/-- `walkSubtree` of an AST type as data: from the regenerated `walked` column. Kinds that are not AST
types: `"[]"` (an unnamed Go slice such as `[]*When`: the loops in `walkSubtree` visit every element),
`"nil"` and anything unknown (nothing to visit). Entries `"F.X"` (only a sub-field of the elements of
`F` is visited) do not name a field and therefore visit nothing of `F`. -/
def walkSpec (k : String) : WalkSpec :=
  if k == "[]" then .all else
  match nodeRow k with
  | some (_, shape, fields, walked) =>
    if shape == "struct" then .idx (walked.filterMap fun w => indexOf? w (fields.map (·.1)))
    else if walked == ["*"] then .all else .idx []
  | none => .idx []

def WalkSpec.visits : WalkSpec → Nat → Bool
  | .all, _ => true
  | .idx is, i => is.contains i

open Generated.SqlLiterals in
/-- number of a `ValType` constant (iota order) -/
def valTypeNo (name : String) : Option Nat := indexOf? name valTypes

/-- tokens of the grammar rule `value:` that carry literal text of the client's statement -/
def literalTokens : List String :=
  ["SINGLE_QUOTE_STRING", "DOUBLE_QUOTE_STRING", "HEX", "BIT_LITERAL", "INTEGRAL", "FLOAT", "HEXNUM", "PG_ESCAPE_STRING"]

/-- tokens of the rule `value:` that are placeholders (their text is a name or number of a parameter) -/
def placeholderTokens : List String := ["VALUE_ARG", "DOLLAR_SIGN"]

open Generated.SqlLiterals in
/-- `ValType`s produced from literal tokens by the grammar (names) – REGENERATED, not hand-listed -/
def literalKindNames : List String :=
  ((valueTokens.filter fun r => literalTokens.contains r.1).flatMap (·.2)).eraseDups

open Generated.SqlLiterals in
/-- `ValType`s that `normalizer.sqlToBindvar` converts (names) -/
def convertedKindNames : List String := bindvarCases.map (·.1)

def literalKinds : List Nat := literalKindNames.filterMap valTypeNo
def convertedKinds : List Nat := convertedKindNames.filterMap valTypeNo

open Generated.SqlLiterals in
/-- `ValType`s that Acra's own second pass `maskLiterals` (redact_query.go) turns into placeholders -/
def maskedKinds : List Nat := maskCases.filterMap valTypeNo

open Generated.SqlLiterals in
/-- `ValType`s whose conversion in `sqlToBindvar` goes through the validating `sqltypes.NewValue`
(and is skipped when the value does not fit the bind type) -/
def validatedKinds : List Nat := (bindvarCases.filter (·.2.2)).filterMap (fun r => valTypeNo r.1)

open Generated.SqlLiterals in
/-- the sqltypes type `sqlToBindvar` gives a literal of this `ValType` number (`none`: not converted) -/
def bindTypeOf (ty : Nat) : Option String :=
  match valTypes[ty]? with
  | some name => (bindvarCases.find? (fun r => r.1 == name)).map (·.2.1)
  | none => none

def valArgNo : Nat := (valTypeNo "ValArg").getD 0

/-! ## SQLVal nodes

`SQLVal{Type, Val, CastType, unknown}` is `node "SQLVal" [atom <decimal type number>, atom val, atom cast, unknown]`. -/

def decDigits : Nat → Nat → List UInt8
  | 0, _ => []
  | fuel+1, n => if n < 10 then [UInt8.ofNat (48 + n)] else decDigits fuel (n / 10) ++ [UInt8.ofNat (48 + n % 10)]

/-- decimal rendering of a number (as bytes); fuel `n+1` always suffices -/
def natDec (n : Nat) : Bytes := decDigits (n + 1) n

def decVal (b : Bytes) : Option Nat :=
  b.foldl (fun acc c => acc.bind fun a => if 48 ≤ c.toNat ∧ c.toNat ≤ 57 then some (a * 10 + (c.toNat - 48)) else none) (if b.isEmpty then none else some 0)

/-- (type number, value bytes) of an `SQLVal` node -/
def sqlVal? : Tree → Option (Nat × Bytes)
  | .node "SQLVal" (.atom ty :: .atom v :: _) => (decVal ty).map fun n => (n, v)
  | _ => none

def mkSqlVal (ty : Nat) (v : Bytes) (rest : List Tree) : Tree :=
  .node "SQLVal" (.atom (natDec ty) :: .atom v :: rest)

/-- a literal: an `SQLVal` whose type the grammar produces from a literal token -/
def isLiteral (t : Tree) : Bool :=
  match sqlVal? t with
  | some (ty, _) => literalKinds.contains ty
  | none => false

/-- Does `sqltypes.NewValue(bindType, val)` accept the value? Abstract in the theorems (they hold for every
answer); the driver uses `GoNum.goValid` (Go's `strconv.ParseInt(·, 0, 64)` / `ParseFloat(·, 64)`). -/
abbrev Validator := String → Bytes → Bool

/-- an `SQLVal` that `sqlToBindvar` turns into a bind variable -/
def isConvertible (valid : Validator) (t : Tree) : Bool :=
  match sqlVal? t with
  | some (ty, v) => convertedKinds.contains ty && (!validatedKinds.contains ty || valid ((bindTypeOf ty).getD "") v)
  | none => false

/-- an `SQLVal` that `maskLiterals` turns into a placeholder -/
def isMasked (t : Tree) : Bool :=
  match sqlVal? t with
  | some (ty, _) => maskedKinds.contains ty
  | none => false

mutual
/-- the values of all literals anywhere in a tree (walked or not) -/
def lits : Tree → List Bytes
  | .atom _ => []
  | .node k ks => (if isLiteral (.node k ks) then [(sqlVal? (.node k ks)).map (·.2) |>.getD []] else []) ++ litsList ks
def litsList : List Tree → List Bytes
  | [] => []
  | t :: ts => lits t ++ litsList ts
end

/-! ## line protocol: trees as token lists (prefix order)

`a <hex>` is an atom, `n <kind> <arity>` a node followed by its children. -/

mutual
def render : Tree → List String
  | .atom b => ["a", hexOf b]
  | .node k ks => ["n", k, toString ks.length] ++ renderList ks
def renderList : List Tree → List String
  | [] => []
  | t :: ts => render t ++ renderList ts
end

def renderStr (t : Tree) : String := " ".intercalate (render t)

/-- parser of the token form; `fuel` bounds the number of nodes -/
def parseTree : Nat → List String → Option (Tree × List String)
  | 0, _ => none
  | _+1, "a" :: h :: rest => (ofHex h).map fun b => (.atom b, rest)
  | fuel+1, "n" :: k :: n :: rest => do
      let n ← n.toNat?
      let rec kidsLoop (m : Nat) (toks : List String) (acc : List Tree) : Option (List Tree × List String) :=
        match m with
        | 0 => some (acc.reverse, toks)
        | m+1 => match parseTree fuel toks with
                 | some (t, toks') => kidsLoop m toks' (t :: acc)
                 | none => none
      let (ks, rest') ← kidsLoop n rest []
      pure (.node k ks, rest')
  | _, _ => none

def parseTreeAll (toks : List String) : Option Tree :=
  match parseTree (toks.length + 1) toks with
  | some (t, []) => some t
  | _ => none

end AcraModel.Sql
