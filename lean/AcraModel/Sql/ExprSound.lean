import AcraModel.Sql.ExprLemmas
/-!
# Everything the expression parser returns is producible (C13)

`Sound p`: each result of `p` satisfies the invariant of its mode; `step` preserves soundness, hence `parse n` is sound
for every `n`. The literal tokens must be what the tokenizer yields: a number token is not empty and has no sign.
-/
namespace AcraModel.Sql.Expr
open AcraModel

/-- a literal token as the tokenizer produces it: a number (a value that is printed as it is) is unsigned and not empty -/
def TokOk : Tok → Prop
  | .lit ty v => rawTy ty = true → v ≠ [] ∧ v.head? ≠ some minusByte
  | _ => True

def AllOk (ts : List Tok) : Prop := ∀ tk, tk ∈ ts → TokOk tk

theorem AllOk.tail {tk : Tok} {ts : List Tok} (h : AllOk (tk :: ts)) : AllOk ts :=
  fun x hx => h x (List.mem_cons_of_mem _ hx)

theorem AllOk.head {tk : Tok} {ts : List Tok} (h : AllOk (tk :: ts)) : TokOk tk := h tk (by simp)

def Inv (m : Mode) (r : PRes) : Prop :=
  match m with
  | .lvl L => Producible r.1 ∧ min L lUnary ≤ lv r.1
  | .rest L lhs => Producible lhs → L ≤ lv lhs → Producible r.1 ∧ L ≤ lv r.1
  | .isLoop e0 => Producible e0 → lCmp ≤ lv e0 → Producible r.1 ∧ lCmp ≤ lv r.1
  | .args _ acc => (∀ a, a ∈ acc → Producible a) → Producible r.1 ∧ lUnary ≤ lv r.1

def Sound (p : Mode → List Tok → Option PRes) : Prop :=
  ∀ m ts r, AllOk ts → p m ts = some r → Inv m r ∧ AllOk r.2

theorem litOk_of_tokOk {ty : Nat} {v : Bytes} (h : TokOk (.lit ty v)) : LitOk ty v := by
  intro hraw
  obtain ⟨h1, h2⟩ := h hraw
  exact ⟨h1, fun hh => absurd hh h2⟩

theorem mkUnary_inv (u : UnOp) {e : Expr} (hp : Producible e) (hl : lUnary ≤ lv e) :
    Producible (mkUnary u e) ∧ lUnary ≤ lv (mkUnary u e) := by
  cases e with
  | val ty v =>
    cases hp with
    | val hok =>
      unfold mkUnary
      by_cases hc : (u.folds && ty == tyInt) = true
      · simp only [hc, if_true]
        simp only [Bool.and_eq_true, beq_iff_eq] at hc
        obtain ⟨_, hty⟩ := hc
        by_cases hu : u = .uminus
        · simp only [hu, if_true]
          cases v with
          | nil =>
            dsimp only
            refine ⟨.val ?_, Nat.le_refl _⟩
            intro hraw; exact absurd rfl (hok hraw).1
          | cons c w =>
            dsimp only
            by_cases hcm : (c == minusByte) = true
            · simp only [hcm, if_true]
              refine ⟨.val ?_, Nat.le_refl _⟩
              intro hraw
              obtain ⟨_, hs⟩ := hok hraw
              have hcm' : c = minusByte := beq_iff_eq.mp hcm
              obtain ⟨_, hw, hw2⟩ := hs (by rw [hcm']; rfl)
              exact ⟨hw, fun hh => absurd hh hw2⟩
            · simp only [hcm, if_false]
              refine ⟨.val ?_, Nat.le_refl _⟩
              intro _
              refine ⟨by simp, fun _ => ⟨hty, by simp, ?_⟩⟩
              simp only [List.tail_cons, List.head?_cons]
              intro hh
              apply hcm
              injection hh with hh
              rw [hh]; exact beq_self_eq_true _
        · simp only [hu, if_false]
          exact ⟨.val hok, Nat.le_refl _⟩
      · simp only [hc, if_false]
        refine ⟨.un (.val hok) hl ?_, Nat.le_refl _⟩
        intro hf
        simp only [Expr.isIntVal]
        cases hb : (ty == tyInt) with
        | false => rfl
        | true => exact absurd (by simp [hf, hb]) hc
  | null => exact ⟨.un hp hl (fun _ => rfl), Nat.le_refl _⟩
  | bool b => exact ⟨.un hp hl (fun _ => rfl), Nat.le_refl _⟩
  | col n => exact ⟨.un hp hl (fun _ => rfl), Nat.le_refl _⟩
  | func n a => exact ⟨.un hp hl (fun _ => rfl), Nat.le_refl _⟩
  | paren e => exact ⟨.un hp hl (fun _ => rfl), Nat.le_refl _⟩
  | and l r => exact ⟨.un hp hl (fun _ => rfl), Nat.le_refl _⟩
  | or l r => exact ⟨.un hp hl (fun _ => rfl), Nat.le_refl _⟩
  | not e => exact ⟨.un hp hl (fun _ => rfl), Nat.le_refl _⟩
  | is o e => exact ⟨.un hp hl (fun _ => rfl), Nat.le_refl _⟩
  | cmp o l r => exact ⟨.un hp hl (fun _ => rfl), Nat.le_refl _⟩
  | range n l lo hi => exact ⟨.un hp hl (fun _ => rfl), Nat.le_refl _⟩
  | bin o l r => exact ⟨.un hp hl (fun _ => rfl), Nat.le_refl _⟩
  | un o e => exact ⟨.un hp hl (fun _ => rfl), Nat.le_refl _⟩

theorem lvlV_of_inv {x : Expr} (h : min (lCmp + 1) lUnary ≤ lv x) : lCmp + 1 ≤ lv x := by
  have := lCmp_eq; have := lUnary_eq; omega

section
variable {p : Mode → List Tok → Option PRes}

theorem rangeTail_sound (hp : Sound p) {neg : Bool} {v c : Expr} {ts r : List Tok} (hv : Producible v)
    (hlv : lCmp + 1 ≤ lv v) (hok : AllOk ts) (h : rangeTail p neg v ts = some (c, r)) :
    Producible c ∧ lCmp ≤ lv c ∧ AllOk r := by
  unfold rangeTail at h
  cases h1 : p (.lvl (lCmp + 1)) ts with
  | none => simp [h1] at h
  | some q =>
    obtain ⟨lo, r1⟩ := q
    obtain ⟨⟨plo, hlo⟩, ok1⟩ := hp _ _ _ hok h1
    simp only [h1, Option.bind_eq_bind, Option.bind_some] at h
    cases r1 with
    | nil => simp at h
    | cons tk r2 =>
      cases tk with
      | sym s =>
        by_cases hs : s = .and_
        · subst hs
          cases h2 : p (.lvl (lCmp + 1)) r2 with
          | none => simp [h2] at h
          | some q2 =>
            obtain ⟨hi, r3⟩ := q2
            obtain ⟨⟨phi, hhi⟩, ok3⟩ := hp _ _ _ ok1.tail h2
            simp [h2] at h
            obtain ⟨rfl, rfl⟩ := h
            exact ⟨.range hv plo phi hlv (lvlV_of_inv hlo) (lvlV_of_inv hhi), Nat.le_refl _, ok3⟩
        · cases s <;> first | exact absurd rfl hs | simp at h
      | lit ty x => simp at h
      | id x => simp at h

theorem cmp_one_sound (hp : Sound p) {op : CmpOp} {v c : Expr} {ts r : List Tok} (hv : Producible v)
    (hlv : lCmp + 1 ≤ lv v) (hok : AllOk ts)
    (h : (do let (x, r1) ← p (.lvl (lCmp + 1)) ts; some (Expr.cmp op v x, r1)) = some (c, r)) :
    Producible c ∧ lCmp ≤ lv c ∧ AllOk r := by
  cases h1 : p (.lvl (lCmp + 1)) ts with
  | none => simp [h1] at h
  | some q =>
    obtain ⟨x, r1⟩ := q
    obtain ⟨⟨px, hx⟩, ok1⟩ := hp _ _ _ hok h1
    simp [h1] at h
    obtain ⟨rfl, rfl⟩ := h
    exact ⟨.cmp hv px hlv (lvlV_of_inv hx), Nat.le_refl _, ok1⟩

theorem cmpTail_sound (hp : Sound p) {v c : Expr} {ts r : List Tok} (hv : Producible v)
    (hlv : lCmp + 1 ≤ lv v) (hok : AllOk ts) (h : cmpTail p v ts = some (c, r)) :
    Producible c ∧ lCmp ≤ lv c ∧ AllOk r := by
  have hself : Producible v ∧ lCmp ≤ lv v := ⟨hv, by omega⟩
  unfold cmpTail at h
  cases ts with
  | nil => simp at h; obtain ⟨rfl, rfl⟩ := h; exact ⟨hself.1, hself.2, hok⟩
  | cons tk ts' =>
    cases tk with
    | lit ty x => simp at h; obtain ⟨rfl, rfl⟩ := h; exact ⟨hself.1, hself.2, hok⟩
    | id x => simp at h; obtain ⟨rfl, rfl⟩ := h; exact ⟨hself.1, hself.2, hok⟩
    | sym s =>
      dsimp only at h
      by_cases hn : s = .not_
      · simp only [hn, if_true] at h
        cases ts' with
        | nil => simp at h
        | cons tk2 ts2 =>
          cases tk2 with
          | lit ty x => simp at h
          | id x => simp at h
          | sym s2 =>
            by_cases h1 : s2 = .like
            · subst h1; exact cmp_one_sound hp hv hlv hok.tail.tail h
            · by_cases h2 : s2 = .regexp
              · subst h2; exact cmp_one_sound hp hv hlv hok.tail.tail h
              · by_cases h3 : s2 = .between
                · subst h3; exact rangeTail_sound hp hv hlv hok.tail.tail h
                · cases s2 <;> first | exact absurd rfl h1 | exact absurd rfl h2 | exact absurd rfl h3 | simp at h
      · simp only [hn, if_false] at h
        by_cases hb : s = .between
        · simp only [hb, if_true] at h
          exact rangeTail_sound hp hv hlv hok.tail h
        · simp only [hb, if_false] at h
          cases hc : s.cmpop with
          | none => simp [hc] at h; obtain ⟨rfl, rfl⟩ := h; exact ⟨hself.1, hself.2, hok⟩
          | some op => simp only [hc] at h; exact cmp_one_sound hp hv hlv hok.tail h

theorem unaryOrPrim_sound (hp : Sound p) {ts r : List Tok} {e : Expr} (hok : AllOk ts)
    (h : unaryOrPrim p ts = some (e, r)) : Producible e ∧ lUnary ≤ lv e ∧ AllOk r := by
  have e3 := lOr_eq; have e14 := lUnary_eq
  unfold unaryOrPrim at h
  cases ts with
  | nil => simp at h
  | cons tk ts' =>
    cases tk with
    | lit ty v =>
      simp at h; obtain ⟨rfl, rfl⟩ := h
      exact ⟨.val (litOk_of_tokOk hok.head), Nat.le_refl _, hok.tail⟩
    | sym s =>
      dsimp only at h
      cases hu : s.unop with
      | some u =>
        simp only [hu] at h
        cases h1 : p (.lvl lUnary) ts' with
        | none => simp [h1] at h
        | some q =>
          obtain ⟨x, r1⟩ := q
          obtain ⟨⟨px, hx⟩, ok1⟩ := hp _ _ _ hok.tail h1
          simp [h1] at h
          obtain ⟨rfl, rfl⟩ := h
          have := mkUnary_inv u px (by simpa using hx)
          exact ⟨this.1, this.2, ok1⟩
      | none =>
        simp only [hu] at h
        by_cases hl : s = .lp
        · simp only [hl, if_true] at h
          cases h1 : p (.lvl lOr) ts' with
          | none => simp [h1] at h
          | some q =>
            obtain ⟨x, r1⟩ := q
            obtain ⟨⟨px, _⟩, ok1⟩ := hp _ _ _ hok.tail h1
            simp only [h1, Option.bind_eq_bind, Option.bind_some] at h
            cases r1 with
            | nil => simp at h
            | cons tk2 r2 =>
              cases tk2 with
              | lit ty v => simp at h
              | id v => simp at h
              | sym s2 =>
                by_cases h2 : s2 = .rp
                · subst h2; simp at h; obtain ⟨rfl, rfl⟩ := h
                  exact ⟨.paren px, Nat.le_refl _, ok1.tail⟩
                · cases s2 <;> first | exact absurd rfl h2 | simp at h
        · simp only [hl, if_false] at h
          by_cases h2 : s = .null
          · simp [h2] at h; obtain ⟨rfl, rfl⟩ := h; exact ⟨.null, Nat.le_refl _, hok.tail⟩
          · by_cases h3 : s = .true_
            · simp [h3] at h; obtain ⟨rfl, rfl⟩ := h; exact ⟨.bool, Nat.le_refl _, hok.tail⟩
            · by_cases h4 : s = .false_
              · simp [h4] at h; obtain ⟨rfl, rfl⟩ := h; exact ⟨.bool, Nat.le_refl _, hok.tail⟩
              · simp [h2, h3, h4] at h
    | id nm =>
      have hcol : ∀ r', AllOk r' → Producible (.col nm) ∧ lUnary ≤ lv (.col nm) ∧ AllOk r' :=
        fun r' h' => ⟨.col, Nat.le_refl _, h'⟩
      cases ts' with
      | nil => simp at h; obtain ⟨rfl, rfl⟩ := h; exact hcol _ hok.tail
      | cons tk2 ts2 =>
        cases tk2 with
        | lit ty v => simp at h; obtain ⟨rfl, rfl⟩ := h; exact hcol _ hok.tail
        | id v => simp at h; obtain ⟨rfl, rfl⟩ := h; exact hcol _ hok.tail
        | sym s2 =>
          by_cases h2 : s2 = .lp
          · subst h2
            have hargs : ∀ ts, AllOk ts → p (.args nm []) ts = some (e, r) →
                Producible e ∧ lUnary ≤ lv e ∧ AllOk r := by
              intro ts hts h'
              obtain ⟨i1, ok1⟩ := hp _ _ _ hts h'
              have := i1 (by simp)
              exact ⟨this.1, this.2, ok1⟩
            cases ts2 with
            | nil => simp at h; exact hargs _ hok.tail.tail h
            | cons tk3 ts3 =>
              cases tk3 with
              | lit ty v => simp at h; exact hargs _ hok.tail.tail h
              | id v => simp at h; exact hargs _ hok.tail.tail h
              | sym s3 =>
                by_cases h3 : s3 = .rp
                · subst h3; simp at h; obtain ⟨rfl, rfl⟩ := h
                  exact ⟨.func (by simp), Nat.le_refl _, hok.tail.tail.tail⟩
                · cases s3 <;> first | exact absurd rfl h3 | (simp at h; exact hargs _ hok.tail.tail h)
          · cases s2 <;> first | exact absurd rfl h2 | (simp at h; obtain ⟨rfl, rfl⟩ := h; exact hcol _ hok.tail)
theorem isSuffix_ok {ts r : List Tok} {op : IsOp} (hok : AllOk ts) (h : isSuffix ts = some (op, r)) : AllOk r := by
  unfold isSuffix at h
  split at h <;> first
    | (simp at h; obtain ⟨_, rfl⟩ := h; first | exact hok.tail | exact hok.tail.tail)
    | simp at h

theorem step_sound (hp : Sound p) : Sound (step p) := by
  have e3 := lOr_eq; have e14 := lUnary_eq; have e7 := lCmp_eq; have e5 := lNot_eq; have e4 := lAnd_eq
  intro m ts res hok h
  obtain ⟨e, r⟩ := res
  cases m with
  | lvl L =>
    simp only [step] at h
    by_cases h5 : L = lNot
    · simp only [h5, if_true] at h
      have hpass : p (.lvl (lNot + 1)) ts = some (e, r) → Inv (.lvl L) (e, r) ∧ AllOk r := by
        intro h'
        obtain ⟨⟨pe, hl⟩, ok⟩ := hp _ _ _ hok h'
        exact ⟨⟨pe, by simp only at hl ⊢; omega⟩, ok⟩
      cases ts with
      | nil => exact hpass h
      | cons tk ts' =>
        cases tk with
        | lit ty v => exact hpass h
        | id v => exact hpass h
        | sym s =>
          by_cases hs : s = .not_
          · subst hs
            dsimp only at h
            cases h1 : p (.lvl lNot) ts' with
            | none => simp [h1] at h
            | some q =>
              obtain ⟨x, r1⟩ := q
              obtain ⟨⟨px, hx⟩, ok1⟩ := hp _ _ _ hok.tail h1
              simp [h1] at h
              obtain ⟨rfl, rfl⟩ := h
              exact ⟨⟨.not px (by simp only at hx; omega), by simp only [lv]; omega⟩, ok1⟩
          · cases s <;> first | exact absurd rfl hs | exact hpass h
    · simp only [h5, if_false] at h
      by_cases h7 : L = lCmp
      · simp only [h7, if_true] at h
        cases h1 : p (.lvl (lCmp + 1)) ts with
        | none => simp [h1] at h
        | some q =>
          obtain ⟨v, r1⟩ := q
          obtain ⟨⟨pv, hv⟩, ok1⟩ := hp _ _ _ hok h1
          simp only [h1, Option.bind_eq_bind, Option.bind_some] at h
          cases h2 : cmpTail p v r1 with
          | none => simp [h2] at h
          | some q2 =>
            obtain ⟨c, r2⟩ := q2
            obtain ⟨pc, hc, ok2⟩ := cmpTail_sound hp pv (lvlV_of_inv hv) ok1 h2
            simp only [h2, Option.bind_some] at h
            obtain ⟨i3, ok3⟩ := hp _ _ _ ok2 h
            have := i3 pc hc
            exact ⟨⟨this.1, by simp only at this ⊢; omega⟩, ok3⟩
      · simp only [h7, if_false] at h
        by_cases h14 : lUnary ≤ L
        · simp only [h14, if_true] at h
          obtain ⟨pe, hl, ok⟩ := unaryOrPrim_sound hp hok h
          exact ⟨⟨pe, by simp only; omega⟩, ok⟩
        · simp only [h14, if_false] at h
          cases h1 : p (.lvl (L + 1)) ts with
          | none => simp [h1] at h
          | some q =>
            obtain ⟨l, r1⟩ := q
            obtain ⟨⟨pl, hl⟩, ok1⟩ := hp _ _ _ hok h1
            simp only [h1, Option.bind_eq_bind, Option.bind_some] at h
            obtain ⟨i2, ok2⟩ := hp _ _ _ ok1 h
            have := i2 pl (by simp only at hl; omega)
            exact ⟨⟨this.1, by simp only at this ⊢; omega⟩, ok2⟩
  | rest L lhs =>
    simp only [step] at h
    have hstop : (lhs, ts) = (e, r) → Inv (.rest L lhs) (e, r) ∧ AllOk r := by
      intro h'
      injection h' with a b
      subst a; subst b
      exact ⟨fun pl hl => ⟨pl, hl⟩, hok⟩
    cases ts with
    | nil => simp at h; exact hstop (by simp [h])
    | cons tk ts' =>
      cases tk with
      | lit ty v => simp at h; exact hstop (by simp [h])
      | id v => simp at h; exact hstop (by simp [h])
      | sym s =>
        dsimp only at h
        cases hb : bin2At L s with
        | none => simp [hb] at h; exact hstop (by simp [h])
        | some b =>
          simp only [hb] at h
          have hbl : b.level = L := by
            unfold bin2At at hb
            cases hs : s.bin2 with
            | none => simp [hs] at hb
            | some b' =>
              simp only [hs] at hb
              by_cases hl : b'.level = L
              · simp [hl] at hb; subst hb; exact hl
              · simp [hl] at hb
          cases h1 : p (.lvl (L + 1)) ts' with
          | none => simp [h1] at h
          | some q =>
            obtain ⟨x, r1⟩ := q
            obtain ⟨⟨px, hx⟩, ok1⟩ := hp _ _ _ hok.tail h1
            simp only [h1, Option.bind_eq_bind, Option.bind_some] at h
            obtain ⟨i2, ok2⟩ := hp _ _ _ ok1 h
            refine ⟨fun pl hl => ?_, ok2⟩
            have hr := bin2_level_range b
            have hx' : L + 1 ≤ lv x := by simp only at hx; omega
            have pm : Producible (b.mk lhs x) ∧ L ≤ lv (b.mk lhs x) := by
              cases b with
              | or => exact ⟨.or pl px (by simp only [Bin2.level] at hbl; omega) (by simp only [Bin2.level] at hbl; omega),
                  by simp only [Bin2.mk, lv]; simp only [Bin2.level] at hbl; omega⟩
              | and => exact ⟨.and pl px (by simp only [Bin2.level] at hbl; omega) (by simp only [Bin2.level] at hbl; omega),
                  by simp only [Bin2.mk, lv]; simp only [Bin2.level] at hbl; omega⟩
              | bin o => exact ⟨.bin pl px (by simp only [Bin2.level] at hbl; omega) (by simp only [Bin2.level] at hbl; omega),
                  by simp only [Bin2.mk, lv]; simp only [Bin2.level] at hbl; omega⟩
            exact i2 pm.1 pm.2
  | isLoop e0 =>
    simp only [step] at h
    have hstop : (e0, ts) = (e, r) → Inv (.isLoop e0) (e, r) ∧ AllOk r := by
      intro h'
      injection h' with a b
      subst a; subst b
      exact ⟨fun pl hl => ⟨pl, hl⟩, hok⟩
    cases ts with
    | nil => simp at h; exact hstop (by simp [h])
    | cons tk ts' =>
      cases tk with
      | lit ty v => simp at h; exact hstop (by simp [h])
      | id v => simp at h; exact hstop (by simp [h])
      | sym s =>
        by_cases hs : s = .is_
        · subst hs
          dsimp only at h
          cases h1 : isSuffix ts' with
          | none => simp [h1] at h
          | some q =>
            obtain ⟨op, r1⟩ := q
            simp only [h1] at h
            obtain ⟨i2, ok2⟩ := hp _ _ _ (isSuffix_ok hok.tail h1) h
            exact ⟨fun pe hl => i2 (.is pe hl) (Nat.le_refl _), ok2⟩
        · cases s <;> first | exact absurd rfl hs | (simp at h; exact hstop (by simp [h]))
  | args nm acc =>
    simp only [step] at h
    cases h1 : p (.lvl lOr) ts with
    | none => simp [h1] at h
    | some q =>
      obtain ⟨x, r1⟩ := q
      obtain ⟨⟨px, _⟩, ok1⟩ := hp _ _ _ hok h1
      simp only [h1, Option.bind_eq_bind, Option.bind_some] at h
      cases r1 with
      | nil => simp at h
      | cons tk r2 =>
        cases tk with
        | lit ty v => simp at h
        | id v => simp at h
        | sym s =>
          by_cases hc : s = .comma
          · subst hc
            dsimp only at h
            obtain ⟨i2, ok2⟩ := hp _ _ _ ok1.tail h
            refine ⟨fun hacc => i2 ?_, ok2⟩
            intro a ha
            simp only [List.mem_cons] at ha
            rcases ha with rfl | ha
            · exact px
            · exact hacc a ha
          · by_cases hr : s = .rp
            · subst hr
              simp at h
              obtain ⟨rfl, rfl⟩ := h
              refine ⟨fun hacc => ⟨.func ?_, Nat.le_refl _⟩, ok1.tail⟩
              intro a ha
              simp only [List.mem_append, List.mem_reverse, List.mem_singleton] at ha
              rcases ha with ha | rfl
              · exact hacc a ha
              · exact px
            · cases s <;> first | exact absurd rfl hc | exact absurd rfl hr | simp at h

end

theorem parse_sound : ∀ n, Sound (parse n)
  | 0 => fun _ _ _ _ h => by simp [parse] at h
  | n + 1 => step_sound (parse_sound n)

/-- every tree the parser returns for well-formed tokens is producible -/
theorem parseExprFuel_producible {n : Nat} {ts : List Tok} {t : Expr} (hok : AllOk ts)
    (h : parseExprFuel n ts = some t) : Producible t := by
  unfold parseExprFuel at h
  cases h1 : parse n (.lvl lOr) ts with
  | none => simp [h1] at h
  | some q =>
    obtain ⟨e, r⟩ := q
    have := (parse_sound n _ _ _ hok h1).1.1
    cases r with
    | nil => simp [h1] at h; subst h; exact this
    | cons a b => simp [h1] at h

end AcraModel.Sql.Expr
