import AcraModel.Sql.Literal
/-! Helper lemmas for the literal codec round trip (C13). -/
namespace AcraModel.Sql.Literal
open AcraModel Generated.SqlLiterals

/-- what the proofs need from the regenerated escape table -/
structure CodecFacts : Prop where
  /-- every escape letter decodes to the byte it was written for and is not `x`/`X` -/
  inverse : ∀ p ∈ encodeRef, decodeOf (UInt8.ofNat p.2) = some (UInt8.ofNat p.1) ∧ isX (UInt8.ofNat p.2) = false
  /-- backslash and both quote characters are escaped -/
  specials : (encodeOf backslash).isSome = true ∧ (encodeOf quote).isSome = true ∧ (encodeOf dquote).isSome = true
  /-- the unescaped prefix is backslash-x -/
  prefix_eq : hexPrefixBytes = [backslash, 120]

theorem encodeOf_some (F : CodecFacts) {c e : UInt8} (h : encodeOf c = some e) :
    decodeOf e = some c ∧ isX e = false := by
  unfold encodeOf at h
  cases hf : encodeRef.find? (fun p => p.1 == c.toNat) with
  | none => rw [hf] at h; cases h
  | some p =>
    rw [hf] at h
    simp only [Option.map_some, Option.some.injEq] at h
    have hmem := List.mem_of_find?_eq_some hf
    have hp := List.find?_some hf
    have := F.inverse p hmem
    have hc : UInt8.ofNat p.1 = c := by
      have : p.1 = c.toNat := by simpa using hp
      rw [this]; simp
    rw [← h, ← hc]
    exact this

theorem scan_ordinary (delim c : UInt8) (f : Bool) (t : Bytes) (h1 : c ≠ backslash) (h2 : c ≠ delim) (ht : t ≠ []) :
    scanString delim f (c :: t) = consR c (scanString delim f t) := by
  cases t with
  | nil => exact absurd rfl ht
  | cons e r =>
    rw [scanString]
    simp [h1, h2]

theorem scan_escape (delim e : UInt8) (f : Bool) (t : Bytes) :
    scanString delim f (backslash :: e :: t) =
      if f && isX e then consR backslash (consR e (scanString delim false t))
      else consR ((decodeOf e).getD e) (scanString delim false t) := by
  rw [scanString]; simp

theorem scan_close (delim : UInt8) (f : Bool) (rest : Bytes) (h : rest.head? ≠ some delim) (hd : delim ≠ backslash) :
    scanString delim f (delim :: rest) = some ([], rest) := by
  cases rest with
  | nil => rw [scanString]; simp [hd]
  | cons e r =>
    rw [scanString]
    have : e ≠ delim := by intro he; apply h; simp [he]
    simp [hd, this]

/-- the escaped form of any byte string followed by the closing quote scans back, in either state -/
theorem scan_escape_body (F : CodecFacts) (delim : UInt8) (hdel : delim = quote ∨ delim = dquote) :
    ∀ (b : Bytes) (f : Bool) (rest : Bytes), rest.head? ≠ some delim →
      scanString delim f (escape b ++ delim :: rest) = some (b, rest) := by
  have hdb : delim ≠ backslash := by rcases hdel with h | h <;> (rw [h]; decide)
  have hdesc : (encodeOf delim).isSome = true := by
    rcases hdel with h | h <;> rw [h]
    · exact F.specials.2.1
    · exact F.specials.2.2
  intro b
  induction b with
  | nil => intro f rest h; simpa [escape] using scan_close delim f rest h hdb
  | cons c cs ih =>
    intro f rest h
    cases he : encodeOf c with
    | some e =>
      have hfacts := encodeOf_some F he
      simp only [escape, he, List.cons_append, List.nil_append]
      rw [scan_escape, hfacts.2, Bool.and_false]
      simp only [Bool.false_eq_true, if_false, hfacts.1, Option.getD_some]
      rw [ih false rest h]; rfl
    | none =>
      have h1 : c ≠ backslash := by
        intro hc; rw [hc] at he
        have := F.specials.1; rw [he] at this; cases this
      have h2 : c ≠ delim := by
        intro hc; rw [hc] at he
        rw [he] at hdesc; cases hdesc
      simp only [escape, he, List.cons_append, List.nil_append]
      rw [scan_ordinary delim c f _ h1 h2 (by simp), ih f rest h]; rfl

end AcraModel.Sql.Literal
