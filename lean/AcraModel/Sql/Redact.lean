import AcraModel.Sql.Tree
/-!
# `sqlparser.Normalize` as used for redaction (C16)

Line-by-line model of `sqlparser/normalizer.go` on generic trees:

* `bindvars`      – `GetBindvars`: names of the bind variables already present (reached by `Walk`)
* `newName`       – `normalizer.newName`: first `prefix<counter>` that is not reserved
* `convert`       – `convertSQLVal`, `convertDedup` – `convertSQLValDedup`, `convertComparison`
* `walk`          – `Walk(nz.WalkStatement, stmt)` switching to `WalkSelect` below a `Select`
* `redact`        – `Normalize(stmt, bv, prefix)`; `RedactSQLQuery`/`HandleRawSQLQuery` use prefix `replaced`

Which children `Walk` descends into (`walkSpec`), which `ValType`s are converted (`convertedKinds`) and
with which bind type (`bindTypeOf`, decides the dedup key) come from the regenerated tables.
Whether the validating `sqltypes.NewValue` accepts a value is a parameter (`Validator`). The model
assumes what `Props/C16.lean` states as a fact about the regenerated table: every `walkSubtree` passes
fields in declaration order without repetition (so that walking the children left to right is the same
traversal).
-/
namespace AcraModel.Sql
open AcraModel

/-- normaliser state: `reserved`, `counter`, `vals` (the `bindVars` map is not observable in the tree) -/
structure St where
  reserved : List Bytes
  counter : Nat
  vals : List (Bytes × Bytes)
deriving Repr

/-- `fmt.Sprintf("%s%d", prefix, counter)` -/
def nameOf (pfx : Bytes) (c : Nat) : Bytes := pfx ++ natDec c

/-- the `for` loop of `newName`; `fuel` bounds the number of collisions (`|reserved| + 1` suffices) -/
def newNameAux (pfx : Bytes) (reserved : List Bytes) : Nat → Nat → Bytes × Nat
  | 0, c => (nameOf pfx c, c)
  | fuel+1, c =>
    if reserved.contains (nameOf pfx c) then newNameAux pfx reserved fuel (c + 1)
    else (nameOf pfx c, c)

def newName (pfx : Bytes) (s : St) : Bytes × St :=
  let r := newNameAux pfx s.reserved (s.reserved.length + 1) s.counter
  (r.1, { s with reserved := r.1 :: s.reserved, counter := r.2 })

def colon : UInt8 := 58
def quote : UInt8 := 39

/-- `convertSQLVal`: a convertible literal becomes `ValArg ":"+name` (cast type and the rest are kept) -/
def convert (valid : Validator) (pfx : Bytes) (t : Tree) (s : St) : Tree × St :=
  if isConvertible valid t then
    let r := newName pfx s
    (mkSqlVal valArgNo (colon :: r.1) (t.kids.drop 2), r.2)
  else (t, s)

/-- `convertSQLValDedup`: within a `Select`, equal values share one name (strings keyed with a leading `'`) -/
def convertDedup (valid : Validator) (pfx : Bytes) (t : Tree) (s : St) : Tree × St :=
  match sqlVal? t with
  | none => (t, s)
  | some (ty, v) =>
    if v.length > 256 then convert valid pfx t s
    else if !isConvertible valid t then (t, s)
    else
      let key := if bindTypeOf ty == some "VarBinary" then quote :: v else v
      match s.vals.find? (fun e => e.1 == key) with
      | some e => (mkSqlVal valArgNo (colon :: e.2) (t.kids.drop 2), s)
      | none =>
        let r := newName pfx s
        (mkSqlVal valArgNo (colon :: r.1) (t.kids.drop 2), { r.2 with vals := (key, r.1) :: r.2.vals })

def cmpOpIdx : Nat := (fieldIndex "ComparisonExpr" "Operator").getD 0
def cmpRightIdx : Nat := (fieldIndex "ComparisonExpr" "Right").getD 2

def inStr : Bytes := "in".toUTF8.toList
def notInStr : Bytes := "not in".toUTF8.toList

/-- `convertComparison` on the children of a `ComparisonExpr`: `some (index of Right, list argument)` when
the right-hand side of an IN / NOT IN is a tuple of convertible values only. -/
def convertComparison (valid : Validator) (pfx : Bytes) (ks : List Tree) (s : St) : Option (Nat × Tree) × St :=
  let op := (ks.getD cmpOpIdx (.atom [])).atomBytes
  if op != inStr && op != notInStr then (none, s) else
  match ks.getD cmpRightIdx (.atom []) with
  | .node "ValTuple" items =>
    if items.all (isConvertible valid) then
      let r := newName pfx s
      (some (cmpRightIdx, .node "ListArg" [.atom (colon :: colon :: r.1)]), r.2)
    else (none, s)
  | _ => (none, s)

mutual
/-- `Walk(visit, node)` with `visit = nz.WalkStatement` (`sel = false`) or `nz.WalkSelect` (`sel = true`) -/
def walk (valid : Validator) (pfx : Bytes) (sel : Bool) : Tree → St → Tree × St
  | .atom b, s => (.atom b, s)
  | .node k ks, s =>
    if k == "SQLVal" then
      (if sel then convertDedup valid pfx (.node k ks) s else convert valid pfx (.node k ks) s)
    else
      let c := if k == "ComparisonExpr" then convertComparison valid pfx ks s else (none, s)
      let r := walkKids valid pfx (sel || k == "Select") (walkSpec k) (c.1.map (·.1)) 0 ks c.2
      (.node k (match c.1 with | some (i, la) => r.1.set i la | none => r.1), r.2)
/-- the children in declaration order; `skip` is the child just replaced by a list argument -/
def walkKids (valid : Validator) (pfx : Bytes) (sel : Bool) (spec : WalkSpec) (skip : Option Nat) (i : Nat) : List Tree → St → List Tree × St
  | [], s => ([], s)
  | c :: cs, s =>
    let r := if spec.visits i && skip != some i then walk valid pfx sel c s else (c, s)
    let r2 := walkKids valid pfx sel spec skip (i + 1) cs r.2
    (r.1 :: r2.1, r2.2)
end

mutual
/-- `GetBindvars`: names after `:` of `ValArg`s and after `::` of `ListArg`s that `Walk` reaches -/
def bindvars : Tree → List Bytes
  | .atom _ => []
  | .node k ks =>
    (match sqlVal? (.node k ks) with
     | some (ty, v) => if ty == valArgNo then [v.drop 1] else []
     | none => if k == "ListArg" then [((ks.getD 0 (.atom [])).atomBytes).drop 2] else [])
    ++ bindvarsKids (walkSpec k) 0 ks
def bindvarsKids (spec : WalkSpec) (i : Nat) : List Tree → List Bytes
  | [] => []
  | c :: cs => (if spec.visits i then bindvars c else []) ++ bindvarsKids spec (i + 1) cs
end

def initSt (t : Tree) : St := { reserved := bindvars t, counter := 1, vals := [] }

/-- `Normalize(stmt, bindVars, prefix)` -/
def normalize (valid : Validator) (pfx : Bytes) (t : Tree) : Tree := (walk valid pfx false t (initSt t)).1

/-! ## `maskLiterals` – Acra's second pass (redact_query.go)

`Walk` over the whole statement; every `SQLVal` of a masked type becomes `ValArg ":"+newName`, with the
same naming loop as the normaliser, `reserved` = `GetBindvars` of the statement as `Normalize` left it. -/

def maskVal (pfx : Bytes) (t : Tree) (s : St) : Tree × St :=
  if isMasked t then
    let r := newName pfx s
    (mkSqlVal valArgNo (colon :: r.1) (t.kids.drop 2), r.2)
  else (t, s)

mutual
def maskWalk (pfx : Bytes) : Tree → St → Tree × St
  | .atom b, s => (.atom b, s)
  | .node k ks, s =>
    if k == "SQLVal" then maskVal pfx (.node k ks) s
    else
      let r := maskKids pfx (walkSpec k) 0 ks s
      (.node k r.1, r.2)
def maskKids (pfx : Bytes) (spec : WalkSpec) (i : Nat) : List Tree → St → List Tree × St
  | [], s => ([], s)
  | c :: cs, s =>
    let r := if spec.visits i then maskWalk pfx c s else (c, s)
    let r2 := maskKids pfx spec (i + 1) cs r.2
    (r.1 :: r2.1, r2.2)
end

def maskLiterals (pfx : Bytes) (t : Tree) : Tree := (maskWalk pfx t (initSt t)).1

/-- `sqlparser.ValueMask` -/
def valueMask : Bytes := "replaced".toUTF8.toList

/-- the tree `RedactSQLQuery` / `HandleRawSQLQuery` print as the redacted statement:
`Normalize(stmt, bv, ValueMask); maskLiterals(stmt, ValueMask)` -/
def redact (valid : Validator) (t : Tree) : Tree := maskLiterals valueMask (normalize valid valueMask t)

end AcraModel.Sql
