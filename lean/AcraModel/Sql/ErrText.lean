import AcraModel.Generated.ErrText
/-!
# Error texts that must not carry a value (C16)

Two functions of `/repo` turn an error that quotes its input into one that does not, because callers log errors:

* `utils.ErrorWithoutValue` – `strconv`'s `*NumError` prints `strconv.<Func>: parsing "<input>": <cause>`; the
  replacement prints `strconv.<Func>: <cause>`;
* `encryptor/postgresql.ParseQuery` – PostgreSQL's syntax errors end with ` at or near "<token>"`; the replacement
  keeps what stands before the first ` at or near ` and adds ` at position <n>`. WHICH occurrence of the separator is
  taken (`strings.Index` / `strings.LastIndex`), the separator and the format of the new error are regenerated facts
  (`Generated/ErrText.lean`) that the model interprets (`pgError`).

The models are the text functions; the theorems say that their result does not depend on the input / the token.
-/
namespace AcraModel.Sql.ErrText

/-! ## `utils.ErrorWithoutValue` -/

/-- the two causes `strconv` reports -/
inductive Cause where
  | syntax | range
deriving DecidableEq, Repr

def Cause.text : Cause → String
  | .syntax => "invalid syntax"
  | .range => "value out of range"

/-- `strconv.NumError` -/
structure NumError where
  fn : String       -- "ParseInt", "ParseFloat", "Atoi" …
  num : String      -- the input – a column value, a literal, a bound parameter
  cause : Cause

/-- `(*NumError).Error()` (Go quotes the input; the quoting is irrelevant here) -/
def NumError.text (e : NumError) : String :=
  "strconv." ++ e.fn ++ ": parsing \"" ++ e.num ++ "\": " ++ e.cause.text

/-- `utils.ErrorWithoutValue(err).Error()` for a `*NumError`: `fmt.Errorf("strconv.%s: %w", Func, Err)` -/
def withoutValue (e : NumError) : String :=
  "strconv." ++ e.fn ++ ": " ++ e.cause.text

/-! ## `postgresql.ParseQuery` -/

/-- `p` is a prefix of `m` -/
def pre : List Char → List Char → Bool
  | [], _ => true
  | _ :: _, [] => false
  | a :: p, b :: m => a == b && pre p m

/-- the part of `m` before the first occurrence of `sep` (all of `m` if there is none) – `message[:strings.Index(message, sep)]` -/
def cut (sep : List Char) : List Char → List Char
  | [] => []
  | c :: m => if pre sep (c :: m) then [] else c :: cut sep m

/-- does `sep` occur in `m` -/
def occurs (sep : List Char) : List Char → Bool
  | [] => pre sep []
  | c :: m => pre sep (c :: m) || occurs sep m

/-- the part of `m` before the LAST occurrence of `sep` (all of `m` if there is none) –
`message[:strings.LastIndex(message, sep)]` -/
def cutLast (sep : List Char) : List Char → List Char
  | [] => []
  | c :: m => if occurs sep m then c :: cutLast sep m else if pre sep (c :: m) then [] else c :: m

/-- the cut with the search function named in the source -/
def cutWith (search : String) (sep : List Char) (m : List Char) : List Char :=
  if search = "strings.LastIndex" then cutLast sep m else cut sep m

/-- `fmt.Sprintf` for a format with `%s` / `%d` verbs and already rendered arguments -/
def sprintf : List Char → List (List Char) → List Char
  | '%' :: 's' :: r, a :: as => a ++ sprintf r as
  | '%' :: 'd' :: r, a :: as => a ++ sprintf r as
  | c :: r, as => c :: sprintf r as
  | [], _ => []

/-- `ParseQuery`'s error text for PostgreSQL's message `msg` and cursor position `pos`, for a given search function,
separator and format (arguments: the cut message, the position) -/
def pgErrorWith (search sep format : String) (msg : List Char) (pos : Nat) : List Char :=
  sprintf format.toList [cutWith search sep.toList msg, (toString pos).toList]

def atOrNear : List Char := Generated.ErrText.pgCutSeparator.toList

/-- the error text of `ParseQuery` as the code computes it now (search function, separator and format regenerated) -/
def pgError (msg : List Char) (pos : Nat) : List Char :=
  pgErrorWith Generated.ErrText.pgCutSearch Generated.ErrText.pgCutSeparator Generated.ErrText.pgErrorFormat msg pos

/-- the same with the FIRST occurrence, the separator and the format written out – what `pgError` is when the facts
are as expected (`Props/C16.fact_pg_sanitiser`) -/
def pgErrorStd (msg : List Char) (pos : Nat) : List Char :=
  cut " at or near ".toList msg ++ " at position ".toList ++ (toString pos).toList

theorem pgErrorWith_std (msg : List Char) (pos : Nat) :
    pgErrorWith "strings.Index" " at or near " "%s at position %d" msg pos = pgErrorStd msg pos := by
  unfold pgErrorWith pgErrorStd cutWith
  simp only [show ("strings.Index" = "strings.LastIndex") = False by decide, if_false]
  have hf : "%s at position %d".toList = '%' :: 's' :: (" at position ".toList ++ ['%', 'd']) := by decide
  rw [hf]
  simp only [sprintf]
  have : ∀ (l : List Char) (as : List (List Char)), (∀ c ∈ l, c ≠ '%') → sprintf (l ++ ['%', 'd']) as =
      l ++ (match as with | a :: _ => a | [] => ['%', 'd']) := by
    intro l
    induction l with
    | nil => intro as _; cases as <;> simp [sprintf]
    | cons c r ih =>
      intro as h
      have hc : c ≠ '%' := h c List.mem_cons_self
      have := ih as (fun d hd => h d (List.mem_cons_of_mem _ hd))
      simp only [List.cons_append]
      rw [sprintf]
      · rw [this]
      all_goals (intros; simp_all)
  rw [this _ _ (by decide)]
  simp

/-- a prefix test looks at no more than `|p|` characters -/
theorem pre_append (p a t : List Char) (h : p.length ≤ a.length) : pre p (a ++ t) = pre p a := by
  induction p generalizing a with
  | nil => simp [pre]
  | cons x p ih =>
    cases a with
    | nil => simp at h
    | cons y a =>
      simp only [List.cons_append, pre]
      rw [ih a (by simpa using h)]

/-- what `cut` returns for `k ++ sep ++ t` is decided within `k ++ sep` -/
theorem cut_append (sep k t : List Char) : cut sep (k ++ sep ++ t) = cut sep (k ++ sep) := by
  induction k with
  | nil =>
    cases sep with
    | nil => cases t <;> simp [cut, pre]
    | cons s sep =>
      have h1 : pre (s :: sep) ((s :: sep) ++ t) = true := by
        rw [pre_append _ _ _ (Nat.le_refl _)]
        clear t
        induction (s :: sep) with
        | nil => rfl
        | cons a l ih => simp [pre, ih]
      have h2 : pre (s :: sep) (s :: sep) = true := by
        induction (s :: sep) with
        | nil => rfl
        | cons a l ih => simp [pre, ih]
      simp only [List.nil_append]
      show cut (s :: sep) (s :: (sep ++ t)) = cut (s :: sep) (s :: sep)
      unfold cut
      rw [show (s :: (sep ++ t)) = (s :: sep) ++ t from rfl, h1, h2]
      rfl
  | cons c k ih =>
    show cut sep (c :: (k ++ sep ++ t)) = cut sep (c :: (k ++ sep))
    unfold cut
    have hp : pre sep (c :: (k ++ sep ++ t)) = pre sep (c :: (k ++ sep)) := by
      rw [show c :: (k ++ sep ++ t) = (c :: (k ++ sep)) ++ t by simp]
      exact pre_append _ _ _ (by simp; omega)
    rw [hp, ih]

theorem pre_self_append (p t : List Char) : pre p (p ++ t) = true := by
  induction p with
  | nil => rfl
  | cons a l ih => simp [pre, ih]

/-- **the cut returns the kind**: when no occurrence of the separator starts inside `kind`, what stands before the
first separator of `kind ++ sep ++ t` is `kind` – whatever `t` is (it may contain the separator again) -/
theorem cut_clean (sep kind t : List Char) (hs : sep ≠ [])
    (hk : occurs sep (kind ++ sep.dropLast) = false) : cut sep (kind ++ sep ++ t) = kind := by
  induction kind with
  | nil =>
    cases sep with
    | nil => exact absurd rfl hs
    | cons s sep' =>
      show cut (s :: sep') (s :: (sep' ++ t)) = []
      unfold cut
      rw [show (s :: (sep' ++ t)) = (s :: sep') ++ t from rfl, pre_self_append]
      rfl
  | cons c k ih =>
    have hk' : pre sep (c :: (k ++ sep.dropLast)) = false ∧ occurs sep (k ++ sep.dropLast) = false := by
      simpa [occurs] using hk
    have hsplit : c :: (k ++ sep ++ t) = (c :: (k ++ sep.dropLast)) ++ ([sep.getLast hs] ++ t) := by
      have := List.dropLast_concat_getLast hs
      conv => lhs; rw [← this]
      simp
    have hp : pre sep (c :: (k ++ sep ++ t)) = false := by
      rw [hsplit, pre_append _ _ _ (by
        have : sep.length = sep.dropLast.length + 1 := by
          rw [List.length_dropLast]
          have : 0 < sep.length := List.length_pos_iff.mpr hs
          omega
        simp; omega)]
      exact hk'.1
    show cut sep (c :: (k ++ sep ++ t)) = c :: k
    unfold cut
    rw [hp, ih hk'.2]
    rfl

end AcraModel.Sql.ErrText
