/-!
# Error texts that must not carry a value (C16)

Two functions of `/repo` turn an error that quotes its input into one that does not, because callers log errors:

* `utils.ErrorWithoutValue` – `strconv`'s `*NumError` prints `strconv.<Func>: parsing "<input>": <cause>`; the
  replacement prints `strconv.<Func>: <cause>`;
* `encryptor/postgresql.ParseQuery` – PostgreSQL's syntax errors end with ` at or near "<token>"`; the replacement
  keeps what stands before the first ` at or near ` and adds ` at position <n>`.

The models are the text functions; the theorems say that their result does not depend on the input / the token.
-/
namespace AcraModel.Sql.ErrText

/-! ## `utils.ErrorWithoutValue` -/

/-- the two causes `strconv` reports -/
inductive Cause where
  | syntax | range
deriving DecidableEq, Repr

def Cause.text : Cause → String
  | .syntax => "invalid syntax"
  | .range => "value out of range"

/-- `strconv.NumError` -/
structure NumError where
  fn : String       -- "ParseInt", "ParseFloat", "Atoi" …
  num : String      -- the input – a column value, a literal, a bound parameter
  cause : Cause

/-- `(*NumError).Error()` (Go quotes the input; the quoting is irrelevant here) -/
def NumError.text (e : NumError) : String :=
  "strconv." ++ e.fn ++ ": parsing \"" ++ e.num ++ "\": " ++ e.cause.text

/-- `utils.ErrorWithoutValue(err).Error()` for a `*NumError`: `fmt.Errorf("strconv.%s: %w", Func, Err)` -/
def withoutValue (e : NumError) : String :=
  "strconv." ++ e.fn ++ ": " ++ e.cause.text

/-! ## `postgresql.ParseQuery` -/

/-- `p` is a prefix of `m` -/
def pre : List Char → List Char → Bool
  | [], _ => true
  | _ :: _, [] => false
  | a :: p, b :: m => a == b && pre p m

/-- the part of `m` before the first occurrence of `sep` (all of `m` if there is none) – `message[:strings.Index(message, sep)]` -/
def cut (sep : List Char) : List Char → List Char
  | [] => []
  | c :: m => if pre sep (c :: m) then [] else c :: cut sep m

def atOrNear : List Char := " at or near ".toList

/-- the error text of `ParseQuery` for PostgreSQL's message `msg` and cursor position `pos` -/
def pgError (msg : List Char) (pos : Nat) : List Char :=
  cut atOrNear msg ++ " at position ".toList ++ (toString pos).toList

/-- a prefix test looks at no more than `|p|` characters -/
theorem pre_append (p a t : List Char) (h : p.length ≤ a.length) : pre p (a ++ t) = pre p a := by
  induction p generalizing a with
  | nil => simp [pre]
  | cons x p ih =>
    cases a with
    | nil => simp at h
    | cons y a =>
      simp only [List.cons_append, pre]
      rw [ih a (by simpa using h)]

/-- what `cut` returns for `k ++ sep ++ t` is decided within `k ++ sep` -/
theorem cut_append (sep k t : List Char) : cut sep (k ++ sep ++ t) = cut sep (k ++ sep) := by
  induction k with
  | nil =>
    cases sep with
    | nil => cases t <;> simp [cut, pre]
    | cons s sep =>
      have h1 : pre (s :: sep) ((s :: sep) ++ t) = true := by
        rw [pre_append _ _ _ (Nat.le_refl _)]
        clear t
        induction (s :: sep) with
        | nil => rfl
        | cons a l ih => simp [pre, ih]
      have h2 : pre (s :: sep) (s :: sep) = true := by
        induction (s :: sep) with
        | nil => rfl
        | cons a l ih => simp [pre, ih]
      simp only [List.nil_append]
      show cut (s :: sep) (s :: (sep ++ t)) = cut (s :: sep) (s :: sep)
      unfold cut
      rw [show (s :: (sep ++ t)) = (s :: sep) ++ t from rfl, h1, h2]
      rfl
  | cons c k ih =>
    show cut sep (c :: (k ++ sep ++ t)) = cut sep (c :: (k ++ sep))
    unfold cut
    have hp : pre sep (c :: (k ++ sep ++ t)) = pre sep (c :: (k ++ sep)) := by
      rw [show c :: (k ++ sep ++ t) = (c :: (k ++ sep)) ++ t by simp]
      exact pre_append _ _ _ (by simp; omega)
    rw [hp, ih]

end AcraModel.Sql.ErrText
