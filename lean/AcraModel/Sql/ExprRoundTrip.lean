import AcraModel.Sql.ExprLemmas
/-!
# The round trip of the expression fragment (C13): main induction

For a producible tree `t`, every level `L ≤ lv t` and every continuation `rest` whose first token does not continue an
expression at level `L` or above, the parser in mode `lvl L` reads `toks t ++ rest` as `(t, rest)` – with an explicit
fuel bound linear in the number of tokens. Strong induction on the size of the tree; for one tree, downwards over the
levels of the regenerated table.
-/
namespace AcraModel.Sql.Expr
open AcraModel

def AtLevel (t : Expr) (L : Nat) : Prop :=
  L ≤ lv t → ∀ rest, Stops L rest →
    ∃ b, b + L ≤ fuelK * tlen t ∧ Parses (.lvl L) (toks t ++ rest) (t, rest) b

def BStmt (t : Expr) (M : Nat) : Prop :=
  M ≤ lv t → ∀ rest res b', Stops (M + 1) rest → Parses (.rest M t) rest res b' →
    ∃ b, b + M + 1 ≤ fuelK * tlen t ∧ Parses (.lvl M) (toks t ++ rest) res (b' + b)

def IsStmt (t : Expr) : Prop :=
  lCmp ≤ lv t → ∀ rest res b', StopsC rest → Parses (.isLoop t) rest res b' →
    ∃ b, b + lCmp + 1 ≤ fuelK * tlen t ∧ Parses (.lvl lCmp) (toks t ++ rest) res (b' + b)

structure All (t : Expr) : Prop where
  A : ∀ L, lOr ≤ L → L ≤ lUnary → AtLevel t L
  B : ∀ M, Generic M → lOr ≤ M → BStmt t M
  I : IsStmt t

theorem fuelK_eq : fuelK = 20 := rfl

/-! ## shape lemmas -/

theorem generic_lv_cases {M : Nat} {t : Expr} (hg : Generic M) (h : lv t = M) :
    ∃ bb l r, t = Bin2.mk bb l r ∧ bb.level = M := by
  obtain ⟨g1, g2, g3⟩ := hg
  cases t with
  | or l r => exact ⟨.or, l, r, rfl, h⟩
  | and l r => exact ⟨.and, l, r, rfl, h⟩
  | bin o l r => exact ⟨.bin o, l, r, rfl, h⟩
  | not e => exact absurd h.symm g1
  | is op e => exact absurd h.symm g2
  | cmp op l r => exact absurd h.symm g2
  | range n l lo hi => exact absurd h.symm g2
  | val ty v => simp only [lv] at h; omega
  | null => simp only [lv] at h; omega
  | bool b => simp only [lv] at h; omega
  | col n => simp only [lv] at h; omega
  | func n a => simp only [lv] at h; omega
  | paren e => simp only [lv] at h; omega
  | un o e => simp only [lv] at h; omega

theorem producible_mk_inv {bb : Bin2} {l r : Expr} (h : Producible (bb.mk l r)) :
    Producible l ∧ Producible r ∧ bb.level ≤ lv l ∧ bb.level + 1 ≤ lv r := by
  cases bb with
  | or => cases h with | or a b c d => exact ⟨a, b, c, d⟩
  | and => cases h with | and a b c d => exact ⟨a, b, c, d⟩
  | bin o => cases h with | bin a b c d => exact ⟨a, b, c, d⟩

theorem sizeOf_mk_left (bb : Bin2) (l r : Expr) : sizeOf l < sizeOf (bb.mk l r) := by
  cases bb <;> simp [Bin2.mk] <;> omega

theorem sizeOf_mk_right (bb : Bin2) (l r : Expr) : sizeOf r < sizeOf (bb.mk l r) := by
  cases bb <;> simp [Bin2.mk] <;> omega

theorem tlen_mk (bb : Bin2) (l r : Expr) : tlen (bb.mk l r) = tlen l + 1 + tlen r := by
  simp [tlen, toks_mk]; omega

theorem bin2At_none_of_cont {L : Nat} {s : Sym} (h : contLevel s < L) : bin2At L s = none := by
  have key : ∀ s : Sym, (s.bin2.map Bin2.level).getD (contLevel s) = contLevel s := by
    intro s; cases s <;> decide
  have := key s
  unfold bin2At
  cases hb : s.bin2 with
  | none => rfl
  | some b =>
    rw [hb] at this
    simp only [Option.map_some, Option.getD_some] at this
    have : b.level ≠ L := by omega
    simp [this]

/-- the first token of a printed tree starts an operand; for a producible tree above the NOT level it is not NOT -/
theorem toks_head : (t : Expr) →
    ∃ tk tl, toks t = tk :: tl ∧ tk ≠ .sym .rp ∧ (Producible t → lNot < lv t → tk ≠ .sym .not_)
  | .val ty v => by
    rw [toks_val]
    cases v with
    | nil => exact ⟨_, _, rfl, by simp, by simp⟩
    | cons c w =>
      dsimp only
      split
      · exact ⟨_, _, rfl, by decide, fun _ _ => by decide⟩
      · exact ⟨_, _, rfl, by simp, by simp⟩
  | .null => ⟨_, _, toks_null, by decide, fun _ _ => by decide⟩
  | .bool b => ⟨_, _, toks_bool b, by cases b <;> decide, fun _ _ => by cases b <;> decide⟩
  | .col n => ⟨_, _, toks_col n, by simp, by simp⟩
  | .func n a => ⟨_, _, toks_func n a, by simp, by simp⟩
  | .paren e => ⟨_, _, toks_paren e, by decide, fun _ _ => by decide⟩
  | .not e => ⟨_, _, toks_not e, by decide, fun _ h => by simp only [lv] at h; omega⟩
  | .un o e => ⟨_, _, toks_un o e, by cases o <;> decide, fun _ _ => by cases o <;> decide⟩
  | .and l r => by
    obtain ⟨tk, tl, h1, h2, _⟩ := toks_head l
    refine ⟨tk, tl ++ .sym .and_ :: toks r, by rw [toks_and, h1]; rfl, h2, fun _ h => ?_⟩
    simp only [lv] at h; have := lAnd_eq; have := lNot_eq; omega
  | .or l r => by
    obtain ⟨tk, tl, h1, h2, _⟩ := toks_head l
    refine ⟨tk, tl ++ .sym .or_ :: toks r, by rw [toks_or, h1]; rfl, h2, fun _ h => ?_⟩
    simp only [lv] at h; have := lOr_eq; have := lNot_eq; omega
  | .is op e => by
    obtain ⟨tk, tl, h1, h2, h3⟩ := toks_head e
    refine ⟨tk, tl ++ .sym .is_ :: op.syms.map .sym, by rw [toks_is, h1]; rfl, h2, fun hp _ => ?_⟩
    cases hp with
    | is pe hl => exact h3 pe (by have := lCmp_eq; have := lNot_eq; omega)
  | .cmp op l r => by
    obtain ⟨tk, tl, h1, h2, h3⟩ := toks_head l
    refine ⟨tk, tl ++ (op.syms.map .sym ++ toks r), by rw [toks_cmp, h1]; rfl, h2, fun hp _ => ?_⟩
    cases hp with
    | cmp pl _ hl _ => exact h3 pl (by have := lCmp_eq; have := lNot_eq; omega)
  | .range n l lo hi => by
    obtain ⟨tk, tl, h1, h2, h3⟩ := toks_head l
    refine ⟨tk, tl ++ ((if n then [.sym .not_] else []) ++ .sym .between :: (toks lo ++ .sym .and_ :: toks hi)),
      by rw [toks_range, h1]; rfl, h2, fun hp _ => ?_⟩
    cases hp with
    | range pl _ _ hl _ _ => exact h3 pl (by have := lCmp_eq; have := lNot_eq; omega)
  | .bin o l r => by
    obtain ⟨tk, tl, h1, h2, h3⟩ := toks_head l
    refine ⟨tk, tl ++ .sym o.sym :: toks r, by rw [toks_bin, h1]; rfl, h2, fun hp _ => ?_⟩
    cases hp with
    | bin pl _ hl _ => exact h3 pl (by have := (binop_level_range o).1; have := lNot_eq; omega)

/-! ## the levels -/

theorem lem_A_of_B {t : Expr} {M : Nat} (hB : BStmt t M) : AtLevel t M := by
  intro hle rest hst
  have hstop : Parses (.rest M t) rest (t, rest) 1 :=
    R_rest_stop M t rest (fun s hs => bin2At_none_of_cont (hst s hs))
  obtain ⟨b, hb, hP⟩ := hB hle rest (t, rest) 1 (hst.mono (Nat.le_succ _)) hstop
  exact ⟨1 + b, by omega, hP⟩

theorem lem_B (t : Expr) (M : Nat) (hg : Generic M) (hM : lOr ≤ M)
    (ih : ∀ t', sizeOf t' < sizeOf t → Producible t' → All t') (hp : Producible t)
    (hA : M < lv t → AtLevel t (M + 1)) : BStmt t M := by
  intro hle rest res b' hst hrest
  by_cases hlt : M < lv t
  · obtain ⟨b, hb, hP⟩ := hA hlt (by omega) rest hst
    refine ⟨b, by omega, ?_⟩
    exact (R_lvl_generic hg hP hrest).mono (by have := hP.pos; have := hrest.pos; omega)
  · have heq : lv t = M := by omega
    obtain ⟨bb, l, r, rfl, hbl⟩ := generic_lv_cases hg heq
    obtain ⟨pl, pr, hl, hr⟩ := producible_mk_inv hp
    have Al := ih l (sizeOf_mk_left bb l r) pl
    have Ar := ih r (sizeOf_mk_right bb l r) pr
    have hMu : M + 1 ≤ lUnary := hg.2.2
    obtain ⟨br, hbr, hPr⟩ := Ar.A (M + 1) (by omega) hMu (by omega) rest hst
    have hb2 : bin2At M bb.sym = some bb := by rw [← hbl]; exact bin2At_self bb
    have h2 := R_rest_go (lhs := l) hb2 hPr hrest
    obtain ⟨bl, hbl', hPl⟩ := Al.B M hg hM (by omega) (.sym bb.sym :: (toks r ++ rest)) res _
      (stops_sym (by rw [contLevel_bin2]; omega)) h2
    refine ⟨br + 1 + bl, ?_, ?_⟩
    · rw [tlen_mk, fuelK_eq] at *; omega
    · rw [toks_mk, List.append_assoc, List.cons_append]
      exact hPl.mono (by omega)

theorem stops_cmp_syms (op : CmpOp) (x : List Tok) : Stops (lCmp + 1) (op.syms.map .sym ++ x) := by
  cases op <;> exact stops_sym (by decide)

theorem lem_A_of_I {t : Expr} (hI : IsStmt t) : AtLevel t lCmp := by
  intro hle rest hst
  have hne : rest.head? ≠ some (.sym .is_) := by
    intro h; exact absurd (hst _ h) (by decide)
  obtain ⟨b, hb, hP⟩ := hI hle rest (t, rest) 1 (stopsC_of_stops hst) (R_isLoop_stop t rest hne)
  exact ⟨1 + b, by omega, hP⟩

theorem lem_I (t : Expr)
    (ih : ∀ t', sizeOf t' < sizeOf t → Producible t' → All t') (hp : Producible t)
    (hA : lCmp < lv t → AtLevel t (lCmp + 1)) : IsStmt t := by
  intro hle rest res b' hst hloop
  have e7 := lCmp_eq; have e14 := lUnary_eq; have e3 := lOr_eq
  by_cases hlt : lCmp < lv t
  · obtain ⟨b, hb, hP⟩ := hA hlt (by omega) rest hst.stops
    refine ⟨b, by omega, ?_⟩
    exact (R_cmp (b2 := 0) hP (fun n _ => cmpTail_stop _ _ _ hst) hloop).mono
      (by have := hP.pos; have := hloop.pos; omega)
  · have heq : lv t = lCmp := by omega
    cases t with
    | is op e =>
      cases hp with
      | is pe hl =>
        have Ae := ih e (by simp; omega) pe
        obtain ⟨be, hbe, hPe⟩ := Ae.I hl (.sym .is_ :: (op.syms.map .sym ++ rest)) res _ (stopsC_is _)
          (R_isLoop_go hloop)
        refine ⟨1 + be, ?_, ?_⟩
        · have : tlen (.is op e) = tlen e + 1 + op.syms.length := by simp [tlen, toks_is]; omega
          rw [this, fuelK_eq] at *; omega
        · rw [toks_is, List.append_assoc, List.cons_append]
          exact hPe.mono (by omega)
    | cmp op l r =>
      cases hp with
      | cmp pl pr hl hr =>
        have Al := ih l (by simp; omega) pl
        have Ar := ih r (by simp; omega) pr
        obtain ⟨bl, hbl, hPl⟩ := Al.A (lCmp + 1) (by omega) (by omega) hl (op.syms.map .sym ++ (toks r ++ rest))
          (stops_cmp_syms op _)
        obtain ⟨br, hbr, hPr⟩ := Ar.A (lCmp + 1) (by omega) (by omega) hr rest hst.stops
        refine ⟨bl + br, ?_, ?_⟩
        · have : tlen (.cmp op l r) = tlen l + op.syms.length + tlen r := by simp [tlen, toks_cmp]; omega
          rw [this, fuelK_eq] at *; omega
        · rw [toks_cmp, List.append_assoc, List.append_assoc]
          exact (R_cmp hPl (fun n hn => cmpTail_cmp _ op l r _ _ (hPr n hn)) hloop).mono
            (by have := hPl.pos; have := hPr.pos; have := hloop.pos; omega)
    | range neg l lo hi =>
      cases hp with
      | range pl plo phi hl hlo hhi =>
        have Al := ih l (by simp; omega) pl
        have Alo := ih lo (by simp; omega) plo
        have Ahi := ih hi (by simp; omega) phi
        obtain ⟨bl, hbl, hPl⟩ := Al.A (lCmp + 1) (by omega) (by omega) hl
          ((if neg then [.sym .not_] else []) ++ .sym .between :: (toks lo ++ .sym .and_ :: (toks hi ++ rest)))
          (by cases neg <;> exact stops_sym (by decide))
        obtain ⟨blo, hblo, hPlo⟩ := Alo.A (lCmp + 1) (by omega) (by omega) hlo (.sym .and_ :: (toks hi ++ rest))
          (stops_sym (by decide))
        obtain ⟨bhi, hbhi, hPhi⟩ := Ahi.A (lCmp + 1) (by omega) (by omega) hhi rest hst.stops
        refine ⟨bl + blo + bhi, ?_, ?_⟩
        · have : tlen (.range neg l lo hi) = tlen l + (if neg then 1 else 0) + 1 + tlen lo + 1 + tlen hi := by
            cases neg <;> simp [tlen, toks_range] <;> omega
          rw [this, fuelK_eq] at *; omega
        · have e : toks (.range neg l lo hi) ++ rest = toks l ++ ((if neg then [.sym .not_] else []) ++
              .sym .between :: (toks lo ++ .sym .and_ :: (toks hi ++ rest))) := by
            rw [toks_range]; simp
          rw [e]
          exact (R_cmp (b2 := max blo bhi) hPl
            (fun n hn => cmpTail_range _ neg l lo hi _ _ _ (hPlo n (by omega)) (hPhi n (by omega))) hloop).mono
            (by have := hPl.pos; have := hPlo.pos; have := hPhi.pos; have := hloop.pos; omega)
    | or l r => simp only [lv] at heq; omega
    | and l r => simp only [lv] at heq; have := lAnd_eq; omega
    | not e => simp only [lv] at heq; have := lNot_eq; omega
    | bin o l r => simp only [lv] at heq; have := binop_level_range o; omega
    | val ty v => simp only [lv] at heq; omega
    | null => simp only [lv] at heq; omega
    | bool b => simp only [lv] at heq; omega
    | col n => simp only [lv] at heq; omega
    | func n a => simp only [lv] at heq; omega
    | paren e => simp only [lv] at heq; omega
    | un o e => simp only [lv] at heq; omega

theorem lem_A_not (t : Expr)
    (ih : ∀ t', sizeOf t' < sizeOf t → Producible t' → All t') (hp : Producible t)
    (hA : lNot < lv t → AtLevel t (lNot + 1)) : AtLevel t lNot := by
  intro hle rest hst
  have e5 := lNot_eq; have e14 := lUnary_eq; have e3 := lOr_eq; have e7 := lCmp_eq; have e4 := lAnd_eq
  by_cases hlt : lNot < lv t
  · obtain ⟨b, hb, hP⟩ := hA hlt (by omega) rest (hst.mono (Nat.le_succ _))
    obtain ⟨tk, tl, h1, _, h3⟩ := toks_head t
    have hh : (toks t ++ rest).head? ≠ some (.sym .not_) := by
      rw [h1]; simp; exact h3 hp hlt
    exact ⟨b + 1, by omega, R_not_pass hh hP⟩
  · have heq : lv t = lNot := by omega
    cases t with
    | not e =>
      cases hp with
      | not pe hl =>
        have Ae := ih e (by simp) pe
        obtain ⟨be, hbe, hPe⟩ := Ae.A lNot (by omega) (by omega) hl rest hst
        refine ⟨be + 1, ?_, ?_⟩
        · have : tlen (.not e) = tlen e + 1 := by simp [tlen, toks_not]
          rw [this, fuelK_eq] at *; omega
        · rw [toks_not]; exact R_not hPe
    | or l r => simp only [lv] at heq; omega
    | and l r => simp only [lv] at heq; omega
    | is op e => simp only [lv] at heq; omega
    | cmp op l r => simp only [lv] at heq; omega
    | range n l lo hi => simp only [lv] at heq; omega
    | bin o l r => simp only [lv] at heq; have := binop_level_range o; omega
    | val ty v => simp only [lv] at heq; omega
    | null => simp only [lv] at heq; omega
    | bool b => simp only [lv] at heq; omega
    | col n => simp only [lv] at heq; omega
    | func n a => simp only [lv] at heq; omega
    | paren e => simp only [lv] at heq; omega
    | un o e => simp only [lv] at heq; omega

/-! ## prefix operators and primaries -/

theorem lOr_le_lv (t : Expr) : lOr ≤ lv t := by
  cases t <;> simp only [lv] <;> first | decide | (rename_i o _ _; have := binop_level_range o; have := lOr_eq; omega)

theorem parse_lit (ty : Nat) (w : Bytes) (rest : List Tok) :
    Parses (.lvl lUnary) (.lit ty w :: rest) (.val ty w, rest) 1 := by
  apply parses_of_step (b := 0)
  intro n _
  rw [R_unary_lvl (Nat.le_refl _)]
  simp [unaryOrPrim]

theorem mkUnary_un {op : UnOp} {e : Expr} (h : op.folds = true → e.isIntVal = false) : mkUnary op e = .un op e := by
  cases e with
  | val ty v =>
    unfold mkUnary
    by_cases hf : op.folds = true
    · have := h hf
      simp only [Expr.isIntVal] at this
      simp [hf, this]
    · simp [hf]
  | _ => rfl

theorem args_loop (n : Bytes) (rest : List Tok) :
    ∀ (es : List Expr) (e : Expr) (acc : List Expr), (∀ a, a ∈ e :: es → Producible a ∧ All a) →
      ∃ b, b ≤ fuelK * (toksArgs (e :: es)).length ∧
        Parses (.args n acc) (toksArgs (e :: es) ++ .sym .rp :: rest) (.func n (acc.reverse ++ e :: es), rest) b := by
  have e14 := lUnary_eq; have e3 := lOr_eq
  intro es
  induction es with
  | nil =>
    intro e acc h
    obtain ⟨_, Ae⟩ := h e (by simp)
    obtain ⟨be, hbe, hPe⟩ := Ae.A lOr (Nat.le_refl _) (by omega) (lOr_le_lv e) (.sym .rp :: rest)
      (stops_rp _ (by omega) _)
    refine ⟨be + 1, ?_, ?_⟩
    · rw [toksArgs_one]; unfold tlen at hbe; rw [fuelK_eq] at *; omega
    · rw [toksArgs_one]
      apply parses_of_step
      intro k hk
      simp [step, hPe k hk]
  | cons e' es' ih =>
    intro e acc h
    obtain ⟨_, Ae⟩ := h e (by simp)
    obtain ⟨be, hbe, hPe⟩ := Ae.A lOr (Nat.le_refl _) (by omega) (lOr_le_lv e)
      (.sym .comma :: (toksArgs (e' :: es') ++ .sym .rp :: rest)) (stops_comma _ (by omega) _)
    obtain ⟨br, hbr, hPr⟩ := ih e' (e :: acc) (fun a ha => h a (by simp at ha ⊢; right; exact ha))
    refine ⟨be + br + 1, ?_, ?_⟩
    · rw [toksArgs_cons2]; unfold tlen at hbe; rw [fuelK_eq] at *; simp; omega
    · rw [toksArgs_cons2, List.append_assoc, List.cons_append]
      apply parses_of_step
      intro k hk
      have := hPr k (by omega)
      simp only [List.reverse_cons, List.append_assoc, List.singleton_append] at this
      simp [step, hPe k (by omega), this]

theorem lem_A_unary (t : Expr)
    (ih : ∀ t', sizeOf t' < sizeOf t → Producible t' → All t') (hp : Producible t) : AtLevel t lUnary := by
  intro hle rest hst
  have e14 := lUnary_eq; have e3 := lOr_eq; have e7 := lCmp_eq; have e5 := lNot_eq; have e4 := lAnd_eq
  have hlp : rest.head? ≠ some (.sym .lp) := by
    intro h; exact absurd (hst _ h) (by decide)
  cases t with
  | val ty v =>
    cases hp with
    | val hok =>
      unfold tlen
      rw [toks_val]
      cases v with
      | nil => exact ⟨1, by rw [fuelK_eq]; simp; omega, parse_lit ty [] rest⟩
      | cons c w =>
        dsimp only
        by_cases hc : (rawTy ty && c == minusByte) = true
        · rw [if_pos hc]
          simp only [Bool.and_eq_true, beq_iff_eq] at hc
          obtain ⟨hraw, hcm⟩ := hc
          subst hcm
          obtain ⟨_, hsign⟩ := hok hraw
          obtain ⟨hty, hw, hw2⟩ := hsign rfl
          refine ⟨2, by rw [fuelK_eq]; simp; omega, ?_⟩
          apply parses_of_step (b := 1)
          intro n hn
          rw [R_unary_lvl (Nat.le_refl _)]
          have hl := parse_lit ty w rest n hn
          have hu : Sym.unop .minus = some .uminus := by decide
          have hf : UnOp.folds .uminus = true := by decide
          simp only [List.cons_append, List.nil_append, unaryOrPrim, hu, hl, Option.bind_eq_bind, Option.bind_some]
          simp only [mkUnary, hf, hty, beq_self_eq_true, Bool.and_self, if_true]
          cases w with
          | nil => exact absurd rfl hw
          | cons c' w' =>
            have : (c' == minusByte) = false := by
              simp only [List.tail_cons, List.head?_cons] at hw2
              cases hcc : (c' == minusByte) with
              | false => rfl
              | true => exact absurd (by rw [beq_iff_eq.mp hcc]) hw2
            simp [this]
        · rw [if_neg hc]; exact ⟨1, by rw [fuelK_eq]; simp; omega, parse_lit ty _ rest⟩
  | null =>
    refine ⟨1, by unfold tlen; rw [toks_null, fuelK_eq]; simp; omega, ?_⟩
    rw [toks_null]
    apply parses_of_step (b := 0)
    intro n _
    rw [R_unary_lvl (Nat.le_refl _)]
    simp [unaryOrPrim, show Sym.unop .null = none by decide]
  | bool b =>
    refine ⟨1, by unfold tlen; rw [toks_bool, fuelK_eq]; simp; omega, ?_⟩
    rw [toks_bool]
    apply parses_of_step (b := 0)
    intro n _
    rw [R_unary_lvl (Nat.le_refl _)]
    cases b <;> simp [unaryOrPrim, show Sym.unop .true_ = none by decide, show Sym.unop .false_ = none by decide]
  | col nm =>
    refine ⟨1, by unfold tlen; rw [toks_col, fuelK_eq]; simp; omega, ?_⟩
    rw [toks_col]
    apply parses_of_step (b := 0)
    intro n _
    rw [R_unary_lvl (Nat.le_refl _)]
    cases rest with
    | nil => simp [unaryOrPrim]
    | cons tk r =>
      cases tk with
      | sym s =>
        have : s ≠ .lp := by intro e; subst e; exact hlp rfl
        cases s <;> first | exact absurd rfl this | simp [unaryOrPrim]
      | lit ty v => simp [unaryOrPrim]
      | id x => simp [unaryOrPrim]
  | func nm as =>
    cases hp with
    | func hargs =>
      cases as with
      | nil =>
        refine ⟨1, by unfold tlen; rw [toks_func, fuelK_eq]; simp; omega, ?_⟩
        rw [toks_func, toksArgs_nil]
        apply parses_of_step (b := 0)
        intro n _
        rw [R_unary_lvl (Nat.le_refl _)]
        simp [unaryOrPrim]
      | cons e es =>
        have hall : ∀ a, a ∈ e :: es → Producible a ∧ All a := by
          intro a ha
          have hs : sizeOf a < sizeOf (Expr.func nm (e :: es)) := by
            have := List.sizeOf_lt_of_mem ha
            simp only [Expr.func.sizeOf_spec]; omega
          exact ⟨hargs a ha, ih a hs (hargs a ha)⟩
        obtain ⟨b, hb, hP⟩ := args_loop nm rest es e [] hall
        obtain ⟨tk, tl, h1, h2, _⟩ := toks_head e
        have hhead : ∃ tl', toksArgs (e :: es) = tk :: tl' := by
          cases es with
          | nil => exact ⟨tl, by rw [toksArgs_one, h1]⟩
          | cons e' es' => exact ⟨tl ++ .sym .comma :: toksArgs (e' :: es'), by rw [toksArgs_cons2, h1]; rfl⟩
        obtain ⟨tl', h1'⟩ := hhead
        refine ⟨b + 1, ?_, ?_⟩
        · unfold tlen; rw [toks_func, fuelK_eq] at *; simp; omega
        · rw [toks_func]
          apply parses_of_step
          intro n hn
          rw [R_unary_lvl (Nat.le_refl _)]
          have := hP n hn
          simp only [List.reverse_nil, List.nil_append] at this
          simp only [List.cons_append, List.append_assoc, List.singleton_append]
          rw [h1'] at this ⊢
          cases tk with
          | sym s =>
            have : s ≠ .rp := by intro e; subst e; exact h2 rfl
            cases s <;> first | exact absurd rfl this | (simp only [List.cons_append, unaryOrPrim]; assumption)
          | lit ty v => simp only [List.cons_append, unaryOrPrim]; assumption
          | id x => simp only [List.cons_append, unaryOrPrim]; assumption
  | paren e =>
    cases hp with
    | paren pe =>
      have Ae := ih e (by simp) pe
      obtain ⟨be, hbe, hPe⟩ := Ae.A lOr (Nat.le_refl _) (by omega) (lOr_le_lv e) (.sym .rp :: rest)
        (stops_rp _ (by omega) _)
      refine ⟨be + 1, ?_, ?_⟩
      · have : tlen (.paren e) = tlen e + 2 := by simp [tlen, toks_paren]
        rw [this, fuelK_eq] at *; omega
      · rw [toks_paren]
        apply parses_of_step
        intro n hn
        rw [R_unary_lvl (Nat.le_refl _)]
        simp [unaryOrPrim, show Sym.unop .lp = none by decide, hPe n hn]
  | un op e =>
    cases hp with
    | un pe hl hfold =>
      have Ae := ih e (by simp; omega) pe
      obtain ⟨be, hbe, hPe⟩ := Ae.A lUnary (by omega) (Nat.le_refl _) hl rest hst
      refine ⟨be + 1, ?_, ?_⟩
      · have : tlen (.un op e) = tlen e + 1 := by simp [tlen, toks_un]
        rw [this, fuelK_eq] at *; omega
      · rw [toks_un]
        apply parses_of_step
        intro n hn
        rw [R_unary_lvl (Nat.le_refl _)]
        have hu : op.sym.unop = some op := by cases op <;> decide
        simp [unaryOrPrim, hu, hPe n hn, mkUnary_un hfold]
  | or l r => simp only [lv] at hle; omega
  | and l r => simp only [lv] at hle; omega
  | not e => simp only [lv] at hle; omega
  | is op e => simp only [lv] at hle; omega
  | cmp op l r => simp only [lv] at hle; omega
  | range n l lo hi => simp only [lv] at hle; omega
  | bin o l r => simp only [lv] at hle; have := binop_level_range o; omega

/-! ## assembly -/

theorem all_of_producible : ∀ (N : Nat) (t : Expr), sizeOf t ≤ N → Producible t → All t := by
  intro N
  induction N with
  | zero =>
    intro t h
    have : 0 < sizeOf t := by cases t <;> simp <;> omega
    omega
  | succ N ihN =>
    intro t hsz hp
    have ih : ∀ t', sizeOf t' < sizeOf t → Producible t' → All t' := fun t' h hp' => ihN t' (by omega) hp'
    have e14 := lUnary_eq; have e3 := lOr_eq; have e7 := lCmp_eq; have e5 := lNot_eq; have e4 := lAnd_eq
    have g : ∀ M, M ≠ 5 → M ≠ 7 → M < 14 → Generic M := fun M a b c => ⟨by omega, by omega, by omega⟩
    have a14 : AtLevel t 14 := by rw [← e14]; exact lem_A_unary t ih hp
    have b13 := lem_B t 13 (g 13 (by omega) (by omega) (by omega)) (by omega) ih hp (fun _ => a14)
    have a13 := lem_A_of_B b13
    have b12 := lem_B t 12 (g 12 (by omega) (by omega) (by omega)) (by omega) ih hp (fun _ => a13)
    have a12 := lem_A_of_B b12
    have b11 := lem_B t 11 (g 11 (by omega) (by omega) (by omega)) (by omega) ih hp (fun _ => a12)
    have a11 := lem_A_of_B b11
    have b10 := lem_B t 10 (g 10 (by omega) (by omega) (by omega)) (by omega) ih hp (fun _ => a11)
    have a10 := lem_A_of_B b10
    have b9 := lem_B t 9 (g 9 (by omega) (by omega) (by omega)) (by omega) ih hp (fun _ => a10)
    have a9 := lem_A_of_B b9
    have b8 := lem_B t 8 (g 8 (by omega) (by omega) (by omega)) (by omega) ih hp (fun _ => a9)
    have a8 := lem_A_of_B b8
    have i7 : IsStmt t := lem_I t ih hp (fun _ => by rw [e7]; exact a8)
    have a7 : AtLevel t 7 := by rw [← e7]; exact lem_A_of_I i7
    have b6 := lem_B t 6 (g 6 (by omega) (by omega) (by omega)) (by omega) ih hp (fun _ => a7)
    have a6 := lem_A_of_B b6
    have a5 : AtLevel t 5 := by rw [← e5]; exact lem_A_not t ih hp (fun _ => by rw [e5]; exact a6)
    have b4 := lem_B t 4 (g 4 (by omega) (by omega) (by omega)) (by omega) ih hp (fun _ => a5)
    have a4 := lem_A_of_B b4
    have b3 := lem_B t 3 (g 3 (by omega) (by omega) (by omega)) (by omega) ih hp (fun _ => a4)
    have a3 := lem_A_of_B b3
    refine ⟨?_, ?_, i7⟩
    · intro L h1 h2
      have : L = 3 ∨ L = 4 ∨ L = 5 ∨ L = 6 ∨ L = 7 ∨ L = 8 ∨ L = 9 ∨ L = 10 ∨ L = 11 ∨ L = 12 ∨ L = 13 ∨ L = 14 := by
        omega
      rcases this with rfl | rfl | rfl | rfl | rfl | rfl | rfl | rfl | rfl | rfl | rfl | rfl <;> assumption
    · intro M hg h1
      obtain ⟨g1, g2, g3⟩ := hg
      have : M = 3 ∨ M = 4 ∨ M = 6 ∨ M = 8 ∨ M = 9 ∨ M = 10 ∨ M = 11 ∨ M = 12 ∨ M = 13 := by omega
      rcases this with rfl | rfl | rfl | rfl | rfl | rfl | rfl | rfl | rfl <;> assumption

/-- **Round trip with an explicit fuel bound.** -/
theorem roundtrip_fuel (t : Expr) (hp : Producible t) (n : Nat) (hn : fuelK * tlen t ≤ n) :
    parseExprFuel n (toks t) = some t := by
  have A := (all_of_producible (sizeOf t) t (Nat.le_refl _) hp).A lOr (Nat.le_refl _)
    (by have := lOr_eq; have := lUnary_eq; omega) (lOr_le_lv t) [] (stops_nil _)
  obtain ⟨b, hb, hP⟩ := A
  have := hP n (by omega)
  rw [List.append_nil] at this
  simp [parseExprFuel, this]

end AcraModel.Sql.Expr
