import AcraModel.Sql.ExprLemmas
/-!
# The round trip of the expression fragment (C13): main induction

For a producible tree `t`, every level `L ≤ lv t` and every continuation `rest` whose first token does not continue an
expression at level `L` or above, the parser in mode `lvl L` reads `toks t ++ rest` as `(t, rest)` – with an explicit
fuel bound linear in the number of tokens. Strong induction on the size of the tree; for one tree, downwards over the
levels of the regenerated table.
-/
namespace AcraModel.Sql.Expr
open AcraModel

def AtLevel (t : Expr) (L : Nat) : Prop :=
  L ≤ lv t → ∀ rest, Stops L rest →
    ∃ b, b + L ≤ fuelK * tlen t ∧ Parses (.lvl L) (toks t ++ rest) (t, rest) b

def BStmt (t : Expr) (M : Nat) : Prop :=
  M ≤ lv t → ∀ rest res b', Stops (M + 1) rest → Parses (.rest M t) rest res b' →
    ∃ b, b + M + 1 ≤ fuelK * tlen t ∧ Parses (.lvl M) (toks t ++ rest) res (b' + b)

def IsStmt (t : Expr) : Prop :=
  lCmp ≤ lv t → ∀ rest res b', StopsC rest → Parses (.isLoop t) rest res b' →
    ∃ b, b + lCmp + 1 ≤ fuelK * tlen t ∧ Parses (.lvl lCmp) (toks t ++ rest) res (b' + b)

structure All (t : Expr) : Prop where
  A : ∀ L, lOr ≤ L → L ≤ lUnary → AtLevel t L
  B : ∀ M, Generic M → lOr ≤ M → BStmt t M
  I : IsStmt t

theorem fuelK_eq : fuelK = 20 := rfl

/-! ## shape lemmas -/

theorem generic_lv_cases {M : Nat} {t : Expr} (hg : Generic M) (h : lv t = M) :
    ∃ bb l r, t = Bin2.mk bb l r ∧ bb.level = M := by
  obtain ⟨g1, g2, g3⟩ := hg
  cases t with
  | or l r => exact ⟨.or, l, r, rfl, h⟩
  | and l r => exact ⟨.and, l, r, rfl, h⟩
  | bin o l r => exact ⟨.bin o, l, r, rfl, h⟩
  | not e => exact absurd h.symm g1
  | is op e => exact absurd h.symm g2
  | cmp op l r => exact absurd h.symm g2
  | range n l lo hi => exact absurd h.symm g2
  | val ty v => simp only [lv] at h; omega
  | null => simp only [lv] at h; omega
  | bool b => simp only [lv] at h; omega
  | col n => simp only [lv] at h; omega
  | func n a => simp only [lv] at h; omega
  | paren e => simp only [lv] at h; omega
  | un o e => simp only [lv] at h; omega

theorem producible_mk_inv {bb : Bin2} {l r : Expr} (h : Producible (bb.mk l r)) :
    Producible l ∧ Producible r ∧ bb.level ≤ lv l ∧ bb.level + 1 ≤ lv r := by
  cases bb with
  | or => cases h with | or a b c d => exact ⟨a, b, c, d⟩
  | and => cases h with | and a b c d => exact ⟨a, b, c, d⟩
  | bin o => cases h with | bin a b c d => exact ⟨a, b, c, d⟩

theorem sizeOf_mk_left (bb : Bin2) (l r : Expr) : sizeOf l < sizeOf (bb.mk l r) := by
  cases bb <;> simp [Bin2.mk] <;> omega

theorem sizeOf_mk_right (bb : Bin2) (l r : Expr) : sizeOf r < sizeOf (bb.mk l r) := by
  cases bb <;> simp [Bin2.mk] <;> omega

theorem tlen_mk (bb : Bin2) (l r : Expr) : tlen (bb.mk l r) = tlen l + 1 + tlen r := by
  simp [tlen, toks_mk]; omega

theorem bin2At_none_of_cont {L : Nat} {s : Sym} (h : contLevel s < L) : bin2At L s = none := by
  have key : ∀ s : Sym, (s.bin2.map Bin2.level).getD (contLevel s) = contLevel s := by
    intro s; cases s <;> decide
  have := key s
  unfold bin2At
  cases hb : s.bin2 with
  | none => rfl
  | some b =>
    rw [hb] at this
    simp only [Option.map_some, Option.getD_some] at this
    have : b.level ≠ L := by omega
    simp [this]

/-- the first token of a printed tree starts an operand; for a producible tree above the NOT level it is not NOT -/
theorem toks_head : (t : Expr) →
    ∃ tk tl, toks t = tk :: tl ∧ tk ≠ .sym .rp ∧ (Producible t → lNot < lv t → tk ≠ .sym .not_)
  | .val ty v => by
    rw [toks_val]
    cases v with
    | nil => exact ⟨_, _, rfl, by simp, by simp⟩
    | cons c w =>
      dsimp only
      split
      · exact ⟨_, _, rfl, by decide, fun _ _ => by decide⟩
      · exact ⟨_, _, rfl, by simp, by simp⟩
  | .null => ⟨_, _, toks_null, by decide, fun _ _ => by decide⟩
  | .bool b => ⟨_, _, toks_bool b, by cases b <;> decide, fun _ _ => by cases b <;> decide⟩
  | .col n => ⟨_, _, toks_col n, by simp, by simp⟩
  | .func n a => ⟨_, _, toks_func n a, by simp, by simp⟩
  | .paren e => ⟨_, _, toks_paren e, by decide, fun _ _ => by decide⟩
  | .not e => ⟨_, _, toks_not e, by decide, fun _ h => by simp only [lv] at h; omega⟩
  | .un o e => ⟨_, _, toks_un o e, by cases o <;> decide, fun _ _ => by cases o <;> decide⟩
  | .and l r => by
    obtain ⟨tk, tl, h1, h2, _⟩ := toks_head l
    refine ⟨tk, tl ++ .sym .and_ :: toks r, by rw [toks_and, h1]; rfl, h2, fun _ h => ?_⟩
    simp only [lv] at h; have := lAnd_eq; have := lNot_eq; omega
  | .or l r => by
    obtain ⟨tk, tl, h1, h2, _⟩ := toks_head l
    refine ⟨tk, tl ++ .sym .or_ :: toks r, by rw [toks_or, h1]; rfl, h2, fun _ h => ?_⟩
    simp only [lv] at h; have := lOr_eq; have := lNot_eq; omega
  | .is op e => by
    obtain ⟨tk, tl, h1, h2, h3⟩ := toks_head e
    refine ⟨tk, tl ++ .sym .is_ :: op.syms.map .sym, by rw [toks_is, h1]; rfl, h2, fun hp _ => ?_⟩
    cases hp with
    | is pe hl => exact h3 pe (by have := lCmp_eq; have := lNot_eq; omega)
  | .cmp op l r => by
    obtain ⟨tk, tl, h1, h2, h3⟩ := toks_head l
    refine ⟨tk, tl ++ (op.syms.map .sym ++ toks r), by rw [toks_cmp, h1]; rfl, h2, fun hp _ => ?_⟩
    cases hp with
    | cmp pl _ hl _ => exact h3 pl (by have := lCmp_eq; have := lNot_eq; omega)
  | .range n l lo hi => by
    obtain ⟨tk, tl, h1, h2, h3⟩ := toks_head l
    refine ⟨tk, tl ++ ((if n then [.sym .not_] else []) ++ .sym .between :: (toks lo ++ .sym .and_ :: toks hi)),
      by rw [toks_range, h1]; rfl, h2, fun hp _ => ?_⟩
    cases hp with
    | range pl _ _ hl _ _ => exact h3 pl (by have := lCmp_eq; have := lNot_eq; omega)
  | .bin o l r => by
    obtain ⟨tk, tl, h1, h2, h3⟩ := toks_head l
    refine ⟨tk, tl ++ .sym o.sym :: toks r, by rw [toks_bin, h1]; rfl, h2, fun hp _ => ?_⟩
    cases hp with
    | bin pl _ hl _ => exact h3 pl (by have := (binop_level_range o).1; have := lNot_eq; omega)

/-! ## the levels -/

theorem lem_A_of_B {t : Expr} {M : Nat} (hB : BStmt t M) : AtLevel t M := by
  intro hle rest hst
  have hstop : Parses (.rest M t) rest (t, rest) 1 :=
    R_rest_stop M t rest (fun s hs => bin2At_none_of_cont (hst s hs))
  obtain ⟨b, hb, hP⟩ := hB hle rest (t, rest) 1 (hst.mono (Nat.le_succ _)) hstop
  exact ⟨1 + b, by omega, hP⟩

theorem lem_B (t : Expr) (M : Nat) (hg : Generic M) (hM : lOr ≤ M)
    (ih : ∀ t', sizeOf t' < sizeOf t → Producible t' → All t') (hp : Producible t)
    (hA : M < lv t → AtLevel t (M + 1)) : BStmt t M := by
  intro hle rest res b' hst hrest
  by_cases hlt : M < lv t
  · obtain ⟨b, hb, hP⟩ := hA hlt (by omega) rest hst
    refine ⟨b, by omega, ?_⟩
    exact (R_lvl_generic hg hP hrest).mono (by have := hP.pos; have := hrest.pos; omega)
  · have heq : lv t = M := by omega
    obtain ⟨bb, l, r, rfl, hbl⟩ := generic_lv_cases hg heq
    obtain ⟨pl, pr, hl, hr⟩ := producible_mk_inv hp
    have Al := ih l (sizeOf_mk_left bb l r) pl
    have Ar := ih r (sizeOf_mk_right bb l r) pr
    have hMu : M + 1 ≤ lUnary := hg.2.2
    obtain ⟨br, hbr, hPr⟩ := Ar.A (M + 1) (by omega) hMu (by omega) rest hst
    have hb2 : bin2At M bb.sym = some bb := by rw [← hbl]; exact bin2At_self bb
    have h2 := R_rest_go (lhs := l) hb2 hPr hrest
    obtain ⟨bl, hbl', hPl⟩ := Al.B M hg hM (by omega) (.sym bb.sym :: (toks r ++ rest)) res _
      (stops_sym (by rw [contLevel_bin2]; omega)) h2
    refine ⟨br + 1 + bl, ?_, ?_⟩
    · rw [tlen_mk, fuelK_eq] at *; omega
    · rw [toks_mk, List.append_assoc, List.cons_append]
      exact hPl.mono (by omega)

theorem stops_cmp_syms (op : CmpOp) (x : List Tok) : Stops (lCmp + 1) (op.syms.map .sym ++ x) := by
  cases op <;> exact stops_sym (by decide)

theorem lem_A_of_I {t : Expr} (hI : IsStmt t) : AtLevel t lCmp := by
  intro hle rest hst
  have hne : rest.head? ≠ some (.sym .is_) := by
    intro h; exact absurd (hst _ h) (by decide)
  obtain ⟨b, hb, hP⟩ := hI hle rest (t, rest) 1 (stopsC_of_stops hst) (R_isLoop_stop t rest hne)
  exact ⟨1 + b, by omega, hP⟩

theorem lem_I (t : Expr)
    (ih : ∀ t', sizeOf t' < sizeOf t → Producible t' → All t') (hp : Producible t)
    (hA : lCmp < lv t → AtLevel t (lCmp + 1)) : IsStmt t := by
  intro hle rest res b' hst hloop
  have e7 := lCmp_eq; have e14 := lUnary_eq; have e3 := lOr_eq
  by_cases hlt : lCmp < lv t
  · obtain ⟨b, hb, hP⟩ := hA hlt (by omega) rest hst.stops
    refine ⟨b, by omega, ?_⟩
    exact (R_cmp (b2 := 0) hP (fun n _ => cmpTail_stop _ _ _ hst) hloop).mono
      (by have := hP.pos; have := hloop.pos; omega)
  · have heq : lv t = lCmp := by omega
    cases t with
    | is op e =>
      cases hp with
      | is pe hl =>
        have Ae := ih e (by simp; omega) pe
        obtain ⟨be, hbe, hPe⟩ := Ae.I hl (.sym .is_ :: (op.syms.map .sym ++ rest)) res _ (stopsC_is _)
          (R_isLoop_go hloop)
        refine ⟨1 + be, ?_, ?_⟩
        · have : tlen (.is op e) = tlen e + 1 + op.syms.length := by simp [tlen, toks_is]; omega
          rw [this, fuelK_eq] at *; omega
        · rw [toks_is, List.append_assoc, List.cons_append]
          exact hPe.mono (by omega)
    | cmp op l r =>
      cases hp with
      | cmp pl pr hl hr =>
        have Al := ih l (by simp; omega) pl
        have Ar := ih r (by simp; omega) pr
        obtain ⟨bl, hbl, hPl⟩ := Al.A (lCmp + 1) (by omega) (by omega) hl (op.syms.map .sym ++ (toks r ++ rest))
          (stops_cmp_syms op _)
        obtain ⟨br, hbr, hPr⟩ := Ar.A (lCmp + 1) (by omega) (by omega) hr rest hst.stops
        refine ⟨bl + br, ?_, ?_⟩
        · have : tlen (.cmp op l r) = tlen l + op.syms.length + tlen r := by simp [tlen, toks_cmp]; omega
          rw [this, fuelK_eq] at *; omega
        · rw [toks_cmp, List.append_assoc, List.append_assoc]
          exact (R_cmp hPl (fun n hn => cmpTail_cmp _ op l r _ _ (hPr n hn)) hloop).mono
            (by have := hPl.pos; have := hPr.pos; have := hloop.pos; omega)
    | range neg l lo hi =>
      cases hp with
      | range pl plo phi hl hlo hhi =>
        have Al := ih l (by simp; omega) pl
        have Alo := ih lo (by simp; omega) plo
        have Ahi := ih hi (by simp; omega) phi
        obtain ⟨bl, hbl, hPl⟩ := Al.A (lCmp + 1) (by omega) (by omega) hl
          ((if neg then [.sym .not_] else []) ++ .sym .between :: (toks lo ++ .sym .and_ :: (toks hi ++ rest)))
          (by cases neg <;> exact stops_sym (by decide))
        obtain ⟨blo, hblo, hPlo⟩ := Alo.A (lCmp + 1) (by omega) (by omega) hlo (.sym .and_ :: (toks hi ++ rest))
          (stops_sym (by decide))
        obtain ⟨bhi, hbhi, hPhi⟩ := Ahi.A (lCmp + 1) (by omega) (by omega) hhi rest hst.stops
        refine ⟨bl + blo + bhi, ?_, ?_⟩
        · have : tlen (.range neg l lo hi) = tlen l + (if neg then 1 else 0) + 1 + tlen lo + 1 + tlen hi := by
            cases neg <;> simp [tlen, toks_range] <;> omega
          rw [this, fuelK_eq] at *; omega
        · have e : toks (.range neg l lo hi) ++ rest = toks l ++ ((if neg then [.sym .not_] else []) ++
              .sym .between :: (toks lo ++ .sym .and_ :: (toks hi ++ rest))) := by
            rw [toks_range]; simp
          rw [e]
          exact (R_cmp (b2 := max blo bhi) hPl
            (fun n hn => cmpTail_range _ neg l lo hi _ _ _ (hPlo n (by omega)) (hPhi n (by omega))) hloop).mono
            (by have := hPl.pos; have := hPlo.pos; have := hPhi.pos; have := hloop.pos; omega)
    | or l r => simp only [lv] at heq; omega
    | and l r => simp only [lv] at heq; have := lAnd_eq; omega
    | not e => simp only [lv] at heq; have := lNot_eq; omega
    | bin o l r => simp only [lv] at heq; have := binop_level_range o; omega
    | val ty v => simp only [lv] at heq; omega
    | null => simp only [lv] at heq; omega
    | bool b => simp only [lv] at heq; omega
    | col n => simp only [lv] at heq; omega
    | func n a => simp only [lv] at heq; omega
    | paren e => simp only [lv] at heq; omega
    | un o e => simp only [lv] at heq; omega

theorem lem_A_not (t : Expr)
    (ih : ∀ t', sizeOf t' < sizeOf t → Producible t' → All t') (hp : Producible t)
    (hA : lNot < lv t → AtLevel t (lNot + 1)) : AtLevel t lNot := by
  intro hle rest hst
  have e5 := lNot_eq; have e14 := lUnary_eq; have e3 := lOr_eq; have e7 := lCmp_eq; have e4 := lAnd_eq
  by_cases hlt : lNot < lv t
  · obtain ⟨b, hb, hP⟩ := hA hlt (by omega) rest (hst.mono (Nat.le_succ _))
    obtain ⟨tk, tl, h1, _, h3⟩ := toks_head t
    have hh : (toks t ++ rest).head? ≠ some (.sym .not_) := by
      rw [h1]; simp; exact h3 hp hlt
    exact ⟨b + 1, by omega, R_not_pass hh hP⟩
  · have heq : lv t = lNot := by omega
    cases t with
    | not e =>
      cases hp with
      | not pe hl =>
        have Ae := ih e (by simp) pe
        obtain ⟨be, hbe, hPe⟩ := Ae.A lNot (by omega) (by omega) hl rest hst
        refine ⟨be + 1, ?_, ?_⟩
        · have : tlen (.not e) = tlen e + 1 := by simp [tlen, toks_not]
          rw [this, fuelK_eq] at *; omega
        · rw [toks_not]; exact R_not hPe
    | or l r => simp only [lv] at heq; omega
    | and l r => simp only [lv] at heq; omega
    | is op e => simp only [lv] at heq; omega
    | cmp op l r => simp only [lv] at heq; omega
    | range n l lo hi => simp only [lv] at heq; omega
    | bin o l r => simp only [lv] at heq; have := binop_level_range o; omega
    | val ty v => simp only [lv] at heq; omega
    | null => simp only [lv] at heq; omega
    | bool b => simp only [lv] at heq; omega
    | col n => simp only [lv] at heq; omega
    | func n a => simp only [lv] at heq; omega
    | paren e => simp only [lv] at heq; omega
    | un o e => simp only [lv] at heq; omega

end AcraModel.Sql.Expr
