import AcraModel.Generated.LogSites
/-!
# Log call sites on the query path (C16)

`Generated/LogSites.lean` lists every logging call of the packages a client statement travels through (both proxies,
query observers, response processors, AcraCensor, the parser, acra-server's session function): the message as a
pattern, the identifiers the arguments mention, every `strconv` conversion with the fate of its error, and the
direct calls of `pg_query.Parse`.

This file holds what is written by hand about those tables:

* the matcher that tells which call sites can have produced a captured entry (`sitesOf`) – the harness asks it for
  every entry a real session produced, an entry no site explains is reported;
* the **taint classification**: the names under which the code holds statement text, literals, bound values and
  column values (`valueIdents`), the few places where such a name holds something else (`exemptions`), and the
  conversions whose input is configuration or a placeholder name, not a value (`nonValueConversions`).
-/
namespace AcraModel.Sql.LogSites
open AcraModel.Generated.LogSites

/-! ## which site printed a message -/

/-- `m` with the prefix `p` removed -/
def dropPrefix? : List Char → List Char → Option (List Char)
  | m, [] => some m
  | [], _ :: _ => none
  | c :: m, d :: p => if c == d then dropPrefix? m p else none

/-- what follows the first occurrence of `p` in `m` -/
def afterFirst (p : List Char) : List Char → Option (List Char)
  | [] => if p.isEmpty then some [] else none
  | c :: m =>
    match dropPrefix? (c :: m) p with
    | some r => some r
    | none => afterFirst p m

/-- the pieces after the first: each found in order, the last one at the very end -/
def matchRest : List (List Char) → List Char → Bool
  | [], m => m.isEmpty
  | [last], m => last.isSuffixOf m
  | p :: q :: rest, m =>
    match afterFirst p m with
    | some r => matchRest (q :: rest) r
    | none => false

/-- does the message fit the pattern (constant pieces, anything in between)? One piece = the message itself. -/
def matchPieces (pieces : List String) (msg : String) : Bool :=
  match pieces.map String.toList with
  | [] => false
  | [p] => msg.toList == p
  | p :: rest =>
    match dropPrefix? msg.toList p with
    | some r => matchRest rest r
    | none => false

/-- `p` is a prefix of `s` (on characters, so that the kernel can evaluate it) -/
def hasPrefix (s p : String) : Bool := (dropPrefix? s.toList p.toList).isSome

/-- logrus level name of a printing method (`Print…` logs at info level) -/
def levelOf (method : String) : String :=
  if hasPrefix method "Debug" then "debug"
  else if hasPrefix method "Info" || hasPrefix method "Print" then "info"
  else if hasPrefix method "Warn" then "warning"
  else if hasPrefix method "Error" then "error"
  else if hasPrefix method "Trace" then "trace"
  else if hasPrefix method "Fatal" then "fatal"
  else if hasPrefix method "Panic" then "panic"
  else "?"

/-- a pattern without any constant text would explain every message -/
def isOpaque (pieces : List String) : Bool := pieces.all (· == "")

/-- the call sites (file, function) that can have printed `msg` at `level` -/
def sitesOf (level msg : String) : List (String × String) :=
  (logSites.filter fun s => levelOf s.2.2.1 == level && !isOpaque s.2.2.2 && matchPieces s.2.2.2 msg).map fun s => (s.1, s.2.1)

/-! ## taint classification -/

/-- names under which the code on the query path holds the text of a client statement (raw or merely normalised),
a literal, a bound parameter value or a column value -/
def valueIdents : List String :=
  ["sql", "query", "rawQuery", "sqlQuery", "normalizedQuery", "normalizedQ", "sqlStripped", "blob", "Query",
   "QueryString", "GetSQLQuery", "simpleQueryPacket", "preparedQueryText", "parsePacket",
   "data", "Data", "GetData", "newData", "newValueData", "strValue", "rawData", "decrypted", "plaintext",
   "value", "values", "Val", "Sval", "GetSval", "text", "literal", "param", "params", "parameters", "boundValue",
   "column", "columnData", "row", "fieldValue", "packetData", "payload", "Dump"]

/-- places where one of those names holds something harmless: (file, function, identifier, what it is) -/
def exemptions : List (String × String × String × String) :=
  [("hmac/decryptor/mysql/hashQuery.go", "HashQuery.OnBind", "value", "the placeholder node of the statement (`?`, `:v1`), not a value"),
   ("hmac/decryptor/mysql/hashQuery.go", "HashQuery.OnBind", "Val", "the placeholder's own text"),
   ("pseudonymization/mysql_tokenize_query.go", "MySQLTokenizeQuery.OnBind", "value", "the placeholder node of the statement"),
   ("pseudonymization/mysql_tokenize_query.go", "MySQLTokenizeQuery.OnBind", "Val", "the placeholder's own text"),
   ("encryptor/mysql/queryDataEncryptor.go", "QueryDataEncryptor.updatePlaceholderMap", "text", "the placeholder's own text"),
   ("encryptor/mysql/utils.go", "ParsePlaceholderIndex", "text", "the placeholder's own text")]

/-- outcomes of a conversion's error that can carry it to a log call -/
def escaping (use : String) : Bool := use == "returned" || use == "logged" || use == "logged+returned" || use == "other"

/-- conversions whose input is not a value of a statement or column: configuration (default values, versions),
a placeholder's number, or code no proxy calls -/
def nonValueConversions : List (String × String × String) :=
  [("decryptor/postgresql/types/int4.go", "Int4DataTypeEncoder.encodeDefault", "default_data_value of the encryptor configuration"),
   ("decryptor/postgresql/types/int4.go", "Int4DataTypeEncoder.ValidateDefaultValue", "default_data_value of the encryptor configuration"),
   ("decryptor/postgresql/types/int8.go", "Int8DataTypeEncoder.encodeDefault", "default_data_value of the encryptor configuration"),
   ("decryptor/postgresql/types/int8.go", "Int8DataTypeEncoder.ValidateDefaultValue", "default_data_value of the encryptor configuration"),
   ("decryptor/mysql/types/long.go", "LongDataTypeEncoder.encodeDefault", "default_data_value of the encryptor configuration"),
   ("decryptor/mysql/types/long.go", "LongDataTypeEncoder.ValidateDefaultValue", "default_data_value of the encryptor configuration"),
   ("decryptor/mysql/types/long_long.go", "LongLongDataTypeEncoder.encodeDefault", "default_data_value of the encryptor configuration"),
   ("decryptor/mysql/types/long_long.go", "LongLongDataTypeEncoder.ValidateDefaultValue", "default_data_value of the encryptor configuration"),
   ("encryptor/mysql/queryDataEncryptor.go", "QueryDataEncryptor.updatePlaceholderMap", "number of a placeholder (`:v1`, `$1`)"),
   ("encryptor/mysql/utils.go", "ParsePlaceholderIndex", "number of a placeholder (`:v1`, `$1`)"),
   ("sqlparser/analyzer.go", "ExtractSetValues", "not called by Acra (left over from the parser's origin)"),
   ("sqlparser/ast.go", "NewDollarExpr", "number of a `$n` placeholder; the error goes to the parser, which reports a syntax error"),
   ("utils/version.go", "Version.MajorAsFloat64", "version string of the configuration"),
   ("utils/version.go", "Version.MinorAsFloat64", "version string of the configuration"),
   ("utils/version.go", "Version.PatchAsFloat64", "version string of the configuration"),
   ("utils/version.go", "ParseVersion", "version string of the configuration")]

end AcraModel.Sql.LogSites
