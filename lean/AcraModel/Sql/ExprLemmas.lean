import AcraModel.Sql.Expr
/-!
# Lemmas about the expression fragment (C13): tokens of printed trees, one-step rules of the parser

The property theorems are in `Props/C13.lean`; `ExprRoundTrip.lean` has the main induction.
-/
namespace AcraModel.Sql.Expr
open AcraModel

/-! ## the levels of the regenerated table that the proofs use -/

theorem lOr_eq : lOr = 3 := by decide
theorem lAnd_eq : lAnd = 4 := by decide
theorem lNot_eq : lNot = 5 := by decide
theorem lCmp_eq : lCmp = 7 := by decide
theorem lUnary_eq : lUnary = 14 := by decide

theorem binop_level_range (o : BinOp) : 8 ≤ o.level ∧ o.level ≤ 13 := by cases o <;> decide

theorem binop_sym_binop (o : BinOp) : o.sym.binop = some o := by cases o <;> decide

theorem bin2_sym (b : Bin2) : b.sym.bin2 = some b := by
  cases b with
  | or => decide
  | and => decide
  | bin o => cases o <;> decide

theorem bin2At_self (b : Bin2) : bin2At b.level b.sym = some b := by
  unfold bin2At; rw [bin2_sym]; simp

theorem bin2_level_range (b : Bin2) : 3 ≤ b.level ∧ b.level ≤ 13 ∧ b.level ≠ 5 ∧ b.level ≠ 7 ∧ b.level ≠ 6 := by
  cases b with
  | or => decide
  | and => decide
  | bin o => cases o <;> decide

/-- the level at which a token continues an expression that is complete so far (0: it does not) -/
def contLevel (s : Sym) : Nat :=
  if s = .lp then lUnary
  else if s = .is_ ∨ s = .not_ ∨ s = .between ∨ s.cmpop.isSome then lCmp
  else match s.bin2 with
    | some b => b.level
    | none => 0

/-- the next token does not continue an expression at level `L` or above -/
def Stops (L : Nat) (rest : List Tok) : Prop := ∀ s, rest.head? = some (.sym s) → contLevel s < L

/-- the next token neither starts the tail of a condition nor continues a `value_expression` -/
def StopsC (rest : List Tok) : Prop :=
  ∀ s, rest.head? = some (.sym s) → contLevel s ≤ lCmp ∧ s ≠ .not_ ∧ s ≠ .between ∧ s.cmpop = none

theorem Stops.mono {L L' : Nat} {rest : List Tok} (h : Stops L rest) (hle : L ≤ L') : Stops L' rest :=
  fun s hs => Nat.lt_of_lt_of_le (h s hs) hle

theorem stops_nil (L : Nat) : Stops L [] := fun _ h => by simp at h
theorem stops_lit (L : Nat) (ty v r) : Stops L (.lit ty v :: r) := fun _ h => by simp at h
theorem stops_rp (L : Nat) (hL : 1 ≤ L) (r) : Stops L (.sym .rp :: r) := by
  intro s h; simp at h; subst h; exact Nat.lt_of_lt_of_le (by decide) hL
theorem stops_comma (L : Nat) (hL : 1 ≤ L) (r) : Stops L (.sym .comma :: r) := by
  intro s h; simp at h; subst h; exact Nat.lt_of_lt_of_le (by decide) hL

theorem stops_sym {L : Nat} {s : Sym} {r : List Tok} (h : contLevel s < L) : Stops L (.sym s :: r) := by
  intro s' hs; simp at hs; subst hs; exact h

theorem contLevel_bin2 (b : Bin2) : contLevel b.sym = b.level := by
  cases b with
  | or => decide
  | and => decide
  | bin o => cases o <;> decide

theorem stopsC_of_stops {rest : List Tok} (h : Stops lCmp rest) : StopsC rest := by
  intro s hs
  have := h s hs
  refine ⟨Nat.le_of_lt this, ?_, ?_, ?_⟩
  · intro e; subst e; exact absurd this (by decide)
  · intro e; subst e; exact absurd this (by decide)
  · revert this; cases s <;> decide

theorem stopsC_is (r : List Tok) : StopsC (.sym .is_ :: r) := by
  intro s hs; simp at hs; subst hs; decide

theorem StopsC.stops {rest : List Tok} (h : StopsC rest) : Stops (lCmp + 1) rest :=
  fun s hs => Nat.lt_succ_of_le (h s hs).1

/-! ## tokens of printed trees -/

theorem tokens_append (a b : List Lex) : tokens (a ++ b) = tokens a ++ tokens b := by
  simp [tokens, List.flatMap_append]

theorem tokens_cons (a : Lex) (b : List Lex) : tokens (a :: b) = lexToks a ++ tokens b := by
  simp [tokens, tokens.lexTok]

@[simp] theorem tokens_nil : tokens [] = [] := rfl

theorem tokens_symsLex (ss : List Sym) : tokens (symsLex ss) = ss.map .sym := by
  induction ss with
  | nil => rfl
  | cons s ss ih =>
    cases ss with
    | nil => simp [symsLex, tokens_cons, lexToks]
    | cons s' ss' =>
      rw [symsLex, tokens_cons, tokens_cons, ih]
      · simp [lexToks]
      · simp

/-- the tokens of the printed tree -/
def toks (t : Expr) : List Tok := tokens (format t)
def toksArgs (as : List Expr) : List Tok := tokens (formatArgs as)
def tlen (t : Expr) : Nat := (toks t).length

theorem toks_val (ty : Nat) (v : Bytes) :
    toks (.val ty v) =
      match v with
      | c :: w => if rawTy ty && c == minusByte then [.sym .minus, .lit ty w] else [.lit ty v]
      | [] => [.lit ty v] := by
  cases v <;> simp [toks, format, tokens_cons, lexToks]

theorem toks_null : toks .null = [.sym .null] := by simp [toks, format, tokens_cons, lexToks]
theorem toks_bool (b : Bool) : toks (.bool b) = [.sym (if b then .true_ else .false_)] := by
  simp [toks, format, tokens_cons, lexToks]
theorem toks_col (n : Bytes) : toks (.col n) = [.id n] := by simp [toks, format, tokens_cons, lexToks]
theorem toks_paren (e : Expr) : toks (.paren e) = .sym .lp :: (toks e ++ [.sym .rp]) := by
  simp [toks, format, tokens_cons, tokens_append, lexToks]
theorem toks_func (n : Bytes) (as : List Expr) :
    toks (.func n as) = .id n :: .sym .lp :: (toksArgs as ++ [.sym .rp]) := by
  simp [toks, toksArgs, format, tokens_cons, tokens_append, lexToks]
theorem toks_and (l r : Expr) : toks (.and l r) = toks l ++ .sym .and_ :: toks r := by
  simp [toks, format, tokens_cons, tokens_append, lexToks]
theorem toks_or (l r : Expr) : toks (.or l r) = toks l ++ .sym .or_ :: toks r := by
  simp [toks, format, tokens_cons, tokens_append, lexToks]
theorem toks_bin (o : BinOp) (l r : Expr) : toks (.bin o l r) = toks l ++ .sym o.sym :: toks r := by
  simp [toks, format, tokens_cons, tokens_append, lexToks]
theorem toks_not (e : Expr) : toks (.not e) = .sym .not_ :: toks e := by
  simp [toks, format, tokens_cons, tokens_append, lexToks]
theorem toks_is (op : IsOp) (e : Expr) : toks (.is op e) = toks e ++ .sym .is_ :: op.syms.map .sym := by
  simp [toks, format, tokens_cons, tokens_append, lexToks, tokens_symsLex]
theorem toks_cmp (op : CmpOp) (l r : Expr) : toks (.cmp op l r) = toks l ++ (op.syms.map .sym ++ toks r) := by
  simp [toks, format, tokens_cons, tokens_append, lexToks, tokens_symsLex]
theorem toks_range (neg : Bool) (l lo hi : Expr) :
    toks (.range neg l lo hi) =
      toks l ++ ((if neg then [.sym .not_] else []) ++ .sym .between :: (toks lo ++ .sym .and_ :: toks hi)) := by
  cases neg <;> simp [toks, format, tokens_cons, tokens_append, lexToks]
theorem toks_un (op : UnOp) (e : Expr) : toks (.un op e) = .sym op.sym :: toks e := by
  cases op <;> cases h : e.isUn <;>
    simp [toks, format, UnOp.lex, tokens_cons, tokens_append, lexToks, h]

theorem toks_mk (b : Bin2) (l r : Expr) : toks (b.mk l r) = toks l ++ .sym b.sym :: toks r := by
  cases b with
  | or => exact toks_or l r
  | and => exact toks_and l r
  | bin o => exact toks_bin o l r

theorem toksArgs_nil : toksArgs [] = [] := by simp [toksArgs, formatArgs]
theorem toksArgs_one (e : Expr) : toksArgs [e] = toks e := by simp [toksArgs, toks, formatArgs]
theorem toksArgs_cons2 (e e' : Expr) (es : List Expr) :
    toksArgs (e :: e' :: es) = toks e ++ .sym .comma :: toksArgs (e' :: es) := by
  simp [toksArgs, toks, formatArgs, tokens_cons, tokens_append, lexToks]

theorem tlen_pos (t : Expr) : 1 ≤ tlen t := by
  unfold tlen
  cases t with
  | val ty v =>
    rw [toks_val]
    cases v with
    | nil => simp
    | cons c w => dsimp only; split <;> simp
  | null => simp [toks_null]
  | bool b => simp [toks_bool]
  | col n => simp [toks_col]
  | func n as => simp [toks_func]
  | paren e => simp [toks_paren]
  | and l r => simp [toks_and]; omega
  | or l r => simp [toks_or]; omega
  | not e => simp [toks_not]
  | is op e => simp [toks_is]; omega
  | cmp op l r => rw [toks_cmp]; cases op <;> simp [CmpOp.syms] <;> omega
  | range neg l lo hi => simp [toks_range]; omega
  | bin o l r => simp [toks_bin]; omega
  | un o e => simp [toks_un]

/-! ## the parser, one step at a time -/

/-- from fuel `b` on, the parser in mode `m` reads `ts` with result `r` -/
def Parses (m : Mode) (ts : List Tok) (r : PRes) (b : Nat) : Prop := ∀ n, b ≤ n → parse n m ts = some r

theorem Parses.mono {m ts r b b'} (h : Parses m ts r b) (hle : b ≤ b') : Parses m ts r b' :=
  fun n hn => h n (Nat.le_trans hle hn)

theorem Parses.pos {m ts r b} (h : Parses m ts r b) : 1 ≤ b := by
  cases b with
  | zero => have := h 0 (Nat.le_refl _); simp [parse] at this
  | succ k => omega

theorem parses_of_step {m ts r b} (h : ∀ n, b ≤ n → step (parse n) m ts = some r) : Parses m ts r (b + 1) := by
  intro n hn
  cases n with
  | zero => omega
  | succ k => exact h k (by omega)

theorem R_rest_stop (L : Nat) (lhs : Expr) (ts : List Tok)
    (h : ∀ s, ts.head? = some (.sym s) → bin2At L s = none) : Parses (.rest L lhs) ts (lhs, ts) 1 := by
  apply parses_of_step (b := 0)
  intro n _
  cases ts with
  | nil => simp [step]
  | cons t ts' =>
    cases t with
    | sym s => simp [step, h s rfl]
    | lit ty v => simp [step]
    | id nm => simp [step]

theorem R_rest_go {L : Nat} {lhs : Expr} {s : Sym} {b : Bin2} {ts' r1 : List Tok} {r : Expr} {res : PRes} {b1 b2 : Nat}
    (hb : bin2At L s = some b) (h1 : Parses (.lvl (L + 1)) ts' (r, r1) b1)
    (h2 : Parses (.rest L (b.mk lhs r)) r1 res b2) : Parses (.rest L lhs) (.sym s :: ts') res (max b1 b2 + 1) := by
  apply parses_of_step
  intro n hn
  simp [step, hb, h1 n (by omega), h2 n (by omega)]

/-- levels handled by the generic left-associative loop -/
def Generic (M : Nat) : Prop := M ≠ lNot ∧ M ≠ lCmp ∧ M < lUnary

theorem R_lvl_generic {L : Nat} {ts r1 : List Tok} {l : Expr} {res : PRes} {b1 b2 : Nat} (hg : Generic L)
    (h1 : Parses (.lvl (L + 1)) ts (l, r1) b1) (h2 : Parses (.rest L l) r1 res b2) :
    Parses (.lvl L) ts res (max b1 b2 + 1) := by
  apply parses_of_step
  intro n hn
  obtain ⟨g1, g2, g3⟩ := hg
  simp [step, g1, g2, Nat.not_le.mpr g3, h1 n (by omega), h2 n (by omega)]

theorem R_not {ts' r : List Tok} {e : Expr} {b : Nat} (h : Parses (.lvl lNot) ts' (e, r) b) :
    Parses (.lvl lNot) (.sym .not_ :: ts') (.not e, r) (b + 1) := by
  apply parses_of_step
  intro n hn
  simp [step, h n hn]

theorem R_not_pass {ts : List Tok} {res : PRes} {b : Nat} (hh : ts.head? ≠ some (.sym .not_))
    (h : Parses (.lvl (lNot + 1)) ts res b) : Parses (.lvl lNot) ts res (b + 1) := by
  apply parses_of_step
  intro n hn
  have := h n hn
  cases ts with
  | nil => simp [step, this]
  | cons t ts' =>
    cases t with
    | sym s =>
      have hs : s ≠ .not_ := by intro e; subst e; exact hh rfl
      cases s <;> first | exact absurd rfl hs | simp [step, this]
    | lit ty v => simp [step, this]
    | id nm => simp [step, this]

theorem R_cmp {ts r1 r2 : List Tok} {v c : Expr} {res : PRes} {b1 b2 b3 : Nat}
    (h1 : Parses (.lvl (lCmp + 1)) ts (v, r1) b1)
    (h2 : ∀ n, b2 ≤ n → cmpTail (parse n) v r1 = some (c, r2))
    (h3 : Parses (.isLoop c) r2 res b3) : Parses (.lvl lCmp) ts res (max b1 (max b2 b3) + 1) := by
  apply parses_of_step
  intro n hn
  have e1 : lCmp ≠ lNot := by decide
  simp [step, e1, h1 n (by omega), h2 n (by omega), h3 n (by omega)]

theorem R_isLoop_stop (e : Expr) (ts : List Tok) (h : ts.head? ≠ some (.sym .is_)) :
    Parses (.isLoop e) ts (e, ts) 1 := by
  apply parses_of_step (b := 0)
  intro n _
  cases ts with
  | nil => simp [step]
  | cons t ts' =>
    cases t with
    | sym s =>
      have hs : s ≠ .is_ := by intro e; subst e; exact h rfl
      cases s <;> first | exact absurd rfl hs | simp [step]
    | lit ty v => simp [step]
    | id nm => simp [step]

theorem isSuffix_syms (op : IsOp) (r : List Tok) : isSuffix (op.syms.map .sym ++ r) = some (op, r) := by
  cases op <;> rfl

theorem R_isLoop_go {e : Expr} {op : IsOp} {r : List Tok} {res : PRes} {b : Nat}
    (h : Parses (.isLoop (.is op e)) r res b) :
    Parses (.isLoop e) (.sym .is_ :: (op.syms.map .sym ++ r)) res (b + 1) := by
  apply parses_of_step
  intro n hn
  simp [step, isSuffix_syms, h n hn]

theorem R_unary_lvl {L : Nat} (hL : lUnary ≤ L) (p : Mode → List Tok → Option PRes) (ts : List Tok) :
    step p (.lvl L) ts = unaryOrPrim p ts := by
  have h1 : L ≠ lNot := by have := lNot_eq; have := lUnary_eq; omega
  have h2 : L ≠ lCmp := by have := lCmp_eq; have := lUnary_eq; omega
  simp [step, h1, h2, hL]

/-! ## the tail of a condition -/

theorem cmpTail_cmp (p : Mode → List Tok → Option PRes) (op : CmpOp) (l x : Expr) (ts r1 : List Tok)
    (h : p (.lvl (lCmp + 1)) ts = some (x, r1)) :
    cmpTail p l (op.syms.map .sym ++ ts) = some (.cmp op l x, r1) := by
  cases op <;> simp [cmpTail, CmpOp.syms, h, show Sym.cmpop .eq = some .eq by decide,
    show Sym.cmpop .lt = some .lt by decide, show Sym.cmpop .gt = some .gt by decide,
    show Sym.cmpop .le = some .le by decide, show Sym.cmpop .ge = some .ge by decide,
    show Sym.cmpop .ne = some .ne by decide, show Sym.cmpop .nse = some .nse by decide,
    show Sym.cmpop .like = some .like by decide, show Sym.cmpop .regexp = some .regexp by decide]

theorem rangeTail_ok (p : Mode → List Tok → Option PRes) (neg : Bool) (l lo hi : Expr) (ts r2 r3 : List Tok)
    (h1 : p (.lvl (lCmp + 1)) ts = some (lo, .sym .and_ :: r2))
    (h2 : p (.lvl (lCmp + 1)) r2 = some (hi, r3)) :
    rangeTail p neg l ts = some (.range neg l lo hi, r3) := by
  simp [rangeTail, h1, h2]

theorem cmpTail_range (p : Mode → List Tok → Option PRes) (neg : Bool) (l lo hi : Expr) (ts r2 r3 : List Tok)
    (h1 : p (.lvl (lCmp + 1)) ts = some (lo, .sym .and_ :: r2))
    (h2 : p (.lvl (lCmp + 1)) r2 = some (hi, r3)) :
    cmpTail p l ((if neg then [.sym .not_] else []) ++ .sym .between :: ts) = some (.range neg l lo hi, r3) := by
  cases neg <;> simp [cmpTail, rangeTail_ok p _ l lo hi ts r2 r3 h1 h2]

theorem cmpTail_stop (p : Mode → List Tok → Option PRes) (v : Expr) (ts : List Tok) (h : StopsC ts) :
    cmpTail p v ts = some (v, ts) := by
  cases ts with
  | nil => simp [cmpTail]
  | cons t ts' =>
    cases t with
    | sym s =>
      obtain ⟨_, h1, h2, h3⟩ := h s rfl
      simp [cmpTail, h1, h2, h3]
    | lit ty v => simp [cmpTail]
    | id nm => simp [cmpTail]

end AcraModel.Sql.Expr
