import AcraModel.Sql.Tree
/-!
# Which numeric literals `sqltypes.NewValue` accepts (driver only)

`NewValue(Int64, v)` is `strconv.ParseInt(v, 0, 64)` succeeding, `NewValue(Float64, v)` is
`strconv.ParseFloat(v, 64)` succeeding, on the token shapes the tokenizer can produce
(`-?[0-9]+`; digits with an optional point and an optional exponent whose digits may be missing).
Executable only – the theorems hold for every validator.
-/
namespace AcraModel.Sql.GoNum
open AcraModel

def isDigit (c : UInt8) : Bool := 48 ≤ c.toNat && c.toNat ≤ 57

def digitsToNat (base : Nat) (ds : Bytes) : Nat := ds.foldl (fun a c => a * base + (c.toNat - 48)) 0

/-- `strconv.ParseInt(s, 0, 64)` accepts `s` (only decimal digits and a leading sign can occur) -/
def parseIntOk (s : Bytes) : Bool :=
  let (neg, ds) := match s with
    | 45 :: r => (true, r)
    | 43 :: r => (false, r)
    | r => (false, r)
  if ds.isEmpty || !ds.all isDigit then false else
  let limit := if neg then 2^63 else 2^63 - 1
  match ds with
  | 48 :: rest => rest.all (fun c => c.toNat ≤ 55) && digitsToNat 8 rest ≤ limit   -- leading 0: octal
  | _ => digitsToNat 10 ds ≤ limit

/-- `strconv.ParseFloat(s, 64)` accepts `s`: well-formed and not rounding to ±Inf -/
def parseFloatOk (s : Bytes) : Bool :=
  let s := match s with
    | 45 :: r => r
    | 43 :: r => r
    | r => r
  let intPart := s.takeWhile isDigit
  let r1 := s.dropWhile isDigit
  let (frac, r2) := match r1 with
    | 46 :: r => (r.takeWhile isDigit, r.dropWhile isDigit)
    | r => ([], r)
  if intPart.isEmpty && frac.isEmpty then false else
  let (expOk, eNeg, eDigits, rest) := match r2 with
    | c :: r =>
      if c == 101 || c == 69 then
        let (neg, r') := match r with
          | 45 :: q => (true, q)
          | 43 :: q => (false, q)
          | q => (false, q)
        let ds := r'.takeWhile isDigit
        (!ds.isEmpty, neg, ds, r'.dropWhile isDigit)
      else (true, false, [], c :: r)
    | [] => (true, false, [], [])
  if !expOk || !rest.isEmpty then false else
  let d := digitsToNat 10 (intPart ++ frac)
  if d == 0 then true else
  -- exponent digits saturate at 10000 as in strconv.readFloat
  let e := eDigits.foldl (fun a c => if a < 10000 then a * 10 + (c.toNat - 48) else a) 0
  let thr := 2^1024 - 2^970
  if eNeg then d ≥ thr * 10 ^ (e + frac.length) |> not
  else if e ≥ frac.length then !(d * 10 ^ (e - frac.length) ≥ thr)
  else !(d ≥ thr * 10 ^ (frac.length - e))

/-- `sqltypes.NewValue(typ, val)` succeeds (`IsQuoted` types always do) -/
def goValid : Validator := fun bindType v =>
  if bindType == "Int64" then parseIntOk v
  else if bindType == "Float64" then parseFloatOk v
  else true

end AcraModel.Sql.GoNum
