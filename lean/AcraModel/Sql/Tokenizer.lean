import AcraModel.Basic.Bytes
import AcraModel.Generated.SqlToken
import AcraModel.Sql.Literal
import AcraModel.Wire.Bytea
/-!
# The SQL tokenizer (`sqlparser/token.go`) – model for C14

`Tokenizer.Scan` and everything it calls, for the in-memory tokenizer that `ParseWithDialect` /
`sqlparser.New(mode).Parse` build with `NewStringTokenizerWithDialect` (`InStream == nil`; the reader-backed
mode of `NewTokenizer` is used by nothing outside the package's tests and is not modelled).

## Representation

Go keeps `lastChar` (a `uint16`, `eofChar = 0x100` after the last byte), `bufPos` and `Position`. In the
in-memory mode `Position` determines the other two: `Position = 0` is the fresh tokenizer (`lastChar = 0`),
`Position = k` with `1 ≤ k ≤ len(buf)` means `lastChar = buf[k-1]`, `Position = len(buf)+1` means
`lastChar = eofChar` (`next()` increments `Position` exactly when it moves, and `scanString`'s scan-ahead
adds the bytes it skips). The scanners below work on the SUFFIX of the buffer that starts at `lastChar`
(`[]` = `lastChar == eofChar`); `tkn.next()` is `List.tail`. This is sound because `eofChar` is no byte
value and no character class contains it (`Props/C14`: `fact_tok_eof`). The frame level (`Frame`, `scanCore`)
converts between `Position` and suffixes.

Every table is regenerated from the source (`Generated/SqlToken.lean`): character classes, blank characters,
keyword map, token names/ids, `stringTokenType`, the quote handlers of the three dialect variants, the
escape table (`Generated/SqlLiterals.encodeRef`, shared with C13), the constants of `ExtractMysqlComment`
and the Unicode tables behind `unicode.IsDigit` / `unicode.IsSpace`.

## Panics

`consumeNext` panics at end of input, `ExtractMysqlComment` slices three times: these are `Out`-valued
(`consume1`, `goSlice`). `tkn.buf[tkn.bufPos]` / `tkn.buf[start:tkn.bufPos]` in `next()` and `scanString` are
guarded by `bufPos < bufSize = len(buf)`, an invariant of the in-memory mode; they have no counterpart in
the suffix representation. `strings.IndexFunc` / `strings.TrimFunc` are standard library (modelled by contract).

## Termination

Every scanner is structurally recursive on the suffix. `scan` (Go: `Scan` with its nested `specialComment`
tokenizer) recurses on the measure `mu` = bytes left in all live tokenizers; `lex` (the parser's
`Lex` loop that skips comments) and `tokenize` recurse on the same measure – their termination proofs ARE
the progress claim of C14: a `Scan` that returns anything but end-of-input has consumed at least one byte.
-/
namespace AcraModel.Sql.Tokenizer
open AcraModel
namespace G
export AcraModel.Generated.SqlToken (tokenIds keywords stringTokenType eofChar letterChars digitChars digitVals blankChars
  simpleTokens mysqlIdentQuotes mysqlStrQuotes mysqlIdentQuote ansiIdentQuotes ansiStrQuotes ansiIdentQuote pgIdentQuotes
  pgStrQuotes pgIdentQuote versionCommentLo versionCommentHi versionDigitLimit versionOnlyHandled unicodeNd
  unicodeWhiteSpace latin1Spaces latin1Digits)
end G

/-! ## tokens, dialects, character classes -/

/-- token type: `0`, a character (`int(ch)`), or one of the grammar's token constants (by NAME; ids via `G.tokenIds`) -/
inductive TokType where
  | eof
  | char (c : UInt8)
  | named (name : String)
deriving DecidableEq, Repr, Inhabited

structure Token where
  typ : TokType
  val : Bytes
deriving DecidableEq, Repr, Inhabited

def tokNamed (n : String) (v : Bytes) : Token := ⟨.named n, v⟩
def tokChar (c : UInt8) : Token := ⟨.char c, []⟩
def tokEof : Token := ⟨.eof, []⟩

/-- the token names the scanners below spell out (the keyword tokens come from `G.keywords`, the string tokens from
`G.stringTokenType`); `Props/C14.fact_tok_token_ids` checks that each is a constant of `sql.go` -/
def modelTokenNames : List String :=
  ["LEX_ERROR", "ID", "HEX", "BIT_LITERAL", "LIST_ARG", "VALUE_ARG", "FLOAT", "INTEGRAL", "HEXNUM", "DOLLAR_SIGN", "COMMENT",
   "PG_ESCAPE_STRING", "AND", "OR", "NE", "SHIFT_LEFT", "NULL_SAFE_EQUAL", "LE", "GE", "SHIFT_RIGHT",
   "JSON_UNQUOTE_EXTRACT_OP", "JSON_EXTRACT_OP"]

/-- a list of numbers is strictly increasing (hence pairwise different) -/
def strictlyIncreasing : List Nat → Bool
  | a :: b :: r => a < b && strictlyIncreasing (b :: r)
  | _ => true

/-- numeric id of a token type as Go returns it (`none`: a name that is not a constant of `sql.go`) -/
def TokType.id : TokType → Option Nat
  | .eof => some 0
  | .char c => some c.toNat
  | .named n => G.tokenIds.lookup n

/-- what the tokenizer uses of a `dialect.Dialect`: its `QuoteHandler` and `IsPostgreSQL()` -/
structure Dialect where
  identQuotes : List Nat
  strQuotes : List Nat
  identQuote : Nat
  postgres : Bool
deriving Repr

def Dialect.mysql : Dialect := ⟨G.mysqlIdentQuotes, G.mysqlStrQuotes, G.mysqlIdentQuote, false⟩
def Dialect.ansi : Dialect := ⟨G.ansiIdentQuotes, G.ansiStrQuotes, G.ansiIdentQuote, false⟩
def Dialect.postgresql : Dialect := ⟨G.pgIdentQuotes, G.pgStrQuotes, G.pgIdentQuote, true⟩

def isLetter (c : UInt8) : Bool := G.letterChars.contains c.toNat
def isDigit (c : UInt8) : Bool := G.digitChars.contains c.toNat
/-- `digitVal(ch)` for `ch` up to `eofChar` -/
def digitValN (ch : Nat) : Nat := G.digitVals.getD ch 16
def digitVal (c : UInt8) : Nat := digitValN c.toNat
def isBlank (c : UInt8) : Bool := G.blankChars.contains c.toNat
def isIdentQuote (d : Dialect) (c : UInt8) : Bool := d.identQuotes.contains c.toNat
def isStrQuote (d : Dialect) (c : UInt8) : Bool := d.strQuotes.contains c.toNat
/-- `isCarat` -/
def isCarat (d : Dialect) (c : UInt8) : Bool := c == 46 || isIdentQuote d c || isStrQuote d c

/-- `stringTokenType[ch]` – a Go map: a missing key gives 0 -/
def stringTokenTypeOf (c : UInt8) : TokType :=
  match G.stringTokenType.lookup c.toNat with
  | some n => .named n
  | none => .eof

def strBytes (s : String) : Bytes := s.toList.map (fun c => UInt8.ofNat c.toNat)

def keywordTable : List (Bytes × String) := G.keywords.map (fun p => (strBytes p.1, p.2))

/-- `keywords[loweredStr]` -/
def lookupKeyword (b : Bytes) : Option String := keywordTable.lookup b

/-- `bytes.ToLower` on ASCII (identifier characters are ASCII: `fact_tok_ident_ascii`) -/
def lowerByte (c : UInt8) : UInt8 := if 65 ≤ c.toNat ∧ c.toNat ≤ 90 then c + 32 else c

def dualBytes : Bytes := [100, 117, 97, 108]

def headIs (p : UInt8 → Bool) : Bytes → Bool
  | [] => false
  | c :: _ => p c

/-! ## scanners on the suffix -/

/-- `skipBlank` -/
def skipBlank : Bytes → Bytes
  | [] => []
  | c :: t => if isBlank c then skipBlank t else c :: t

/-- `skipStatement` -/
def skipStatement : Bytes → Bytes
  | [] => []
  | c :: t => if c == 59 then c :: t else skipStatement t

/-- `consumeNext`: the byte written to the buffer and the suffix after `next()`; panics at end of input -/
def consume1 : Bytes → Out (Bytes × Bytes)
  | [] => .panic
  | c :: t => .ok ([c], t)

/-- `scanMantissa(base, buffer)`: the digits appended and the suffix left -/
def scanMantissa (base : Nat) : Bytes → Out (Bytes × Bytes)
  | [] => if digitValN G.eofChar < base then .panic else .ok ([], [])
  | c :: t =>
    if digitVal c < base then
      match scanMantissa base t with
      | .ok (ds, r) => .ok (c :: ds, r)
      | .err => .err
      | .panic => .panic
    else .ok ([], c :: t)

/-- `scanIdentifier(firstByte, isDbSystemVariable)`; the suffix starts after the first byte -/
def scanIdentifier (d : Dialect) (first : UInt8) (sysvar : Bool) (s : Bytes) : Token × Bytes :=
  let p := fun c => isLetter c || isDigit c || (sysvar && isCarat d c)
  let buf := first :: s.takeWhile p
  let rest := s.dropWhile p
  let lowered := buf.map lowerByte
  match lookupKeyword lowered with
  | some name => (tokNamed name lowered, rest)
  | none => if lowered == dualBytes then (tokNamed "ID" lowered, rest) else (tokNamed "ID" buf, rest)

/-- `scanHex` (after `X'`) -/
def scanHex (s : Bytes) : Out (Token × Bytes) :=
  match scanMantissa 16 s with
  | .ok (m, r) =>
    (match r with
     | c :: t =>
       if c == 39 then
         if m.length % 2 != 0 then .ok (tokNamed "LEX_ERROR" m, t) else .ok (tokNamed "HEX" m, t)
       else .ok (tokNamed "LEX_ERROR" m, r)
     | [] => .ok (tokNamed "LEX_ERROR" m, []))
  | .err => .err
  | .panic => .panic

/-- `scanBitLiteral` (after `B'`) -/
def scanBitLiteral (s : Bytes) : Out (Token × Bytes) :=
  match scanMantissa 2 s with
  | .ok (m, r) =>
    (match r with
     | c :: t => if c == 39 then .ok (tokNamed "BIT_LITERAL" m, t) else .ok (tokNamed "LEX_ERROR" m, r)
     | [] => .ok (tokNamed "LEX_ERROR" m, []))
  | .err => .err
  | .panic => .panic

/-- the loop of `scanLiteralIdentifier`: `(closing quote seen, bytes written, suffix left)`; `none` = premature EOF.
At end of input Go asks `IsIdentifierQuote(byte(eofChar))` = `IsIdentifierQuote(0)`, which is false
(`fact_tok_nul_no_quote`). -/
def litIdentLoop (d : Dialect) : Bytes → Option UInt8 × Bytes × Bytes
  | [] => (none, [], [])
  | [c] => if isIdentQuote d c then (some c, [], []) else (none, [c], [])
  | c :: c2 :: t =>
    if isIdentQuote d c then
      if isIdentQuote d c2 then
        let (q, b, r) := litIdentLoop d t
        (q, UInt8.ofNat d.identQuote :: b, r)
      else (some c, [], c2 :: t)
    else
      let (q, b, r) := litIdentLoop d (c2 :: t)
      (q, c :: b, r)

/-- `scanLiteralIdentifier` (after the opening quote) -/
def scanLiteralIdentifier (d : Dialect) (s : Bytes) : Token × Bytes :=
  match litIdentLoop d s with
  | (none, b, r) => (tokNamed "LEX_ERROR" b, r)
  | (some q, b, r) =>
    if b.length == 0 then (tokNamed "LEX_ERROR" b, r)
    else if d.postgres then (⟨stringTokenTypeOf q, b⟩, r)
    else (tokNamed "ID" b, r)

/-- `scanBindVar` after the colon(s): `buf` = what is in the buffer -/
def bindVarTail (name : String) (buf t1 : Bytes) : Token × Bytes :=
  if !headIs isLetter t1 then (tokNamed "LEX_ERROR" buf, t1)
  else
    let p := fun c => isLetter c || isDigit c || c == 46
    (tokNamed name (buf ++ t1.takeWhile p), t1.dropWhile p)

/-- `scanBindVar`; the suffix starts at the `:` -/
def scanBindVar : Bytes → Token × Bytes
  | [] => (tokNamed "LEX_ERROR" [0], [])   -- not reached: called with `lastChar == ':'`
  | [c] => bindVarTail "VALUE_ARG" [c] []
  | c :: c2 :: t2 => if c2 == 58 then bindVarTail "LIST_ARG" [c, c2] t2 else bindVarTail "VALUE_ARG" [c] (c2 :: t2)

/-- label `exit:` of `scanNumber` -/
def numberExit (name : String) (buf s : Bytes) : Token × Bytes :=
  if headIs isLetter s then (tokNamed "LEX_ERROR" buf, s) else (tokNamed name buf, s)

/-- label `exponent:` of `scanNumber` -/
def numberExponent (name : String) (buf s : Bytes) : Out (Token × Bytes) :=
  if headIs (fun c => c == 101 || c == 69) s then
    match consume1 s with
    | .ok (b1, s1) =>
      (match (if headIs (fun c => c == 43 || c == 45) s1 then consume1 s1 else .ok ([], s1)) with
       | .ok (b2, s2) =>
         (match scanMantissa 10 s2 with
          | .ok (b3, s3) => .ok (numberExit "FLOAT" (buf ++ b1 ++ b2 ++ b3) s3)
          | .err => .err
          | .panic => .panic)
       | .err => .err
       | .panic => .panic)
    | .err => .err
    | .panic => .panic
  else .ok (numberExit name buf s)

/-- after the `0x` test of `scanNumber`: decimal mantissa, optional fraction, exponent -/
def numberDecimal (buf s : Bytes) : Out (Token × Bytes) :=
  match scanMantissa 10 s with
  | .ok (m, s1) =>
    if headIs (fun c => c == 46) s1 then
      (match consume1 s1 with
       | .ok (b1, s2) =>
         (match scanMantissa 10 s2 with
          | .ok (m2, s3) => numberExponent "FLOAT" (buf ++ m ++ b1 ++ m2) s3
          | .err => .err
          | .panic => .panic)
       | .err => .err
       | .panic => .panic)
    else numberExponent "INTEGRAL" (buf ++ m) s1
  | .err => .err
  | .panic => .panic

/-- `scanNumber(seenDecimalPoint)` -/
def scanNumber (seenDecimalPoint : Bool) (s : Bytes) : Out (Token × Bytes) :=
  if seenDecimalPoint then
    match scanMantissa 10 s with
    | .ok (m, s1) => numberExponent "FLOAT" (46 :: m) s1
    | .err => .err
    | .panic => .panic
  else if headIs (fun c => c == 48) s then
    match consume1 s with
    | .ok (b0, s1) =>
      if headIs (fun c => c == 120 || c == 88) s1 then
        (match consume1 s1 with
         | .ok (b1, s2) =>
           (match scanMantissa 16 s2 with
            | .ok (m, s3) => .ok (numberExit "HEXNUM" (b0 ++ b1 ++ m) s3)
            | .err => .err
            | .panic => .panic)
         | .err => .err
         | .panic => .panic)
      else numberDecimal b0 s1
    | .err => .err
    | .panic => .panic
  else numberDecimal [] s

/-- `scanDollarParameter` (after the `$`) -/
def scanDollarParameter (s : Bytes) : Out (Token × Bytes) :=
  match scanNumber false s with
  | .ok (t, r) => if t.typ = .named "INTEGRAL" then .ok (tokNamed "DOLLAR_SIGN" (36 :: t.val), r) else .ok (tokNamed "LEX_ERROR" [], r)
  | .err => .err
  | .panic => .panic

def consB (c : UInt8) : Bool × Bytes × Bytes → Bool × Bytes × Bytes
  | (ok, v, r) => (ok, c :: v, r)

/-- the loop of `scanString(delim, typ)` on the suffix after the opening quote: `(terminated, buffer, suffix left)`.
`first` = no escape and no doubled delimiter has been met (`index == 0`). The scan-ahead over `tkn.buf` copies
ordinary bytes, which is what the last clause does one byte at a time. -/
def scanStr (delim : UInt8) : Bool → Bytes → Bool × Bytes × Bytes
  | _, [] => (false, [], [])
  | _, [c] =>
    if c == Literal.backslash then (false, [], [])
    else if c == delim then (true, [], [])
    else (false, [c], [])
  | first, c :: e :: rest =>
    if c == Literal.backslash then
      if first && Literal.isX e then consB Literal.backslash (consB e (scanStr delim false rest))
      else consB ((Literal.decodeOf e).getD e) (scanStr delim false rest)
    else if c == delim then
      if e == delim then consB delim (scanStr delim false rest)
      else (true, [], e :: rest)
    else consB c (scanStr delim first (e :: rest))

/-- `scanString(delim, typ)` -/
def scanString (delim : UInt8) (typ : TokType) (s : Bytes) : Token × Bytes :=
  match scanStr delim true s with
  | (true, v, r) => (⟨typ, v⟩, r)
  | (false, v, r) => (tokNamed "LEX_ERROR" v, r)

/-- `scanCommentType1(prefix)`: bytes consumed (through the newline) and suffix left -/
def lineLoop : Bytes → Out (Bytes × Bytes)
  | [] => .ok ([], [])
  | c :: t =>
    if c == 10 then consume1 (c :: t)
    else
      match consume1 (c :: t) with
      | .ok (b, _) =>
        (match lineLoop t with
         | .ok (bs, r) => .ok (b ++ bs, r)
         | .err => .err
         | .panic => .panic)
      | .err => .err
      | .panic => .panic

def scanCommentType1 (pref : Bytes) (s : Bytes) : Out (Token × Bytes) :=
  match lineLoop s with
  | .ok (b, r) => .ok (tokNamed "COMMENT" (pref ++ b), r)
  | .err => .err
  | .panic => .panic

/-- the loop shared by `scanCommentType2` and `scanMySQLSpecificComment`: `(terminated, bytes consumed, suffix left)` -/
def blockLoop : Bytes → Out (Bool × Bytes × Bytes)
  | [] => .ok (false, [], [])
  | c :: t =>
    match consume1 (c :: t) with
    | .ok (b, _) =>
      if c == 42 && headIs (fun x => x == 47) t then
        (match consume1 t with
         | .ok (b2, t2) => .ok (true, b ++ b2, t2)
         | .err => .err
         | .panic => .panic)
      else
        (match blockLoop t with
         | .ok (ok, bs, r) => .ok (ok, b ++ bs, r)
         | .err => .err
         | .panic => .panic)
    | .err => .err
    | .panic => .panic

def scanCommentType2 (s : Bytes) : Out (Token × Bytes) :=
  match blockLoop s with
  | .ok (true, b, r) => .ok (tokNamed "COMMENT" ([47, 42] ++ b), r)
  | .ok (false, b, r) => .ok (tokNamed "LEX_ERROR" ([47, 42] ++ b), r)
  | .err => .err
  | .panic => .panic

/-! ## `ExtractMysqlComment` (comments.go) with the standard-library functions it uses -/

def inRanges (tbl : List (Nat × Nat × Nat)) (r : Nat) : Bool :=
  tbl.any (fun e => e.1 ≤ r && r ≤ e.2.1 && (r - e.1) % e.2.2 == 0)

/-- `unicode.IsDigit` -/
def isDigitRune (r : Nat) : Bool := if r ≤ 255 then G.latin1Digits.contains r else inRanges G.unicodeNd r
/-- `unicode.IsSpace` -/
def isSpaceRune (r : Nat) : Bool := if r ≤ 255 then G.latin1Spaces.contains r else inRanges G.unicodeWhiteSpace r

/-- the `strings.IndexFunc` call of `ExtractMysqlComment`: index of the first rune that is no digit, or of the
`versionDigitLimit`-th rune; `k` = calls of the closure still allowed before `digitCount == limit` -/
def versionEnd : Nat → Bytes → Nat → Option Nat
  | 0, _, _ => none
  | _ + 1, [], _ => none
  | k + 1, b :: r, i =>
    let (c, w) := Wire.Bytea.decodeRune (b :: r)
    if !isDigitRune c || k == 0 then some i else versionEnd k ((b :: r).drop w) (i + w)

/-- `strings.TrimLeftFunc(s, unicode.IsSpace)` -/
def trimLeftSpace (s : Bytes) : Bytes :=
  match s with
  | [] => []
  | b :: r =>
    let (c, w) := Wire.Bytea.decodeRune (b :: r)
    if isSpaceRune c then trimLeftSpace ((b :: r).drop (max w 1)) else b :: r
termination_by s.length
decreasing_by simp only [List.length_drop, List.length_cons]; omega

/-- `utf8.DecodeLastRuneInString` -/
def decodeLastRune (s : Bytes) : Nat × Nat :=
  let e := s.length
  if e == 0 then (Wire.Bytea.runeError, 0)
  else
    let last := (s.getD (e - 1) 0).toNat
    if last < 0x80 then (last, 1)
    else
      let lim := e - 4
      let isStart := fun (i : Nat) => !Wire.Bytea.isCont (s.getD i 0)
      -- for start--; start >= lim; start-- { if RuneStart(s[start]) { break } }; if start < 0 { start = 0 }
      let start : Nat :=
        if e ≥ 2 ∧ e - 2 ≥ lim ∧ isStart (e - 2) then e - 2
        else if e ≥ 3 ∧ e - 3 ≥ lim ∧ isStart (e - 3) then e - 3
        else if e ≥ 4 ∧ e - 4 ≥ lim ∧ isStart (e - 4) then e - 4
        else lim - 1
      let (r, size) := Wire.Bytea.decodeRune (s.drop start)
      if start + size != e then (Wire.Bytea.runeError, 1) else (r, size)

/-- `lastIndexFunc(s, unicode.IsSpace, false)` over the prefix of length `i` -/
def lastNonSpace (s : Bytes) (i : Nat) : Option Nat :=
  if i = 0 then none
  else
    let (r, size) := decodeLastRune (s.take i)
    let i' := i - max size 1
    if !isSpaceRune r then some i' else lastNonSpace s i'
termination_by i
decreasing_by omega

/-- `strings.TrimRightFunc(s, unicode.IsSpace)` -/
def trimRightSpace (s : Bytes) : Bytes :=
  match lastNonSpace s s.length with
  | some i =>
    if (s.getD i 0).toNat ≥ 0x80 then s.take (i + (Wire.Bytea.decodeRune (s.drop i)).2) else s.take (i + 1)
  | none => []

/-- `strings.TrimFunc(s, unicode.IsSpace)` -/
def trimSpace (s : Bytes) : Bytes := trimRightSpace (trimLeftSpace s)

/-- `ExtractMysqlComment(buffer)`: `(version, innerSQL)`. The three slice expressions are Go slices (may panic). -/
def extractMysqlComment (buffer : Bytes) : Out (Bytes × Bytes) :=
  if buffer.length < G.versionCommentHi then .panic
  else
    match goSlice buffer G.versionCommentLo (buffer.length - G.versionCommentHi) with
    | .ok sql =>
      (match (match versionEnd G.versionDigitLimit sql 0 with
              | some i => some i
              | none => if G.versionOnlyHandled then some sql.length else none) with
       | some e =>
         (match goSlice sql 0 e, goSliceFrom sql e with
          | .ok version, .ok inner => .ok (version, trimSpace inner)
          | _, _ => .panic)
       | none => .panic)
    | _ => .panic

/-! ## `Scan` on the suffix -/

/-- decimal digits of `n` (`fmt` verb `%d`) -/
def decimal (n : Nat) : Bytes :=
  if h : n < 10 then [UInt8.ofNat (48 + n)] else decimal (n / 10) ++ [UInt8.ofNat (48 + n % 10)]
termination_by n
decreasing_by omega

/-- result of one `Scan` of a tokenizer without a live nested tokenizer -/
inductive SRes where
  /-- a token, the suffix left, `posVarIndex` -/
  | tok (t : Token) (rest : Bytes) (posVar : Nat)
  /-- a terminated `/*! … */`: the inner SQL for the nested tokenizer and the suffix left; Go re-enters `Scan` -/
  | special (sql : Bytes) (rest : Bytes)
deriving Repr, DecidableEq

def liftTok (posVar : Nat) : Out (Token × Bytes) → Out SRes
  | .ok (t, r) => .ok (.tok t r posVar)
  | .err => .err
  | .panic => .panic

/-- `scanMySQLSpecificComment`; the suffix starts at the `!` -/
def scanMySQLSpecificComment (posVar : Nat) (s : Bytes) : Out SRes :=
  -- buffer.WriteString("/*!"); tkn.next()
  match blockLoop s.tail with
  | .ok (true, b, r) =>
    (match extractMysqlComment ([47, 42, 33] ++ b) with
     | .ok (_, sql) => .ok (.special sql r)
     | .err => .err
     | .panic => .panic)
  | .ok (false, b, r) => .ok (.tok (tokNamed "LEX_ERROR" ([47, 42, 33] ++ b)) r posVar)
  | .err => .err
  | .panic => .panic

/-- the operators of the inner `switch ch` (`t` = suffix after `ch`) -/
def scanOperator (ch : UInt8) (t : Bytes) : Option (Token × Bytes) :=
  let h := t.head?
  if ch == 38 then some (if h == some 38 then (tokNamed "AND" [], t.tail) else (tokChar ch, t))
  else if ch == 124 then some (if h == some 124 then (tokNamed "OR" [], t.tail) else (tokChar ch, t))
  else if ch == 60 then
    some (if h == some 62 then (tokNamed "NE" [], t.tail)
          else if h == some 60 then (tokNamed "SHIFT_LEFT" [], t.tail)
          else if h == some 61 then
            (if t.tail.head? == some 62 then (tokNamed "NULL_SAFE_EQUAL" [], t.tail.tail) else (tokNamed "LE" [], t.tail))
          else (tokChar ch, t))
  else if ch == 62 then
    some (if h == some 61 then (tokNamed "GE" [], t.tail)
          else if h == some 62 then (tokNamed "SHIFT_RIGHT" [], t.tail)
          else (tokChar ch, t))
  else if ch == 33 then some (if h == some 61 then (tokNamed "NE" [], t.tail) else (tokChar ch, t))
  else none

/-- the two `switch` statements of `Scan`: `ch` = the current character after `skipBlank`, `t` = the suffix after it -/
def scanDispatch (d : Dialect) (multi : Bool) (posVar : Nat) (ch : UInt8) (t : Bytes) : Out SRes :=
  if isLetter ch then
    if (ch == 88 || ch == 120) && t.head? == some 39 then liftTok posVar (scanHex t.tail)
    else if (ch == 66 || ch == 98) && t.head? == some 39 then liftTok posVar (scanBitLiteral t.tail)
    else if (ch == 69 || ch == 101) && t.head? == some 39 then
      liftTok posVar (.ok (scanString 39 (.named "PG_ESCAPE_STRING") t.tail))
    else liftTok posVar (.ok (scanIdentifier d ch (ch == 64 && t.head? == some 64) t))
  else if isDigit ch then liftTok posVar (scanNumber false (ch :: t))
  else if ch == 58 then liftTok posVar (.ok (scanBindVar (ch :: t)))
  else if ch == 59 && multi then .ok (.tok tokEof (ch :: t) posVar)
  else if G.simpleTokens.contains ch.toNat then .ok (.tok (tokChar ch) t posVar)
  else if ch == 63 then .ok (.tok (tokNamed "VALUE_ARG" ([58, 118] ++ decimal (posVar + 1))) t (posVar + 1))
  else if ch == 46 then
    if headIs isDigit t then liftTok posVar (scanNumber true t) else .ok (.tok (tokChar ch) t posVar)
  else if ch == 47 then
    if t.head? == some 47 then liftTok posVar (scanCommentType1 [47, 47] t.tail)
    else if t.head? == some 42 then
      if t.tail.head? == some 33 then scanMySQLSpecificComment posVar t.tail
      else liftTok posVar (scanCommentType2 t.tail)
    else .ok (.tok (tokChar ch) t posVar)
  else if ch == 35 then liftTok posVar (scanCommentType1 [35] t)
  else if ch == 45 then
    if t.head? == some 45 then liftTok posVar (scanCommentType1 [45, 45] t.tail)
    else if t.head? == some 62 then
      if t.tail.head? == some 62 then .ok (.tok (tokNamed "JSON_UNQUOTE_EXTRACT_OP" []) t.tail.tail posVar)
      else .ok (.tok (tokNamed "JSON_EXTRACT_OP" []) t.tail posVar)
    else .ok (.tok (tokChar ch) t posVar)
  else if ch == 36 then liftTok posVar (scanDollarParameter t)
  else
    match scanOperator ch t with
    | some r => liftTok posVar (.ok r)
    | none =>
      if isIdentQuote d ch then liftTok posVar (.ok (scanLiteralIdentifier d t))
      else if isStrQuote d ch then liftTok posVar (.ok (scanString ch (stringTokenTypeOf ch) t))
      else .ok (.tok (tokNamed "LEX_ERROR" [ch]) t posVar)

/-- `Scan` from `skipBlank` on, for a tokenizer whose `specialComment` is nil and `ForceEOF` false -/
def scanSuffix (d : Dialect) (multi : Bool) (posVar : Nat) (s0 : Bytes) : Out SRes :=
  match skipBlank s0 with
  | [] => .ok (.tok tokEof [] posVar)
  | ch :: t => scanDispatch d multi posVar ch t

/-! ## frames: one `Tokenizer` value without its nested tokenizer -/

structure Frame where
  dialect : Dialect
  buf : Bytes
  /-- Go's `Position` (see the header) -/
  pos : Nat := 0
  posVar : Nat := 0
  multi : Bool := false
  forceEOF : Bool := false
deriving Repr

/-- the suffix at `lastChar` after the opening `if tkn.lastChar == 0 { tkn.next() }` of `Scan` (a NUL byte that is
the current character at the start of a `Scan` is skipped – it is indistinguishable from the fresh state) -/
def Frame.start (f : Frame) : Bytes :=
  if f.pos = 0 then f.buf
  else
    match f.buf.drop (f.pos - 1) with
    | c :: t => if c == 0 then t else c :: t
    | [] => []

/-- the frame after scanning down to the suffix `rest` -/
def Frame.atRest (f : Frame) (rest : Bytes) : Frame := { f with pos := f.buf.length + 1 - rest.length }

inductive CoreRes where
  | tok (t : Token) (f : Frame)
  | special (sql : Bytes) (f : Frame)

/-- `Scan` after the nested-tokenizer prologue -/
def scanCore (f : Frame) : Out CoreRes :=
  if f.forceEOF then .ok (.tok tokEof (f.atRest (skipStatement f.start)))
  else
    match scanSuffix f.dialect f.multi f.posVar f.start with
    | .ok (.tok t rest pv) => .ok (.tok t { f.atRest rest with posVar := pv })
    | .ok (.special sql rest) => .ok (.special sql (f.atRest rest))
    | .err => .err
    | .panic => .panic

/-- bytes a frame can still consume, plus one -/
def weight (f : Frame) : Nat := (f.buf.length + 1 - max f.pos 1) + 1

/-- the measure: bytes left in all live tokenizers -/
def mu (l : List Frame) : Nat := (l.map weight).sum

/-- `NewStringTokenizer(sql)`: the nested tokenizer gets the package's DEFAULT dialect -/
def newFrame (dd : Dialect) (sql : Bytes) : Frame := { dialect := dd, buf := sql }

end AcraModel.Sql.Tokenizer
