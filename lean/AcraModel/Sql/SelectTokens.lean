import AcraModel.Sql.SelectRoundTrip
import AcraModel.Sql.ExprTokens
/-!
# Token conservation of the SELECT core (C13)

`parseSel_keeps`: whatever token sequence the statement parser accepts, the printed form of the statement it returns has
exactly the value-carrying tokens (literals, identifiers – column names, function names, table names, aliases) of the
input, in the same order. The clause keywords, commas and parentheses are what the tree records structurally
(`select_roundtrip`). Built from `parse_keeps` / `parse_sound` of the expression parser, clause by clause.
-/
namespace AcraModel.Sql.Select
open AcraModel AcraModel.Sql.Expr

/-- the expression tokens of a statement token list -/
def toksOf : List STok → List Tok
  | [] => []
  | .t x :: r => x :: toksOf r
  | .kw _ :: r => toksOf r

/-- the value-carrying tokens of a statement token list -/
def lexS (ts : List STok) : List Tok := lexemes (toksOf ts)

/-- number tokens are unsigned and not empty (what the tokenizer yields) -/
def AllOkS (ts : List STok) : Prop := AllOk (toksOf ts)

theorem toksOf_append (a b : List STok) : toksOf (a ++ b) = toksOf a ++ toksOf b := by
  induction a with
  | nil => rfl
  | cons x xs ih => cases x <;> simp [toksOf, ih]

theorem toksOf_map (xs : List Tok) : toksOf (xs.map .t) = xs := by
  induction xs with
  | nil => rfl
  | cons x xs ih => simp [toksOf, ih]

theorem lexS_append (a b : List STok) : lexS (a ++ b) = lexS a ++ lexS b := by
  simp [lexS, toksOf_append, lexemes_append]

@[simp] theorem lexS_nil : lexS [] = [] := rfl
@[simp] theorem lexS_kw (k : Kw) (r : List STok) : lexS (.kw k :: r) = lexS r := by simp [lexS, toksOf]
@[simp] theorem lexS_sym (s : Sym) (r : List STok) : lexS (.t (.sym s) :: r) = lexS r := by simp [lexS, toksOf]
@[simp] theorem lexS_id (n : Bytes) (r : List STok) : lexS (.t (.id n) :: r) = .id n :: lexS r := by simp [lexS, toksOf]

theorem lexS_tE (e : Expr) : lexS (tE e) = leaves e := by simp [lexS, tE, toksOf_map, leaves]

theorem allOkS_kw {k : Kw} {r : List STok} (h : AllOkS (.kw k :: r)) : AllOkS r := by simpa [AllOkS, toksOf] using h
theorem allOkS_t {x : Tok} {r : List STok} (h : AllOkS (.t x :: r)) : AllOkS r := by
  simp only [AllOkS, toksOf] at h ⊢
  exact h.tail

theorem dropKw_spec {k : Kw} {ts r : List STok} (h : dropKw k ts = some r) : ts = .kw k :: r := by
  cases ts with
  | nil => simp [dropKw] at h
  | cons a t =>
    cases a with
    | t x => simp [dropKw] at h
    | kw k' =>
      simp only [dropKw] at h
      by_cases hk : k' = k
      · simp [hk] at h; rw [hk, h]
      · simp [hk] at h

/-- the expression at the front: its printed form has the value-carrying tokens that were read -/
theorem parseE_keeps {ts r : List STok} {e : Expr} (hok : AllOkS ts) (h : parseE ts = some (e, r)) :
    lexS ts = leaves e ++ lexS r ∧ AllOkS r := by
  unfold parseE at h
  have hsplit : toksOf ts = (takeT ts).1 ++ toksOf (takeT ts).2 := by
    have := takeT_spec ts
    conv => lhs; rw [← this]
    rw [toksOf_append, toksOf_map]
  have hokseg : AllOk (takeT ts).1 := by
    intro tk htk
    exact hok tk (by rw [hsplit]; exact List.mem_append_left _ htk)
  have hokrest : AllOk (toksOf (takeT ts).2) := by
    intro tk htk
    exact hok tk (by rw [hsplit]; exact List.mem_append_right _ htk)
  cases hp : parse (fuelFor (takeT ts).1) (.lvl lOr) (takeT ts).1 with
  | none => simp [hp] at h
  | some q =>
    obtain ⟨e', segRest⟩ := q
    simp only [hp, Option.some.injEq, Prod.mk.injEq] at h
    obtain ⟨rfl, rfl⟩ := h
    have k : lexemes (takeT ts).1 = leaves e' ++ lexemes segRest := parse_keeps _ _ _ _ hokseg hp
    have s := (parse_sound _ _ _ _ hokseg hp).2
    refine ⟨?_, ?_⟩
    · simp only [lexS, hsplit, toksOf_append, toksOf_map, lexemes_append, k, List.append_assoc]
    · simp only [AllOkS, toksOf_append, toksOf_map]
      intro tk htk
      rcases List.mem_append.mp htk with h1 | h1
      · exact s tk h1
      · exact hokrest tk h1

/-- the invariant of a sub-parser: what was read is what the printed result holds, and the rest is still well-formed -/
def Keeps {α : Type} (p : List STok → Option (α × List STok)) (f : α → List STok) : Prop :=
  ∀ ts x r, AllOkS ts → p ts = some (x, r) → lexS ts = lexS (f x) ++ lexS r ∧ AllOkS r

theorem keeps_parseE : Keeps parseE tE := by
  intro ts e r hok h
  have := parseE_keeps hok h
  rw [lexS_tE]
  exact this

theorem keeps_parseItem : Keeps parseItem stoksItem := by
  intro ts it r hok h
  unfold parseItem at h
  split at h
  · -- `*`
    simp only [Option.some.injEq, Prod.mk.injEq] at h
    obtain ⟨rfl, rfl⟩ := h
    exact ⟨by simp [stoksItem], allOkS_t hok⟩
  · cases hE : parseE ts with
    | none => simp [hE] at h
    | some q =>
      obtain ⟨e, r1⟩ := q
      obtain ⟨k1, ok1⟩ := parseE_keeps hok hE
      rw [hE] at h
      split at h
      · rename_i e' a r' heq
        simp only [Option.some.injEq, Prod.mk.injEq] at heq h
        obtain ⟨rfl, rfl⟩ := heq
        obtain ⟨rfl, rfl⟩ := h
        refine ⟨?_, allOkS_t (allOkS_kw ok1)⟩
        rw [k1]
        simp [stoksItem, lexS_append, lexS_tE]
      · rename_i e' r' _ heq
        simp only [Option.some.injEq, Prod.mk.injEq] at heq h
        obtain ⟨rfl, rfl⟩ := heq
        obtain ⟨rfl, rfl⟩ := h
        refine ⟨?_, ok1⟩
        rw [k1]
        simp [stoksItem, lexS_tE]
      · simp at h

theorem lexS_sepComma {α : Type} (f : α → List STok) : (xs : List α) →
    lexS (sepComma f xs) = (xs.map fun x => lexS (f x)).flatten
  | [] => by simp [sepComma]
  | [x] => by simp [sepComma]
  | x :: y :: zs => by
    have := lexS_sepComma f (y :: zs)
    simp only [sepComma, lexS_append, comma, lexS_sym, this]
    simp

theorem keeps_parseSep {α : Type} {p : List STok → Option (α × List STok)} {f : α → List STok} (hp : Keeps p f) :
    ∀ (n : Nat) (ts : List STok) (xs : List α) (r : List STok), AllOkS ts → parseSep p n ts = some (xs, r) →
      lexS ts = lexS (sepComma f xs) ++ lexS r ∧ AllOkS r
  | 0, _, _, _, _, h => by simp [parseSep] at h
  | n + 1, ts, xs, r, hok, h => by
    simp only [parseSep] at h
    cases hpx : p ts with
    | none => simp [hpx] at h
    | some q =>
      obtain ⟨x, r1⟩ := q
      obtain ⟨k1, ok1⟩ := hp ts x r1 hok hpx
      rw [hpx] at h
      split at h
      · simp at h
      · rename_i x' r2 heq
        simp only [Option.some.injEq, Prod.mk.injEq] at heq
        obtain ⟨rfl, rfl⟩ := heq
        cases hrec : parseSep p n r2 with
        | none => simp [hrec] at h
        | some q2 =>
          obtain ⟨xs', r'⟩ := q2
          simp only [hrec, Option.some.injEq, Prod.mk.injEq] at h
          obtain ⟨rfl, rfl⟩ := h
          obtain ⟨k2, ok2⟩ := keeps_parseSep hp n r2 xs' r' (allOkS_t ok1) hrec
          refine ⟨?_, ok2⟩
          rw [k1, lexS_sym, k2, lexS_sepComma, lexS_sepComma]
          simp [List.append_assoc]
      · rename_i x' r2 _ heq
        simp only [Option.some.injEq, Prod.mk.injEq] at heq h
        obtain ⟨rfl, rfl⟩ := heq
        obtain ⟨rfl, rfl⟩ := h
        exact ⟨by rw [k1]; simp [sepComma], ok1⟩

theorem keeps_parseSepL {α : Type} {p : List STok → Option (α × List STok)} {f : α → List STok} (hp : Keeps p f)
    {ts : List STok} {xs : List α} {r : List STok} (hok : AllOkS ts) (h : parseSepL p ts = some (xs, r)) :
    lexS ts = lexS (sepComma f xs) ++ lexS r ∧ AllOkS r :=
  keeps_parseSep hp _ ts xs r hok h

theorem keeps_parseTbl {ts r : List STok} {t : Tbl} (hok : AllOkS ts) (h : parseTbl ts = some (t, r)) :
    lexS ts = lexS (stoksTbl t) ++ lexS r ∧ AllOkS r := by
  unfold parseTbl at h
  split at h
  · simp only [Option.some.injEq, Prod.mk.injEq] at h
    obtain ⟨rfl, rfl⟩ := h
    exact ⟨by simp [stoksTbl], allOkS_t (allOkS_kw (allOkS_t hok))⟩
  · simp only [Option.some.injEq, Prod.mk.injEq] at h
    obtain ⟨rfl, rfl⟩ := h
    exact ⟨by simp [stoksTbl], allOkS_t hok⟩
  · simp at h

theorem joinKind_spec {ts r : List STok} {k : JoinKind} (h : joinKind ts = some (k, r)) : ts = k.kws ++ r := by
  unfold joinKind at h
  split at h <;> first
    | (simp only [Option.some.injEq, Prod.mk.injEq] at h; obtain ⟨rfl, rfl⟩ := h; rfl)
    | simp at h

theorem lexS_kws (k : JoinKind) (r : List STok) : lexS (k.kws ++ r) = lexS r := by
  cases k <;> simp [JoinKind.kws]

theorem lexS_kws_nil (k : JoinKind) : lexS k.kws = [] := by cases k <;> simp [JoinKind.kws]

theorem allOkS_kws {k : JoinKind} {r : List STok} (h : AllOkS (k.kws ++ r)) : AllOkS r := by
  cases k <;> simpa [JoinKind.kws, AllOkS, toksOf] using h

theorem keeps_parseJoins : ∀ (n : Nat) (ts : List STok) (js : List Join) (r : List STok), AllOkS ts →
    parseJoins n ts = some (js, r) → lexS ts = lexS (stoksJoins js) ++ lexS r ∧ AllOkS r
  | 0, _, _, _, _, h => by simp [parseJoins] at h
  | n + 1, ts, js, r, hok, h => by
    simp only [parseJoins] at h
    cases hj : joinKind ts with
    | none =>
      simp only [hj, Option.some.injEq, Prod.mk.injEq] at h
      obtain ⟨rfl, rfl⟩ := h
      exact ⟨by simp [stoksJoins], hok⟩
    | some q =>
      obtain ⟨k, r0⟩ := q
      have hts := joinKind_spec hj
      rw [hts] at hok
      have ok0 := allOkS_kws hok
      simp only [hj] at h
      cases ht : parseTbl r0 with
      | none => simp [ht] at h
      | some q1 =>
        obtain ⟨t, r1⟩ := q1
        obtain ⟨k1, ok1⟩ := keeps_parseTbl ok0 ht
        simp only [ht] at h
        cases hd : dropKw .on_ r1 with
        | some r2 =>
          have hr1 := dropKw_spec hd
          simp only [hd] at h
          split at h
          · cases hE : parseE r2 with
            | none => simp [hE] at h
            | some q2 =>
              obtain ⟨e, r3⟩ := q2
              rw [hr1] at ok1
              obtain ⟨k2, ok2⟩ := parseE_keeps (allOkS_kw ok1) hE
              simp only [hE] at h
              cases hrec : parseJoins n r3 with
              | none => simp [hrec] at h
              | some q3 =>
                obtain ⟨js', r4⟩ := q3
                simp only [hrec, Option.some.injEq, Prod.mk.injEq] at h
                obtain ⟨rfl, rfl⟩ := h
                obtain ⟨k3, ok3⟩ := keeps_parseJoins n r3 js' r4 ok2 hrec
                refine ⟨?_, ok3⟩
                rw [hts, lexS_kws, k1, hr1, lexS_kw, k2, k3]
                simp [stoksJoins, stoksJoin, stoksOn, lexS_append, lexS_kws_nil, lexS_tE, List.append_assoc]
          · simp at h
        | none =>
          simp only [hd] at h
          split at h
          · cases hrec : parseJoins n r1 with
            | none => simp [hrec] at h
            | some q3 =>
              obtain ⟨js', r4⟩ := q3
              simp only [hrec, Option.some.injEq, Prod.mk.injEq] at h
              obtain ⟨rfl, rfl⟩ := h
              obtain ⟨k3, ok3⟩ := keeps_parseJoins n r1 js' r4 ok1 hrec
              refine ⟨?_, ok3⟩
              rw [hts, lexS_kws, k1, k3]
              simp [stoksJoins, stoksJoin, stoksOn, lexS_append, lexS_kws_nil, List.append_assoc]
          · simp at h

theorem keeps_parseTRef : Keeps parseTRef stoksTRef := by
  intro ts t r hok h
  unfold parseTRef at h
  cases ht : parseTbl ts with
  | none => simp [ht] at h
  | some q =>
    obtain ⟨b, r1⟩ := q
    obtain ⟨k1, ok1⟩ := keeps_parseTbl hok ht
    simp only [ht] at h
    cases hj : parseJoins (r1.length + 1) r1 with
    | none => simp [hj] at h
    | some q2 =>
      obtain ⟨js, r2⟩ := q2
      simp only [hj, Option.some.injEq, Prod.mk.injEq] at h
      obtain ⟨rfl, rfl⟩ := h
      obtain ⟨k2, ok2⟩ := keeps_parseJoins _ r1 js r2 ok1 hj
      refine ⟨?_, ok2⟩
      rw [k1, k2]
      simp [stoksTRef, lexS_append, List.append_assoc]

theorem lexS_stoksOrd (o : Ord) : lexS (stoksOrd o) = leaves o.e := by
  unfold stoksOrd
  split <;> simp [lexS_append, lexS_tE]

theorem keeps_parseOrd : Keeps parseOrd stoksOrd := by
  intro ts o r hok h
  unfold parseOrd at h
  cases hE : parseE ts with
  | none => simp [hE] at h
  | some q =>
    obtain ⟨e, r1⟩ := q
    obtain ⟨k1, ok1⟩ := parseE_keeps hok hE
    simp only [hE] at h
    cases h1 : dropKw .asc r1 with
    | some r' =>
      have := dropKw_spec h1
      simp only [h1, Option.some.injEq, Prod.mk.injEq] at h
      obtain ⟨rfl, rfl⟩ := h
      rw [this] at ok1 k1
      exact ⟨by rw [k1, lexS_stoksOrd]; simp, allOkS_kw ok1⟩
    | none =>
      simp only [h1] at h
      cases h2 : dropKw .desc r1 with
      | some r' =>
        have := dropKw_spec h2
        simp only [h2, Option.some.injEq, Prod.mk.injEq] at h
        obtain ⟨rfl, rfl⟩ := h
        rw [this] at ok1 k1
        exact ⟨by rw [k1, lexS_stoksOrd]; simp, allOkS_kw ok1⟩
      | none =>
        simp only [h2, Option.some.injEq, Prod.mk.injEq] at h
        obtain ⟨rfl, rfl⟩ := h
        exact ⟨by rw [k1, lexS_stoksOrd], ok1⟩

theorem keeps_parseOptE (k : Kw) {ts r : List STok} {w : Option Expr} (hok : AllOkS ts)
    (h : parseOptE k ts = some (w, r)) : lexS ts = lexS (stoksWhere k w) ++ lexS r ∧ AllOkS r := by
  unfold parseOptE at h
  cases hd : dropKw k ts with
  | none =>
    simp only [hd, Option.some.injEq, Prod.mk.injEq] at h
    obtain ⟨rfl, rfl⟩ := h
    exact ⟨by simp [stoksWhere], hok⟩
  | some r0 =>
    have hts := dropKw_spec hd
    simp only [hd] at h
    cases hE : parseE r0 with
    | none => simp [hE] at h
    | some q =>
      obtain ⟨e, r1⟩ := q
      rw [hts] at hok
      obtain ⟨k1, ok1⟩ := parseE_keeps (allOkS_kw hok) hE
      simp only [hE, Option.some.injEq, Prod.mk.injEq] at h
      obtain ⟨rfl, rfl⟩ := h
      exact ⟨by rw [hts, lexS_kw, k1]; simp [stoksWhere, lexS_append, lexS_tE], ok1⟩

theorem lexS_stoksList {α : Type} (k : Kw) (f : α → List STok) (xs : List α) :
    lexS (stoksList k f xs) = lexS (sepComma f xs) := by
  cases xs with
  | nil => simp [stoksList, sepComma]
  | cons x xs => simp [stoksList]

theorem keeps_parseOptList {α : Type} (k : Kw) {p : List STok → Option (α × List STok)} {f : α → List STok}
    (hp : Keeps p f) {ts r : List STok} {xs : List α} (hok : AllOkS ts) (h : parseOptList k p ts = some (xs, r)) :
    lexS ts = lexS (stoksList k f xs) ++ lexS r ∧ AllOkS r := by
  unfold parseOptList at h
  cases hd : dropKw k ts with
  | none =>
    simp only [hd, Option.some.injEq, Prod.mk.injEq] at h
    obtain ⟨rfl, rfl⟩ := h
    exact ⟨by simp [stoksList], hok⟩
  | some r0 =>
    have hts := dropKw_spec hd
    simp only [hd] at h
    cases hb : dropKw .by_ r0 with
    | none => simp [hb] at h
    | some r1 =>
      have hr0 := dropKw_spec hb
      simp only [hb] at h
      rw [hts, hr0] at hok
      obtain ⟨k1, ok1⟩ := keeps_parseSepL hp (allOkS_kw (allOkS_kw hok)) h
      exact ⟨by rw [hts, hr0, lexS_kw, lexS_kw, k1, lexS_stoksList], ok1⟩

theorem keeps_parseLim {ts r : List STok} {l : Lim} (hok : AllOkS ts) (h : parseLim ts = some (l, r)) :
    lexS ts = lexS (stoksLim l) ++ lexS r ∧ AllOkS r := by
  unfold parseLim at h
  cases hd : dropKw .limit ts with
  | none =>
    simp only [hd, Option.some.injEq, Prod.mk.injEq] at h
    obtain ⟨rfl, rfl⟩ := h
    exact ⟨by simp [stoksLim], hok⟩
  | some r0 =>
    have hts := dropKw_spec hd
    simp only [hd] at h
    cases hE : parseE r0 with
    | none => simp [hE] at h
    | some q =>
      obtain ⟨a, r1⟩ := q
      rw [hts] at hok
      obtain ⟨k1, ok1⟩ := parseE_keeps (allOkS_kw hok) hE
      simp only [hE] at h
      cases ho : dropKw .offset r1 with
      | some r2 =>
        have hr1 := dropKw_spec ho
        simp only [ho] at h
        cases hE2 : parseE r2 with
        | none => simp [hE2] at h
        | some q2 =>
          obtain ⟨b, r3⟩ := q2
          rw [hr1] at ok1
          obtain ⟨k2, ok2⟩ := parseE_keeps (allOkS_kw ok1) hE2
          simp only [hE2, Option.some.injEq, Prod.mk.injEq] at h
          obtain ⟨rfl, rfl⟩ := h
          exact ⟨by rw [hts, lexS_kw, k1, hr1, lexS_kw, k2]; simp [stoksLim, lexS_append, lexS_tE, List.append_assoc], ok2⟩
      | none =>
        simp only [ho] at h
        split at h
        · rename_i r2
          cases hE2 : parseE r2 with
          | none => simp [hE2] at h
          | some q2 =>
            obtain ⟨b, r3⟩ := q2
            obtain ⟨k2, ok2⟩ := parseE_keeps (allOkS_t ok1) hE2
            simp only [hE2, Option.some.injEq, Prod.mk.injEq] at h
            obtain ⟨rfl, rfl⟩ := h
            exact ⟨by rw [hts, lexS_kw, k1, lexS_sym, k2]; simp [stoksLim, comma, lexS_append, lexS_tE, List.append_assoc], ok2⟩
        · simp only [Option.some.injEq, Prod.mk.injEq] at h
          obtain ⟨rfl, rfl⟩ := h
          exact ⟨by rw [hts, lexS_kw, k1]; simp [stoksLim, lexS_tE], ok1⟩

/-- **Token conservation of the SELECT core.** -/
theorem parseSel_keeps {ts : List STok} {s : Sel} (hok : AllOkS ts) (h : parseSel ts = some s) :
    lexS (stoks s) = lexS ts := by
  unfold parseSel at h
  cases h0 : dropKw .select ts with
  | none => simp [h0] at h
  | some r0 =>
    have hts := dropKw_spec h0
    simp only [h0] at h
    rw [hts] at hok
    have ok0 := allOkS_kw hok
    -- DISTINCT
    have hD : lexS r0 = lexS (parseDistinct r0).2 ∧ AllOkS (parseDistinct r0).2 ∧
        lexS (if (parseDistinct r0).1 = true then [STok.kw Kw.distinct] else []) = [] := by
      unfold parseDistinct
      cases hd : dropKw .distinct r0 with
      | none => exact ⟨rfl, ok0, by simp⟩
      | some r =>
        have := dropKw_spec hd
        simp only
        rw [this] at ok0
        exact ⟨by rw [this]; simp, allOkS_kw ok0, by simp⟩
    obtain ⟨kD, okD, kD2⟩ := hD
    cases h1 : parseSepL parseItem (parseDistinct r0).2 with
    | none => simp [h1] at h
    | some q1 =>
      obtain ⟨items, r2⟩ := q1
      obtain ⟨k1, ok1⟩ := keeps_parseSepL keeps_parseItem okD h1
      simp only [h1] at h
      cases h2 : dropKw .from_ r2 with
      | none => simp [h2] at h
      | some r3 =>
        have hr2 := dropKw_spec h2
        simp only [h2] at h
        rw [hr2] at ok1
        cases h3 : parseSepL parseTRef r3 with
        | none => simp [h3] at h
        | some q3 =>
          obtain ⟨from_, r4⟩ := q3
          obtain ⟨k3, ok3⟩ := keeps_parseSepL keeps_parseTRef (allOkS_kw ok1) h3
          simp only [h3] at h
          cases h4 : parseOptE .where_ r4 with
          | none => simp [h4] at h
          | some q4 =>
            obtain ⟨w, r5⟩ := q4
            obtain ⟨k4, ok4⟩ := keeps_parseOptE .where_ ok3 h4
            simp only [h4] at h
            cases h5 : parseOptList .group parseE r5 with
            | none => simp [h5] at h
            | some q5 =>
              obtain ⟨g, r6⟩ := q5
              obtain ⟨k5, ok5⟩ := keeps_parseOptList .group keeps_parseE ok4 h5
              simp only [h5] at h
              cases h6 : parseOptE .having r6 with
              | none => simp [h6] at h
              | some q6 =>
                obtain ⟨hv, r7⟩ := q6
                obtain ⟨k6, ok6⟩ := keeps_parseOptE .having ok5 h6
                simp only [h6] at h
                cases h7 : parseOptList .order parseOrd r7 with
                | none => simp [h7] at h
                | some q7 =>
                  obtain ⟨o, r8⟩ := q7
                  obtain ⟨k7, ok7⟩ := keeps_parseOptList .order keeps_parseOrd ok6 h7
                  simp only [h7] at h
                  cases h8 : parseLim r8 with
                  | none => simp [h8] at h
                  | some q8 =>
                    obtain ⟨l, r9⟩ := q8
                    obtain ⟨k8, _⟩ := keeps_parseLim ok7 h8
                    simp only [h8] at h
                    cases r9 with
                    | cons a b => simp at h
                    | nil =>
                      simp only [Option.some.injEq] at h
                      subst h
                      rw [hts, lexS_kw, kD, k1, hr2, lexS_kw, k3, k4, k5, k6, k7, k8]
                      simp only [stoks, stoksTail, lexS_kw, lexS_append, kD2, lexS_nil, List.nil_append,
                        List.append_nil, List.append_assoc]

end AcraModel.Sql.Select
