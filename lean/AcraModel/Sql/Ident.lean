import AcraModel.Sql.Literal
/-!
# Quoted identifiers (C13)

* `quoteIdent q name` – what `formatIDForDialect` (names it has to escape) and `writeQuotedID` (names that were
  written in quotes) print: the quote character, the name with every quote character doubled, the quote character.
* `scanQuotedIdent q` – `Tokenizer.scanLiteralIdentifier` after the opening quote, for a dialect with one identifier
  quote character (`` ` `` in MySQL's default mode, `"` in PostgreSQL): a doubled quote is one quote character, a single
  one ends the name, end of input before that or an empty name is a LEX_ERROR.

MySQL's ANSI_QUOTES mode has two identifier quote characters that the tokenizer does not tell apart; it is outside
this model (the harness probes it).
-/
namespace AcraModel.Sql.Ident
open AcraModel AcraModel.Sql.Literal

def doubleQuotes (q : UInt8) : Bytes → Bytes
  | [] => []
  | c :: cs => (if c == q then [q, q] else [c]) ++ doubleQuotes q cs

def quoteIdent (q : UInt8) (name : Bytes) : Bytes := q :: doubleQuotes q name ++ [q]

/-- the loop of `scanLiteralIdentifier`: `(name, rest)`; `none` = premature end of input -/
def scanBody (q : UInt8) : Bytes → Option (Bytes × Bytes)
  | [] => none
  | [c] => if c == q then some ([], []) else none
  | c :: e :: rest =>
    if c == q then
      if e == q then consR q (scanBody q rest) else some ([], e :: rest)
    else consR c (scanBody q (e :: rest))

/-- `scanLiteralIdentifier`: an empty name is an error -/
def scanQuotedIdent (q : UInt8) (input : Bytes) : Option (Bytes × Bytes) :=
  match scanBody q input with
  | some (name, rest) => if name.isEmpty then none else some (name, rest)
  | none => none

theorem scanBody_ordinary (q c : UInt8) (t : Bytes) (h : c ≠ q) (ht : t ≠ []) :
    scanBody q (c :: t) = consR c (scanBody q t) := by
  cases t with
  | nil => exact absurd rfl ht
  | cons e r => rw [scanBody]; simp [h]

theorem scanBody_doubled (q : UInt8) (t : Bytes) : scanBody q (q :: q :: t) = consR q (scanBody q t) := by
  rw [scanBody]; simp

theorem scanBody_close (q : UInt8) (rest : Bytes) (h : rest.head? ≠ some q) : scanBody q (q :: rest) = some ([], rest) := by
  cases rest with
  | nil => rw [scanBody]; simp
  | cons e r =>
    rw [scanBody]
    have : e ≠ q := by intro he; apply h; simp [he]
    simp [this]

theorem scanBody_quoted (q : UInt8) (name rest : Bytes) (h : rest.head? ≠ some q) :
    scanBody q (doubleQuotes q name ++ q :: rest) = some (name, rest) := by
  induction name with
  | nil => simpa [doubleQuotes] using scanBody_close q rest h
  | cons c cs ih =>
    by_cases hc : c = q
    · subst hc
      simp only [doubleQuotes, beq_self_eq_true, if_true, List.cons_append, List.nil_append]
      rw [scanBody_doubled, ih]; rfl
    · have hb : (c == q) = false := by simpa using hc
      simp only [doubleQuotes, hb, Bool.false_eq_true, if_false, List.cons_append, List.nil_append]
      rw [scanBody_ordinary q c _ hc (by simp), ih]; rfl

end AcraModel.Sql.Ident
