import AcraModel.Sql.TokenizerLemmas
/-!
# `Tokenizer.Scan` with its nested tokenizer, `Lex`, and the token stream

The state of a Go `Tokenizer` is the list of live tokenizer values: the outermost first, then its
`specialComment`, then that one's (`[f]` = no nested tokenizer). `scan` is `Tokenizer.Scan`:

* with a nested tokenizer, its `Scan` comes first; any token but 0 is handed up, on 0 the nested tokenizer is dropped;
* then the tokenizer scans its own input (`scanCore`); a terminated `/*! … */` installs a nested tokenizer over the
  inner text (`NewStringTokenizer`, i.e. the DEFAULT dialect `dd`) and `Scan` starts over (Go: `scanToken` returns
  `rescan` and the loop in `Scan` runs it again; before the repair of repo-patches 61 it was a recursive call
  `return tkn.Scan()` – the same function of the state, but one stack frame pair per comment. Stack depth is not
  visible in this model; it is tied by the harness oracle `C14.tokdepth` and the facts `scanLoopShape`/`rescanIsNegative`).

All three recursive calls decrease `mu`, the number of bytes left in all live tokenizers (+1 each); `lex` (the parser's
`Lex`, which skips comments) and `tokenize` (`for { tok := Scan(); if tok == 0 break }`) decrease it too because a
`Scan` that returns anything but 0 has consumed at least one byte (`scan_spec`). None of the three definitions uses
fuel: their termination proofs are C14's progress claim for the tokenizer.
-/
namespace AcraModel.Sql.Tokenizer
open AcraModel

theorem scanCore_special_mu (dd : Dialect) (f f' : Frame) (sql : Bytes) (h : scanCore f = .ok (.special sql f')) :
    mu [f', newFrame dd sql] < mu [f] := by
  obtain ⟨res, e, hs⟩ := scanCore_spec f
  rw [h] at e
  injection e with e
  subst e
  simp only at hs
  simp only [mu, List.map_cons, List.map_nil, List.sum_cons, List.sum_nil, weight_newFrame]
  omega

/-- `Tokenizer.Scan` -/
def scan (dd : Dialect) (l : List Frame) : Out (Token × List Frame) :=
  match l with
  | [] => .ok (tokEof, [])
  | [f] =>
    match h : scanCore f with
    | .ok (.tok t f') => .ok (t, [f'])
    | .ok (.special sql f') => scan dd [f', newFrame dd sql]
    | .err => .err
    | .panic => .panic
  | f :: g :: sp =>
    match scan dd (g :: sp) with
    | .ok (t, sp') => if t.typ = .eof then scan dd [f] else .ok (t, f :: sp')
    | .err => .err
    | .panic => .panic
termination_by mu l
decreasing_by
  · exact scanCore_special_mu dd f f' sql h
  · have := weight_pos f
    simp only [mu, List.map_cons, List.sum_cons]; omega
  · have := weight_pos g
    simp only [mu, List.map_cons, List.sum_cons, List.map_nil, List.sum_nil]; omega

/-- **Progress of `Scan`**, for ANY state: no panic, the measure does not grow and shrinks unless the token is 0. -/
theorem scan_total (dd : Dialect) (l : List Frame) :
    ∃ t l', scan dd l = .ok (t, l') ∧ mu l' ≤ mu l ∧ (t.typ ≠ .eof → mu l' < mu l) ∧ (l ≠ [] → l' ≠ []) := by
  fun_induction scan dd l with
  | case1 => exact ⟨_, _, rfl, Nat.le_refl _, fun h => absurd rfl h, fun h => absurd rfl h⟩
  | case2 f t f' h =>
    obtain ⟨res, e, hs⟩ := scanCore_spec f
    rw [h] at e; injection e with e; subst e
    simp only at hs
    obtain ⟨_, h1, h2, _⟩ := hs
    exact ⟨_, _, rfl, by simpa [mu] using h1, fun hne => by simpa [mu] using h2 hne, fun _ => by simp⟩
  | case3 f sql f' h ih =>
    obtain ⟨t, l', e, g1, g2, g3⟩ := ih
    have hmu : mu [f', newFrame dd sql] < mu [f] := scanCore_special_mu dd f f' sql h
    exact ⟨t, l', e, by omega, fun _ => by omega, fun _ => g3 (by simp)⟩
  | case4 f h => exact absurd h (by obtain ⟨res, e, _⟩ := scanCore_spec f; rw [e]; simp)
  | case5 f h => exact absurd h (by obtain ⟨res, e, _⟩ := scanCore_spec f; rw [e]; simp)
  | case6 f g sp t sp' hsc hteof ih1 ih2 =>
    obtain ⟨t2, l2, e2, g1, g2, g3⟩ := ih2
    have hmu : mu [f] ≤ mu (f :: g :: sp) := by simp only [mu, List.map_cons, List.sum_cons, List.map_nil, List.sum_nil]; omega
    exact ⟨t2, l2, e2, by omega, fun hne => by have := g2 hne; omega, fun _ => g3 (by simp)⟩
  | case7 f g sp t sp' hsc hteof ih1 =>
    obtain ⟨t1, l1, e1, g1, g2, _⟩ := ih1
    rw [hsc] at e1; injection e1 with e1; injection e1 with ea eb; subst ea; subst eb
    refine ⟨_, _, rfl, ?_, fun hne => ?_, fun _ => by simp⟩
    · simp only [mu, List.map_cons, List.sum_cons] at g1 ⊢; omega
    · have := g2 hne; simp only [mu, List.map_cons, List.sum_cons] at this ⊢; omega
  | case8 f g sp hsc ih1 =>
    obtain ⟨t1, l1, e1, _⟩ := ih1
    rw [hsc] at e1; cases e1
  | case9 f g sp hsc ih1 =>
    obtain ⟨t1, l1, e1, _⟩ := ih1
    rw [hsc] at e1; cases e1

theorem scan_progress {dd : Dialect} {l l' : List Frame} {t : Token} (h : scan dd l = .ok (t, l')) (hne : t.typ ≠ .eof) :
    mu l' < mu l := by
  obtain ⟨t1, l1, e, _, g, _⟩ := scan_total dd l
  rw [h] at e; injection e with e; injection e with ea eb; subst ea; subst eb
  exact g hne

/-- `Tokenizer.Lex`: `Scan`, skipping comments unless `AllowComments` – the loop the generated parser calls. -/
def lex (dd : Dialect) (allowComments : Bool) (l : List Frame) : Out (Token × List Frame) :=
  match h : scan dd l with
  | .ok (t, l') =>
    if hc : t.typ = .named "COMMENT" ∧ allowComments = false then lex dd allowComments l' else .ok (t, l')
  | .err => .err
  | .panic => .panic
termination_by mu l
decreasing_by exact scan_progress h (by rw [hc.1]; simp)

/-- the token stream: `for { typ, val := tkn.Scan(); …; if typ == 0 { break } }`, each token with the outermost
tokenizer's `Position` after it. A `LEX_ERROR` token does not end the loop (`SplitStatementToPieces` loops like this). -/
def tokenizeFrom (dd : Dialect) (l : List Frame) : Out (List (Token × Nat)) :=
  match h : scan dd l with
  | .ok (t, l') =>
    let p := (l'.head?.map (·.pos)).getD 0
    if hc : t.typ = .eof then .ok [(t, p)]
    else
      match tokenizeFrom dd l' with
      | .ok ts => .ok ((t, p) :: ts)
      | .err => .err
      | .panic => .panic
  | .err => .err
  | .panic => .panic
termination_by mu l
decreasing_by exact scan_progress h hc

/-- a fresh tokenizer: `NewStringTokenizerWithDialect(d, input)` -/
def initial (d : Dialect) (input : Bytes) (multi : Bool := false) : List Frame := [{ dialect := d, buf := input, multi := multi }]

/-- the token stream of `input` in dialect `d` (nested `/*! … */` text in the default dialect `dd`) -/
def tokenize (d dd : Dialect) (input : Bytes) : Out (List (Token × Nat)) := tokenizeFrom dd (initial d input)

/-- `posVarIndex` never exceeds the bytes consumed, and no live tokenizer has a buffer longer than `B` -/
def Inv (B : Nat) (l : List Frame) : Prop := ∀ f ∈ l, f.posVar + weight f ≤ f.buf.length + 1 ∧ f.buf.length ≤ B

theorem decimal_length (n : Nat) : (decimal n).length = if n < 10 then 1 else (decimal (n / 10)).length + 1 := by
  rw [decimal]
  split <;> simp

theorem decimal_length_mono : ∀ (n k : Nat), k ≤ n → (decimal k).length ≤ (decimal n).length := by
  intro n
  induction n using Nat.strongRecOn with
  | _ n ih =>
    intro k hk
    rw [decimal_length n, decimal_length k]
    by_cases hn : n < 10
    · have : k < 10 := by omega
      simp [hn, this]
    · by_cases hk10 : k < 10
      · simp [hn, hk10]
      · simp only [hn, hk10, if_false]
        have := ih (n / 10) (by omega) (k / 10) (by omega)
        omega

/-- the extra payload a token may carry beyond the bytes consumed for it: only the `?` placeholder has one -/
def qExtra (B : Nat) (t : Token) : Nat := if t.typ = .named "VALUE_ARG" then 1 + (decimal B).length else 0

/-- **One `Scan`**, for any state: it does not panic; the measure does not grow, and shrinks unless the token is 0;
payload + measure after ≤ measure before (+ the placeholder allowance); the invariant is kept. -/
theorem scan_spec (dd : Dialect) (B : Nat) (l : List Frame) (hI : Inv B l) :
    ∃ t l', scan dd l = .ok (t, l') ∧ mu l' ≤ mu l ∧ (t.typ ≠ .eof → mu l' < mu l) ∧
      t.val.length + mu l' ≤ mu l + qExtra B t ∧ Inv B l' := by
  fun_induction scan dd l with
  | case1 => exact ⟨_, _, rfl, Nat.le_refl _, fun h => absurd rfl h, by simp [tokEof], hI⟩
  | case2 f t f' h =>
    obtain ⟨res, e, hs⟩ := scanCore_spec f
    rw [h] at e; injection e with e; subst e
    simp only at hs
    obtain ⟨hb, h1, h2, h3⟩ := hs
    have hf := hI f (by simp)
    refine ⟨_, _, rfl, by simpa [mu] using h1, fun hne => by simpa [mu] using h2 hne, ?_, ?_⟩
    · rcases h3 with ⟨_, e2⟩ | ⟨e1, e2, e3, e4⟩
      · simp only [mu, List.map_cons, List.map_nil, List.sum_cons, List.sum_nil]; omega
      · have hwp := weight_pos f'
        have hle : f'.posVar ≤ B := by omega
        have := decimal_length_mono B f'.posVar hle
        simp only [mu, List.map_cons, List.map_nil, List.sum_cons, List.sum_nil, qExtra, e2, if_true]; omega
    · intro x hx
      simp only [List.mem_cons, List.mem_nil_iff, or_false] at hx
      subst hx
      rw [hb]
      rcases h3 with ⟨e1, _⟩ | ⟨e1, _, e3, _⟩ <;> exact ⟨by omega, hf.2⟩
  | case3 f sql f' h ih =>
    obtain ⟨res, e, hs⟩ := scanCore_spec f
    rw [h] at e; injection e with e; subst e
    simp only at hs
    obtain ⟨hb, hp, hw⟩ := hs
    have hf := hI f (by simp)
    have hI' : Inv B [f', newFrame dd sql] := by
      intro x hx
      simp only [List.mem_cons, List.mem_nil_iff, or_false] at hx
      rcases hx with rfl | rfl
      · rw [hb, hp]; exact ⟨by omega, hf.2⟩
      · rw [weight_newFrame]; simp only [newFrame]; exact ⟨by omega, by omega⟩
    obtain ⟨t, l', e, g1, g2, g3, g4⟩ := ih hI'
    have hmu : mu [f', newFrame dd sql] < mu [f] := scanCore_special_mu dd f f' sql h
    exact ⟨t, l', e, by omega, fun _ => by omega, by omega, g4⟩
  | case4 f h => exact absurd h (by obtain ⟨res, e, _⟩ := scanCore_spec f; rw [e]; simp)
  | case5 f h => exact absurd h (by obtain ⟨res, e, _⟩ := scanCore_spec f; rw [e]; simp)
  | case6 f g sp t sp' hsc hteof ih1 ih2 =>
    -- the nested tokenizer is at its end: dropped, the tokenizer scans its own input
    have hIsp : Inv B (g :: sp) := fun x hx => hI x (List.mem_cons_of_mem _ hx)
    have hIf : Inv B [f] := fun x hx => hI x (by simp only [List.mem_cons, List.mem_nil_iff, or_false] at hx; simp [hx])
    obtain ⟨t2, l2, e2, g1, g2, g3, g4⟩ := ih2 hIf
    have hmu : mu [f] ≤ mu (f :: g :: sp) := by simp only [mu, List.map_cons, List.sum_cons, List.map_nil, List.sum_nil]; omega
    exact ⟨t2, l2, e2, by omega, fun hne => by have := g2 hne; omega, by omega, g4⟩
  | case7 f g sp t sp' hsc hteof ih1 =>
    have hIsp : Inv B (g :: sp) := fun x hx => hI x (List.mem_cons_of_mem _ hx)
    obtain ⟨t1, l1, e1, g1, g2, g3, g4⟩ := ih1 hIsp
    rw [hsc] at e1; injection e1 with e1; injection e1 with ea eb; subst ea; subst eb
    refine ⟨_, _, rfl, ?_, fun hne => ?_, ?_, ?_⟩
    · simp only [mu, List.map_cons, List.sum_cons] at g1 ⊢; omega
    · have := g2 hne; simp only [mu, List.map_cons, List.sum_cons] at this ⊢; omega
    · simp only [mu, List.map_cons, List.sum_cons] at g3 ⊢; omega
    · intro x hx
      rcases List.mem_cons.mp hx with rfl | hx
      · exact hI _ (by simp)
      · exact g4 x hx
  | case8 f g sp hsc ih1 =>
    have hIsp : Inv B (g :: sp) := fun x hx => hI x (List.mem_cons_of_mem _ hx)
    obtain ⟨t1, l1, e1, _⟩ := ih1 hIsp
    rw [hsc] at e1; cases e1
  | case9 f g sp hsc ih1 =>
    have hIsp : Inv B (g :: sp) := fun x hx => hI x (List.mem_cons_of_mem _ hx)
    obtain ⟨t1, l1, e1, _⟩ := ih1 hIsp
    rw [hsc] at e1; cases e1


/-! ## the token stream -/

def payloadSum (ts : List (Token × Nat)) : Nat := (ts.map (·.1.val.length)).sum
def extraSum (B : Nat) (ts : List (Token × Nat)) : Nat := (ts.map (fun p => qExtra B p.1)).sum

/-- the loop from any state that satisfies the invariant: it ends without panic after at most `mu l` tokens, and the
payloads together are no longer than `mu l` plus the placeholder allowances -/
theorem tokenizeFrom_spec (dd : Dialect) (B : Nat) (l : List Frame) (hI : Inv B l) (hne : l ≠ []) :
    ∃ ts, tokenizeFrom dd l = .ok ts ∧ ts.length ≤ mu l ∧ payloadSum ts ≤ mu l + extraSum B ts := by
  fun_induction tokenizeFrom dd l with
  | case1 l t l' h p hc =>
    have hpos : 0 < mu l := by
      cases l with
      | nil => exact absurd rfl hne
      | cons f r => have := weight_pos f; simp only [mu, List.map_cons, List.sum_cons]; omega
    obtain ⟨t1, l1, e, g1, g2, g3, g4⟩ := scan_spec dd B l hI
    rw [h] at e; injection e with e; injection e with ea eb; subst ea; subst eb
    exact ⟨_, rfl, by simp only [List.length_cons, List.length_nil]; omega, by simp only [payloadSum, extraSum, List.map_cons, List.map_nil, List.sum_cons, List.sum_nil]; omega⟩
  | case2 l t l' h p hc ts hrec ih =>
    obtain ⟨t1, l1, e, g1, g2, g3, g4⟩ := scan_spec dd B l hI
    rw [h] at e; injection e with e; injection e with ea eb; subst ea; subst eb
    obtain ⟨_, _, e', _, _, hn⟩ := scan_total dd l
    rw [h] at e'; injection e' with e'; injection e' with ea eb; subst ea; subst eb
    obtain ⟨ts', e2, k1, k2⟩ := ih g4 (hn hne)
    rw [hrec] at e2; injection e2 with e2; subst e2
    have := g2 hc
    refine ⟨_, rfl, by simp only [List.length_cons]; omega, ?_⟩
    simp only [payloadSum, extraSum, List.map_cons, List.sum_cons] at k2 ⊢
    omega
  | case3 l t l' h hc hrec ih =>
    obtain ⟨t1, l1, e, g1, g2, g3, g4⟩ := scan_spec dd B l hI
    rw [h] at e; injection e with e; injection e with ea eb; subst ea; subst eb
    obtain ⟨_, _, e', _, _, hn⟩ := scan_total dd l
    rw [h] at e'; injection e' with e'; injection e' with ea eb; subst ea; subst eb
    obtain ⟨ts', e2, _⟩ := ih g4 (hn hne)
    rw [hrec] at e2; cases e2
  | case4 l t l' h hc hrec ih =>
    obtain ⟨t1, l1, e, g1, g2, g3, g4⟩ := scan_spec dd B l hI
    rw [h] at e; injection e with e; injection e with ea eb; subst ea; subst eb
    obtain ⟨_, _, e', _, _, hn⟩ := scan_total dd l
    rw [h] at e'; injection e' with e'; injection e' with ea eb; subst ea; subst eb
    obtain ⟨ts', e2, _⟩ := ih g4 (hn hne)
    rw [hrec] at e2; cases e2
  | case5 l h => obtain ⟨_, _, e, _⟩ := scan_total dd l; rw [h] at e; cases e
  | case6 l h => obtain ⟨_, _, e, _⟩ := scan_total dd l; rw [h] at e; cases e

theorem inv_initial (d : Dialect) (input : Bytes) (multi : Bool) : Inv input.length (initial d input multi) := by
  intro f hf
  simp only [initial, List.mem_cons, List.mem_nil_iff, or_false] at hf
  subst hf
  simp [weight]

theorem mu_initial (d : Dialect) (input : Bytes) (multi : Bool) : mu (initial d input multi) = input.length + 1 := by
  simp [mu, initial, weight]

/-- `Lex` never panics either and makes the same progress -/
theorem lex_total (dd : Dialect) (ac : Bool) (l : List Frame) :
    ∃ t l', lex dd ac l = .ok (t, l') ∧ mu l' ≤ mu l ∧ (t.typ ≠ .eof → mu l' < mu l) := by
  fun_induction lex dd ac l with
  | case1 l t l' h hc ih =>
    obtain ⟨t2, l2, e, g1, g2⟩ := ih
    have := scan_progress h (by rw [hc.1]; simp)
    exact ⟨t2, l2, e, by omega, fun _ => by omega⟩
  | case2 l t l' h hc =>
    obtain ⟨t1, l1, e, g1, g2, _⟩ := scan_total dd l
    rw [h] at e; injection e with e; injection e with ea eb; subst ea; subst eb
    exact ⟨_, _, rfl, g1, g2⟩
  | case3 l h => obtain ⟨_, _, e, _⟩ := scan_total dd l; rw [h] at e; cases e
  | case4 l h => obtain ⟨_, _, e, _⟩ := scan_total dd l; rw [h] at e; cases e

/-- the parser sets `ForceEOF` on the tokenizer it was given (the outermost one) -/
def setForceEOF : List Frame → List Frame
  | f :: r => { f with forceEOF := true } :: r
  | [] => []

theorem mu_setForceEOF (l : List Frame) : mu (setForceEOF l) = mu l := by
  cases l <;> rfl

def applyForce (force : Option Nat) (l : List Frame) : List Frame := if force = some 0 then setForceEOF l else l

theorem mu_applyForce (force : Option Nat) (l : List Frame) : mu (applyForce force l) = mu l := by
  unfold applyForce; split
  · exact mu_setForceEOF l
  · rfl

/-- the stream the parser sees: `for { tok := Lex(); if tok == 0 { break } }`; `force = some k`: after `k` tokens the
parser sets `ForceEOF` (the grammar does so for statements it does not parse further). -/
def lexFrom (dd : Dialect) (allowComments : Bool) (force : Option Nat) (l : List Frame) : Out (List (Token × Nat)) :=
  match h : lex dd allowComments (applyForce force l) with
  | .ok (t, l') =>
    let p := (l'.head?.map (·.pos)).getD 0
    if hc : t.typ = .eof then .ok [(t, p)]
    else
      match lexFrom dd allowComments (force.map (· - 1)) l' with
      | .ok ts => .ok ((t, p) :: ts)
      | .err => .err
      | .panic => .panic
  | .err => .err
  | .panic => .panic
termination_by mu l
decreasing_by
  obtain ⟨t1, l1, e, _, g⟩ := lex_total dd allowComments (applyForce force l)
  rw [h] at e; injection e with e; injection e with ea eb; subst ea; subst eb
  have := g hc
  rw [mu_applyForce] at this; exact this


/-- the parser's loop ends without panic, whatever it does with `ForceEOF` and comments -/
theorem lexFrom_total (dd : Dialect) (ac : Bool) (force : Option Nat) (l : List Frame) : ∃ ts, lexFrom dd ac force l = .ok ts := by
  fun_induction lexFrom dd ac force l with
  | case1 => exact ⟨_, rfl⟩
  | case2 _ _ _ _ _ _ _ ts hrec => exact ⟨_, rfl⟩
  | case3 _ _ _ _ _ _ hrec ih => obtain ⟨ts, e⟩ := ih; rw [hrec] at e; cases e
  | case4 _ _ _ _ _ _ hrec ih => obtain ⟨ts, e⟩ := ih; rw [hrec] at e; cases e
  | case5 force l h => obtain ⟨_, _, e, _⟩ := lex_total dd ac (applyForce force l); rw [h] at e; cases e
  | case6 force l h => obtain ⟨_, _, e, _⟩ := lex_total dd ac (applyForce force l); rw [h] at e; cases e

end AcraModel.Sql.Tokenizer
