import AcraModel.Sql.Tokenizer
/-!
# Lemmas about the scanners of `Sql/Tokenizer.lean`

For every scanner: it never panics, the suffix it leaves is no longer than the one it got, and the payload it
returns is no longer than what it consumed (plus the constant prefix it writes). `scanSuffix_spec` collects this
for one `Scan`; `scanCore_tok` / `scanCore_special` restate it for frames in terms of the measure `weight` – these
are the facts the termination proofs of `scan`, `lex` and `tokenize` (`Sql/TokenizerLoop.lean`) rest on.
-/
namespace AcraModel.Sql.Tokenizer
open AcraModel

/-! ## what the proofs need from the regenerated tables -/

/-- Facts about the regenerated tables that the proofs use (each is restated as a `fact_tok_*` theorem in `Props/C14`). -/
structure TableFacts : Prop where
  /-- `digitVal(eofChar)` is not below any base in use: `scanMantissa` never calls `consumeNext` at end of input -/
  eof_digit : ¬ digitValN G.eofChar < 16
  /-- every `isDigit` character is a decimal digit for `scanMantissa(10)` or the `0` of the `0x` test: `scanNumber`
  called on a digit consumes it -/
  digit_val : ∀ n ∈ G.digitChars, G.digitVals.getD n 16 < 10
  /-- `ExtractMysqlComment` handles the comment that holds only version digits -/
  version_handled : G.versionOnlyHandled = true
  comment_lo : G.versionCommentLo = 3
  comment_hi : G.versionCommentHi = 2

theorem tableFacts : TableFacts where
  eof_digit := by decide
  digit_val := by decide
  version_handled := rfl
  comment_lo := rfl
  comment_hi := rfl

theorem isDigit_digitVal (c : UInt8) (h : isDigit c = true) : digitVal c < 10 := by
  unfold isDigit at h
  have hm : c.toNat ∈ G.digitChars := by simpa using h
  exact tableFacts.digit_val _ hm

/-! ## chunk scanners -/

theorem skipBlank_length : ∀ s, (skipBlank s).length ≤ s.length
  | [] => by simp [skipBlank]
  | c :: t => by
    unfold skipBlank
    split
    · have := skipBlank_length t; simp; omega
    · simp

theorem skipStatement_length : ∀ s, (skipStatement s).length ≤ s.length
  | [] => by simp [skipStatement]
  | c :: t => by
    unfold skipStatement
    split
    · simp
    · have := skipStatement_length t; simp; omega

theorem mantissa_spec (base : Nat) (hb : ¬ digitValN G.eofChar < base) :
    ∀ s, ∃ m r, scanMantissa base s = .ok (m, r) ∧ m ++ r = s
  | [] => ⟨[], [], by simp [scanMantissa, hb], rfl⟩
  | c :: t => by
    obtain ⟨m, r, h, e⟩ := mantissa_spec base hb t
    by_cases hc : digitVal c < base
    · exact ⟨c :: m, r, by simp [scanMantissa, hc, h], by simp [e]⟩
    · exact ⟨[], c :: t, by simp [scanMantissa, hc], rfl⟩

theorem base_ok {base : Nat} (h : base ≤ 16) : ¬ digitValN G.eofChar < base := by
  have := tableFacts.eof_digit; omega

theorem lineLoop_spec : ∀ s, ∃ b r, lineLoop s = .ok (b, r) ∧ b ++ r = s
  | [] => ⟨[], [], rfl, rfl⟩
  | c :: t => by
    obtain ⟨b, r, h, e⟩ := lineLoop_spec t
    by_cases hc : c = 10
    · exact ⟨[c], t, by simp [lineLoop, hc, consume1], rfl⟩
    · exact ⟨c :: b, r, by simp [lineLoop, hc, consume1, h], by simp [e]⟩

theorem blockLoop_spec : ∀ s, ∃ ok b r, blockLoop s = .ok (ok, b, r) ∧ b ++ r = s ∧ (ok = true → 2 ≤ b.length)
  | [] => ⟨false, [], [], rfl, rfl, by simp⟩
  | c :: t => by
    obtain ⟨ok, b, r, h, e, hl⟩ := blockLoop_spec t
    by_cases hc : (c == 42 && headIs (fun x => x == 47) t) = true
    · cases t with
      | nil => simp [headIs] at hc
      | cons c2 t2 =>
        exact ⟨true, [c, c2], t2, by simp [blockLoop, consume1, hc], rfl, by simp⟩
    · refine ⟨ok, c :: b, r, ?_, by simp [e], fun h => by have := hl h; simp; omega⟩
      simp only [blockLoop, consume1, hc]
      simp [h]


/-! ## result predicates -/

/-- a scanner result: no panic, the suffix left is at most `a` long, payload + suffix left at most `b` -/
def Bnd (a b : Nat) (x : Out (Token × Bytes)) : Prop :=
  ∃ t r, x = .ok (t, r) ∧ r.length ≤ a ∧ t.val.length + r.length ≤ b

theorem Bnd.mono {a b a' b' : Nat} {x : Out (Token × Bytes)} (h : Bnd a b x) (ha : a ≤ a') (hb : b ≤ b') : Bnd a' b' x := by
  obtain ⟨t, r, e, h1, h2⟩ := h
  exact ⟨t, r, e, by omega, by omega⟩

/-- exact form: the payload is `pre` followed by exactly the bytes consumed -/
def NumSpec (pre s : Bytes) (x : Out (Token × Bytes)) : Prop :=
  ∃ t r c, x = .ok (t, r) ∧ t.val = pre ++ c ∧ c ++ r = s

theorem NumSpec.bnd {pre s : Bytes} {x : Out (Token × Bytes)} (h : NumSpec pre s x) : Bnd s.length (s.length + pre.length) x := by
  obtain ⟨t, r, c, e, hv, hc⟩ := h
  refine ⟨t, r, e, ?_, ?_⟩
  · rw [← hc]; simp
  · rw [hv, ← hc]; simp; omega

/-! ## numbers -/

theorem numberExit_val (n : String) (buf s : Bytes) : (numberExit n buf s).1.val = buf := by
  unfold numberExit; split <;> rfl

theorem numberExit_rest (n : String) (buf s : Bytes) : (numberExit n buf s).2 = s := by
  unfold numberExit; split <;> rfl

theorem numberExit_spec (n : String) (buf s : Bytes) : NumSpec buf s (.ok (numberExit n buf s)) :=
  ⟨(numberExit n buf s).1, (numberExit n buf s).2, [], rfl, by simp [numberExit_val], by simp [numberExit_rest]⟩

theorem headIs_cons {p : UInt8 → Bool} {s : Bytes} (h : headIs p s = true) : ∃ c t, s = c :: t ∧ p c = true := by
  cases s with
  | nil => simp [headIs] at h
  | cons c t => exact ⟨c, t, rfl, by simpa [headIs] using h⟩

/-- a scanner that continues after `k` more bytes were written and consumed -/
theorem NumSpec.extend {buf k s : Bytes} {x : Out (Token × Bytes)} (h : NumSpec (buf ++ k) s x) : NumSpec buf (k ++ s) x := by
  obtain ⟨t, r, c, e, hv, hc⟩ := h
  exact ⟨t, r, k ++ c, e, by simp [hv], by simp [hc]⟩

theorem numberExponent_spec (n : String) (buf s : Bytes) : NumSpec buf s (numberExponent n buf s) := by
  unfold numberExponent
  split
  · next h =>
    obtain ⟨c0, t0, rfl, _⟩ := headIs_cons h
    simp only [consume1]
    by_cases h2 : headIs (fun c => c == 43 || c == 45) t0 = true
    · obtain ⟨c1, t1, rfl, _⟩ := headIs_cons h2
      simp only [h2, if_true]
      obtain ⟨m, r, hm, e⟩ := mantissa_spec 10 (base_ok (by decide)) t1
      simp only [hm]
      have := (numberExit_spec "FLOAT" (buf ++ [c0] ++ [c1] ++ m) r).extend.extend.extend
      simpa [← e] using this
    · simp only [h2]
      obtain ⟨m, r, hm, e⟩ := mantissa_spec 10 (base_ok (by decide)) t0
      simp only [Bool.false_eq_true, if_false, hm]
      have := (numberExit_spec "FLOAT" (buf ++ [c0] ++ [] ++ m) r).extend.extend.extend
      simpa [← e] using this
  · exact numberExit_spec n buf s

theorem numberDecimal_spec (buf s : Bytes) : NumSpec buf s (numberDecimal buf s) := by
  unfold numberDecimal
  obtain ⟨m, r, hm, e⟩ := mantissa_spec 10 (base_ok (by decide)) s
  simp only [hm]
  split
  · next h =>
    obtain ⟨c0, t0, rfl, _⟩ := headIs_cons h
    simp only [consume1]
    obtain ⟨m2, r2, hm2, e2⟩ := mantissa_spec 10 (base_ok (by decide)) t0
    simp only [hm2]
    have := (numberExponent_spec "FLOAT" (buf ++ m ++ [c0] ++ m2) r2).extend.extend.extend
    simpa [← e, ← e2] using this
  · have := (numberExponent_spec "INTEGRAL" (buf ++ m) r).extend
    simpa [← e] using this

/-- on a decimal digit the mantissa loop of `numberDecimal` takes it -/
theorem numberDecimal_first (buf : Bytes) (c0 : UInt8) (t0 : Bytes) (hd : digitVal c0 < 10) :
    NumSpec (buf ++ [c0]) t0 (numberDecimal buf (c0 :: t0)) := by
  unfold numberDecimal
  obtain ⟨m, r, hm, e⟩ := mantissa_spec 10 (base_ok (by decide)) t0
  have hm' : scanMantissa 10 (c0 :: t0) = .ok (c0 :: m, r) := by simp [scanMantissa, hd, hm]
  simp only [hm']
  split
  · next h =>
    obtain ⟨c1, t1, rfl, _⟩ := headIs_cons h
    simp only [consume1]
    obtain ⟨m2, r2, hm2, e2⟩ := mantissa_spec 10 (base_ok (by decide)) t1
    simp only [hm2]
    have := (numberExponent_spec "FLOAT" (buf ++ [c0] ++ m ++ [c1] ++ m2) r2).extend.extend.extend
    simpa [← e, ← e2] using this
  · have := (numberExponent_spec "INTEGRAL" (buf ++ [c0] ++ m) r).extend
    simpa [← e] using this

theorem scanNumber_spec (b : Bool) (s : Bytes) : NumSpec (if b then [46] else []) s (scanNumber b s) := by
  unfold scanNumber
  cases b with
  | true =>
    simp only [if_true]
    obtain ⟨m, r, hm, e⟩ := mantissa_spec 10 (base_ok (by decide)) s
    simp only [hm]
    have := (numberExponent_spec "FLOAT" ([46] ++ m) r).extend
    simpa [← e] using this
  | false =>
    simp only [Bool.false_eq_true, if_false]
    split
    · next h =>
      obtain ⟨c0, t0, rfl, _⟩ := headIs_cons h
      simp only [consume1]
      split
      · next h2 =>
        obtain ⟨c1, t1, rfl, _⟩ := headIs_cons h2
        obtain ⟨m, r, hm, e⟩ := mantissa_spec 16 (base_ok (by decide)) t1
        simp only [hm]
        have := (numberExit_spec "HEXNUM" ([] ++ [c0] ++ [c1] ++ m) r).extend.extend.extend
        simpa [← e] using this
      · have := (numberDecimal_spec ([] ++ [c0]) t0).extend
        simpa using this
    · exact numberDecimal_spec [] s

/-- `scanNumber(false)` called on a digit consumes it -/
theorem scanNumber_digit (c : UInt8) (t : Bytes) (hd : isDigit c = true) : NumSpec [c] t (scanNumber false (c :: t)) := by
  unfold scanNumber
  simp only [Bool.false_eq_true, if_false]
  split
  · simp only [consume1]
    split
    · next h2 =>
      obtain ⟨c1, t1, rfl, _⟩ := headIs_cons h2
      obtain ⟨m, r, hm, e⟩ := mantissa_spec 16 (base_ok (by decide)) t1
      simp only [hm]
      have := (numberExit_spec "HEXNUM" ([c] ++ [c1] ++ m) r).extend.extend
      simpa [← e] using this
    · exact numberDecimal_spec [c] t
  · have := numberDecimal_first [] c t (isDigit_digitVal c hd)
    simpa using this


/-! ## strings, identifiers, literals -/

/-- closes the length goals of the `Bnd` lemmas -/
macro "bnd" : tactic => `(tactic| first | omega | (simp [tokNamed] <;> omega) | (simp [tokNamed] at * <;> omega) | simp [tokNamed])

@[simp] theorem consB_val (c : UInt8) (x : Bool × Bytes × Bytes) : (consB c x).2.1 = c :: x.2.1 := rfl
@[simp] theorem consB_rest (c : UInt8) (x : Bool × Bytes × Bytes) : (consB c x).2.2 = x.2.2 := rfl
@[simp] theorem consB_ok (c : UInt8) (x : Bool × Bytes × Bytes) : (consB c x).1 = x.1 := rfl

theorem scanStr_bound (delim : UInt8) (first : Bool) (s : Bytes) :
    (scanStr delim first s).2.1.length + (scanStr delim first s).2.2.length ≤ s.length := by
  fun_induction scanStr delim first s <;> simp_all <;> omega

theorem scanString_bnd (delim : UInt8) (typ : TokType) (s : Bytes) : Bnd s.length s.length (.ok (scanString delim typ s)) := by
  have h := scanStr_bound delim true s
  unfold scanString
  rcases hx : scanStr delim true s with ⟨ok, v, r⟩
  rw [hx] at h
  simp only at h
  cases ok <;> exact ⟨_, _, rfl, by bnd, by bnd⟩

theorem litIdentLoop_bound (d : Dialect) (s : Bytes) :
    (litIdentLoop d s).2.1.length + (litIdentLoop d s).2.2.length ≤ s.length := by
  fun_induction litIdentLoop d s <;> simp_all <;> omega

theorem scanLiteralIdentifier_bnd (d : Dialect) (s : Bytes) : Bnd s.length s.length (.ok (scanLiteralIdentifier d s)) := by
  have h := litIdentLoop_bound d s
  unfold scanLiteralIdentifier
  rcases hx : litIdentLoop d s with ⟨q, b, r⟩
  rw [hx] at h
  simp only at h
  cases q with
  | none => exact ⟨_, _, rfl, by bnd, by bnd⟩
  | some q =>
    simp only
    split
    · exact ⟨_, _, rfl, by bnd, by bnd⟩
    · split <;> exact ⟨_, _, rfl, by bnd, by bnd⟩

theorem take_drop_while_length (p : UInt8 → Bool) (s : Bytes) : (s.takeWhile p).length + (s.dropWhile p).length = s.length := by
  have := congrArg List.length (List.takeWhile_append_dropWhile (p := p) (l := s))
  rw [List.length_append] at this
  exact this

theorem scanIdentifier_bnd (d : Dialect) (ch : UInt8) (sv : Bool) (t : Bytes) :
    Bnd t.length (t.length + 1) (.ok (scanIdentifier d ch sv t)) := by
  unfold scanIdentifier
  have h := take_drop_while_length (fun c => isLetter c || isDigit c || (sv && isCarat d c)) t
  simp only
  split
  · exact ⟨_, _, rfl, by bnd, by bnd⟩
  · split <;> exact ⟨_, _, rfl, by bnd, by bnd⟩

theorem bindVarTail_bnd (name : String) (buf t1 : Bytes) : Bnd t1.length (t1.length + buf.length) (.ok (bindVarTail name buf t1)) := by
  unfold bindVarTail
  have h := take_drop_while_length (fun c => isLetter c || isDigit c || c == 46) t1
  split
  · exact ⟨_, _, rfl, by bnd, by bnd⟩
  · exact ⟨_, _, rfl, by bnd, by bnd⟩

theorem scanBindVar_bnd (c : UInt8) (t : Bytes) : Bnd t.length (t.length + 1) (.ok (scanBindVar (c :: t))) := by
  cases t with
  | nil => exact (bindVarTail_bnd "VALUE_ARG" [c] []).mono (by simp) (by simp)
  | cons c2 t2 =>
    simp only [scanBindVar]
    split
    · exact (bindVarTail_bnd "LIST_ARG" [c, c2] t2).mono (by simp) (by simp)
    · exact (bindVarTail_bnd "VALUE_ARG" [c] (c2 :: t2)).mono (by simp) (by simp)

theorem scanHex_bnd (s : Bytes) : Bnd s.length s.length (scanHex s) := by
  unfold scanHex
  obtain ⟨m, r, hm, e⟩ := mantissa_spec 16 (base_ok (by decide)) s
  have hl : m.length + r.length = s.length := by rw [← e]; simp
  simp only [hm]
  cases r with
  | nil => exact ⟨_, _, rfl, by bnd, by bnd⟩
  | cons c t =>
    simp only
    split
    · split <;> exact ⟨_, _, rfl, by bnd, by bnd⟩
    · exact ⟨_, _, rfl, by bnd, by bnd⟩

theorem scanBitLiteral_bnd (s : Bytes) : Bnd s.length s.length (scanBitLiteral s) := by
  unfold scanBitLiteral
  obtain ⟨m, r, hm, e⟩ := mantissa_spec 2 (base_ok (by decide)) s
  have hl : m.length + r.length = s.length := by rw [← e]; simp
  simp only [hm]
  cases r with
  | nil => exact ⟨_, _, rfl, by bnd, by bnd⟩
  | cons c t =>
    simp only
    split <;> exact ⟨_, _, rfl, by bnd, by bnd⟩

theorem scanDollarParameter_bnd (t : Bytes) : Bnd t.length (t.length + 1) (scanDollarParameter t) := by
  unfold scanDollarParameter
  obtain ⟨tk, r, c, e, hv, hc⟩ := scanNumber_spec false t
  have hl : c.length + r.length = t.length := by rw [← hc]; simp
  simp only [Bool.false_eq_true, if_false, List.nil_append] at hv
  simp only [e]
  split
  · exact ⟨_, _, rfl, by bnd, by simp [tokNamed, hv]; omega⟩
  · exact ⟨_, _, rfl, by bnd, by bnd⟩

theorem scanCommentType1_bnd (pre s : Bytes) : Bnd s.length (s.length + pre.length) (scanCommentType1 pre s) := by
  unfold scanCommentType1
  obtain ⟨b, r, h, e⟩ := lineLoop_spec s
  have hl : b.length + r.length = s.length := by rw [← e]; simp
  simp only [h]
  exact ⟨_, _, rfl, by bnd, by bnd⟩

theorem scanCommentType2_bnd (s : Bytes) : Bnd s.length (s.length + 2) (scanCommentType2 s) := by
  unfold scanCommentType2
  obtain ⟨ok, b, r, h, e, _⟩ := blockLoop_spec s
  have hl : b.length + r.length = s.length := by rw [← e]; simp
  simp only [h]
  cases ok <;> exact ⟨_, _, rfl, by bnd, by bnd⟩


/-- the C13 literal codec model (`Literal.scanString`, value or `none`) is the success case of the tokenizer's loop -/
theorem scanStr_of_literal (delim : UInt8) (first : Bool) (s v r : Bytes)
    (h : Literal.scanString delim first s = some (v, r)) : scanStr delim first s = (true, v, r) := by
  fun_induction Literal.scanString delim first s generalizing v r with
  | case1 => cases h
  | case2 first c hc => cases h
  | case3 first c hc hd => simp only [Option.some.injEq, Prod.mk.injEq] at h; obtain ⟨rfl, rfl⟩ := h; simp [scanStr, hc, hd]
  | case4 first c hc hd => simp [Literal.consR] at h
  | case5 first c e rest hc hx ih =>
    cases hr : Literal.scanString delim false rest with
    | none => rw [hr] at h; simp [Literal.consR] at h
    | some p =>
      obtain ⟨v', r'⟩ := p
      rw [hr] at h
      simp only [Literal.consR, Option.some.injEq, Prod.mk.injEq] at h
      obtain ⟨rfl, rfl⟩ := h
      have := ih v' r' hr
      simp only [scanStr, hc, hx, if_true, this, consB]
  | case6 first c e rest hc hx ih =>
    cases hr : Literal.scanString delim false rest with
    | none => rw [hr] at h; simp [Literal.consR] at h
    | some p =>
      obtain ⟨v', r'⟩ := p
      rw [hr] at h
      simp only [Literal.consR, Option.some.injEq, Prod.mk.injEq] at h
      obtain ⟨rfl, rfl⟩ := h
      have := ih v' r' hr
      simp [scanStr, hc, hx, this, consB]
  | case7 first c e rest hc hd he ih =>
    cases hr : Literal.scanString delim false rest with
    | none => rw [hr] at h; simp [Literal.consR] at h
    | some p =>
      obtain ⟨v', r'⟩ := p
      rw [hr] at h
      simp only [Literal.consR, Option.some.injEq, Prod.mk.injEq] at h
      obtain ⟨rfl, rfl⟩ := h
      have := ih v' r' hr
      simp [scanStr, hc, hd, he, this, consB]
  | case8 first c e rest hc hd he =>
    simp only [Option.some.injEq, Prod.mk.injEq] at h; obtain ⟨rfl, rfl⟩ := h
    simp [scanStr, hc, hd, he]
  | case9 first c e rest hc hd ih =>
    cases hr : Literal.scanString delim first (e :: rest) with
    | none => rw [hr] at h; simp [Literal.consR] at h
    | some p =>
      obtain ⟨v', r'⟩ := p
      rw [hr] at h
      simp only [Literal.consR, Option.some.injEq, Prod.mk.injEq] at h
      obtain ⟨rfl, rfl⟩ := h
      have := ih v' r' hr
      simp [scanStr, hc, hd, this, consB]

/-! ## `ExtractMysqlComment` -/

theorem decodeRune_width (b : UInt8) (r : Bytes) : (Wire.Bytea.decodeRune (b :: r)).2 ≤ (b :: r).length := by
  unfold Wire.Bytea.decodeRune
  simp only
  repeat' split
  all_goals (simp <;> omega)

theorem versionEnd_le : ∀ (k : Nat) (s : Bytes) (i j : Nat), versionEnd k s i = some j → j ≤ i + s.length
  | 0, _, _, _, h => by simp [versionEnd] at h
  | _ + 1, [], _, _, h => by simp [versionEnd] at h
  | k + 1, b :: r, i, j, h => by
    rcases hd : Wire.Bytea.decodeRune (b :: r) with ⟨c, w⟩
    have hw := decodeRune_width b r
    rw [hd] at hw
    simp only [versionEnd, hd] at h
    split at h
    · cases h; omega
    · have := versionEnd_le k _ _ _ h
      simp only [List.length_drop, List.length_cons] at this hw ⊢
      omega

theorem trimLeftSpace_length (s : Bytes) : (trimLeftSpace s).length ≤ s.length := by
  fun_induction trimLeftSpace s
  · simp
  · next b r c w hd hsp ih =>
    simp only [List.length_drop, List.length_cons] at ih ⊢
    omega
  · simp

theorem trimRightSpace_length (s : Bytes) : (trimRightSpace s).length ≤ s.length := by
  unfold trimRightSpace
  split
  · split <;> (simp only [List.length_take]; omega)
  · simp

theorem trimSpace_length (s : Bytes) : (trimSpace s).length ≤ s.length :=
  Nat.le_trans (trimRightSpace_length _) (trimLeftSpace_length s)

theorem extractMysqlComment_spec (buffer : Bytes) (h : 5 ≤ buffer.length) :
    ∃ v sql, extractMysqlComment buffer = .ok (v, sql) ∧ sql.length + 5 ≤ buffer.length := by
  have hlo : G.versionCommentLo = 3 := rfl
  have hhi : G.versionCommentHi = 2 := rfl
  have hh : G.versionOnlyHandled = true := rfl
  unfold extractMysqlComment
  rw [hlo, hhi, hh]
  have h1 : ¬ buffer.length < 2 := by omega
  simp only [h1, if_false]
  have hs : goSlice buffer 3 (buffer.length - 2) = .ok ((buffer.take (buffer.length - 2)).drop 3) := by
    unfold goSlice
    rw [if_pos ⟨by omega, by omega⟩]
  simp only [hs]
  generalize hsql : (buffer.take (buffer.length - 2)).drop 3 = sql
  have hsl : sql.length + 5 = buffer.length := by
    rw [← hsql]; simp only [List.length_drop, List.length_take]; omega
  have key : ∀ e, e ≤ sql.length →
      goSlice sql 0 e = .ok ((sql.take e).drop 0) ∧ goSliceFrom sql e = .ok (sql.drop e) ∧
        (trimSpace (sql.drop e)).length + 5 ≤ buffer.length := by
    intro e he
    refine ⟨?_, ?_, ?_⟩
    · unfold goSlice; rw [if_pos ⟨by omega, he⟩]
    · unfold goSliceFrom; rw [if_pos he]
    · have := trimSpace_length (sql.drop e)
      simp only [List.length_drop] at this
      omega
  cases hv : versionEnd G.versionDigitLimit sql 0 with
  | none =>
    obtain ⟨g1, g2, g3⟩ := key sql.length (Nat.le_refl _)
    simp only [if_true, g1, g2]
    exact ⟨_, _, rfl, g3⟩
  | some i =>
    have := versionEnd_le _ _ _ _ hv
    obtain ⟨g1, g2, g3⟩ := key i (by omega)
    simp only [g1, g2]
    exact ⟨_, _, rfl, g3⟩


/-! ## one `Scan` on the suffix -/

/-- what one `Scan` guarantees relative to the length `N` of the suffix it started from: no panic; the suffix left is
not longer, and strictly shorter unless the token is end-of-input; the payload is no longer than what was consumed –
except for the `?` placeholder, whose payload `:v<n>` is 1 + (digits of n) longer than the `?`; a version comment
hands a nested tokenizer an inner text at least 5 bytes shorter than what was consumed. -/
def SOk (N pv : Nat) (x : Out SRes) : Prop :=
  ∃ res, x = .ok res ∧
    match res with
    | .tok t r pv' =>
      r.length ≤ N ∧ (t.typ ≠ .eof → r.length < N) ∧
      ((pv' = pv ∧ t.val.length + r.length ≤ N) ∨
       (pv' = pv + 1 ∧ t.typ = .named "VALUE_ARG" ∧ r.length < N ∧ t.val.length + r.length ≤ N + 1 + (decimal pv').length))
    | .special sql r => sql.length + r.length + 5 ≤ N

theorem SOk_lift {N pv a b : Nat} {x : Out (Token × Bytes)} (h : Bnd a b x) (ha : a < N) (hb : b ≤ N) :
    SOk N pv (liftTok pv x) := by
  obtain ⟨t, r, e, h1, h2⟩ := h
  subst e
  exact ⟨_, rfl, by omega, fun _ => by omega, .inl ⟨rfl, by omega⟩⟩

theorem SOk_tok {N pv : Nat} (t : Token) (r : Bytes) (h1 : r.length < N) (h2 : t.val.length + r.length ≤ N) :
    SOk N pv (.ok (.tok t r pv)) :=
  ⟨_, rfl, by omega, fun _ => h1, .inl ⟨rfl, h2⟩⟩

theorem SOk_eof {N pv : Nat} (r : Bytes) (h : r.length ≤ N) : SOk N pv (.ok (.tok tokEof r pv)) :=
  ⟨_, rfl, h, fun hne => absurd rfl hne, .inl ⟨rfl, by simpa [tokEof] using h⟩⟩

theorem tail_length_of_head {t : Bytes} {c : UInt8} (h : t.head? = some c) : t.tail.length + 1 = t.length := by
  cases t with
  | nil => simp at h
  | cons a b => simp

theorem scanOperator_bnd (ch : UInt8) (t : Bytes) (r : Token × Bytes) (h : scanOperator ch t = some r) :
    Bnd t.length t.length (.ok r) := by
  have h1 : t.tail.length ≤ t.length := by simp
  have h2 : t.tail.tail.length ≤ t.length := by simp; omega
  unfold scanOperator at h
  simp only at h
  repeat' split at h
  all_goals (cases h)
  all_goals exact ⟨_, _, rfl, by first | exact h1 | exact h2 | exact Nat.le_refl _,
    by simp only [tokNamed, tokChar, List.length_nil, Nat.zero_add]; first | exact h1 | exact h2 | exact Nat.le_refl _⟩

theorem scanMySQLSpecificComment_spec (N pv : Nat) (s : Bytes) (hs : s ≠ []) (hN : s.length + 2 ≤ N) :
    SOk N pv (scanMySQLSpecificComment pv s) := by
  unfold scanMySQLSpecificComment
  obtain ⟨ok, b, r, h, e, hl⟩ := blockLoop_spec s.tail
  have hlen : b.length + r.length + 1 = s.length := by
    have := congrArg List.length e
    cases s with
    | nil => exact absurd rfl hs
    | cons c t => simp at this ⊢; omega
  simp only [h]
  cases ok with
  | false => exact SOk_tok _ _ (by omega) (by simp [tokNamed]; omega)
  | true =>
    have hb := hl rfl
    obtain ⟨v, sql, hx, hsql⟩ := extractMysqlComment_spec ([47, 42, 33] ++ b) (by simp; omega)
    simp only [hx]
    refine ⟨_, rfl, ?_⟩
    simp at hsql ⊢
    omega

theorem head_of_beq {t : Bytes} {c : UInt8} (h : (t.head? == some c) = true) : t.head? = some c := by
  simpa using h

theorem scanDispatch_spec (d : Dialect) (multi : Bool) (pv N : Nat) (ch : UInt8) (t : Bytes) (hN : t.length + 1 ≤ N) :
    SOk N pv (scanDispatch d multi pv ch t) := by
  unfold scanDispatch
  have ht1 : t.tail.length ≤ t.length := by simp
  have ht2 : t.tail.tail.length ≤ t.length := by simp; omega
  have hsb : (ch :: t).length ≤ N := by simpa using hN
  by_cases c1 : isLetter ch = true
  · rw [if_pos c1]
    by_cases a : ((ch == 88 || ch == 120) && t.head? == some 39) = true
    · rw [if_pos a]; exact SOk_lift (scanHex_bnd _) (by omega) (by omega)
    rw [if_neg a]
    by_cases b : ((ch == 66 || ch == 98) && t.head? == some 39) = true
    · rw [if_pos b]; exact SOk_lift (scanBitLiteral_bnd _) (by omega) (by omega)
    rw [if_neg b]
    by_cases c : ((ch == 69 || ch == 101) && t.head? == some 39) = true
    · rw [if_pos c]; exact SOk_lift (scanString_bnd _ _ _) (by omega) (by omega)
    rw [if_neg c]
    exact SOk_lift (scanIdentifier_bnd _ _ _ _) (by omega) (by omega)
  rw [if_neg c1]
  by_cases c2 : isDigit ch = true
  · rw [if_pos c2]; exact SOk_lift (NumSpec.bnd (scanNumber_digit ch t c2)) (by omega) (by simp; omega)
  rw [if_neg c2]
  by_cases c3 : (ch == 58) = true
  · rw [if_pos c3]; exact SOk_lift (scanBindVar_bnd ch t) (by omega) (by omega)
  rw [if_neg c3]
  by_cases c4 : (ch == 59 && multi) = true
  · rw [if_pos c4]; exact SOk_eof _ hsb
  rw [if_neg c4]
  by_cases c5 : G.simpleTokens.contains ch.toNat = true
  · rw [if_pos c5]; exact SOk_tok _ _ (by omega) (by simp [tokChar]; omega)
  rw [if_neg c5]
  by_cases c6 : (ch == 63) = true
  · rw [if_pos c6]
    refine ⟨_, rfl, by omega, fun _ => by omega, .inr ⟨rfl, rfl, by omega, ?_⟩⟩
    simp [tokNamed]; omega
  rw [if_neg c6]
  by_cases c7 : (ch == 46) = true
  · rw [if_pos c7]
    by_cases a : headIs isDigit t = true
    · rw [if_pos a]; exact SOk_lift (NumSpec.bnd (scanNumber_spec true t)) (by omega) (by simp; omega)
    · rw [if_neg a]; exact SOk_tok _ _ (by omega) (by simp [tokChar]; omega)
  rw [if_neg c7]
  by_cases c8 : (ch == 47) = true
  · rw [if_pos c8]
    by_cases a : (t.head? == some 47) = true
    · rw [if_pos a]
      have := tail_length_of_head (head_of_beq a)
      exact SOk_lift (scanCommentType1_bnd _ _) (by omega) (by simp; omega)
    rw [if_neg a]
    by_cases b : (t.head? == some 42) = true
    · rw [if_pos b]
      have := tail_length_of_head (head_of_beq b)
      by_cases c : (t.tail.head? == some 33) = true
      · rw [if_pos c]
        have h4 := tail_length_of_head (head_of_beq c)
        exact scanMySQLSpecificComment_spec _ _ _ (by intro h0; rw [h0] at c; simp at c) (by omega)
      · rw [if_neg c]; exact SOk_lift (scanCommentType2_bnd _) (by omega) (by omega)
    · rw [if_neg b]; exact SOk_tok _ _ (by omega) (by simp [tokChar]; omega)
  rw [if_neg c8]
  by_cases c9 : (ch == 35) = true
  · rw [if_pos c9]; exact SOk_lift (scanCommentType1_bnd _ _) (by omega) (by simp; omega)
  rw [if_neg c9]
  by_cases c10 : (ch == 45) = true
  · rw [if_pos c10]
    by_cases a : (t.head? == some 45) = true
    · rw [if_pos a]
      have := tail_length_of_head (head_of_beq a)
      exact SOk_lift (scanCommentType1_bnd _ _) (by omega) (by simp; omega)
    rw [if_neg a]
    by_cases b : (t.head? == some 62) = true
    · rw [if_pos b]
      by_cases c : (t.tail.head? == some 62) = true
      · rw [if_pos c]; exact SOk_tok _ _ (by omega) (by simp [tokNamed]; omega)
      · rw [if_neg c]; exact SOk_tok _ _ (by omega) (by simp [tokNamed]; omega)
    · rw [if_neg b]; exact SOk_tok _ _ (by omega) (by simp [tokChar]; omega)
  rw [if_neg c10]
  by_cases c11 : (ch == 36) = true
  · rw [if_pos c11]; exact SOk_lift (scanDollarParameter_bnd t) (by omega) (by omega)
  rw [if_neg c11]
  cases hop : scanOperator ch t with
  | some r => exact SOk_lift (scanOperator_bnd ch t r hop) (by omega) (by omega)
  | none =>
    show SOk N pv (if isIdentQuote d ch = true then _ else _)
    by_cases a : isIdentQuote d ch = true
    · rw [if_pos a]; exact SOk_lift (scanLiteralIdentifier_bnd _ _) (by omega) (by omega)
    rw [if_neg a]
    by_cases b : isStrQuote d ch = true
    · rw [if_pos b]; exact SOk_lift (scanString_bnd _ _ _) (by omega) (by omega)
    · rw [if_neg b]; exact SOk_tok _ _ (by omega) (by simp [tokNamed]; omega)

theorem scanSuffix_spec (d : Dialect) (multi : Bool) (pv : Nat) (s0 : Bytes) :
    SOk s0.length pv (scanSuffix d multi pv s0) := by
  unfold scanSuffix
  have hsb := skipBlank_length s0
  split
  · exact SOk_eof [] (by simp)
  · next ch t hs =>
    rw [hs] at hsb
    exact scanDispatch_spec d multi pv _ ch t (by simpa using hsb)


/-! ## frames -/

theorem start_length (f : Frame) : f.start.length ≤ f.buf.length + 1 - max f.pos 1 := by
  unfold Frame.start
  split
  · next h => simp [h]
  · next h =>
    have hd : (f.buf.drop (f.pos - 1)).length = f.buf.length - (f.pos - 1) := List.length_drop ..
    split
    · next c t hs =>
      rw [hs] at hd
      split <;> (simp only [List.length_cons] at hd ⊢; omega)
    · simp

@[simp] theorem weight_posVar (f : Frame) (pv : Nat) : weight { f with posVar := pv } = weight f := rfl

theorem weight_ge_start (f : Frame) : f.start.length + 1 ≤ weight f := by
  have := start_length f
  unfold weight; omega

theorem weight_atRest (f : Frame) (rest : Bytes) (h : rest.length ≤ f.start.length) : weight (f.atRest rest) = rest.length + 1 := by
  have := start_length f
  unfold weight Frame.atRest
  simp only
  omega

/-- what `scanCore` guarantees, in terms of the measure -/
def COk (f : Frame) (x : Out CoreRes) : Prop :=
  ∃ res, x = .ok res ∧
    match res with
    | .tok t f' =>
      f'.buf = f.buf ∧ weight f' ≤ weight f ∧ (t.typ ≠ .eof → weight f' < weight f) ∧
      ((f'.posVar = f.posVar ∧ t.val.length + weight f' ≤ weight f) ∨
       (f'.posVar = f.posVar + 1 ∧ t.typ = .named "VALUE_ARG" ∧ weight f' < weight f ∧
        t.val.length + weight f' ≤ weight f + 1 + (decimal f'.posVar).length))
    | .special sql f' => f'.buf = f.buf ∧ f'.posVar = f.posVar ∧ sql.length + weight f' + 5 ≤ weight f

theorem scanCore_spec (f : Frame) : COk f (scanCore f) := by
  unfold scanCore
  have hw := weight_ge_start f
  split
  · -- ForceEOF
    have hl := skipStatement_length f.start
    refine ⟨_, rfl, rfl, ?_, fun h => absurd rfl h, .inl ⟨rfl, ?_⟩⟩
    · rw [weight_atRest f _ hl]; omega
    · rw [weight_atRest f _ hl]; simp [tokEof]; omega
  · obtain ⟨res, e, h⟩ := scanSuffix_spec f.dialect f.multi f.posVar f.start
    rw [e]
    cases res with
    | tok t r pv' =>
      simp only at h ⊢
      obtain ⟨h1, h2, h3⟩ := h
      refine ⟨_, rfl, rfl, ?_, ?_, ?_⟩
      · rw [weight_posVar, weight_atRest f _ h1]; omega
      · intro hne; have := h2 hne; rw [weight_posVar, weight_atRest f _ h1]; omega
      · rcases h3 with ⟨e1, e2⟩ | ⟨e1, e2, e3, e4⟩
        · exact .inl ⟨e1, by rw [weight_posVar, weight_atRest f _ h1]; omega⟩
        · exact .inr ⟨e1, e2, by rw [weight_posVar, weight_atRest f _ h1]; omega,
            by rw [weight_posVar, weight_atRest f _ h1]; simp only; omega⟩
    | special sql r =>
      simp only at h ⊢
      have hr : r.length ≤ f.start.length := by omega
      exact ⟨_, rfl, rfl, rfl, by rw [weight_atRest f _ hr]; omega⟩

theorem weight_newFrame (dd : Dialect) (sql : Bytes) : weight (newFrame dd sql) = sql.length + 1 := by
  simp [weight, newFrame]

theorem weight_pos (f : Frame) : 0 < weight f := by unfold weight; omega

end AcraModel.Sql.Tokenizer
