import AcraModel.Sql.Shape
/-!
Helper lemmas for the redaction model (C16): literals of trees, decimal names, the pigeonhole
argument behind `newName`, and the traversal invariant "a covered tree leaves `walk` without literals".
The property theorems themselves are in `Props/C16.lean`.
-/
namespace AcraModel.Sql
open AcraModel

/-! ## literals of lists -/

theorem litsList_append (a b : List Tree) : litsList (a ++ b) = litsList a ++ litsList b := by
  induction a with
  | nil => simp [litsList]
  | cons x xs ih => simp [litsList, ih, List.append_assoc]

theorem litsList_drop_nil (l : List Tree) (n : Nat) (h : litsList l = []) : litsList (l.drop n) = [] := by
  have := litsList_append (l.take n) (l.drop n)
  rw [List.take_append_drop, h] at this
  have h2 := congrArg List.length this
  simp only [List.length_nil, List.length_append] at h2
  exact List.eq_nil_of_length_eq_zero (by omega)

theorem sqlVal?_kind {k : String} {ks : List Tree} {r : Nat × Bytes} (h : sqlVal? (.node k ks) = some r) : k = "SQLVal" := by
  unfold sqlVal? at h
  split at h
  · next heq => cases heq; rfl
  · cases h

theorem isLiteral_kind {k : String} {ks : List Tree} (h : isLiteral (.node k ks) = true) : k = "SQLVal" := by
  unfold isLiteral at h
  split at h
  · next r hr => exact sqlVal?_kind hr
  · cases h

theorem isLiteral_false_of_kind {k : String} {ks : List Tree} (h : k ≠ "SQLVal") : isLiteral (.node k ks) = false := by
  cases hh : isLiteral (.node k ks) with
  | false => rfl
  | true => exact absurd (isLiteral_kind hh) h

theorem lits_node_of_ne {k : String} {ks : List Tree} (h : k ≠ "SQLVal") : lits (.node k ks) = litsList ks := by
  rw [lits, isLiteral_false_of_kind h]; simp

theorem lits_node_not_literal {k : String} {ks : List Tree} (h : isLiteral (.node k ks) = false) :
    lits (.node k ks) = litsList ks := by
  rw [lits, h]; simp

/-! ## decimal names are injective -/

def digitsVal (b : Bytes) : Nat := b.foldl (fun a c => a * 10 + (c.toNat - 48)) 0

theorem digitsVal_append_single (l : Bytes) (d : UInt8) : digitsVal (l ++ [d]) = digitsVal l * 10 + (d.toNat - 48) := by
  simp [digitsVal, List.foldl_append]

theorem digit_toNat (n : Nat) (h : n < 10) : (UInt8.ofNat (48 + n)).toNat - 48 = n := by
  have : (UInt8.ofNat (48 + n)).toNat = 48 + n := by
    simp [UInt8.toNat_ofNat']; omega
  omega

theorem digitsVal_decDigits (fuel n : Nat) (h : n < fuel) : digitsVal (decDigits fuel n) = n := by
  induction fuel generalizing n with
  | zero => omega
  | succ f ih =>
    unfold decDigits
    by_cases h10 : n < 10
    · simp only [h10, if_true]
      simp [digitsVal]
      omega
    · simp only [h10, if_false]
      rw [digitsVal_append_single, ih (n / 10) (by omega), digit_toNat (n % 10) (by omega)]
      omega

theorem natDec_inj {a b : Nat} (h : natDec a = natDec b) : a = b := by
  have ha := digitsVal_decDigits (a + 1) a (by omega)
  have hb := digitsVal_decDigits (b + 1) b (by omega)
  unfold natDec at h
  rw [h] at ha
  omega

theorem nameOf_inj (pfx : Bytes) {a b : Nat} (h : nameOf pfx a = nameOf pfx b) : a = b := by
  unfold nameOf at h
  exact natDec_inj (List.append_cancel_left h)

/-! ## pigeonhole -/

theorem length_le_of_nodup_subset {α} [DecidableEq α] :
    ∀ (l₁ l₂ : List α), l₁.Nodup → (∀ x ∈ l₁, x ∈ l₂) → l₁.length ≤ l₂.length := by
  intro l₁
  induction l₁ with
  | nil => intros; simp
  | cons a l ih =>
    intro l₂ hnd hsub
    have ha : a ∈ l₂ := hsub a (by simp)
    rw [List.nodup_cons] at hnd
    have hsub' : ∀ x ∈ l, x ∈ l₂.erase a := by
      intro x hx
      have hne : x ≠ a := fun e => hnd.1 (e ▸ hx)
      exact (List.mem_erase_of_ne hne).mpr (hsub x (by simp [hx]))
    have := ih (l₂.erase a) hnd.2 hsub'
    rw [List.length_erase_of_mem ha] at this
    have hpos : 0 < l₂.length := List.length_pos_of_mem ha
    simp only [List.length_cons]
    omega

/-- among `|reserved| + 1` consecutive candidates one is free -/
theorem exists_free (pfx : Bytes) (reserved : List Bytes) (c : Nat) :
    ∃ j, j < reserved.length + 1 ∧ nameOf pfx (c + j) ∉ reserved := by
  apply Classical.byContradiction
  intro hno
  have hall : ∀ j, j < reserved.length + 1 → nameOf pfx (c + j) ∈ reserved := by
    intro j hj
    apply Classical.byContradiction
    intro hn
    exact hno ⟨j, hj, hn⟩
  let L := (List.range (reserved.length + 1)).map (fun j => nameOf pfx (c + j))
  have hnd : L.Nodup := by
    show List.Pairwise (· ≠ ·) _
    rw [List.pairwise_map]
    have hr : (List.range (reserved.length + 1)).Pairwise (· ≠ ·) := List.nodup_range
    refine hr.imp ?_
    intro x y hxy e
    have := nameOf_inj pfx e
    omega
  have hsub : ∀ x ∈ L, x ∈ reserved := by
    intro x hx
    rcases List.mem_map.mp hx with ⟨j, hj, rfl⟩
    exact hall j (List.mem_range.mp hj)
  have := length_le_of_nodup_subset L reserved hnd hsub
  simp [L] at this
  omega

theorem newNameAux_fresh (pfx : Bytes) (reserved : List Bytes) :
    ∀ (fuel c : Nat), (∃ j, j < fuel ∧ nameOf pfx (c + j) ∉ reserved) →
      (newNameAux pfx reserved fuel c).1 ∉ reserved ∧
      (newNameAux pfx reserved fuel c).1 = nameOf pfx (newNameAux pfx reserved fuel c).2 ∧
      c ≤ (newNameAux pfx reserved fuel c).2 := by
  intro fuel
  induction fuel with
  | zero => intro c ⟨j, hj, _⟩; omega
  | succ f ih =>
    intro c ⟨j, hj, hfree⟩
    unfold newNameAux
    by_cases hc : reserved.contains (nameOf pfx c) = true
    · simp only [hc, if_true]
      have hj0 : j ≠ 0 := by
        intro e; subst e
        simp at hfree
        exact hfree (by simpa using hc)
      have := ih (c + 1) ⟨j - 1, by omega, by
        have : c + 1 + (j - 1) = c + j := by omega
        rw [this]; exact hfree⟩
      exact ⟨this.1, this.2.1, by omega⟩
    · simp only [hc]
      refine ⟨?_, rfl, Nat.le_refl _⟩
      intro hm
      exact hc (by simpa using hm)

/-! ## covered trees

`covered t`: every literal of `t` sits where the traversal goes – below every node, a child that
`walkSubtree` does not visit holds no literal, and an `SQLVal` holds none besides itself (its `unknown`
operand). On real ASTs this is what `fact_walk_covers_children` (regenerated table) plus the grammar
give; the harness checks it on every parsed statement. -/

mutual
def covered : Tree → Bool
  | .atom _ => true
  | .node k ks => if k == "SQLVal" then (litsList ks).isEmpty else coveredKids (walkSpec k) 0 ks
def coveredKids (spec : WalkSpec) (i : Nat) : List Tree → Bool
  | [] => true
  | c :: cs => (if spec.visits i then covered c else (lits c).isEmpty) && coveredKids spec (i + 1) cs
end

/-- literals of a child list, not counting position `skip` (counted from `i`) -/
def litsExcept (skip : Option Nat) (i : Nat) : List Tree → List Bytes
  | [] => []
  | c :: cs => (if skip == some i then [] else lits c) ++ litsExcept skip (i + 1) cs

theorem litsExcept_none (i : Nat) (l : List Tree) : litsExcept none i l = litsList l := by
  induction l generalizing i with
  | nil => rfl
  | cons c cs ih => simp [litsExcept, litsList, ih]

theorem litsList_set (l : List Tree) (j i : Nat) (la : Tree) (hla : lits la = []) :
    litsList (l.set j la) = litsExcept (some (i + j)) i l := by
  induction l generalizing j i with
  | nil => simp [litsList, litsExcept]
  | cons c cs ih =>
    cases j with
    | zero =>
      simp only [List.set_cons_zero, litsList, litsExcept, hla, Nat.add_zero, beq_self_eq_true, if_true, List.nil_append]
      have : ∀ (l : List Tree) (m : Nat), i < m → litsExcept (some i) m l = litsList l := by
        intro l
        induction l with
        | nil => intros; rfl
        | cons d ds ihd =>
          intro m hm
          have hne : (some i == some m) = false := by simp; omega
          simp [litsExcept, litsList, hne, ihd (m + 1) (by omega)]
      exact (this cs (i + 1) (by omega)).symm
    | succ j' =>
      have hne : (some (i + (j' + 1)) == some i) = false := by simp
      simp only [List.set_cons_succ, litsList, litsExcept, hne]
      have := ih j' (i + 1)
      rw [show i + 1 + j' = i + (j' + 1) by omega] at this
      rw [this]
      simp

end AcraModel.Sql

namespace AcraModel.Sql
open AcraModel

/-- What the traversal proofs need from the regenerated tables (proved `by decide` in `Props/C16.lean`). -/
structure TableFacts : Prop where
  /-- every literal `ValType` is one that `maskLiterals` replaces -/
  lit_masked : ∀ ty, literalKinds.contains ty = true → maskedKinds.contains ty = true
  /-- the placeholder type `ValArg` is not a literal type -/
  valarg_not_lit : literalKinds.contains valArgNo = false
  /-- the decimal rendering of the `ValArg` number reads back -/
  valarg_dec : decVal (natDec valArgNo) = some valArgNo
  /-- a list argument is a leaf for the traversal -/
  listarg_leaf : walkSpec "ListArg" = .idx []

theorem sqlVal?_mk (ty : Nat) (v : Bytes) (rest : List Tree) :
    sqlVal? (mkSqlVal ty v rest) = (decVal (natDec ty)).map fun n => (n, v) := by
  simp [mkSqlVal, sqlVal?]

theorem lits_mkValArg (F : TableFacts) (v : Bytes) (rest : List Tree) :
    lits (mkSqlVal valArgNo v rest) = litsList rest := by
  have hs := sqlVal?_mk valArgNo v rest
  rw [F.valarg_dec] at hs
  have hl : isLiteral (mkSqlVal valArgNo v rest) = false := by
    unfold isLiteral; rw [hs]; simpa using F.valarg_not_lit
  unfold mkSqlVal at hl ⊢
  rw [lits_node_not_literal hl]
  simp [litsList, lits]

theorem covered_mkSqlVal (ty : Nat) (v : Bytes) (rest : List Tree) (h : litsList rest = []) :
    covered (mkSqlVal ty v rest) = true := by
  simp [mkSqlVal, covered, litsList, lits, h]

theorem isLiteral_false_of_not_masked (F : TableFacts) (t : Tree) (h : isMasked t = false) :
    isLiteral t = false := by
  unfold isLiteral
  unfold isMasked at h
  cases hs : sqlVal? t with
  | none => rfl
  | some r =>
    rw [hs] at h
    simp only at h ⊢
    cases hl : literalKinds.contains r.1 with
    | false => rfl
    | true => rw [F.lit_masked _ hl] at h; cases h

/-- `maskLiterals` on a value node leaves no literal when the node's other fields hold none -/
theorem maskVal_lits (F : TableFacts) (pfx : Bytes) (k : String) (ks : List Tree) (s : St)
    (h : litsList ks = []) : lits (maskVal pfx (.node k ks) s).1 = [] := by
  unfold maskVal
  by_cases hc : isMasked (.node k ks) = true
  · simp only [hc, if_true]
    rw [lits_mkValArg F]
    exact litsList_drop_nil ks 2 h
  · simp only [hc]
    have := isLiteral_false_of_not_masked F _ (by simpa using hc)
    simp [lits_node_not_literal this, h]

mutual
/-- the masking pass leaves no literal in a covered tree -/
theorem maskWalk_lits (F : TableFacts) (pfx : Bytes) :
    ∀ (t : Tree) (s : St), covered t = true → lits (maskWalk pfx t s).1 = []
  | .atom b, s, _ => by simp [maskWalk, lits]
  | .node k ks, s, h => by
    rw [maskWalk.eq_2]
    by_cases hk : (k == "SQLVal") = true
    · have hks : litsList ks = [] := by
        rw [covered, if_pos hk] at h
        simpa using h
      simp only [hk, if_true]
      exact maskVal_lits F pfx k ks s hks
    · have hcov : coveredKids (walkSpec k) 0 ks = true := by
        rw [covered, if_neg hk] at h; exact h
      have hne : k ≠ "SQLVal" := by simpa using hk
      simp only [hk, Bool.false_eq_true, if_false]
      rw [lits_node_of_ne hne]
      exact maskKids_lits F pfx (walkSpec k) 0 ks s hcov
theorem maskKids_lits (F : TableFacts) (pfx : Bytes) (spec : WalkSpec) :
    ∀ (i : Nat) (ks : List Tree) (s : St), coveredKids spec i ks = true →
      litsList (maskKids pfx spec i ks s).1 = []
  | _, [], _, _ => by simp [maskKids, litsList]
  | i, c :: cs, s, h => by
    rw [coveredKids, Bool.and_eq_true] at h
    rw [maskKids.eq_2]
    simp only [litsList]
    have htail := maskKids_lits F pfx spec (i + 1) cs
      (if spec.visits i = true then maskWalk pfx c s else (c, s)).2 h.2
    rw [htail, List.append_nil]
    by_cases hv : spec.visits i = true
    · simp only [hv, if_true]
      have hc : covered c = true := by simpa [hv] using h.1
      exact maskWalk_lits F pfx c s hc
    · simp only [hv, Bool.false_eq_true, if_false]
      simpa [hv] using h.1
end

/-! ### `Normalize` keeps a covered tree covered -/

theorem convert_covered (valid : Validator) (pfx : Bytes) (k : String) (ks : List Tree) (s : St)
    (hk : (k == "SQLVal") = true) (h : litsList ks = []) : covered (convert valid pfx (.node k ks) s).1 = true := by
  unfold convert
  split
  · exact covered_mkSqlVal _ _ _ (litsList_drop_nil ks 2 h)
  · simp [covered, hk, h]

theorem convertDedup_covered (valid : Validator) (pfx : Bytes) (k : String) (ks : List Tree) (s : St)
    (hk : (k == "SQLVal") = true) (h : litsList ks = []) : covered (convertDedup valid pfx (.node k ks) s).1 = true := by
  have hself : covered (.node k ks) = true := by simp [covered, hk, h]
  have hd := litsList_drop_nil ks 2 h
  unfold convertDedup
  split
  · exact hself
  · split
    · exact convert_covered valid pfx k ks s hk h
    · split
      · exact hself
      · simp only []
        repeat' split
        all_goals exact covered_mkSqlVal _ _ _ hd

theorem convertComparison_cases (valid : Validator) (pfx : Bytes) (ks : List Tree) (s : St) :
    (convertComparison valid pfx ks s).1 = none ∨
    ∃ n, (convertComparison valid pfx ks s).1 = some (cmpRightIdx, .node "ListArg" [.atom n]) := by
  unfold convertComparison
  simp only []
  repeat' split
  all_goals first | (left; rfl) | (right; exact ⟨_, rfl⟩)

theorem listArg_props (F : TableFacts) (n : Bytes) :
    covered (.node "ListArg" [.atom n]) = true ∧ lits (.node "ListArg" [.atom n]) = [] := by
  constructor
  · rw [covered]
    simp only [show ("ListArg" == "SQLVal") = false by decide, Bool.false_eq_true, if_false]
    rw [F.listarg_leaf]
    simp [coveredKids, WalkSpec.visits, lits]
  · simp [lits, isLiteral, sqlVal?, litsList]

theorem coveredKids_set (spec : WalkSpec) (la : Tree) (hc : covered la = true) (hl : lits la = []) :
    ∀ (i j : Nat) (l : List Tree), coveredKids spec i l = true → coveredKids spec i (l.set j la) = true
  | _, _, [], _ => by simp [coveredKids]
  | i, 0, c :: cs, h => by
    rw [coveredKids, Bool.and_eq_true] at h
    rw [List.set_cons_zero, coveredKids, Bool.and_eq_true]
    refine ⟨?_, h.2⟩
    split <;> simp [hc, hl]
  | i, j + 1, c :: cs, h => by
    rw [coveredKids, Bool.and_eq_true] at h
    rw [List.set_cons_succ, coveredKids, Bool.and_eq_true]
    exact ⟨h.1, coveredKids_set spec la hc hl (i + 1) j cs h.2⟩

mutual
theorem walk_covered (F : TableFacts) (valid : Validator) (pfx : Bytes) (sel : Bool) :
    ∀ (t : Tree) (s : St), covered t = true → covered (walk valid pfx sel t s).1 = true
  | .atom b, s, _ => by simp [walk, covered]
  | .node k ks, s, h => by
    rw [walk.eq_2]
    by_cases hk : (k == "SQLVal") = true
    · have hks : litsList ks = [] := by
        rw [covered, if_pos hk] at h
        simpa using h
      simp only [hk, if_true]
      cases sel
      · simp only [Bool.false_eq_true, if_false]; exact convert_covered valid pfx k ks s hk hks
      · simp only [if_true]; exact convertDedup_covered valid pfx k ks s hk hks
    · have hcov : coveredKids (walkSpec k) 0 ks = true := by
        rw [covered, if_neg hk] at h; exact h
      simp only [hk, Bool.false_eq_true, if_false]
      generalize hc : (if (k == "ComparisonExpr") = true then convertComparison valid pfx ks s else (none, s)) = c
      obtain ⟨co, s1⟩ := c
      have hkids := walkKids_covered F valid pfx (sel || k == "Select") (walkSpec k) (co.map (·.1)) 0 ks s1 hcov
      cases co with
      | none =>
        simp only [Option.map_none] at hkids ⊢
        rw [covered, if_neg hk]
        exact hkids
      | some p =>
        obtain ⟨i, la⟩ := p
        simp only [Option.map_some] at hkids ⊢
        rw [covered, if_neg hk]
        have hla : covered la = true ∧ lits la = [] := by
          by_cases hcmp : (k == "ComparisonExpr") = true
          · simp only [hcmp, if_true] at hc
            rcases convertComparison_cases valid pfx ks s with hn | ⟨n, hn⟩
            · rw [hc] at hn; cases hn
            · rw [hc] at hn
              simp only [Option.some.injEq, Prod.mk.injEq] at hn
              rw [hn.2]; exact listArg_props F n
          · simp only [hcmp] at hc
            cases hc
        exact coveredKids_set _ la hla.1 hla.2 0 i _ hkids
theorem walkKids_covered (F : TableFacts) (valid : Validator) (pfx : Bytes) (sel : Bool) (spec : WalkSpec) (skip : Option Nat) :
    ∀ (i : Nat) (ks : List Tree) (s : St), coveredKids spec i ks = true →
      coveredKids spec i (walkKids valid pfx sel spec skip i ks s).1 = true
  | _, [], _, _ => by simp [walkKids, coveredKids]
  | i, c :: cs, s, h => by
    rw [coveredKids, Bool.and_eq_true] at h
    rw [walkKids.eq_2, coveredKids, Bool.and_eq_true]
    refine ⟨?_, walkKids_covered F valid pfx sel spec skip (i + 1) cs _ h.2⟩
    by_cases hv : spec.visits i = true
    · by_cases hsk : (skip != some i) = true
      · simp only [hv, hsk, Bool.and_self, if_true]
        have hc : covered c = true := by simpa [hv] using h.1
        exact walk_covered F valid pfx sel c s hc
      · simp only [hv, hsk, Bool.and_false, Bool.false_eq_true, if_false]
        simpa [hv] using h.1
    · simp only [hv, Bool.false_and, Bool.false_eq_true, if_false]
      simpa [hv] using h.1
end

end AcraModel.Sql
