/-!
# Which text reaches which log call (C16)

Model of the query-logging path: the proxies' debug logging of `HandleRawSQLQuery`'s result
(`decryptor/postgresql/pg_decryptor.go:handleQueryPacket`, `decryptor/mysql/response_proxy.go`) followed by
`AcraCensor.HandleQuery` with its `logAllowedQuery` / `logDeniedQuery`
(`acra-censor/acra-censor_implementation.go`) and the handlers' own messages.

Statement text is tracked *symbolically* by provenance (`Txt`): the raw client statement, the normalised
statement (literals still inside), the redacted statement, or nothing. A log entry is a message kind plus
the provenance of the statement text it prints, if any. The harness maps every captured entry of the
real code to the same shape and compares.
-/
namespace AcraModel.Sql.LogModel

/-- provenance of a piece of statement text -/
inductive Txt where
  | raw | normalized | redacted
deriving DecidableEq, Repr

/-- kinds of messages on the path (constant text apart from the payload) -/
inductive Msg where
  | proxyNewQuery          -- debug "New query" / "Query command" with field sql=<payload>
  | proxyParsingError      -- debug "Parsing error on query: <payload>"
  | failedToParse          -- warning "Failed to parse input query" (ignore_parse_error)
  | unparsedDenied         -- error "Unparsed query has been denied"
  | allowedShown           -- info "Allowed query: '<payload>'"
  | allowedHidden          -- info "Allowed query can't be shown in plaintext"
  | deniedShown            -- error "Denied query: '<payload>'"
  | deniedHidden           -- error "Denied query can't be shown in plaintext"
  | deniedBy               -- debug "Denied query by <handler type>"
  | debugState             -- debug "parsedQuery: %T, queryWithHiddenValues: <payload>"
  | handlerOwn             -- a handler's own constant message (allowall / denyall / deny … blocked)
  | censorBlocked          -- error "AcraCensor blocked query" (proxy)
deriving DecidableEq, Repr

structure Entry where
  msg : Msg
  payload : Option Txt
deriving DecidableEq, Repr

/-- outcome of a security handler's `CheckQuery` -/
inductive Decision where
  | continue | allow | deny
deriving DecidableEq, Repr

inductive Handler where
  | capture                              -- QueryCaptureHandler: writes the redacted text to its file, never logs it
  | ignore (hit : Bool)              -- QueryIgnoreHandler
  | security (d : Decision) (logs : Bool) -- allow / deny / allowall / denyall; `logs`: prints its own message
deriving DecidableEq, Repr

structure Config where
  handlers : List Handler
  ignoreParseError : Bool
  hasUnparsedWriter : Bool
  debug : Bool                           -- log level debug (the proxies log the statement only then)
deriving Repr

/-- result of `HandleRawSQLQuery`: parsed (redacted text empty only for the empty statement) or syntax error -/
inductive Parse where
  | ok (redactedEmpty : Bool)
  | fail
deriving DecidableEq, Repr

/-- `logAllowedQuery(queryWithHiddenValues, parsedQuery)` -/
def logAllowed : Parse → List Entry
  | .ok false => [⟨.allowedShown, some .redacted⟩]
  | .fail => [⟨.allowedHidden, none⟩]
  | .ok true => [⟨.debugState, some .redacted⟩]   -- parsed but empty text: prints the (empty) redacted text

/-- `logDeniedQuery(queryWithHiddenValues, handler, parsedQuery)` -/
def logDenied : Parse → List Entry
  | .ok false => [⟨.deniedShown, some .redacted⟩, ⟨.deniedBy, none⟩]
  | .fail => [⟨.deniedHidden, none⟩, ⟨.deniedBy, none⟩]
  | .ok true => [⟨.debugState, some .redacted⟩]

/-- the handler loop of `HandleQuery`; `true` = denied -/
def runHandlers (p : Parse) : List Handler → List Entry × Bool
  | [] => (logAllowed p, false)
  | .capture :: hs => runHandlers p hs
  | .ignore true :: _ => (logAllowed p, false)
  | .ignore false :: hs => runHandlers p hs
  | .security d logs :: hs =>
    let own : List Entry := if logs then [⟨.handlerOwn, none⟩] else []
    match d with
    | .deny => (own ++ logDenied p, true)
    | .allow => (own ++ logAllowed p, false)
    | .continue => let r := runHandlers p hs; (own ++ r.1, r.2)

/-- `AcraCensor.HandleQuery` -/
def handleQuery (c : Config) (p : Parse) : List Entry × Bool :=
  if c.handlers.isEmpty && !c.hasUnparsedWriter then ([], false) else
  match p with
  | .fail =>
    if c.ignoreParseError then
      let r := runHandlers p c.handlers
      (⟨.failedToParse, none⟩ :: r.1, r.2)
    else ([⟨.unparsedDenied, none⟩], true)
  | _ => runHandlers p c.handlers

/-- messages printed with `Debug…` (they exist only at debug level) -/
def Msg.isDebug : Msg → Bool
  | .proxyNewQuery | .proxyParsingError | .deniedBy | .debugState => true
  | _ => false

/-- the proxies' block, every call regardless of the level -/
def proxyQueryAll (c : Config) (p : Parse) : List Entry × Bool :=
  let dbg : List Entry :=
    if c.debug then
      match p with
      | .fail => [⟨.proxyParsingError, none⟩]      -- HandleRawSQLQuery returns "" on a syntax error
      | .ok _ => [⟨.proxyNewQuery, some .redacted⟩]
    else []
  let r := handleQuery c p
  (dbg ++ r.1 ++ (if r.2 then [⟨.censorBlocked, none⟩] else []), r.2)

/-- the proxies' block: debug logging of the redacted text, then the censor, then "blocked" – what the
configured level lets through -/
def proxyQuery (c : Config) (p : Parse) : List Entry × Bool :=
  let r := proxyQueryAll c p
  (r.1.filter (fun e => c.debug || !e.msg.isDebug), r.2)

theorem mem_proxyQuery {c : Config} {p : Parse} {e : Entry} (h : e ∈ (proxyQuery c p).1) :
    e ∈ (proxyQueryAll c p).1 := by
  unfold proxyQuery at h
  exact (List.mem_filter.mp h).1

theorem logAllowed_payload (p : Parse) : ∀ e ∈ logAllowed p, e.payload = none ∨ e.payload = some .redacted := by
  cases p with
  | ok b => cases b <;> simp [logAllowed]
  | fail => simp [logAllowed]

theorem logDenied_payload (p : Parse) : ∀ e ∈ logDenied p, e.payload = none ∨ e.payload = some .redacted := by
  cases p with
  | ok b => cases b <;> simp [logDenied]
  | fail => simp [logDenied]

theorem logAllowed_fail : ∀ e ∈ logAllowed .fail, e.payload = none := by simp [logAllowed]
theorem logDenied_fail : ∀ e ∈ logDenied .fail, e.payload = none := by simp [logDenied]

theorem runHandlers_payload (p : Parse) (hs : List Handler) :
    ∀ e ∈ (runHandlers p hs).1, e.payload = none ∨ e.payload = some .redacted := by
  induction hs with
  | nil => exact logAllowed_payload p
  | cons h hs ih =>
    cases h with
    | capture => exact ih
    | ignore m => cases m <;> simp only [runHandlers] <;> first | exact ih | exact logAllowed_payload p
    | security d logs =>
      intro e he
      simp only [runHandlers] at he
      cases d <;> simp only [List.mem_append] at he <;> rcases he with ho | hr
      all_goals first
        | (cases logs <;> simp at ho <;> (try (rw [ho]; simp)))
        | exact ih e hr
        | exact logAllowed_payload p e hr
        | exact logDenied_payload p e hr

theorem runHandlers_fail (hs : List Handler) : ∀ e ∈ (runHandlers .fail hs).1, e.payload = none := by
  induction hs with
  | nil => exact logAllowed_fail
  | cons h hs ih =>
    cases h with
    | capture => exact ih
    | ignore m => cases m <;> simp only [runHandlers] <;> first | exact ih | exact logAllowed_fail
    | security d logs =>
      intro e he
      simp only [runHandlers] at he
      cases d <;> simp only [List.mem_append] at he <;> rcases he with ho | hr
      all_goals first
        | (cases logs <;> simp at ho <;> (try (rw [ho])))
        | exact ih e hr
        | exact logAllowed_fail e hr
        | exact logDenied_fail e hr

end AcraModel.Sql.LogModel
