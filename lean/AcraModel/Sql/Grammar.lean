import AcraModel.Basic.Bytes
import AcraModel.Generated.SqlGrammar
/-!
# What the grammar actions keep of what the parser reads (C13)

`Generated/SqlGrammar.lean` (factgen `sqlgrammar.go`) lists every alternative of `sqlparser/sql.y` that is reachable
from the DML statements with the class of each right-hand-side symbol and the positions whose value FLOWS into `$$`
(data-flow analysis of the action). This file is the model on top of that table:

* a derivation tree `Deriv` (what the goyacc parser recognises): token leaves with their lexeme, rule nodes with the
  alternative taken;
* `read d` – the lexemes of the lexeme-carrying tokens (identifiers, literals, placeholders, comments) of the text,
  left to right;
* `kept d` – the lexemes that are in the semantic value the actions build: a node keeps what the kids at the positions
  flowing into `$$` keep. (Abstraction: an action whose `$$` depends on `$n` keeps all of `$n`; that the real actions
  do is what the token-conservation oracle of the harness checks on the real parser.)
* `tableOK` – the finite check over the regenerated table: every lexeme-carrying token and every non-terminal with a
  semantic value flows into `$$` or is in the pinned exemption list; a non-terminal without a value derives no lexeme.

`kept_eq_read` lifts the finite check to ALL derivation trees: nothing that is read is lost, apart from what stands
at an exempt position.
-/
namespace AcraModel.Sql.Grammar
open AcraModel AcraModel.Generated

inductive Cls | lex | kw | sem | void
  deriving DecidableEq, Repr

def Cls.ofString (s : String) : Cls :=
  if s == "lex" then .lex else if s == "sem" then .sem else if s == "void" then .void else .kw

structure GSym where
  name : String
  cls : Cls
  deriving DecidableEq, Repr

structure GAlt where
  rule : String
  idx : Nat
  prodNo : Nat
  rhs : List GSym
  /-- positions (from 1) whose value flows into `$$` -/
  flow : List Nat
  /-- positions the action mentions at all -/
  mentions : List Nat
  deriving DecidableEq, Repr

def alts : List GAlt :=
  SqlGrammar.grammarAlts.map fun r =>
    ⟨r.1, r.2.1, r.2.2.1, r.2.2.2.1.map (fun s => ⟨s.1, .ofString s.2⟩), r.2.2.2.2.1, r.2.2.2.2.2⟩

def isLexTok (n : String) : Bool := SqlGrammar.lexTokens.contains n

/-- the non-terminals that derive keywords and punctuation only (regenerated; `lexFreeClosed` re-checks the list) -/
def lexFree (n : String) : Bool := SqlGrammar.lexFreeRules.contains n

abbrev Lexeme := String × Bytes

/-- a derivation tree of the grammar -/
inductive Deriv
  | tok (name : String) (lexeme : Bytes)
  | node (rule : String) (alt : Nat) (kids : List Deriv)
  deriving Repr

def Deriv.head : Deriv → String
  | .tok n _ => n
  | .node r _ _ => r

mutual
/-- the lexemes of the text: the lexeme-carrying token leaves, left to right -/
def Deriv.read : Deriv → List Lexeme
  | .tok n l => if isLexTok n then [(n, l)] else []
  | .node _ _ kids => readList kids
def readList : List Deriv → List Lexeme
  | [] => []
  | d :: ds => d.read ++ readList ds
end

def findAlt (tbl : List GAlt) (r : String) (a : Nat) : Option GAlt := tbl.find? fun A => A.rule == r && A.idx == a

mutual
/-- the lexemes in the semantic value the actions build -/
def Deriv.kept (tbl : List GAlt) : Deriv → List Lexeme
  | .tok n l => if isLexTok n then [(n, l)] else []
  | .node r a kids =>
    match findAlt tbl r a with
    | some A => keptList tbl A.flow 1 kids
    | none => []
def keptList (tbl : List GAlt) (flow : List Nat) : Nat → List Deriv → List Lexeme
  | _, [] => []
  | i, d :: ds => (if flow.contains i then d.kept tbl else []) ++ keptList tbl flow (i + 1) ds
end

/-- a kid fits a right-hand-side symbol: a token leaf for a token, a node of the rule for a non-terminal -/
def kidMatch (d : Deriv) (s : GSym) : Bool :=
  match d with
  | .tok n _ => n == s.name && (s.cls == .lex || s.cls == .kw)
  | .node r _ _ => r == s.name && (s.cls == .sem || s.cls == .void)

def kidsMatch : List Deriv → List GSym → Bool
  | [], [] => true
  | d :: ds, s :: ss => kidMatch d s && kidsMatch ds ss
  | _, _ => false

mutual
/-- the tree is a derivation of the table: every node takes an alternative of its rule and its kids fit the
right-hand side -/
def Deriv.wf (tbl : List GAlt) : Deriv → Bool
  | .tok _ _ => true
  | .node r a kids =>
    (match findAlt tbl r a with
      | some A => kidsMatch kids A.rhs
      | none => false) && wfList tbl kids
def wfList (tbl : List GAlt) : List Deriv → Bool
  | [] => true
  | d :: ds => d.wf tbl && wfList tbl ds
end

abbrev Exempt := List (String × Nat × Nat)

mutual
/-- nothing with a lexeme stands at an exempt position -/
def Deriv.exemptEmpty (ex : Exempt) : Deriv → Bool
  | .tok _ _ => true
  | .node r a kids => exemptEmptyList ex r a 1 kids
def exemptEmptyList (ex : Exempt) (r : String) (a : Nat) : Nat → List Deriv → Bool
  | _, [] => true
  | i, d :: ds => (!ex.contains (r, a, i) || d.read.isEmpty) && d.exemptEmpty ex && exemptEmptyList ex r a (i + 1) ds
end

/-! ## the finite check -/

/-- one right-hand-side symbol at position `i` of alternative `A` -/
def symOK (ex : Exempt) (A : GAlt) (i : Nat) (s : GSym) : Bool :=
  match s.cls with
  | .lex => isLexTok s.name && (A.flow.contains i || ex.contains (A.rule, A.idx, i))
  | .sem => A.flow.contains i || ex.contains (A.rule, A.idx, i)
  | .void => lexFree s.name
  | .kw => !isLexTok s.name

def symsOK (ex : Exempt) (A : GAlt) : Nat → List GSym → Bool
  | _, [] => true
  | i, s :: ss => symOK ex A i s && symsOK ex A (i + 1) ss

def altOK (ex : Exempt) (A : GAlt) : Bool := symsOK ex A 1 A.rhs

/-- **every operand is used**: in every alternative reachable from the DML statements each lexeme-carrying token and
each non-terminal with a semantic value flows into `$$` (or is exempt), and a non-terminal without a value derives
no lexeme -/
def tableOKFor (ex : Exempt) (tbl : List GAlt) : Bool := tbl.all (altOK ex)

/-- a symbol of a lexeme-free rule: a keyword / punctuation token or another lexeme-free rule -/
def lexFreeSym (s : GSym) : Bool :=
  match s.cls with
  | .kw => !isLexTok s.name
  | .lex => false
  | _ => lexFree s.name

/-- the regenerated list of lexeme-free rules is closed: every alternative of such a rule consists of keyword tokens
and lexeme-free rules (and no lexeme-carrying token bears the name of such a rule) -/
def lexFreeClosedFor (tbl : List GAlt) : Bool :=
  (tbl.all fun A => !lexFree A.rule || A.rhs.all lexFreeSym) && SqlGrammar.lexTokens.all fun t => !lexFree t

/-! ## lifting -/

theorem findAlt_spec {tbl : List GAlt} {r : String} {a : Nat} {A : GAlt} (h : findAlt tbl r a = some A) :
    A ∈ tbl ∧ A.rule = r ∧ A.idx = a := by
  unfold findAlt at h
  have hm := List.mem_of_find?_eq_some h
  have hp := List.find?_some h
  simp only [Bool.and_eq_true, beq_iff_eq] at hp
  exact ⟨hm, hp.1, hp.2⟩

mutual
/-- a derivation from a lexeme-free rule reads no lexeme -/
theorem lexfree_read {tbl : List GAlt} (hc : lexFreeClosedFor tbl = true) :
    (d : Deriv) → d.wf tbl = true → lexFree d.head = true → d.read = []
  | .tok n l, _, hf => by
    simp only [Deriv.read]
    cases hl : isLexTok n with
    | false => rfl
    | true =>
      simp only [lexFreeClosedFor, Bool.and_eq_true, List.all_eq_true] at hc
      have := hc.2 n (List.contains_iff_mem.mp hl)
      simp only [Deriv.head] at hf
      rw [hf] at this
      exact absurd this (by decide)
  | .node r a kids, hw, hf => by
    simp only [Deriv.wf, Bool.and_eq_true] at hw
    simp only [Deriv.read]
    cases hA : findAlt tbl r a with
    | none => simp [hA] at hw
    | some A =>
      simp only [hA] at hw
      obtain ⟨hA1, hA2, _⟩ := findAlt_spec hA
      have hc0 := hc
      simp only [lexFreeClosedFor, Bool.and_eq_true, List.all_eq_true] at hc0
      have hcl := hc0.1 A hA1
      simp only [Deriv.head] at hf
      rw [hA2, hf] at hcl
      simp only [Bool.not_true, Bool.false_or] at hcl
      exact lexfree_readList hc kids A.rhs hw.1 hw.2 hcl
theorem lexfree_readList {tbl : List GAlt} (hc : lexFreeClosedFor tbl = true) :
    (kids : List Deriv) → (syms : List GSym) → kidsMatch kids syms = true → wfList tbl kids = true →
      syms.all lexFreeSym = true → readList kids = []
  | [], _, _, _, _ => rfl
  | d :: ds, [], hm, _, _ => by simp [kidsMatch] at hm
  | d :: ds, s :: ss, hm, hw, hs => by
    simp only [kidsMatch, Bool.and_eq_true] at hm
    simp only [wfList, Bool.and_eq_true] at hw
    simp only [List.all_cons, Bool.and_eq_true] at hs
    simp only [readList]
    rw [lexfree_readList hc ds ss hm.2 hw.2 hs.2, List.append_nil]
    -- the kid itself
    cases d with
    | tok n l =>
      simp only [kidMatch, Bool.and_eq_true, beq_iff_eq] at hm
      simp only [Deriv.read]
      obtain ⟨⟨hn, hcls⟩, _⟩ := hm
      have hs1 := hs.1
      unfold lexFreeSym at hs1
      cases hc' : s.cls with
      | kw =>
        rw [hc'] at hs1
        simp only [Bool.not_eq_true'] at hs1
        rw [hn, hs1]; rfl
      | lex => rw [hc'] at hs1; simp at hs1
      | sem => rw [hc'] at hcls; simp at hcls
      | void => rw [hc'] at hcls; simp at hcls
    | node r a kids =>
      simp only [kidMatch, Bool.and_eq_true, beq_iff_eq] at hm
      obtain ⟨⟨hn, hcls⟩, _⟩ := hm
      have hs1 := hs.1
      unfold lexFreeSym at hs1
      have hlf : lexFree r = true := by
        cases hc' : s.cls with
        | kw => rw [hc'] at hcls; simp at hcls
        | lex => rw [hc'] at hcls; simp at hcls
        | sem => rw [hc'] at hs1; rw [hn]; exact hs1
        | void => rw [hc'] at hs1; rw [hn]; exact hs1
      exact lexfree_read hc (.node r a kids) hw.1 hlf
end

mutual
/-- **Nothing that is read is lost.** If the finite check holds for the table, then for EVERY derivation tree of the
table in which nothing with a lexeme stands at an exempt position, the lexemes kept in the semantic value are exactly
the lexemes read, in the same order. -/
theorem kept_eq_read {ex : Exempt} {tbl : List GAlt} (hok : tableOKFor ex tbl = true) (hc : lexFreeClosedFor tbl = true) :
    (d : Deriv) → d.wf tbl = true → d.exemptEmpty ex = true → d.kept tbl = d.read
  | .tok n l, _, _ => by simp only [Deriv.kept, Deriv.read]
  | .node r a kids, hw, he => by
    simp only [Deriv.wf, Bool.and_eq_true] at hw
    simp only [Deriv.kept, Deriv.read]
    cases hA : findAlt tbl r a with
    | none => simp [hA] at hw
    | some A =>
      simp only [hA] at hw ⊢
      obtain ⟨hA1, hA2, hA3⟩ := findAlt_spec hA
      have haok : altOK ex A = true := (List.all_eq_true.mp hok) A hA1
      simp only [Deriv.exemptEmpty] at he
      rw [← hA2, ← hA3] at he
      exact keptList_eq hok hc A 1 kids A.rhs hw.1 hw.2 haok he
theorem keptList_eq {ex : Exempt} {tbl : List GAlt} (hok : tableOKFor ex tbl = true) (hc : lexFreeClosedFor tbl = true)
    (A : GAlt) : (i : Nat) → (kids : List Deriv) → (syms : List GSym) → kidsMatch kids syms = true →
      wfList tbl kids = true → symsOK ex A i syms = true → exemptEmptyList ex A.rule A.idx i kids = true →
      keptList tbl A.flow i kids = readList kids
  | _, [], _, _, _, _, _ => by simp only [keptList, readList]
  | _, d :: ds, [], hm, _, _, _ => by simp [kidsMatch] at hm
  | i, d :: ds, s :: ss, hm, hw, hs, he => by
    simp only [kidsMatch, Bool.and_eq_true] at hm
    simp only [wfList, Bool.and_eq_true] at hw
    simp only [symsOK, Bool.and_eq_true] at hs
    simp only [exemptEmptyList, Bool.and_eq_true] at he
    simp only [keptList, readList]
    rw [keptList_eq hok hc A (i + 1) ds ss hm.2 hw.2 hs.2 he.2]
    congr 1
    cases hf : A.flow.contains i with
    | true =>
      simp only [if_true]
      exact kept_eq_read hok hc d hw.1 he.1.2
    | false =>
      simp only [Bool.false_eq_true, if_false]
      symm
      -- the kid does not flow into `$$`: it reads nothing
      have hs1 := hs.1
      unfold symOK at hs1
      have hex : ex.contains (A.rule, A.idx, i) = true → d.read = [] := by
        intro hx
        have := he.1.1
        rw [hx] at this
        simpa using this
      cases hc' : s.cls with
      | lex =>
        rw [hc'] at hs1
        simp only [hf, Bool.false_or, Bool.and_eq_true] at hs1
        exact hex hs1.2
      | sem =>
        rw [hc'] at hs1
        simp only [hf, Bool.false_or] at hs1
        exact hex hs1
      | void =>
        rw [hc'] at hs1
        simp only at hs1
        cases d with
        | tok n l =>
          have := hm.1
          simp only [kidMatch, hc', Bool.and_eq_true] at this
          simp at this
        | node r' a' kids' =>
          have hk := hm.1
          simp only [kidMatch, Bool.and_eq_true, beq_iff_eq] at hk
          exact lexfree_read hc (.node r' a' kids') hw.1 (by simp only [Deriv.head]; rw [hk.1]; exact hs1)
      | kw =>
        rw [hc'] at hs1
        simp only [Bool.not_eq_true'] at hs1
        cases d with
        | tok n l =>
          have hk := hm.1
          simp only [kidMatch, Bool.and_eq_true, beq_iff_eq] at hk
          simp only [Deriv.read]
          rw [hk.1, hs1]; rfl
        | node r' a' kids' =>
          have := hm.1
          simp only [kidMatch, hc', Bool.and_eq_true] at this
          simp at this
end

/-- the finite check says, position by position: a symbol with a semantic value flows into `$$` or is exempt -/
theorem symsOK_spec {ex : Exempt} {A : GAlt} : (i : Nat) → (syms : List GSym) → symsOK ex A i syms = true →
    ∀ (k : Nat) (s : GSym), syms[k]? = some s → (s.cls = .lex ∨ s.cls = .sem) →
      A.flow.contains (i + k) = true ∨ ex.contains (A.rule, A.idx, i + k) = true
  | _, [], _, k, s, hk, _ => by simp at hk
  | i, t :: ts, h, k, s, hk, hcls => by
    simp only [symsOK, Bool.and_eq_true] at h
    cases k with
    | zero =>
      simp only [List.getElem?_cons_zero, Option.some.injEq] at hk
      subst hk
      have h1 := h.1
      unfold symOK at h1
      rcases hcls with hl | hl
      · rw [hl] at h1
        simp only [Bool.and_eq_true, Bool.or_eq_true] at h1
        simpa using h1.2
      · rw [hl] at h1
        simp only [Bool.or_eq_true] at h1
        simpa using h1
    | succ k =>
      simp only [List.getElem?_cons_succ] at hk
      have := symsOK_spec (i + 1) ts h.2 k s hk hcls
      rw [show i + (k + 1) = i + 1 + k by omega]
      exact this


/-! ## the pinned exemptions and the check on the regenerated table -/

/-- Right-hand-side symbols with a semantic value that an action may ignore (rule, alternative, position), each with
its reason. A new entry of `SqlGrammar.unusedSemantic` that is not listed here fails `Props.C13.grammar_uses_every_operand`.
* `select_statement` 3, position 6 (`for_from`): `SELECT … NEXT n VALUES FOR|FROM t` – the keyword FOR / FROM, a noise
  word (the rule derives keywords only; the statement is printed with `for`… both spellings mean the same);
* `ins_column_list` 2, position 1 and 4, position 3 (`column_id '.' column_id`): the table qualifier of a column in the
  column list of an INSERT (`insert into t (t.a) …`). MySQL accepts it only when it names the target table; Acra keeps
  the column and prints `insert into t(a)`. The qualifier IS a lexeme that is dropped – the token-conservation oracle of
  the harness has the matching exemption (`insert-column-qualifier`). -/
def exempt : Exempt := [("select_statement", 3, 6), ("ins_column_list", 2, 1), ("ins_column_list", 4, 3)]

def tableOK : Bool := tableOKFor exempt alts
def lexFreeClosed : Bool := lexFreeClosedFor alts

/-- the alternative of the regenerated table -/
def altOf (r : String) (a : Nat) : Option GAlt := findAlt alts r a

/-- the unused semantic symbols as the finite check of THIS file sees them (must agree with factgen's list) -/
def unusedOf (tbl : List GAlt) : List (String × Nat × Nat × String) :=
  tbl.flatMap fun A =>
    (A.rhs.zipIdx.filter fun (s, i) => (s.cls == .lex || s.cls == .sem) && !A.flow.contains (i + 1)).map
      fun (s, i) => (A.rule, A.idx, i + 1, s.name)

/-- the table with position `pos` of alternative (`rule`, `alt`) removed from the flow (what a seeded change does) -/
def withoutFlow (rule : String) (alt pos : Nat) (tbl : List GAlt) : List GAlt :=
  tbl.map fun A => if A.rule == rule && A.idx == alt then { A with flow := A.flow.filter (· != pos) } else A

end AcraModel.Sql.Grammar
