import AcraModel.Basic.Bytes
import AcraModel.Generated.SqlComment
/-!
# `sqlparser.ExtractMysqlComment` (C14) – `sqlparser/comments.go`

The tokenizer of Acra's own SQL parser (`Tokenizer.scanMySQLSpecificComment`, `sqlparser/token.go`)
hands every complete MySQL version comment `/*!NNNNN text */` of a client statement to
`ExtractMysqlComment`, which cuts off `/*!` and `*/`, splits the (at most five) leading version digits
from the inner SQL and trims the latter. The model follows the function line by line on ASCII input
(`strings.IndexFunc` walks runes; for bytes `< 0x80` rune index = byte index, `unicode.IsDigit` = `0..9`,
`unicode.IsSpace` = TAB, LF, VT, FF, CR, space). Non-ASCII comments are covered by the harness's oracle only.

The two slice offsets, the digit bound and the presence of the guard for "nothing follows the digits"
are regenerated from the source (`Generated/SqlComment.lean`).
-/
namespace AcraModel.Sql.MysqlComment
open AcraModel Generated

def isDigit (b : UInt8) : Bool := decide (48 ≤ b.toNat ∧ b.toNat ≤ 57)

def isSpace (b : UInt8) : Bool := decide (b.toNat = 32 ∨ (9 ≤ b.toNat ∧ b.toNat ≤ 13))

/-- `strings.IndexFunc(sql, func(c) { digitCount++; return !unicode.IsDigit(c) || digitCount == K })`:
`n` characters were consumed before `rest`; `none` is Go's `-1`. -/
def endOfVersion (k : Nat) : Bytes → Nat → Option Nat
  | [], _ => none
  | b :: rest, n => if !isDigit b || n + 1 == k then some n else endOfVersion k rest (n + 1)

def trimLeft : Bytes → Bytes
  | [] => []
  | b :: r => if isSpace b then trimLeft r else b :: r

/-- `strings.TrimFunc(s, unicode.IsSpace)` -/
def trim (s : Bytes) : Bytes := (trimLeft (trimLeft s).reverse).reverse

/-- `ExtractMysqlComment` with the guard switched on or off (`guard = false` is the pinned tree, where
`sql[0:endOfVersionIndex]` is evaluated with `endOfVersionIndex = -1`). -/
def extractWith (guard : Bool) (c : Bytes) : Out (Bytes × Bytes) := do
  let sql ← goSlice c SqlComment.cutFront (c.length - SqlComment.cutBack)
  let e ← match endOfVersion SqlComment.versionDigitBound sql 0 with
    | some i => Out.ok i
    | none => if guard then Out.ok sql.length else Out.panic
  let version ← goSlice sql 0 e
  let inner ← goSliceFrom sql e
  pure (version, trim inner)

/-- `ExtractMysqlComment` as the source has it now -/
def extract (c : Bytes) : Out (Bytes × Bytes) := extractWith SqlComment.noTextGuard c

/-- the index found by the scan lies inside the string -/
theorem endOfVersion_lt (k : Nat) : ∀ (s : Bytes) (n i : Nat), endOfVersion k s n = some i → n ≤ i ∧ i < n + s.length
  | [], _, _, h => by simp [endOfVersion] at h
  | b :: rest, n, i, h => by
    unfold endOfVersion at h
    split at h
    · cases h; simp
    · have := endOfVersion_lt k rest (n + 1) i h
      simp only [List.length_cons]; omega

/-- With the guard, a complete comment (at least `/*!` + `*/`) never makes `ExtractMysqlComment` panic. -/
theorem extractWith_guard_no_panic (c : Bytes) (h : SqlComment.cutFront + SqlComment.cutBack ≤ c.length) :
    extractWith true c ≠ .panic := by
  unfold extractWith
  have h1 : goSlice c SqlComment.cutFront (c.length - SqlComment.cutBack)
      = .ok ((c.take (c.length - SqlComment.cutBack)).drop SqlComment.cutFront) := by
    unfold goSlice; rw [if_pos]; omega
  rw [h1]
  simp only [bind, Out.bind, pure]
  generalize hs : (c.take (c.length - SqlComment.cutBack)).drop SqlComment.cutFront = sql
  cases he : endOfVersion SqlComment.versionDigitBound sql 0 with
  | none =>
    simp [goSlice, goSliceFrom]
  | some i =>
    have := endOfVersion_lt _ sql 0 i he
    have hi : i ≤ sql.length := by omega
    simp [goSlice, goSliceFrom, hi]

end AcraModel.Sql.MysqlComment
