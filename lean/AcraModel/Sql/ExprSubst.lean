import AcraModel.Sql.ExprLemmas
/-!
# Substitution of `SQLVal` leaves preserves producibility (C13)
-/
namespace AcraModel.Sql.Expr
open AcraModel

/-- a substitution of values that keeps literals well-formed and never turns a non-`IntVal` into an `IntVal`
(the rules for unary `+`/`-` fold an `IntVal` operand into the literal, so an `IntVal` must not appear under them) -/
structure SubstOk (σ : Nat → Bytes → Nat × Bytes) : Prop where
  lit : ∀ ty v, LitOk ty v → LitOk (σ ty v).1 (σ ty v).2
  int : ∀ ty v, (σ ty v).1 = tyInt → ty = tyInt

theorem lv_subst (σ : Nat → Bytes → Nat × Bytes) (t : Expr) : lv (subst σ t) = lv t := by
  cases t <;> simp [subst, lv]

theorem isIntVal_subst {σ : Nat → Bytes → Nat × Bytes} (h : SubstOk σ) (t : Expr) :
    t.isIntVal = false → (subst σ t).isIntVal = false := by
  cases t with
  | val ty v =>
    intro hh
    simp only [subst, Expr.isIntVal] at hh ⊢
    cases hb : ((σ ty v).1 == tyInt) with
    | false => rfl
    | true =>
      have := h.int ty v (beq_iff_eq.mp hb)
      rw [this] at hh; simp at hh
  | _ => intro _; simp [subst, Expr.isIntVal]

mutual
theorem producible_subst_aux {σ : Nat → Bytes → Nat × Bytes} (h : SubstOk σ) :
    (t : Expr) → Producible t → Producible (subst σ t)
  | .val ty v, hp => by
    cases hp with
    | val hok => rw [subst]; exact .val (h.lit ty v hok)
  | .null, _ => by rw [subst]; exact .null
  | .bool b, _ => by rw [subst]; exact .bool
  | .col n, _ => by rw [subst]; exact .col
  | .func n as, hp => by
    cases hp with
    | func ha => rw [subst]; exact .func (producible_substArgs h as ha)
  | .paren e, hp => by
    cases hp with
    | paren pe => rw [subst]; exact .paren (producible_subst_aux h e pe)
  | .and l r, hp => by
    cases hp with
    | and pl pr hl hr =>
      rw [subst]
      exact .and (producible_subst_aux h l pl) (producible_subst_aux h r pr) (by rw [lv_subst]; exact hl)
        (by rw [lv_subst]; exact hr)
  | .or l r, hp => by
    cases hp with
    | or pl pr hl hr =>
      rw [subst]
      exact .or (producible_subst_aux h l pl) (producible_subst_aux h r pr) (by rw [lv_subst]; exact hl)
        (by rw [lv_subst]; exact hr)
  | .not e, hp => by
    cases hp with
    | not pe hl => rw [subst]; exact .not (producible_subst_aux h e pe) (by rw [lv_subst]; exact hl)
  | .is op e, hp => by
    cases hp with
    | is pe hl => rw [subst]; exact .is (producible_subst_aux h e pe) (by rw [lv_subst]; exact hl)
  | .cmp op l r, hp => by
    cases hp with
    | cmp pl pr hl hr =>
      rw [subst]
      exact .cmp (producible_subst_aux h l pl) (producible_subst_aux h r pr) (by rw [lv_subst]; exact hl)
        (by rw [lv_subst]; exact hr)
  | .range n l lo hi, hp => by
    cases hp with
    | range pl plo phi hl hlo hhi =>
      rw [subst]
      exact .range (producible_subst_aux h l pl) (producible_subst_aux h lo plo) (producible_subst_aux h hi phi)
        (by rw [lv_subst]; exact hl) (by rw [lv_subst]; exact hlo) (by rw [lv_subst]; exact hhi)
  | .bin o l r, hp => by
    cases hp with
    | bin pl pr hl hr =>
      rw [subst]
      exact .bin (producible_subst_aux h l pl) (producible_subst_aux h r pr) (by rw [lv_subst]; exact hl)
        (by rw [lv_subst]; exact hr)
  | .un o e, hp => by
    cases hp with
    | un pe hl hf =>
      rw [subst]
      exact .un (producible_subst_aux h e pe) (by rw [lv_subst]; exact hl) (fun hh => isIntVal_subst h e (hf hh))
theorem producible_substArgs {σ : Nat → Bytes → Nat × Bytes} (h : SubstOk σ) :
    (as : List Expr) → (∀ a, a ∈ as → Producible a) → ∀ a, a ∈ substArgs σ as → Producible a
  | [], _ => by intro a ha; simp [substArgs] at ha
  | e :: es, hall => by
    intro a ha
    rw [substArgs] at ha
    simp only [List.mem_cons] at ha
    rcases ha with rfl | ha
    · exact producible_subst_aux h e (hall e (by simp))
    · exact producible_substArgs h es (fun x hx => hall x (by simp [hx])) a ha
end

end AcraModel.Sql.Expr
