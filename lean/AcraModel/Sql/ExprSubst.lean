import AcraModel.Sql.ExprLemmas
/-!
# Substitution of `SQLVal` leaves preserves producibility (C13)
-/
namespace AcraModel.Sql.Expr
open AcraModel

/-- a substitution of values that keeps literals well-formed and never turns a non-`IntVal` into an `IntVal`
(the rules for unary `+`/`-` fold an `IntVal` operand into the literal, so an `IntVal` must not appear under them) -/
structure SubstOk (σ : Nat → Bytes → Nat × Bytes) : Prop where
  lit : ∀ ty v, LitOk ty v → LitOk (σ ty v).1 (σ ty v).2
  int : ∀ ty v, (σ ty v).1 = tyInt → ty = tyInt

theorem lv_subst (σ : Nat → Bytes → Nat × Bytes) (t : Expr) : lv (subst σ t) = lv t := by
  cases t <;> simp [subst, lv]

theorem isIntVal_subst {σ : Nat → Bytes → Nat × Bytes} (h : SubstOk σ) (t : Expr) :
    t.isIntVal = false → (subst σ t).isIntVal = false := by
  cases t with
  | val ty v =>
    intro hh
    simp only [subst, Expr.isIntVal] at hh ⊢
    cases hb : ((σ ty v).1 == tyInt) with
    | false => rfl
    | true =>
      have := h.int ty v (beq_iff_eq.mp hb)
      rw [this] at hh; simp at hh
  | _ => intro _; simp [subst, Expr.isIntVal]

mutual
theorem producible_subst_aux {σ : Nat → Bytes → Nat × Bytes} (h : SubstOk σ) :
    (t : Expr) → Producible t → Producible (subst σ t)
  | .val ty v, hp => by
    cases hp with
    | val hok => rw [subst]; exact .val (h.lit ty v hok)
  | .null, _ => by rw [subst]; exact .null
  | .bool b, _ => by rw [subst]; exact .bool
  | .col n, _ => by rw [subst]; exact .col
  | .func n as, hp => by
    cases hp with
    | func ha => rw [subst]; exact .func (producible_substArgs h as ha)
  | .paren e, hp => by
    cases hp with
    | paren pe => rw [subst]; exact .paren (producible_subst_aux h e pe)
  | .and l r, hp => by
    cases hp with
    | and pl pr hl hr =>
      rw [subst]
      exact .and (producible_subst_aux h l pl) (producible_subst_aux h r pr) (by rw [lv_subst]; exact hl)
        (by rw [lv_subst]; exact hr)
  | .or l r, hp => by
    cases hp with
    | or pl pr hl hr =>
      rw [subst]
      exact .or (producible_subst_aux h l pl) (producible_subst_aux h r pr) (by rw [lv_subst]; exact hl)
        (by rw [lv_subst]; exact hr)
  | .not e, hp => by
    cases hp with
    | not pe hl => rw [subst]; exact .not (producible_subst_aux h e pe) (by rw [lv_subst]; exact hl)
  | .is op e, hp => by
    cases hp with
    | is pe hl => rw [subst]; exact .is (producible_subst_aux h e pe) (by rw [lv_subst]; exact hl)
  | .cmp op l r, hp => by
    cases hp with
    | cmp pl pr hl hr =>
      rw [subst]
      exact .cmp (producible_subst_aux h l pl) (producible_subst_aux h r pr) (by rw [lv_subst]; exact hl)
        (by rw [lv_subst]; exact hr)
  | .range n l lo hi, hp => by
    cases hp with
    | range pl plo phi hl hlo hhi =>
      rw [subst]
      exact .range (producible_subst_aux h l pl) (producible_subst_aux h lo plo) (producible_subst_aux h hi phi)
        (by rw [lv_subst]; exact hl) (by rw [lv_subst]; exact hlo) (by rw [lv_subst]; exact hhi)
  | .bin o l r, hp => by
    cases hp with
    | bin pl pr hl hr =>
      rw [subst]
      exact .bin (producible_subst_aux h l pl) (producible_subst_aux h r pr) (by rw [lv_subst]; exact hl)
        (by rw [lv_subst]; exact hr)
  | .un o e, hp => by
    cases hp with
    | un pe hl hf =>
      rw [subst]
      exact .un (producible_subst_aux h e pe) (by rw [lv_subst]; exact hl) (fun hh => isIntVal_subst h e (hf hh))
theorem producible_substArgs {σ : Nat → Bytes → Nat × Bytes} (h : SubstOk σ) :
    (as : List Expr) → (∀ a, a ∈ as → Producible a) → ∀ a, a ∈ substArgs σ as → Producible a
  | [], _ => by intro a ha; simp [substArgs] at ha
  | e :: es, hall => by
    intro a ha
    rw [substArgs] at ha
    simp only [List.mem_cons] at ha
    rcases ha with rfl | ha
    · exact producible_subst_aux h e (hall e (by simp))
    · exact producible_substArgs h es (fun x hx => hall x (by simp [hx])) a ha
end

/-! ## the printed form after substitution -/

/-- replace the literal lexemes, keep every other lexeme -/
def substLex (σ : Nat → Bytes → Nat × Bytes) : Lex → Lex
  | .lit ty v => .lit (σ ty v).1 (σ ty v).2
  | l => l

theorem isUn_subst (σ : Nat → Bytes → Nat × Bytes) (e : Expr) : (subst σ e).isUn = e.isUn := by
  cases e <;> simp [subst, Expr.isUn]

theorem map_symsLex (σ : Nat → Bytes → Nat × Bytes) (ss : List Sym) : (symsLex ss).map (substLex σ) = symsLex ss := by
  induction ss with
  | nil => rfl
  | cons s ss ih =>
    cases ss with
    | nil => simp [symsLex, substLex]
    | cons s' ss' => rw [symsLex, List.map_cons, List.map_cons, ih]; simp [substLex]; simp

theorem map_unLex (σ : Nat → Bytes → Nat × Bytes) (o : UnOp) : o.lex.map (substLex σ) = o.lex := by
  cases o <;> simp [UnOp.lex, substLex]

mutual
theorem format_subst (σ : Nat → Bytes → Nat × Bytes) : (t : Expr) → format (subst σ t) = (format t).map (substLex σ)
  | .val ty v => by simp [subst, format, substLex]
  | .null => by simp [subst, format, substLex]
  | .bool b => by simp [subst, format, substLex]
  | .col n => by simp [subst, format, substLex]
  | .func n as => by simp [subst, format, substLex, formatArgs_subst σ as]
  | .paren e => by simp [subst, format, substLex, format_subst σ e]
  | .and l r => by simp [subst, format, substLex, format_subst σ l, format_subst σ r]
  | .or l r => by simp [subst, format, substLex, format_subst σ l, format_subst σ r]
  | .not e => by simp [subst, format, substLex, format_subst σ e]
  | .is op e => by simp [subst, format, substLex, format_subst σ e, map_symsLex]
  | .cmp op l r => by simp [subst, format, substLex, format_subst σ l, format_subst σ r, map_symsLex]
  | .range n l lo hi => by
    cases n <;> simp [subst, format, substLex, format_subst σ l, format_subst σ lo, format_subst σ hi]
  | .bin o l r => by simp [subst, format, substLex, format_subst σ l, format_subst σ r]
  | .un o e => by
    cases h : e.isUn <;> simp [subst, format, substLex, format_subst σ e, map_unLex, isUn_subst, h]
theorem formatArgs_subst (σ : Nat → Bytes → Nat × Bytes) :
    (as : List Expr) → formatArgs (substArgs σ as) = (formatArgs as).map (substLex σ)
  | [] => by simp [substArgs, formatArgs]
  | [e] => by simp [substArgs, formatArgs, format_subst σ e]
  | e :: e' :: es => by
    have := formatArgs_subst σ (e' :: es)
    simp only [substArgs] at this ⊢
    simp [formatArgs, format_subst σ e, this, substLex]
end

end AcraModel.Sql.Expr
