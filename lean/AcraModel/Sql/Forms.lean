import AcraModel.Generated.SqlForms
/-!
# Statement forms: print paths of the statement nodes' `Format` methods (C13)

A small model of "which clauses does `Format` print": a statement is its node kind plus the set of fields that
are filled (non-nil pointer / interface, non-empty list or string, `true`). The tables are regenerated from the
source by factgen (`Generated/SqlForms.lean`):

* `printPaths` – per kind the alternative paths through its `Format` method (every `if`/`switch` branch that prints
  a different skeleton), the conditions under which a path is taken and the receiver fields it prints;
* `productions` – per kind the grammar alternatives of `sql.y` that build the node, with the fields each one assigns
  and whether the assigned value can be nil/empty (`zero`), cannot (`nonzero`) or may be either (`maybe`).

`formatPath s` is the path `Format` takes for `s`; `builtBy p s` says that production `p` can have built `s`.
`tableOK` is the finite check over all (production, path) pairs; `keeps_of_tableOK` lifts it to all statements.
-/
namespace AcraModel.Sql.Forms
open AcraModel.Generated

/-- one condition of a print path: `rel` is `zero` (field is nil/empty/false), `nonzero`, `eq` / `notin` (field
compared with constants), `dialect` (type switch on the buffer's dialect) or `opaque` (anything else) -/
structure Cond where
  field : String
  rel : String
  arg : String
deriving Repr, DecidableEq

structure Path where
  kind : String
  idx : Nat
  conds : List Cond
  printed : List String
deriving Repr, DecidableEq

structure Prod where
  kind : String
  rule : String
  alt : Nat
  top : Bool
  /-- (field, zeroness of the assigned value, text of the value in the action) -/
  fields : List (String × String × String)
deriving Repr, DecidableEq

def paths : List Path :=
  SqlForms.printPaths.map fun r => ⟨r.1, r.2.1, r.2.2.1.map (fun c => ⟨c.1, c.2.1, c.2.2⟩), r.2.2.2.1⟩

def prods : List Prod :=
  SqlForms.productions.map fun r => ⟨r.1, r.2.1, r.2.2.1, r.2.2.2.1, r.2.2.2.2.2⟩

/-- class of a field of a statement node (`node`, `string`, `bool`, `other`; `""` when there is no such field) -/
def fieldClass (kind field : String) : String :=
  match SqlForms.stmtFields.find? (·.1 == kind) with
  | some r => match r.2.find? (·.1 == field) with
    | some f => f.2
    | none => ""
  | none => ""

/-- A statement of the model: the node kind and the fields that are filled. -/
structure Stmt where
  kind : String
  present : List String
  /-- fields that hold one of the constants of `ast.go` (`Limit.Type = LimitTypeLimitAll`, `DDL.Action = CreateStr`) -/
  consts : List (String × String) := []
deriving Repr, DecidableEq

/-- the constants of an `eq` / `notin` condition -/
def argNames (arg : String) : List String :=
  match SqlForms.condArgLists.find? (·.1 == arg) with
  | some r => r.2
  | none => [arg]

/-- Does the condition hold for the statement? Emptiness tests and comparisons of a field with constants are
interpreted (a field whose constant is not known leaves the comparison open); the dialect switch and opaque conditions
are left open (`true`: the path *may* be taken), which only makes the theorems below stronger. -/
def condHolds (s : Stmt) (c : Cond) : Bool :=
  if c.rel == "zero" then !s.present.contains c.field
  else if c.rel == "nonzero" then s.present.contains c.field
  else if c.rel == "eq" then
    match s.consts.lookup c.field with
    | some v => (argNames c.arg).contains v
    | none => true
  else if c.rel == "notin" then
    match s.consts.lookup c.field with
    | some v => !(argNames c.arg).contains v
    | none => true
  else true

def pathApplies (π : Path) (s : Stmt) : Bool := π.kind == s.kind && π.conds.all (condHolds s)

/-- the path `Format` takes (the first one whose conditions hold) -/
def formatPath (s : Stmt) : Option Path := paths.find? (pathApplies · s)

/-- fields the production may fill / always fills -/
def mayFill (p : Prod) : List String := (p.fields.filter (·.2.1 != "zero")).map (·.1)
def mustFill (p : Prod) : List String := (p.fields.filter (·.2.1 == "nonzero")).map (·.1)

/-- the constant the production assigns to the field, if it assigns a plain constant of `ast.go` -/
def constOf (p : Prod) (f : String) : Option String :=
  (p.fields.find? fun x => x.1 == f && SqlForms.constNames.contains x.2.2).map (·.2.2)

/-- the statement can have been built by the production: every filled field is one the production may fill, every
field it always fills is filled, and the fields it sets to a constant hold that constant -/
def builtBy (p : Prod) (s : Stmt) : Bool :=
  p.kind == s.kind && s.present.all (mayFill p).contains && (mustFill p).all s.present.contains &&
  p.fields.all (fun x => !SqlForms.constNames.contains x.2.2 || s.consts.lookup x.1 == some x.2.2)

/-- the field's content survives on the path: it is printed, or it is a flag / discriminator whose value the
path's own condition fixes (a `bool` the path tests – `Insert.Default` ⇒ the skeleton `default values`; a field the
path compares with a constant; `*`: the receiver as a whole is handed to the printer). A string or clause that is
merely *tested* for presence is not kept. -/
def keeps (π : Path) (f : String) : Bool :=
  π.printed.contains f || π.printed.contains "*" ||
  π.conds.any (fun c => c.field == f && (c.rel == "eq" || (c.rel == "nonzero" && fieldClass π.kind f == "bool")))

/-- the field is accounted for on the path: kept, or the path is only taken when the field is empty -/
def represented (π : Path) (f : String) : Bool :=
  keeps π f || π.conds.any (fun c => c.field == f && c.rel == "zero")

/-- the production can build a statement for which the path is taken (judged on the emptiness conditions and the
comparisons with constants) -/
def compatible (p : Prod) (π : Path) : Bool :=
  p.kind == π.kind && π.conds.all (fun c =>
    if c.rel == "zero" then !(mustFill p).contains c.field
    else if c.rel == "nonzero" then (mayFill p).contains c.field
    else if c.rel == "eq" then
      match constOf p c.field with
      | some v => (argNames c.arg).contains v
      | none => true
    else if c.rel == "notin" then
      match constOf p c.field with
      | some v => !(argNames c.arg).contains v
      | none => true
    else true)

/-- Fields that a print path may leave out by design (each with its reason):
* `Order.Direction` – `ORDER BY NULL` and `ORDER BY rand()` are printed without a direction on purpose
  (`Order.Format`; ordering by a constant or a random value has no direction – normalisation 3 of the oracle);
* `ConvertType.Operator` – the spelling of the keyword in front of the character set (`character set`); the grammar
  sets it for every `CHAR` type, it is printed exactly when there is a `Charset` and means nothing without one. -/
def exempt : List (String × String) := [("Order", "Direction"), ("ConvertType", "Operator")]

def pairOK (p : Prod) (π : Path) : Bool :=
  !compatible p π || (mayFill p).all (fun f => represented π f || exempt.contains (π.kind, f))

/-- the node kinds of data-manipulation statements – what C13 quantifies over -/
def dmlKinds : List String := ["Select", "ParenSelect", "Union", "Insert", "Update", "Delete"]

/-- the clause, table and expression nodes that occur inside data-manipulation statements (the remaining clause
nodes of `ast.go` belong to DDL / SHOW: column and index definitions, partition and vindex specifications) -/
def dmlClauseKinds : List String :=
  ["StarExpr", "AliasedExpr", "Nextval", "AliasedTableExpr", "TableName", "ParenTableExpr", "JoinCondition",
   "JoinTableExpr", "IndexHints", "Where", "AndExpr", "OrExpr", "NotExpr", "ParenExpr", "ComparisonExpr", "RangeCond",
   "IsExpr", "ExistsExpr", "ColName", "Subquery", "BinaryExpr", "UnaryExpr", "IntervalExpr", "CollateExpr", "FuncExpr",
   "GroupConcatExpr", "ValuesFuncExpr", "SubstrExpr", "ConvertExpr", "ConvertUsingExpr", "ConvertType", "MatchExpr",
   "CaseExpr", "When", "Order", "Limit", "UpdateExpr"]

/-- the node kinds the obligation is stated for -/
def strictKinds : List String := dmlKinds ++ dmlClauseKinds

/-- the finite check: for every production of a DML statement or clause node and every print path compatible with
it, every field the production may fill is represented on the path (or exempt by design) -/
def tableOKFor (ps : List Prod) (πs : List Path) : Bool :=
  ps.all fun p => !strictKinds.contains p.kind || πs.all fun π => pairOK p π

def tableOK : Bool := tableOKFor prods paths

/-- (kind, path, field): fields a compatible production may fill that the path does not represent – empty for the
DML kinds when `tableOK`; for the other kinds this is the list of reduced print forms (`alter table a`, `show …`). -/
def omissions (ps : List Prod) (πs : List Path) : List (String × Nat × String) :=
  (πs.flatMap fun π =>
    ((ps.filter (compatible · π)).flatMap fun p =>
      (mayFill p).filter (fun f => !represented π f && !exempt.contains (π.kind, f))).eraseDups.map
      fun f => (π.kind, π.idx, f))

/-- the grammar rules of DDL statements, whose actions drop parts of the statement by design (`create index i on t`
is kept as `alter table t`) -/
def ddlRules : List String :=
  ["create_statement", "alter_statement", "alter_object_type", "drop_statement", "rename_statement",
   "non_add_drop_or_rename_operation", "analyze_statement", "other_statement", "show_statement"]

/-- every production of the kind is compatible with at least one path (judged on the emptiness conditions) -/
def coveredFor (ps : List Prod) (πs : List Path) : Bool :=
  ps.all fun p => !strictKinds.contains p.kind || πs.any fun π => compatible p π

/-! ## lifting the finite check to all statements -/

theorem lookup_of_constOf {p : Prod} {s : Stmt} {f v : String}
    (hall : p.fields.all (fun x => !SqlForms.constNames.contains x.2.2 || s.consts.lookup x.1 == some x.2.2) = true)
    (hc : constOf p f = some v) : s.consts.lookup f = some v := by
  unfold constOf at hc
  rw [Option.map_eq_some_iff] at hc
  obtain ⟨x, hx, hv⟩ := hc
  have hmem := List.mem_of_find?_eq_some hx
  have hprop := List.find?_some hx
  rw [Bool.and_eq_true] at hprop
  rw [List.all_eq_true] at hall
  have h := hall x hmem
  rw [hprop.2] at h
  simp only [Bool.not_true, Bool.false_or, beq_iff_eq] at h
  rw [← eq_of_beq hprop.1, ← hv]
  exact h

theorem compatible_of_applies {p : Prod} {π : Path} {s : Stmt}
    (hb : builtBy p s = true) (ha : pathApplies π s = true) : compatible p π = true := by
  unfold builtBy at hb
  unfold pathApplies at ha
  rw [Bool.and_eq_true, Bool.and_eq_true, Bool.and_eq_true, List.all_eq_true, List.all_eq_true] at hb
  rw [Bool.and_eq_true, List.all_eq_true] at ha
  obtain ⟨⟨⟨hk, hmay⟩, hmust⟩, hconst⟩ := hb
  obtain ⟨hk', hc⟩ := ha
  unfold compatible
  rw [Bool.and_eq_true, List.all_eq_true]
  refine ⟨?_, ?_⟩
  · rw [eq_of_beq hk, eq_of_beq hk']; exact beq_self_eq_true _
  · intro c hcm
    have h := hc c hcm
    unfold condHolds at h
    cases hz : (c.rel == "zero") with
    | true =>
      rw [hz] at h
      simp only [↓reduceIte] at h ⊢
      cases hm : (mustFill p).contains c.field with
      | false => rfl
      | true =>
        have h2 := hmust c.field (List.contains_iff_mem.mp hm)
        rw [h2] at h
        exact Bool.noConfusion h
    | false =>
      rw [hz] at h
      cases hn : (c.rel == "nonzero") with
      | true =>
        rw [hn] at h
        simp only [↓reduceIte, Bool.false_eq_true] at h ⊢
        exact hmay c.field (List.contains_iff_mem.mp h)
      | false =>
        rw [hn] at h
        cases he : (c.rel == "eq") with
        | true =>
          rw [he] at h
          simp only [↓reduceIte, Bool.false_eq_true] at h ⊢
          cases hco : constOf p c.field with
          | none => rfl
          | some v =>
            rw [lookup_of_constOf hconst hco] at h
            exact h
        | false =>
          rw [he] at h
          cases hni : (c.rel == "notin") with
          | true =>
            rw [hni] at h
            simp only [↓reduceIte, Bool.false_eq_true] at h ⊢
            cases hco : constOf p c.field with
            | none => rfl
            | some v =>
              rw [lookup_of_constOf hconst hco] at h
              exact h
          | false =>
            simp only [↓reduceIte, Bool.false_eq_true]

/-- **Lifting lemma.** If the pair (production, path) passes the finite check, then for *every* statement the
production can build and for which the path is taken, every filled field is kept by the path (or exempt by design). -/
theorem keeps_of_pairOK {p : Prod} {π : Path} {s : Stmt} (hok : pairOK p π = true)
    (hb : builtBy p s = true) (ha : pathApplies π s = true) :
    ∀ f ∈ s.present, keeps π f = true ∨ exempt.contains (π.kind, f) = true := by
  intro f hf
  have hcomp := compatible_of_applies hb ha
  simp only [pairOK, hcomp, Bool.not_true, Bool.false_or, List.all_eq_true] at hok
  have hb' := hb
  simp only [builtBy, Bool.and_eq_true, List.all_eq_true] at hb'
  have hmay : f ∈ mayFill p := List.contains_iff_mem.mp (hb'.1.1.2 f hf)
  have hrep := hok f hmay
  rw [Bool.or_eq_true] at hrep
  rcases hrep with hrep | hex
  · simp only [represented, Bool.or_eq_true] at hrep
    rcases hrep with h | h
    · exact Or.inl h
    · -- the path would only be taken with `f` empty – but `f` is filled
      exfalso
      simp only [List.any_eq_true, Bool.and_eq_true, beq_iff_eq] at h
      obtain ⟨c, hcm, hcf, hcz⟩ := h
      simp only [pathApplies, Bool.and_eq_true, List.all_eq_true] at ha
      have := ha.2 c hcm
      simp only [condHolds, hcz, beq_self_eq_true, if_true, hcf, Bool.not_eq_true'] at this
      have hc : s.present.contains f = true := List.contains_iff_mem.mpr hf
      rw [hc] at this
      exact Bool.noConfusion this
  · exact Or.inr hex

theorem keeps_of_tableOK {ps : List Prod} {πs : List Path} (hok : tableOKFor ps πs = true)
    {p : Prod} (hp : p ∈ ps) {π : Path} (hπ : π ∈ πs) {s : Stmt} (hd : s.kind ∈ strictKinds)
    (hb : builtBy p s = true) (ha : pathApplies π s = true) :
    ∀ f ∈ s.present, keeps π f = true ∨ exempt.contains (π.kind, f) = true := by
  simp only [tableOKFor, List.all_eq_true] at hok
  have h1 := hok p hp
  have hk : p.kind = s.kind := by
    simp only [builtBy, Bool.and_eq_true, beq_iff_eq] at hb
    exact hb.1.1.1
  have hd' : strictKinds.contains p.kind = true := by rw [hk]; exact List.contains_iff_mem.mpr hd
  simp only [hd', Bool.not_true, Bool.false_or, List.all_eq_true] at h1
  exact keeps_of_pairOK (h1 π hπ) hb ha

theorem formatPath_spec {s : Stmt} {π : Path} (h : formatPath s = some π) : π ∈ paths ∧ pathApplies π s = true := by
  unfold formatPath at h
  exact ⟨List.mem_of_find?_eq_some h, by simpa using List.find?_some h⟩

end AcraModel.Sql.Forms
