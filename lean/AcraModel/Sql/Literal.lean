import AcraModel.Basic.Bytes
import AcraModel.Generated.SqlLiterals
/-!
# String literal codec of the SQL parser (C13)

* `escape`, `encodeBytesSQL` – `sqltypes.EncodeBytesSQLWithoutQuotes` / `encodeBytesSQL` (what `SQLVal.Format`
  prints for `StrVal`, and after `E` for `PgEscapeString`): bytes of the regenerated table `encodeRef` become
  backslash + letter; a value that starts with `\x` keeps these two bytes (`hexPrefix`).
* `scanString` – `Tokenizer.scanString` after the opening quote: backslash escapes decoded with the inverse
  table (unknown letters stand for themselves), doubled delimiter = one delimiter, and the PostgreSQL
  hex-string quirk: a `\x`/`\X` met before any other escape or doubled quote (`index == 0`) is kept as is.

`Props/C13.lean` proves `scanString (encodeBytesSQL b) = b` for every byte string.
-/
namespace AcraModel.Sql.Literal
open AcraModel Generated.SqlLiterals

def backslash : UInt8 := 92
def quote : UInt8 := 39
def dquote : UInt8 := 34

/-- `SQLEncodeMap[c]`: the escape letter, `none` = `DontEscape` -/
def encodeOf (c : UInt8) : Option UInt8 :=
  (encodeRef.find? (fun p => p.1 == c.toNat)).map (fun p => UInt8.ofNat p.2)

/-- `SQLDecodeMap[e]`: the byte an escape letter stands for, `none` = `DontEscape` -/
def decodeOf (e : UInt8) : Option UInt8 :=
  (encodeRef.find? (fun p => p.2 == e.toNat)).map (fun p => UInt8.ofNat p.1)

/-- `EncodeBytesSQLWithoutQuotes` -/
def escape : Bytes → Bytes
  | [] => []
  | c :: cs => (match encodeOf c with
                | some e => [backslash, e]
                | none => [c]) ++ escape cs

def hexPrefixBytes : Bytes := hexPrefix.map UInt8.ofNat

/-- what `encodeBytesSQL` writes between the quotes -/
def encodeBody (b : Bytes) : Bytes :=
  if hexPrefixBytes.isPrefixOf b && b.length ≥ hexPrefixBytes.length then hexPrefixBytes ++ escape (b.drop hexPrefixBytes.length)
  else escape b

/-- `encodeBytesSQL`: the printed form of a `StrVal` -/
def encodeBytesSQL (b : Bytes) : Bytes := quote :: encodeBody b ++ [quote]

/-- printed form of a `PgEscapeString` (after the `E`) -/
def encodeEscapeString (b : Bytes) : Bytes := quote :: escape b ++ [quote]

def isX (c : UInt8) : Bool := c == 120 || c == 88

def consR (c : UInt8) : Option (Bytes × Bytes) → Option (Bytes × Bytes)
  | some (v, r) => some (c :: v, r)
  | none => none

/-- `Tokenizer.scanString(delim, …)` on the input after the opening quote: `(value, rest)` or `none` (LEX_ERROR).
`first` = no escape or doubled delimiter has been met yet (`index == 0` in the Go loop). -/
def scanString (delim : UInt8) : Bool → Bytes → Option (Bytes × Bytes)
  | _, [] => none
  | first, [c] =>
    if c == backslash then none
    else if c == delim then some ([], [])
    else consR c none
  | first, c :: e :: rest =>
    if c == backslash then
      if first && isX e then consR backslash (consR e (scanString delim false rest))
      else consR ((decodeOf e).getD e) (scanString delim false rest)
    else if c == delim then
      if e == delim then consR delim (scanString delim false rest)
      else some ([], e :: rest)
    else consR c (scanString delim first (e :: rest))

end AcraModel.Sql.Literal
