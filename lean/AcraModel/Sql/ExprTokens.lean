import AcraModel.Sql.ExprSound
/-!
# Token conservation of the expression fragment (C13)

`lexemes ts` – the value-carrying tokens of a token list (literals and identifiers; keywords, operators and punctuation
carry nothing beyond what the tree node itself records). `parse_keeps_lexemes`: whatever the expression parser accepts,
the printed form of the tree it returns has exactly the value-carrying tokens of the input, in the same order – no
literal and no identifier is lost, duplicated, reordered or invented between the text received and the text sent on.

The proof follows the parser (`step`) like `ExprSound.lean`: `Keeps p` – every result of `p` satisfies the conservation
invariant of its mode; `step` preserves it (given soundness, which the sign folding of `mkUnary` needs: an `IntVal` has
at most one `-`).
-/
namespace AcraModel.Sql.Expr
open AcraModel

def Tok.carriesValue : Tok → Bool
  | .sym _ => false
  | _ => true

/-- the value-carrying tokens: literals and identifiers -/
def lexemes (ts : List Tok) : List Tok := ts.filter Tok.carriesValue

theorem lexemes_append (a b : List Tok) : lexemes (a ++ b) = lexemes a ++ lexemes b := by
  simp [lexemes, List.filter_append]

@[simp] theorem lexemes_nil : lexemes [] = [] := rfl
@[simp] theorem lexemes_sym (s : Sym) (ts : List Tok) : lexemes (.sym s :: ts) = lexemes ts := by
  simp [lexemes, List.filter_cons, Tok.carriesValue]
@[simp] theorem lexemes_lit (ty : Nat) (v : Bytes) (ts : List Tok) : lexemes (.lit ty v :: ts) = .lit ty v :: lexemes ts := by
  simp [lexemes, List.filter_cons, Tok.carriesValue]
@[simp] theorem lexemes_id (n : Bytes) (ts : List Tok) : lexemes (.id n :: ts) = .id n :: lexemes ts := by
  simp [lexemes, List.filter_cons, Tok.carriesValue]

theorem lexemes_syms (ss : List Sym) : lexemes (ss.map .sym) = [] := by
  induction ss with
  | nil => rfl
  | cons s ss ih => simp [ih]

/-- the value-carrying tokens of the printed tree -/
def leaves (e : Expr) : List Tok := lexemes (toks e)

theorem leaves_not (e : Expr) : leaves (.not e) = leaves e := by simp [leaves, toks_not]
theorem leaves_paren (e : Expr) : leaves (.paren e) = leaves e := by simp [leaves, toks_paren, lexemes_append]
theorem leaves_is (op : IsOp) (e : Expr) : leaves (.is op e) = leaves e := by
  simp [leaves, toks_is, lexemes_append, lexemes_syms]
theorem leaves_cmp (op : CmpOp) (l r : Expr) : leaves (.cmp op l r) = leaves l ++ leaves r := by
  simp [leaves, toks_cmp, lexemes_append, lexemes_syms]
theorem leaves_range (neg : Bool) (l lo hi : Expr) : leaves (.range neg l lo hi) = leaves l ++ (leaves lo ++ leaves hi) := by
  cases neg <;> simp [leaves, toks_range, lexemes_append]
theorem leaves_mk (b : Bin2) (l r : Expr) : leaves (b.mk l r) = leaves l ++ leaves r := by
  simp [leaves, toks_mk, lexemes_append]
theorem leaves_un (op : UnOp) (e : Expr) : leaves (.un op e) = leaves e := by simp [leaves, toks_un]
theorem leaves_null : leaves .null = [] := by simp [leaves, toks_null]
theorem leaves_bool (b : Bool) : leaves (.bool b) = [] := by simp [leaves, toks_bool]
theorem leaves_col (n : Bytes) : leaves (.col n) = [.id n] := by simp [leaves, toks_col]

/-- the arguments of a call, one after the other -/
def leavesArgs : List Expr → List Tok
  | [] => []
  | e :: es => leaves e ++ leavesArgs es

theorem lexemes_toksArgs : (as : List Expr) → lexemes (toksArgs as) = leavesArgs as
  | [] => by simp [toksArgs_nil, leavesArgs]
  | [e] => by simp [toksArgs_one, leavesArgs, leaves]
  | e :: e' :: es => by
    rw [toksArgs_cons2, lexemes_append, lexemes_sym, lexemes_toksArgs (e' :: es)]
    simp [leavesArgs, leaves]

theorem leaves_func (n : Bytes) (as : List Expr) : leaves (.func n as) = .id n :: leavesArgs as := by
  simp [leaves, toks_func, lexemes_append, lexemes_toksArgs]

theorem leavesArgs_append (a b : List Expr) : leavesArgs (a ++ b) = leavesArgs a ++ leavesArgs b := by
  induction a with
  | nil => rfl
  | cons e es ih => simp [leavesArgs, ih, List.append_assoc]

/-- a literal as the tokenizer yields it (unsigned number) is printed as one value-carrying token -/
theorem leaves_val_of_tokOk {ty : Nat} {v : Bytes} (h : TokOk (.lit ty v)) : leaves (.val ty v) = [.lit ty v] := by
  unfold leaves
  rw [toks_val]
  cases v with
  | nil => simp
  | cons c w =>
    dsimp only
    by_cases hr : rawTy ty = true
    · have := (h hr).2
      simp only [List.head?_cons, ne_eq, Option.some.injEq] at this
      have hc : (c == minusByte) = false := by
        cases hb : (c == minusByte) with
        | false => rfl
        | true => exact absurd (beq_iff_eq.mp hb) this
      simp [hc]
    · simp [hr]

/-- sign folding keeps the value-carrying tokens: `- 1` ↦ `-1`, `- -1` ↦ `1`, `+ 1` ↦ `1` all print the literal `1` -/
theorem leaves_mkUnary (u : UnOp) {e : Expr} (hp : Producible e) : leaves (mkUnary u e) = leaves e := by
  cases e with
  | val ty v =>
    cases hp with
    | val hok =>
      unfold mkUnary
      by_cases hc : (u.folds && ty == tyInt) = true
      · simp only [hc, if_true]
        simp only [Bool.and_eq_true, beq_iff_eq] at hc
        obtain ⟨_, hty⟩ := hc
        have hraw : rawTy ty = true := by rw [hty]; decide
        by_cases hu : u = .uminus
        · simp only [hu, if_true]
          cases v with
          | nil =>
            exact absurd rfl (hok hraw).1
          | cons c w =>
            dsimp only
            by_cases hcm : (c == minusByte) = true
            · simp only [hcm, if_true]
              -- `-w` ↦ `w`; `w` is unsigned
              obtain ⟨_, hs⟩ := hok hraw
              have hcm' : c = minusByte := beq_iff_eq.mp hcm
              obtain ⟨_, hw, hw2⟩ := hs (by rw [hcm']; rfl)
              unfold leaves
              rw [toks_val, toks_val]
              simp only [hraw, hcm, Bool.and_self, if_true, List.tail_cons] at hw hw2 ⊢
              cases w with
              | nil => exact absurd rfl hw
              | cons d x =>
                dsimp only
                have hd : (d == minusByte) = false := by
                  cases hb : (d == minusByte) with
                  | false => rfl
                  | true =>
                    exfalso; apply hw2
                    simp only [List.head?_cons]
                    rw [beq_iff_eq.mp hb]
                simp [hd]
            · have hcm2 : (c == minusByte) = false := by
                cases hb : (c == minusByte) with
                | false => rfl
                | true => exact absurd hb hcm
              simp only [hcm2, Bool.false_eq_true, if_false]
              unfold leaves
              rw [toks_val, toks_val]
              dsimp only
              have hmm : (minusByte == minusByte) = true := beq_self_eq_true _
              simp [hraw, hcm2, hmm]
        · simp only [hu, if_false]
      · simp only [hc, if_false]
        exact leaves_un u _
  | null => exact leaves_un u _
  | bool b => exact leaves_un u _
  | col n => exact leaves_un u _
  | func n a => exact leaves_un u _
  | paren e => exact leaves_un u _
  | and l r => exact leaves_un u _
  | or l r => exact leaves_un u _
  | not e => exact leaves_un u _
  | is o e => exact leaves_un u _
  | cmp o l r => exact leaves_un u _
  | range n l lo hi => exact leaves_un u _
  | bin o l r => exact leaves_un u _
  | un o e => exact leaves_un u _

/-- the conservation invariant of a parser result, per mode -/
def KInv (m : Mode) (ts : List Tok) (r : PRes) : Prop :=
  match m with
  | .lvl _ => lexemes ts = leaves r.1 ++ lexemes r.2
  | .rest _ lhs => leaves lhs ++ lexemes ts = leaves r.1 ++ lexemes r.2
  | .isLoop e0 => leaves e0 ++ lexemes ts = leaves r.1 ++ lexemes r.2
  | .args n acc => .id n :: (leavesArgs acc.reverse ++ lexemes ts) = leaves r.1 ++ lexemes r.2

def Keeps (p : Mode → List Tok → Option PRes) : Prop :=
  ∀ m ts r, AllOk ts → p m ts = some r → KInv m ts r

theorem isSuffix_lexemes {ts r : List Tok} {op : IsOp} (h : isSuffix ts = some (op, r)) : lexemes ts = lexemes r := by
  unfold isSuffix at h
  split at h <;> first
    | (simp at h; obtain ⟨_, rfl⟩ := h; simp)
    | simp at h

section
variable {p : Mode → List Tok → Option PRes}

theorem rangeTail_keeps (hs : Sound p) (hk : Keeps p) {neg : Bool} {v c : Expr} {ts r : List Tok}
    (hok : AllOk ts) (h : rangeTail p neg v ts = some (c, r)) :
    leaves v ++ lexemes ts = leaves c ++ lexemes r := by
  unfold rangeTail at h
  cases h1 : p (.lvl (lCmp + 1)) ts with
  | none => simp [h1] at h
  | some q =>
    obtain ⟨lo, r1⟩ := q
    obtain ⟨_, ok1⟩ := hs _ _ _ hok h1
    have k1 : lexemes ts = leaves lo ++ lexemes r1 := hk _ _ _ hok h1
    simp only [h1, Option.bind_eq_bind, Option.bind_some] at h
    cases r1 with
    | nil => simp at h
    | cons tk r2 =>
      cases tk with
      | sym s =>
        by_cases hs' : s = .and_
        · subst hs'
          cases h2 : p (.lvl (lCmp + 1)) r2 with
          | none => simp [h2] at h
          | some q2 =>
            obtain ⟨hi, r3⟩ := q2
            have k2 : lexemes r2 = leaves hi ++ lexemes r3 := hk _ _ _ ok1.tail h2
            simp [h2] at h
            obtain ⟨rfl, rfl⟩ := h
            rw [k1, lexemes_sym, k2, leaves_range]
            simp [List.append_assoc]
        · cases s <;> first | exact absurd rfl hs' | simp at h
      | lit ty x => simp at h
      | id x => simp at h

theorem cmp_one_keeps (hk : Keeps p) {op : CmpOp} {v c : Expr} {ts r : List Tok} (hok : AllOk ts)
    (h : (do let (x, r1) ← p (.lvl (lCmp + 1)) ts; some (Expr.cmp op v x, r1)) = some (c, r)) :
    leaves v ++ lexemes ts = leaves c ++ lexemes r := by
  cases h1 : p (.lvl (lCmp + 1)) ts with
  | none => simp [h1] at h
  | some q =>
    obtain ⟨x, r1⟩ := q
    have k1 : lexemes ts = leaves x ++ lexemes r1 := hk _ _ _ hok h1
    simp [h1] at h
    obtain ⟨rfl, rfl⟩ := h
    rw [k1, leaves_cmp, List.append_assoc]

theorem cmpTail_keeps (hs : Sound p) (hk : Keeps p) {v c : Expr} {ts r : List Tok}
    (hok : AllOk ts) (h : cmpTail p v ts = some (c, r)) :
    leaves v ++ lexemes ts = leaves c ++ lexemes r := by
  unfold cmpTail at h
  cases ts with
  | nil => simp at h; obtain ⟨rfl, rfl⟩ := h; rfl
  | cons tk ts' =>
    cases tk with
    | lit ty x => simp at h; obtain ⟨rfl, rfl⟩ := h; rfl
    | id x => simp at h; obtain ⟨rfl, rfl⟩ := h; rfl
    | sym s =>
      dsimp only at h
      by_cases hn : s = .not_
      · simp only [hn, if_true] at h
        cases ts' with
        | nil => simp at h
        | cons tk2 ts2 =>
          cases tk2 with
          | lit ty x => simp at h
          | id x => simp at h
          | sym s2 =>
            rw [lexemes_sym, lexemes_sym]
            by_cases h1 : s2 = .like
            · subst h1; exact cmp_one_keeps hk hok.tail.tail h
            · by_cases h2 : s2 = .regexp
              · subst h2; exact cmp_one_keeps hk hok.tail.tail h
              · by_cases h3 : s2 = .between
                · subst h3; exact rangeTail_keeps hs hk hok.tail.tail h
                · cases s2 <;> first | exact absurd rfl h1 | exact absurd rfl h2 | exact absurd rfl h3 | simp at h
      · simp only [hn, if_false] at h
        by_cases hb : s = .between
        · simp only [hb, if_true] at h
          rw [lexemes_sym]
          exact rangeTail_keeps hs hk hok.tail h
        · simp only [hb, if_false] at h
          cases hc : s.cmpop with
          | none => simp [hc] at h; obtain ⟨rfl, rfl⟩ := h; rfl
          | some op =>
            simp only [hc] at h
            rw [lexemes_sym]
            exact cmp_one_keeps hk hok.tail h

theorem unaryOrPrim_keeps (hs : Sound p) (hk : Keeps p) {ts r : List Tok} {e : Expr} (hok : AllOk ts)
    (h : unaryOrPrim p ts = some (e, r)) : lexemes ts = leaves e ++ lexemes r := by
  unfold unaryOrPrim at h
  cases ts with
  | nil => simp at h
  | cons tk ts' =>
    cases tk with
    | lit ty v =>
      simp at h; obtain ⟨rfl, rfl⟩ := h
      rw [lexemes_lit, leaves_val_of_tokOk hok.head]; rfl
    | sym s =>
      dsimp only at h
      rw [lexemes_sym]
      cases hu : s.unop with
      | some u =>
        simp only [hu] at h
        cases h1 : p (.lvl lUnary) ts' with
        | none => simp [h1] at h
        | some q =>
          obtain ⟨x, r1⟩ := q
          obtain ⟨⟨px, _⟩, _⟩ := hs _ _ _ hok.tail h1
          have k1 : lexemes ts' = leaves x ++ lexemes r1 := hk _ _ _ hok.tail h1
          simp [h1] at h
          obtain ⟨rfl, rfl⟩ := h
          rw [k1, leaves_mkUnary u px]
      | none =>
        simp only [hu] at h
        by_cases hl : s = .lp
        · simp only [hl, if_true] at h
          cases h1 : p (.lvl lOr) ts' with
          | none => simp [h1] at h
          | some q =>
            obtain ⟨x, r1⟩ := q
            have k1 : lexemes ts' = leaves x ++ lexemes r1 := hk _ _ _ hok.tail h1
            simp only [h1, Option.bind_eq_bind, Option.bind_some] at h
            cases r1 with
            | nil => simp at h
            | cons tk2 r2 =>
              cases tk2 with
              | lit ty v => simp at h
              | id v => simp at h
              | sym s2 =>
                by_cases h2 : s2 = .rp
                · subst h2; simp at h; obtain ⟨rfl, rfl⟩ := h
                  rw [k1, leaves_paren, lexemes_sym]
                · cases s2 <;> first | exact absurd rfl h2 | simp at h
        · simp only [hl, if_false] at h
          by_cases h2 : s = .null
          · simp [h2] at h; obtain ⟨rfl, rfl⟩ := h; simp [leaves_null]
          · by_cases h3 : s = .true_
            · simp [h3] at h; obtain ⟨rfl, rfl⟩ := h; simp [leaves_bool]
            · by_cases h4 : s = .false_
              · simp [h4] at h; obtain ⟨rfl, rfl⟩ := h; simp [leaves_bool]
              · simp [h2, h3, h4] at h
    | id nm =>
      rw [lexemes_id]
      have hcol : ∀ r', (Expr.col nm, r') = (e, r) → .id nm :: lexemes r' = leaves e ++ lexemes r := by
        intro r' h'
        injection h' with a b
        subst a; subst b
        simp [leaves_col]
      cases ts' with
      | nil => simp at h; exact hcol _ (by simp [h])
      | cons tk2 ts2 =>
        cases tk2 with
        | lit ty v => simp at h; exact hcol _ (by simp [h])
        | id v => simp at h; exact hcol _ (by simp [h])
        | sym s2 =>
          by_cases h2 : s2 = .lp
          · subst h2
            rw [lexemes_sym]
            have hargs : ∀ ts, AllOk ts → p (.args nm []) ts = some (e, r) →
                .id nm :: lexemes ts = leaves e ++ lexemes r := by
              intro ts hts h'
              have := hk _ _ _ hts h'
              simpa [KInv, leavesArgs] using this
            cases ts2 with
            | nil => simp at h; exact hargs _ hok.tail.tail h
            | cons tk3 ts3 =>
              cases tk3 with
              | lit ty v => simp at h; exact hargs _ hok.tail.tail h
              | id v => simp at h; exact hargs _ hok.tail.tail h
              | sym s3 =>
                by_cases h3 : s3 = .rp
                · subst h3; simp at h; obtain ⟨rfl, rfl⟩ := h
                  simp [leaves_func, leavesArgs]
                · cases s3 <;> first | exact absurd rfl h3 | (simp at h; exact hargs _ hok.tail.tail h)
          · cases s2 <;> first | exact absurd rfl h2 | (simp at h; exact hcol _ (by simp [h]))

theorem step_keeps (hs : Sound p) (hk : Keeps p) : Keeps (step p) := by
  intro m ts res hok h
  obtain ⟨e, r⟩ := res
  cases m with
  | lvl L =>
    simp only [step] at h
    simp only [KInv]
    by_cases h5 : L = lNot
    · simp only [h5, if_true] at h
      have hpass : p (.lvl (lNot + 1)) ts = some (e, r) → lexemes ts = leaves e ++ lexemes r :=
        fun h' => hk _ _ _ hok h'
      cases ts with
      | nil => exact hpass h
      | cons tk ts' =>
        cases tk with
        | lit ty v => exact hpass h
        | id v => exact hpass h
        | sym s =>
          by_cases hs' : s = .not_
          · subst hs'
            dsimp only at h
            cases h1 : p (.lvl lNot) ts' with
            | none => simp [h1] at h
            | some q =>
              obtain ⟨x, r1⟩ := q
              have k1 : lexemes ts' = leaves x ++ lexemes r1 := hk _ _ _ hok.tail h1
              simp [h1] at h
              obtain ⟨rfl, rfl⟩ := h
              rw [lexemes_sym, k1, leaves_not]
          · cases s <;> first | exact absurd rfl hs' | exact hpass h
    · simp only [h5, if_false] at h
      by_cases h7 : L = lCmp
      · simp only [h7, if_true] at h
        cases h1 : p (.lvl (lCmp + 1)) ts with
        | none => simp [h1] at h
        | some q =>
          obtain ⟨v, r1⟩ := q
          obtain ⟨⟨pv, hv⟩, ok1⟩ := hs _ _ _ hok h1
          have k1 : lexemes ts = leaves v ++ lexemes r1 := hk _ _ _ hok h1
          simp only [h1, Option.bind_eq_bind, Option.bind_some] at h
          cases h2 : cmpTail p v r1 with
          | none => simp [h2] at h
          | some q2 =>
            obtain ⟨c, r2⟩ := q2
            obtain ⟨_, _, ok2⟩ := cmpTail_sound hs pv (lvlV_of_inv hv) ok1 h2
            have k2 := cmpTail_keeps hs hk ok1 h2
            simp only [h2, Option.bind_some] at h
            have k3 : leaves c ++ lexemes r2 = leaves e ++ lexemes r := hk _ _ _ ok2 h
            rw [k1, k2]
            exact k3
      · simp only [h7, if_false] at h
        by_cases h14 : lUnary ≤ L
        · simp only [h14, if_true] at h
          exact unaryOrPrim_keeps hs hk hok h
        · simp only [h14, if_false] at h
          cases h1 : p (.lvl (L + 1)) ts with
          | none => simp [h1] at h
          | some q =>
            obtain ⟨l, r1⟩ := q
            obtain ⟨_, ok1⟩ := hs _ _ _ hok h1
            have k1 : lexemes ts = leaves l ++ lexemes r1 := hk _ _ _ hok h1
            simp only [h1, Option.bind_eq_bind, Option.bind_some] at h
            have k2 : leaves l ++ lexemes r1 = leaves e ++ lexemes r := hk _ _ _ ok1 h
            rw [k1]
            exact k2
  | rest L lhs =>
    simp only [step] at h
    simp only [KInv]
    have hstop : (lhs, ts) = (e, r) → leaves lhs ++ lexemes ts = leaves e ++ lexemes r := by
      intro h'
      injection h' with a b
      subst a; subst b
      rfl
    cases ts with
    | nil => simp at h; exact hstop (by simp [h])
    | cons tk ts' =>
      cases tk with
      | lit ty v => simp at h; exact hstop (by simp [h])
      | id v => simp at h; exact hstop (by simp [h])
      | sym s =>
        dsimp only at h
        cases hb : bin2At L s with
        | none => simp [hb] at h; exact hstop (by simp [h])
        | some b =>
          simp only [hb] at h
          cases h1 : p (.lvl (L + 1)) ts' with
          | none => simp [h1] at h
          | some q =>
            obtain ⟨x, r1⟩ := q
            obtain ⟨_, ok1⟩ := hs _ _ _ hok.tail h1
            have k1 : lexemes ts' = leaves x ++ lexemes r1 := hk _ _ _ hok.tail h1
            simp only [h1, Option.bind_eq_bind, Option.bind_some] at h
            have k2 : leaves (b.mk lhs x) ++ lexemes r1 = leaves e ++ lexemes r := hk _ _ _ ok1 h
            rw [lexemes_sym, k1, ← List.append_assoc, ← leaves_mk]
            exact k2
  | isLoop e0 =>
    simp only [step] at h
    simp only [KInv]
    have hstop : (e0, ts) = (e, r) → leaves e0 ++ lexemes ts = leaves e ++ lexemes r := by
      intro h'
      injection h' with a b
      subst a; subst b
      rfl
    cases ts with
    | nil => simp at h; exact hstop (by simp [h])
    | cons tk ts' =>
      cases tk with
      | lit ty v => simp at h; exact hstop (by simp [h])
      | id v => simp at h; exact hstop (by simp [h])
      | sym s =>
        by_cases hs' : s = .is_
        · subst hs'
          dsimp only at h
          cases h1 : isSuffix ts' with
          | none => simp [h1] at h
          | some q =>
            obtain ⟨op, r1⟩ := q
            simp only [h1] at h
            have k2 : leaves (.is op e0) ++ lexemes r1 = leaves e ++ lexemes r := hk _ _ _ (isSuffix_ok hok.tail h1) h
            rw [lexemes_sym, isSuffix_lexemes h1, ← leaves_is op e0]
            exact k2
        · cases s <;> first | exact absurd rfl hs' | (simp at h; exact hstop (by simp [h]))
  | args nm acc =>
    simp only [step] at h
    simp only [KInv]
    cases h1 : p (.lvl lOr) ts with
    | none => simp [h1] at h
    | some q =>
      obtain ⟨x, r1⟩ := q
      obtain ⟨_, ok1⟩ := hs _ _ _ hok h1
      have k1 : lexemes ts = leaves x ++ lexemes r1 := hk _ _ _ hok h1
      simp only [h1, Option.bind_eq_bind, Option.bind_some] at h
      cases r1 with
      | nil => simp at h
      | cons tk r2 =>
        cases tk with
        | lit ty v => simp at h
        | id v => simp at h
        | sym s =>
          by_cases hc : s = .comma
          · subst hc
            dsimp only at h
            have k2 : Tok.id nm :: (leavesArgs (x :: acc).reverse ++ lexemes r2) = leaves e ++ lexemes r :=
              hk _ _ _ ok1.tail h
            rw [k1, lexemes_sym]
            rw [← k2]
            simp [leavesArgs_append, leavesArgs, List.append_assoc]
          · by_cases hr : s = .rp
            · subst hr
              simp at h
              obtain ⟨rfl, rfl⟩ := h
              rw [k1, lexemes_sym, leaves_func]
              simp [leavesArgs_append, leavesArgs, List.append_assoc]
            · cases s <;> first | exact absurd rfl hc | exact absurd rfl hr | simp at h

end

theorem parse_keeps : ∀ n, Keeps (parse n)
  | 0 => fun _ _ _ _ h => by simp [parse] at h
  | n + 1 => step_keeps (parse_sound n) (parse_keeps n)

/-- whatever the parser accepts: the printed form of the result has exactly the value-carrying tokens of the input -/
theorem parseExprFuel_keeps {n : Nat} {ts : List Tok} {t : Expr} (hok : AllOk ts)
    (h : parseExprFuel n ts = some t) : lexemes (tokens (format t)) = lexemes ts := by
  unfold parseExprFuel at h
  cases h1 : parse n (.lvl lOr) ts with
  | none => simp [h1] at h
  | some q =>
    obtain ⟨e, r⟩ := q
    have k : lexemes ts = leaves e ++ lexemes r := parse_keeps n _ _ _ hok h1
    cases r with
    | nil =>
      simp [h1] at h; subst h
      rw [k]; simp [leaves, toks]
    | cons a b => simp [h1] at h

end AcraModel.Sql.Expr
