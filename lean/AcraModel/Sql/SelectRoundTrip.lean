import AcraModel.Sql.Select
import AcraModel.Sql.ExprProducibleB
/-!
# Round trip of the SELECT core (C13)

`parseSel (stoks s) = some s` for every well-formed `s` (`Sel.Ok`): clause by clause; the expressions by
`all_of_producible` of `ExprRoundTrip.lean` (the expression parser reads exactly the tokens of a producible tree when
what follows does not continue an expression).
-/
namespace AcraModel.Sql.Select
open AcraModel AcraModel.Sql.Expr

/-! ## the expression segment -/

theorem takeT_map (xs : List Tok) (r : List STok) :
    takeT (xs.map .t ++ r) = (xs ++ (takeT r).1, (takeT r).2) := by
  induction xs with
  | nil => simp
  | cons x xs ih => simp [takeT, ih]

theorem takeT_spec : (r : List STok) → (takeT r).1.map .t ++ (takeT r).2 = r
  | [] => by simp [takeT]
  | .kw k :: r => by simp [takeT]
  | .t x :: r => by
    have := takeT_spec r
    simp only [takeT, List.map_cons, List.cons_append]
    rw [this]

theorem takeT_head : (r : List STok) → ∀ s, (takeT r).1.head? = some (.sym s) → r.head? = some (.t (.sym s))
  | [], s, h => by simp [takeT] at h
  | .kw k :: r, s, h => by simp [takeT] at h
  | .t x :: r, s, h => by
    simp only [takeT, List.head?_cons, Option.some.injEq] at h
    simp [h]

/-- what follows an expression does not continue it -/
def StopsS (rest : List STok) : Prop := ∀ s, rest.head? = some (.t (.sym s)) → contLevel s < lOr

theorem stopsS_nil : StopsS [] := fun _ h => by simp at h
theorem stopsS_kw (k : Kw) (r : List STok) : StopsS (.kw k :: r) := fun _ h => by simp at h
theorem stopsS_comma (r : List STok) : StopsS (comma :: r) := by
  intro s h
  simp only [comma, List.head?_cons, Option.some.injEq, STok.t.injEq, Tok.sym.injEq] at h
  subst h
  have := lOr_eq
  decide

/-- **the expression parser reads exactly the printed expression** -/
theorem parseE_tE {e : Expr} (hp : Producible e) {rest : List STok} (hs : StopsS rest) :
    parseE (tE e ++ rest) = some (e, rest) := by
  unfold parseE tE
  rw [takeT_map]
  have hstop : Stops lOr (takeT rest).1 := fun s h => hs s (takeT_head rest s h)
  have A := (all_of_producible (sizeOf e) e (Nat.le_refl _) hp).A lOr (Nat.le_refl _)
    (by have := lOr_eq; have := lUnary_eq; omega) (lOr_le_lv e) (takeT rest).1 hstop
  obtain ⟨b, hb, hP⟩ := A
  have hfuel : b ≤ fuelFor (toks e ++ (takeT rest).1) := by
    unfold fuelFor
    simp only [List.length_append]
    unfold tlen at hb
    have := fuelK_eq
    have : fuelK * (toks e).length ≤ fuelK * ((toks e).length + (takeT rest).1.length) :=
      Nat.mul_le_mul_left _ (Nat.le_add_right _ _)
    omega
  have := hP _ hfuel
  simp only [this]
  rw [takeT_spec]

/-- the first token of a printed expression is not `*` -/
theorem toks_head_ne_star : (t : Expr) → ∃ tk tl, toks t = tk :: tl ∧ tk ≠ .sym .star
  | .val ty v => by
    rw [toks_val]
    cases v with
    | nil => exact ⟨_, _, rfl, by simp⟩
    | cons c w =>
      dsimp only
      split
      · exact ⟨_, _, rfl, by decide⟩
      · exact ⟨_, _, rfl, by simp⟩
  | .null => ⟨_, _, toks_null, by decide⟩
  | .bool b => ⟨_, _, toks_bool b, by cases b <;> decide⟩
  | .col n => ⟨_, _, toks_col n, by simp⟩
  | .func n a => ⟨_, _, toks_func n a, by simp⟩
  | .paren e => ⟨_, _, toks_paren e, by decide⟩
  | .not e => ⟨_, _, toks_not e, by decide⟩
  | .un o e => ⟨_, _, toks_un o e, by cases o <;> decide⟩
  | .and l r => by
    obtain ⟨tk, tl, h1, h2⟩ := toks_head_ne_star l
    exact ⟨tk, tl ++ .sym .and_ :: toks r, by rw [toks_and, h1]; rfl, h2⟩
  | .or l r => by
    obtain ⟨tk, tl, h1, h2⟩ := toks_head_ne_star l
    exact ⟨tk, tl ++ .sym .or_ :: toks r, by rw [toks_or, h1]; rfl, h2⟩
  | .is op e => by
    obtain ⟨tk, tl, h1, h2⟩ := toks_head_ne_star e
    exact ⟨tk, tl ++ .sym .is_ :: op.syms.map .sym, by rw [toks_is, h1]; rfl, h2⟩
  | .cmp op l r => by
    obtain ⟨tk, tl, h1, h2⟩ := toks_head_ne_star l
    exact ⟨tk, tl ++ (op.syms.map .sym ++ toks r), by rw [toks_cmp, h1]; rfl, h2⟩
  | .range n l lo hi => by
    obtain ⟨tk, tl, h1, h2⟩ := toks_head_ne_star l
    exact ⟨tk, tl ++ ((if n then [.sym .not_] else []) ++ .sym .between :: (toks lo ++ .sym .and_ :: toks hi)),
      by rw [toks_range, h1]; rfl, h2⟩
  | .bin o l r => by
    obtain ⟨tk, tl, h1, h2⟩ := toks_head_ne_star l
    exact ⟨tk, tl ++ .sym o.sym :: toks r, by rw [toks_bin, h1]; rfl, h2⟩

/-! ## items -/

/-- what may follow a select item / an expression of a list: it does not continue the expression and is not `AS` -/
def AfterItem (rest : List STok) : Prop := StopsS rest ∧ rest.head? ≠ some (.kw .as_)

theorem afterItem_comma (r : List STok) : AfterItem (comma :: r) := ⟨stopsS_comma r, by simp [comma]⟩

theorem parseItem_stoks {it : Item} (hok : it.Ok) {rest : List STok} (hr : AfterItem rest) :
    parseItem (stoksItem it ++ rest) = some (it, rest) := by
  cases it with
  | star => simp [stoksItem, parseItem]
  | expr e a =>
    have hp : Producible e := hok
    obtain ⟨tk, tl, htk, hne⟩ := toks_head_ne_star e
    -- the token list does not start with `*`
    have hshape : ∀ x, stoksItem (.expr e a) ++ rest = .t tk :: x → True := fun _ _ => trivial
    cases a with
    | none =>
      have hE := parseE_tE hp hr.1
      simp only [stoksItem]
      have hcons : tE e ++ rest = .t tk :: (tl.map .t ++ rest) := by simp [tE, htk]
      unfold parseItem
      rw [hcons]
      have hnstar : ∀ r, (STok.t tk :: (tl.map STok.t ++ rest)) = .t (.sym .star) :: r → False := by
        intro r h
        injection h with h1 _
        injection h1 with h1
        exact hne h1
      split
      · rename_i r heq
        exact absurd heq (fun h => hnstar _ h)
      · rw [← hcons, hE]
        -- the rest does not start with `AS <id>`
        cases rest with
        | nil => rfl
        | cons h t =>
          cases h with
          | t x => rfl
          | kw k =>
            have : k ≠ .as_ := fun hk => hr.2 (by simp [hk])
            cases k <;> first | exact absurd rfl this | rfl
    | some al =>
      have hE := parseE_tE hp (stopsS_kw .as_ (.t (.id al) :: rest))
      simp only [stoksItem, List.append_assoc, List.cons_append, List.nil_append]
      have hcons : tE e ++ (.kw .as_ :: .t (.id al) :: rest) = .t tk :: (tl.map .t ++ (.kw .as_ :: .t (.id al) :: rest)) := by
        simp [tE, htk]
      unfold parseItem
      rw [hcons]
      split
      · rename_i r heq
        injection heq with h1 _
        injection h1 with h1
        exact absurd h1 hne
      · rw [← hcons, hE]

/-! ## comma-separated lists -/

theorem parseSep_last {α : Type} {p : List STok → Option (α × List STok)} {ts r : List STok} {x : α} (n : Nat)
    (hp : p ts = some (x, r)) (hr : r.head? ≠ some comma) : parseSep p (n + 1) ts = some ([x], r) := by
  simp only [parseSep, hp]
  cases r with
  | nil => rfl
  | cons h t =>
    cases h with
    | kw k => rfl
    | t y =>
      cases y with
      | lit ty v => rfl
      | id v => rfl
      | sym s =>
        have : s ≠ .comma := fun hs => hr (by simp [hs, comma])
        cases s <;> first | exact absurd rfl this | rfl

theorem parseSep_stoks {α : Type} {p : List STok → Option (α × List STok)} {f : α → List STok}
    {G : List STok → Prop} (hcomma : ∀ r, G (comma :: r)) :
    (xs : List α) → xs ≠ [] → (∀ x, x ∈ xs → ∀ r, G r → p (f x ++ r) = some (x, r)) →
      ∀ (n : Nat) (rest : List STok), xs.length ≤ n → G rest → rest.head? ≠ some comma →
        parseSep p n (sepComma f xs ++ rest) = some (xs, rest)
  | [], h, _, _, _, _, _, _ => absurd rfl h
  | [x], _, hp, n, rest, hn, hg, hnc => by
    cases n with
    | zero => simp at hn
    | succ n =>
      simp only [sepComma]
      exact parseSep_last n (hp x (by simp) rest hg) hnc
  | x :: y :: zs, _, hp, n, rest, hn, hg, hnc => by
    cases n with
    | zero => simp at hn
    | succ n =>
      have ih := parseSep_stoks hcomma (y :: zs) (by simp) (fun z hz => hp z (List.mem_cons_of_mem _ hz)) n rest
        (by simp only [List.length_cons] at hn ⊢; omega) hg hnc
      have h1 := hp x (by simp) (comma :: (sepComma f (y :: zs) ++ rest)) (hcomma _)
      simp only [sepComma, List.append_assoc, List.cons_append]
      simp only [comma] at h1 ih ⊢
      simp only [parseSep, h1, ih]

theorem length_sepComma {α : Type} {f : α → List STok} : (xs : List α) → (∀ x, x ∈ xs → f x ≠ []) →
    xs.length ≤ (sepComma f xs).length
  | [], _ => by simp [sepComma]
  | [x], h => by
    have := h x (by simp)
    simp only [sepComma, List.length_cons, List.length_nil]
    cases hfx : f x with
    | nil => exact absurd hfx this
    | cons a b => simp
  | x :: y :: zs, h => by
    have ih := length_sepComma (y :: zs) (fun z hz => h z (List.mem_cons_of_mem _ hz))
    simp only [sepComma, List.length_append, List.length_cons] at ih ⊢
    omega

/-- the list parser with the fuel it computes itself -/
theorem parseSepL_stoks {α : Type} {p : List STok → Option (α × List STok)} {f : α → List STok}
    {G : List STok → Prop} (hcomma : ∀ r, G (comma :: r)) (xs : List α) (hne : xs ≠ [])
    (hf : ∀ x, x ∈ xs → f x ≠ [])
    (hp : ∀ x, x ∈ xs → ∀ r, G r → p (f x ++ r) = some (x, r))
    (rest : List STok) (hg : G rest) (hnc : rest.head? ≠ some comma) :
    parseSepL p (sepComma f xs ++ rest) = some (xs, rest) := by
  unfold parseSepL
  refine parseSep_stoks hcomma xs hne hp _ rest ?_ hg hnc
  have := length_sepComma xs hf
  simp only [List.length_append]
  omega

/-! ## keyword heads -/

/-- the rest of a statement after a clause: nothing, or it starts with a clause keyword of the set -/
def KwHead (S : List Kw) (r : List STok) : Prop := r = [] ∨ ∃ k r', k ∈ S ∧ r = .kw k :: r'

theorem kwHead_nil (S : List Kw) : KwHead S [] := Or.inl rfl
theorem kwHead_cons {S : List Kw} {k : Kw} (h : k ∈ S) (r : List STok) : KwHead S (.kw k :: r) := Or.inr ⟨k, r, h, rfl⟩

theorem KwHead.mono {S S' : List Kw} {r : List STok} (h : KwHead S r) (hs : ∀ k, k ∈ S → k ∈ S') : KwHead S' r := by
  rcases h with h | ⟨k, r', hk, h⟩
  · exact Or.inl h
  · exact Or.inr ⟨k, r', hs k hk, h⟩

theorem KwHead.stopsS {S : List Kw} {r : List STok} (h : KwHead S r) : StopsS r := by
  rcases h with h | ⟨k, r', _, h⟩
  · rw [h]; exact stopsS_nil
  · rw [h]; exact stopsS_kw k r'

theorem KwHead.ne_kw {S : List Kw} {r : List STok} (h : KwHead S r) {k : Kw} (hk : k ∉ S) : r.head? ≠ some (.kw k) := by
  rcases h with h | ⟨k', r', hk', h⟩
  · rw [h]; simp
  · rw [h]
    simp only [List.head?_cons, ne_eq, Option.some.injEq, STok.kw.injEq]
    intro he
    exact hk (he ▸ hk')

theorem KwHead.ne_comma {S : List Kw} {r : List STok} (h : KwHead S r) : r.head? ≠ some comma := by
  rcases h with h | ⟨k', r', _, h⟩
  · rw [h]; simp
  · rw [h]; simp [comma]

theorem dropKw_self (k : Kw) (r : List STok) : dropKw k (.kw k :: r) = some r := by simp [dropKw]

theorem dropKw_none {k : Kw} {r : List STok} (h : r.head? ≠ some (.kw k)) : dropKw k r = none := by
  cases r with
  | nil => rfl
  | cons a t =>
    cases a with
    | t x => rfl
    | kw k' =>
      simp only [dropKw]
      have : k' ≠ k := fun he => h (by simp [he])
      simp [this]

/-! ## tables and joins -/

theorem parseTbl_stoks (t : Tbl) {rest : List STok} (h : rest.head? ≠ some (.kw .as_)) :
    parseTbl (stoksTbl t ++ rest) = some (t, rest) := by
  obtain ⟨n, a⟩ := t
  cases a with
  | some a => simp [stoksTbl, parseTbl]
  | none =>
    simp only [stoksTbl, List.cons_append, List.nil_append]
    cases rest with
    | nil => rfl
    | cons x r =>
      cases x with
      | t y => rfl
      | kw k =>
        have : k ≠ .as_ := fun hk => h (by simp [hk])
        cases k <;> first | exact absurd rfl this | rfl

theorem joinKind_kws (k : JoinKind) (r : List STok) : joinKind (k.kws ++ r) = some (k, r) := by
  cases k <;> simp [JoinKind.kws, joinKind]

/-- what may follow a table (or a join): it does not continue an expression, is not `AS`, not `ON` -/
def AfterTbl (r : List STok) : Prop := StopsS r ∧ r.head? ≠ some (.kw .as_) ∧ r.head? ≠ some (.kw .on_)

theorem stoksJoin_head (j : Join) (r : List STok) : ∃ k r', stoksJoin j ++ r = .kw k :: r' ∧ k ≠ .as_ ∧ k ≠ .on_ := by
  obtain ⟨k, t, on⟩ := j
  cases k <;> simp [stoksJoin, JoinKind.kws]

theorem afterTbl_joins {js : List Join} {rest : List STok} (h : AfterTbl rest) : AfterTbl (stoksJoins js ++ rest) := by
  cases js with
  | nil => simpa [stoksJoins] using h
  | cons j js =>
    simp only [stoksJoins, List.append_assoc]
    obtain ⟨k, r', hk, h1, h2⟩ := stoksJoin_head j (stoksJoins js ++ rest)
    rw [hk]
    refine ⟨stopsS_kw k r', ?_, ?_⟩
    · simp only [List.head?_cons, ne_eq, Option.some.injEq, STok.kw.injEq]; exact h1
    · simp only [List.head?_cons, ne_eq, Option.some.injEq, STok.kw.injEq]; exact h2

theorem length_stoksJoins (js : List Join) : js.length ≤ (stoksJoins js).length := by
  induction js with
  | nil => simp [stoksJoins]
  | cons j js ih =>
    obtain ⟨k, r', hk, _, _⟩ := stoksJoin_head j []
    simp only [List.append_nil] at hk
    simp only [stoksJoins, List.length_append, List.length_cons, hk]
    omega

theorem parseJoins_stoks : (js : List Join) → (∀ j, j ∈ js → j.Ok) → ∀ (n : Nat) (rest : List STok), js.length < n →
    joinKind rest = none → AfterTbl rest → parseJoins n (stoksJoins js ++ rest) = some (js, rest)
  | [], _, n, rest, hn, hj, _ => by
    cases n with
    | zero => simp at hn
    | succ n => simp [stoksJoins, parseJoins, hj]
  | j :: js, hok, n, rest, hn, hj, ha => by
    cases n with
    | zero => simp at hn
    | succ n =>
      have ih := parseJoins_stoks js (fun x hx => hok x (List.mem_cons_of_mem _ hx)) n rest
        (by simp only [List.length_cons] at hn; omega) hj ha
      have hY := afterTbl_joins (js := js) ha
      obtain ⟨k, t, on⟩ := j
      have hjo := hok ⟨k, t, on⟩ (by simp)
      simp only [stoksJoins, stoksJoin, List.append_assoc]
      simp only [parseJoins, joinKind_kws]
      cases on with
      | none =>
        simp only [stoksOn, List.nil_append]
        rw [parseTbl_stoks t hY.2.1]
        simp only [dropKw_none hY.2.2]
        have : k.onOk false = true := by simpa using hjo.1
        simp only [this, if_true, ih]
      | some e =>
        simp only [stoksOn, List.cons_append]
        rw [parseTbl_stoks t (by simp)]
        simp only [dropKw_self]
        have : k.onOk true = true := by simpa using hjo.1
        simp only [this, if_true]
        rw [parseE_tE (hjo.2 e rfl) hY.1]
        simp only [ih]

theorem parseTRef_stoks (t : TRef) (hok : t.Ok) {rest : List STok} (hj : joinKind rest = none) (ha : AfterTbl rest) :
    parseTRef (stoksTRef t ++ rest) = some (t, rest) := by
  obtain ⟨b, js⟩ := t
  simp only [stoksTRef, List.append_assoc]
  unfold parseTRef
  rw [parseTbl_stoks b (afterTbl_joins (js := js) ha).2.1]
  simp only
  rw [parseJoins_stoks js hok _ rest ?_ hj ha]
  have := length_stoksJoins js
  simp only [List.length_append]
  omega

/-! ## ORDER BY elements, optional clauses, LIMIT -/

theorem parseOrd_stoks {o : Ord} (hok : o.Ok) (rest : List STok) : parseOrd (stoksOrd o ++ rest) = some (o, rest) := by
  obtain ⟨e, d⟩ := o
  have hn : Ord.noDir ⟨e, d⟩ = false := hok.2
  simp only [stoksOrd, hn, Bool.false_eq_true, if_false, List.append_assoc, List.cons_append, List.nil_append]
  unfold parseOrd
  rw [parseE_tE hok.1 (stopsS_kw _ _)]
  cases d <;> simp [dropKw]

theorem parseOptE_stoks (k : Kw) (w : Option Expr) (hp : ∀ e, w = some e → Producible e) {rest : List STok}
    (hs : StopsS rest) (hk : rest.head? ≠ some (.kw k)) :
    parseOptE k (stoksWhere k w ++ rest) = some (w, rest) := by
  cases w with
  | none => simp [stoksWhere, parseOptE, dropKw_none hk]
  | some e =>
    simp only [stoksWhere, List.cons_append]
    unfold parseOptE
    rw [dropKw_self]
    simp only
    rw [parseE_tE (hp e rfl) hs]

theorem parseOptList_stoks {α : Type} (k : Kw) {p : List STok → Option (α × List STok)} {f : α → List STok}
    {G : List STok → Prop} (hcomma : ∀ r, G (comma :: r)) (xs : List α)
    (hf : ∀ x, x ∈ xs → f x ≠ [])
    (hp : ∀ x, x ∈ xs → ∀ r, G r → p (f x ++ r) = some (x, r))
    (rest : List STok) (hg : G rest) (hnc : rest.head? ≠ some comma) (hk : rest.head? ≠ some (.kw k)) :
    parseOptList k p (stoksList k f xs ++ rest) = some (xs, rest) := by
  cases xs with
  | nil => simp [stoksList, parseOptList, dropKw_none hk]
  | cons x xs =>
    simp only [stoksList, List.cons_append]
    unfold parseOptList
    rw [dropKw_self]
    simp only
    rw [dropKw_self]
    simp only
    exact parseSepL_stoks hcomma (x :: xs) (by simp) hf hp rest hg hnc

theorem parseLim_stoks {l : Lim} (hok : l.Ok) : parseLim (stoksLim l) = some (l, []) := by
  cases l with
  | none => simp [stoksLim, parseLim, dropKw]
  | count n =>
    have hn : Producible n := hok
    simp only [stoksLim]
    unfold parseLim
    rw [dropKw_self]
    simp only
    have := parseE_tE hn stopsS_nil
    rw [List.append_nil] at this
    rw [this]
    simp [dropKw]
  | countOffset n off =>
    obtain ⟨hn, ho⟩ : Producible n ∧ Producible off := hok
    simp only [stoksLim]
    unfold parseLim
    rw [dropKw_self]
    simp only
    rw [parseE_tE hn (stopsS_kw _ _)]
    simp only [dropKw_self]
    have := parseE_tE ho stopsS_nil
    rw [List.append_nil] at this
    rw [this]
  | comma off n =>
    obtain ⟨ho, hn⟩ : Producible off ∧ Producible n := hok
    simp only [stoksLim]
    unfold parseLim
    rw [dropKw_self]
    simp only
    rw [parseE_tE ho (stopsS_comma _)]
    have hd : dropKw .offset (STok.t (Tok.sym Sym.comma) :: tE n) = none := dropKw_none (by simp)
    have := parseE_tE hn stopsS_nil
    rw [List.append_nil] at this
    simp only [comma, hd, this]


/-! ## assembly -/

theorem kwHead_lim (l : Lim) : KwHead [.limit] (stoksLim l) := by
  cases l with
  | none => exact kwHead_nil _
  | count n => exact kwHead_cons (by simp) _
  | countOffset n off => exact kwHead_cons (by simp) _
  | comma off n => exact kwHead_cons (by simp) _

theorem kwHead_where {S : List Kw} (k : Kw) (w : Option Expr) {r : List STok} (h : KwHead S r) :
    KwHead (k :: S) (stoksWhere k w ++ r) := by
  cases w with
  | none => simpa [stoksWhere] using h.mono (fun x hx => List.mem_cons_of_mem _ hx)
  | some e => simp only [stoksWhere, List.cons_append]; exact kwHead_cons (by simp) _

theorem kwHead_list {α : Type} {S : List Kw} (k : Kw) (f : α → List STok) (xs : List α) {r : List STok} (h : KwHead S r) :
    KwHead (k :: S) (stoksList k f xs ++ r) := by
  cases xs with
  | nil => simpa [stoksList] using h.mono (fun x hx => List.mem_cons_of_mem _ hx)
  | cons x xs => simp only [stoksList, List.cons_append]; exact kwHead_cons (by simp) _

theorem tE_ne_nil (e : Expr) : tE e ≠ [] := by
  obtain ⟨tk, tl, h, _⟩ := toks_head_ne_star e
  simp [tE, h]

theorem stoksItem_head (it : Item) (r : List STok) : ∃ x r', stoksItem it ++ r = .t x :: r' := by
  cases it with
  | star => exact ⟨_, _, rfl⟩
  | expr e a =>
    obtain ⟨tk, tl, h, _⟩ := toks_head_ne_star e
    cases a <;> simp [stoksItem, tE, h]

theorem sepComma_items_head : (xs : List Item) → xs ≠ [] → ∀ r, ∃ x r', sepComma stoksItem xs ++ r = .t x :: r'
  | [], h, _ => absurd rfl h
  | [x], _, r => by simpa [sepComma] using stoksItem_head x r
  | x :: y :: zs, _, r => by
    simp only [sepComma, List.append_assoc]
    exact stoksItem_head x _

theorem joinKind_none_of_kwHead {r : List STok}
    (h : KwHead [.where_, .group, .having, .order, .limit] r) : joinKind r = none := by
  rcases h with h | ⟨k, r', hk, h⟩
  · rw [h]; rfl
  · rw [h]
    simp only [List.mem_cons, List.mem_nil_iff, or_false] at hk
    rcases hk with rfl | rfl | rfl | rfl | rfl <;> rfl

/-- **Round trip of the SELECT core.** -/
theorem parseSel_stoks (s : Sel) (hok : s.Ok) : parseSel (stoks s) = some s := by
  obtain ⟨dst, items, from_, w, g, hv, o, l⟩ := s
  obtain ⟨h_ine, h_items, h_fne, h_from, h_w, h_g, h_h, h_o, h_l⟩ := hok
  simp only at h_ine h_items h_fne h_from h_w h_g h_h h_o h_l
  -- the suffixes and their heads
  have k5 : KwHead [.limit] (stoksLim l) := kwHead_lim l
  have k4 : KwHead [.order, .limit] (stoksList .order stoksOrd o ++ stoksLim l) := kwHead_list _ _ _ k5
  have k3 : KwHead [.having, .order, .limit] (stoksWhere .having hv ++ (stoksList .order stoksOrd o ++ stoksLim l)) :=
    kwHead_where _ _ k4
  have k2 : KwHead [.group, .having, .order, .limit]
      (stoksList .group tE g ++ (stoksWhere .having hv ++ (stoksList .order stoksOrd o ++ stoksLim l))) :=
    kwHead_list _ _ _ k3
  have k1 : KwHead [.where_, .group, .having, .order, .limit] (stoksTail ⟨dst, items, from_, w, g, hv, o, l⟩) :=
    kwHead_where _ _ k2
  unfold parseSel stoks
  rw [dropKw_self]
  simp only
  -- DISTINCT
  have hd : parseDistinct ((if dst = true then [STok.kw Kw.distinct] else []) ++
        (sepComma stoksItem items ++ (STok.kw Kw.from_ :: (sepComma stoksTRef from_ ++ stoksTail ⟨dst, items, from_, w, g, hv, o, l⟩)))) =
      (dst, sepComma stoksItem items ++ (STok.kw Kw.from_ :: (sepComma stoksTRef from_ ++ stoksTail ⟨dst, items, from_, w, g, hv, o, l⟩))) := by
    unfold parseDistinct
    cases dst with
    | true => simp [dropKw_self]
    | false =>
      obtain ⟨x, r', hx⟩ := sepComma_items_head items h_ine
        (STok.kw Kw.from_ :: (sepComma stoksTRef from_ ++ stoksTail ⟨false, items, from_, w, g, hv, o, l⟩))
      simp only [Bool.false_eq_true, if_false, List.nil_append]
      rw [hx]
      simp [dropKw]
  rw [hd]
  simp only
  -- the select list
  rw [parseSepL_stoks (G := AfterItem) afterItem_comma items h_ine
    (fun x _ => by obtain ⟨y, r', h⟩ := stoksItem_head x []; intro h0; rw [List.append_nil] at h; rw [h0] at h; cases h)
    (fun x hx r hr => parseItem_stoks (h_items x hx) hr) _
    ⟨stopsS_kw _ _, by simp⟩ (by simp [comma])]
  simp only [dropKw_self]
  -- FROM
  rw [parseSepL_stoks (G := fun r => joinKind r = none ∧ AfterTbl r)
    (fun r => ⟨by simp [comma, joinKind], stopsS_comma r, by simp [comma], by simp [comma]⟩) from_ h_fne
    (fun t _ => by obtain ⟨b, js⟩ := t; cases hb : b.as_ <;> simp [stoksTRef, stoksTbl, hb])
    (fun t ht r hr => parseTRef_stoks t (h_from t ht) hr.1 hr.2) _
    ⟨joinKind_none_of_kwHead k1, k1.stopsS, k1.ne_kw (by decide), k1.ne_kw (by decide)⟩ k1.ne_comma]
  simp only [stoksTail]
  -- WHERE
  rw [parseOptE_stoks .where_ w h_w k2.stopsS (k2.ne_kw (by decide))]
  simp only
  -- GROUP BY
  rw [parseOptList_stoks (G := StopsS) .group stopsS_comma g (fun e _ => tE_ne_nil e)
    (fun e he r hr => parseE_tE (h_g e he) hr) _ k3.stopsS k3.ne_comma (k3.ne_kw (by decide))]
  simp only
  -- HAVING
  rw [parseOptE_stoks .having hv h_h k4.stopsS (k4.ne_kw (by decide))]
  simp only
  -- ORDER BY
  rw [parseOptList_stoks (G := fun _ => True) .order (fun _ => trivial) o
    (fun x _ => by
      have := tE_ne_nil x.e
      unfold stoksOrd
      split
      · exact this
      · simp)
    (fun x hx r _ => parseOrd_stoks (h_o x hx) r) _ trivial k5.ne_comma (k5.ne_kw (by decide))]
  simp only
  -- LIMIT
  rw [parseLim_stoks h_l]


/-! ## the executable well-formedness check -/

def optB (o : Option Expr) : Bool :=
  match o with
  | some e => producibleB e
  | none => true

def Item.okB : Item → Bool
  | .star => true
  | .expr e _ => producibleB e

def Join.okB (j : Join) : Bool := j.k.onOk j.on.isSome && optB j.on

def TRef.okB (t : TRef) : Bool := t.joins.all Join.okB

def Ord.okB (o : Ord) : Bool := producibleB o.e && !o.noDir

def Lim.okB : Lim → Bool
  | .none => true
  | .count n => producibleB n
  | .countOffset n off => producibleB n && producibleB off
  | .comma off n => producibleB off && producibleB n

def Sel.okB (s : Sel) : Bool :=
  !s.items.isEmpty && s.items.all Item.okB && !s.from_.isEmpty && s.from_.all TRef.okB && optB s.where_ &&
    s.groupBy.all producibleB && optB s.having && s.orderBy.all Ord.okB && s.limit.okB

theorem opt_of_optB {o : Option Expr} (h : optB o = true) : ∀ e, o = some e → Producible e := by
  intro e he
  subst he
  exact producible_of_producibleB e h

theorem Sel.ok_of_okB {s : Sel} (h : s.okB = true) : s.Ok := by
  simp only [Sel.okB, Bool.and_eq_true, Bool.not_eq_true', List.all_eq_true] at h
  obtain ⟨⟨⟨⟨⟨⟨⟨⟨h1, h2⟩, h3⟩, h4⟩, h5⟩, h6⟩, h7⟩, h8⟩, h9⟩ := h
  refine ⟨?_, ?_, ?_, ?_, opt_of_optB h5, fun e he => producible_of_producibleB e (h6 e he), opt_of_optB h7, ?_, ?_⟩
  · intro hn; rw [hn] at h1; simp at h1
  · intro i hi
    have := h2 i hi
    cases i with
    | star => trivial
    | expr e a => exact producible_of_producibleB e this
  · intro hn; rw [hn] at h3; simp at h3
  · intro t ht j hj
    have := h4 t ht
    simp only [TRef.okB, List.all_eq_true] at this
    have hjb := this j hj
    simp only [Join.okB, Bool.and_eq_true] at hjb
    exact ⟨hjb.1, opt_of_optB hjb.2⟩
  · intro o ho
    have := h8 o ho
    simp only [Ord.okB, Bool.and_eq_true, Bool.not_eq_true'] at this
    exact ⟨producible_of_producibleB _ this.1, this.2⟩
  · cases hl : s.limit with
    | none => trivial
    | count n => rw [hl] at h9; exact producible_of_producibleB n h9
    | countOffset n off =>
      rw [hl] at h9
      simp only [Lim.okB, Bool.and_eq_true] at h9
      exact ⟨producible_of_producibleB n h9.1, producible_of_producibleB off h9.2⟩
    | comma off n =>
      rw [hl] at h9
      simp only [Lim.okB, Bool.and_eq_true] at h9
      exact ⟨producible_of_producibleB off h9.1, producible_of_producibleB n h9.2⟩


end AcraModel.Sql.Select
