import AcraModel.Sql.ExprRoundTrip
/-!
# The SELECT core of Acra's SQL parser and printer (C13)

Model of the statement level around the expression fragment (`Sql/Expr.lean`): rule `select_statement` / `base_select`
of `sqlparser/sql.y` restricted to

    SELECT [DISTINCT] item, … FROM table-reference, … [WHERE e] [GROUP BY e, …] [HAVING e] [ORDER BY e ASC|DESC, …]
           [LIMIT n | LIMIT n OFFSET m | LIMIT m, n]

    item            :=  *  |  e [AS alias]
    table-reference :=  t [AS alias]  { (JOIN | STRAIGHT_JOIN | LEFT JOIN | RIGHT JOIN | NATURAL JOIN) t [AS alias] [ON e] }

and of the `Format` methods of `Select`, `SelectExprs`, `AliasedExpr`, `StarExpr`, `TableExprs`, `AliasedTableExpr`,
`JoinTableExpr`, `JoinCondition`, `Where`, `GroupBy`, `OrderBy`, `Order`, `Limit` (`ast_methods.go`).

* `Sel` – the tree (`Select` node with its clause nodes; join chains are left-deep, as the `%left JOIN …` declaration
  makes the goyacc parser build them);
* `stoks` – the token sequence of the printed statement: clause keywords (`Kw`) and the tokens of the expressions
  (`Expr.toks`); `render` is the text (compared with the real `sqlparser.String`);
* `parseSel` – the parser: clause by clause, expressions by the precedence-climbing parser of `Sql/Expr.lean`.

`parseSel_stoks` (the round trip) is in `SelectRoundTrip.lean`, the property theorem `select_roundtrip` in `Props/C13.lean`.
-/
namespace AcraModel.Sql.Select
open AcraModel AcraModel.Sql.Expr

/-- clause keywords (everything the expression fragment does not know) -/
inductive Kw
  | select | distinct | from_ | where_ | group | by_ | having | order | limit | offset | as_
  | join | left | right | natural | straightJoin | on_ | asc | desc
  deriving DecidableEq, Repr

def Kw.text : Kw → String
  | .select => "select" | .distinct => "distinct" | .from_ => "from" | .where_ => "where" | .group => "group"
  | .by_ => "by" | .having => "having" | .order => "order" | .limit => "limit" | .offset => "offset" | .as_ => "as"
  | .join => "join" | .left => "left" | .right => "right" | .natural => "natural" | .straightJoin => "straight_join"
  | .on_ => "on" | .asc => "asc" | .desc => "desc"

def Kw.all : List Kw :=
  [.select, .distinct, .from_, .where_, .group, .by_, .having, .order, .limit, .offset, .as_, .join, .left, .right,
   .natural, .straightJoin, .on_, .asc, .desc]

/-- statement tokens: a clause keyword or a token of the expression fragment -/
inductive STok
  | kw (k : Kw)
  | t (x : Tok)
  deriving DecidableEq, Repr

/-! ## trees -/

/-- `SelectExpr`: `StarExpr` or `AliasedExpr` -/
inductive Item
  | star
  | expr (e : Expr) (as_ : Option Bytes)
  deriving Repr

/-- `JoinTableExpr.Join` -/
inductive JoinKind | inner | straight | left | right | natural
  deriving DecidableEq, Repr

/-- `AliasedTableExpr` over a `TableName` -/
structure Tbl where
  name : Bytes
  as_ : Option Bytes
  deriving Repr, DecidableEq

/-- one step of a join chain: `JoinTableExpr{LeftExpr: <what came before>, Join, RightExpr, Condition.On}` -/
structure Join where
  k : JoinKind
  r : Tbl
  on : Option Expr
  deriving Repr

/-- `TableExpr`: a table followed by a chain of joins. The `%left JOIN STRAIGHT_JOIN LEFT RIGHT …` declaration makes the
goyacc parser build the chain left-deep (`((a join b) join c)`), and `JoinTableExpr.Format` prints it flat; the model
keeps the chain as a list (the harness converts a left-deep `JoinTableExpr` tree whose right operands are plain tables
and reports any other shape as outside the fragment). -/
structure TRef where
  base : Tbl
  joins : List Join
  deriving Repr

/-- `Order` -/
structure Ord where
  e : Expr
  desc : Bool
  deriving Repr

/-- `Limit` with its `Type` -/
inductive Lim
  | none
  | count (n : Expr)
  | countOffset (n off : Expr)
  | comma (off n : Expr)
  deriving Repr

/-- `Select` -/
structure Sel where
  distinct : Bool
  items : List Item
  from_ : List TRef
  where_ : Option Expr
  groupBy : List Expr
  having : Option Expr
  orderBy : List Ord
  limit : Lim
  deriving Repr

/-! ## printer: the tokens of the printed statement -/

def comma : STok := .t (.sym .comma)

/-- the tokens of a printed expression -/
def tE (e : Expr) : List STok := (toks e).map .t

def stoksItem : Item → List STok
  | .star => [.t (.sym .star)]
  | .expr e none => tE e
  | .expr e (some a) => tE e ++ [.kw .as_, .t (.id a)]

def stoksTbl (t : Tbl) : List STok :=
  match t.as_ with
  | none => [.t (.id t.name)]
  | some a => [.t (.id t.name), .kw .as_, .t (.id a)]

/-- the keywords of a join (`ast.go`: `JoinStr`, `StraightJoinStr`, `LeftJoinStr`, `RightJoinStr`, `NaturalJoinStr`) -/
def JoinKind.kws : JoinKind → List STok
  | .inner => [.kw .join]
  | .straight => [.kw .straightJoin]
  | .left => [.kw .left, .kw .join]
  | .right => [.kw .right, .kw .join]
  | .natural => [.kw .natural, .kw .join]

def stoksOn : Option Expr → List STok
  | none => []
  | some e => .kw .on_ :: tE e

def stoksJoin (j : Join) : List STok := j.k.kws ++ (stoksTbl j.r ++ stoksOn j.on)

def stoksJoins : List Join → List STok
  | [] => []
  | j :: js => stoksJoin j ++ stoksJoins js

def stoksTRef (t : TRef) : List STok := stoksTbl t.base ++ stoksJoins t.joins

def isRand (n : Bytes) : Bool :=
  n.map (fun c => if 65 ≤ c.toNat ∧ c.toNat ≤ 90 then c + 32 else c) == [114, 97, 110, 100]

/-- `Order.Format` prints `ORDER BY NULL` and `ORDER BY rand()` without the direction -/
def Ord.noDir (o : Ord) : Bool :=
  match o.e with
  | .null => true
  | .func n _ => isRand n
  | _ => false

def stoksOrd (o : Ord) : List STok :=
  if o.noDir then tE o.e else tE o.e ++ [.kw (if o.desc then .desc else .asc)]

/-- `a, b, c` -/
def sepComma {α : Type} (f : α → List STok) : List α → List STok
  | [] => []
  | [x] => f x
  | x :: y :: zs => f x ++ comma :: sepComma f (y :: zs)

def stoksLim : Lim → List STok
  | .none => []
  | .count n => .kw .limit :: tE n
  | .countOffset n off => .kw .limit :: (tE n ++ .kw .offset :: tE off)
  | .comma off n => .kw .limit :: (tE off ++ comma :: tE n)

def stoksWhere (k : Kw) : Option Expr → List STok
  | none => []
  | some e => .kw k :: tE e

def stoksList {α : Type} (k : Kw) (f : α → List STok) : List α → List STok
  | [] => []
  | xs => .kw k :: .kw .by_ :: sepComma f xs

/-- the clauses after the FROM list -/
def stoksTail (s : Sel) : List STok :=
  stoksWhere .where_ s.where_ ++ (stoksList .group tE s.groupBy ++ (stoksWhere .having s.having ++
    (stoksList .order stoksOrd s.orderBy ++ stoksLim s.limit)))

/-- `Select.Format`: `select [distinct ]items from tables[ where …][ group by …][ having …][ order by …][ limit …]` -/
def stoks (s : Sel) : List STok :=
  .kw .select :: ((if s.distinct then [.kw .distinct] else []) ++ (sepComma stoksItem s.items ++
    (.kw .from_ :: (sepComma stoksTRef s.from_ ++ stoksTail s))))

/-! ## the text (for the correspondence with the real printer) -/

def tokText : Tok → Bytes
  | .sym s => s.text.toUTF8.toList
  | .lit ty v => litText ty v
  | .id n => n

/-! ## parser -/

/-- the maximal prefix of expression tokens -/
def takeT : List STok → List Tok × List STok
  | .t x :: r => ((takeT r).1.cons x, (takeT r).2)
  | r => ([], r)

/-- one expression from the front of the token list -/
def parseE (ts : List STok) : Option (Expr × List STok) :=
  match parse (fuelFor (takeT ts).1) (.lvl lOr) (takeT ts).1 with
  | some (e, segRest) => some (e, segRest.map .t ++ (takeT ts).2)
  | none => none

def parseItem (ts : List STok) : Option (Item × List STok) :=
  match ts with
  | .t (.sym .star) :: r => some (.star, r)
  | _ =>
    match parseE ts with
    | some (e, .kw .as_ :: .t (.id a) :: r) => some (.expr e (some a), r)
    | some (e, r) => some (.expr e none, r)
    | none => none

/-- a comma-separated list of at least one element (`n`: fuel, one per element) -/
def parseSep {α : Type} (p : List STok → Option (α × List STok)) : Nat → List STok → Option (List α × List STok)
  | 0, _ => none
  | n + 1, ts =>
    match p ts with
    | none => none
    | some (x, .t (.sym .comma) :: r) =>
      match parseSep p n r with
      | some (xs, r') => some (x :: xs, r')
      | none => none
    | some (x, r) => some ([x], r)

/-- … with fuel from the length of the input (every element has at least one token) -/
def parseSepL {α : Type} (p : List STok → Option (α × List STok)) (ts : List STok) : Option (List α × List STok) :=
  parseSep p (ts.length + 1) ts

/-- `<k> rest` ↦ `rest` -/
def dropKw (k : Kw) : List STok → Option (List STok)
  | .kw k' :: r => if k' = k then some r else none
  | _ => none

def parseTbl : List STok → Option (Tbl × List STok)
  | .t (.id n) :: .kw .as_ :: .t (.id a) :: r => some (⟨n, some a⟩, r)
  | .t (.id n) :: r => some (⟨n, none⟩, r)
  | _ => none

def joinKind : List STok → Option (JoinKind × List STok)
  | .kw .join :: r => some (.inner, r)
  | .kw .straightJoin :: r => some (.straight, r)
  | .kw .left :: .kw .join :: r => some (.left, r)
  | .kw .right :: .kw .join :: r => some (.right, r)
  | .kw .natural :: .kw .join :: r => some (.natural, r)
  | _ => none

/-- does the grammar want / allow a join condition: `join_condition` (mandatory) for outer joins, `join_condition_opt` /
`on_expression_opt` for inner and straight joins, none for natural joins -/
def JoinKind.onOk (k : JoinKind) (on : Bool) : Bool :=
  match k with
  | .inner => true
  | .straight => true
  | .left => on
  | .right => on
  | .natural => !on

/-- the join chain after a table reference (left associative: `%left JOIN STRAIGHT_JOIN LEFT RIGHT …`; `n`: fuel, one
per join) -/
def parseJoins : Nat → List STok → Option (List Join × List STok)
  | 0, _ => none
  | n + 1, ts =>
    match joinKind ts with
    | none => some ([], ts)
    | some (k, r) =>
      match parseTbl r with
      | none => none
      | some (t, r1) =>
        match dropKw .on_ r1 with
        | some r2 =>
          if k.onOk true then
            match parseE r2 with
            | some (e, r3) =>
              match parseJoins n r3 with
              | some (js, r4) => some (⟨k, t, some e⟩ :: js, r4)
              | none => none
            | none => none
          else none
        | none =>
          if k.onOk false then
            match parseJoins n r1 with
            | some (js, r4) => some (⟨k, t, none⟩ :: js, r4)
            | none => none
          else none

def parseTRef (ts : List STok) : Option (TRef × List STok) :=
  match parseTbl ts with
  | some (t, r) =>
    match parseJoins (r.length + 1) r with
    | some (js, r') => some (⟨t, js⟩, r')
    | none => none
  | none => none

def parseOrd (ts : List STok) : Option (Ord × List STok) :=
  match parseE ts with
  | some (e, r) =>
    match dropKw .asc r with
    | some r' => some (⟨e, false⟩, r')
    | none =>
      match dropKw .desc r with
      | some r' => some (⟨e, true⟩, r')
      | none => some (⟨e, false⟩, r) -- rule `asc_desc_opt`: no direction means ASC
  | none => none

/-- `[ <k> e ]` -/
def parseOptE (k : Kw) (ts : List STok) : Option (Option Expr × List STok) :=
  match dropKw k ts with
  | some r =>
    match parseE r with
    | some (e, r') => some (some e, r')
    | none => none
  | none => some (none, ts)

/-- `[ <k> by x, … ]` -/
def parseOptList {α : Type} (k : Kw) (p : List STok → Option (α × List STok)) (ts : List STok) :
    Option (List α × List STok) :=
  match dropKw k ts with
  | some r =>
    match dropKw .by_ r with
    | some r' => parseSepL p r'
    | none => none
  | none => some ([], ts)

def parseLim (ts : List STok) : Option (Lim × List STok) :=
  match dropKw .limit ts with
  | some r =>
    match parseE r with
    | some (a, r1) =>
      match dropKw .offset r1 with
      | some r2 =>
        match parseE r2 with
        | some (b, r3) => some (.countOffset a b, r3)
        | none => none
      | none =>
        match r1 with
        | .t (.sym .comma) :: r2 =>
          match parseE r2 with
          | some (b, r3) => some (.comma a b, r3)
          | none => none
        | _ => some (.count a, r1)
    | none => none
  | none => some (.none, ts)

/-- `[ DISTINCT ]` -/
def parseDistinct (ts : List STok) : Bool × List STok :=
  match dropKw .distinct ts with
  | some r => (true, r)
  | none => (false, ts)

/-- the whole statement -/
def parseSel (ts : List STok) : Option Sel :=
  match dropKw .select ts with
  | none => none
  | some r0 =>
    match parseSepL parseItem (parseDistinct r0).2 with
    | none => none
    | some (items, r2) =>
      match dropKw .from_ r2 with
      | none => none
      | some r3 =>
        match parseSepL parseTRef r3 with
        | none => none
        | some (from_, r4) =>
          match parseOptE .where_ r4 with
          | none => none
          | some (w, r5) =>
            match parseOptList .group parseE r5 with
            | none => none
            | some (g, r6) =>
              match parseOptE .having r6 with
              | none => none
              | some (h, r7) =>
                match parseOptList .order parseOrd r7 with
                | none => none
                | some (o, r8) =>
                  match parseLim r8 with
                  | some (l, []) => some ⟨(parseDistinct r0).1, items, from_, w, g, h, o, l⟩
                  | _ => none

/-! ## well-formed statements (the image of the parser on the fragment) -/

def Item.Ok : Item → Prop
  | .star => True
  | .expr e _ => Producible e

def Join.Ok (j : Join) : Prop := j.k.onOk j.on.isSome = true ∧ (∀ e, j.on = some e → Producible e)

def TRef.Ok (t : TRef) : Prop := ∀ j, j ∈ t.joins → j.Ok

/-- `ORDER BY NULL` / `ORDER BY rand()` lose their direction when printed: not in the image of print ∘ parse -/
def Ord.Ok (o : Ord) : Prop := Producible o.e ∧ o.noDir = false

def Lim.Ok : Lim → Prop
  | .none => True
  | .count n => Producible n
  | .countOffset n off => Producible n ∧ Producible off
  | .comma off n => Producible off ∧ Producible n

structure Sel.Ok (s : Sel) : Prop where
  items_ne : s.items ≠ []
  items : ∀ i, i ∈ s.items → i.Ok
  from_ne : s.from_ ≠ []
  from_ : ∀ t, t ∈ s.from_ → t.Ok
  where_ : ∀ e, s.where_ = some e → Producible e
  groupBy : ∀ e, e ∈ s.groupBy → Producible e
  having : ∀ e, s.having = some e → Producible e
  orderBy : ∀ o, o ∈ s.orderBy → o.Ok
  limit : s.limit.Ok

end AcraModel.Sql.Select
