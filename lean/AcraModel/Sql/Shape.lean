import AcraModel.Sql.Redact
/-!
# The shape of a statement (C16)

`shape t` is `t` with every value position erased: a literal or an existing bind variable becomes
`?` (its cast suffix and the rest of the node are kept), a list argument and a tuple of values on the
right-hand side of IN / NOT IN become `?list`. "Redaction keeps the statement's shape" is
`shape (redact t) = shape t`. The harness has the same function in Go (`c16/shape.go`), used as the
oracle on the real code's output and compared with this one on every case.
-/
namespace AcraModel.Sql
open AcraModel

/-- a value position: literal or `ValArg` -/
def isValuePos (t : Tree) : Bool :=
  match sqlVal? t with
  | some (ty, _) => literalKinds.contains ty || ty == valArgNo
  | none => false

/-- a tuple all of whose elements are value positions -/
def tupleAllValues : Tree → Bool
  | .node "ValTuple" items => items.all isValuePos
  | _ => false

/-- the operator atom says IN or NOT IN -/
def isInOp (t : Tree) : Bool := t.atomBytes == inStr || t.atomBytes == notInStr

/-- IN / NOT IN with a tuple of values on the right (`convertComparison` turns it into a list argument when
`sqlToBindvar` accepts every element, otherwise the elements become placeholders one by one) -/
def inTuple (ks : List Tree) : Bool :=
  isInOp (ks.getD cmpOpIdx (.atom [])) && tupleAllValues (ks.getD cmpRightIdx (.atom []))

mutual
def shape : Tree → Tree
  | .atom b => .atom b
  | .node k ks =>
    if isValuePos (.node k ks) then .node "?" ((shapeList ks).drop 2)
    else if k == "ListArg" then .node "?list" []
    else if k == "ComparisonExpr" && inTuple ks then .node k ((shapeList ks).set cmpRightIdx (.node "?list" []))
    else .node k (shapeList ks)
def shapeList : List Tree → List Tree
  | [] => []
  | t :: ts => shape t :: shapeList ts
end

end AcraModel.Sql
