import AcraModel.Sql.RedactLemmas
/-!
Helper lemmas for `redact_shape` (C16): neither pass of the redaction changes the shape of a statement.
-/
namespace AcraModel.Sql
open AcraModel

/-- what the shape proofs need from the regenerated tables -/
structure ShapeFacts : Prop where
  masked_lit : ∀ ty, maskedKinds.contains ty = true → literalKinds.contains ty = true
  converted_lit : ∀ ty, convertedKinds.contains ty = true → literalKinds.contains ty = true
  valarg_dec : decVal (natDec valArgNo) = some valArgNo

theorem shapeList_eq_map (l : List Tree) : shapeList l = l.map shape := by
  induction l with
  | nil => rfl
  | cons t ts ih => simp [shapeList, ih]

theorem isValuePos_kind {k : String} {ks : List Tree} (h : isValuePos (.node k ks) = true) : k = "SQLVal" := by
  unfold isValuePos at h
  split at h
  · next r hr => exact sqlVal?_kind hr
  · cases h

theorem isValuePos_of_ne {k : String} {ks : List Tree} (h : k ≠ "SQLVal") : isValuePos (.node k ks) = false := by
  cases hh : isValuePos (.node k ks) with
  | false => rfl
  | true => exact absurd (isValuePos_kind hh) h

theorem isValuePos_mkValArg (F : ShapeFacts) (v : Bytes) (rest : List Tree) :
    isValuePos (mkSqlVal valArgNo v rest) = true := by
  unfold isValuePos
  rw [sqlVal?_mk, F.valarg_dec]
  simp

theorem shape_mkValArg (F : ShapeFacts) (v : Bytes) (rest : List Tree) :
    shape (mkSqlVal valArgNo v rest) = .node "?" (shapeList rest) := by
  have h := isValuePos_mkValArg F v rest
  unfold mkSqlVal at h ⊢
  rw [shape, if_pos h]
  simp [shapeList]

/-- a value node and the placeholder that replaces it have the same shape -/
theorem shape_value_replaced (F : ShapeFacts) (k : String) (ks : List Tree) (v : Bytes)
    (h : isValuePos (.node k ks) = true) :
    shape (mkSqlVal valArgNo v (ks.drop 2)) = shape (.node k ks) := by
  rw [shape_mkValArg F, shape, if_pos h, shapeList_eq_map, shapeList_eq_map, List.map_drop]

theorem isValuePos_of_masked (F : ShapeFacts) (t : Tree) (h : isMasked t = true) : isValuePos t = true := by
  unfold isMasked at h
  unfold isValuePos
  cases hs : sqlVal? t with
  | none => rw [hs] at h; cases h
  | some r =>
    rw [hs] at h; simp only at h ⊢
    have := F.masked_lit _ h
    simp only [Bool.or_eq_true]
    exact Or.inl this

theorem isValuePos_of_convertible (F : ShapeFacts) (valid : Validator) (t : Tree) (h : isConvertible valid t = true) :
    isValuePos t = true := by
  unfold isConvertible at h
  unfold isValuePos
  cases hs : sqlVal? t with
  | none => rw [hs] at h; cases h
  | some r =>
    rw [hs] at h
    simp only [Bool.and_eq_true] at h
    have := F.converted_lit _ h.1
    simp only [Bool.or_eq_true]
    exact Or.inl this

/-! ## per-node invariants of the masking pass -/

theorem maskVal_cases (pfx : Bytes) (t : Tree) (s : St) :
    (maskVal pfx t s).1 = t ∨ (isMasked t = true ∧ ∃ v, (maskVal pfx t s).1 = mkSqlVal valArgNo v (t.kids.drop 2)) := by
  unfold maskVal
  by_cases h : isMasked t = true
  · right; simp only [h, if_true]; exact ⟨trivial, _, rfl⟩
  · left; simp [h]

/-- facts about one node before and after a pass: same shape, same "is a value position", same atom bytes,
same "tuple of values" -/
structure SameLook (a b : Tree) : Prop where
  shape_eq : shape a = shape b
  vpos_eq : isValuePos a = isValuePos b
  atom_eq : a.atomBytes = b.atomBytes
  tuple_eq : tupleAllValues a = tupleAllValues b

theorem SameLook.refl (t : Tree) : SameLook t t := ⟨rfl, rfl, rfl, rfl⟩

theorem tupleAllValues_sqlval (ks : List Tree) : tupleAllValues (.node "SQLVal" ks) = false := by
  simp [tupleAllValues]

theorem sameLook_value_replaced (F : ShapeFacts) (k : String) (ks : List Tree) (v : Bytes)
    (h : isValuePos (.node k ks) = true) : SameLook (mkSqlVal valArgNo v (ks.drop 2)) (.node k ks) := by
  have hk := isValuePos_kind h
  subst hk
  refine ⟨shape_value_replaced F _ ks v h, ?_, rfl, ?_⟩
  · rw [isValuePos_mkValArg F, h]
  · simp [mkSqlVal, tupleAllValues]

/-- children lists that look the same position by position -/
inductive SameLooks : List Tree → List Tree → Prop where
  | nil : SameLooks [] []
  | cons {a b : Tree} {as bs : List Tree} : SameLook a b → SameLooks as bs → SameLooks (a :: as) (b :: bs)

theorem SameLooks.shapeList_eq {as bs : List Tree} (h : SameLooks as bs) : shapeList as = shapeList bs := by
  induction h with
  | nil => rfl
  | cons h1 _ ih => simp [shapeList, h1.shape_eq, ih]

theorem SameLooks.all_vpos {as bs : List Tree} (h : SameLooks as bs) : as.all isValuePos = bs.all isValuePos := by
  induction h with
  | nil => rfl
  | cons h1 _ ih => simp [List.all_cons, h1.vpos_eq, ih]

theorem SameLooks.getD {as bs : List Tree} (h : SameLooks as bs) (j : Nat) (d : Tree) :
    SameLook (as.getD j d) (bs.getD j d) := by
  induction h generalizing j with
  | nil => simp; exact SameLook.refl d
  | cons h1 _ ih =>
    cases j with
    | zero => simpa using h1
    | succ j' => simpa using ih j'

theorem SameLooks.inTuple_eq {as bs : List Tree} (h : SameLooks as bs) : inTuple as = inTuple bs := by
  unfold inTuple isInOp
  rw [(h.getD cmpOpIdx (.atom [])).atom_eq, (h.getD cmpRightIdx (.atom [])).tuple_eq]

/-- a non-value node whose children look the same looks the same -/
theorem sameLook_node (k : String) (as bs : List Tree) (hk : k ≠ "SQLVal") (h : SameLooks as bs) :
    SameLook (.node k as) (.node k bs) := by
  refine ⟨?_, ?_, rfl, ?_⟩
  · rw [shape, shape, isValuePos_of_ne hk, isValuePos_of_ne hk, h.shapeList_eq, h.inTuple_eq]
  · rw [isValuePos_of_ne hk, isValuePos_of_ne hk]
  · by_cases ht : k = "ValTuple"
    · subst ht; simp [tupleAllValues, h.all_vpos]
    · unfold tupleAllValues
      split
      · next heq => cases heq; exact absurd rfl ht
      · split
        · next heq => cases heq; exact absurd rfl ht
        · rfl

mutual
theorem maskWalk_sameLook (F : ShapeFacts) (pfx : Bytes) :
    ∀ (t : Tree) (s : St), SameLook (maskWalk pfx t s).1 t
  | .atom b, s => by rw [maskWalk]; exact SameLook.refl _
  | .node k ks, s => by
    rw [maskWalk.eq_2]
    by_cases hk : (k == "SQLVal") = true
    · simp only [hk, if_true]
      rcases maskVal_cases pfx (.node k ks) s with h | ⟨hm, v, hv⟩
      · rw [h]; exact SameLook.refl _
      · rw [hv]; exact sameLook_value_replaced F k ks v (isValuePos_of_masked F _ hm)
    · simp only [hk, Bool.false_eq_true, if_false]
      have hne : k ≠ "SQLVal" := by simpa using hk
      exact sameLook_node k _ ks hne (maskKids_sameLooks F pfx (walkSpec k) 0 ks s)
theorem maskKids_sameLooks (F : ShapeFacts) (pfx : Bytes) (spec : WalkSpec) :
    ∀ (i : Nat) (ks : List Tree) (s : St), SameLooks (maskKids pfx spec i ks s).1 ks
  | _, [], _ => by rw [maskKids]; exact SameLooks.nil
  | i, c :: cs, s => by
    rw [maskKids.eq_2]
    refine SameLooks.cons ?_ (maskKids_sameLooks F pfx spec (i + 1) cs _)
    split
    · exact maskWalk_sameLook F pfx c s
    · exact SameLook.refl c
end

/-! ## per-node invariants of `Normalize` -/

theorem convert_sameLook (F : ShapeFacts) (valid : Validator) (pfx : Bytes) (k : String) (ks : List Tree) (s : St) :
    SameLook (convert valid pfx (.node k ks) s).1 (.node k ks) := by
  unfold convert
  split
  · next h => exact sameLook_value_replaced F k ks _ (isValuePos_of_convertible F valid _ h)
  · exact SameLook.refl _

theorem convertDedup_sameLook (F : ShapeFacts) (valid : Validator) (pfx : Bytes) (k : String) (ks : List Tree) (s : St) :
    SameLook (convertDedup valid pfx (.node k ks) s).1 (.node k ks) := by
  unfold convertDedup
  split
  · exact SameLook.refl _
  · split
    · exact convert_sameLook F valid pfx k ks s
    · split
      · exact SameLook.refl _
      · next hc =>
        have hv := isValuePos_of_convertible F valid (.node k ks) (by simpa using hc)
        simp only []
        repeat' split
        all_goals exact sameLook_value_replaced F k ks _ hv

theorem convertComparison_some (F : ShapeFacts) (valid : Validator) (pfx : Bytes) (ks : List Tree) (s : St) (i : Nat) (la : Tree)
    (h : (convertComparison valid pfx ks s).1 = some (i, la)) :
    i = cmpRightIdx ∧ (∃ n, la = .node "ListArg" [.atom n]) ∧ inTuple ks = true := by
  unfold convertComparison at h
  simp only [] at h
  split at h
  · cases h
  · next hop =>
    split at h
    · next items hr =>
      split at h
      · next hall =>
        simp only [Option.some.injEq, Prod.mk.injEq] at h
        refine ⟨h.1.symm, ⟨_, h.2.symm⟩, ?_⟩
        unfold inTuple isInOp
        rw [hr]
        have h1 : ((ks.getD cmpOpIdx (.atom [])).atomBytes == inStr || (ks.getD cmpOpIdx (.atom [])).atomBytes == notInStr) = true := by
          cases ha : ((ks.getD cmpOpIdx (.atom [])).atomBytes == inStr)
          · cases hb : ((ks.getD cmpOpIdx (.atom [])).atomBytes == notInStr)
            · exact absurd (by show (!(_ == inStr) && !(_ == notInStr)) = true; rw [ha, hb]; rfl) hop
            · rfl
          · rfl
        rw [h1]
        simp only [tupleAllValues, Bool.true_and]
        rw [List.all_eq_true] at hall ⊢
        intro x hx
        exact isValuePos_of_convertible F valid x (hall x hx)
      · cases h
    · cases h

theorem shapeList_set (l : List Tree) (j : Nat) (t : Tree) : shapeList (l.set j t) = (shapeList l).set j (shape t) := by
  rw [shapeList_eq_map, shapeList_eq_map, List.map_set]

theorem tupleAllValues_getD_set (l : List Tree) (j : Nat) (n : Bytes) :
    tupleAllValues ((l.set j (.node "ListArg" [.atom n])).getD j (.atom [])) = false := by
  by_cases hj : j < l.length
  · simp [List.getD, List.getElem?_set_self hj, tupleAllValues]
  · have : (l.set j (.node "ListArg" [.atom n])) = l := by
      apply List.set_eq_of_length_le; omega
    rw [this]
    simp [List.getD, List.getElem?_eq_none (by omega : l.length ≤ j), tupleAllValues]

mutual
theorem walk_sameLook (F : ShapeFacts) (valid : Validator) (pfx : Bytes) (sel : Bool) :
    ∀ (t : Tree) (s : St), SameLook (walk valid pfx sel t s).1 t
  | .atom b, s => by rw [walk]; exact SameLook.refl _
  | .node k ks, s => by
    rw [walk.eq_2]
    by_cases hk : (k == "SQLVal") = true
    · simp only [hk, if_true]
      cases sel
      · simp only [Bool.false_eq_true, if_false]; exact convert_sameLook F valid pfx k ks s
      · simp only [if_true]; exact convertDedup_sameLook F valid pfx k ks s
    · simp only [hk, Bool.false_eq_true, if_false]
      have hne : k ≠ "SQLVal" := by simpa using hk
      generalize hc : (if (k == "ComparisonExpr") = true then convertComparison valid pfx ks s else (none, s)) = c
      obtain ⟨co, s1⟩ := c
      have hkids := walkKids_sameLooks F valid pfx (sel || k == "Select") (walkSpec k) (co.map (·.1)) 0 ks s1
      cases co with
      | none => exact sameLook_node k _ ks hne hkids
      | some p =>
        obtain ⟨i, la⟩ := p
        simp only []
        have hcmp : (k == "ComparisonExpr") = true := by
          by_cases hcmp : (k == "ComparisonExpr") = true
          · exact hcmp
          · simp only [hcmp] at hc; cases hc
        simp only [hcmp, if_true] at hc
        have hk2 : k = "ComparisonExpr" := by simpa using hcmp
        obtain ⟨hi, ⟨n, hla⟩, hin⟩ := convertComparison_some F valid pfx ks s i la (by rw [hc])
        subst hi; subst hla; subst hk2
        simp only [Option.map_some] at hkids
        refine ⟨?_, ?_, rfl, ?_⟩
        · rw [shape, shape, isValuePos_of_ne hne, isValuePos_of_ne hne]
          simp only [Bool.false_eq_true, if_false, show ("ComparisonExpr" == "ListArg") = false by decide,
            beq_self_eq_true, Bool.true_and, hin, if_true, Option.map_some]
          have hnot : inTuple ((walkKids valid pfx (sel || "ComparisonExpr" == "Select") (walkSpec "ComparisonExpr")
              (some cmpRightIdx) 0 ks s1).1.set cmpRightIdx (.node "ListArg" [.atom n])) = false := by
            unfold inTuple
            rw [tupleAllValues_getD_set]; simp
          rw [hnot]
          simp only [Bool.false_eq_true, if_false]
          rw [shapeList_set, hkids.shapeList_eq]
          congr 2
        · rw [isValuePos_of_ne hne, isValuePos_of_ne hne]
        · simp [tupleAllValues]
theorem walkKids_sameLooks (F : ShapeFacts) (valid : Validator) (pfx : Bytes) (sel : Bool) (spec : WalkSpec) (skip : Option Nat) :
    ∀ (i : Nat) (ks : List Tree) (s : St), SameLooks (walkKids valid pfx sel spec skip i ks s).1 ks
  | _, [], _ => by rw [walkKids]; exact SameLooks.nil
  | i, c :: cs, s => by
    rw [walkKids.eq_2]
    refine SameLooks.cons ?_ (walkKids_sameLooks F valid pfx sel spec skip (i + 1) cs _)
    split
    · exact walk_sameLook F valid pfx sel c s
    · exact SameLook.refl c
end

end AcraModel.Sql
