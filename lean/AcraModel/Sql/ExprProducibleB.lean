import AcraModel.Sql.Expr
/-! `producibleB` (the executable check the driver uses) is sound for `Producible`. -/
namespace AcraModel.Sql.Expr

mutual
theorem producible_of_producibleB : (e : Expr) → producibleB e = true → Producible e
  | .val ty v, h => by simp only [producibleB, decide_eq_true_eq] at h; exact .val h
  | .null, _ => .null
  | .bool _, _ => .bool
  | .col _, _ => .col
  | .func _ args, h => by
    simp only [producibleB] at h
    exact .func (producibleArgs_of_B args h)
  | .paren e, h => by
    simp only [producibleB] at h
    exact .paren (producible_of_producibleB e h)
  | .or l r, h => by
    simp only [producibleB, Bool.and_eq_true, decide_eq_true_eq] at h
    exact .or (producible_of_producibleB l h.1.1.1) (producible_of_producibleB r h.1.1.2) h.1.2 h.2
  | .and l r, h => by
    simp only [producibleB, Bool.and_eq_true, decide_eq_true_eq] at h
    exact .and (producible_of_producibleB l h.1.1.1) (producible_of_producibleB r h.1.1.2) h.1.2 h.2
  | .not e, h => by
    simp only [producibleB, Bool.and_eq_true, decide_eq_true_eq] at h
    exact .not (producible_of_producibleB e h.1) h.2
  | .is _ e, h => by
    simp only [producibleB, Bool.and_eq_true, decide_eq_true_eq] at h
    exact .is (producible_of_producibleB e h.1) h.2
  | .cmp _ l r, h => by
    simp only [producibleB, Bool.and_eq_true, decide_eq_true_eq] at h
    exact .cmp (producible_of_producibleB l h.1.1.1) (producible_of_producibleB r h.1.1.2) h.1.2 h.2
  | .range _ l lo hi, h => by
    simp only [producibleB, Bool.and_eq_true, decide_eq_true_eq] at h
    exact .range (producible_of_producibleB l h.1.1.1.1.1) (producible_of_producibleB lo h.1.1.1.1.2)
      (producible_of_producibleB hi h.1.1.1.2) h.1.1.2 h.1.2 h.2
  | .bin _ l r, h => by
    simp only [producibleB, Bool.and_eq_true, decide_eq_true_eq] at h
    exact .bin (producible_of_producibleB l h.1.1.1) (producible_of_producibleB r h.1.1.2) h.1.2 h.2
  | .un op e, h => by
    simp only [producibleB, Bool.and_eq_true, decide_eq_true_eq, Bool.or_eq_true, Bool.not_eq_true'] at h
    refine .un (producible_of_producibleB e h.1.1) h.1.2 ?_
    intro hf
    rcases h.2 with h2 | h2
    · rw [hf] at h2; exact absurd h2 (by decide)
    · exact h2
theorem producibleArgs_of_B : (as : List Expr) → producibleArgsB as = true → ∀ a, a ∈ as → Producible a
  | [], _, a, ha => by simp at ha
  | e :: es, h, a, ha => by
    simp only [producibleArgsB, Bool.and_eq_true] at h
    simp only [List.mem_cons] at ha
    rcases ha with rfl | ha
    · exact producible_of_producibleB _ h.1
    · exact producibleArgs_of_B es h.2 a ha
end

end AcraModel.Sql.Expr
