import AcraModel.Sql.ExprSound
/-!
# A tree round-trips only if it is producible (C13)

The printed tokens of a tree whose `SQLVal` leaves are well-formed are tokens as the tokenizer yields them; so if the
parser returns the tree itself for them, the tree is producible (`ExprSound`).
-/
namespace AcraModel.Sql.Expr
open AcraModel

mutual
/-- the `SQLVal` leaves of a tree -/
def vals : Expr → List (Nat × Bytes)
  | .val ty v => [(ty, v)]
  | .null => []
  | .bool _ => []
  | .col _ => []
  | .func _ as => valsArgs as
  | .paren e => vals e
  | .and l r => vals l ++ vals r
  | .or l r => vals l ++ vals r
  | .not e => vals e
  | .is _ e => vals e
  | .cmp _ l r => vals l ++ vals r
  | .range _ l lo hi => vals l ++ vals lo ++ vals hi
  | .bin _ l r => vals l ++ vals r
  | .un _ e => vals e
def valsArgs : List Expr → List (Nat × Bytes)
  | [] => []
  | e :: es => vals e ++ valsArgs es
end

/-- every `SQLVal` leaf is a well-formed literal -/
def LeavesOk (t : Expr) : Prop := ∀ p, p ∈ vals t → LitOk p.1 p.2

theorem allOk_append {a b : List Tok} : AllOk (a ++ b) ↔ AllOk a ∧ AllOk b := by
  unfold AllOk
  constructor
  · intro h; exact ⟨fun x hx => h x (by simp [hx]), fun x hx => h x (by simp [hx])⟩
  · intro ⟨h1, h2⟩ x hx
    simp only [List.mem_append] at hx
    rcases hx with hx | hx
    · exact h1 x hx
    · exact h2 x hx

theorem allOk_sym_cons {s : Sym} {a : List Tok} : AllOk (.sym s :: a) ↔ AllOk a := by
  unfold AllOk
  constructor
  · intro h x hx; exact h x (by simp [hx])
  · intro h x hx
    simp only [List.mem_cons] at hx
    rcases hx with rfl | hx
    · trivial
    · exact h x hx

theorem allOk_id_cons {n : Bytes} {a : List Tok} : AllOk (.id n :: a) ↔ AllOk a := by
  unfold AllOk
  constructor
  · intro h x hx; exact h x (by simp [hx])
  · intro h x hx
    simp only [List.mem_cons] at hx
    rcases hx with rfl | hx
    · trivial
    · exact h x hx

theorem allOk_nil : AllOk [] := fun _ h => by simp at h

theorem allOk_syms (ss : List Sym) : AllOk (ss.map .sym) := by
  intro x hx
  simp only [List.mem_map] at hx
  obtain ⟨s, _, rfl⟩ := hx
  trivial

theorem allOk_val {ty : Nat} {v : Bytes} (h : LitOk ty v) : AllOk (toks (.val ty v)) := by
  rw [toks_val]
  cases v with
  | nil =>
    intro x hx
    simp only [List.mem_singleton] at hx
    subst hx
    intro hraw; exact absurd rfl (h hraw).1
  | cons c w =>
    dsimp only
    by_cases hc : (rawTy ty && c == minusByte) = true
    · rw [if_pos hc]
      simp only [Bool.and_eq_true, beq_iff_eq] at hc
      obtain ⟨hraw, hcm⟩ := hc
      subst hcm
      obtain ⟨_, hs⟩ := h hraw
      obtain ⟨_, hw, hw2⟩ := hs rfl
      rw [allOk_sym_cons]
      intro x hx
      simp only [List.mem_singleton] at hx
      subst hx
      intro _; exact ⟨hw, hw2⟩
    · rw [if_neg hc]
      intro x hx
      simp only [List.mem_singleton] at hx
      subst hx
      intro hraw
      refine ⟨by simp, ?_⟩
      intro hh
      simp only [List.head?_cons, Option.some.injEq] at hh
      apply hc
      simp [hraw, hh]

mutual
theorem allOk_toks : (t : Expr) → LeavesOk t → AllOk (toks t)
  | .val ty v, h => allOk_val (h (ty, v) (by simp [vals]))
  | .null, _ => by rw [toks_null, allOk_sym_cons]; exact allOk_nil
  | .bool b, _ => by rw [toks_bool, allOk_sym_cons]; exact allOk_nil
  | .col n, _ => by rw [toks_col, allOk_id_cons]; exact allOk_nil
  | .func n as, h => by
    rw [toks_func, allOk_id_cons, allOk_sym_cons, allOk_append]
    exact ⟨allOk_toksArgs as (fun p hp => h p (by simpa [vals] using hp)), by rw [allOk_sym_cons]; exact allOk_nil⟩
  | .paren e, h => by
    rw [toks_paren, allOk_sym_cons, allOk_append]
    exact ⟨allOk_toks e (fun p hp => h p (by simpa [vals] using hp)), by rw [allOk_sym_cons]; exact allOk_nil⟩
  | .and l r, h => by
    rw [toks_and, allOk_append, allOk_sym_cons]
    exact ⟨allOk_toks l (fun p hp => h p (by simp [vals, hp])), allOk_toks r (fun p hp => h p (by simp [vals, hp]))⟩
  | .or l r, h => by
    rw [toks_or, allOk_append, allOk_sym_cons]
    exact ⟨allOk_toks l (fun p hp => h p (by simp [vals, hp])), allOk_toks r (fun p hp => h p (by simp [vals, hp]))⟩
  | .not e, h => by
    rw [toks_not, allOk_sym_cons]
    exact allOk_toks e (fun p hp => h p (by simpa [vals] using hp))
  | .is op e, h => by
    rw [toks_is, allOk_append, allOk_sym_cons]
    exact ⟨allOk_toks e (fun p hp => h p (by simpa [vals] using hp)), allOk_syms _⟩
  | .cmp op l r, h => by
    rw [toks_cmp, allOk_append, allOk_append]
    exact ⟨allOk_toks l (fun p hp => h p (by simp [vals, hp])), allOk_syms _,
      allOk_toks r (fun p hp => h p (by simp [vals, hp]))⟩
  | .range n l lo hi, h => by
    rw [toks_range, allOk_append, allOk_append, allOk_sym_cons, allOk_append, allOk_sym_cons]
    refine ⟨allOk_toks l (fun p hp => h p (by simp [vals, hp])), ?_,
      allOk_toks lo (fun p hp => h p (by simp [vals, hp])), allOk_toks hi (fun p hp => h p (by simp [vals, hp]))⟩
    cases n
    · exact allOk_nil
    · simp only [if_true]; rw [allOk_sym_cons]; exact allOk_nil
  | .bin o l r, h => by
    rw [toks_bin, allOk_append, allOk_sym_cons]
    exact ⟨allOk_toks l (fun p hp => h p (by simp [vals, hp])), allOk_toks r (fun p hp => h p (by simp [vals, hp]))⟩
  | .un o e, h => by
    rw [toks_un, allOk_sym_cons]
    exact allOk_toks e (fun p hp => h p (by simpa [vals] using hp))
theorem allOk_toksArgs : (as : List Expr) → (∀ p, p ∈ valsArgs as → LitOk p.1 p.2) → AllOk (toksArgs as)
  | [], _ => by rw [toksArgs_nil]; exact allOk_nil
  | [e], h => by
    rw [toksArgs_one]
    exact allOk_toks e (fun p hp => h p (by simp [valsArgs, hp]))
  | e :: e' :: es, h => by
    rw [toksArgs_cons2, allOk_append, allOk_sym_cons]
    exact ⟨allOk_toks e (fun p hp => h p (by simp [valsArgs, hp])),
      allOk_toksArgs (e' :: es) (fun p hp => h p (by
        rw [valsArgs]; simp only [List.mem_append]; right; exact hp))⟩
end

end AcraModel.Sql.Expr
