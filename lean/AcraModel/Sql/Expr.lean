import AcraModel.Basic.Bytes
import AcraModel.Generated.SqlPrec
import AcraModel.Generated.SqlLiterals
import AcraModel.Sql.Literal
/-!
# The expression fragment of Acra's SQL parser and printer (C13)

Model of the expression part of `sqlparser/sql.y` + `sqlparser/ast_methods.go`:

* `Expr` – the node kinds of `ast.go` that carry precedence: `AndExpr`, `OrExpr`, `NotExpr`, `ComparisonExpr`
  (`= < > <= >= != <=> like regexp` and their `not` forms), `RangeCond`, `IsExpr`, `BinaryExpr`, `UnaryExpr`, **explicit**
  `ParenExpr`, and the leaves `SQLVal`, `NullVal`, `BoolVal`, `ColName`, `FuncExpr` (with its argument list).
* `format` – the `Format` methods: Acra prints **no parentheses of its own**, only `ParenExpr` nodes print them.
  The output is a list of lexemes (`Lex`); `render` is the text (compared with the real `sqlparser.String`),
  `tokens` is what the tokenizer reads back from it (compared with the real `Tokenizer`).
* `parse` – a precedence-climbing parser over tokens that builds the trees the goyacc parser builds: the levels, the
  operators of each level and their associativity are **looked up in the regenerated precedence table**
  `Generated.SqlPrec.precTable` (the `%left/%right/%nonassoc` lines of `sql.y`) and the regenerated rule tables.
  The two-sorted structure of the grammar is kept: `expression` (OR, AND, NOT, IS, the conditions) over
  `value_expression` (binary/unary operators, primaries) – a condition cannot be an operand of a comparison or of an
  arithmetic operator without parentheses.
* `Producible` – the trees in the image of the parser; `subst` – replacement of `SQLVal` leaves.

The theorems are in `Props/C13.lean`, the lemmas in `ExprLemmas.lean`.
-/
namespace AcraModel.Sql.Expr
open AcraModel Generated.SqlPrec

/-! ## tokens -/

/-- keyword and operator tokens of the fragment (yacc token names in `Sym.yacc`) -/
inductive Sym
  | or_ | and_ | not_ | is_ | null | true_ | false_ | between | like | regexp
  | eq | lt | gt | le | ge | ne | nse
  | pipe | amp | shl | shr | plus | minus | star | slash | div | pct | mod | caret
  | tilde | bang | binary | ubinary | lp | rp | comma
  deriving DecidableEq, Repr

/-- the yacc token name in `sql.y` -/
def Sym.yacc : Sym → String
  | .or_ => "OR" | .and_ => "AND" | .not_ => "NOT" | .is_ => "IS" | .null => "NULL" | .true_ => "TRUE"
  | .false_ => "FALSE" | .between => "BETWEEN" | .like => "LIKE" | .regexp => "REGEXP"
  | .eq => "'='" | .lt => "'<'" | .gt => "'>'" | .le => "LE" | .ge => "GE" | .ne => "NE" | .nse => "NULL_SAFE_EQUAL"
  | .pipe => "'|'" | .amp => "'&'" | .shl => "SHIFT_LEFT" | .shr => "SHIFT_RIGHT" | .plus => "'+'" | .minus => "'-'"
  | .star => "'*'" | .slash => "'/'" | .div => "DIV" | .pct => "'%'" | .mod => "MOD" | .caret => "'^'"
  | .tilde => "'~'" | .bang => "'!'" | .binary => "BINARY" | .ubinary => "UNDERSCORE_BINARY"
  | .lp => "'('" | .rp => "')'" | .comma => "','"

/-- the text the printer writes for the token (lower-case keywords) -/
def Sym.text : Sym → String
  | .or_ => "or" | .and_ => "and" | .not_ => "not" | .is_ => "is" | .null => "null" | .true_ => "true"
  | .false_ => "false" | .between => "between" | .like => "like" | .regexp => "regexp"
  | .eq => "=" | .lt => "<" | .gt => ">" | .le => "<=" | .ge => ">=" | .ne => "!=" | .nse => "<=>"
  | .pipe => "|" | .amp => "&" | .shl => "<<" | .shr => ">>" | .plus => "+" | .minus => "-"
  | .star => "*" | .slash => "/" | .div => "div" | .pct => "%" | .mod => "mod" | .caret => "^"
  | .tilde => "~" | .bang => "!" | .binary => "binary" | .ubinary => "_binary"
  | .lp => "(" | .rp => ")" | .comma => ","

def Sym.all : List Sym :=
  [.or_, .and_, .not_, .is_, .null, .true_, .false_, .between, .like, .regexp, .eq, .lt, .gt, .le, .ge, .ne, .nse,
   .pipe, .amp, .shl, .shr, .plus, .minus, .star, .slash, .div, .pct, .mod, .caret, .tilde, .bang, .binary, .ubinary,
   .lp, .rp, .comma]

inductive Tok
  | sym (s : Sym)
  | lit (ty : Nat) (v : Bytes)
  | id (name : Bytes)
  deriving DecidableEq, Repr

/-! ## the regenerated precedence table -/

/-- precedence level of a yacc token: its line in the `%left/%right/%nonassoc` block -/
def levelOf (tok : String) : Option Nat := precTable.findIdx? (fun p => p.2.contains tok)

/-- associativity of a level -/
def assocAt (L : Nat) : String := (precTable[L]?.map (·.1)).getD ""

def lvlTok (tok : String) : Nat := (levelOf tok).getD 0

def lOr : Nat := lvlTok "OR"
def lAnd : Nat := lvlTok "AND"
def lNot : Nat := lvlTok "NOT"
/-- level of the comparison operators, IS, LIKE, REGEXP -/
def lCmp : Nat := lvlTok "'='"
/-- level of the prefix operators (`%prec UNARY`, `'~'`) -/
def lUnary : Nat := lvlTok "UNARY"

/-! ## operators -/

/-- `BinaryExpr.Operator` -/
inductive BinOp | bitAnd | bitOr | bitXor | plus | minus | mult | div | intDiv | mod | shl | shr
  deriving DecidableEq, Repr

def BinOp.all : List BinOp := [.bitAnd, .bitOr, .bitXor, .plus, .minus, .mult, .div, .intDiv, .mod, .shl, .shr]

/-- name of the operator constant in `ast.go` -/
def BinOp.const : BinOp → String
  | .bitAnd => "BitAndStr" | .bitOr => "BitOrStr" | .bitXor => "BitXorStr" | .plus => "PlusStr" | .minus => "MinusStr"
  | .mult => "MultStr" | .div => "DivStr" | .intDiv => "IntDivStr" | .mod => "ModStr" | .shl => "ShiftLeftStr"
  | .shr => "ShiftRightStr"

def BinOp.ofConst (c : String) : Option BinOp := BinOp.all.find? (fun o => o.const == c)

/-- the token that the printed operator text is read back as -/
def BinOp.sym : BinOp → Sym
  | .bitAnd => .amp | .bitOr => .pipe | .bitXor => .caret | .plus => .plus | .minus => .minus | .mult => .star
  | .div => .slash | .intDiv => .div | .mod => .pct | .shl => .shl | .shr => .shr

/-- the grammar rule `value_expression TOK value_expression` of the token, if any (regenerated table) -/
def Sym.binop (s : Sym) : Option BinOp :=
  (binaryExprRules.find? (fun r => r.1 == s.yacc)).bind (fun r => BinOp.ofConst r.2.1)

def BinOp.level (o : BinOp) : Nat := lvlTok o.sym.yacc

/-- operator text (`ast.go`), from the regenerated table -/
def BinOp.text (o : BinOp) : String := ((binaryExprRules.find? (fun r => r.2.1 == o.const)).map (·.2.2)).getD ""

/-- `UnaryExpr.Operator` -/
inductive UnOp | uplus | uminus | tilda | bang | binary | ubinary
  deriving DecidableEq, Repr

def UnOp.all : List UnOp := [.uplus, .uminus, .tilda, .bang, .binary, .ubinary]

def UnOp.const : UnOp → String
  | .uplus => "UPlusStr" | .uminus => "UMinusStr" | .tilda => "TildaStr" | .bang => "BangStr"
  | .binary => "BinaryStr" | .ubinary => "UBinaryStr"

def UnOp.ofConst (c : String) : Option UnOp := UnOp.all.find? (fun o => o.const == c)

def UnOp.sym : UnOp → Sym
  | .uplus => .plus | .uminus => .minus | .tilda => .tilde | .bang => .bang | .binary => .binary | .ubinary => .ubinary

/-- the rule `TOK value_expression` of the token, if any (regenerated table) -/
def Sym.unop (s : Sym) : Option UnOp :=
  (unaryExprRules.find? (fun r => r.1 == s.yacc)).bind (fun r => UnOp.ofConst r.2.2.1)

/-- the rule's action turns an `IntVal` operand into a signed `IntVal` instead of building a `UnaryExpr` -/
def UnOp.folds (o : UnOp) : Bool :=
  ((unaryExprRules.find? (fun r => r.2.2.1 == o.const)).map (·.2.2.2.2)).getD false

def UnOp.text (o : UnOp) : String := ((unaryExprRules.find? (fun r => r.2.2.1 == o.const)).map (·.2.2.2.1)).getD ""

/-- `ComparisonExpr.Operator` (the forms of the fragment) -/
inductive CmpOp | eq | lt | gt | le | ge | ne | nse | like | notLike | regexp | notRegexp
  deriving DecidableEq, Repr

def CmpOp.all : List CmpOp := [.eq, .lt, .gt, .le, .ge, .ne, .nse, .like, .notLike, .regexp, .notRegexp]

def CmpOp.const : CmpOp → String
  | .eq => "EqualStr" | .lt => "LessThanStr" | .gt => "GreaterThanStr" | .le => "LessEqualStr" | .ge => "GreaterEqualStr"
  | .ne => "NotEqualStr" | .nse => "NullSafeEqualStr" | .like => "LikeStr" | .notLike => "NotLikeStr"
  | .regexp => "RegexpStr" | .notRegexp => "NotRegexpStr"

/-- tokens of the printed operator -/
def CmpOp.syms : CmpOp → List Sym
  | .eq => [.eq] | .lt => [.lt] | .gt => [.gt] | .le => [.le] | .ge => [.ge] | .ne => [.ne] | .nse => [.nse]
  | .like => [.like] | .notLike => [.not_, .like] | .regexp => [.regexp] | .notRegexp => [.not_, .regexp]

/-- rule `compare:` (regenerated) plus LIKE and REGEXP: the single-token comparison operators -/
def Sym.cmpop (s : Sym) : Option CmpOp :=
  match compareRules.find? (fun r => r.1 == s.yacc) with
  | some r => CmpOp.all.find? (fun o => o.const == r.2.1)
  | none => if s = .like then some .like else if s = .regexp then some .regexp else none

/-- `IsExpr.Operator` -/
inductive IsOp | isNull | isNotNull | isTrue | isNotTrue | isFalse | isNotFalse
  deriving DecidableEq, Repr

def IsOp.all : List IsOp := [.isNull, .isNotNull, .isTrue, .isNotTrue, .isFalse, .isNotFalse]

def IsOp.const : IsOp → String
  | .isNull => "IsNullStr" | .isNotNull => "IsNotNullStr" | .isTrue => "IsTrueStr" | .isNotTrue => "IsNotTrueStr"
  | .isFalse => "IsFalseStr" | .isNotFalse => "IsNotFalseStr"

/-- the tokens after IS -/
def IsOp.syms : IsOp → List Sym
  | .isNull => [.null] | .isNotNull => [.not_, .null] | .isTrue => [.true_] | .isNotTrue => [.not_, .true_]
  | .isFalse => [.false_] | .isNotFalse => [.not_, .false_]

/-! ## trees -/

inductive Expr
  | val (ty : Nat) (v : Bytes)
  | null
  | bool (b : Bool)
  | col (name : Bytes)
  | func (name : Bytes) (args : List Expr)
  | paren (e : Expr)
  | and (l r : Expr)
  | or (l r : Expr)
  | not (e : Expr)
  | is (op : IsOp) (e : Expr)
  | cmp (op : CmpOp) (l r : Expr)
  | range (neg : Bool) (l lo hi : Expr)
  | bin (op : BinOp) (l r : Expr)
  | un (op : UnOp) (e : Expr)
  deriving Repr

/-- the binary, left-associative node kinds that the generic level loop builds -/
inductive Bin2 | or | and | bin (o : BinOp)
  deriving DecidableEq, Repr

def Bin2.level : Bin2 → Nat
  | .or => lOr | .and => lAnd | .bin o => o.level

def Bin2.sym : Bin2 → Sym
  | .or => .or_ | .and => .and_ | .bin o => o.sym

def Bin2.mk : Bin2 → Expr → Expr → Expr
  | .or => .or | .and => .and | .bin o => .bin o

def Sym.bin2 (s : Sym) : Option Bin2 :=
  if s = .or_ then some .or else if s = .and_ then some .and else s.binop.map .bin

/-- the binary operator of token `s` at level `L`, if it is one -/
def bin2At (L : Nat) (s : Sym) : Option Bin2 :=
  match s.bin2 with
  | some b => if b.level = L then some b else none
  | none => none

/-! ## SQLVal types (indices into the regenerated `valTypes`) -/

def tyOf (n : String) : Nat := Generated.SqlLiterals.valTypes.idxOf n
def tyStr : Nat := tyOf "StrVal"
def tyInt : Nat := tyOf "IntVal"
def tyFloat : Nat := tyOf "FloatVal"
def tyHexNum : Nat := tyOf "HexNum"
def tyHexVal : Nat := tyOf "HexVal"
def tyBitVal : Nat := tyOf "BitVal"
def tyPgEsc : Nat := tyOf "PgEscapeString"

/-- `SQLVal.Format` prints the value as it is (`case IntVal, FloatVal, HexNum`) -/
def rawTy (ty : Nat) : Bool :=
  (Generated.SqlLiterals.formatCases.find? (fun c => c.1 == Generated.SqlLiterals.valTypes.getD ty "")).map (·.2) == some "raw"

def minusByte : UInt8 := 45

/-! ## printer -/

inductive Lex
  | sp
  | sym (s : Sym)
  | lit (ty : Nat) (v : Bytes)
  | id (name : Bytes)
  deriving DecidableEq, Repr

def Expr.isUn : Expr → Bool
  | .un _ _ => true
  | _ => false

/-- the operator text of a `UnaryExpr`: `binary ` and `_binary ` carry their own space -/
def UnOp.lex (o : UnOp) : List Lex :=
  if o = .binary ∨ o = .ubinary then [.sym o.sym, .sp] else [.sym o.sym]

def symsLex : List Sym → List Lex
  | [] => []
  | [s] => [.sym s]
  | s :: ss => .sym s :: .sp :: symsLex ss

mutual
/-- the `Format` methods of the expression nodes -/
def format : Expr → List Lex
  | .val ty v => [.lit ty v]
  | .null => [.sym .null]
  | .bool b => [.sym (if b then .true_ else .false_)]
  | .col n => [.id n]
  | .func n args => [.id n, .sym .lp] ++ formatArgs args ++ [.sym .rp]
  | .paren e => [.sym .lp] ++ format e ++ [.sym .rp]
  | .and l r => format l ++ [.sp, .sym .and_, .sp] ++ format r
  | .or l r => format l ++ [.sp, .sym .or_, .sp] ++ format r
  | .not e => [.sym .not_, .sp] ++ format e
  | .is op e => format e ++ [.sp, .sym .is_, .sp] ++ symsLex op.syms
  | .cmp op l r => format l ++ [.sp] ++ symsLex op.syms ++ [.sp] ++ format r
  | .range neg l lo hi =>
      format l ++ [.sp] ++ (if neg then [.sym .not_, .sp] else []) ++ [.sym .between, .sp] ++ format lo ++
        [.sp, .sym .and_, .sp] ++ format hi
  | .bin op l r => format l ++ [.sp, .sym op.sym, .sp] ++ format r
  | .un op e => op.lex ++ (if e.isUn then [.sp] else []) ++ format e
/-- `Exprs.Format`: the elements separated by `, ` -/
def formatArgs : List Expr → List Lex
  | [] => []
  | [e] => format e
  | e :: e' :: es => format e ++ [.sym .comma, .sp] ++ formatArgs (e' :: es)
end

/-- what the tokenizer reads from one printed lexeme: white space separates; a value printed as it is that starts
with `-` is read as the token `-` followed by the unsigned literal -/
def lexToks : Lex → List Tok
  | .sp => []
  | .sym s => [.sym s]
  | .lit ty v =>
      match v with
      | c :: w => if rawTy ty && c == minusByte then [.sym .minus, .lit ty w] else [.lit ty v]
      | [] => [.lit ty v]
  | .id n => [.id n]

/-- the token sequence of a printed lexeme sequence -/
def tokens (ls : List Lex) : List Tok := ls.flatMap lexTok where lexTok := lexToks

/-- text of a literal (`SQLVal.Format`) -/
def litText (ty : Nat) (v : Bytes) : Bytes :=
  if ty = tyStr then Literal.encodeBytesSQL v
  else if ty = tyHexVal then [88, 39] ++ v ++ [39]
  else if ty = tyBitVal then [66, 39] ++ v ++ [39]
  else if ty = tyPgEsc then 69 :: Literal.encodeEscapeString v
  else v

def lexText : Lex → Bytes
  | .sp => [32]
  | .sym s => s.text.toUTF8.toList
  | .lit ty v => litText ty v
  | .id n => n

/-- the printed text -/
def render (ls : List Lex) : Bytes := ls.flatMap lexText

/-! ## parser -/

abbrev PRes := Expr × List Tok

inductive Mode
  /-- an expression all of whose top-level operators have level ≥ `L` -/
  | lvl (L : Nat)
  /-- continue a left-associative chain at level `L` with left operand `lhs` -/
  | rest (L : Nat) (lhs : Expr)
  /-- the postfix `IS …` chain -/
  | isLoop (e : Expr)
  /-- the argument list of a function call after the first `(`; `acc` = arguments read so far, reversed -/
  | args (name : Bytes) (acc : List Expr)

/-- the action of the rules `'+' value_expression` / `'-' value_expression` (sign folding into an `IntVal`) and of
the other prefix operators -/
def mkUnary (u : UnOp) (e : Expr) : Expr :=
  match e with
  | .val ty v =>
      if u.folds && ty == tyInt then
        if u = .uminus then
          match v with
          | c :: w => if c == minusByte then .val ty w else .val ty (minusByte :: v)
          | [] => .val ty (minusByte :: v)
        else .val ty v
      else .un u e
  | _ => .un u e

/-- rule `is_suffix` -/
def isSuffix : List Tok → Option (IsOp × List Tok)
  | .sym .null :: r => some (.isNull, r)
  | .sym .true_ :: r => some (.isTrue, r)
  | .sym .false_ :: r => some (.isFalse, r)
  | .sym .not_ :: .sym .null :: r => some (.isNotNull, r)
  | .sym .not_ :: .sym .true_ :: r => some (.isNotTrue, r)
  | .sym .not_ :: .sym .false_ :: r => some (.isNotFalse, r)
  | _ => none

variable (p : Mode → List Tok → Option PRes)

/-- `… BETWEEN value_expression AND value_expression` after the keyword -/
def rangeTail (neg : Bool) (v : Expr) (ts : List Tok) : Option PRes := do
  let (lo, r1) ← p (.lvl (lCmp + 1)) ts
  match r1 with
  | .sym .and_ :: r2 => do
      let (hi, r3) ← p (.lvl (lCmp + 1)) r2
      some (.range neg v lo hi, r3)
  | _ => none

/-- rule `condition` after its first `value_expression` -/
def cmpTail (v : Expr) (ts : List Tok) : Option PRes :=
  match ts with
  | .sym s :: ts' =>
      if s = .not_ then
        match ts' with
        | .sym .like :: r => do let (x, r1) ← p (.lvl (lCmp + 1)) r; some (.cmp .notLike v x, r1)
        | .sym .regexp :: r => do let (x, r1) ← p (.lvl (lCmp + 1)) r; some (.cmp .notRegexp v x, r1)
        | .sym .between :: r => rangeTail p true v r
        | _ => none
      else if s = .between then rangeTail p false v ts'
      else
        match s.cmpop with
        | some c => do let (x, r1) ← p (.lvl (lCmp + 1)) ts'; some (.cmp c v x, r1)
        | none => some (v, ts)
  | _ => some (v, ts)

/-- prefix operators and primaries -/
def unaryOrPrim (ts : List Tok) : Option PRes :=
  match ts with
  | .sym s :: ts' =>
      match s.unop with
      | some u => do let (e, r) ← p (.lvl lUnary) ts'; some (mkUnary u e, r)
      | none =>
          if s = .lp then do
            let (e, r) ← p (.lvl lOr) ts'
            match r with
            | .sym .rp :: r' => some (.paren e, r')
            | _ => none
          else if s = .null then some (.null, ts')
          else if s = .true_ then some (.bool true, ts')
          else if s = .false_ then some (.bool false, ts')
          else none
  | .lit ty v :: ts' => some (.val ty v, ts')
  | .id n :: .sym .lp :: .sym .rp :: ts' => some (.func n [], ts')
  | .id n :: .sym .lp :: ts' => p (.args n []) ts'
  | .id n :: ts' => some (.col n, ts')
  | [] => none

/-- one unfolding of the parser; `p` parses the sub-phrases -/
def step : Mode → List Tok → Option PRes
  | .lvl L, ts =>
      if L = lNot then
        match ts with
        | .sym .not_ :: ts' => do let (e, r) ← p (.lvl lNot) ts'; some (.not e, r)
        | _ => p (.lvl (L + 1)) ts
      else if L = lCmp then do
        let (v, r1) ← p (.lvl (L + 1)) ts
        let (c, r2) ← cmpTail p v r1
        p (.isLoop c) r2
      else if lUnary ≤ L then unaryOrPrim p ts
      else do
        let (l, r1) ← p (.lvl (L + 1)) ts
        p (.rest L l) r1
  | .rest L lhs, ts =>
      match ts with
      | .sym s :: ts' =>
          match bin2At L s with
          | some b => do
              let (r, r1) ← p (.lvl (L + 1)) ts'
              p (.rest L (b.mk lhs r)) r1
          | none => some (lhs, ts)
      | _ => some (lhs, ts)
  | .isLoop e, ts =>
      match ts with
      | .sym .is_ :: ts' =>
          match isSuffix ts' with
          | some (op, r) => p (.isLoop (.is op e)) r
          | none => none
      | _ => some (e, ts)
  | .args n acc, ts => do
      let (e, r1) ← p (.lvl lOr) ts
      match r1 with
      | .sym .comma :: r2 => p (.args n (e :: acc)) r2
      | .sym .rp :: r2 => some (.func n (e :: acc).reverse, r2)
      | _ => none

/-- the parser with `n` levels of unfolding -/
def parse : Nat → Mode → List Tok → Option PRes
  | 0 => fun _ _ => none
  | n + 1 => step (parse n)

/-- fuel per token: the depth of the level chain plus slack -/
def fuelK : Nat := 20

def fuelFor (ts : List Tok) : Nat := fuelK * ts.length + fuelK

/-- parse a complete token list as one `expression` -/
def parseExprFuel (n : Nat) (ts : List Tok) : Option Expr :=
  match parse n (.lvl lOr) ts with
  | some (e, []) => some e
  | _ => none

def parseExpr (ts : List Tok) : Option Expr := parseExprFuel (fuelFor ts) ts

/-! ## producible trees, substitution -/

/-- the level of the top node (leaves, parentheses, calls and prefix operators: `lUnary`) -/
def lv : Expr → Nat
  | .or _ _ => lOr
  | .and _ _ => lAnd
  | .not _ => lNot
  | .is _ _ => lCmp
  | .cmp _ _ _ => lCmp
  | .range _ _ _ _ => lCmp
  | .bin o _ _ => o.level
  | _ => lUnary

/-- an `SQLVal` as the tokenizer and the grammar actions can produce it, as far as the token structure goes: a value
that is printed as it is (`IntVal`, `FloatVal`, `HexNum`) is not empty and has no sign, except an `IntVal`, which may
have one `-` (put there by the rule for unary minus) -/
def LitOk (ty : Nat) (v : Bytes) : Prop :=
  rawTy ty = true →
    v ≠ [] ∧ (v.head? = some minusByte → ty = tyInt ∧ v.tail ≠ [] ∧ v.tail.head? ≠ some minusByte)

instance (ty : Nat) (v : Bytes) : Decidable (LitOk ty v) := by unfold LitOk; exact inferInstance

def Expr.isIntVal : Expr → Bool
  | .val ty _ => ty == tyInt
  | _ => false

/-- **The image of the parser.** Children of an operator node have the level the grammar requires – or are leaves,
calls or `ParenExpr` nodes, whose level is the highest. -/
inductive Producible : Expr → Prop
  | val {ty v} : LitOk ty v → Producible (.val ty v)
  | null : Producible .null
  | bool {b} : Producible (.bool b)
  | col {n} : Producible (.col n)
  | func {n args} : (∀ a, a ∈ args → Producible a) → Producible (.func n args)
  | paren {e} : Producible e → Producible (.paren e)
  | or {l r} : Producible l → Producible r → lOr ≤ lv l → lOr + 1 ≤ lv r → Producible (.or l r)
  | and {l r} : Producible l → Producible r → lAnd ≤ lv l → lAnd + 1 ≤ lv r → Producible (.and l r)
  | not {e} : Producible e → lNot ≤ lv e → Producible (.not e)
  | is {op e} : Producible e → lCmp ≤ lv e → Producible (.is op e)
  | cmp {op l r} : Producible l → Producible r → lCmp + 1 ≤ lv l → lCmp + 1 ≤ lv r → Producible (.cmp op l r)
  | range {neg l lo hi} : Producible l → Producible lo → Producible hi →
      lCmp + 1 ≤ lv l → lCmp + 1 ≤ lv lo → lCmp + 1 ≤ lv hi → Producible (.range neg l lo hi)
  | bin {op l r} : Producible l → Producible r → op.level ≤ lv l → op.level + 1 ≤ lv r → Producible (.bin op l r)
  | un {op e} : Producible e → lUnary ≤ lv e → (op.folds = true → e.isIntVal = false) → Producible (.un op e)

mutual
/-- executable version of `Producible` -/
def producibleB : Expr → Bool
  | .val ty v => decide (LitOk ty v)
  | .null => true
  | .bool _ => true
  | .col _ => true
  | .func _ args => producibleArgsB args
  | .paren e => producibleB e
  | .or l r => producibleB l && producibleB r && decide (lOr ≤ lv l) && decide (lOr + 1 ≤ lv r)
  | .and l r => producibleB l && producibleB r && decide (lAnd ≤ lv l) && decide (lAnd + 1 ≤ lv r)
  | .not e => producibleB e && decide (lNot ≤ lv e)
  | .is _ e => producibleB e && decide (lCmp ≤ lv e)
  | .cmp _ l r => producibleB l && producibleB r && decide (lCmp + 1 ≤ lv l) && decide (lCmp + 1 ≤ lv r)
  | .range _ l lo hi =>
      producibleB l && producibleB lo && producibleB hi && decide (lCmp + 1 ≤ lv l) && decide (lCmp + 1 ≤ lv lo) &&
        decide (lCmp + 1 ≤ lv hi)
  | .bin op l r => producibleB l && producibleB r && decide (op.level ≤ lv l) && decide (op.level + 1 ≤ lv r)
  | .un op e => producibleB e && decide (lUnary ≤ lv e) && (!op.folds || !e.isIntVal)
def producibleArgsB : List Expr → Bool
  | [] => true
  | e :: es => producibleB e && producibleArgsB es
end

mutual
/-- replace every `SQLVal` leaf `(ty, v)` by the `SQLVal` `σ ty v`; everything else stays -/
def subst (σ : Nat → Bytes → Nat × Bytes) : Expr → Expr
  | .val ty v => .val (σ ty v).1 (σ ty v).2
  | .null => .null
  | .bool b => .bool b
  | .col n => .col n
  | .func n args => .func n (substArgs σ args)
  | .paren e => .paren (subst σ e)
  | .and l r => .and (subst σ l) (subst σ r)
  | .or l r => .or (subst σ l) (subst σ r)
  | .not e => .not (subst σ e)
  | .is op e => .is op (subst σ e)
  | .cmp op l r => .cmp op (subst σ l) (subst σ r)
  | .range neg l lo hi => .range neg (subst σ l) (subst σ lo) (subst σ hi)
  | .bin op l r => .bin op (subst σ l) (subst σ r)
  | .un op e => .un op (subst σ e)
def substArgs (σ : Nat → Bytes → Nat × Bytes) : List Expr → List Expr
  | [] => []
  | e :: es => subst σ e :: substArgs σ es
end

mutual
/-- structural equality (for the driver and the executable examples) -/
def Expr.beq : Expr → Expr → Bool
  | .val a b, .val c d => a == c && b == d
  | .null, .null => true
  | .bool a, .bool b => a == b
  | .col a, .col b => a == b
  | .func a x, .func b y => a == b && Expr.beqList x y
  | .paren a, .paren b => Expr.beq a b
  | .and a b, .and c d => Expr.beq a c && Expr.beq b d
  | .or a b, .or c d => Expr.beq a c && Expr.beq b d
  | .not a, .not b => Expr.beq a b
  | .is o a, .is o' b => o == o' && Expr.beq a b
  | .cmp o a b, .cmp o' c d => o == o' && Expr.beq a c && Expr.beq b d
  | .range n a b c, .range n' d e f => n == n' && Expr.beq a d && Expr.beq b e && Expr.beq c f
  | .bin o a b, .bin o' c d => o == o' && Expr.beq a c && Expr.beq b d
  | .un o a, .un o' b => o == o' && Expr.beq a b
  | _, _ => false
def Expr.beqList : List Expr → List Expr → Bool
  | [], [] => true
  | a :: x, b :: y => Expr.beq a b && Expr.beqList x y
  | _, _ => false
end

end AcraModel.Sql.Expr
