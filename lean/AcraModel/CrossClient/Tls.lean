import AcraModel.CrossClient.Hash
import AcraModel.Generated.TlsRpc
/-
C02, part 4: the identity comes from the connection, not from the request.

`cmd/acra-translator/grpc_api/tls_service.go`: `TLSDecryptServiceWrapper` wraps the gRPC service when
AcraTranslator takes client ids from TLS certificates. Every method is
  clientID, err := getClientID(ctx, extractor); if err != nil { return nil, err }
  request.ClientId = clientID; return wrapper.decryptor.<Same>(ctx, request)
The table `Generated.TlsRpc.tlsRpcs` says, for every RPC of the wrapped services, whether the method has
this shape (regenerated from the source on every run). The model below *interprets* that table: a row
that does not override forwards the request as it came.
-/
namespace AcraModel.CrossClient
open AcraModel Generated

/-- a request as far as identity is concerned: the client id field and everything else -/
structure Request where
  clientId : Bytes
  payload : Bytes
deriving DecidableEq, Repr

/-- what `getClientID(ctx, extractor)` yields: the identity the TLS layer attached to the connection, or an error -/
abbrev ConnId := Option Bytes

/-- one row of `Generated.TlsRpc.tlsRpcs` -/
structure RpcRow where
  name : String
  defined : Bool
  overrides : Bool
  forwards : String

def rowOf (t : String × Bool × Bool × String) : RpcRow := ⟨t.1, t.2.1, t.2.2.1, t.2.2.2⟩

def rpcTable : List RpcRow := TlsRpc.tlsRpcs.map rowOf

/-- a wrapper method as the table describes it: not declared → the embedded `Unimplemented…Server`
answers with an error and nothing is forwarded; declared and overriding → the id of the connection
replaces the request's; declared but not overriding → the request goes through as it came -/
def wrapperMethod {R : Type} (row : RpcRow) (svc : Request → R) (onErr : R) (conn : ConnId) (req : Request) : R :=
  if !row.defined then onErr
  else if row.overrides then
    match conn with
    | none => onErr
    | some id => svc { req with clientId := id }
  else svc req

/-- the id the wrapped service sees (if it is reached at all) -/
def forwardedId (row : RpcRow) (conn : ConnId) (req : Request) : Option Bytes :=
  wrapperMethod row (fun r => some r.clientId) none conn req

theorem wrapperMethod_overriding {R : Type} (row : RpcRow) (h : row.defined = false ∨ row.overrides = true)
    (svc : Request → R) (e : R) (conn : ConnId) (p x y : Bytes) :
    wrapperMethod row svc e conn ⟨x, p⟩ = wrapperMethod row svc e conn ⟨y, p⟩ := by
  unfold wrapperMethod
  rcases h with h | h
  · simp [h]
  · cases conn <;> simp [h]

end AcraModel.CrossClient
