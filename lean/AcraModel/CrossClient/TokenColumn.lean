import AcraModel.CrossClient.Token
import AcraModel.Generated.TokenColumn
/-
C02, part 7: tokenized columns behind the SQL proxies – WHICH client id reaches the tokenizer.

Write path (INSERT / UPDATE values, bound parameters, search literals):
  `encryptor/{postgresql,mysql}/queryDataEncryptor.go` `encryptWithColumnSettings`,
  `decryptor/mysql/prepared_statement_sql_observer.go`, `pseudonymization/{postgresql,mysql}_tokenize_query.go`:
      clientID := columnSetting.ClientID()
      if len(clientID) > 0 { … } else { clientID = accessContext.GetClientID() }
      … .EncryptWithClientID(clientID, data, columnSetting)
  the chain of data encryptors hands its `clientID` parameter on unchanged until
  `pseudonymization/queryDataEncryptor.go` `TokenEncryptor.EncryptWithClientID(clientID, data, setting)`:
      if setting.IsTokenized() { tokenContext := common.TokenContext{ClientID: clientID}
                                 return e.tokenizer.Tokenize(data, tokenContext, setting) }
      return data, nil
  `DataTokenizer.Tokenize`: `AnonymizeConsistently` when `setting.IsConsistentTokenization()`, else `Anonymize`.

Read path (every column of every data row):
  `pseudonymization/data_encoder.go` `TokenProcessor.OnColumn(ctx, data)`:
      accessContext := base.AccessContextFromContext(ctx)
      columnSetting, ok := encryptor.EncryptionSettingFromContext(ctx)
      if ok && columnSetting.IsTokenized() {
          tokenContext := common.TokenContext{ClientID: accessContext.GetClientID(), …}
          return p.tokenizer.Detokenize(data, tokenContext, columnSetting) }      -- error → error
      return ctx, data, nil

Which expression each site passes is NOT written down here: it is read from `Generated.TokenColumn`
(regenerated from the Go source on every run) and interpreted by `idSourceOf` / `chooseId`.

Values are modelled by their text form (what travels in SQL): for the integer token types the harness uses
canonical decimal text only, for which text ↔ `encodeToBytes` is one-to-one (the typed conversions are C10's).
-/
namespace AcraModel.CrossClient
open AcraModel Generated

/-- a column of the encryptor config as far as tokenization is concerned -/
structure ColSetting where
  /-- `client_id:` of the column – `ClientID()`; empty when the config names none -/
  clientId : Bytes
  /-- `IsTokenized()` -/
  tokenized : Bool
  /-- `IsConsistentTokenization()` -/
  consistent : Bool
  /-- `GetTokenType()` (numeric code) -/
  ty : Nat
deriving DecidableEq, Repr

/-- what a site passes as client id -/
inductive IdSource where
  /-- `accessContext.GetClientID()` – the identity of the session -/
  | session
  /-- `columnSetting.ClientID()` – the client id the column is configured with, whatever it is -/
  | column
  /-- the column's client id when it is not empty, otherwise the session's -/
  | columnOrSession
  /-- the function's own client id parameter, handed on unchanged -/
  | param
  | unknown
deriving DecidableEq, Repr

def isSessionExpr (e : String) : Bool := e == "accessContext.GetClientID()"
def isColumnExpr (e : String) : Bool := e == "columnSetting.ClientID()" || e == "setting.ClientID()"

/-- reading of a row of `Generated.TokenColumn`: the (condition, expression) definitions of the value a site passes -/
def idSourceOf (defs : List (String × String)) : IdSource :=
  match defs with
  | [(c, e)] =>
    if c == "param" then .param
    else if c == "init" then (if isSessionExpr e then .session else if isColumnExpr e then .column else .unknown)
    else .unknown
  | [(c1, e1), (c2, e2)] =>
    if c1 == "init" && c2 == "if-empty" && isColumnExpr e1 && isSessionExpr e2 then .columnOrSession else .unknown
  | _ => .unknown

/-- the client id a site ends up with, given the session's identity, the column setting and (for a
pass-through site) its own parameter -/
def chooseId (src : IdSource) (session : Bytes) (col : ColSetting) (param : Bytes) : Bytes :=
  match src with
  | .session => session
  | .column => col.clientId
  | .columnOrSession => if col.clientId.length > 0 then col.clientId else session
  | .param => param
  | .unknown => session

/-- **The owner of a value written through the proxy**: the client the column is configured for, or – when
the column names none – the client of the writing session. (A session of B writing into a column configured
with `client_id: A` writes A-owned data, by design.) -/
def ownerOf (session : Bytes) (col : ColSetting) : Bytes :=
  if col.clientId.length > 0 then col.clientId else session

theorem chooseId_columnOrSession (session : Bytes) (col : ColSetting) (p : Bytes) :
    chooseId .columnOrSession session col p = ownerOf session col := rfl

/-! ### write path -/

/-- `Anonymize` (non-consistent tokenization): `generateNewValue` only -/
def anonymize (c : CryptoOps) (st : TokStore) (id v : Bytes) (ty : Nat) (cands : List Bytes) : Out (TokStore × Bytes) :=
  match generateNew c st id v ty loopLimit cands with
  | none => .err
  | some r => .ok r

/-- what `TokenEncryptor.EncryptWithClientID` puts into the token context (`Generated.TokenColumn.encryptorContextClientID`) -/
def encryptorSource : IdSource := idSourceOf TokenColumn.encryptorContextClientID

/-- `TokenEncryptor.EncryptWithClientID(clientID, data, setting)` (there is no session in sight: the function
has no context parameter) followed by `DataTokenizer.Tokenize` -/
def tokenEncrypt (c : CryptoOps) (st : TokStore) (clientID : Bytes) (col : ColSetting) (v : Bytes) (cands : List Bytes) :
    Out (TokStore × Bytes) :=
  if col.tokenized then
    let id := chooseId encryptorSource [] col clientID
    if col.consistent then tokenize c st id v col.ty cands else anonymize c st id v col.ty cands
  else .ok (st, v)

/-- a proxy-side write site (`encryptWithColumnSettings` and its siblings) whose first argument to
`EncryptWithClientID` is described by `src` -/
def proxyWrite (c : CryptoOps) (src : IdSource) (st : TokStore) (session : Bytes) (col : ColSetting) (v : Bytes) (cands : List Bytes) :
    Out (TokStore × Bytes) :=
  tokenEncrypt c st (chooseId src session col []) col v cands

/-- the rows of `Generated.TokenColumn.writeCallSites` that CHOOSE an id (do not just hand their parameter on) -/
def choosingWriteSites : List (String × String × List (String × String)) :=
  TokenColumn.writeCallSites.filter fun r => idSourceOf r.2.2 != .param

/-- the source the PostgreSQL / MySQL statement encryptors use (looked up in the regenerated table by file) -/
def writeSourceOf (file : String) : IdSource :=
  match TokenColumn.writeCallSites.find? (fun r => r.1 == file) with
  | some r => idSourceOf r.2.2
  | none => .unknown

def pgWriteSite : String := "encryptor/postgresql/queryDataEncryptor.go:QueryDataEncryptor.encryptWithColumnSettings"
def myWriteSite : String := "encryptor/mysql/queryDataEncryptor.go:QueryDataEncryptor.encryptWithColumnSettings"

/-! ### read path -/

/-- what `TokenProcessor.OnColumn` puts into the token context (`Generated.TokenColumn.readContextClientID`) -/
def readSource : IdSource := idSourceOf TokenColumn.readContextClientID

/-- `TokenProcessor.OnColumn` with the identity source `src`; `col = none`: the context carries no column setting -/
def onColumnTokenWith (c : CryptoOps) (src : IdSource) (st : TokStore) (session : Bytes) (col : Option ColSetting) (data : Bytes) : Out Bytes :=
  match col with
  | some cs => if cs.tokenized then detokenize c st (chooseId src session cs []) data cs.ty else .ok data
  | none => .ok data

/-- `TokenProcessor.OnColumn` as the source has it now -/
def onColumnToken (c : CryptoOps) (st : TokStore) (session : Bytes) (col : Option ColSetting) (data : Bytes) : Out Bytes :=
  onColumnTokenWith c readSource st session col data

/-! ### histories of writes -/

/-- one value written through a proxy session -/
structure ColOp where
  session : Bytes
  col : ColSetting
  v : Bytes
  cands : List Bytes

/-- run a history of writes through write sites with source `src` (failed writes leave the storage as it was) -/
def runCol (c : CryptoOps) (src : IdSource) : TokStore → List ColOp → TokStore
  | st, [] => st
  | st, op :: ops =>
    match proxyWrite c src st op.session op.col op.v op.cands with
    | .ok (st', _) => runCol c src st' ops
    | _ => runCol c src st ops

/-- every `TokenValue` record of the storage was written by a request of the history into a tokenized column,
under the context digest of the identity the write site chose -/
def OwnedCol (c : CryptoOps) (src : IdSource) (ops : List ColOp) (st : TokStore) : Prop :=
  ∀ e, e ∈ st → ∀ v ty, e.data = .value v ty →
    ∃ op, op ∈ ops ∧ op.col.tokenized = true ∧ aggCtx c (chooseId src op.session op.col []) = e.ctx ∧ op.v = v

/-- what a successful consistent tokenization adds to the storage -/
theorem tokenize_entries {c : CryptoOps} {st st' : TokStore} {id v tok : Bytes} {ty : Nat} {cands : List Bytes}
    (h : tokenize c st id v ty cands = .ok (st', tok)) :
    ∀ e, e ∈ st' → e ∈ st ∨ (e.ctx = aggCtx c id ∧ (e.data = .value v ty ∨ ∃ t, e.data = .raw t)) := by
  unfold tokenize at h
  split at h
  · cases h; intro e he; exact Or.inl he
  · cases h
  · split at h
    · cases h
    · next st1 tok1 hg =>
      split at h
      · cases h
      · next st2 hs =>
        cases h
        obtain ⟨key, hst1⟩ := generateNew_mem hg
        have hst2 := save_mem hs
        subst hst1
        subst hst2
        intro e he
        simp only [List.mem_cons] at he
        rcases he with he | he | he
        · subst he; exact Or.inr ⟨rfl, Or.inr ⟨_, rfl⟩⟩
        · subst he; exact Or.inr ⟨rfl, Or.inl rfl⟩
        · exact Or.inl he

theorem anonymize_entries {c : CryptoOps} {st st' : TokStore} {id v tok : Bytes} {ty : Nat} {cands : List Bytes}
    (h : anonymize c st id v ty cands = .ok (st', tok)) :
    ∀ e, e ∈ st' → e ∈ st ∨ (e.ctx = aggCtx c id ∧ (e.data = .value v ty ∨ ∃ t, e.data = .raw t)) := by
  unfold anonymize at h
  split at h
  · cases h
  · next r hg =>
    cases h
    obtain ⟨key, hst⟩ := generateNew_mem hg
    subst hst
    intro e he
    simp only [List.mem_cons] at he
    rcases he with he | he
    · subst he; exact Or.inr ⟨rfl, Or.inl rfl⟩
    · exact Or.inl he

/-- `TokenEncryptor` hands its parameter to the tokenizer (given the regenerated fact) -/
theorem tokenEncrypt_entries {c : CryptoOps} (hsrc : encryptorSource = .param) {st st' : TokStore} {id v tok : Bytes}
    {col : ColSetting} {cands : List Bytes} (h : tokenEncrypt c st id col v cands = .ok (st', tok)) :
    ∀ e, e ∈ st' → e ∈ st ∨ (col.tokenized = true ∧ e.ctx = aggCtx c id ∧ (e.data = .value v col.ty ∨ ∃ t, e.data = .raw t)) := by
  unfold tokenEncrypt at h
  rw [hsrc] at h
  simp only [chooseId] at h
  by_cases ht : col.tokenized = true
  · rw [if_pos ht] at h
    by_cases hc : col.consistent = true
    · rw [if_pos hc] at h
      intro e he
      rcases tokenize_entries h e he with h1 | h2
      · exact Or.inl h1
      · exact Or.inr ⟨ht, h2⟩
    · rw [if_neg hc] at h
      intro e he
      rcases anonymize_entries h e he with h1 | h2
      · exact Or.inl h1
      · exact Or.inr ⟨ht, h2⟩
  · rw [if_neg ht] at h
    cases h
    intro e he
    exact Or.inl he

theorem ownedCol_mono {c : CryptoOps} {src : IdSource} {ops ops' : List ColOp} {st : TokStore} (h : OwnedCol c src ops st)
    (hsub : ∀ op, op ∈ ops → op ∈ ops') : OwnedCol c src ops' st := by
  intro e he v ty hd
  obtain ⟨op, hop, h1, h2, h3⟩ := h e he v ty hd
  exact ⟨op, hsub op hop, h1, h2, h3⟩

theorem proxyWrite_owned {c : CryptoOps} (hsrc : encryptorSource = .param) {src : IdSource} {done : List ColOp} {st st' : TokStore}
    {op : ColOp} {tok : Bytes} (hinv : OwnedCol c src done st)
    (h : proxyWrite c src st op.session op.col op.v op.cands = .ok (st', tok)) :
    OwnedCol c src (op :: done) st' := by
  intro e he v ty hd
  unfold proxyWrite at h
  rcases tokenEncrypt_entries hsrc h e he with h1 | ⟨ht, hctx, hdata⟩
  · obtain ⟨o, ho, r1, r2, r3⟩ := hinv e h1 v ty hd
    exact ⟨o, List.mem_cons_of_mem _ ho, r1, r2, r3⟩
  · rcases hdata with hv | ⟨t, hr⟩
    · rw [hv] at hd
      cases hd
      exact ⟨op, List.mem_cons_self, ht, hctx.symm, rfl⟩
    · rw [hr] at hd
      cases hd

theorem runCol_owned {c : CryptoOps} (hsrc : encryptorSource = .param) {src : IdSource} :
    ∀ (ops done : List ColOp) (st : TokStore), OwnedCol c src done st → OwnedCol c src (ops.reverse ++ done) (runCol c src st ops)
  | [], done, st, h => by simpa [runCol] using h
  | op :: ops, done, st, h => by
    unfold runCol
    cases ht : proxyWrite c src st op.session op.col op.v op.cands with
    | ok r =>
      obtain ⟨st', tok⟩ := r
      have := runCol_owned hsrc ops (op :: done) st' (proxyWrite_owned hsrc h ht)
      simpa using this
    | err =>
      have := runCol_owned hsrc ops (op :: done) st (ownedCol_mono h (fun o ho => List.mem_cons_of_mem _ ho))
      simpa using this
    | panic =>
      have := runCol_owned hsrc ops (op :: done) st (ownedCol_mono h (fun o ho => List.mem_cons_of_mem _ ho))
      simpa using this

/-- de-tokenization over an owned storage: the token itself, or a value written under a context digest equal to the reader's -/
theorem detokenize_owned {c : CryptoOps} {src : IdSource} {ops : List ColOp} {st : TokStore} (hinv : OwnedCol c src ops st)
    {id tok r : Bytes} {ty : Nat} (h : detokenize c st id tok ty = .ok r) :
    r = tok ∨ ∃ op, op ∈ ops ∧ op.col.tokenized = true ∧ aggCtx c (chooseId src op.session op.col []) = aggCtx c id ∧ op.v = r := by
  unfold detokenize at h
  cases hg : st.get (aggCtx c id) (tokKey c tok id ty) with
  | none => simp only [hg] at h; cases h; exact Or.inl rfl
  | some d =>
    simp only [hg] at h
    cases d with
    | raw x => cases h
    | value v ty' =>
      simp only at h
      split at h
      · cases h
      · cases h
        obtain ⟨e, he, hctx, hd⟩ := TokStore.get_mem hg
        obtain ⟨op, hop, h0, h1, h2⟩ := hinv e he r ty' hd
        exact Or.inr ⟨op, hop, h0, by rw [h1, hctx], h2⟩

end AcraModel.CrossClient
