import AcraModel.CrossClient.Reveal
import AcraModel.Generated.IdentityCtx
/-
C02, part 2: the blind index (searchable encryption) under another identity.

`hmac/hash.go`: a search hash is one byte naming the hash function (`_sha256 = 255/2 = 127`) followed by
HMAC-SHA256(key of the client, plaintext). `HashData.IsEqual(data, keyID, store)` loads the HMAC key of
`keyID` and compares. The searchable translator operations (`cmd/acra-translator/common/service.go`
`DecryptSearchable`, `DecryptSymSearchable`) split `hash ‖ container`, decrypt the container under the
caller's identity and then verify the hash under the caller's identity.
-/
namespace AcraModel.CrossClient
open AcraModel AcraModel.Envelope

/-- `funcNumber` of SHA-256 in `hmac/hash.go` (`255/2 + iota`), regenerated from the source -/
def hashFuncByte : UInt8 := UInt8.ofNat Generated.IdentityCtx.hashFuncSha256
/-- `sha256.Size` -/
def hashSize : Nat := 32

/-- `hmac.GenerateHMAC` -/
def generateHash (c : CryptoOps) (key data : Bytes) : Bytes := hashFuncByte :: c.hmac key data

/-- `hmac.ExtractHashAndData`: (hash part incl. the function byte, rest) -/
def extractHashAndData (container : Bytes) : Option (Bytes × Bytes) :=
  match container with
  | [] => none
  | f :: rest =>
    if f ≠ hashFuncByte then none
    else if rest.length < hashSize then none
    else some (container.take (hashSize + 1), container.drop (hashSize + 1))

/-- `HashData.IsEqual(data, keyID, store)`; `hkey` is what `GetHMACSecretKey(keyID)` gave (`none` = error) -/
def hashIsEqual (c : CryptoOps) (hashPart data : Bytes) (hkey : Option Bytes) : Bool :=
  match hkey with
  | none => false
  | some k => hashPart.drop 1 == c.hmac k data

/-- the HMAC key store: client id ↦ current HMAC key -/
abbrev HmacStore := Bytes → Option Bytes

/-- the blind-index check run under identity `id` -/
def hashVerifyAs (c : CryptoOps) (hs : HmacStore) (id hashPart data : Bytes) : Bool :=
  hashIsEqual c hashPart data (hs id)

/-- outcome of a searchable decrypt: error with nothing, error handing the input back, or the value -/
inductive SearchOut where
  | ok (m : Bytes)
  | errBack (data : Bytes)   -- `return data, ErrDecryptionFailed`: the caller's input comes back with the error
  | err
  | panic
deriving DecidableEq, Repr

/-- `dataToDecrypt := data; if hash != nil { dataToDecrypt = append(hash, data...) }` -/
def prependHash (hash : Option Bytes) (data : Bytes) : Bytes :=
  match hash with
  | none => data
  | some h => h ++ data

/-- `TranslatorService.DecryptSearchable` / `DecryptSymSearchable` for the identity whose key view is
`kv` and whose HMAC key is `hkey`. `hash = none` models a nil `hash` argument (hash already prepended).
The poison check that runs on failures is modelled in C15 and does not change the result here when it
finds nothing; a poison alarm turns `errBack` into `err`. -/
def decryptSearchable (c : CryptoOps) (kv : KeyView) (hkey : Option Bytes) (k : Kind) (data : Bytes) (hash : Option Bytes) : SearchOut :=
  match extractHashAndData (prependHash hash data) with
  | none => .err
  | some (hashPart, container) =>
    match decryptWithHandler c kv k container with
    | .panic => .panic
    | .err => .errBack data
    | .ok m => if hashIsEqual c hashPart m hkey then .ok m else .err

/-- the check compares exactly the 32 bytes after the function byte with the caller's HMAC -/
theorem hashIsEqual_generate {c : CryptoOps} (key data d' k' : Bytes) :
    hashIsEqual c (generateHash c key data) d' (some k') = true ↔ c.hmac k' d' = c.hmac key data := by
  simp only [hashIsEqual, generateHash, List.drop_succ_cons, List.drop_zero, beq_iff_eq]
  exact eq_comm

/-- what `extractHashAndData` returns for `generateHash … ++ rest` when the HMAC is 32 bytes long -/
theorem extract_generate {c : CryptoOps} (hl : HashLen c) (key data rest : Bytes) :
    extractHashAndData (generateHash c key data ++ rest) = some (generateHash c key data, rest) := by
  have h32 := hl.hmac_len key data
  simp only [generateHash, List.cons_append, extractHashAndData]
  rw [if_neg (by simp), if_neg (by simp [hashSize, h32])]
  have : (hashFuncByte :: (c.hmac key data ++ rest)) = (hashFuncByte :: c.hmac key data) ++ rest := by simp
  have hlen : (hashFuncByte :: c.hmac key data).length = hashSize + 1 := by simp [hashSize, h32]
  rw [this, ← hlen]
  simp

/-- searchable decrypt under a separated identity never yields the value: whatever the owner can
decrypt comes back as an error carrying the caller's own input -/
theorem decryptSearchable_cross {c : CryptoOps} (hl : SealLaws c) (hc : SealCommit c) {a b : KeyView}
    (hsep : KeysSeparate c a b) {ha hb : Option Bytes} {k : Kind} {data m : Bytes} {hash : Option Bytes}
    (hown : decryptSearchable c a ha k data hash = .ok m) :
    decryptSearchable c b hb k data hash = .errBack data := by
  unfold decryptSearchable at hown ⊢
  cases he : extractHashAndData (prependHash hash data) with
  | none => simp [he] at hown
  | some r =>
    obtain ⟨hp, cont⟩ := r
    simp only [he] at hown ⊢
    cases hd : decryptWithHandler c a k cont with
    | err => simp [hd] at hown
    | panic => simp [hd] at hown
    | ok m' =>
      rw [decryptWithHandler_cross hl hc hsep hd]

end AcraModel.CrossClient
