import AcraModel.CrossClient.Context
/-
C02, part 6: de-tokenization under another identity (minimal model; the full tokenizer model is C10's).

`pseudonymization/tokenizer.go`: a token record lives in the token storage under
  (AggregateTokenContextToBytes(context), "t." ‖ generateDataID(token, context, type))
where both digests hash the client id of the *caller*. `Deanonymize` computes the id from the token it is
given and the caller's context; when the storage has nothing there it returns the token as it came
("Token not found, return as is"). `AnonymizeConsistently` first looks for "h." ‖ generateDataID(value, …).
The record value is the protobuf `TokenValue{value, type}`; protobuf encoding/decoding is modelled as the
identity on `(value, type)`. Zones (`AdditionalContext`) are not supported by AcraTranslator any more
(`ErrZoneIDAdditionalDataNotSupported`), the model covers the client branch.
-/
namespace AcraModel.CrossClient
open AcraModel Generated

/-- content of a storage entry: a `TokenValue` record (under a "t." key) or raw token bytes (under an "h." key) -/
inductive TokData where
  | value (v : Bytes) (ty : Nat)
  | raw (b : Bytes)
deriving DecidableEq, Repr

structure TokEntry where
  ctx : Bytes
  key : Bytes
  data : TokData
deriving DecidableEq, Repr

abbrev TokStore := List TokEntry

/-- `common.AggregateTokenContextToBytes` (client branch) -/
def aggCtx (c : CryptoOps) (id : Bytes) : Bytes := c.sha256 (bytesOfNats IdentityCtx.tokenContextClientTag ++ id)

/-- `pseudoanonymizer.generateDataID` (client branch) -/
def dataId (c : CryptoOps) (data id : Bytes) (ty : Nat) : Bytes :=
  c.sha256 (bytesOfNats IdentityCtx.tokenDataIDDelim ++ data ++ bytesOfNats IdentityCtx.tokenDataIDClientTag ++ id
    ++ bytesOfNats IdentityCtx.tokenDataIDDelim ++ decimal ty)

def tokKey (c : CryptoOps) (tok id : Bytes) (ty : Nat) : Bytes := bytesOfNats IdentityCtx.tokenKeyPrefix ++ dataId c tok id ty
def hashKey (c : CryptoOps) (v id : Bytes) (ty : Nat) : Bytes := bytesOfNats IdentityCtx.tokenHashKeyPrefix ++ dataId c v id ty

/-- `TokenStorage.Get` -/
def TokStore.get (st : TokStore) (cx key : Bytes) : Option TokData :=
  (st.find? (fun e => e.ctx == cx && e.key == key)).map (·.data)

/-- `TokenStorage.Save`: `none` = `ErrTokenExists` -/
def TokStore.save (st : TokStore) (cx key : Bytes) (d : TokData) : Option TokStore :=
  if (st.get cx key).isSome then none else some (⟨cx, key, d⟩ :: st)

/-- `generateNewValue`: try the candidates the random generator draws, at most `fuel` (= 10) of them -/
def generateNew (c : CryptoOps) (st : TokStore) (id v : Bytes) (ty : Nat) : Nat → List Bytes → Option (TokStore × Bytes)
  | 0, _ => none
  | _, [] => none
  | fuel + 1, cand :: rest =>
    match st.save (aggCtx c id) (tokKey c cand id ty) (.value v ty) with
    | some st' => some (st', cand)
    | none => generateNew c st id v ty fuel rest

/-- `defaultDataGenerationLoopLimit` -/
def loopLimit : Nat := 10

/-- `AnonymizeConsistently` for byte-like token types, run under identity `id`; `cands` are the values
the random generator draws. Returns the new storage and the token. -/
def tokenize (c : CryptoOps) (st : TokStore) (id v : Bytes) (ty : Nat) (cands : List Bytes) : Out (TokStore × Bytes) :=
  match st.get (aggCtx c id) (hashKey c v id ty) with
  | some (.raw t) => .ok (st, t)
  | some (.value _ _) => .err
  | none =>
    match generateNew c st id v ty loopLimit cands with
    | none => .err
    | some (st', tok) =>
      match st'.save (aggCtx c id) (hashKey c v id ty) (.raw tok) with
      | none => .err
      | some st'' => .ok (st'', tok)

/-- `Deanonymize` run under identity `id` -/
def detokenize (c : CryptoOps) (st : TokStore) (id tok : Bytes) (ty : Nat) : Out Bytes :=
  match st.get (aggCtx c id) (tokKey c tok id ty) with
  | none => .ok tok
  | some (.raw _) => .err
  | some (.value v ty') => if ty' ≠ ty then .err else .ok v

/-- one tokenization request of a history -/
structure TokOp where
  id : Bytes
  v : Bytes
  ty : Nat
  cands : List Bytes

/-- run a history of tokenization requests (failed requests leave the storage as it was) -/
def runTok (c : CryptoOps) : TokStore → List TokOp → TokStore
  | st, [] => st
  | st, op :: ops =>
    match tokenize c st op.id op.v op.ty op.cands with
    | .ok (st', _) => runTok c st' ops
    | _ => runTok c st ops

/-- every `TokenValue` record of the storage was written by a request of the history, under the context
digest of the identity that made the request -/
def Owned (c : CryptoOps) (ops : List TokOp) (st : TokStore) : Prop :=
  ∀ e, e ∈ st → ∀ v ty, e.data = .value v ty → ∃ op, op ∈ ops ∧ aggCtx c op.id = e.ctx ∧ op.v = v

theorem TokStore.get_mem {st : TokStore} {cx key : Bytes} {d : TokData} (h : st.get cx key = some d) :
    ∃ e, e ∈ st ∧ e.ctx = cx ∧ e.data = d := by
  simp only [TokStore.get, Option.map_eq_some_iff] at h
  obtain ⟨e, he, hd⟩ := h
  have hm := List.mem_of_find?_eq_some he
  have hp := List.find?_some he
  simp only [Bool.and_eq_true, beq_iff_eq] at hp
  exact ⟨e, hm, hp.1, hd⟩

theorem save_mem {st st' : TokStore} {cx key : Bytes} {d : TokData} (h : st.save cx key d = some st') :
    st' = ⟨cx, key, d⟩ :: st := by
  unfold TokStore.save at h
  split at h
  · cases h
  · cases h; rfl

theorem generateNew_mem {c : CryptoOps} {st st' : TokStore} {id v tok : Bytes} {ty : Nat} :
    ∀ {fuel : Nat} {cands : List Bytes}, generateNew c st id v ty fuel cands = some (st', tok) →
      ∃ key, st' = ⟨aggCtx c id, key, .value v ty⟩ :: st
  | 0, _, h => by simp [generateNew] at h
  | _ + 1, [], h => by simp [generateNew] at h
  | fuel + 1, cand :: rest, h => by
    unfold generateNew at h
    split at h
    · next st1 hs =>
      cases h
      exact ⟨_, save_mem hs⟩
    · exact generateNew_mem h

theorem owned_mono {c : CryptoOps} {ops ops' : List TokOp} {st : TokStore} (h : Owned c ops st)
    (hsub : ∀ op, op ∈ ops → op ∈ ops') : Owned c ops' st := by
  intro e he v ty hd
  obtain ⟨op, hop, h1, h2⟩ := h e he v ty hd
  exact ⟨op, hsub op hop, h1, h2⟩

theorem tokenize_owned {c : CryptoOps} {done : List TokOp} {st st' : TokStore} {op : TokOp} {tok : Bytes}
    (hinv : Owned c done st) (h : tokenize c st op.id op.v op.ty op.cands = .ok (st', tok)) :
    Owned c (op :: done) st' := by
  unfold tokenize at h
  split at h
  · cases h
    exact owned_mono hinv (fun o ho => List.mem_cons_of_mem _ ho)
  · cases h
  · split at h
    · cases h
    · next st1 tok1 hg =>
      split at h
      · cases h
      · next st2 hs =>
        cases h
        obtain ⟨key, hst1⟩ := generateNew_mem hg
        have hst2 := save_mem hs
        subst hst1
        subst hst2
        intro e he v ty hd
        simp only [List.mem_cons] at he
        rcases he with he | he | he
        · subst he
          cases hd
        · subst he
          cases hd
          exact ⟨op, List.mem_cons_self, rfl, rfl⟩
        · obtain ⟨o, ho, h1, h2⟩ := hinv e he v ty hd
          exact ⟨o, List.mem_cons_of_mem _ ho, h1, h2⟩

theorem runTok_owned {c : CryptoOps} : ∀ (ops done : List TokOp) (st : TokStore), Owned c done st →
    Owned c (ops.reverse ++ done) (runTok c st ops)
  | [], done, st, h => by simpa [runTok] using h
  | op :: ops, done, st, h => by
    unfold runTok
    cases ht : tokenize c st op.id op.v op.ty op.cands with
    | ok r =>
      obtain ⟨st', tok⟩ := r
      have := runTok_owned ops (op :: done) st' (tokenize_owned h ht)
      simpa using this
    | err =>
      have := runTok_owned ops (op :: done) st (owned_mono h (fun o ho => List.mem_cons_of_mem _ ho))
      simpa using this
    | panic =>
      have := runTok_owned ops (op :: done) st (owned_mono h (fun o ho => List.mem_cons_of_mem _ ho))
      simpa using this

end AcraModel.CrossClient
