import AcraModel.CrossClient.Reveal
import AcraModel.Crypto.Box
/-
`MsgCommit` holds for the transparent-box instance: together with `Box.sealLaws`, `Box.sealCommit`,
`Box.msgLaws` this shows that the hypotheses of the C02 theorems are jointly satisfiable.
-/
namespace AcraModel.CrossClient
open AcraModel

theorem Box.unwrap_some {b q ct m : Bytes} (h : Box.unwrap b q ct = some m) :
    ∃ a p n, Box.unesc ct = some (a, Box.esc p ++ (Box.esc n ++ m)) ∧ Box.validPriv b = true ∧ p = Box.pubOf b := by
  unfold Box.unwrap at h
  cases h1 : Box.unesc ct with
  | none => simp [h1] at h
  | some p1 =>
    obtain ⟨a, r1⟩ := p1
    cases h2 : Box.unesc r1 with
    | none => simp [h1, h2] at h
    | some p2 =>
      obtain ⟨p, r2⟩ := p2
      cases h3 : Box.unesc r2 with
      | none => simp [h1, h2, h3] at h
      | some p3 =>
        obtain ⟨n, m'⟩ := p3
        simp only [h1, h2, h3] at h
        split at h
        · next hcnd =>
          cases h
          refine ⟨a, p, n, ?_, hcnd.2.1, hcnd.2.2.1⟩
          rw [Box.esc_of_unesc _ _ _ h2, Box.esc_of_unesc _ _ _ h3]
        · cases h

theorem boxMsgCommit : MsgCommit boxOps where
  unwrap_inj := by
    intro a b p ct m m' ha hb
    obtain ⟨a1, p1, n1, h1, hva, hp1⟩ := Box.unwrap_some (b := a) ha
    obtain ⟨a2, p2, n2, h2, hvb, hp2⟩ := Box.unwrap_some (b := b) hb
    rw [h1] at h2
    simp only [Option.some.injEq, Prod.mk.injEq] at h2
    obtain ⟨_, hrest⟩ := h2
    obtain ⟨hpp, _⟩ := Box.esc_inj _ _ _ _ hrest
    exact Box.pubOf_inj a b hva hvb (by rw [← hp1, ← hp2, hpp])

end AcraModel.CrossClient
