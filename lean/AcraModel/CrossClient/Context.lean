import AcraModel.Crypto.Ops
import AcraModel.Generated.IdentityCtx
/-
C02, part 3: how stored keys are bound to their owner.

v1 (`keystore/keystore.go`, `keystore/filesystem/server_keystore.go`): every secret key file is the key
sealed under the master key with the bytes of its `KeyContext` as associated context.
`GetKeyContextFromContext` returns the client id if there is one, else the free-form context, else
nothing – the *purpose* never reaches the cipher. File names are `<id>_storage`, `<id>_storage_sym`,
`<id>_hmac`.

v2 (`keystore/v2/keystore/filesystem/{keyRing,key,keyStore}.go`): a key inside a key ring is sealed
under the master key with context `"AKSv2 keystore: key ring <path>: private key <seqnum>"` (or
`symmetric key <seqnum>`); the ring file as a whole carries an HMAC over
`"AKSv2 keystore: key ring signature: <path>" ‖ ": " ‖ payload`. Ring paths are
`client/<id>/storage`, `client/<id>/storage-sym`, `client/<id>/hmac-sym`.

All literal byte strings come from `Generated.IdentityCtx` (regenerated from the Go source).
-/
namespace AcraModel.CrossClient
open AcraModel Generated

def bytesOfNats (l : List Nat) : Bytes := l.map UInt8.ofNat

/-! ### v1 -/

/-- `keystore.KeyContext` (nil slices are `none`) -/
structure KeyContext where
  clientID : Option Bytes
  context : Option Bytes
  purpose : String
deriving DecidableEq, Repr

/-- `keystore.NewClientIDKeyContext` -/
def newClientIDKeyContext (purpose : String) (id : Bytes) : KeyContext := ⟨some id, none, purpose⟩
/-- `keystore.NewKeyContext` -/
def newKeyContext (purpose : String) (ctx : Bytes) : KeyContext := ⟨none, some ctx, purpose⟩
/-- `keystore.NewEmptyKeyContext` -/
def newEmptyKeyContext (ctx : Bytes) : KeyContext := ⟨none, some ctx, ""⟩

/-- `keystore.GetKeyContextFromContext`; a nil result is the empty context for Secure Cell -/
def keyContextBytes (kc : KeyContext) : Bytes :=
  match kc.clientID with
  | some id => id
  | none =>
    match kc.context with
    | some x => x
    | none => []

/-- `SCellKeyEncryptor.Encrypt` -/
def keyEncrypt (c : CryptoOps) (master : Bytes) (kc : KeyContext) (key nonce : Bytes) : Option Bytes :=
  c.enc master (keyContextBytes kc) key nonce
/-- `SCellKeyEncryptor.Decrypt` -/
def keyDecrypt (c : CryptoOps) (master : Bytes) (kc : KeyContext) (blob : Bytes) : Option Bytes :=
  c.dec master (keyContextBytes kc) blob

/-- the per-client secret keys of the v1 store -/
inductive V1Purpose | storagePrivate | storageSym | searchHmac
deriving DecidableEq, Repr

def V1Purpose.name : V1Purpose → String
  | .storagePrivate => "private_storage"
  | .storageSym => "storage_sym_key"
  | .searchHmac => "search_hmac"

/-- file name of a per-client secret key (`GetServerDecryptionKeyFilename`, `getClientIDSymmetricKeyName`,
`getHmacKeyFilename`) -/
def v1FileName (p : V1Purpose) (id : Bytes) : Bytes :=
  match p with
  | .storagePrivate => id ++ bytesOfNats IdentityCtx.v1StorageSuffix
  | .storageSym => id ++ bytesOfNats IdentityCtx.v1StorageSuffix ++ bytesOfNats IdentityCtx.v1SymSuffix
  | .searchHmac => id ++ bytesOfNats IdentityCtx.v1HmacSuffix

/-- the key context every accessor of a per-client key builds (`NewClientIDKeyContext(purpose, id)`) -/
def v1Context (p : V1Purpose) (id : Bytes) : KeyContext := newClientIDKeyContext p.name id

/-- a directory of key files -/
abbrev Files := List (Bytes × Bytes)

def Files.get (fs : Files) (name : Bytes) : Option Bytes := (fs.find? (·.1 == name)).map (·.2)
/-- write / overwrite a file -/
def Files.put (fs : Files) (name data : Bytes) : Files := (name, data) :: fs.filter (·.1 != name)
/-- copy a file to another name (what an attacker with write access to the key directory, or a buggy
backup/restore, would do); a missing source leaves the directory unchanged -/
def Files.copy (fs : Files) (src dst : Bytes) : Files :=
  match fs.get src with
  | some d => fs.put dst d
  | none => fs

/-- store a freshly generated key for `(p, id)` (`generateAndSaveSymmetricKey`, `GenerateHmacKey`, `SaveKeyPairWithFilename`) -/
def v1Save (c : CryptoOps) (master : Bytes) (fs : Files) (p : V1Purpose) (id key nonce : Bytes) : Option Files :=
  (keyEncrypt c master (v1Context p id) key nonce).map (fs.put (v1FileName p id))

/-- load the current key of `(p, id)` (`loadKeyAndCache`) -/
def v1Load (c : CryptoOps) (master : Bytes) (fs : Files) (p : V1Purpose) (id : Bytes) : Option Bytes :=
  match fs.get (v1FileName p id) with
  | none => none
  | some blob => keyDecrypt c master (v1Context p id) blob

/-! ### v2 -/

/-- decimal rendering of a sequence number (`%d`), structurally recursive on a fuel bound so that the
kernel can evaluate it -/
def decimalFuel : Nat → Nat → Bytes
  | 0, _ => []
  | f + 1, n => if n < 10 then [UInt8.ofNat (48 + n)] else decimalFuel f (n / 10) ++ [UInt8.ofNat (48 + n % 10)]

def decimal (n : Nat) : Bytes := decimalFuel (n + 1) n

inductive V2Kind | privateKey | symmetricKey
deriving DecidableEq, Repr

/-- `KeyRing.privateKeyContext` / `symmetricKeyContext` -/
def v2KindContext (k : V2Kind) (seqnum : Nat) : Bytes :=
  match k with
  | .privateKey => bytesOfNats IdentityCtx.v2PrivateKeyFormat ++ decimal seqnum
  | .symmetricKey => bytesOfNats IdentityCtx.v2SymmetricKeyFormat ++ decimal seqnum

/-- `KeyRing.keyRingContext` -/
def v2KeyRingContext (path ctx : Bytes) : Bytes :=
  bytesOfNats IdentityCtx.v2KeyRingContextLit0 ++ path ++ bytesOfNats IdentityCtx.v2KeyRingContextLit1 ++ ctx

/-- `KeyStore.keyStoreContext` -/
def v2KeyStoreContext (ctx : Bytes) : Bytes := bytesOfNats IdentityCtx.v2KeyStoreContextLit0 ++ ctx

/-- the associated context a key of a ring is sealed with (`KeyRing.encrypt` → `KeyStore.encrypt`) -/
def v2KeyContext (path : Bytes) (k : V2Kind) (seqnum : Nat) : KeyContext :=
  newEmptyKeyContext (v2KeyStoreContext (v2KeyRingContext path (v2KindContext k seqnum)))

/-- `KeyStore.keyRingSignatureContext` -/
def v2SignatureContext (path : Bytes) : Bytes :=
  v2KeyStoreContext (bytesOfNats IdentityCtx.v2RingSignatureContextLit0 ++ path)

/-- `SignSha256.Sign(data, context)` -/
def v2Sign (c : CryptoOps) (sigKey path payload : Bytes) : Bytes :=
  c.hmac sigKey (v2SignatureContext path ++ bytesOfNats IdentityCtx.v2SignatureSeparator ++ payload)

/-- the per-client key rings -/
inductive V2Ring | storage | storageSym | hmacSym
deriving DecidableEq, Repr

def slash : UInt8 := 47

/-- `clientStorageKeyPairPath` / `clientStorageSymmetricKeyPath` / `clientHMACKeyPath` for ids on which
`filepath.Join` has nothing to clean (no `/`, not `.`/`..`, non-empty) -/
def v2RingPath (r : V2Ring) (id : Bytes) : Bytes :=
  bytesOfNats IdentityCtx.v2ClientPrefix ++ [slash] ++ id ++ [slash] ++
    bytesOfNats (match r with
      | .storage => IdentityCtx.v2StorageSuffix
      | .storageSym => IdentityCtx.v2StorageSymSuffix
      | .hmacSym => IdentityCtx.v2HmacSuffix)

/-- seal / unseal a key of a ring -/
def v2KeyEncrypt (c : CryptoOps) (master path : Bytes) (k : V2Kind) (seqnum : Nat) (key nonce : Bytes) : Option Bytes :=
  keyEncrypt c master (v2KeyContext path k seqnum) key nonce
def v2KeyDecrypt (c : CryptoOps) (master path : Bytes) (k : V2Kind) (seqnum : Nat) (blob : Bytes) : Option Bytes :=
  keyDecrypt c master (v2KeyContext path k seqnum) blob

/-! ### lemmas -/

/-- a key sealed under one context does not open under a different one -/
theorem keyDecrypt_other {c : CryptoOps} (hl : SealLaws c) (hc : SealCommit c) {master key nonce blob : Bytes}
    {kc kc' : KeyContext} (h : keyEncrypt c master kc key nonce = some blob)
    (hne : keyContextBytes kc ≠ keyContextBytes kc') : keyDecrypt c master kc' blob = none := by
  unfold keyEncrypt at h
  unfold keyDecrypt
  cases hd : c.dec master (keyContextBytes kc') blob with
  | none => rfl
  | some k' =>
    obtain ⟨n', _, hn'⟩ := hl.enc_of_dec _ _ _ _ hd
    exact absurd (hc.enc_inj _ _ _ _ _ _ _ _ _ h hn').2.1 hne

theorem Files.get_put_same (fs : Files) (name data : Bytes) : (fs.put name data).get name = some data := by
  simp [Files.get, Files.put]

theorem Files.get_copy_dst (fs : Files) (src dst d : Bytes) (h : fs.get src = some d) :
    (fs.copy src dst).get dst = some d := by
  simp [Files.copy, h, Files.get_put_same]

/-- digits -/
def undecimal (b : Bytes) : Nat := b.foldl (fun acc d => 10 * acc + (d.toNat - 48)) 0

theorem undecimal_decimalFuel : ∀ (f n : Nat), n < f → undecimal (decimalFuel f n) = n
  | 0, n, h => by omega
  | f + 1, n, h => by
    unfold decimalFuel
    split
    · next h10 =>
      have : (UInt8.ofNat (48 + n)).toNat = 48 + n := by
        simp [UInt8.toNat_ofNat']; omega
      simp only [undecimal, List.foldl_cons, List.foldl_nil, this]
      omega
    · next h10 =>
      have ih := undecimal_decimalFuel f (n / 10) (by omega)
      have hd : (UInt8.ofNat (48 + n % 10)).toNat = 48 + n % 10 := by
        simp [UInt8.toNat_ofNat']; omega
      simp only [undecimal, List.foldl_append, List.foldl_cons, List.foldl_nil] at ih ⊢
      rw [ih, hd]
      omega

theorem undecimal_decimal (n : Nat) : undecimal (decimal n) = n :=
  undecimal_decimalFuel (n + 1) n (by omega)

theorem decimal_inj {n m : Nat} (h : decimal n = decimal m) : n = m := by
  have := congrArg undecimal h
  simpa [undecimal_decimal] using this

/-- the first `:` of `p ++ ':' :: r` is the one after `p` when `p` has none -/
theorem split_at_colon : ∀ (p p' r r' : Bytes), (58 : UInt8) ∉ p → (58 : UInt8) ∉ p' →
    p ++ (58 : UInt8) :: r = p' ++ (58 : UInt8) :: r' → p = p' ∧ r = r'
  | [], [], r, r', _, _, h => by simpa using h
  | [], y :: ys, r, r', _, h2, h => by
    simp only [List.nil_append, List.cons_append, List.cons.injEq] at h
    exact absurd (h.1 ▸ List.mem_cons_self) h2
  | x :: xs, [], r, r', h1, _, h => by
    simp only [List.nil_append, List.cons_append, List.cons.injEq] at h
    exact absurd (h.1 ▸ List.mem_cons_self) h1
  | x :: xs, y :: ys, r, r', h1, h2, h => by
    simp only [List.cons_append, List.cons.injEq] at h
    obtain ⟨hxy, ht⟩ := h
    have := split_at_colon xs ys r r' (fun hm => h1 (List.mem_cons_of_mem _ hm)) (fun hm => h2 (List.mem_cons_of_mem _ hm)) ht
    exact ⟨by rw [hxy, this.1], this.2⟩

end AcraModel.CrossClient
