/-
SHA-512 over `ByteArray` – executable only (used by the model driver to compute the client ids that
`network.HexIdentifierConverter` derives from a certificate identifier). Nothing is proved about this
function; the theorems about TLS identities take the hash as a parameter and its collision freedom on
the identifiers at hand as an explicit finite hypothesis.
-/
namespace AcraModel.Sha512

def K : Array UInt64 := #[
  0x428a2f98d728ae22, 0x7137449123ef65cd, 0xb5c0fbcfec4d3b2f, 0xe9b5dba58189dbbc, 0x3956c25bf348b538,
  0x59f111f1b605d019, 0x923f82a4af194f9b, 0xab1c5ed5da6d8118, 0xd807aa98a3030242, 0x12835b0145706fbe,
  0x243185be4ee4b28c, 0x550c7dc3d5ffb4e2, 0x72be5d74f27b896f, 0x80deb1fe3b1696b1, 0x9bdc06a725c71235,
  0xc19bf174cf692694, 0xe49b69c19ef14ad2, 0xefbe4786384f25e3, 0x0fc19dc68b8cd5b5, 0x240ca1cc77ac9c65,
  0x2de92c6f592b0275, 0x4a7484aa6ea6e483, 0x5cb0a9dcbd41fbd4, 0x76f988da831153b5, 0x983e5152ee66dfab,
  0xa831c66d2db43210, 0xb00327c898fb213f, 0xbf597fc7beef0ee4, 0xc6e00bf33da88fc2, 0xd5a79147930aa725,
  0x06ca6351e003826f, 0x142929670a0e6e70, 0x27b70a8546d22ffc, 0x2e1b21385c26c926, 0x4d2c6dfc5ac42aed,
  0x53380d139d95b3df, 0x650a73548baf63de, 0x766a0abb3c77b2a8, 0x81c2c92e47edaee6, 0x92722c851482353b,
  0xa2bfe8a14cf10364, 0xa81a664bbc423001, 0xc24b8b70d0f89791, 0xc76c51a30654be30, 0xd192e819d6ef5218,
  0xd69906245565a910, 0xf40e35855771202a, 0x106aa07032bbd1b8, 0x19a4c116b8d2d0c8, 0x1e376c085141ab53,
  0x2748774cdf8eeb99, 0x34b0bcb5e19b48a8, 0x391c0cb3c5c95a63, 0x4ed8aa4ae3418acb, 0x5b9cca4f7763e373,
  0x682e6ff3d6b2b8a3, 0x748f82ee5defb2fc, 0x78a5636f43172f60, 0x84c87814a1f0ab72, 0x8cc702081a6439ec,
  0x90befffa23631e28, 0xa4506cebde82bde9, 0xbef9a3f7b2c67915, 0xc67178f2e372532b, 0xca273eceea26619c,
  0xd186b8c721c0c207, 0xeada7dd6cde0eb1e, 0xf57d4f7fee6ed178, 0x06f067aa72176fba, 0x0a637dc5a2c898a6,
  0x113f9804bef90dae, 0x1b710b35131c471b, 0x28db77f523047d84, 0x32caab7b40c72493, 0x3c9ebe0a15c9bebc,
  0x431d67c49c100d4c, 0x4cc5d4becb3e42b6, 0x597f299cfc657e2a, 0x5fcb6fab3ad6faec, 0x6c44198c4a475817]

@[inline] def rotr (x : UInt64) (n : UInt64) : UInt64 := (x >>> n) ||| (x <<< (64 - n))

def pad (msg : ByteArray) : ByteArray := Id.run do
  let len := msg.size
  let mut b := msg.push 0x80
  while b.size % 128 != 112 do
    b := b.push 0
  -- 128-bit length in bits, big endian (the high 64 bits are zero for every message that fits in memory)
  for _ in [0:8] do
    b := b.push 0
  let bits : UInt64 := (UInt64.ofNat len) * 8
  for i in [0:8] do
    b := b.push (bits >>> (UInt64.ofNat (56 - 8*i))).toUInt8
  return b

def compress (h : Array UInt64) (blk : ByteArray) (off : Nat) : Array UInt64 := Id.run do
  let mut w : Array UInt64 := Array.mkEmpty 80
  for i in [0:16] do
    let j := off + 8*i
    let mut x : UInt64 := 0
    for k in [0:8] do
      x := (x <<< 8) ||| blk[j+k]!.toUInt64
    w := w.push x
  for i in [16:80] do
    let w15 := w[i-15]!
    let w2 := w[i-2]!
    let s0 := rotr w15 1 ^^^ rotr w15 8 ^^^ (w15 >>> 7)
    let s1 := rotr w2 19 ^^^ rotr w2 61 ^^^ (w2 >>> 6)
    w := w.push (w[i-16]! + s0 + w[i-7]! + s1)
  let mut a := h[0]!; let mut b := h[1]!; let mut c := h[2]!; let mut d := h[3]!
  let mut e := h[4]!; let mut f := h[5]!; let mut g := h[6]!; let mut hh := h[7]!
  for i in [0:80] do
    let S1 := rotr e 14 ^^^ rotr e 18 ^^^ rotr e 41
    let ch := (e &&& f) ^^^ ((~~~ e) &&& g)
    let t1 := hh + S1 + ch + K[i]! + w[i]!
    let S0 := rotr a 28 ^^^ rotr a 34 ^^^ rotr a 39
    let mj := (a &&& b) ^^^ (a &&& c) ^^^ (b &&& c)
    let t2 := S0 + mj
    hh := g; g := f; f := e; e := d + t1; d := c; c := b; b := a; a := t1 + t2
  return #[h[0]! + a, h[1]! + b, h[2]! + c, h[3]! + d, h[4]! + e, h[5]! + f, h[6]! + g, h[7]! + hh]

def sha512BA (msg : ByteArray) : ByteArray := Id.run do
  let p := pad msg
  let mut h : Array UInt64 := #[0x6a09e667f3bcc908, 0xbb67ae8584caa73b, 0x3c6ef372fe94f82b, 0xa54ff53a5f1d36f1,
    0x510e527fade682d1, 0x9b05688c2b3e6c1f, 0x1f83d9abfb41bd6b, 0x5be0cd19137e2179]
  for k in [0:p.size/128] do
    h := compress h p (128*k)
  let mut out := ByteArray.empty
  for x in h do
    for i in [0:8] do
      out := out.push (x >>> (UInt64.ofNat (56 - 8*i))).toUInt8
  return out

/-- SHA-512 on byte lists. -/
def sha512 (msg : List UInt8) : List UInt8 := (sha512BA ⟨msg.toArray⟩).toList

end AcraModel.Sha512
