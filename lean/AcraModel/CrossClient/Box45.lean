import AcraModel.CrossClient.BoxLaws
/-
`box45`: the transparent box with key containers of 45 bytes and wrapped keys of 84 bytes, so that the
fixed-size AcraStruct layout can be exercised. Secure Cell is Box's; the wrap is "recipient's public
key ‖ 32-byte message ‖ 7 bytes of the nonce". It satisfies `SealLaws`, `SealCommit` and `MsgCommit`;
it exists only for the non-vacuity examples of C02 (the hypotheses of the cross-client theorems are
jointly satisfiable by an instance in which AcraStructs can actually be created and revealed).
-/
namespace AcraModel.CrossClient
open AcraModel

namespace B45
def validPriv (a : Bytes) : Bool := a.length == 45 && a.head? == some 0
def pubOf (a : Bytes) : Bytes := if a.head? = some 0 then 1 :: a.tail else []
def privOfSeed (d : Bytes) : Bytes := 0 :: (d.take 32 ++ List.replicate (44 - (d.take 32).length) 0)
def wrap (a p m n : Bytes) : Option Bytes :=
  if validPriv a = true ∧ p.length = 45 ∧ m.length = 32 ∧ n.length = nonceLen then some (p ++ m ++ n.take 7) else none
def unwrap (b _q ct : Bytes) : Option Bytes :=
  if validPriv b = true ∧ ct.length = 84 ∧ ct.take 45 = pubOf b then some ((ct.drop 45).take 32) else none
end B45

def box45 : CryptoOps :=
  { boxOps with
    wrap := B45.wrap, unwrap := B45.unwrap, pubOf := B45.pubOf, validPriv := B45.validPriv, privOfSeed := B45.privOfSeed }

theorem box45_sealLaws : SealLaws box45 where
  dec_enc := Box.sealLaws.dec_enc
  enc_of_dec := Box.sealLaws.enc_of_dec
  enc_none := Box.sealLaws.enc_none

theorem box45_sealCommit : SealCommit box45 where
  enc_inj := Box.sealCommit.enc_inj

theorem B45.pubOf_inj {a b : Bytes} (ha : B45.validPriv a = true) (hb : B45.validPriv b = true)
    (h : B45.pubOf a = B45.pubOf b) : a = b := by
  simp only [B45.validPriv, Bool.and_eq_true, beq_iff_eq] at ha hb
  cases a with
  | nil => simp at ha
  | cons x xs =>
    cases b with
    | nil => simp at hb
    | cons y ys =>
      have hx : x = 0 := by simpa using ha.2
      have hy : y = 0 := by simpa using hb.2
      subst hx hy
      simpa [B45.pubOf] using h

theorem box45_msgCommit : MsgCommit box45 where
  unwrap_inj := by
    intro a b p ct m m' ha hb
    simp only [box45, B45.unwrap] at ha hb
    split at ha
    · next hca =>
      split at hb
      · next hcb => exact B45.pubOf_inj hca.1 hcb.1 (hca.2.2.symm.trans hcb.2.2)
      · cases hb
    · cases ha

end AcraModel.CrossClient
