import AcraModel.CrossClient.Tls
import AcraModel.CrossClient.TlsIdentity
/-
C02, part 6: what AcraTranslator's gRPC server registers.

`cmd/acra-translator/grpc_api/factory.go` `NewServer`: builds the plain gRPC service
(`NewTranslatorService`), replaces it by `NewTLSDecryptServiceWrapper(plain, data.TLSClientIDExtractor)` when
`data.UseConnectionClientID` is set, and hands the result to the six `Register<Service>Server` calls. A
request for an RPC reaches the implementation that was registered for the service the RPC belongs to
(`api_grpc.pb.go`). `Generated.TlsIdentity.serverRegistrations` lists, for every registration, which variable
it passes and what that variable holds at that point (`"tls"`: the wrapper when the flag is set; `"plain"`:
the bare service in both cases; anything else: unknown); `serviceRpcs` lists the RPCs of every service.
The model interprets the two tables: an RPC of a service registered with anything but `"tls"` is served by
the bare service, i.e. with the client id named in the request.
-/
namespace AcraModel.CrossClient
open AcraModel Generated

/-- one `Register<Service>Server(grpcServer, x)` call of `NewServer` -/
structure Registration where
  service : String
  arg : String
  holds : String

def registrations : List Registration := TlsIdentity.serverRegistrations.map fun t => ⟨t.1, t.2.1, t.2.2⟩

def rpcsOf (service : String) : List String :=
  match TlsIdentity.serviceRpcs.find? (·.1 == service) with
  | some s => s.2
  | none => []

/-- the registration that serves an RPC (gRPC dispatches on `/<package>.<Service>/<Method>`) -/
def regOf (rpc : String) : Option Registration := registrations.find? fun r => (rpcsOf r.service).contains rpc

/-- an RPC as served by what was registered: the TLS wrapper's method when the registration holds the
wrapper and the server was built with `UseConnectionClientID`, the bare service otherwise -/
def serverMethod {R : Type} (useConn : Bool) (reg : Registration) (row : RpcRow) (svc : Request → R) (onErr : R)
    (conn : ConnId) (req : Request) : R :=
  if reg.holds = "tls" ∧ useConn = true then wrapperMethod row svc onErr conn req else svc req

/-- a request for `rpc` arriving at the server `NewServer` returns; an RPC no registration serves is answered
with an error (gRPC `Unimplemented`) -/
def serverCall {R : Type} (useConn : Bool) (rpc : String) (svc : Request → R) (onErr : R) (conn : ConnId) (req : Request) : R :=
  match regOf rpc, rpcTable.find? (·.name == rpc) with
  | some reg, some row => serverMethod useConn reg row svc onErr conn req
  | _, _ => onErr

theorem regOf_mem {rpc : String} {reg : Registration} (h : regOf rpc = some reg) : reg ∈ registrations :=
  List.mem_of_find?_eq_some h

theorem serverCall_overriding {R : Type}
    (hreg : ∀ r ∈ registrations, r.holds = "tls")
    (hrow : ∀ r ∈ rpcTable, r.defined = false ∨ r.overrides = true)
    (rpc : String) (svc : Request → R) (e : R) (conn : ConnId) (p x y : Bytes) :
    serverCall true rpc svc e conn ⟨x, p⟩ = serverCall true rpc svc e conn ⟨y, p⟩ := by
  unfold serverCall
  cases hr : regOf rpc with
  | none => rfl
  | some reg =>
    cases hw : rpcTable.find? (·.name == rpc) with
    | none => rfl
    | some row =>
      simp only []
      unfold serverMethod
      rw [if_pos ⟨hreg reg (regOf_mem hr), rfl⟩, if_pos ⟨hreg reg (regOf_mem hr), rfl⟩]
      exact wrapperMethod_overriding row (hrow row (List.mem_of_find?_eq_some hw)) svc e conn p x y

/-- with every registration wrapped, the server is the wrapper: whatever reaches the service carries the
connection's id -/
theorem serverCall_eq_wrapper {R : Type} (hreg : ∀ r ∈ registrations, r.holds = "tls")
    {rpc : String} {reg : Registration} {row : RpcRow} (hr : regOf rpc = some reg) (hw : rpcTable.find? (·.name == rpc) = some row)
    (svc : Request → R) (e : R) (conn : ConnId) (req : Request) :
    serverCall true rpc svc e conn req = wrapperMethod row svc e conn req := by
  unfold serverCall
  rw [hr, hw]
  simp only []
  unfold serverMethod
  rw [if_pos ⟨hreg reg (regOf_mem hr), rfl⟩]

end AcraModel.CrossClient
