import AcraModel.CrossClient.Context
import AcraModel.CrossClient.Sha512
import AcraModel.Generated.TlsIdentity
/-
C02, part 5: which identity a TLS connection gets.

`network/tls_authentication.go`: AcraServer and AcraTranslator create ONE `tlsClientIDExtractor` at start-up
(`idExtractor` chosen by `--tls_identifier_extractor_type`, `idConverter = HexIdentifierConverter{sha512.New}`)
and ask it for the client id of the peer certificate on every new TLS connection (gRPC:
`TLSConnectionWrapper.ServerHandshake`; HTTP / AcraServer: `GetClientIDFromTLSConn`):

  ExtractClientID(certificate):
    identifier, err := extractor.idExtractor.GetCertificateIdentifier(certificate)   -- err → return nil, err
    clientID, err  := extractor.idConverter.Convert(identifier)                      -- err → return nil, err
    return clientID, nil

  DistinguishedNameExtractor: nil certificate → error; id := []byte(certificate.Subject.String()); empty → error
  SerialNumberExtractor:      nil certificate → error; nil SerialNumber → error; certificate.SerialNumber.Bytes()
  HexIdentifierConverter.Convert(identifier) = lower-case hex of newHash()(identifier)          (128 characters)

`certificate.Subject.String()` is `pkix.Name.String()` of the Go standard library: the standard attributes in
the order SERIALNUMBER, CN, OU, O, POSTALCODE, STREET, L, ST, C (reverse of `ToRDNSequence`), RDNs joined by
`,`, the values of a multi-valued attribute joined by `+`, each printed as `<short name>=<escaped value>`.
The model covers names made of these standard attributes with string values (what `x509.CreateCertificate`
produces from a `pkix.Name` without `ExtraNames`; non-standard attributes are outside the model).
`big.Int.Bytes()` is the minimal big-endian encoding of the absolute value (zero → empty).

The tables `rdnPrinted` (field order and `<short name>=` bytes) and the shape facts about the extractor come
from `Generated.TlsIdentity`, regenerated from /repo and from GOROOT on every run.
-/
namespace AcraModel.CrossClient
open AcraModel Generated

/-! ### certificates, as far as the identity derivation can see them -/

/-- `pkix.Name` restricted to its standard attributes; values are UTF-8 byte strings -/
structure Name where
  country : List Bytes
  province : List Bytes
  locality : List Bytes
  street : List Bytes
  postalCode : List Bytes
  org : List Bytes
  orgUnit : List Bytes
  commonName : Bytes
  serialNumber : Bytes
deriving DecidableEq, Repr

/-- the two fields of an `x509.Certificate` the identifier extractors read (`fact_identifier_reads`):
`Subject` and `SerialNumber` (non-negative: Go's parser rejects negative serial numbers) -/
structure Cert where
  subject : Name
  serial : Nat
deriving DecidableEq, Repr

/-! ### `pkix.RDNSequence.String` -/

/-- does the byte `c` at byte index `k` of a value of `len` bytes get a backslash
(`Generated.TlsIdentity.rdnEscapeCases`: `, + " \ < > ;` always, a space at either end, `#` in front) -/
def escapes (len k : Nat) (c : UInt8) : Bool :=
  c == 44 || c == 43 || c == 34 || c == 92 || c == 60 || c == 62 || c == 59 ||
  (c == 32 && (k == 0 || k + 1 == len)) || (c == 35 && k == 0)

def escapeFrom (len : Nat) : Nat → Bytes → Bytes
  | _, [] => []
  | k, c :: cs => (if escapes len k c then [92, c] else [c]) ++ escapeFrom len (k + 1) cs

/-- the escaped form of one attribute value -/
def escapeValue (v : Bytes) : Bytes := escapeFrom v.length 0 v

/-- `sep.join parts` -/
def joinSep (sep : Bytes) : List Bytes → Bytes
  | [] => []
  | [x] => x
  | x :: y :: r => x ++ sep ++ joinSep sep (y :: r)

/-- the values `ToRDNSequence` takes for a field of `Generated.TlsIdentity.rdnPrinted`; the single-valued
fields only when non-empty (`rdnSingleNonEmpty`) -/
def fieldValues (n : Name) (field : String) : List Bytes :=
  if field = "Country" then n.country
  else if field = "Province" then n.province
  else if field = "Locality" then n.locality
  else if field = "StreetAddress" then n.street
  else if field = "PostalCode" then n.postalCode
  else if field = "Organization" then n.org
  else if field = "OrganizationalUnit" then n.orgUnit
  else if field = "CommonName" then (if n.commonName.isEmpty then [] else [n.commonName])
  else if field = "SerialNumber" then (if n.serialNumber.isEmpty then [] else [n.serialNumber])
  else []

/-- one RDN: `TAG=v1+TAG=v2…` (`appendRDNs` makes one multi-valued RDN per field; none for an empty list) -/
def rdnString (tag : Bytes) (vals : List Bytes) : Option Bytes :=
  if vals.isEmpty then none else some (joinSep [43] (vals.map fun v => tag ++ escapeValue v))

/-- `pkix.Name.String()` over a table of (field, tag) in print order -/
def dnStringOf (table : List (String × List Nat)) (n : Name) : Bytes :=
  joinSep [44] (table.filterMap fun ft => rdnString (bytesOfNats ft.2) (fieldValues n ft.1))

/-- `certificate.Subject.String()` -/
def dnString (n : Name) : Bytes := dnStringOf TlsIdentity.rdnPrinted n

/-! ### `big.Int.Bytes` -/

def natLEAux : Nat → Nat → Bytes
  | 0, _ => []
  | f + 1, n => if n = 0 then [] else UInt8.ofNat (n % 256) :: natLEAux f (n / 256)

/-- minimal big-endian bytes of a natural number (zero → empty) -/
def natBE (n : Nat) : Bytes := (natLEAux n n).reverse

theorem leVal_natLEAux (f n : Nat) (h : n ≤ f) : leVal (natLEAux f n) = n := by
  induction f generalizing n with
  | zero =>
    have : n = 0 := by omega
    subst this; rfl
  | succ f ih =>
    unfold natLEAux
    by_cases h0 : n = 0
    · subst h0; rfl
    · rw [if_neg h0]
      simp only [leVal]
      have hb : (UInt8.ofNat (n % 256)).toNat = n % 256 := by simp [UInt8.toNat_ofNat']
      rw [hb, ih (n / 256) (by omega)]
      omega

theorem natBE_injective {n m : Nat} (h : natBE n = natBE m) : n = m := by
  unfold natBE at h
  have h' : natLEAux n n = natLEAux m m := by
    have := congrArg List.reverse h
    simpa using this
  have := congrArg leVal h'
  rwa [leVal_natLEAux n n (Nat.le_refl _), leVal_natLEAux m m (Nat.le_refl _)] at this

/-! ### `hex.Encode` -/

def hexNat (d : Nat) : Nat := if d < 10 then 48 + d else 87 + d

/-- lower-case hexadecimal text of a byte string (`encoding/hex.Encode`) -/
def hexLower : Bytes → Bytes
  | [] => []
  | x :: xs => UInt8.ofNat (hexNat (x.toNat / 16)) :: UInt8.ofNat (hexNat (x.toNat % 16)) :: hexLower xs

theorem hexNat_inj {d e : Nat} (hd : d < 16) (he : e < 16) (h : UInt8.ofNat (hexNat d) = UInt8.ofNat (hexNat e)) : d = e := by
  have := congrArg UInt8.toNat h
  simp only [UInt8.toNat_ofNat'] at this
  unfold hexNat at this
  split at this <;> split at this <;> omega

theorem hexLower_injective : ∀ {a b : Bytes}, hexLower a = hexLower b → a = b
  | [], [], _ => rfl
  | [], _ :: _, h => by simp [hexLower] at h
  | _ :: _, [], h => by simp [hexLower] at h
  | x :: xs, y :: ys, h => by
    simp only [hexLower, List.cons.injEq] at h
    obtain ⟨h1, h2, h3⟩ := h
    have hx := x.toNat_lt
    have hy := y.toNat_lt
    have e1 := hexNat_inj (by omega) (by omega) h1
    have e2 := hexNat_inj (by omega) (by omega) h2
    have : x.toNat = y.toNat := by omega
    rw [UInt8.toNat_inj.mp this, hexLower_injective h3]

theorem hexLower_length (a : Bytes) : (hexLower a).length = 2 * a.length := by
  induction a with
  | nil => rfl
  | cons x xs ih => simp only [hexLower, List.length_cons, ih]; omega

/-! ### the identifier extractors, the converter, the extractor -/

/-- `--tls_identifier_extractor_type` (`Generated.TlsIdentity.extractorByType`) -/
inductive IdMode where
  | distinguishedName
  | serialNumber
deriving DecidableEq, Repr

/-- `CertificateIdentifierExtractor.GetCertificateIdentifier`; `none` is a nil certificate -/
def certIdentifier : IdMode → Option Cert → Out Bytes
  | _, none => .err
  | .distinguishedName, some c =>
    let id := dnString c.subject
    if id.isEmpty then .err else .ok id
  | .serialNumber, some c => .ok (natBE c.serial)

/-- `HexIdentifierConverter.Convert` with hash function `h` -/
def convert (h : Bytes → Bytes) (identifier : Bytes) : Bytes := hexLower (h identifier)

/-- the long-lived extractor object: its two components (`Generated.TlsIdentity.extractorFields`); nothing else
can be remembered between two calls -/
structure Extractor where
  mode : IdMode
  hash : Bytes → Bytes

/-- `tlsClientIDExtractor.ExtractClientID` as a pure function of the certificate -/
def extractClientID (h : Bytes → Bytes) (m : IdMode) (c : Option Cert) : Out Bytes :=
  match certIdentifier m c with
  | .ok identifier => .ok (convert h identifier)
  | .err => .err
  | .panic => .panic

/-- one call on the extractor object: the object after the call and the result. The method has a pointer
receiver, so it could change the object; `extractReceiverUses` shows it only calls its two components, whose
types have no fields (`identifierExtractorShape`) or only the hash constructor (`converterFields`) and value
receivers – the object comes back as it was. -/
def Extractor.extract (e : Extractor) (c : Option Cert) : Extractor × Out Bytes :=
  (e, extractClientID e.hash e.mode c)

/-- a sequence of connections handled by one extractor: the results in order -/
def Extractor.run (e : Extractor) : List (Option Cert) → List (Out Bytes)
  | [] => []
  | c :: cs => let (e', r) := e.extract c; r :: e'.run cs

theorem Extractor.run_eq_map (e : Extractor) (cs : List (Option Cert)) :
    e.run cs = cs.map (extractClientID e.hash e.mode) := by
  induction cs with
  | nil => rfl
  | cons c cs ih => simp only [Extractor.run, Extractor.extract, List.map_cons, ih]

/-- no collision of `h` among the listed identifiers (an explicit, finite hypothesis) -/
def NoColl (h : Bytes → Bytes) (ids : List Bytes) : Prop :=
  ∀ x ∈ ids, ∀ y ∈ ids, h x = h y → x = y

theorem extractClientID_ok {h : Bytes → Bytes} {m : IdMode} {c : Option Cert} {id : Bytes}
    (hx : extractClientID h m c = .ok id) : ∃ ident, certIdentifier m c = .ok ident ∧ id = convert h ident := by
  unfold extractClientID at hx
  cases hc : certIdentifier m c with
  | ok ident => rw [hc] at hx; cases hx; exact ⟨ident, rfl, rfl⟩
  | err => rw [hc] at hx; cases hx
  | panic => rw [hc] at hx; cases hx

theorem extractClientID_never_panics (h : Bytes → Bytes) (m : IdMode) (c : Option Cert) : extractClientID h m c ≠ .panic := by
  unfold extractClientID certIdentifier
  cases c with
  | none => cases m <;> simp
  | some c =>
    cases m
    · simp only []; split <;> simp_all
      all_goals (split at * <;> simp_all)
    · simp

/-- the client id is 2·|h(identifier)| characters of `0-9a-f` – for SHA-512 the 128 characters that pass
`keystore.ValidateID` -/
theorem convert_length (h : Bytes → Bytes) (identifier : Bytes) : (convert h identifier).length = 2 * (h identifier).length :=
  hexLower_length _

/-- the executable instance: SHA-512 -/
def sha512Extractor (m : IdMode) : Extractor := ⟨m, Sha512.sha512⟩

end AcraModel.CrossClient
