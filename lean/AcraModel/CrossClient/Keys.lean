import AcraModel.CrossClient.Reveal
/-
C02, part 5: different clients get different keys, for arbitrary key histories.

Both key store formats generate every key from fresh `crypto/rand` output (`keys.New(TypeEC)`,
`keystore.GenerateSymmetricKey`) and file it under a name derived from the client id; nothing is ever
copied from one identity to another. A history of generations / rotations is therefore a list of
`(client id, key)` entries, newest first; the key view of a client is the sub-list with its id.
The assumption about the random generator – it does not produce the same key twice – is the
hypothesis `Fresh`.
-/
namespace AcraModel.CrossClient
open AcraModel AcraModel.Envelope

/-- one generated key: who it was generated for and the key -/
structure KeyEntry where
  owner : Bytes
  key : Bytes
deriving DecidableEq, Repr

/-- the generation history of one key class, newest first -/
abbrev History := List KeyEntry

/-- keys of `id`, newest first (what `GetClientIDSymmetricKeys` / `GetServerDecryptionPrivateKeys` return) -/
def keysOf (h : History) (id : Bytes) : List Bytes := (h.filter (·.owner == id)).map (·.key)

/-- the random generator never repeated itself -/
def Fresh (h : History) : Prop := (h.map (·.key)).Nodup

theorem mem_keysOf {h : History} {id k : Bytes} : k ∈ keysOf h id ↔ ⟨id, k⟩ ∈ h := by
  simp only [keysOf, List.mem_map, List.mem_filter, beq_iff_eq]
  constructor
  · rintro ⟨e, ⟨he, ho⟩, hk⟩
    cases e
    simp only at ho hk
    subst ho hk
    exact he
  · intro he
    exact ⟨⟨id, k⟩, ⟨he, rfl⟩, rfl⟩

/-- in a fresh history a key belongs to one owner only -/
theorem owner_unique : ∀ {h : History}, Fresh h → ∀ {a b k : Bytes}, ⟨a, k⟩ ∈ h → ⟨b, k⟩ ∈ h → a = b
  | [], _, _, _, _, ha, _ => by simp at ha
  | e :: es, hf, a, b, k, ha, hb => by
    simp only [Fresh, List.map_cons, List.nodup_cons] at hf
    obtain ⟨hnot, hrest⟩ := hf
    simp only [List.mem_cons] at ha hb
    rcases ha with ha | ha <;> rcases hb with hb | hb
    · have := ha.trans hb.symm
      cases this
      rfl
    · exfalso
      apply hnot
      subst ha
      exact List.mem_map.mpr ⟨⟨b, k⟩, hb, rfl⟩
    · exfalso
      apply hnot
      subst hb
      exact List.mem_map.mpr ⟨⟨a, k⟩, ha, rfl⟩
    · exact owner_unique (h := es) hrest ha hb

/-- different clients have no key in common, whatever the history of generations and rotations -/
theorem keysOf_disjoint {h : History} (hf : Fresh h) {a b : Bytes} (hab : a ≠ b) :
    Disjoint (keysOf h a) (keysOf h b) := by
  intro k hka hkb
  exact hab (owner_unique hf (mem_keysOf.mp hka) (mem_keysOf.mp hkb))

/-- the key store both histories induce -/
def storeOf (c : CryptoOps) (pairs syms : History) : Store := fun id =>
  { pub := ((keysOf pairs id).head?).map c.pubOf
    privs := some (keysOf pairs id)
    sym := (keysOf syms id).head?
    syms := some (keysOf syms id) }

theorem storeOf_separate {c : CryptoOps} (hm : MsgCommit c) {pairs syms : History}
    (hp : Fresh pairs) (hs : Fresh syms) {a b : Bytes} (hab : a ≠ b) :
    KeysSeparate c (storeOf c pairs syms a) (storeOf c pairs syms b) :=
  keysSeparate_of_disjoint hm (by simpa [storeOf, optList] using keysOf_disjoint hs hab)
    (by simpa [storeOf, optList] using keysOf_disjoint hp hab)

end AcraModel.CrossClient
