import AcraModel.Envelope.Detector
/-
C02, part 1: revealing under another identity.

Acra looks keys up by the client id carried in the access context (`crypto/acrablock.go`
`AcraBlockHandler.Decrypt`: `GetClientIDSymmetricKeys(accessContext.GetClientID())`, `crypto/acrastruct.go`
`AcraStructHandler.Decrypt`: `GetServerDecryptionPrivateKeys(accessContext.GetClientID())`). The model of
the key store is therefore a function from client ids to key views, and "running under identity `b`"
is running the C01 models with the key view of `b`.

The lemmas here are deliberately *layout free*: every parsing step of the decoders is independent of
the keys, so a run under `b` walks through exactly the same bytes as a run under `a`; the two differ
only in the key loops. If `a`'s run succeeds, `b`'s run can neither panic nor succeed unless one of
`b`'s keys opens the very same wrapped key – which key separation excludes.
-/
namespace AcraModel.CrossClient
open AcraModel AcraModel.Envelope

/-- the key store as the decoders see it: client id ↦ what the store hands out for it -/
abbrev Store := Bytes → KeyView

/-- `RegistryHandler.Process` with the access context of `id` -/
def revealAs (c : CryptoOps) (ks : Store) (id data : Bytes) : Out Bytes := reveal c (ks id) data

/-- `DecryptWithHandler` (AcraTranslator `Decrypt` / `DecryptSym`) with the access context of `id` -/
def decryptAs (c : CryptoOps) (ks : Store) (id : Bytes) (k : Kind) (data : Bytes) : Out Bytes :=
  decryptWithHandler c (ks id) k data

/-- the transparent column path (`EnvelopeDetector.OnColumn` with the decrypt callback) for `id` -/
def columnAs (c : CryptoOps) (ks : Store) (id data : Bytes) : ScanOut :=
  onColumn [decryptCallback c (ks id)] data

/-- … behind the backward-compatibility wrapper -/
def columnCompatAs (c : CryptoOps) (ks : Store) (id data : Bytes) : ScanOut :=
  onColumnCompat [decryptCallback c (ks id)] data

/-- Commitment of the asymmetric wrap to the recipient: a wrapped key opens under at most one private
key (for a fixed peer public key). Idealisation in the style of `SealCommit`; satisfied by `Box`
(`Box.msgCommit`), not provable for a hash/DH based instance. -/
structure MsgCommit (c : CryptoOps) : Prop where
  unwrap_inj : ∀ a b p ct m m', c.unwrap a p ct = some m → c.unwrap b p ct = some m' → a = b

/-- key lists of two identities with nothing in common -/
def Disjoint (xs ys : List Bytes) : Prop := ∀ k, k ∈ xs → k ∈ ys → False

def optList (o : Option (List Bytes)) : List Bytes := o.getD []

/-- Key separation between two key views, in the form the decoders need it:
* no symmetric storage key of one is a symmetric storage key of the other;
* whatever a private key of the first unwraps, no private key of the second unwraps
  ("B's private keys do not open A's wrapped keys"). -/
structure KeysSeparate (c : CryptoOps) (a b : KeyView) : Prop where
  syms : Disjoint (optList a.syms) (optList b.syms)
  privs : ∀ ka, ka ∈ optList a.privs → ∀ kb, kb ∈ optList b.privs → ∀ p ct m,
    c.unwrap ka p ct = some m → c.unwrap kb p ct = none

/-- Under `MsgCommit`, disjoint private key lists are enough for the asymmetric half. -/
theorem keysSeparate_of_disjoint {c : CryptoOps} (hc : MsgCommit c) {a b : KeyView}
    (hs : Disjoint (optList a.syms) (optList b.syms)) (hp : Disjoint (optList a.privs) (optList b.privs)) :
    KeysSeparate c a b where
  syms := hs
  privs := by
    intro ka hka kb hkb p ct m h
    cases h' : c.unwrap kb p ct with
    | none => rfl
    | some m' =>
      have := hc.unwrap_inj ka kb p ct m m' h h'
      subst this
      exact (hp ka hka hkb).elim

/-! ### the symmetric envelope -/

/-- a successful key loop names a key of the list that unseals the wrapped data key -/
theorem findDek_some {c : CryptoOps} {kb : Bool} {ctx encKey kid : Bytes} {dek : Bytes} :
    ∀ {keys : List Bytes}, findDek c kb ctx encKey kid keys = .ok (some dek) →
      kb = true ∧ ∃ k, k ∈ keys ∧ c.dec k ctx encKey = some dek
  | [], h => by simp [findDek] at h
  | k :: ks, h => by
    unfold findDek at h
    split at h
    · cases kb with
      | false => simp at h
      | true =>
        simp only [Bool.not_true, Bool.false_eq_true, if_false] at h
        cases hd : c.dec k ctx encKey with
        | some d =>
          simp only [hd] at h
          cases h
          exact ⟨rfl, k, List.mem_cons_self, hd⟩
        | none =>
          simp only [hd] at h
          obtain ⟨h1, k', hk', hd'⟩ := findDek_some h
          exact ⟨h1, k', List.mem_cons_of_mem _ hk', hd'⟩
    · obtain ⟨h1, k', hk', hd'⟩ := findDek_some h
      exact ⟨h1, k', List.mem_cons_of_mem _ hk', hd'⟩

/-- with a registered key backend, a key list none of whose members unseals the wrapped key finds nothing -/
theorem findDek_none {c : CryptoOps} {ctx encKey kid : Bytes} :
    ∀ {keys : List Bytes}, (∀ k, k ∈ keys → c.dec k ctx encKey = none) →
      findDek c true ctx encKey kid keys = .ok none
  | [], _ => by simp [findDek]
  | k :: ks, h => by
    unfold findDek
    have hk := h k List.mem_cons_self
    have ih := findDek_none (c := c) (ctx := ctx) (encKey := encKey) (kid := kid) (keys := ks)
      (fun k' hk' => h k' (List.mem_cons_of_mem _ hk'))
    split
    · simp [hk, ih]
    · exact ih

/-- two keys that unseal the same ciphertext under the same context are the same key -/
theorem dec_same_key {c : CryptoOps} (hl : SealLaws c) (hc : SealCommit c) {k k' x ct m m' : Bytes}
    (h : c.dec k x ct = some m) (h' : c.dec k' x ct = some m') : k = k' := by
  obtain ⟨n, _, hn⟩ := hl.enc_of_dec k x ct m h
  obtain ⟨n', _, hn'⟩ := hl.enc_of_dec k' x ct m' h'
  exact (hc.enc_inj k x m n k' x m' n' ct hn hn').1

/-- `AcraBlock.Decrypt` under a second key list: if the first list opens the block and the lists have
no key in common, the second run is an error (not a panic, not a value) – for ANY block bytes. -/
theorem decryptBlock_cross {c : CryptoOps} (hl : SealLaws c) (hc : SealCommit c) {ka kb : List Bytes}
    {ctx b m : Bytes} (ha : decryptBlock c ka ctx b = .ok m) (hd : Disjoint ka kb) :
    decryptBlock c kb ctx b = .err := by
  unfold decryptBlock at ha ⊢
  split at ha
  · cases ha
  · next hlen =>
    rw [if_neg hlen]
    cases hkl : goSlice b Generated.Layout.blockDataEncryptionKeyLengthPosition
        (Generated.Layout.blockDataEncryptionKeyLengthPosition + Generated.Layout.blockDataEncryptionKeyLengthSize) with
    | err => simp [hkl] at ha
    | panic => simp [hkl] at ha
    | ok kl =>
      simp only [hkl, Out.bind_ok] at ha ⊢
      split at ha
      · cases ha
      · next hlen2 =>
        rw [if_neg hlen2]
        cases hek : goSlice b blockKeyPos (blockKeyPos + leVal kl) with
        | err => simp [hek] at ha
        | panic => simp [hek] at ha
        | ok encKey =>
          simp only [hek, Out.bind_ok] at ha ⊢
          cases hed : goSliceFrom b (blockMin + leVal kl) with
          | err => simp [hed] at ha
          | panic => simp [hed] at ha
          | ok encData =>
            simp only [hed, Out.bind_ok] at ha ⊢
            cases hkt : goIndex b Generated.Layout.blockKeyEncryptionKeyTypePosition with
            | err => simp [hkt] at ha
            | panic => simp [hkt] at ha
            | ok kt =>
              simp only [hkt, Out.bind_ok] at ha ⊢
              cases hdt : goIndex b Generated.Layout.blockDataEncryptionTypePosition with
              | err => simp [hdt] at ha
              | panic => simp [hdt] at ha
              | ok dt =>
                simp only [hdt, Out.bind_ok] at ha ⊢
                cases hkid : goSlice b Generated.Layout.blockKeyEncryptionKeyIDPosition
                    (Generated.Layout.blockKeyEncryptionKeyIDPosition + Generated.Layout.blockKeyEncryptionKeyIDSize) with
                | err => simp [hkid] at ha
                | panic => simp [hkid] at ha
                | ok kid =>
                  simp only [hkid, Out.bind_ok] at ha ⊢
                  cases hf : findDek c (Generated.Layout.blockKeyBackends.contains kt.toNat) ctx encKey kid ka with
                  | err => simp only [hf, Out.bind_err, reduceCtorEq] at ha
                  | panic => simp only [hf, Out.bind_panic, reduceCtorEq] at ha
                  | ok r =>
                    simp only [hf, Out.bind_ok] at ha
                    cases r with
                    | none => simp only [reduceCtorEq] at ha
                    | some dek =>
                      obtain ⟨hkb, k, hk, hdk⟩ := findDek_some hf
                      have hnone : findDek c (Generated.Layout.blockKeyBackends.contains kt.toNat) ctx encKey kid kb = .ok none := by
                        rw [hkb]
                        apply findDek_none
                        intro k' hk'
                        cases hd' : c.dec k' ctx encKey with
                        | none => rfl
                        | some d' =>
                          have := dec_same_key hl hc hdk hd'
                          subst this
                          exact (hd k hk hk').elim
                      simp only [hnone, Out.bind_ok]

/-! ### the asymmetric envelope -/

/-- what a successful `DecryptAcrastruct` says about the key: it unwrapped the key block of the value;
and the same value under a key that does not unwrap that block is an error -/
theorem decryptStruct_cross {c : CryptoOps} {ka kb ctx data m : Bytes}
    (ha : decryptStruct c ka ctx data = .ok m)
    (hsep : ∀ p ct s, c.unwrap ka p ct = some s → c.unwrap kb p ct = none) :
    decryptStruct c kb ctx data = .err := by
  unfold decryptStruct at ha ⊢
  cases hv : validateStruct data with
  | err => simp [hv] at ha
  | panic => simp [hv] at ha
  | ok u =>
    simp only [hv, Out.bind_ok] at ha ⊢
    cases hin : goSliceFrom data structTagLen with
    | err => simp [hin] at ha
    | panic => simp [hin] at ha
    | ok inner =>
      simp only [hin, Out.bind_ok] at ha ⊢
      cases hpub : goSlice inner 0 structPubLen with
      | err => simp [hpub] at ha
      | panic => simp [hpub] at ha
      | ok pub =>
        simp only [hpub, Out.bind_ok] at ha ⊢
        cases hw : goSlice inner structPubLen structKeyBlockLen with
        | err => simp [hw] at ha
        | panic => simp [hw] at ha
        | ok wrapped =>
          simp only [hw, Out.bind_ok] at ha ⊢
          cases hu : c.unwrap ka pub wrapped with
          | none => simp [hu] at ha
          | some s =>
            rw [hsep pub wrapped s hu]

/-- `DecryptRotatedAcrastruct` under a second list of private keys -/
theorem decryptStructRotated_cross {c : CryptoOps} {ctx data m : Bytes} :
    ∀ {ka kb : List Bytes}, decryptStructRotated c ctx data ka = .ok m →
      (∀ x, x ∈ ka → ∀ y, y ∈ kb → ∀ p ct s, c.unwrap x p ct = some s → c.unwrap y p ct = none) →
      decryptStructRotated c ctx data kb = .err
  | [], _, ha, _ => by simp [decryptStructRotated] at ha
  | x :: xs, kb, ha, hsep => by
    -- find the key of `ka` that worked
    have hex : ∃ k, k ∈ x :: xs ∧ decryptStruct c k ctx data = .ok m := by
      clear hsep
      induction xs generalizing x with
      | nil =>
        unfold decryptStructRotated at ha
        cases h : decryptStruct c x ctx data with
        | ok m' => simp only [h] at ha; cases ha; exact ⟨x, List.mem_cons_self, h⟩
        | err => simp [h, decryptStructRotated] at ha
        | panic => simp [h] at ha
      | cons y ys ih =>
        unfold decryptStructRotated at ha
        cases h : decryptStruct c x ctx data with
        | ok m' => simp only [h] at ha; cases ha; exact ⟨x, List.mem_cons_self, h⟩
        | err =>
          simp only [h] at ha
          obtain ⟨k, hk, hk'⟩ := ih y ha
          exact ⟨k, List.mem_cons_of_mem _ hk, hk'⟩
        | panic => simp [h] at ha
    obtain ⟨k, hk, hkok⟩ := hex
    clear ha
    induction kb with
    | nil => simp [decryptStructRotated]
    | cons y ys ih =>
      unfold decryptStructRotated
      have := decryptStruct_cross (kb := y) hkok (hsep k hk y List.mem_cons_self)
      rw [this]
      exact ih (fun x' hx' y' hy' => hsep x' hx' y' (List.mem_cons_of_mem _ hy'))

/-! ### handlers, registry, translator entry points -/

/-- `ContainerHandler.Decrypt` of either kind under a separated key view -/
theorem decryptKind_cross {c : CryptoOps} (hl : SealLaws c) (hc : SealCommit c) {a b : KeyView}
    (hsep : KeysSeparate c a b) {k : Kind} {internal m : Bytes}
    (ha : decryptKind c a k internal = .ok m) : decryptKind c b k internal = .err := by
  cases k with
  | struct =>
    simp only [decryptKind] at ha ⊢
    cases hv : validateStruct internal with
    | err => simp [hv] at ha
    | panic => simp [hv] at ha
    | ok u =>
      simp only [hv] at ha ⊢
      cases hpa : a.privs with
      | none => simp [hpa] at ha
      | some pa =>
        simp only [hpa] at ha
        cases hpb : b.privs with
        | none => rfl
        | some pb =>
          simp only
          apply decryptStructRotated_cross ha
          intro x hx y hy p ct s hu
          exact hsep.privs x (by simp [optList, hpa, hx]) y (by simp [optList, hpb, hy]) p ct s hu
  | block =>
    simp only [decryptKind] at ha ⊢
    cases he : extractBlock internal with
    | err => simp [he] at ha
    | panic => simp [he] at ha
    | ok r =>
      obtain ⟨n, blk⟩ := r
      simp only [he] at ha ⊢
      split at ha
      · cases ha
      · next hn =>
        rw [if_neg hn]
        cases hsa : a.syms with
        | none => simp [hsa] at ha
        | some sa =>
          simp only [hsa] at ha
          cases hsb : b.syms with
          | none => rfl
          | some sb =>
            simp only
            apply decryptBlock_cross hl hc ha
            intro k hk hk'
            exact hsep.syms k (by simp [optList, hsa, hk]) (by simp [optList, hsb, hk'])

/-- `RegistryHandler.DecryptWithHandler` (AcraTranslator `Decrypt`, `DecryptSym`) -/
theorem decryptWithHandler_cross {c : CryptoOps} (hl : SealLaws c) (hc : SealCommit c) {a b : KeyView}
    (hsep : KeysSeparate c a b) {k : Kind} {data m : Bytes}
    (ha : decryptWithHandler c a k data = .ok m) : decryptWithHandler c b k data = .err := by
  unfold decryptWithHandler at ha ⊢
  cases hd : deserialize data with
  | err => simp [hd] at ha
  | panic => simp [hd] at ha
  | ok r =>
    obtain ⟨internal, id⟩ := r
    simp only [hd, Out.bind_ok] at ha ⊢
    split at ha
    · cases ha
    · next hm =>
      rw [if_neg hm]
      exact decryptKind_cross hl hc hsep ha

/-- `RegistryHandler.Process` (library / registry entry point) -/
theorem process_cross {c : CryptoOps} (hl : SealLaws c) (hc : SealCommit c) {a b : KeyView}
    (hsep : KeysSeparate c a b) {data m : Bytes}
    (ha : process c a data = .ok m) : process c b data = .err := by
  unfold process at ha ⊢
  cases hg : getEnvelopeID data with
  | err => simp [hg] at ha
  | panic => simp [hg] at ha
  | ok r =>
    obtain ⟨id, old⟩ := r
    simp only [hg, Out.bind_ok] at ha ⊢
    cases hk : kindOfId id with
    | none => simp [hk] at ha
    | some k =>
      simp only [hk] at ha ⊢
      exact decryptWithHandler_cross hl hc hsep ha

/-! ### the transparent column path -/

/-- a decrypt callback that can open nothing at a position answers "unchanged" there -/
theorem decryptCallback_same {c : CryptoOps} {kv : KeyView} {container : Bytes}
    (h : ∀ m, process c kv container ≠ .ok m) : decryptCallback c kv container = .same := by
  unfold decryptCallback
  cases hp : process c kv container with
  | ok d => exact absurd hp (h d)
  | err => rfl
  | panic => rfl

/-- `scan` with a single decrypt callback on a buffer in which that reader can open no position:
if it returns at all, it returns the buffer unchanged (and it never reports a callback error) -/
theorem scan_unreadable {c : CryptoOps} {kv : KeyView} :
    ∀ (n : Nat) (buf : Bytes), buf.length ≤ n →
      (∀ i, i ≤ buf.length → ∀ cont adv, extractContainer (buf.drop i) = .ok (adv, cont) → ∀ m, process c kv cont ≠ .ok m) →
      scan [decryptCallback c kv] buf ≠ .fatal ∧
      ∀ out hit, scan [decryptCallback c kv] buf = .ok out hit → out = buf
  | _, [], _, _ => by
    unfold scan
    simp
  | 0, b :: r, hlen, _ => by simp at hlen
  | n + 1, b :: r, hlen, h => by
    have ih := scan_unreadable (c := c) (kv := kv) n r (by simp at hlen; omega)
      (fun i hi cont adv he m => h (i + 1) (by simp; omega) cont adv (by simpa using he) m)
    have hpre : ∀ (hit' : Bool), ((scan [decryptCallback c kv] r).prepend [b] hit') ≠ .fatal ∧
        ∀ out hit, (scan [decryptCallback c kv] r).prepend [b] hit' = .ok out hit → out = b :: r := by
      intro hit'
      cases hs : scan [decryptCallback c kv] r with
      | fatal => exact absurd hs ih.1
      | panic => simp [ScanOut.prepend]
      | ok o hh =>
        have := ih.2 o hh hs
        subst this
        simp [ScanOut.prepend]
    unfold scan
    split
    · exact hpre false
    · split
      · simp
      · exact hpre false
      · next adv cont he =>
        have hsame : decryptCallback c kv cont = .same :=
          decryptCallback_same (h 0 (by simp) cont adv (by simpa using he))
        simp only [runCallbacks, hsame]
        exact hpre true

end AcraModel.CrossClient
