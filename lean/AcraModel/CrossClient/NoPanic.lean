import AcraModel.CrossClient.Reveal
/-
`ExtractSerializedContainer` never panics (key-independent), hence the column scan of a reader whose
callbacks answer "unchanged" everywhere returns the buffer itself. (C03 proves panic-freedom of all
decoders in general; this file has just what the cross-client column theorem needs.)
-/
namespace AcraModel.CrossClient
open AcraModel AcraModel.Envelope Generated

theorem goSlice_ok_of_le {b : Bytes} {lo hi : Nat} (h1 : lo ≤ hi) (h2 : hi ≤ b.length) :
    ∃ r, goSlice b lo hi = .ok r := by
  unfold goSlice
  rw [if_pos ⟨h1, h2⟩]
  exact ⟨_, rfl⟩

theorem goIndex_ok_of_lt {b : Bytes} {i : Nat} (h : i < b.length) : ∃ x, goIndex b i = .ok x := by
  unfold goIndex
  rw [List.getElem?_eq_getElem h]
  exact ⟨_, rfl⟩

theorem validateContainer_ne_panic (d : Bytes) : validateContainer d ≠ .panic := by
  unfold validateContainer
  have hmin : containerMin = 12 := by decide
  have htag : containerTag.length = 3 := by decide
  have hidx : Layout.containerTagBeginSize + Layout.containerLengthSize = 11 := by decide
  split
  · simp
  · next h =>
    obtain ⟨t, ht⟩ := goSlice_ok_of_le (b := d) (lo := 0) (hi := containerTag.length) (by omega) (by omega)
    obtain ⟨x, hx⟩ := goIndex_ok_of_lt (b := d) (i := Layout.containerTagBeginSize + Layout.containerLengthSize) (by omega)
    simp only [ht, Out.bind_ok]
    split
    · simp
    · simp only [hx, Out.bind_ok]
      split <;> simp

theorem validateContainer_ok_len {d : Bytes} {id : UInt8} (h : validateContainer d = .ok id) : containerMin < d.length := by
  unfold validateContainer at h
  split at h
  · cases h
  · next hl => omega

theorem getDataLength_ok {d : Bytes} (h : structMin ≤ d.length) : ∃ n, getDataLength d = .ok n := by
  unfold getDataLength
  have h1 : structMin = 145 := by decide
  have h2 : structDataLenSize = 8 := by decide
  obtain ⟨b, hb⟩ := goSlice_ok_of_le (b := d) (lo := structMin - structDataLenSize) (hi := structMin) (by omega) h
  simp [hb]

theorem validateStruct_ne_panic (d : Bytes) : validateStruct d ≠ .panic := by
  unfold validateStruct
  have h1 : structMin = 145 := by decide
  have h2 : structTagLen = 8 := by decide
  split
  · simp
  · next h =>
    obtain ⟨t, ht⟩ := goSlice_ok_of_le (b := d) (lo := 0) (hi := structTagLen) (by omega) (by omega)
    obtain ⟨n, hn⟩ := getDataLength_ok (d := d) (by omega)
    simp only [ht, Out.bind_ok]
    split
    · simp
    · simp only [hn, Out.bind_ok]
      split <;> simp

theorem validateStruct_ok_len {d : Bytes} (h : validateStruct d = .ok ()) : structMin ≤ d.length := by
  unfold validateStruct at h
  split at h
  · cases h
  · next hl => omega

theorem extractBlock_ne_panic (d : Bytes) : extractBlock d ≠ .panic := by
  unfold extractBlock
  have hmin : blockMin = 18 := by decide
  have c1 : Layout.blockTagBeginSize = 4 := by decide
  have c2 : Layout.blockRestAcraBlockLengthPosition = 4 := by decide
  have c3 : Layout.blockRestAcraBlockLengthSize = 8 := by decide
  have c4 : Layout.blockKeyEncryptionKeyTypePosition = 12 := by decide
  have c5 : Layout.blockDataEncryptionTypePosition = 15 := by decide
  split
  · simp
  · next h =>
    obtain ⟨t, ht⟩ := goSlice_ok_of_le (b := d) (lo := 0) (hi := Layout.blockTagBeginSize) (by omega) (by omega)
    obtain ⟨rl, hrl⟩ := goSlice_ok_of_le (b := d) (lo := Layout.blockRestAcraBlockLengthPosition)
      (hi := Layout.blockRestAcraBlockLengthPosition + Layout.blockRestAcraBlockLengthSize) (by omega) (by omega)
    obtain ⟨kt, hkt⟩ := goIndex_ok_of_lt (b := d) (i := Layout.blockKeyEncryptionKeyTypePosition) (by omega)
    obtain ⟨dt, hdt⟩ := goIndex_ok_of_lt (b := d) (i := Layout.blockDataEncryptionTypePosition) (by omega)
    simp only [ht, hrl, hkt, hdt, Out.bind_ok]
    split
    · next hc =>
      simp only [Bool.and_eq_true, decide_eq_true_eq] at hc
      obtain ⟨⟨⟨_, hb⟩, _⟩, _⟩ := hc
      obtain ⟨b, hbk⟩ := goSlice_ok_of_le (b := d) (lo := 0) (hi := Layout.blockTagBeginSize + leVal rl) (by omega) (by omega)
      simp [hbk]
    · simp

theorem matchOld_ne_panic (d : Bytes) : matchOld d ≠ .panic := by
  unfold matchOld
  cases hv : validateStruct d with
  | panic => exact absurd hv (validateStruct_ne_panic d)
  | ok u =>
    obtain ⟨n, hn⟩ := getDataLength_ok (validateStruct_ok_len (d := d) (by cases u; exact hv))
    simp [hn]
  | err =>
    simp only
    cases he : extractBlock d with
    | panic => exact absurd he (extractBlock_ne_panic d)
    | ok r => simp
    | err => simp

theorem serialize_ne_panic (e : Bytes) (id : UInt8) : serialize e id ≠ .panic := by
  unfold serialize
  split <;> simp

/-- `ExtractSerializedContainer` never panics -/
theorem extractContainer_ne_panic (d : Bytes) : extractContainer d ≠ .panic := by
  unfold extractContainer
  cases hv : validateContainer d with
  | panic => exact absurd hv (validateContainer_ne_panic d)
  | ok id =>
    have hl := validateContainer_ok_len hv
    have hmin : containerMin = 12 := by decide
    have htag : containerTag.length = 3 := by decide
    have hls : Layout.containerLengthSize = 8 := by decide
    obtain ⟨lb, hlb⟩ := goSlice_ok_of_le (b := d) (lo := containerTag.length) (hi := containerTag.length + Layout.containerLengthSize) (by omega) (by omega)
    simp only [hlb, Out.bind_ok]
    split <;> simp
  | err =>
    simp only
    cases hm : matchOld d with
    | panic => exact absurd hm (matchOld_ne_panic d)
    | err => simp
    | ok r =>
      obtain ⟨id, n⟩ := r
      simp only
      cases hs : serialize d id with
      | panic => exact absurd hs (serialize_ne_panic d id)
      | err => simp
      | ok s => simp

/-- `scan` with callbacks that all answer "unchanged" on every container recognised in the buffer returns
the buffer itself -/
theorem scan_all_same (cbs : List Callback) :
    ∀ (n : Nat) (buf : Bytes), buf.length ≤ n →
      (∀ i, i ≤ buf.length → ∀ cont adv, extractContainer (buf.drop i) = .ok (adv, cont) → ∀ cb, cb ∈ cbs → cb cont = .same) →
      ∃ hit, scan cbs buf = .ok buf hit
  | _, [], _, _ => by
    unfold scan
    exact ⟨false, rfl⟩
  | 0, b :: r, hlen, _ => by simp at hlen
  | n + 1, b :: r, hlen, h => by
    obtain ⟨hit0, ih⟩ := scan_all_same cbs n r (by simp at hlen; omega)
      (fun i hi cont adv he cb hcb => h (i + 1) (by simp; omega) cont adv (by simpa using he) cb hcb)
    have hpre : ∀ (hit' : Bool), ∃ hit, (scan cbs r).prepend [b] hit' = .ok (b :: r) hit := by
      intro hit'
      rw [ih]
      exact ⟨_, rfl⟩
    unfold scan
    split
    · exact hpre false
    · split
      · next hp => exact absurd hp (extractContainer_ne_panic _)
      · exact hpre false
      · next adv cont he =>
        have hall : ∀ cb, cb ∈ cbs → cb cont = .same := fun cb hcb => h 0 (by simp) cont adv (by simpa using he) cb hcb
        have hrun : runCallbacks cont cbs = .skip := by
          clear he ih hpre h
          induction cbs with
          | nil => rfl
          | cons c cs ihc =>
            unfold runCallbacks
            rw [hall c List.mem_cons_self]
            exact ihc (fun cb hcb => hall cb (List.mem_cons_of_mem _ hcb))
        simp only [hrun]
        exact hpre true

end AcraModel.CrossClient
