import AcraModel.CrossClient.TlsIdentity
/-
C02, part 5b: the string form of a subject determines the subject.

`dnString` (the model of `pkix.Name.String()` on standard attributes) is injective: the RDNs are separated
by unescaped `,`, the values of one attribute by unescaped `+`, every `,` `+` `\` inside a value carries a
backslash, the short names contain none of these and end in their only `=`, and no short name occurs twice.
The proof runs a left-to-right scanner over the string (`scan`), shows that it recovers the list of items
`<short name>=<value>` of every RDN, and reads the attributes back by their short names.
-/
namespace AcraModel.CrossClient
open AcraModel Generated

/-! ### the scanner -/

/-- left-to-right scan of a DN string: `esc` = the previous byte was an unescaped backslash; `cur` the item
being read, `items` the closed items of the RDN being read, `rdns` the closed RDNs -/
def scan : Bool → Bytes → Bytes → List Bytes → List (List Bytes) → List (List Bytes)
  | _, [], cur, items, rdns => rdns ++ [items ++ [cur]]
  | true, c :: rest, cur, items, rdns => scan false rest (cur ++ [c]) items rdns
  | false, c :: rest, cur, items, rdns =>
    if c = 92 then scan true rest cur items rdns
    else if c = 44 then scan false rest [] [] (rdns ++ [items ++ [cur]])
    else if c = 43 then scan false rest [] (items ++ [cur]) rdns
    else scan false rest (cur ++ [c]) items rdns

/-- the scanner at an RDN boundary: the end of the string or a `,` -/
def scanClosed : Bytes → List (List Bytes) → List (List Bytes)
  | [], R => R
  | c :: rest, R => if c = 44 then scan false rest [] [] R else R

/-- the input is at an RDN boundary -/
def AtBoundary (rest : Bytes) : Prop := rest = [] ∨ ∃ r, rest = 44 :: r

theorem scan_closes {rest : Bytes} (hb : AtBoundary rest) (cur : Bytes) (items : List Bytes) (rdns : List (List Bytes)) :
    scan false rest cur items rdns = scanClosed rest (rdns ++ [items ++ [cur]]) := by
  rcases hb with rfl | ⟨r, rfl⟩
  · simp [scan, scanClosed]
  · simp [scan, scanClosed]

theorem not_escapes {len k : Nat} {c : UInt8} (h : escapes len k c = false) : c ≠ 92 ∧ c ≠ 44 ∧ c ≠ 43 := by
  unfold escapes at h
  simp only [Bool.or_eq_false_iff, beq_eq_false_iff_ne, ne_eq] at h
  exact ⟨h.1.1.1.1.1.2, h.1.1.1.1.1.1.1.1, h.1.1.1.1.1.1.1.2⟩

theorem scan_plain {c : UInt8} (h : c ≠ 92 ∧ c ≠ 44 ∧ c ≠ 43) (rest cur : Bytes) (items : List Bytes) (rdns : List (List Bytes)) :
    scan false (c :: rest) cur items rdns = scan false rest (cur ++ [c]) items rdns := by
  simp [scan, h.1, h.2.1, h.2.2]

theorem scan_escaped (c : UInt8) (rest cur : Bytes) (items : List Bytes) (rdns : List (List Bytes)) :
    scan false (92 :: c :: rest) cur items rdns = scan false rest (cur ++ [c]) items rdns := by
  simp [scan]

/-- an escaped value is read back as the value -/
theorem scan_escapeFrom (len : Nat) : ∀ (v : Bytes) (k : Nat) (rest cur : Bytes) (items : List Bytes) (rdns : List (List Bytes)),
    scan false (escapeFrom len k v ++ rest) cur items rdns = scan false rest (cur ++ v) items rdns
  | [], _, rest, cur, items, rdns => by simp [escapeFrom]
  | c :: cs, k, rest, cur, items, rdns => by
    unfold escapeFrom
    cases he : escapes len k c
    · simp only [Bool.false_eq_true, if_false, List.cons_append, List.nil_append]
      rw [scan_plain (not_escapes he), scan_escapeFrom len cs (k + 1)]
      simp
    · simp only [if_true, List.cons_append, List.nil_append]
      rw [scan_escaped, scan_escapeFrom len cs (k + 1)]
      simp

/-- bytes that are none of `\ , +` are read as they are -/
theorem scan_clean : ∀ (t : Bytes), (∀ c ∈ t, c ≠ 92 ∧ c ≠ 44 ∧ c ≠ 43) → ∀ (rest cur : Bytes) (items : List Bytes) (rdns : List (List Bytes)),
    scan false (t ++ rest) cur items rdns = scan false rest (cur ++ t) items rdns
  | [], _, rest, cur, items, rdns => by simp
  | c :: cs, h, rest, cur, items, rdns => by
    rw [List.cons_append, scan_plain (h c List.mem_cons_self), scan_clean cs (fun x hx => h x (List.mem_cons_of_mem _ hx))]
    simp

/-- `<short name>=<escaped value>` -/
def item (t v : Bytes) : Bytes := t ++ escapeValue v

def SafeTag (t : Bytes) : Prop := ∀ c ∈ t, c ≠ 92 ∧ c ≠ 44 ∧ c ≠ 43

theorem scan_item {t : Bytes} (ht : SafeTag t) (v rest cur : Bytes) (items : List Bytes) (rdns : List (List Bytes)) :
    scan false (item t v ++ rest) cur items rdns = scan false rest (cur ++ t ++ v) items rdns := by
  unfold item escapeValue
  rw [List.append_assoc, scan_clean t ht, scan_escapeFrom]

/-! ### `joinSep` as head followed by separator-prefixed elements -/

theorem joinSep_eq_flat (sep : Bytes) : ∀ (x : Bytes) (l : List Bytes), joinSep sep (x :: l) = x ++ l.flatMap (sep ++ ·)
  | x, [] => by simp [joinSep]
  | x, y :: r => by
    rw [joinSep, joinSep_eq_flat sep y r]
    simp [List.flatMap_cons, List.append_assoc]

/-- state after reading `+item` for every further value of an RDN -/
def valuesState (t : Bytes) (l : List Bytes) (s : Bytes × List Bytes) : Bytes × List Bytes :=
  l.foldl (fun s v => (t ++ v, s.2 ++ [s.1])) s

theorem valuesState_close (t : Bytes) : ∀ (l : List Bytes) (s : Bytes × List Bytes),
    (valuesState t l s).2 ++ [(valuesState t l s).1] = s.2 ++ [s.1] ++ l.map (t ++ ·)
  | [], s => by simp [valuesState]
  | v :: l, s => by
    have := valuesState_close t l (t ++ v, s.2 ++ [s.1])
    simp only [valuesState, List.foldl_cons] at this ⊢
    rw [this]
    simp

theorem scan_values {t : Bytes} (ht : SafeTag t) : ∀ (l : List Bytes) (rest cur : Bytes) (items : List Bytes) (rdns : List (List Bytes)),
    scan false (l.flatMap (fun v => [43] ++ item t v) ++ rest) cur items rdns =
      scan false rest (valuesState t l (cur, items)).1 (valuesState t l (cur, items)).2 rdns
  | [], rest, cur, items, rdns => by simp [valuesState]
  | v :: l, rest, cur, items, rdns => by
    rw [List.flatMap_cons, List.append_assoc, List.append_assoc, List.singleton_append]
    have h43 : scan false (43 :: (item t v ++ (l.flatMap (fun v => [43] ++ item t v) ++ rest))) cur items rdns =
        scan false (item t v ++ (l.flatMap (fun v => [43] ++ item t v) ++ rest)) [] (items ++ [cur]) rdns := by
      simp [scan]
    rw [h43, scan_item ht, scan_values ht l]
    simp [valuesState]

/-- the bytes of one RDN with short name `t` and values `vs` -/
def rdnBytes (r : Bytes × List Bytes) : Bytes := joinSep [43] (r.2.map fun v => item r.1 v)

/-- the items the scanner recovers from one RDN: `<short name>=<value>` unescaped -/
def itemsOf (r : Bytes × List Bytes) : List Bytes := r.2.map (r.1 ++ ·)

theorem scan_rdn {r : Bytes × List Bytes} (ht : SafeTag r.1) (hne : r.2 ≠ []) {rest : Bytes} (hb : AtBoundary rest) (rdns : List (List Bytes)) :
    scan false (rdnBytes r ++ rest) [] [] rdns = scanClosed rest (rdns ++ [itemsOf r]) := by
  obtain ⟨t, vs⟩ := r
  cases vs with
  | nil => exact absurd rfl hne
  | cons v l =>
    have ht' : SafeTag t := ht
    simp only [rdnBytes, itemsOf, List.map_cons]
    rw [joinSep_eq_flat, List.append_assoc, scan_item ht']
    have hm : (l.map fun v => item t v).flatMap (fun x => [43] ++ x) = l.flatMap (fun v => [43] ++ item t v) := by
      rw [List.flatMap_map]
    rw [hm, scan_values ht' l, scan_closes hb]
    have := valuesState_close t l (t ++ v, [])
    simp only [List.nil_append] at this ⊢
    rw [this]
    simp

theorem flat_boundary (f : (Bytes × List Bytes) → Bytes) : ∀ (L : List (Bytes × List Bytes)), AtBoundary (L.flatMap (fun r => [44] ++ f r))
  | [] => Or.inl rfl
  | r :: L => Or.inr ⟨f r ++ L.flatMap (fun r => [44] ++ f r), by simp [List.flatMap_cons]⟩

/-- a well-formed RDN: safe short name, at least one value -/
def GoodRdn (r : Bytes × List Bytes) : Prop := SafeTag r.1 ∧ r.2 ≠ []

theorem scanClosed_rdns : ∀ (L : List (Bytes × List Bytes)), (∀ r ∈ L, GoodRdn r) → ∀ (R : List (List Bytes)),
    scanClosed (L.flatMap (fun r => [44] ++ rdnBytes r)) R = R ++ L.map itemsOf
  | [], _, R => by simp [scanClosed]
  | r :: L, h, R => by
    have hg := h r List.mem_cons_self
    rw [List.flatMap_cons, List.append_assoc, List.singleton_append]
    have h44 : scanClosed (44 :: (rdnBytes r ++ L.flatMap (fun r => [44] ++ rdnBytes r))) R =
        scan false (rdnBytes r ++ L.flatMap (fun r => [44] ++ rdnBytes r)) [] [] R := by simp [scanClosed]
    rw [h44, scan_rdn hg.1 hg.2 (flat_boundary rdnBytes L), scanClosed_rdns L (fun x hx => h x (List.mem_cons_of_mem _ hx))]
    simp

/-- the rendered form of a list of RDNs -/
def renderRdns (L : List (Bytes × List Bytes)) : Bytes := joinSep [44] (L.map rdnBytes)

/-- **the scanner inverts the renderer** on a non-empty list of well-formed RDNs -/
theorem scan_render (r : Bytes × List Bytes) (L : List (Bytes × List Bytes)) (h : ∀ x ∈ r :: L, GoodRdn x) :
    scan false (renderRdns (r :: L)) [] [] [] = (r :: L).map itemsOf := by
  have hg := h r List.mem_cons_self
  unfold renderRdns
  rw [List.map_cons, joinSep_eq_flat]
  have hm : (L.map rdnBytes).flatMap (fun x => [44] ++ x) = L.flatMap (fun r => [44] ++ rdnBytes r) := by rw [List.flatMap_map]
  rw [hm, scan_rdn hg.1 hg.2 (flat_boundary rdnBytes L), scanClosed_rdns L (fun x hx => h x (List.mem_cons_of_mem _ hx))]
  simp

theorem rdnBytes_ne_nil {r : Bytes × List Bytes} (ht : r.1 ≠ []) (hne : r.2 ≠ []) : rdnBytes r ≠ [] := by
  obtain ⟨t, vs⟩ := r
  cases vs with
  | nil => exact absurd rfl hne
  | cons v l =>
    simp only [rdnBytes, List.map_cons]
    rw [joinSep_eq_flat]
    cases t with
    | nil => exact absurd rfl ht
    | cons c cs => simp [item]

theorem renderRdns_items {L1 L2 : List (Bytes × List Bytes)} (h1 : ∀ x ∈ L1, GoodRdn x ∧ x.1 ≠ []) (h2 : ∀ x ∈ L2, GoodRdn x ∧ x.1 ≠ [])
    (h : renderRdns L1 = renderRdns L2) : L1.map itemsOf = L2.map itemsOf := by
  have nonnil : ∀ (r : Bytes × List Bytes) (L : List (Bytes × List Bytes)), (GoodRdn r ∧ r.1 ≠ []) → renderRdns (r :: L) ≠ [] := by
    intro r L hr hnil
    unfold renderRdns at hnil
    rw [List.map_cons, joinSep_eq_flat] at hnil
    have := rdnBytes_ne_nil hr.2 hr.1.2
    cases hb : rdnBytes r with
    | nil => exact this hb
    | cons c cs => rw [hb] at hnil; simp at hnil
  cases L1 with
  | nil =>
    cases L2 with
    | nil => rfl
    | cons r L => exact absurd h.symm (nonnil r L (h2 r List.mem_cons_self))
  | cons r1 L1 =>
    cases L2 with
    | nil => exact absurd h (nonnil r1 L1 (h1 r1 List.mem_cons_self))
    | cons r2 L2 =>
      rw [← scan_render r1 L1 (fun x hx => (h1 x hx).1), ← scan_render r2 L2 (fun x hx => (h2 x hx).1), h]

/-! ### reading the attributes back by their short names -/

/-- the prefix of an item up to and including its first `=` -/
def uptoEq : Bytes → Bytes
  | [] => []
  | c :: cs => if c = 61 then [61] else c :: uptoEq cs

/-- a short-name tag: ends in its only `=` and contains none of `\ , +` -/
def TagShape (t : Bytes) : Prop := ∃ body, t = body ++ [61] ∧ ∀ c ∈ body, c ≠ 61 ∧ c ≠ 92 ∧ c ≠ 44 ∧ c ≠ 43

theorem uptoEq_tag {t : Bytes} (ht : TagShape t) (v : Bytes) : uptoEq (t ++ v) = t := by
  obtain ⟨body, rfl, hb⟩ := ht
  induction body with
  | nil => simp [uptoEq]
  | cons c cs ih =>
    have hc := (hb c List.mem_cons_self).1
    simp only [List.cons_append, uptoEq, if_neg hc]
    rw [ih (fun x hx => hb x (List.mem_cons_of_mem _ hx))]

theorem TagShape.safe {t : Bytes} (ht : TagShape t) : SafeTag t := by
  obtain ⟨body, rfl, hb⟩ := ht
  intro c hc
  rcases List.mem_append.mp hc with h | h
  · exact (hb c h).2
  · have : c = 61 := by simpa using h
    subst this; decide

theorem TagShape.ne_nil {t : Bytes} (ht : TagShape t) : t ≠ [] := by
  obtain ⟨body, rfl, _⟩ := ht
  simp

/-- the short name an RDN's item list starts with -/
def tagOfItems : List Bytes → Bytes
  | [] => []
  | i :: _ => uptoEq i

def lookupTag (tag : Bytes) (I : List (List Bytes)) : Option (List Bytes) := I.find? fun items => tagOfItems items == tag

/-- the items of the attributes present, in table order -/
def itemsTable (table : List (String × Bytes)) (g : String → List Bytes) : List (List Bytes) :=
  table.filterMap fun ft => if (g ft.1).isEmpty then none else some ((g ft.1).map (ft.2 ++ ·))

theorem tagOfItems_entry {tag : Bytes} (ht : TagShape tag) {vs : List Bytes} (hne : vs.isEmpty = false) :
    tagOfItems (vs.map (tag ++ ·)) = tag := by
  cases vs with
  | nil => simp at hne
  | cons v l => simp [tagOfItems, uptoEq_tag ht]

theorem itemsTable_tags (g : String → List Bytes) : ∀ (table : List (String × Bytes)), (∀ ft ∈ table, TagShape ft.2) →
    ∀ x ∈ itemsTable table g, ∃ ft ∈ table, tagOfItems x = ft.2
  | [], _, x, hx => by simp [itemsTable] at hx
  | ft :: table, h, x, hx => by
    unfold itemsTable at hx
    rw [List.filterMap_cons] at hx
    cases he : (g ft.1).isEmpty
    · simp only [he, Bool.false_eq_true, if_false] at hx
      rcases List.mem_cons.mp hx with rfl | hx'
      · exact ⟨ft, List.mem_cons_self, tagOfItems_entry (h ft List.mem_cons_self) he⟩
      · obtain ⟨ft', hm, ht⟩ := itemsTable_tags g table (fun y hy => h y (List.mem_cons_of_mem _ hy)) x hx'
        exact ⟨ft', List.mem_cons_of_mem _ hm, ht⟩
    · simp only [he, if_true] at hx
      obtain ⟨ft', hm, ht⟩ := itemsTable_tags g table (fun y hy => h y (List.mem_cons_of_mem _ hy)) x hx
      exact ⟨ft', List.mem_cons_of_mem _ hm, ht⟩

/-- looking an attribute up by its short name gives its values (or nothing when it is absent) -/
theorem lookup_itemsTable (g : String → List Bytes) : ∀ (table : List (String × Bytes)), (∀ ft ∈ table, TagShape ft.2) →
    (table.map (·.2)).Nodup → ∀ ft ∈ table,
      lookupTag ft.2 (itemsTable table g) = if (g ft.1).isEmpty then none else some ((g ft.1).map (ft.2 ++ ·))
  | [], _, _, ft, hft => by simp at hft
  | f0 :: table, h, hnd, ft, hft => by
    rw [List.map_cons, List.nodup_cons] at hnd
    have htail := lookup_itemsTable g table (fun y hy => h y (List.mem_cons_of_mem _ hy)) hnd.2
    have notin : ∀ x ∈ itemsTable table g, (tagOfItems x == f0.2) = false := by
      intro x hx
      obtain ⟨ft', hm, ht⟩ := itemsTable_tags g table (fun y hy => h y (List.mem_cons_of_mem _ hy)) x hx
      rw [ht]
      apply beq_false_of_ne
      intro he
      exact hnd.1 (he ▸ List.mem_map_of_mem hm)
    unfold itemsTable lookupTag
    rw [List.filterMap_cons]
    rcases List.mem_cons.mp hft with rfl | hm
    · cases he : (g ft.1).isEmpty
      · simp only [he, Bool.false_eq_true, if_false]
        rw [List.find?_cons, tagOfItems_entry (h ft List.mem_cons_self) he]
        simp
      · simp only [he, if_true]
        rw [List.find?_eq_none.mpr]
        intro x hx
        have := notin x hx
        simp [this]
    · have hne : ft.2 ≠ f0.2 := fun he => hnd.1 (he ▸ List.mem_map_of_mem hm)
      cases he0 : (g f0.1).isEmpty
      · simp only [he0, Bool.false_eq_true, if_false]
        rw [List.find?_cons, tagOfItems_entry (h f0 List.mem_cons_self) he0]
        have : (f0.2 == ft.2) = false := beq_false_of_ne (fun e => hne e.symm)
        rw [this]
        exact htail ft hm
      · simp only [he0, if_true]
        exact htail ft hm

theorem map_append_left_inj (t : Bytes) : ∀ {a b : List Bytes}, a.map (t ++ ·) = b.map (t ++ ·) → a = b
  | [], [], _ => rfl
  | [], _ :: _, h => by simp at h
  | _ :: _, [], h => by simp at h
  | x :: xs, y :: ys, h => by
    simp only [List.map_cons, List.cons.injEq, List.append_cancel_left_eq] at h
    rw [h.1, map_append_left_inj t h.2]

/-- equal item tables, equal attribute values -/
theorem itemsTable_inj {table : List (String × Bytes)} (hshape : ∀ ft ∈ table, TagShape ft.2) (hnd : (table.map (·.2)).Nodup)
    {g1 g2 : String → List Bytes} (h : itemsTable table g1 = itemsTable table g2) : ∀ ft ∈ table, g1 ft.1 = g2 ft.1 := by
  intro ft hft
  have l1 := lookup_itemsTable g1 table hshape hnd ft hft
  have l2 := lookup_itemsTable g2 table hshape hnd ft hft
  rw [h, l2] at l1
  cases e1 : (g1 ft.1).isEmpty <;> cases e2 : (g2 ft.1).isEmpty <;> simp only [e1, e2, Bool.false_eq_true, if_true, if_false] at l1
  · exact (map_append_left_inj ft.2 (Option.some.inj l1)).symm
  · cases l1
  · cases l1
  · rw [List.isEmpty_iff.mp e1, List.isEmpty_iff.mp e2]

theorem filterMap_congr' {α β : Type} {f g : α → Option β} : ∀ (l : List α), (∀ x ∈ l, f x = g x) → l.filterMap f = l.filterMap g
  | [], _ => rfl
  | x :: l, h => by
    rw [List.filterMap_cons, List.filterMap_cons, h x List.mem_cons_self, filterMap_congr' l (fun y hy => h y (List.mem_cons_of_mem _ hy))]

/-! ### `dnString` -/

/-- the model's table with the tags as bytes -/
def dnTable : List (String × Bytes) := TlsIdentity.rdnPrinted.map fun ft => (ft.1, bytesOfNats ft.2)

def tagShapeB (t : Bytes) : Bool :=
  match t.reverse with
  | c :: body => c == 61 && body.all (fun c => c != 61 && c != 92 && c != 44 && c != 43)
  | [] => false

theorem tagShapeB_sound {t : Bytes} (h : tagShapeB t = true) : TagShape t := by
  unfold tagShapeB at h
  cases hr : t.reverse with
  | nil => rw [hr] at h; simp at h
  | cons c body =>
    rw [hr] at h
    simp only [Bool.and_eq_true, beq_iff_eq, List.all_eq_true, bne_iff_ne, ne_eq] at h
    refine ⟨body.reverse, ?_, ?_⟩
    · have := congrArg List.reverse hr
      simp only [List.reverse_reverse, List.reverse_cons] at this
      rw [this, h.1]
    · intro x hx
      have := h.2 x (List.mem_reverse.mp hx)
      exact ⟨this.1.1.1, this.1.1.2, this.1.2, this.2⟩

/-- the RDNs of a name: (tag, values) of the attributes present, in print order -/
def rdnsOfName (n : Name) : List (Bytes × List Bytes) :=
  dnTable.filterMap fun ft => if (fieldValues n ft.1).isEmpty then none else some (ft.2, fieldValues n ft.1)

theorem dnString_eq_render (n : Name) : dnString n = renderRdns (rdnsOfName n) := by
  unfold dnString dnStringOf renderRdns rdnsOfName dnTable
  congr 1
  rw [List.filterMap_map, List.map_filterMap]
  apply filterMap_congr'
  intro ft _
  simp only [Function.comp, rdnString]
  cases (fieldValues n ft.1).isEmpty <;> simp [rdnBytes, item]

theorem rdnsOfName_items (n : Name) : (rdnsOfName n).map itemsOf = itemsTable dnTable (fieldValues n) := by
  unfold rdnsOfName itemsTable
  rw [List.map_filterMap]
  apply filterMap_congr'
  intro ft _
  cases (fieldValues n ft.1).isEmpty <;> simp [itemsOf]

theorem dnTable_shapes : ∀ ft ∈ dnTable, TagShape ft.2 := by
  have h : dnTable.all (fun ft => tagShapeB ft.2) = true := by decide
  intro ft hft
  exact tagShapeB_sound (List.all_eq_true.mp h ft hft)

theorem dnTable_nodup : (dnTable.map (·.2)).Nodup := by decide

theorem rdnsOfName_good (n : Name) : ∀ x ∈ rdnsOfName n, GoodRdn x ∧ x.1 ≠ [] := by
  intro x hx
  unfold rdnsOfName at hx
  obtain ⟨ft, hft, hsome⟩ := List.mem_filterMap.mp hx
  cases he : (fieldValues n ft.1).isEmpty
  · simp only [he, Bool.false_eq_true, if_false, Option.some.injEq] at hsome
    subst hsome
    have hs := dnTable_shapes ft hft
    refine ⟨⟨hs.safe, ?_⟩, hs.ne_nil⟩
    intro hnil
    simp only [] at hnil
    rw [hnil] at he
    simp at he
  · simp [he] at hsome

theorem singleOpt_inj {a b : Bytes} (h : (if a.isEmpty then ([] : List Bytes) else [a]) = (if b.isEmpty then [] else [b])) : a = b := by
  cases ea : a.isEmpty <;> cases eb : b.isEmpty <;> simp only [ea, eb, Bool.false_eq_true, if_true, if_false] at h
  · exact List.cons.inj h |>.1
  · cases h
  · cases h
  · rw [List.isEmpty_iff.mp ea, List.isEmpty_iff.mp eb]

/-- **`pkix.Name.String()` is injective on the standard attributes**: two subjects with the same string form
have the same attribute values (in the order a certificate parser reports them). -/
theorem dnString_injective {n1 n2 : Name} (h : dnString n1 = dnString n2) : n1 = n2 := by
  rw [dnString_eq_render, dnString_eq_render] at h
  have hi := renderRdns_items (rdnsOfName_good n1) (rdnsOfName_good n2) h
  rw [rdnsOfName_items, rdnsOfName_items] at hi
  have hf := itemsTable_inj dnTable_shapes dnTable_nodup hi
  have mem : ∀ f, f ∈ dnTable.map (·.1) → fieldValues n1 f = fieldValues n2 f := by
    intro f hfm
    obtain ⟨ft, hft, rfl⟩ := List.mem_map.mp hfm
    exact hf ft hft
  have c := mem "Country" (by decide)
  have st := mem "Province" (by decide)
  have l := mem "Locality" (by decide)
  have sa := mem "StreetAddress" (by decide)
  have pc := mem "PostalCode" (by decide)
  have o := mem "Organization" (by decide)
  have ou := mem "OrganizationalUnit" (by decide)
  have cn := mem "CommonName" (by decide)
  have sn := mem "SerialNumber" (by decide)
  obtain ⟨c1, st1, l1, sa1, pc1, o1, ou1, cn1, sn1⟩ := n1
  obtain ⟨c2, st2, l2, sa2, pc2, o2, ou2, cn2, sn2⟩ := n2
  simp only [fieldValues] at c st l sa pc o ou cn sn
  have cn' := singleOpt_inj cn
  have sn' := singleOpt_inj sn
  simp only [String.reduceEq, if_true, if_false] at c st l sa pc o ou
  subst c st l sa pc o ou cn' sn'
  rfl

end AcraModel.CrossClient
