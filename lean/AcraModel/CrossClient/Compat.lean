import AcraModel.CrossClient.NoPanic
/-
The backward-compatibility wrapper (`OldContainerDetectorWrapper.OnColumn`) under a reader whose callbacks
answer "unchanged" everywhere: after the container scan it looks for bare AcraStructs and bare AcraBlocks,
wraps each into a container and offers it to the same callbacks; when nobody changes anything the column
comes back as it was.
-/
namespace AcraModel.CrossClient
open AcraModel AcraModel.Envelope Generated

theorem onCryptoEnvelope_all_same (s : Bytes) : ∀ (cbs : List Callback), (∀ cb, cb ∈ cbs → cb s = .same) →
    onCryptoEnvelope s cbs = .ok s
  | [], _ => rfl
  | cb :: rest, h => by
    unfold onCryptoEnvelope
    rw [h cb List.mem_cons_self]
    exact onCryptoEnvelope_all_same s rest (fun c hc => h c (List.mem_cons_of_mem _ hc))

/-- a bare envelope nobody can process stays as it is -/
theorem onBare_same (cbs : List Callback) (id : UInt8) (bare : Bytes) (hne : bare ≠ [])
    (h : ∀ s, serialize bare id = .ok s → ∀ cb, cb ∈ cbs → cb s = .same) :
    onBare cbs id bare = .ok bare := by
  unfold onBare
  have hs : serialize bare id = .ok (containerTag ++ leBytes 8 (containerMin + bare.length) ++ [id] ++ bare) := by
    unfold serialize
    rw [if_neg hne]
  rw [hs]
  simp only [Out.bind_ok]
  rw [onCryptoEnvelope_all_same _ cbs (h _ hs)]
  simp

/-- `ProcessAcraStructs` with a processor that returns every non-empty slice of the buffer unchanged -/
theorem processStructs_id (proc : Bytes → Out Bytes) :
    ∀ (n : Nat) (rest : Bytes), rest.length ≤ n →
      (∀ i l, 0 < l → (rest.drop i).take l ≠ [] → proc ((rest.drop i).take l) = .ok ((rest.drop i).take l)) →
      processStructs proc rest = .ok rest
  | _, [], _, _ => by unfold processStructs; rfl
  | 0, b :: r, hlen, _ => by simp at hlen
  | n + 1, b :: r, hlen, h => by
    have hlen' : r.length ≤ n := by simp at hlen; omega
    have ihr : processStructs proc r = .ok r :=
      processStructs_id proc n r hlen' (fun i l hl hne => by simpa using h (i + 1) l hl (by simpa using hne))
    have hstep : (processStructs proc r).bind (fun o => Out.ok (b :: o)) = .ok (b :: r) := by rw [ihr]; rfl
    unfold processStructs
    split
    · exact hstep
    · split
      · next hgt =>
        have hmin : structMin ≤ (b :: r).length := by omega
        obtain ⟨dl, hdl⟩ := getDataLength_ok (d := b :: r) hmin
        rw [hdl]
        simp only
        split
        · next hl =>
          have hpos : 0 < (wrapInt64 (dl + ↑structMin)).toNat := by omega
          have htk : (b :: r).take (wrapInt64 (dl + ↑structMin)).toNat ≠ [] := by
            cases hk : (wrapInt64 (dl + ↑structMin)).toNat with
            | zero => omega
            | succ k => simp
          have hp := h 0 _ hpos (by simpa using htk)
          simp only [List.drop_zero] at hp
          rw [hp]
          have hdrop : ((b :: r).drop (wrapInt64 (dl + ↑structMin)).toNat).length ≤ n := by
            simp only [List.length_drop, List.length_cons] at hlen ⊢
            omega
          have ihd := processStructs_id proc n ((b :: r).drop (wrapInt64 (dl + ↑structMin)).toNat) hdrop
            (fun i l hl' hne => by
              have := h ((wrapInt64 (dl + ↑structMin)).toNat + i) l hl'
              simp only [List.drop_drop] at hne ⊢
              exact this hne)
          rw [ihd]
          simp only [Out.bind]
          rw [List.take_append_drop]
        · exact hstep
      · exact hstep

theorem extractBlock_ok_spec {d blk : Bytes} {n : Nat} (h : extractBlock d = .ok (n, blk)) :
    0 < n ∧ n ≤ d.length ∧ blk = d.take n := by
  unfold extractBlock at h
  have hmin : blockMin = 18 := by decide
  have c1 : Layout.blockTagBeginSize = 4 := by decide
  split at h
  · cases h
  · next hl =>
    cases ht : goSlice d 0 Layout.blockTagBeginSize with
    | err => simp [ht] at h
    | panic => simp [ht] at h
    | ok t =>
      simp only [ht, Out.bind_ok] at h
      cases hrl : goSlice d Layout.blockRestAcraBlockLengthPosition (Layout.blockRestAcraBlockLengthPosition + Layout.blockRestAcraBlockLengthSize) with
      | err => simp [hrl] at h
      | panic => simp [hrl] at h
      | ok rl =>
        simp only [hrl, Out.bind_ok] at h
        cases hkt : goIndex d Layout.blockKeyEncryptionKeyTypePosition with
        | err => simp [hkt] at h
        | panic => simp [hkt] at h
        | ok kt =>
          simp only [hkt, Out.bind_ok] at h
          cases hdt : goIndex d Layout.blockDataEncryptionTypePosition with
          | err => simp [hdt] at h
          | panic => simp [hdt] at h
          | ok dt =>
            simp only [hdt, Out.bind_ok] at h
            split at h
            · next hc =>
              simp only [Bool.and_eq_true, decide_eq_true_eq] at hc
              obtain ⟨⟨⟨_, hb⟩, _⟩, _⟩ := hc
              cases hs : goSlice d 0 (Layout.blockTagBeginSize + leVal rl) with
              | err => simp [hs] at h
              | panic => simp [hs] at h
              | ok b =>
                simp only [hs, Out.bind_ok, Out.pure_eq, Out.ok.injEq, Prod.mk.injEq] at h
                obtain ⟨hn, hb'⟩ := h
                unfold goSlice at hs
                split at hs
                · cases hs
                  subst hn
                  subst hb'
                  refine ⟨by omega, by omega, by simp⟩
                · cases hs
            · cases h

/-- `ProcessAcraBlocks` with a processor that returns every non-empty slice of the buffer unchanged -/
theorem processBlocks_id (proc : Bytes → Out Bytes) :
    ∀ (n : Nat) (rest : Bytes), rest.length ≤ n →
      (∀ i l, 0 < l → (rest.drop i).take l ≠ [] → proc ((rest.drop i).take l) = .ok ((rest.drop i).take l)) →
      processBlocks proc rest = .ok rest
  | _, [], _, _ => by unfold processBlocks; rfl
  | 0, b :: r, hlen, _ => by simp at hlen
  | n + 1, b :: r, hlen, h => by
    have hlen' : r.length ≤ n := by simp at hlen; omega
    have ihr : processBlocks proc r = .ok r :=
      processBlocks_id proc n r hlen' (fun i l hl hne => by simpa using h (i + 1) l hl (by simpa using hne))
    have hstep : (processBlocks proc r).bind (fun o => Out.ok (b :: o)) = .ok (b :: r) := by rw [ihr]; rfl
    unfold processBlocks
    split
    · exact hstep
    · split
      · split
        · next hp => exact absurd hp (extractBlock_ne_panic _)
        · exact hstep
        · next k blk he =>
          obtain ⟨hk0, hkl, hblk⟩ := extractBlock_ok_spec he
          rw [dif_pos ⟨hk0, hkl⟩]
          have htk : (b :: r).take k ≠ [] := by
            cases k with
            | zero => omega
            | succ k' => simp
          have hp := h 0 k hk0 (by simpa using htk)
          simp only [List.drop_zero] at hp
          rw [hblk, hp]
          have hdrop : ((b :: r).drop k).length ≤ n := by
            simp only [List.length_drop, List.length_cons] at hlen ⊢
            omega
          have ihd := processBlocks_id proc n ((b :: r).drop k) hdrop
            (fun i l hl' hne => by
              have := h (k + i) l hl'
              simp only [List.drop_drop] at hne ⊢
              exact this hne)
          rw [ihd]
          simp only [Out.bind]
          rw [List.take_append_drop]
      · exact hstep

/-- `OldContainerDetectorWrapper.OnColumn` with callbacks that answer "unchanged" on every container
recognised in the buffer and on every slice of the buffer wrapped as a container of either kind -/
theorem onColumnCompat_all_same (cbs : List Callback) (buf : Bytes)
    (hcont : ∀ i, i ≤ buf.length → ∀ cont adv, extractContainer (buf.drop i) = .ok (adv, cont) → ∀ cb, cb ∈ cbs → cb cont = .same)
    (hbare : ∀ i l id s, serialize ((buf.drop i).take l) id = .ok s → ∀ cb, cb ∈ cbs → cb s = .same) :
    ∃ hit, onColumnCompat cbs buf = .ok buf hit := by
  have hcbs : ∀ i, i ≤ buf.length → ∀ cont adv, extractContainer (buf.drop i) = .ok (adv, cont) →
      ∀ cb, cb ∈ ((fun _ => Cb.same) :: cbs) → cb cont = .same := by
    intro i hi cont adv he cb hcb
    simp only [List.mem_cons] at hcb
    rcases hcb with rfl | hcb
    · rfl
    · exact hcont i hi cont adv he cb hcb
  have hbare' : ∀ id i l, 0 < l → (buf.drop i).take l ≠ [] →
      onBare ((fun _ => Cb.same) :: cbs) id ((buf.drop i).take l) = .ok ((buf.drop i).take l) := by
    intro id i l _ hne
    apply onBare_same _ _ _ hne
    intro s hs cb hcb
    simp only [List.mem_cons] at hcb
    rcases hcb with rfl | hcb
    · rfl
    · exact hbare i l id s hs cb hcb
  unfold onColumnCompat
  have hon : ∃ hit, onColumn ((fun _ => Cb.same) :: cbs) buf = .ok buf hit := by
    unfold onColumn
    split
    · exact ⟨false, rfl⟩
    · exact scan_all_same _ buf.length buf (Nat.le_refl _) hcbs
  obtain ⟨hit, hon⟩ := hon
  rw [hon]
  simp only [bne_self_eq_false, Bool.or_false]
  cases hit with
  | true => exact ⟨true, rfl⟩
  | false =>
    simp only [Bool.false_eq_true, if_false]
    have hs1 : (if buf.length < structMin then Out.ok buf else processStructs (onBare ((fun _ => Cb.same) :: cbs) idStruct) buf) = .ok buf := by
      split
      · rfl
      · exact processStructs_id _ buf.length buf (Nat.le_refl _) (hbare' idStruct)
    rw [hs1]
    simp only
    have hs2 : (if buf.length < blockMin then Out.ok buf else processBlocks (onBare ((fun _ => Cb.same) :: cbs) idBlock) buf) = .ok buf := by
      split
      · rfl
      · exact processBlocks_id _ buf.length buf (Nat.le_refl _) (hbare' idBlock)
    rw [hs2]
    exact ⟨false, rfl⟩

end AcraModel.CrossClient
