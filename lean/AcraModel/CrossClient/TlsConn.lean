import AcraModel.CrossClient.TlsIdentity
import AcraModel.Generated.TlsConnState
/-
C02, part 8: WHICH certificate of a finished TLS handshake becomes the identity of the connection.

`network/tls_wrapper.go`:
  ServerHandshake (gRPC transport credentials of AcraTranslator):
      if len(State.VerifiedChains) == 0 || len(State.VerifiedChains[0]) == 0 { return …, ErrNoPeerCertificate }
      certificate := State.VerifiedChains[0][0]
      clientID, err := wrapper.clientIDExtractor.ExtractClientID(certificate)
  GetClientIDFromTLSConn (WrapServer – AcraServer and the HTTP API –, GetClientIDFromConnection on a bare tls.Conn):
      same guard, same choice;  return getClientIDFromCertificate(certificate, extractor)
  getClientIDFromCertificate: ValidateClientsAuthenticationCertificate(certificate) – refuses CA certificates and
      certificates without an authentication key usage –, then extractor.ExtractClientID(certificate)

A `tls.ConnectionState` offers two certificate lists. `PeerCertificates` is everything the peer SENT: its own
certificate first, then whatever it chose to append (intermediates, or anything else – only the first one is
covered by the handshake signature). `VerifiedChains` are the chains crypto/x509 built from the first peer
certificate to a trusted root. Which list and index each site uses, and the guards in front, are NOT written
down here: they are read from `Generated.TlsConnState` and interpreted by `certChoiceOf` / `siteCert`.
-/
namespace AcraModel.CrossClient
open AcraModel Generated

/-- a certificate of a handshake as far as Acra looks at it: subject / serial number (identity) and the two
things `ValidateClientsAuthenticationCertificate` checks -/
structure ConnCert where
  cert : Cert
  /-- `certificate.IsCA` -/
  isCA : Bool
  /-- `KeyUsage&DigitalSignature == 1` or `ExtKeyUsageClientAuth ∈ ExtKeyUsage` -/
  authUsage : Bool
deriving DecidableEq, Repr

/-- the two certificate lists of `tls.ConnectionState` -/
structure TlsState where
  /-- `PeerCertificates`: what the peer sent, in the order it sent it -/
  peer : List ConnCert
  /-- `VerifiedChains` -/
  chains : List (List ConnCert)
deriving DecidableEq, Repr

/-- which element a site takes -/
inductive CertChoice where
  /-- `VerifiedChains[i][j]` -/
  | verified (i j : Nat)
  /-- `PeerCertificates[k]` -/
  | peerAt (k : Nat)
  /-- `PeerCertificates[len(PeerCertificates)-1-k]` -/
  | peerFromEnd (k : Nat)
  /-- the function's own certificate parameter -/
  | param
  | unknown
deriving DecidableEq, Repr

/-- reading of the "where the certificate comes from" column of `Generated.TlsConnState.identityCertSites` -/
def certChoiceOf (origin : List String) : CertChoice :=
  match origin with
  | [s] =>
    if s == "VerifiedChains[0][0]" then .verified 0 0
    else if s == "PeerCertificates[0]" then .peerAt 0
    else if s == "PeerCertificates[len(PeerCertificates)-1]" then .peerFromEnd 0
    else if s == "param:certificate" then .param
    else .unknown
  | _ => .unknown

/-- Go indexing: out of range panics -/
def pickCert (ch : CertChoice) (s : TlsState) : Out ConnCert :=
  match ch with
  | .verified i j =>
    match s.chains[i]? with
    | none => .panic
    | some c => match c[j]? with | none => .panic | some x => .ok x
  | .peerAt k => match s.peer[k]? with | none => .panic | some x => .ok x
  | .peerFromEnd k =>
    if s.peer.length < k + 1 then .panic
    else match s.peer[s.peer.length - 1 - k]? with | none => .panic | some x => .ok x
  | .param => .err
  | .unknown => .err

/-- one disjunct of a guard; an expression the model does not know never fires (conservative for panics) -/
def atomEval (a : String) (s : TlsState) : Out Bool :=
  if a == "len(VerifiedChains)==0" then .ok s.chains.isEmpty
  else if a == "len(VerifiedChains[0])==0" then (match s.chains with | [] => .panic | c :: _ => .ok c.isEmpty)
  else if a == "len(PeerCertificates)==0" then .ok s.peer.isEmpty
  else .ok false

/-- `a₁ || a₂ || …` with Go's short-circuit evaluation -/
def guardFires : List String → TlsState → Out Bool
  | [], _ => .ok false
  | a :: r, s =>
    match atomEval a s with
    | .ok true => .ok true
    | .ok false => guardFires r s
    | .err => .err
    | .panic => .panic

/-- the guards of a site in order: `.ok true` = some guard returned the error -/
def guardsFire : List (List String) → TlsState → Out Bool
  | [], _ => .ok false
  | g :: r, s =>
    match guardFires g s with
    | .ok true => .ok true
    | .ok false => guardsFire r s
    | .err => .err
    | .panic => .panic

/-- one row of `Generated.TlsConnState.identityCertSites` -/
structure CertSite where
  fn : String
  callee : String
  origin : List String
  guards : List (List String)
deriving DecidableEq

def certSites : List CertSite := TlsConnState.identityCertSites.map fun r => ⟨r.1, r.2.1, r.2.2.1, r.2.2.2⟩

/-- the certificate a site hands to its identity sink: an error when a guard fires -/
def siteCert (site : CertSite) (s : TlsState) : Out ConnCert :=
  match guardsFire site.guards s with
  | .ok true => .err
  | .ok false => pickCert (certChoiceOf site.origin) s
  | .err => .err
  | .panic => .panic

/-- `ValidateClientsAuthenticationCertificate` -/
def validateCert (c : ConnCert) : Bool := !c.isCA && c.authUsage

/-- does `getClientIDFromCertificate` validate before it extracts? (`Generated.TlsConnState.certificateFunctions`) -/
def helperValidates : Bool :=
  match TlsConnState.certificateFunctions.find? (·.1 == "network/tls_wrapper.go:getClientIDFromCertificate") with
  | some r => r.2 == ["ValidateClientsAuthenticationCertificate#0", "extractor.ExtractClientID#0"]
  | none => false

/-- the sink a site calls, on the certificate it chose -/
def sinkRun (callee : String) (e : Extractor) (c : ConnCert) : Out Bytes :=
  if callee == "getClientIDFromCertificate" then
    (if helperValidates && !validateCert c then .err else extractClientID e.hash e.mode (some c.cert))
  else extractClientID e.hash e.mode (some c.cert)

/-- **the client id a connection gets at a site** -/
def siteIdentity (site : CertSite) (e : Extractor) (s : TlsState) : Out Bytes :=
  match siteCert site s with
  | .ok c => sinkRun site.callee e c
  | .err => .err
  | .panic => .panic

/-- the two entry points: the gRPC transport credentials, and everything that starts from a `*tls.Conn` -/
def siteOfFunction (fn : String) : Option CertSite := certSites.find? (·.fn == fn)
def grpcSiteName : String := "network/tls_wrapper.go:TLSConnectionWrapper.ServerHandshake"
def connSiteName : String := "network/tls_wrapper.go:GetClientIDFromTLSConn"

/-- the sites that start from a ConnectionState (the others hand a parameter on) -/
def stateSites : List CertSite := certSites.filter fun st => certChoiceOf st.origin != .param

/-! ### what crypto/tls guarantees -/

/-- After a successful server-side handshake with `RequireAndVerifyClientCert`: the peer sent at least its own
certificate, at least one chain was verified, and every verified chain starts at the first certificate the peer
sent (`crypto/tls` builds the chains with `opts.Intermediates` = the REST of what the peer sent and verifies
`certs[0]`). This is the documented contract of the standard library, a hypothesis here; the harness checks it
on every real handshake it performs. -/
structure Handshaken (s : TlsState) : Prop where
  chains_ne : s.chains ≠ []
  leaf : ∀ ch, ch ∈ s.chains → ch.head? = s.peer.head? ∧ ch ≠ []

/-- the client's own certificate: the first one it sent -/
def leafOf (s : TlsState) : Option ConnCert := s.peer.head?

theorem pick_verified_leaf {s : TlsState} (h : Handshaken s) {l : ConnCert} (hl : leafOf s = some l) :
    pickCert (.verified 0 0) s = .ok l := by
  unfold pickCert
  cases hc : s.chains with
  | nil => exact absurd hc h.chains_ne
  | cons ch rest =>
    have := h.leaf ch (by rw [hc]; exact List.mem_cons_self)
    cases hch : ch with
    | nil => exact absurd hch this.2
    | cons x xs =>
      have hx : some x = s.peer.head? := by rw [← this.1, hch]; rfl
      unfold leafOf at hl
      rw [hl] at hx
      cases hx
      simp

theorem guards_verified_pass {s : TlsState} (h : Handshaken s) :
    guardsFire [["len(VerifiedChains)==0", "len(VerifiedChains[0])==0"]] s = .ok false := by
  cases hc : s.chains with
  | nil => exact absurd hc h.chains_ne
  | cons ch rest =>
    have := h.leaf ch (by rw [hc]; exact List.mem_cons_self)
    cases hch : ch with
    | nil => exact absurd hch this.2
    | cons x xs =>
      simp [guardsFire, guardFires, atomEval, hc, hch]

/-- the guards in front of `VerifiedChains[0][0]` make the indexing safe for EVERY state -/
theorem verified_guarded_never_panics (s : TlsState) (callee : String) :
    siteCert ⟨"", callee, ["VerifiedChains[0][0]"], [["len(VerifiedChains)==0", "len(VerifiedChains[0])==0"]]⟩ s ≠ .panic := by
  unfold siteCert
  cases hc : s.chains with
  | nil => simp [guardsFire, guardFires, atomEval, hc]
  | cons ch rest =>
    cases ch with
    | nil => simp [guardsFire, guardFires, atomEval, hc]
    | cons x xs => simp [guardsFire, guardFires, atomEval, hc, certChoiceOf, pickCert]

/-- the site of the gRPC transport credentials / of everything that starts from a `*tls.Conn` -/
def grpcSite : CertSite := (siteOfFunction grpcSiteName).getD ⟨"", "", [], []⟩
def connSite : CertSite := (siteOfFunction connSiteName).getD ⟨"", "", [], []⟩

theorem sinkRun_ok {callee : String} {e : Extractor} {c : ConnCert} {id : Bytes} (h : sinkRun callee e c = .ok id) :
    extractClientID e.hash e.mode (some c.cert) = .ok id := by
  unfold sinkRun at h
  split at h
  · split at h
    · cases h
    · exact h
  · exact h

/-- a site that takes `VerifiedChains[0][0]` behind the two length guards hands the client's own certificate to its sink -/
theorem siteCert_verified_leaf {st : CertSite} (ho : certChoiceOf st.origin = .verified 0 0)
    (hg : st.guards = [["len(VerifiedChains)==0", "len(VerifiedChains[0])==0"]])
    {s : TlsState} (h : Handshaken s) {l : ConnCert} (hl : leafOf s = some l) : siteCert st s = .ok l := by
  unfold siteCert
  rw [hg, guards_verified_pass h, ho]
  exact pick_verified_leaf h hl

end AcraModel.CrossClient
