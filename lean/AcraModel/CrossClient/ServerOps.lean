import AcraModel.CrossClient.TlsServer
import AcraModel.CrossClient.Token
import AcraModel.CrossClient.Keys
/-
C02, part 9: the remaining entry points of AcraTranslator as functions of the connection identity – the
non-decrypt RPCs of the gRPC server (Tokenize / Detokenize, the four Encrypt RPCs, GenerateQueryHash) and the
HTTP API.

gRPC: `serverCall` (`TlsServer.lean`) already says what reaches the service for any RPC; here it is evaluated for
a connection with an identity: on a server built with `UseConnectionClientID`, for every registered RPC whose
wrapper method is declared and overriding (regenerated tables), the service runs with the connection's id in the
request, whatever the request named.

HTTP (`cmd/acra-translator/http_api/service.go`): every handler computes
    connection := network.GetConnectionFromHTTPContext(ctx.Request.Context())
    connectionClientID, ok := network.GetClientIDFromConnection(connection, extractor);  if !ok { connectionClientID = nil }
and hands `connectionClientID` to the translator service; a request body carries no client id the handler reads.
`Generated.TlsRpc.httpOps` lists every call of the translator service by a handler with the flag "the client id
argument comes only from the connection (or is nil)". A row without the flag is modelled as taking the id from
the request (an attacker-chosen value).
-/
namespace AcraModel.CrossClient
open AcraModel AcraModel.Envelope Generated

/-! ### gRPC: a registered, declared, overriding RPC runs under the connection's identity -/

/-- the RPC is served: a registration serves it and the wrapper table has its row -/
def Served (rpc : String) : Prop := (regOf rpc).isSome = true ∧ (rpcTable.find? (·.name == rpc)).isSome = true

instance (rpc : String) : Decidable (Served rpc) := by unfold Served; infer_instance

theorem serverCall_conn {R : Type}
    (hreg : ∀ r ∈ registrations, r.holds = "tls")
    (hdecl : ∀ r ∈ rpcTable, r.defined = true) (hov : ∀ r ∈ rpcTable, r.overrides = true)
    {rpc : String} (hs : Served rpc) (svc : Request → R) (e : R) (id x p : Bytes) :
    serverCall true rpc svc e (some id) ⟨x, p⟩ = svc ⟨id, p⟩ := by
  obtain ⟨h1, h2⟩ := hs
  unfold serverCall
  cases hr : regOf rpc with
  | none => rw [hr] at h1; cases h1
  | some reg =>
    cases hw : rpcTable.find? (·.name == rpc) with
    | none => rw [hw] at h2; cases h2
    | some row =>
      simp only []
      unfold serverMethod
      rw [if_pos ⟨hreg reg (regOf_mem hr), rfl⟩]
      unfold wrapperMethod
      have hm := List.mem_of_find?_eq_some hw
      simp [hdecl row hm, hov row hm]

theorem serverCall_noconn {R : Type}
    (hreg : ∀ r ∈ registrations, r.holds = "tls")
    (hdecl : ∀ r ∈ rpcTable, r.defined = true) (hov : ∀ r ∈ rpcTable, r.overrides = true)
    (rpc : String) (svc : Request → R) (e : R) (req : Request) :
    serverCall true rpc svc e none req = e := by
  unfold serverCall
  cases hr : regOf rpc with
  | none => rfl
  | some reg =>
    cases hw : rpcTable.find? (·.name == rpc) with
    | none => rfl
    | some row =>
      simp only []
      unfold serverMethod
      rw [if_pos ⟨hreg reg (regOf_mem hr), rfl⟩]
      unfold wrapperMethod
      have hm := List.mem_of_find?_eq_some hw
      simp [hdecl row hm, hov row hm]

/-! ### the services behind the non-decrypt RPCs (`cmd/acra-translator/grpc_api/service.go` → `common/service.go`) -/

/-- `Tokenize` (consistent tokenization of a bytes value under the request's client id) against a token storage -/
def svcTokenize (c : CryptoOps) (st : TokStore) (ty : Nat) (cands : List Bytes) (r : Request) : Out (TokStore × Bytes) :=
  tokenize c st r.clientId r.payload ty cands

/-- `Detokenize` -/
def svcDetokenize (c : CryptoOps) (st : TokStore) (ty : Nat) (r : Request) : Out Bytes :=
  detokenize c st r.clientId r.payload ty

/-- `Encrypt` / `EncryptSym` (kind `.struct` / `.block`): protect under the keys of the request's client id -/
def svcEncrypt (c : CryptoOps) (ks : Store) (k : Kind) (rnd : Bytes) (r : Request) : Out Bytes :=
  protect c (ks r.clientId) k r.payload rnd

/-- `GenerateQueryHash`: the blind index under the HMAC key of the request's client id -/
def svcQueryHash (c : CryptoOps) (hs : HmacStore) (r : Request) : Out Bytes :=
  match hs r.clientId with
  | some key => .ok (generateHash c key r.payload)
  | none => .err

/-- one tokenization request arriving at the server: the identity of its connection, the id it names, the value -/
structure SrvTokOp where
  conn : Bytes
  forged : Bytes
  v : Bytes
  ty : Nat
  cands : List Bytes

/-- a history of Tokenize requests served by `rpc` -/
def runSrvTok (c : CryptoOps) (rpc : String) : TokStore → List SrvTokOp → TokStore
  | st, [] => st
  | st, op :: ops =>
    match serverCall true rpc (svcTokenize c st op.ty op.cands) .err (some op.conn) ⟨op.forged, op.v⟩ with
    | .ok (st', _) => runSrvTok c rpc st' ops
    | _ => runSrvTok c rpc st ops

/-- what the storage sees: the same history with the CONNECTION as the identity of every request -/
def asTokOps (ops : List SrvTokOp) : List TokOp := ops.map fun o => ⟨o.conn, o.v, o.ty, o.cands⟩

theorem runSrvTok_eq
    (hreg : ∀ r ∈ registrations, r.holds = "tls")
    (hdecl : ∀ r ∈ rpcTable, r.defined = true) (hov : ∀ r ∈ rpcTable, r.overrides = true)
    {c : CryptoOps} {rpc : String} (hs : Served rpc) :
    ∀ (ops : List SrvTokOp) (st : TokStore), runSrvTok c rpc st ops = runTok c st (asTokOps ops)
  | [], st => rfl
  | op :: ops, st => by
    unfold runSrvTok
    rw [serverCall_conn hreg hdecl hov hs]
    simp only [asTokOps, List.map_cons, runTok, svcTokenize]
    cases tokenize c st op.conn op.v op.ty op.cands with
    | ok r => exact runSrvTok_eq hreg hdecl hov hs ops r.1
    | err => exact runSrvTok_eq hreg hdecl hov hs ops st
    | panic => exact runSrvTok_eq hreg hdecl hov hs ops st

/-! ### HTTP API -/

/-- one row of `Generated.TlsRpc.httpOps` -/
structure HttpRow where
  handler : String
  op : String
  fromConn : Bool

def httpTable : List HttpRow := TlsRpc.httpOps.map fun t => ⟨t.1, t.2.1, t.2.2⟩

/-- an HTTP handler as the table describes it: `bodyId` is whatever client id an attacker smuggles into the request -/
def httpHandler {R : Type} (row : HttpRow) (svc : Request → R) (conn : ConnId) (bodyId body : Bytes) : R :=
  if row.fromConn then svc ⟨conn.getD [], body⟩ else svc ⟨bodyId, body⟩

theorem httpHandler_fromConn {R : Type} (row : HttpRow) (h : row.fromConn = true) (svc : Request → R) (conn : ConnId) (x y body : Bytes) :
    httpHandler row svc conn x body = httpHandler row svc conn y body := by
  unfold httpHandler
  simp [h]

end AcraModel.CrossClient
