import AcraModel.Wire.PgParse
import AcraModel.Wire.PgRow
/-
PostgreSQL Bind message: model of `NewBindPacket`, `readString`, `readUint16Array`, `readParameterArray`,
`GetParameters`, `SetParameters`, `MarshalInto` (decryptor/postgresql/utils.go) and `ReplaceBind`
(packet_handler.go), plus the specification codec.
-/
namespace AcraModel.Wire.Pg
open AcraModel

structure BindPacket where
  portal : Bytes
  statement : Bytes
  paramFormats : List Nat
  paramValues : List (Option Bytes)    -- none = NULL (nil slice)
  resultFormats : List Nat
deriving Repr, DecidableEq

/-- `readString` -/
def readString (data : Bytes) : Out (Bytes × Bytes) :=
  match indexZero data with
  | none => .err
  | some e => .ok (data.take e, data.drop (e + 1))

def readU16s : Nat → Bytes → List Nat
  | 0, _ => []
  | k+1, s => beVal (s.take 2) :: readU16s k (s.drop 2)

/-- `int(binary.BigEndian.Uint16(remaining[:2]))`: the count in front of an array, under the conversions the source
applies (regenerated from `readUint16Array` / `readParameterArray`; PostgreSQL reads these Int16 as unsigned) -/
def countConv (chain : List String) (b : Bytes) : Int := goConvs chain (beVal b)

/-- `int(binary.BigEndian.Uint32(remaining[:4]))`: the length in front of a parameter value -/
def lenConv (b : Bytes) : Int := goConvs Generated.Wire.pgParamArrayLenConv (beVal b)

/-- `readUint16Array`: a negative count passes the length check and panics in `make([]uint16, itemCount)` -/
def readUint16Array (data : Bytes) : Out (List Nat × Bytes) :=
  if data.length < 2 then .err else
  let count := countConv Generated.Wire.pgU16ArrayCountConv (data.take 2)
  let rest := data.drop 2
  if (rest.length : Int) < 2 * count then .err
  else if count < 0 then .panic
  else .ok (readU16s count.toNat rest, rest.drop (2 * count.toNat))

def readParamsArr : Nat → Bytes → Out (List (Option Bytes) × Bytes)
  | 0, s => .ok ([], s)
  | k+1, s =>
    if s.length < 4 then .err else
    let plen := lenConv (s.take 4)
    let s1 := s.drop 4
    if plen = 0xFFFFFFFF then do
      let (r, rest) ← readParamsArr k s1
      pure (none :: r, rest)
    else if (s1.length : Int) < plen then .err
    else if plen < 0 then .panic            -- `remaining[:parameterLen]` with a negative length
    else do
      let (r, rest) ← readParamsArr k (s1.drop plen.toNat)
      pure (some (s1.take plen.toNat) :: r, rest)

/-- `s.length < k` without walking the whole list -/
def lenLt : Bytes → Nat → Bool
  | _, 0 => false
  | [], _+1 => true
  | _ :: r, k+1 => lenLt r k

theorem lenLt_iff (s : Bytes) (k : Nat) : lenLt s k = true ↔ s.length < k := by
  induction s generalizing k with
  | nil => cases k <;> simp [lenLt]
  | cons a r ih => cases k with
    | zero => simp [lenLt]
    | succ k => simp [lenLt, ih]

theorem lenLt_eq (s : Bytes) (k : Nat) : lenLt s k = decide (s.length < k) := by
  cases h : lenLt s k
  · have : ¬ s.length < k := fun hc => by rw [(lenLt_iff s k).mpr hc] at h; cases h
    simp [this]
  · simp [(lenLt_iff s k).mp h]

/-- compiled form of `readParamsArr` (length checks that do not walk the rest of the packet for every parameter – a
Bind message may carry 65535 parameters); the theorems are about `readParamsArr`, the equality below is kernel-checked -/
def readParamsArrFast : Nat → Bytes → Out (List (Option Bytes) × Bytes)
  | 0, s => .ok ([], s)
  | k+1, s =>
    if lenLt s 4 then .err else
    let plen := lenConv (s.take 4)
    let s1 := s.drop 4
    if plen = 0xFFFFFFFF then do
      let (r, rest) ← readParamsArrFast k s1
      pure (none :: r, rest)
    else if 0 < plen ∧ lenLt s1 plen.toNat then .err
    else if plen < 0 then .panic
    else do
      let (r, rest) ← readParamsArrFast k (s1.drop plen.toNat)
      pure (some (s1.take plen.toNat) :: r, rest)

@[csimp] theorem readParamsArr_eq_fast : @readParamsArr = @readParamsArrFast := by
  funext k s
  induction k generalizing s with
  | zero => rfl
  | succ k ih =>
    unfold readParamsArr readParamsArrFast
    simp only [lenLt_eq, decide_eq_true_eq, ih]
    split
    · rfl
    · split
      · rfl
      · have hiff : ((s.drop 4).length : Int) < lenConv (s.take 4) ↔
            (0 < lenConv (s.take 4) ∧ (s.drop 4).length < (lenConv (s.take 4)).toNat) := by omega
        by_cases hc : ((s.drop 4).length : Int) < lenConv (s.take 4)
        · rw [if_pos hc, if_pos (hiff.mp hc)]
        · rw [if_neg hc, if_neg (fun h => hc (hiff.mpr h))]

/-- `readParameterArray`: a negative count panics in `make([][]byte, parameterCount)` -/
def readParameterArray (data : Bytes) : Out (List (Option Bytes) × Bytes) :=
  if data.length < 2 then .err else
  let count := countConv Generated.Wire.pgParamArrayCountConv (data.take 2)
  if count < 0 then .panic else readParamsArr count.toNat (data.drop 2)

/-- `NewBindPacket` -/
def newBindPacket (data : Bytes) : Out BindPacket := do
  let (portal, d1) ← readString data
  let (statement, d2) ← readString d1
  let (pf, d3) ← readUint16Array d2
  let (pv, d4) ← readParameterArray d3
  let (rf, _) ← readUint16Array d4
  pure ⟨portal, statement, pf, pv, rf⟩

def writeUint16Array (vs : List Nat) : Out Bytes :=
  if vs.length > 65535 then .err else .ok (beBytes 2 vs.length ++ (vs.map (beBytes 2)).flatten)

def writeParam : Option Bytes → Bytes
  | none => beBytes 4 0xFFFFFFFF
  | some b => beBytes 4 b.length ++ b

def writeParameterArray (ps : List (Option Bytes)) : Out Bytes :=
  if ps.length > 65535 then .err
  else if ps.any (fun p => match p with | some b => b.length > 0xFFFFFFFF | none => false) then .err
  else .ok (beBytes 2 ps.length ++ (ps.map writeParam).flatten)

/-- `MarshalInto` (into an empty buffer) -/
def BindPacket.marshal (p : BindPacket) : Out Bytes := do
  let a ← writeUint16Array p.paramFormats
  let b ← writeParameterArray p.paramValues
  let c ← writeUint16Array p.resultFormats
  pure (p.portal ++ [0] ++ p.statement ++ [0] ++ a ++ b ++ c)

/-- `GetParameters`: every parameter with its format (`true` = binary); fails on inconsistent formats -/
def BindPacket.getParameters (p : BindPacket) : Out (List (Bool × Option Bytes)) :=
  let rec go : Nat → List (Option Bytes) → Out (List (Bool × Option Bytes))
    | _, [] => .ok []
    | i, v :: vs => do
      let f ← formatByIndex i p.paramFormats
      let r ← go (i+1) vs
      pure ((f, v) :: r)
  go 0 p.paramValues

/-- `SetParameters` -/
def BindPacket.setParameters (p : BindPacket) (values : List (Bool × Option Bytes)) : BindPacket :=
  match values with
  | [] => { p with paramFormats := [] }
  | (f0, _) :: rest =>
    let code (b : Bool) : Nat := if b then Generated.Wire.pgBindFormatBinary else Generated.Wire.pgBindFormatText
    let fmts := if rest.all (fun v => v.1 = f0) then [code f0] else values.map fun v => code v.1
    { p with paramFormats := fmts, paramValues := values.map (·.2) }

/-- the Bind part of `handleBindPacket` with a per-parameter transformation (NULL parameters are passed to
`g` as `none`; `g` returns the new value): parse, extract, transform, `SetParameters`, `ReplaceBind` -/
def rewriteBind (g : Nat → Bool → Option Bytes → Out (Option Bytes)) (p : Packet) : Out Packet := do
  let bp ← newBindPacket p.body
  -- "can't extract parameters": the packet is forwarded unchanged
  match bp.getParameters with
  | .err => pure p
  | .panic => .panic
  | .ok params =>
  let rec go : Nat → List (Bool × Option Bytes) → Out (List (Bool × Option Bytes))
    | _, [] => .ok []
    | i, (f, v) :: r => do
      let v' ← g i f v
      let r' ← go (i+1) r
      pure ((f, v') :: r')
  -- an error of the observers ("Failed to handle Bind packet") leaves the packet unchanged
  match go 0 params with
  | .err => pure p
  | .panic => .panic
  | .ok params' =>
  let bp' := bp.setParameters params'
  -- so does a failure to marshal ("Failed to update Bind packet")
  match bp'.marshal with
  | .err => pure p
  | .panic => .panic
  | .ok body => pure { p with body := body, lenBuf := packetLength body.length }

/-! ### specification codec -/

def encodeBind (portal statement : Bytes) (pf : List Nat) (pv : List (Option Bytes)) (rf : List Nat) : Bytes :=
  portal ++ [0] ++ statement ++ [0] ++ beBytes 2 pf.length ++ (pf.map (beBytes 2)).flatten ++
    beBytes 2 pv.length ++ (pv.map writeParam).flatten ++ beBytes 2 rf.length ++ (rf.map (beBytes 2)).flatten

end AcraModel.Wire.Pg
