import AcraModel.Wire.Bytea
/-! Round-trip theorems for the PostgreSQL bytea text codecs (hex and escape/octal format). -/
namespace AcraModel.Wire.Bytea
open AcraModel

theorem toNat_ofNat_lt (n : Nat) (h : n < 256) : (UInt8.ofNat n).toNat = n := by
  simp [UInt8.toNat_ofNat']; omega

theorem fromHexChar_hexChar (n : Nat) (h : n < 16) : fromHexChar (hexChar n) = some n := by
  unfold fromHexChar hexChar
  by_cases h10 : n < 10
  · simp only [if_pos h10]
    rw [toNat_ofNat_lt _ (by omega)]
    rw [if_pos (by omega)]
    congr 1; omega
  · simp only [if_neg h10]
    rw [toNat_ofNat_lt _ (by omega)]
    rw [if_neg (by omega), if_pos (by omega)]
    congr 1; omega

theorem hexDecode_hexEncode (b : Bytes) : hexDecode (hexEncode b) = some b := by
  induction b with
  | nil => rfl
  | cons c r ih =>
    have hc := c.toNat_lt
    simp only [hexEncode, hexDecode]
    rw [fromHexChar_hexChar _ (by omega), fromHexChar_hexChar _ (by omega), ih]
    simp only [Option.bind_eq_bind, Option.bind_some, Option.pure_def]
    congr 2
    rw [show 16 * (c.toNat / 16) + c.toNat % 16 = c.toNat by omega]
    exact UInt8.ofNat_toNat

theorem decodeEscaped_pgEncodeToHex (b : Bytes) : decodeEscaped (pgEncodeToHex b) = .ok b := by
  simp only [decodeEscaped, pgEncodeToHex, hexDecode_hexEncode]

theorem hexDecode_length : ∀ (s b : Bytes), hexDecode s = some b → s.length = 2 * b.length
  | [], b, h => by simp [hexDecode] at h; subst h; rfl
  | [_], b, h => by simp [hexDecode] at h
  | x :: y :: r, b, h => by
    simp only [hexDecode, Option.bind_eq_bind, Option.pure_def] at h
    cases hx : fromHexChar x with
    | none => simp [hx] at h
    | some a =>
      cases hy : fromHexChar y with
      | none => simp [hx, hy] at h
      | some a' =>
        cases hr : hexDecode r with
        | none => simp [hx, hy, hr] at h
        | some rest =>
          simp [hx, hy, hr] at h
          subst h
          have := hexDecode_length r rest hr
          simp only [List.length_cons, this]; omega

theorem dor_bs_bs (rest : List Nat) :
    decodeOctalRunes (92 :: 92 :: rest) = (decodeOctalRunes rest).map (92 :: ·) := by
  rw [decodeOctalRunes]
  simp [isControl]

theorem octDigit_add (a : Nat) (ha : a < 8) : octDigit (48 + a) = some a := by
  unfold octDigit
  rw [if_pos (by omega)]; congr 1; omega

theorem dor_oct (a b c : Nat) (rest : List Nat) (ha : a < 8) (hb : b < 8) (hc : c < 8) :
    decodeOctalRunes (92 :: (48 + a) :: (48 + b) :: (48 + c) :: rest)
      = (decodeOctalRunes rest).map (UInt8.ofNat ((((a * 8) % 256 + b) * 8) % 256 + c) :: ·) := by
  rw [decodeOctalRunes]
  · simp only [octDigit_add, ha, hb, hc]
    simp [isControl]
  · omega

theorem dor_plain (ch : Nat) (rest : List Nat) (h1 : 32 ≤ ch) (h2 : ch ≤ 126) (h3 : ch ≠ 92) :
    decodeOctalRunes (ch :: rest) = (decodeOctalRunes rest).map (UInt8.ofNat ch :: ·) := by
  conv => lhs; unfold decodeOctalRunes
  have hc : isControl ch = false := by
    simp [isControl]; omega
  have he : encodeRune ch = [UInt8.ofNat ch] := by
    unfold encodeRune; rw [if_pos (by omega)]
  simp [hc, h3, he]
  done

theorem toRunes_ascii : ∀ (s : Bytes), (∀ c ∈ s, c.toNat < 128) → toRunes s = s.map (·.toNat)
  | [], _ => by rw [toRunes]; rfl
  | b :: r, h => by
    have hb : b.toNat < 128 := h b (by simp)
    have hd : decodeRune (b :: r) = (b.toNat, 1) := by
      unfold decodeRune; simp [hb]
    rw [toRunes]
    simp only [hd]
    rw [show max 1 1 = 1 from rfl, List.drop_one, List.tail_cons,
      toRunes_ascii r (fun c hc => h c (List.mem_cons_of_mem _ hc))]
    rfl

theorem isPrintable_iff (c : UInt8) : isPrintable c = true ↔ 32 ≤ c.toNat ∧ c.toNat ≤ 126 := by
  simp [isPrintable]

theorem encodeToOctal_printable (b : Bytes) : ∀ c ∈ encodeToOctal b, isPrintable c = true := by
  induction b with
  | nil => intro c hc; simp [encodeToOctal] at hc
  | cons x r ih =>
    have hx := x.toNat_lt
    intro c hc
    unfold encodeToOctal at hc
    by_cases h92 : x.toNat = 92
    · rw [if_pos h92] at hc
      simp only [List.mem_cons] at hc
      rcases hc with rfl | rfl | hc
      · decide
      · decide
      · exact ih c hc
    · rw [if_neg h92] at hc
      by_cases hp : isPrintable x = true
      · rw [if_neg (by simp [hp])] at hc
        simp only [List.mem_cons] at hc
        rcases hc with rfl | hc
        · exact hp
        · exact ih c hc
      · rw [if_pos hp] at hc
        simp only [List.mem_cons] at hc
        rcases hc with rfl | rfl | rfl | rfl | hc
        · decide
        · rw [isPrintable_iff, toNat_ofNat_lt _ (by omega)]; omega
        · rw [isPrintable_iff, toNat_ofNat_lt _ (by omega)]; omega
        · rw [isPrintable_iff, toNat_ofNat_lt _ (by omega)]; omega
        · exact ih c hc

theorem eq_of_toNat (c : UInt8) (n : Nat) (h : c.toNat = n) : c = UInt8.ofNat n := by
  rw [← h]; exact UInt8.ofNat_toNat.symm

theorem decodeOctalRunes_encodeToOctal (b : Bytes) :
    decodeOctalRunes ((encodeToOctal b).map (·.toNat)) = some b := by
  induction b with
  | nil => simp [encodeToOctal, decodeOctalRunes]
  | cons c r ih =>
    have hc := c.toNat_lt
    unfold encodeToOctal
    by_cases h92 : c.toNat = 92
    · rw [if_pos h92]
      simp only [List.map_cons]
      rw [show (92:UInt8).toNat = 92 from rfl, dor_bs_bs, ih, eq_of_toNat c 92 h92]
      rfl
    · rw [if_neg h92]
      by_cases hp : isPrintable c = true
      · rw [if_neg (by simp [hp])]
        rw [isPrintable_iff] at hp
        simp only [List.map_cons]
        rw [dor_plain _ _ hp.1 hp.2 h92, ih, UInt8.ofNat_toNat]
        rfl
      · rw [if_pos hp]
        simp only [List.map_cons]
        rw [show (92:UInt8).toNat = 92 from rfl, toNat_ofNat_lt _ (by omega), toNat_ofNat_lt _ (by omega),
          toNat_ofNat_lt _ (by omega), dor_oct _ _ _ _ (by omega) (by omega) (by omega), ih]
        simp only [Option.map_some]
        congr 2
        rw [show (c.toNat / 64 * 8 % 256 + c.toNat / 8 % 8) * 8 % 256 + c.toNat % 8 = c.toNat by omega]
        exact UInt8.ofNat_toNat

theorem decodeOctal_encodeToOctal (b : Bytes) : decodeOctal (encodeToOctal b) = some b := by
  unfold decodeOctal
  rw [toRunes_ascii, decodeOctalRunes_encodeToOctal]
  intro c hc
  have := (isPrintable_iff c).1 (encodeToOctal_printable b c hc)
  omega

theorem encodeToOctal_not_hex_prefix (b : Bytes) (h : Bytes) : encodeToOctal b ≠ 92 :: 120 :: h := by
  cases b with
  | nil => simp [encodeToOctal]
  | cons c r =>
    have hc := c.toNat_lt
    unfold encodeToOctal
    by_cases h92 : c.toNat = 92
    · rw [if_pos h92]; intro he; injection he with _ he; injection he with he _
      exact absurd he (by decide)
    · rw [if_neg h92]
      by_cases hp : isPrintable c = true
      · rw [if_neg (by simp [hp])]
        intro he; injection he with he _
        exact h92 (by rw [he]; rfl)
      · rw [if_pos hp]
        intro he; injection he with _ he; injection he with he _
        have := congrArg UInt8.toNat he
        rw [toNat_ofNat_lt _ (by omega)] at this
        have h120 : (120 : UInt8).toNat = 120 := rfl
        omega

theorem decodeEscaped_encodeToOctal (b : Bytes) : decodeEscaped (encodeToOctal b) = .ok b := by
  unfold decodeEscaped
  split
  · next h heq => exact absurd heq (encodeToOctal_not_hex_prefix b h)
  · rw [decodeOctal_encodeToOctal]
end AcraModel.Wire.Bytea
