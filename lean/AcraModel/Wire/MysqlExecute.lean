import AcraModel.Wire.LenEnc
import AcraModel.Wire.MysqlPacket
/-
MySQL COM_STMT_EXECUTE parameter block: model of `Packet.GetBindParameters`, `Packet.SetParameters`
(decryptor/mysql/packet.go) and of `NewMysqlBoundValue`, `mysqlBoundValue.{SetData,GetData,Encode}`
(decryptor/mysql/prepared_statements.go), plus the specification codec `encodeExecute`.

Layout: command(1) statement-id(4) flags(1) iteration-count(4) | NULL bitmap ((n+7)/8, offset 0) |
new-params-bound flag(1) | n × (type, unsigned flag) | values of the non-NULL parameters (fixed-width numerics as
they are, everything else as length-encoded strings).

Acra holds every value as TEXT: integers as their signed decimal spelling (`strconv.FormatInt` / `ParseInt`),
FLOAT/DOUBLE through `strconv.FormatFloat(…, 'G', -1, bits)` / `ParseFloat`. The two float functions are a parameter
of the model (`FloatOps`): theorems assume the strconv contract (shortest spelling parses back to the same finite
value) per value; the driver runs a stand-in with the same observable behaviour (finite values and infinities come
back bit-identical, every NaN comes back as Go's canonical NaN).

The model follows the code after `fix:` 06 (NULL parameters carry no value bytes) and 11 (bounds checks).
Tables (`NumericTypesStorageBytes`, the switches of `NewMysqlBoundValue` and `Encode`, the offset 10, TypeBlob for a
changed value, the types whose unsigned flag is recomputed) come from `Generated.Wire`.
-/
namespace AcraModel.Wire.My
open AcraModel AcraModel.Wire.LenEnc

/-- `strconv.FormatFloat(v, 'G', -1, bits)` and `strconv.ParseFloat(s, bits)` on raw little-endian bit patterns of `w` bytes -/
structure FloatOps where
  fmt : Nat → Bytes → Bytes
  parse : Nat → Bytes → Option Bytes

/-! ### decimal text of Go integers -/

/-- decimal digits of a natural number, most significant first (`strconv.FormatUint(n, 10)`) -/
def natDec (n : Nat) : Bytes :=
  if h : n < 10 then [UInt8.ofNat (48 + n)] else natDec (n / 10) ++ [UInt8.ofNat (48 + n % 10)]
termination_by n
decreasing_by omega

/-- `strconv.FormatInt(i, 10)` -/
def fmtInt (i : Int) : Bytes := if i < 0 then 45 :: natDec i.natAbs else natDec i.natAbs

def parseDigits (acc : Nat) : Bytes → Option Nat
  | [] => some acc
  | c :: r => if 48 ≤ c.toNat ∧ c.toNat ≤ 57 then parseDigits (10 * acc + (c.toNat - 48)) r else none

/-- digits only, at least one (`ParseUint(s, 10, _)` without the range check) -/
def parseNatDec (s : Bytes) : Option Nat := if s = [] then none else parseDigits 0 s

/-- `strconv.ParseInt(s, 10, bits)`: optional sign, digits, range `[-2^(bits-1), 2^(bits-1))` -/
def parseInt (bits : Nat) (s : Bytes) : Option Int :=
  match s with
  | [] => none
  | c :: r =>
    let neg := c.toNat = 45
    let ds := if c.toNat = 43 ∨ c.toNat = 45 then r else s
    match parseNatDec ds with
    | none => none
    | some un =>
      if ¬ neg ∧ un ≥ 2^(bits-1) then none
      else if neg ∧ un > 2^(bits-1) then none
      else some (if neg then -(un : Int) else (un : Int))

/-- two's-complement reading of a `bits`-bit pattern (Go `intN`) -/
def toSigned (bits v : Nat) : Int := if v < 2^(bits-1) then (v : Int) else (v : Int) - ((2^bits : Nat) : Int)

/-- `binary.Write(…, LittleEndian, intN(i))` -/
def intBytes (w : Nat) (i : Int) : Bytes := leBytes w (i % ((2^(8*w) : Nat) : Int)).toNat

/-! ### bound values -/

/-- `mysqlBoundValue` (the format is always binary here); `data = none` is Go nil (SQL NULL) -/
structure BoundValue where
  paramType : Nat
  data : Option Bytes
deriving Repr, DecidableEq

def hdrLen : Nat := Generated.Wire.myExecuteHeaderLen
def changedType : Nat := Generated.Wire.myChangedParamType

/-- `base_mysql.NumericTypesStorageBytes[t]` -/
def storageBytes (t : Nat) : Option Nat := (Generated.Wire.myNumericStorageBytes.find? (·.1 = t)).map (·.2)

inductive NumKind where
  | int (w : Nat)      -- read/written as a w-byte two's-complement integer
  | float (w : Nat)
  | null
deriving Repr, DecidableEq

/-- the `switch paramType` of `NewMysqlBoundValue`: Go type the value is read into -/
def decodeKind (t : Nat) : Option NumKind :=
  match Generated.Wire.myBoundDecode.find? (·.1 = t) with
  | some (_, "int8") => some (.int 1)
  | some (_, "int16") => some (.int 2)
  | some (_, "int32") => some (.int 4)
  | some (_, "int64") => some (.int 8)
  | some (_, "float32") => some (.float 4)
  | some (_, "float64") => some (.float 8)
  | some (_, "null") => some .null
  | _ => none

/-- the `switch m.paramType` of `Encode`: (kind, bit size of the strconv parse) -/
def encodeKind (t : Nat) : Option NumKind :=
  match Generated.Wire.myBoundEncode.find? (·.1 = t) with
  | some (_, "int", b) => some (.int (b / 8))
  | some (_, "float", b) => some (.float (b / 8))
  | some (_, "null", _) => some .null
  | _ => none

/-- `NewMysqlBoundValue(data, BinaryFormat, t)`: value and number of bytes consumed -/
def newBoundValue (fo : FloatOps) (data : Bytes) (t : Nat) : Out (BoundValue × Nat) :=
  match storageBytes t with
  | none => do
    let (v, n) ← lengthEncodedString data
    pure (⟨t, some (v.getD [])⟩, n)
  | some sb =>
    match decodeKind t with
    | some .null => pure (⟨t, none⟩, sb)
    | some (.int w) =>
      if data.length < w then .err
      else pure (⟨t, some (fmtInt (toSigned (8 * w) (leVal (data.take w))))⟩, sb)
    | some (.float w) =>
      if data.length < w then .err
      else pure (⟨t, some (fo.fmt w (data.take w))⟩, sb)
    | none => .err

/-- `paramTypes[i] = packet.data[pos]; pos += 2` -/
def readTypes (d : Bytes) : Nat → Nat → Out (List Nat)
  | 0, _ => .ok []
  | k+1, pos => do
    let t ← goIndex d pos
    let ts ← readTypes d k (pos + 2)
    pure (t.toNat :: ts)

/-- the value loop of `GetBindParameters` -/
def readVals (fo : FloatOps) (d bitmap : Bytes) : List Nat → Nat → Nat → Out (List BoundValue)
  | [], _, _ => .ok []
  | t :: ts, i, pos => do
    let isNull : Bool ← (if bitmap.length > 0 then do
        let b ← goIndex bitmap (i / 8)
        pure (decide ((b.toNat >>> (i % 8)) % 2 = 1))
      else pure false)
    if isNull then do
      let rest ← readVals fo d bitmap ts (i+1) pos
      pure (⟨t, none⟩ :: rest)
    else do
      let tail ← goSliceFrom d pos
      let (v, n) ← newBoundValue fo tail t
      let rest ← readVals fo d bitmap ts (i+1) (pos + n)
      pure (v :: rest)

/-- `Packet.GetBindParameters(paramNum)`; `none` = a slice of nil values (new-params-bound flag ≠ 1: the
parameters are not in this packet) -/
def getBindParameters (fo : FloatOps) (d : Bytes) (paramNum : Nat) : Out (Option (List BoundValue)) :=
  if paramNum = 0 then .ok (some [])
  else
    let nbl := (paramNum + 7) / 8
    if d.length < hdrLen + nbl + 1 then .err
    else do
      let bitmap ← (if nbl > 0 then goSlice d hdrLen (hdrLen + nbl) else pure [])
      let pos := hdrLen + nbl
      let flag ← goIndex d pos
      if flag.toNat ≠ 1 then pure none
      else do
        let pos := pos + 1
        if d.length - pos < 2 * paramNum then .err
        else do
          let types ← readTypes d paramNum pos
          let pos := pos + 2 * paramNum
          let vals ← readVals fo d bitmap types 0 pos
          pure (some vals)

/-- `mysqlBoundValue.SetData(newData, nil)` with a non-nil `newData`: a different value becomes a blob -/
def BoundValue.setData (v : BoundValue) (newData : Bytes) : BoundValue :=
  if v.data.getD [] = newData then v else ⟨changedType, some newData⟩

/-- `SetData` with a tokenizing column setting: the token type (LONG / LONGLONG) is declared afterwards -/
def BoundValue.setDataTok (v : BoundValue) (newData : Bytes) (tokType : Option Nat) : BoundValue :=
  match tokType with
  | some t => { v.setData newData with paramType := t }
  | none => v.setData newData

/-- `mysqlBoundValue.Encode` -/
def BoundValue.encode (fo : FloatOps) (v : BoundValue) : Out Bytes :=
  match storageBytes v.paramType with
  | none => .ok (putLengthEncodedString v.data)
  | some sb =>
    let fit (w : Bytes) : Bytes := (w ++ List.replicate (sb - w.length) 0).take sb
    match encodeKind v.paramType with
    | some .null => if v.data.isSome then .err else .ok (fit [])
    | some (.int w) =>
      match parseInt (8 * w) (v.data.getD []) with
      | none => .err
      | some i => .ok (fit (intBytes w i))
    | some (.float w) =>
      match fo.parse w (v.data.getD []) with
      | none => .err
      | some b => .ok (fit b)
    | none => .err

/-- the type loop of `SetParameters`: two bytes per parameter; the type byte becomes the bound type, the flag byte
of a LONG / LONGLONG parameter is recomputed from the sign of its (text) value -/
def setTypes (d : Bytes) : List BoundValue → Nat → Out Bytes
  | [], _ => .ok []
  | v :: vs, pos => do
    let pt ← goSlice d pos (pos + 2)
    let flag0 := (pt.drop 1).headD 0
    let flag ← (if Generated.Wire.mySignFlagTypes.contains v.paramType then
        match v.data with
        | none => pure flag0
        | some data =>
          match parseInt 64 data with
          | none => .err
          | some i => pure (if i < 0 then UInt8.ofNat Generated.Wire.mySignedBinaryValue
                            else UInt8.ofNat Generated.Wire.myUnsignedBinaryValue)
      else pure flag0)
    let rest ← setTypes d vs (pos + 2)
    pure (UInt8.ofNat v.paramType :: flag :: rest)

def encodeVals (fo : FloatOps) : List BoundValue → Out Bytes
  | [] => .ok []
  | v :: vs =>
    match v.data with
    | none => encodeVals fo vs
    | some _ => do
      let e ← v.encode fo
      let rest ← encodeVals fo vs
      pure (e ++ rest)

/-- `Packet.SetParameters(values)` -/
def setParameters (fo : FloatOps) (p : Packet) (values : List BoundValue) : Out Packet :=
  if values.length = 0 then .ok p
  else do
    let pos := hdrLen + ((values.length + 7) >>> 3) + 1
    let head ← goSlice p.data 0 pos
    let types ← setTypes p.data values pos
    let vals ← encodeVals fo values
    pure (setData p (head ++ types ++ vals))

/-- what an `OnBind` observer does with the values: `GetData`, transform the non-NULL ones, `SetData` -/
def transformVals (g : Nat → Bytes → Out Bytes) : List BoundValue → Nat → Out (List BoundValue)
  | [], _ => .ok []
  | v :: vs, i => do
    let v' ← (match v.data with
      | none => pure v
      | some d => do let d' ← g i d; pure (v.setData d'))
    let rest ← transformVals g vs (i+1)
    pure (v' :: rest)

/-- the COM_STMT_EXECUTE path of `ProxyClientConnection` with a changing observer:
`GetBindParameters → OnBind → SetParameters`; `none` = parameters not in the packet (nothing is rewritten) -/
def rewriteExecute (fo : FloatOps) (g : Nat → Bytes → Out Bytes) (p : Packet) (paramNum : Nat) : Out (Option Packet) := do
  let vals ← getBindParameters fo p.data paramNum
  match vals with
  | none => pure none
  | some vs => do
    let vs' ← transformVals g vs 0
    let p' ← setParameters fo p vs'
    pure (some p')

/-! ### specification codec -/

/-- NULL bitmap of COM_STMT_EXECUTE: bit `i` (offset 0) set iff parameter `i` is NULL -/
def execBitmap (vals : List (Option Bytes)) : Bytes :=
  (List.range ((vals.length + 7) / 8)).map fun byte =>
    UInt8.ofNat ((List.range 8).foldl (fun acc bit =>
      if vals[byte * 8 + bit]? = some none then acc + 2^bit else acc) 0)

/-- wire form of one non-NULL parameter value under a type: fixed-width numerics as they are, everything else length-encoded -/
def encodeParamVal (t : Nat) (v : Bytes) : Bytes :=
  match storageBytes t with
  | some _ => v
  | none => putLengthEncodedString (some v)

def encodeParamVals : List (Nat × Nat) → List (Option Bytes) → Bytes
  | (t, _) :: ts, some v :: r => encodeParamVal t v ++ encodeParamVals ts r
  | _ :: ts, none :: r => encodeParamVals ts r
  | _, _ => []

/-- a COM_STMT_EXECUTE payload with bound parameters: `head` is the 10-byte prefix (command, statement id, flags,
iteration count), `types` the (type, unsigned flag) pairs, `vals` the wire values (`none` = NULL) -/
def encodeExecute (head : Bytes) (types : List (Nat × Nat)) (vals : List (Option Bytes)) : Bytes :=
  head ++ execBitmap vals ++ [1] ++ types.flatMap (fun tf => [UInt8.ofNat tf.1, UInt8.ofNat tf.2]) ++ encodeParamVals types vals

end AcraModel.Wire.My
