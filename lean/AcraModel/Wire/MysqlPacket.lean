import AcraModel.Basic.Bytes
import AcraModel.Generated.Wire
/-
MySQL packet framing: model of `decryptor/mysql/packet.go` (`readPacket`, `Dump`, `SetData`,
`updatePacketSize`, `replaceQuery`) and the protocol's specification codec for (possibly multi-packet)
payloads. A connection is the byte string still to be read; `io.ReadFull` fails on a short stream.
-/
namespace AcraModel.Wire.My
open AcraModel

def maxPayloadLen : Nat := Generated.Wire.myMaxPayloadLen
def headerSize : Nat := Generated.Wire.myPacketHeaderSize

/-- `io.ReadFull(connection, buf[:k])` -/
def readN (s : Bytes) (k : Nat) : Out (Bytes × Bytes) :=
  if s.length < k then .err else .ok (s.take k, s.drop k)

structure Packet where
  header : Bytes   -- 3-byte little-endian payload length + sequence id
  data : Bytes
deriving Repr, DecidableEq

/-- `GetPacketPayloadLength`: first three header bytes, little-endian -/
def payloadLength (header : Bytes) : Nat := leVal (header.take 3)

/-- `Packet.readPacket`: the header buffer is overwritten by every fragment read, the payloads are
concatenated. Returns (last header read, payload, rest of the stream). -/
def readPacket (s : Bytes) : Out (Bytes × Bytes × Bytes) :=
  if s.length < headerSize then .err else
  let header := s.take headerSize
  let s1 := s.drop headerSize
  let length := payloadLength header
  if length < 1 then .err
  else if s1.length < length then .err
  else
    let data := s1.take length
    let s2 := s1.drop length
    if length < maxPayloadLen then .ok (header, data, s2)
    else
      match readPacket s2 with
      | .ok (h', d', rest) => .ok (h', data ++ d', rest)
      | .err => .err
      | .panic => .panic
termination_by s.length
decreasing_by
  simp only [List.length_drop]
  simp only [headerSize, Generated.Wire.myPacketHeaderSize] at *
  omega

/-- `ReadPacket(connection)` -/
def read (s : Bytes) : Out (Packet × Bytes) := do
  let (h, d, rest) ← readPacket s
  pure (⟨h, d⟩, rest)

/-- `Dump` -/
def dump (p : Packet) : Bytes := p.header ++ p.data

/-- `updatePacketSize`: the low three bytes of the size, sequence id unchanged -/
def updatePacketSize (header : Bytes) (n : Nat) : Bytes := leBytes 3 n ++ header.drop 3

/-- `SetData` -/
def setData (p : Packet) (d : Bytes) : Packet := ⟨updatePacketSize p.header d.length, d⟩

/-- `replaceQuery`: both branches leave `data[0] ++ newQuery`; an empty payload (no command byte) is left alone -/
def replaceQuery (p : Packet) (q : Bytes) : Out Packet :=
  match p.data with
  | [] => .ok p
  | c :: _ => .ok ⟨updatePacketSize p.header (q.length + 1), c :: q⟩

/-! ### specification codec -/

/-- one packet: 3-byte little-endian length, sequence id, payload (`|payload| < 2^24`) -/
def frame (seq : Nat) (payload : Bytes) : Bytes := leBytes 3 payload.length ++ [UInt8.ofNat (seq % 256)] ++ payload

/-- a payload as the protocol sends it: fragments of `maxPayloadLen` bytes with consecutive sequence
ids; the last fragment is shorter than `maxPayloadLen` (possibly empty) -/
def encodePayload (seq : Nat) (payload : Bytes) : Bytes :=
  if payload.length < maxPayloadLen then frame seq payload
  else frame seq (payload.take maxPayloadLen) ++ encodePayload (seq + 1) (payload.drop maxPayloadLen)
termination_by payload.length
decreasing_by
  simp only [List.length_drop]
  simp only [maxPayloadLen, Generated.Wire.myMaxPayloadLen] at *
  omega

end AcraModel.Wire.My
