import AcraModel.Basic.Bytes
import AcraModel.Generated.LenEnc
/-
MySQL length-encoded integers and strings: model of `decryptor/mysql/base/utils.go`.
`lengthEncodedInt` / `putLengthEncodedInt` are *interpreters of the regenerated tables*
(`Generated.LenEnc.readCases`, `putCases`): the constants, guards, byte indices and shifts come
from the current source on every run.
-/
namespace AcraModel.Wire.LenEnc
open AcraModel

/-- `uint64(data[i])<<k | …` ; Go panics when an index is out of range -/
def orVal (data : Bytes) : List (Nat × Nat) → Out Nat
  | [] => .ok 0
  | (i, sh) :: r => do
    let b ← goIndex data i
    let rest ← orVal data r
    pure ((b.toNat <<< sh) % 2^64 ||| rest)

structure IntRes where
  num : Nat
  isNull : Bool
  n : Nat
deriving Repr, DecidableEq

/-- generic reader over a case table -/
def readIntWith (emptyErr : Bool) (cases : List (Nat × Nat × Nat × Bool × List (Nat × Nat)))
    (dflt : Nat × List (Nat × Nat)) (data : Bytes) : Out IntRes :=
  if data.length = 0 ∧ emptyErr then .err else do
    let b0 ← goIndex data 0
    match cases.find? (fun c => c.1 = b0.toNat) with
    | some (_, guard, n, isNull, pairs) =>
      if data.length < guard then .err else do
        let num ← orVal data pairs
        pure ⟨num, isNull, n⟩
    | none => do
      let num ← orVal data dflt.2
      pure ⟨num, false, dflt.1⟩

/-- `LengthEncodedInt` -/
def lengthEncodedInt (data : Bytes) : Out IntRes :=
  readIntWith Generated.LenEnc.emptyIsError Generated.LenEnc.readCases Generated.LenEnc.readDefault data

def putWith : List (Nat × Int × List Nat) → Nat → Option Bytes
  | [], _ => none
  | (t, marker, shifts) :: r, n =>
    if n ≤ t then
      let body := shifts.map (fun sh => UInt8.ofNat ((n >>> sh) % 256))
      some (if marker < 0 then body else UInt8.ofNat marker.toNat :: body)
    else putWith r n

/-- `PutLengthEncodedInt` for `n : uint64` (Go returns nil when no case applies) -/
def putLengthEncodedInt (n : Nat) : Bytes := (putWith Generated.LenEnc.putCases n).getD []

/-- `PutLengthEncodedString`; `none` is Go's nil slice (SQL NULL) -/
def putLengthEncodedString : Option Bytes → Bytes
  | none => [0xfb]
  | some b => putLengthEncodedInt b.length ++ b

/-- `LengthEncodedString` (after the `fix:` commit that checks the error and compares lengths as
uint64): result is (value or NULL, bytes consumed). -/
def lengthEncodedString (data : Bytes) : Out (Option Bytes × Nat) := do
  let r ← lengthEncodedInt data
  if r.isNull then pure (none, r.n)
  else if r.num > data.length - r.n then .err
  else do
    let v ← goSlice data r.n (r.n + r.num)
    pure (some v, r.n + r.num)

/-- `SkipLengthEncodedString` -/
def skipLengthEncodedString (data : Bytes) : Out Nat := do
  let r ← lengthEncodedInt data
  if r.num < 1 then pure r.n
  else if r.num > data.length - r.n then .err
  else pure (r.n + r.num)

end AcraModel.Wire.LenEnc
